(* SigParseProofs.v — the signature parser of SigParse.v against the printer of Sig.v:
   parse (print t) = t for every well-formed t, parse never runs out of fuel, whatever parse
   accepts is well formed (so printing is a fixed point), and the exponential step count. *)
From Coq Require Import String Ascii List NArith Bool Arith Lia.
From QV Require Import Sig Peg PegProofs SigParse.
Import ListNotations.
Local Open Scope string_scope.

Lemma all_chars_same : @all_chars_p = @all_chars.
Proof. reflexivity. Qed.

(* ---------- character classes ---------- *)
Ltac ascii_cases c := destruct c as [[] [] [] [] [] [] [] []].

Lemma alpha_not_ws c : is_alpha c = true -> @is_ws c = false.
Proof. ascii_cases c; vm_compute; congruence. Qed.
Lemma alpha_alnum c : is_alpha c = true -> is_alnum_ c = true.
Proof. ascii_cases c; vm_compute; congruence. Qed.
Lemma alnum_not_lt c : is_alnum_ c = true -> Ascii.eqb c "<" = false.
Proof. ascii_cases c; vm_compute; congruence. Qed.

(* ---------- the shape of struct names ---------- *)
Lemma last_char c r : exists i x, String c r = i ++ String x "".
Proof.
  revert c; induction r as [|c' r IH]; intro c.
  - exists "", c. reflexivity.
  - destruct (IH c') as (i & x & E). exists (String c i), x. cbn. now rewrite E.
Qed.

Lemma substring_skip a k b : substring (String.length a) k (a ++ b) = substring 0 k b.
Proof. induction a as [|c a IH]; cbn; [reflexivity|exact IH]. Qed.

Lemma substring_take a b : substring 0 (String.length a) (a ++ b) = a.
Proof.
  induction a as [|c a IH]; cbn.
  - destruct b; reflexivity.
  - now rewrite IH.
Qed.

Lemma drop_last_gt_app i x : drop_last_gt (i ++ String x "") = if Ascii.eqb x ">" then Some i else None.
Proof.
  unfold drop_last_gt. rewrite slen_app. cbn [String.length]. rewrite Nat.add_1_r.
  rewrite substring_skip, substring_take. cbn.
  destruct (Ascii.eqb x ">"); reflexivity.
Qed.

Lemma drop_last_gt_spec s i : drop_last_gt s = Some i -> s = i ++ ">".
Proof.
  destruct s as [|c r]; [discriminate|].
  destruct (last_char c r) as (j & x & E). rewrite E, drop_last_gt_app.
  destruct (Ascii.eqb x ">") eqn:Hx; [|discriminate].
  apply Ascii.eqb_eq in Hx. subst x. intro H. now inversion H.
Qed.

Lemma split_lt_spec s a b : split_lt s = Some (a, b) -> s = a ++ String "<" b.
Proof.
  revert a b; induction s as [|c s IH]; cbn; intros a b H; [discriminate|].
  destruct (Ascii.eqb c "<") eqn:Hc.
  - apply Ascii.eqb_eq in Hc. inversion H; subst. reflexivity.
  - destruct (split_lt s) as [[a' b']|]; [|discriminate]. inversion H; subst.
    cbn. now rewrite (IH a' b eq_refl).
Qed.

Lemma split_lt_app a x : all_chars is_alnum_ a = true -> split_lt (a ++ String "<" x) = Some (a, x).
Proof.
  induction a as [|c a IH]; cbn; intro H; [reflexivity|].
  apply andb_prop in H as [Hc Ha]. rewrite (alnum_not_lt c Hc), IH by assumption. reflexivity.
Qed.

Definition sn_shape (n : string) : Prop :=
  is_ident n = true \/
  exists a b, n = a ++ "<" ++ b ++ ">" /\ is_ident a = true /\ is_ident b = true.

Lemma is_struct_name_shape n : is_struct_name n = true -> sn_shape n.
Proof.
  unfold is_struct_name. intro H. apply orb_prop in H as [H|H]; [now left|right].
  destruct (split_lt n) as [[a b]|] eqn:E1; [|discriminate].
  destruct (drop_last_gt b) as [i|] eqn:E2; [|discriminate].
  apply andb_prop in H as [Ha Hi]. apply split_lt_spec in E1. apply drop_last_gt_spec in E2.
  exists a, i. subst b. auto.
Qed.

Lemma is_ident_inv s : is_ident s = true -> exists c r, s = String c r /\ is_alpha c = true /\ all_chars is_alnum_ r = true.
Proof. destruct s as [|c r]; cbn; [discriminate|]. intro H. apply andb_prop in H as [H1 H2]. eauto. Qed.

Lemma shape_is_struct_name n : sn_shape n -> is_struct_name n = true.
Proof.
  unfold is_struct_name. intros [H|(a & b & E & Ha & Hb)]; [now rewrite H|].
  apply orb_true_iff. right.
  destruct (is_ident_inv a Ha) as (c & r & Ea & Hc & Hr).
  assert (Hall : all_chars is_alnum_ a = true) by (subst a; cbn; now rewrite (alpha_alnum c Hc), Hr).
  subst n. change ("<" ++ b ++ ">") with (String "<" (b ++ ">")).
  rewrite split_lt_app by assumption.
  change (b ++ ">") with (b ++ String ">" ""). rewrite drop_last_gt_app. cbn. now rewrite Ha, Hb.
Qed.

(* ---------- terminals on printed names ---------- *)
Lemma skip_ws_alpha c r : is_alpha c = true -> skip_ws (String c r) = String c r.
Proof. intro H. cbn. now rewrite (alpha_not_ws c H). Qed.

Lemma ident_ok f d x : is_ident f = true -> is_alnum_ d = false ->
  fst (ident (f ++ String d x)) = Ok (NTerm f) (String d x).
Proof.
  intros Hf Hd. destruct (is_ident_inv f Hf) as (c & r & E & Hc & Hr). subst f.
  unfold ident, token1. change (String c r ++ String d x) with (String c (r ++ String d x)).
  rewrite skip_ws_alpha by assumption. rewrite Hc.
  rewrite span_app by (rewrite ?all_chars_same; assumption). reflexivity.
Qed.

Lemma struct_name_ok n d x : is_struct_name n = true -> (d = "," \/ d = ">")%char ->
  fst (struct_name (n ++ String d x)) = Ok (NTerm n) (String d x).
Proof.
  intros Hn Hd. assert (Hdn : is_alnum_ d = false) by (destruct Hd; subst d; reflexivity).
  apply is_struct_name_shape in Hn as [Hn|(a & b & E & Ha & Hb)].
  - destruct (is_ident_inv n Hn) as (c & r & E & Hc & Hr). subst n.
    unfold struct_name. change (String c r ++ String d x) with (String c (r ++ String d x)).
    rewrite skip_ws_alpha by assumption. rewrite Hc.
    rewrite span_app by (rewrite ?all_chars_same; assumption).
    destruct Hd; subst d; reflexivity.
  - destruct (is_ident_inv a Ha) as (c & r & Ea & Hc & Hr).
    destruct (is_ident_inv b Hb) as (c2 & r2 & Eb & Hc2 & Hr2). subst a b n.
    unfold struct_name.
    replace ((String c r ++ "<" ++ String c2 r2 ++ ">") ++ String d x)
      with (String c (r ++ String "<" (String c2 (r2 ++ String ">" (String d x))))).
    2:{ cbn. f_equal. rewrite !sapp_assoc. cbn. now rewrite !sapp_assoc. }
    rewrite skip_ws_alpha by assumption. rewrite Hc.
    rewrite span_app by (rewrite ?all_chars_same; auto).
    rewrite Hc2. rewrite span_app by (rewrite ?all_chars_same; auto).
    reflexivity.
Qed.

(* ---------- print, then parse ---------- *)
(* the only follow condition: no '<' (after white space) behind a printed type, so that the
   struct alternative, tried first, fails after the closing parenthesis of a tuple *)
Definition follow (rest : string) : bool :=
  match skip_ws rest with String c _ => negb (Ascii.eqb "<" c) | EmptyString => true end.

Lemma follow_atom_lt rest : follow rest = true -> fst (@atom ty "<" rest) = Fail.
Proof.
  unfold follow, atom. destruct (skip_ws rest) as [|c r]; [reflexivity|].
  cbn [strip_prefix]. destruct (Ascii.eqb "<" c); [discriminate|reflexivity].
Qed.

Lemma print_head t : exists c r, print t = String c r /\ @is_ws c = false /\ Ascii.eqb "<" c = false.
Proof.
  destruct t as [s|t|k v|ts|n fs].
  - destruct s; cbn; eexists _, _; repeat split.
  - cbn; eexists _, _; repeat split.
  - cbn; eexists _, _; repeat split.
  - cbn; eexists _, _; repeat split.
  - destruct fs; cbn; eexists _, _; repeat split.
Qed.

Lemma follow_print t x : follow (print t ++ x) = true.
Proof.
  destruct (print_head t) as (c & r & E & Hw & Hc). rewrite E. unfold follow. cbn [append skip_ws]. now rewrite Hw, Hc.
Qed.

Lemma print_len t : 1 <= String.length (print t).
Proof. destruct (print_head t) as (c & r & E & _). rewrite E. cbn. lia. Qed.

Definition tnode (t : ty) : snode := NList [NVal t].

Lemma extract_types_tnodes ts : extract_types (map tnode ts) = Some ts.
Proof. induction ts as [|t ts IH]; cbn; [reflexivity|now rewrite IH]. Qed.

Lemma extract_names_terms ns : extract_names (map (@NTerm ty) ns) = Some ns.
Proof. induction ns as [|n ns IH]; cbn; [reflexivity|now rewrite IH]. Qed.

Lemma combine_fst_snd {A B} (l : list (A * B)) : combine (map fst l) (map snd l) = l.
Proof. induction l as [|[a b] l IH]; cbn; [reflexivity|now rewrite IH]. Qed.

Definition members_str (ts : list ty) : string := String.concat "" (map print ts).

Lemma members_str_cons t ts : members_str (t :: ts) = print t ++ members_str ts.
Proof. unfold members_str. cbn [map]. apply sconcat_cons. Qed.

Lemma members_len ts : List.length ts <= String.length (members_str ts).
Proof.
  induction ts as [|t ts IH]; [cbn; lia|].
  rewrite members_str_cons, slen_app. pose proof (print_len t). cbn. lia.
Qed.

Lemma follow_members ts tail : follow tail = true -> follow (members_str ts ++ tail) = true.
Proof.
  destruct ts as [|t ts]; [trivial|]. intros _. rewrite members_str_cons, sapp_assoc. apply follow_print.
Qed.

(* Kleene over the members of a tuple or struct *)
Lemma members_loop (d : sparser) ts : forall tail n,
  Forall (fun t => forall rest, follow rest = true -> fst (d (print t ++ rest)) = Ok (tnode t) rest) ts ->
  follow tail = true -> fst (d tail) = Fail -> List.length ts < n ->
  fst (kleene_loop n d (members_str ts ++ tail)) = Ok (map tnode ts) tail.
Proof.
  induction ts as [|t ts IH]; intros tail n HF Hfo Hfail Hn.
  - destruct n; [cbn in Hn; lia|]. cbn [members_str map String.concat append]. now apply kleene_loop_fail.
  - destruct n; [cbn in Hn; lia|]. inversion HF as [|? ? Ht HF']; subst.
    rewrite members_str_cons, sapp_assoc.
    rewrite (kleene_loop_ok n d _ (tnode t) (members_str ts ++ tail)).
    + rewrite IH; auto. cbn in Hn. lia.
    + apply Ht. now apply follow_members.
    + repeat rewrite slen_app. pose proof (print_len t). lia.
Qed.

Definition names_str (l : list string) : string := String.concat "" (map (fun f => "," ++ f) l).

Lemma names_str_cons f l : names_str (f :: l) = String "," (f ++ names_str l).
Proof. unfold names_str. cbn [map]. now rewrite sconcat_cons. Qed.

Lemma join_names f l : "," ++ join "," (f :: l) = names_str (f :: l).
Proof.
  revert f; induction l as [|g l IH]; intro f.
  - reflexivity.
  - rewrite names_str_cons, <- IH. reflexivity.
Qed.

Lemma names_len l : List.length l <= String.length (names_str l).
Proof.
  induction l as [|f l IH]; [cbn; lia|]. rewrite names_str_cons. cbn. rewrite slen_app. lia.
Qed.

(* one child of an And succeeded: [tac] proves what it returned *)
Ltac and_step tac :=
  match goal with
  | |- context [fst (and_loop (?p :: ?ps) ?s)] => erewrite (and_loop_cons_ok p ps s) by tac
  end.
Ltac and_fail tac :=
  match goal with
  | |- context [fst (and_loop (?p :: ?ps) ?s)] => rewrite (and_loop_cons_fail p ps s) by tac
  end.
Ltac or_skip tac :=
  match goal with
  | |- context [fst (por ?cb (?p :: ?ps) ?s)] => rewrite (por_cons_fail cb p ps s) by tac
  end.

Definition member_p : sparser := pand (Some nodify_member) [atom ","; ident].

Lemma names_loop l : forall x n, forallb is_ident l = true -> List.length l < n ->
  fst (kleene_loop n member_p (names_str l ++ String ">" x)) = Ok (map (@NTerm ty) l) (String ">" x).
Proof.
  induction l as [|f l IH]; intros x n Hl Hn.
  - destruct n; [cbn in Hn; lia|]. apply kleene_loop_fail. reflexivity.
  - destruct n; [cbn in Hn; lia|]. cbn in Hl. apply andb_prop in Hl as [Hf Hl].
    rewrite names_str_cons. cbn [append]. rewrite sapp_assoc.
    assert (Hnext : exists d y, names_str l ++ String ">" x = String d y /\ is_alnum_ d = false).
    { destruct l as [|g l']; [exists ">"%char, x; auto|]. rewrite names_str_cons. eexists _, _; split; reflexivity. }
    destruct Hnext as (d & y & E & Hd).
    rewrite (kleene_loop_ok n member_p _ (NTerm f) (names_str l ++ String ">" x)).
    + rewrite IH; auto. cbn in Hn. lia.
    + unfold member_p. rewrite pand_fst.
      and_step ltac:(reflexivity).
      rewrite E. and_step ltac:(now apply ident_ok).
      reflexivity.
    + cbn. repeat rewrite slen_app. lia.
Qed.

Lemma print_struct n fs :
  print (TStruct n fs) = String "(" (members_str (map snd fs) ++ String ")" (String "<" (n ++ names_str (map fst fs) ++ ">"))).
Proof.
  unfold members_str. rewrite map_map. destruct fs as [|f fs]; [reflexivity|].
  cbn [map]. rewrite <- join_names. cbn [print map append]. reflexivity.
Qed.

Lemma decl_S f s : decl (S f) s =
  por None [basic_type; map_type (decl f); array_type (decl f); struct_type (decl f); tuple_type (decl f)] s.
Proof. reflexivity. Qed.

Lemma decl_close f x : 0 < f -> fst (decl f (String ")" x)) = Fail.
Proof. destruct f; [lia|]. reflexivity. Qed.

Lemma list_type_members (d : sparser) ts tail :
  Forall (fun t => forall rest, follow rest = true -> fst (d (print t ++ rest)) = Ok (tnode t) rest) ts ->
  follow tail = true -> fst (d tail) = Fail ->
  fst (list_type d (members_str ts ++ tail)) = Ok (NList (map tnode ts)) tail.
Proof.
  intros HF Hfo Hfail. unfold list_type. rewrite kleene_fst. rewrite members_loop; auto.
  rewrite slen_app. pose proof (members_len ts). lia.
Qed.

Lemma names_next l x : exists d y, names_str l ++ String ">" x = String d y /\ (d = "," \/ d = ">")%char.
Proof.
  destruct l as [|g l]; [exists ">"%char, x; auto|]. rewrite names_str_cons. eexists _, _; split; [reflexivity|auto].
Qed.

Lemma member_list_names l x : forallb is_ident l = true ->
  fst (member_list (names_str l ++ String ">" x)) = Ok (NList (map (@NTerm ty) l)) (String ">" x).
Proof.
  intro H. unfold member_list. rewrite kleene_fst. fold member_p. rewrite names_loop; auto.
  rewrite slen_app. pose proof (names_len l). lia.
Qed.

Lemma depth_members ts t : In t ts -> ty_depth t <= fold_right (fun t a => Nat.max (ty_depth t) a) 0 ts.
Proof. induction ts as [|u ts IH]; cbn; [tauto|]. intros [E|H]; [subst; lia|]. specialize (IH H). lia. Qed.

Lemma depth_fields (fs : list (string * ty)) t : In t (map snd fs) ->
  ty_depth t <= fold_right (fun f a => Nat.max (ty_depth (snd f)) a) 0 fs.
Proof. induction fs as [|u fs IH]; cbn; [tauto|]. intros [E|H]; [subst; lia|]. specialize (IH H). lia. Qed.

Lemma decl_print t : wf_ty t = true -> forall f rest, ty_depth t < f -> follow rest = true ->
  fst (decl f (print t ++ rest)) = Ok (tnode t) rest.
Proof.
  induction t as [s|t IHt|k v IHk IHv|ts IH|n fs IH] using ty_ind2; intros Hwf f rest Hf Hfo;
    (destruct f as [|f]; [lia|]); rewrite decl_S.
  - destruct s; reflexivity.
  - cbn [wf_ty ty_depth] in Hwf, Hf.
    replace (print (TList t) ++ rest) with (String "[" (print t ++ String "]" rest))
      by (cbn; now rewrite sapp_assoc).
    or_skip ltac:(reflexivity). or_skip ltac:(reflexivity).
    apply (por_cons_ok None _ _ _ (NVal (TList t)) rest).
    unfold array_type. rewrite pand_fst.
    and_step ltac:(reflexivity).
    and_step ltac:(apply IHt; [assumption|lia|reflexivity]).
    and_step ltac:(reflexivity).
    reflexivity.
  - cbn [wf_ty ty_depth] in Hwf, Hf. apply andb_prop in Hwf as [Hk Hv].
    replace (print (TMap k v) ++ rest) with (String "{" (print k ++ print v ++ String "}" rest))
      by (cbn; now rewrite !sapp_assoc).
    or_skip ltac:(reflexivity).
    apply (por_cons_ok None _ _ _ (NVal (TMap k v)) rest).
    unfold map_type. rewrite pand_fst.
    and_step ltac:(reflexivity).
    and_step ltac:(apply IHk; [assumption|lia|apply follow_print]).
    and_step ltac:(apply IHv; [assumption|lia|reflexivity]).
    and_step ltac:(reflexivity).
    reflexivity.
  - cbn [wf_ty ty_depth] in Hwf, Hf.
    replace (print (TTuple ts) ++ rest) with (String "(" (members_str ts ++ String ")" rest))
      by (cbn; unfold members_str; now rewrite sapp_assoc).
    assert (HF : Forall (fun t => forall rest, follow rest = true -> fst (decl f (print t ++ rest)) = Ok (tnode t) rest) ts).
    { rewrite Forall_forall in IH |- *. intros t Hin rest' Hfo'. apply IH; auto.
      - rewrite forallb_forall in Hwf. now apply Hwf.
      - pose proof (depth_members ts t Hin). lia. }
    assert (Hl : fst (list_type (decl f) (members_str ts ++ String ")" rest)) = Ok (NList (map tnode ts)) (String ")" rest)).
    { apply list_type_members; [assumption|reflexivity|apply decl_close; lia]. }
    or_skip ltac:(reflexivity). or_skip ltac:(reflexivity). or_skip ltac:(reflexivity).
    or_skip ltac:(unfold struct_type; rewrite pand_fst;
                  and_step ltac:(reflexivity); and_step ltac:(exact Hl); and_step ltac:(reflexivity);
                  and_fail ltac:(now apply follow_atom_lt); reflexivity).
    apply (por_cons_ok None _ _ _ (NVal (TTuple ts)) rest).
    unfold tuple_type. rewrite pand_fst.
    and_step ltac:(reflexivity). and_step ltac:(exact Hl). and_step ltac:(reflexivity).
    cbn. now rewrite extract_types_tnodes.
  - cbn [wf_ty ty_depth] in Hwf, Hf. apply andb_prop in Hwf as [Hn Hfs].
    assert (Hids : forallb is_ident (map fst fs) = true).
    { rewrite forallb_forall in Hfs |- *. intros x Hx. apply in_map_iff in Hx as (y & <- & Hy).
      apply Hfs in Hy. now apply andb_prop in Hy as [? ?]. }
    assert (HF : Forall (fun t => forall rest, follow rest = true -> fst (decl f (print t ++ rest)) = Ok (tnode t) rest) (map snd fs)).
    { rewrite Forall_forall in IH |- *. intros t Hin rest' Hfo'.
      pose proof Hin as Hin'. apply in_map_iff in Hin' as (y & <- & Hy). apply IH; auto.
      - rewrite forallb_forall in Hfs. apply Hfs in Hy. now apply andb_prop in Hy as [? ?].
      - pose proof (depth_fields fs (snd y) Hin). lia. }
    rewrite print_struct.
    replace (String "(" (members_str (map snd fs) ++ String ")" (String "<" (n ++ names_str (map fst fs) ++ ">"))) ++ rest)
      with (String "(" (members_str (map snd fs) ++ String ")" (String "<" (n ++ names_str (map fst fs) ++ String ">" rest))))
      by (cbn; rewrite !sapp_assoc; cbn; now rewrite !sapp_assoc).
    or_skip ltac:(reflexivity). or_skip ltac:(reflexivity). or_skip ltac:(reflexivity).
    apply (por_cons_ok None _ _ _ (NVal (TStruct n fs)) rest).
    unfold struct_type. rewrite pand_fst.
    and_step ltac:(reflexivity).
    and_step ltac:(apply list_type_members; [exact HF|reflexivity|apply decl_close; lia]).
    and_step ltac:(reflexivity). and_step ltac:(reflexivity).
    destruct (names_next (map fst fs) rest) as (d & y & E & Hd).
    rewrite E. and_step ltac:(now apply struct_name_ok). rewrite <- E.
    and_step ltac:(now apply member_list_names).
    and_step ltac:(reflexivity).
    cbn. rewrite extract_types_tnodes, extract_names_terms, !map_length, Nat.eqb_refl, combine_fst_snd.
    reflexivity.
Qed.

Lemma members_depth_len ts :
  Forall (fun t => ty_depth t <= String.length (print t)) ts ->
  fold_right (fun t a => Nat.max (ty_depth t) a) 0 ts <= String.length (members_str ts).
Proof.
  induction 1 as [|t ts Ht HF IH]; [cbn; lia|].
  rewrite members_str_cons, slen_app. cbn [fold_right]. lia.
Qed.

Lemma depth_le_len t : ty_depth t <= String.length (print t).
Proof.
  induction t as [s|t IHt|k v IHk IHv|ts IH|n fs IH] using ty_ind2.
  - destruct s; cbn; lia.
  - cbn [print ty_depth]. cbn [append String.length]. rewrite slen_app. cbn. lia.
  - cbn [print ty_depth]. cbn [append String.length]. rewrite !slen_app. cbn. lia.
  - cbn [print ty_depth]. cbn [append String.length]. rewrite slen_app. cbn.
    pose proof (members_depth_len ts IH). unfold members_str in *. lia.
  - rewrite print_struct. cbn [ty_depth String.length]. rewrite slen_app.
    assert (fold_right (fun f a => Nat.max (ty_depth (snd f)) a) 0 fs
            = fold_right (fun t a => Nat.max (ty_depth t) a) 0 (map snd fs)) as ->.
    { clear IH. induction fs as [|x fs IHf]; cbn; [reflexivity|now rewrite IHf]. }
    assert (HF : Forall (fun t => ty_depth t <= String.length (print t)) (map snd fs)).
    { rewrite Forall_forall in IH |- *. intros t Hin. apply in_map_iff in Hin as (y & <- & Hy). now apply IH. }
    pose proof (members_depth_len _ HF). lia.
Qed.

Lemma parse_eq s : parse s = parse_fuel (S (String.length s)) s.
Proof. unfold parse, parse_c, parse_fuel. destruct (decl (S (String.length s)) s). reflexivity. Qed.

Theorem parse_print : forall t, wf_ty t = true -> parse (print t) = POk t.
Proof.
  intros t Hwf. rewrite parse_eq. unfold parse_fuel.
  pose proof (decl_print t Hwf (S (String.length (print t))) "" ) as H.
  rewrite sapp_nil_r in H. rewrite H; [reflexivity| |reflexivity].
  pose proof (depth_le_len t). lia.
Qed.

(* ---------- totality: the fuel chosen by parse is never exhausted ---------- *)
Lemma struct_name_goodS L : goodS struct_name L.
Proof.
  intros s _. unfold struct_name. pose proof (skip_ws_len s) as Hw.
  destruct (skip_ws s) as [|c r]; cbn [fst]; [exact I|].
  destruct (is_alpha c); cbn [fst]; [|exact I].
  destruct (span is_alnum_ r) as [a b] eqn:E. apply span_spec in E as (E & _ & _). subst r.
  cbn [String.length] in Hw. rewrite slen_app in Hw.
  destruct b as [|x b]; cbn [fst]; [cbn; lia|].
  destruct (Ascii.eqb x "<") eqn:Hx.
  2:{ destruct x as [[] [] [] [] [] [] [] []]; cbn [fst String.length] in *; try lia. discriminate. }
  apply Ascii.eqb_eq in Hx. subst x.
  destruct b as [|c2 r2]; cbn [fst String.length] in *; [lia|].
  destruct (is_alpha c2); cbn [fst String.length] in *; [|lia].
  destruct (span is_alnum_ r2) as [a2 b2] eqn:E2. apply span_spec in E2 as (E2 & _ & _). subst r2.
  rewrite slen_app in Hw.
  destruct b2 as [|y b3]; cbn [fst String.length] in *; [rewrite ?slen_app; cbn [String.length]; lia|].
  destruct y as [[] [] [] [] [] [] [] []]; cbn [fst String.length] in *; rewrite ?slen_app; cbn [String.length]; lia.
Qed.

Lemma basic_type_goodS L : goodS basic_type L.
Proof.
  unfold basic_type. apply por_goodS. cbn [map basic_letters].
  repeat constructor; apply atom_goodS; discriminate.
Qed.

Lemma member_list_good L : good member_list L.
Proof.
  unfold member_list. apply kleene_good. apply pand_goodS; [apply atom_goodS; discriminate|].
  intros L' _. repeat constructor. apply goodS_good, token1_goodS.
Qed.

Lemma decl_goodS f : forall L, L < f -> goodS (decl f) L.
Proof.
  induction f as [|f IH]; intros L HL; [lia|].
  intros s Hs. rewrite decl_S. revert s Hs. fold (goodS (por None
    [basic_type; map_type (decl f); array_type (decl f); struct_type (decl f); tuple_type (decl f)]) L).
  assert (Hd : forall L', L' < L -> goodS (decl f) L') by (intros; apply IH; lia).
  assert (HA : forall m L', m <> "" -> good (@atom ty m) L') by (intros; apply goodS_good, atom_goodS; assumption).
  apply por_goodS. repeat constructor.
  - apply basic_type_goodS.
  - apply pand_goodS; [apply atom_goodS; discriminate|]. intros L' HL'.
    repeat constructor; try (apply goodS_good, Hd; assumption). apply HA; discriminate.
  - apply pand_goodS; [apply atom_goodS; discriminate|]. intros L' HL'.
    repeat constructor; try (apply goodS_good, Hd; assumption). apply HA; discriminate.
  - apply pand_goodS; [apply atom_goodS; discriminate|]. intros L' HL'.
    repeat constructor; try (apply HA; discriminate).
    + apply kleene_good, Hd; assumption.
    + apply goodS_good, struct_name_goodS.
    + apply member_list_good.
  - apply pand_goodS; [apply atom_goodS; discriminate|]. intros L' HL'.
    repeat constructor; try (apply HA; discriminate).
    apply kleene_good, Hd; assumption.
Qed.

Theorem parse_total : forall s, parse s <> PFuel.
Proof.
  intro s. rewrite parse_eq. unfold parse_fuel.
  pose proof (decl_goodS (S (String.length s)) (String.length s) ltac:(lia) s (le_n _)) as H.
  destruct (fst (decl (S (String.length s)) s)) as [root rest| | |]; cbn; try tauto; try discriminate.
  destruct (is_empty rest); [|discriminate].
  destruct root as [| | | |[|[] []]]; discriminate.
Qed.

(* ---------- whatever the parser accepts is well formed ---------- *)
Lemma ident_out s n r : fst (ident s) = Ok n r -> exists v, n = NTerm v /\ is_ident v = true.
Proof.
  unfold ident, token1. destruct (skip_ws s) as [|c x]; cbn [fst]; [discriminate|].
  destruct (is_alpha c) eqn:Hc; cbn [fst]; [|discriminate].
  destruct (span is_alnum_ x) as [a b] eqn:E. cbn [fst]. intro H. inversion H; subst.
  apply span_spec in E as (_ & Ha & _). exists (String c a). split; [reflexivity|].
  cbn. rewrite Hc. rewrite all_chars_same in Ha. exact Ha.
Qed.

Lemma struct_name_out s n r : fst (struct_name s) = Ok n r -> exists v, n = NTerm v /\ is_struct_name v = true.
Proof.
  unfold struct_name. destruct (skip_ws s) as [|c x]; cbn [fst]; [discriminate|].
  destruct (is_alpha c) eqn:Hc; cbn [fst]; [|discriminate].
  destruct (span is_alnum_ x) as [a b] eqn:E. apply span_spec in E as (_ & Ha & _).
  rewrite all_chars_same in Ha.
  assert (Hplain : is_struct_name (String c a) = true).
  { apply shape_is_struct_name. left. cbn. now rewrite Hc, Ha. }
  assert (Hdone : forall n r, (Ok (NTerm (String c a)) b : res snode) = Ok n r -> exists v, n = NTerm v /\ is_struct_name v = true).
  { intros n' r' H. inversion H; subst. eauto. }
  destruct b as [|y b]; cbn [fst]; [apply Hdone|].
  destruct y as [[] [] [] [] [] [] [] []]; cbn [fst]; try apply Hdone.
  destruct b as [|c2 r2]; cbn [fst]; [apply Hdone|].
  destruct (is_alpha c2) eqn:Hc2; cbn [fst]; [|apply Hdone].
  destruct (span is_alnum_ r2) as [a2 b2] eqn:E2. apply span_spec in E2 as (_ & Ha2 & _).
  rewrite all_chars_same in Ha2.
  destruct b2 as [|z b3]; cbn [fst]; [apply Hdone|].
  destruct z as [[] [] [] [] [] [] [] []]; cbn [fst]; try apply Hdone.
  intro H. inversion H; subst. eexists; split; [reflexivity|].
  apply shape_is_struct_name. right. exists (String c a), (String c2 a2).
  split; [reflexivity|]. cbn. now rewrite Hc, Ha, Hc2, Ha2.
Qed.

Ltac inv_and H :=
  let Hp := fresh "Hp" in let Hr := fresh "Hr" in
  inversion H as [|? ? ? ? ? ? ? Hp Hr]; subst; clear H.

Lemma and_ok1 (p1 : sparser) s ns r : and_ok [p1] s ns r ->
  exists n1, ns = [n1] /\ fst (p1 s) = Ok n1 r.
Proof.
  intro H. inversion H as [|? ? ? n1 s1 ns1 ? H1 Hr]; subst. inversion Hr; subst. eauto.
Qed.
Lemma and_ok_cons_inv (p : sparser) ps s ns r : and_ok (p :: ps) s ns r ->
  exists n1 s1 ns', ns = n1 :: ns' /\ fst (p s) = Ok n1 s1 /\ and_ok ps s1 ns' r.
Proof. intro H. inversion H; subst. eauto 8. Qed.

Definition wf_node (n : snode) : Prop := forall t, extract_value n = Some t -> wf_ty t = true.

Lemma extract_types_wf xs ts : Forall wf_node xs -> extract_types xs = Some ts -> forallb wf_ty ts = true.
Proof.
  intro HF. revert ts. induction HF as [|x xs Hx HF IH]; cbn; intros ts H.
  - inversion H; reflexivity.
  - destruct (extract_value x) as [t|] eqn:E; [|discriminate].
    destruct (extract_types xs) as [ts'|]; [|discriminate]. inversion H; subst.
    cbn. rewrite (Hx t E), (IH ts' eq_refl). reflexivity.
Qed.

Lemma extract_names_ident ms names :
  Forall (fun x => exists v, x = @NTerm ty v /\ is_ident v = true) ms -> extract_names ms = Some names ->
  forallb is_ident names = true.
Proof.
  intro HF. revert names. induction HF as [|x xs Hx HF IH]; cbn; intros names H.
  - inversion H; reflexivity.
  - destruct Hx as (v & -> & Hv). destruct (extract_names xs) as [vs|]; [|discriminate].
    inversion H; subst. cbn. now rewrite Hv, (IH vs eq_refl).
Qed.

Lemma wf_combine names ts : forallb is_ident names = true -> forallb wf_ty ts = true ->
  forallb (fun f : string * ty => is_ident (fst f) && wf_ty (snd f)) (combine names ts) = true.
Proof.
  revert ts; induction names as [|a names IH]; intros ts Hn Ht; [reflexivity|].
  destruct ts as [|t ts]; [reflexivity|]. cbn in *.
  apply andb_prop in Hn as [Ha Hn]. apply andb_prop in Ht as [Ht Hts].
  now rewrite Ha, Ht, IH.
Qed.

Lemma member_out s n r : fst (member_p s) = Ok n r -> exists v, n = NTerm v /\ is_ident v = true.
Proof.
  intro H. unfold member_p in H. apply pand_inv in H as (ns & Hand & ->).
  apply and_ok_cons_inv in Hand as (x1 & s1 & ns1 & -> & H1 & Hand).
  apply and_ok1 in Hand as (x2 & -> & H2). cbn. now apply ident_out in H2.
Qed.

Lemma basic_out s n r : fst (basic_type s) = Ok n r -> wf_node (NList [n]).
Proof.
  intro H. unfold basic_type in H. apply por_inv in H as (p & m & _ & _ & ->).
  intros t Ht. cbn in Ht. unfold nodify_basic in Ht.
  destruct m as [v| | | |]; try discriminate.
  destruct (scalar_of_letter v); [|discriminate]. inversion Ht. reflexivity.
Qed.

Lemma decl_wf f : forall s n r, fst (decl f s) = Ok n r -> wf_node n.
Proof.
  induction f as [|f IH]; intros s n r H; [discriminate|].
  rewrite decl_S in H. apply por_inv in H as (p & m & Hin & Hp & ->).
  cbn [In] in Hin. destruct Hin as [<-|[<-|[<-|[<-|[<-|[]]]]]].
  - now apply basic_out in Hp.
  - unfold map_type in Hp. apply pand_inv in Hp as (ns & Hand & ->).
    apply and_ok_cons_inv in Hand as (x1 & s1 & ns1 & -> & H1 & Hand).
    apply and_ok_cons_inv in Hand as (x2 & s2 & ns2 & -> & H2 & Hand).
    apply and_ok_cons_inv in Hand as (x3 & s3 & ns3 & -> & H3 & Hand).
    apply and_ok1 in Hand as (x4 & -> & H4).
    intros t Ht. cbn in Ht.
    destruct (extract_value x2) as [a|] eqn:Ea; [|discriminate].
    destruct (extract_value x3) as [b|] eqn:Eb; [|discriminate].
    inversion Ht; subst. cbn. now rewrite (IH _ _ _ H2 a Ea), (IH _ _ _ H3 b Eb).
  - unfold array_type in Hp. apply pand_inv in Hp as (ns & Hand & ->).
    apply and_ok_cons_inv in Hand as (x1 & s1 & ns1 & -> & H1 & Hand).
    apply and_ok_cons_inv in Hand as (x2 & s2 & ns2 & -> & H2 & Hand).
    apply and_ok1 in Hand as (x3 & -> & H3).
    intros t Ht. cbn in Ht.
    destruct (extract_value x2) as [a|] eqn:Ea; [|discriminate].
    inversion Ht; subst. cbn. exact (IH _ _ _ H2 a Ea).
  - unfold struct_type in Hp. apply pand_inv in Hp as (ns & Hand & ->).
    apply and_ok_cons_inv in Hand as (x1 & s1 & ns1 & -> & H1 & Hand).
    apply and_ok_cons_inv in Hand as (x2 & s2 & ns2 & -> & H2 & Hand).
    apply and_ok_cons_inv in Hand as (x3 & s3 & ns3 & -> & H3 & Hand).
    apply and_ok_cons_inv in Hand as (x4 & s4 & ns4 & -> & H4 & Hand).
    apply and_ok_cons_inv in Hand as (x5 & s5 & ns5 & -> & H5 & Hand).
    apply and_ok_cons_inv in Hand as (x6 & s6 & ns6 & -> & H6 & Hand).
    apply and_ok1 in Hand as (x7 & -> & H7).
    apply kleene_inv in H2 as (xs & -> & Hxs & _).
    apply struct_name_out in H5 as (name & -> & Hname).
    apply kleene_inv in H6 as (ms & -> & Hms & _).
    intros t Ht. cbn in Ht.
    destruct (extract_types xs) as [ts|] eqn:Ets; [|discriminate].
    destruct (extract_names ms) as [names|] eqn:Ens; [|discriminate].
    destruct (Nat.eqb (List.length ts) (List.length names)); [|discriminate].
    inversion Ht; subst. cbn. rewrite Hname. cbn. apply wf_combine.
    + apply (extract_names_ident ms); [|assumption].
      rewrite Forall_forall in Hms |- *. intros x Hx. destruct (Hms x Hx) as (u1 & u2 & Hm).
      now apply member_out in Hm.
    + apply (extract_types_wf xs); [|assumption].
      rewrite Forall_forall in Hxs |- *. intros x Hx. destruct (Hxs x Hx) as (u1 & u2 & Hm). now apply IH in Hm.
  - unfold tuple_type in Hp. apply pand_inv in Hp as (ns & Hand & ->).
    apply and_ok_cons_inv in Hand as (x1 & s1 & ns1 & -> & H1 & Hand).
    apply and_ok_cons_inv in Hand as (x2 & s2 & ns2 & -> & H2 & Hand).
    apply and_ok1 in Hand as (x3 & -> & H3).
    apply kleene_inv in H2 as (xs & -> & Hxs & _).
    intros t Ht. cbn in Ht.
    destruct (extract_types xs) as [ts|] eqn:Ets; [|discriminate].
    inversion Ht; subst. cbn. apply (extract_types_wf xs); [|assumption].
    rewrite Forall_forall in Hxs |- *. intros x Hx. destruct (Hxs x Hx) as (u1 & u2 & Hm). now apply IH in Hm.
Qed.

Lemma parse_wf s t : parse s = POk t -> wf_ty t = true.
Proof.
  rewrite parse_eq. unfold parse_fuel.
  destruct (fst (decl (S (String.length s)) s)) as [root rest| | |] eqn:E; cbn; try discriminate.
  destruct (is_empty rest); [|discriminate].
  destruct root as [| | | |[|[|x| | |] []]]; try discriminate.
  intro H. inversion H; subst. apply decl_wf in E. now apply E.
Qed.

Theorem parse_fixed_point : forall s t, parse s = POk t -> parse (print t) = POk t.
Proof. intros s t H. apply parse_print. now apply parse_wf in H. Qed.

(* the printer is injective on well-formed types *)
Corollary print_inj t u : wf_ty t = true -> wf_ty u = true -> print t = print u -> t = u.
Proof.
  intros Ht Hu E. pose proof (parse_print t Ht) as H1. pose proof (parse_print u Hu) as H2.
  rewrite E in H1. rewrite H1 in H2. now inversion H2.
Qed.

(* rejection: everything that is not accepted is an error, nothing else *)
Corollary parse_outcomes s : (exists t, parse s = POk t) \/ parse s = PErr.
Proof. pose proof (parse_total s). destruct (parse s); eauto. congruence. Qed.

(* ---------- the number of steps is exponential in the nesting of parentheses ---------- *)
(* (the struct alternative is tried, and fails after the closing parenthesis, before the tuple
   alternative parses the same members again) *)
Lemma members_ok f ts : forallb wf_ty ts = true ->
  fold_right (fun t a => Nat.max (ty_depth t) a) 0 ts < f ->
  Forall (fun t => forall rest, follow rest = true -> fst (decl f (print t ++ rest)) = Ok (tnode t) rest) ts.
Proof.
  intros Hwf Hf. rewrite Forall_forall. intros t Hin rest Hfo. apply decl_print; auto.
  - rewrite forallb_forall in Hwf. now apply Hwf.
  - pose proof (depth_members ts t Hin). lia.
Qed.

Lemma tuple_struct_fail f ts rest : forallb wf_ty ts = true ->
  fold_right (fun t a => Nat.max (ty_depth t) a) 0 ts < f -> follow rest = true ->
  fst (struct_type (decl f) (String "(" (members_str ts ++ String ")" rest))) = Fail.
Proof.
  intros Hwf Hf Hfo. unfold struct_type. rewrite pand_fst.
  and_step ltac:(reflexivity).
  and_step ltac:(apply list_type_members; [now apply members_ok|reflexivity|apply decl_close; lia]).
  and_step ltac:(reflexivity).
  and_fail ltac:(now apply follow_atom_lt). reflexivity.
Qed.

Local Open Scope N_scope.

Lemma tuple_steps f ts rest : forallb wf_ty ts = true ->
  (fold_right (fun t a => Nat.max (ty_depth t) a) 0 ts < f)%nat -> follow rest = true ->
  2 * snd (decl f (members_str ts ++ String ")" rest)) <= snd (decl (S f) (print (TTuple ts) ++ rest)).
Proof.
  intros Hwf Hf Hfo. rewrite decl_S.
  replace (print (TTuple ts) ++ rest)%string with (String "(" (members_str ts ++ String ")" rest))
    by (cbn; unfold members_str; now rewrite sapp_assoc).
  set (Y := (members_str ts ++ String ")" rest)%string).
  rewrite por_snd_fail by reflexivity. rewrite por_snd_fail by reflexivity. rewrite por_snd_fail by reflexivity.
  rewrite por_snd_fail by (now apply tuple_struct_fail).
  pose proof (por_snd_ge None (tuple_type (decl f)) [] (String "(" Y)) as Ht.
  assert (Hin : forall rest', snd (decl f Y) <= snd (and_loop (atom "(" :: list_type (decl f) :: rest') (String "(" Y))).
  { intro rest'. rewrite (and_loop_snd_ok _ _ _ (NTerm "(") Y) by reflexivity.
    pose proof (and_loop_snd_ge (list_type (decl f)) rest' Y) as H1.
    pose proof (kleene_snd_ge None (decl f) Y) as H2. unfold list_type in *. lia. }
  unfold struct_type, tuple_type in *. rewrite pand_snd in *.
  pose proof (Hin [atom ")"; atom "<"; struct_name; member_list; atom ">"]) as H1.
  pose proof (Hin [atom ")"]) as H2. lia.
Qed.

Lemma decl_steps_pos f s : (0 < f)%nat -> 1 <= snd (decl f s).
Proof.
  destruct f; [lia|]. intros _. rewrite decl_S.
  pose proof (por_snd_ge None basic_type [map_type (decl f); array_type (decl f); struct_type (decl f); tuple_type (decl f)] s) as H1.
  unfold basic_type in H1 at 1. cbn [map basic_letters] in H1.
  match type of H1 with snd (por ?cb (?p :: ?ps) ?s) <= _ => pose proof (por_snd_ge cb p ps s) as H2 end.
  rewrite atom_snd in H2. lia.
Qed.

(* n opening parentheses, n closing parentheses *)
Fixpoint rep (c : ascii) (n : nat) : string := match n with O => ""%string | S n' => String c (rep c n') end.
Definition nest (n : nat) : string := (rep "(" n ++ rep ")" n)%string.
Fixpoint tn (n : nat) : ty := match n with O => TTuple [] | S n' => TTuple [tn n'] end.

Lemma rep_snoc c n : rep c (S n) = (rep c n ++ String c "")%string.
Proof. induction n as [|n IH]; [reflexivity|]. cbn [rep append] in *. now rewrite <- IH. Qed.

Lemma print_tn n : print (tn n) = nest (S n).
Proof.
  induction n as [|n IH]; [reflexivity|].
  cbn [tn print map String.concat]. rewrite IH. unfold nest.
  rewrite (rep_snoc ")" (S n)). cbn [rep append]. now rewrite !sapp_assoc.
Qed.

Lemma tn_wf n : wf_ty (tn n) = true.
Proof. induction n as [|n IH]; [reflexivity|]. cbn. now rewrite IH. Qed.

Lemma tn_depth n : ty_depth (tn n) = S n.
Proof. induction n as [|n IH]; [reflexivity|]. cbn [tn ty_depth fold_right]. rewrite IH. lia. Qed.

Lemma tn_steps n : forall f rest, (S n < f)%nat -> follow rest = true ->
  2 ^ N.of_nat (S n) <= snd (decl f (print (tn n) ++ rest)).
Proof.
  induction n as [|n IH]; intros f rest Hf Hfo; (destruct f as [|f]; [lia|]).
  - pose proof (tuple_steps f [] rest eq_refl ltac:(cbn; lia) Hfo) as H.
    pose proof (decl_steps_pos f (members_str [] ++ String ")" rest) ltac:(lia)). cbn [tn].
    change (2 ^ N.of_nat 1) with 2. lia.
  - pose proof (tuple_steps f [tn n] rest ltac:(cbn; now rewrite tn_wf) ltac:(cbn; rewrite tn_depth; lia) Hfo) as H.
    replace (members_str [tn n] ++ String ")" rest)%string with (print (tn n) ++ String ")" rest)%string in H
      by (unfold members_str; reflexivity).
    pose proof (IH f (String ")" rest) ltac:(lia) eq_refl) as H2.
    cbn [tn]. replace (N.of_nat (S (S n))) with (1 + N.of_nat (S n)) by lia.
    rewrite N.pow_add_r. change (2 ^ 1) with 2. lia.
Qed.

Lemma parse_steps_eq s : parse_steps s = snd (decl (S (String.length s)) s).
Proof. unfold parse_steps, parse_c. destruct (decl (S (String.length s)) s). reflexivity. Qed.

(* signature.Parse on n nested empty tuples takes at least 2^n parser invocations *)
Theorem nest_steps_exponential : forall n, 2 ^ N.of_nat n <= parse_steps (nest n).
Proof.
  intro n. rewrite parse_steps_eq. destruct n as [|n].
  - apply decl_steps_pos. lia.
  - rewrite <- print_tn. pose proof (tn_steps n (S (String.length (print (tn n)))) "" ) as H.
    rewrite sapp_nil_r in H. apply H; [|reflexivity].
    pose proof (depth_le_len (tn n)). rewrite tn_depth in *. lia.
Qed.

(* ---------- the Go representation (Type()) is consistent with the signature ---------- *)
Local Open Scope nat_scope.
Local Open Scope string_scope.

Lemma tuple_fields_snd {A} i (l : list A) : map snd (tuple_fields i l) = l.
Proof. revert i; induction l as [|x l IH]; intro i; cbn; [reflexivity|now rewrite IH]. Qed.

(* "o" is the ObjectReference struct *)
Lemma go_type_object : go_type (TS SObject) = go_type ty_ObjectReference.
Proof. vm_compute. reflexivity. Qed.

(* reading the kind tree back as a signature gives the signature of t with names dropped *)
Theorem go_type_consistent : forall t, shape_sig (go_type t) = print (anon t).
Proof.
  induction t as [s|t IHt|k v IHk IHv|ts IH|n fs IH] using ty_ind2.
  - destruct s; vm_compute; reflexivity.
  - cbn [go_type shape_sig anon anon_with print] in *. unfold anon in IHt. now rewrite IHt.
  - cbn [go_type shape_sig anon anon_with print] in *. unfold anon in IHk, IHv. now rewrite IHk, IHv.
  - cbn [go_type shape_sig anon anon_with print]. f_equal. f_equal.
    rewrite <- (map_map snd shape_sig), tuple_fields_snd, !map_map. f_equal.
    apply map_ext_in. intros t Hin. rewrite Forall_forall in IH. exact (IH t Hin).
  - cbn [go_type shape_sig anon anon_with print]. f_equal. f_equal.
    rewrite !map_map. cbn [snd]. f_equal.
    apply map_ext_in. intros f Hin. rewrite Forall_forall in IH. exact (IH f Hin).
Qed.

(* member names of the Go struct: the cleaned member names, P0, P1, ... for a tuple *)
Lemma go_type_fields_struct n fs : shape_fields (go_type (TStruct n fs)) = map (fun f => clean_name (fst f)) fs.
Proof. cbn. now rewrite map_map. Qed.
Lemma go_type_fields_tuple ts : shape_fields (go_type (TTuple ts)) = map fst (tuple_fields 0 ts).
Proof.
  cbn. generalize 0. induction ts as [|t ts IH]; intro i; cbn; [reflexivity|]. now rewrite IH.
Qed.

(* Type() with the two reflect panics switched off is total *)
(* Type() with the two reflect panics repaired is total *)
Lemma go_type_total cfg t : c_key_panic cfg = false -> c_dup_panic cfg = false -> go_type_result cfg t <> None.
Proof.
  intros H1 H2. induction t as [s|t IHt|k v IHk IHv|ts IH|n fs IH] using ty_ind2; cbn [go_type_result].
  - discriminate.
  - destruct (go_type_result cfg t); [discriminate|congruence].
  - destruct (go_type_result cfg k) as [ks|]; [|congruence]. rewrite H1.
    destruct (shape_comparable ks); [|discriminate].
    destruct (go_type_result cfg v); [discriminate|congruence].
  - assert (E : res_list (go_type_result cfg) ts <> None).
    { induction IH as [|t ts Ht HF IHl]; cbn [res_list]; [discriminate|].
      destruct (go_type_result cfg t); [|congruence]. destruct (res_list (go_type_result cfg) ts); [discriminate|congruence]. }
    destruct (res_list (go_type_result cfg) ts); [discriminate|congruence].
  - assert (E : res_fields (go_type_result cfg) fs <> None).
    { induction IH as [|f fs Hf HF IHl]; cbn [res_fields]; [discriminate|].
      destruct (go_type_result cfg (snd f)); [|congruence]. destruct (res_fields (go_type_result cfg) fs); [discriminate|congruence]. }
    destruct (res_fields (go_type_result cfg) fs); [|congruence]. rewrite H2.
    destruct (has_dup _); discriminate.
Qed.

Lemma tuple_fields_forallb {A} (p : A -> bool) i (l : list A) :
  forallb (fun f => p (snd f)) (tuple_fields i l) = forallb p l.
Proof. revert i; induction l as [|x l IH]; intro i; cbn; [reflexivity|now rewrite IH]. Qed.

Lemma forallb_map' {A B} (f : A -> B) (p : B -> bool) l : forallb p (map f l) = forallb (fun x => p (f x)) l.
Proof. induction l as [|x l IH]; cbn; [reflexivity|now rewrite IH]. Qed.

Lemma go_type_comparable t : shape_comparable (go_type t) = comparable t.
Proof.
  induction t as [s|t IHt|k v IHk IHv|ts IH|n fs IH] using ty_ind2.
  - destruct s; vm_compute; reflexivity.
  - reflexivity.
  - reflexivity.
  - cbn [go_type shape_comparable comparable]. rewrite tuple_fields_forallb, forallb_map'.
    induction IH as [|t ts Ht HF IHl]; [reflexivity|]. cbn [forallb]. now rewrite Ht, IHl.
  - cbn [go_type shape_comparable comparable]. rewrite forallb_map'. cbn [snd].
    induction IH as [|f fs Hf HF IHl]; [reflexivity|]. cbn [forallb]. now rewrite Hf, IHl.
Qed.

Lemma combine_map_pair {A B C} (f : A -> B) (g : A -> C) (l : list A) :
  combine (map f l) (map g l) = map (fun x => (f x, g x)) l.
Proof. induction l as [|x l IH]; cbn; [reflexivity|now rewrite IH]. Qed.

(* on a type without an uncomparable key and without clashing member names Type() is the kind
   tree go_type t, whether the repairs are in or not *)
Lemma go_type_good cfg t : bad_key t = false -> dup_member t = false -> go_type_result cfg t = Some (go_type t).
Proof.
  induction t as [s|t IHt|k v IHk IHv|ts IH|n fs IH] using ty_ind2; intros Hb Hd; cbn [go_type_result go_type].
  - reflexivity.
  - cbn [bad_key dup_member] in *. now rewrite IHt.
  - cbn [bad_key dup_member] in *. apply orb_false_elim in Hb as [Hb Hbv]. apply orb_false_elim in Hb as [Hc Hbk].
    apply orb_false_elim in Hd as [Hdk Hdv]. apply negb_false_iff in Hc.
    rewrite IHk, IHv by assumption. rewrite go_type_comparable, Hc. now destruct (c_key_panic cfg).
  - cbn [bad_key dup_member] in *.
    assert (E : res_list (go_type_result cfg) ts = Some (map go_type ts)).
    { induction IH as [|t ts Ht HF IHl]; [reflexivity|]. cbn [existsb] in Hb, Hd.
      apply orb_false_elim in Hb as [Hb1 Hb2]. apply orb_false_elim in Hd as [Hd1 Hd2].
      cbn [res_list map]. now rewrite Ht, IHl. }
    now rewrite E.
  - cbn [bad_key dup_member] in *. apply orb_false_elim in Hd as [Hdup Hd].
    assert (E : res_fields (go_type_result cfg) fs = Some (map (fun f => go_type (snd f)) fs)).
    { clear Hdup. induction IH as [|f fs Hf HF IHl]; [reflexivity|]. cbn [existsb] in Hb, Hd.
      apply orb_false_elim in Hb as [Hb1 Hb2]. apply orb_false_elim in Hd as [Hd1 Hd2].
      cbn [res_fields map]. now rewrite Hf, IHl. }
    rewrite E, Hdup. now rewrite combine_map_pair.
Qed.

(* ---------- the parser accepts nothing but printed signatures with white space between tokens ---------- *)
Lemma unspace_app a b : unspace (a ++ b) = unspace a ++ unspace b.
Proof. induction a as [|c a IH]; cbn; [reflexivity|]. destruct (is_ws c); cbn; now rewrite IH. Qed.

Lemma unspace_skip_ws s : unspace (skip_ws s) = unspace s.
Proof. induction s as [|c s IH]; cbn; [reflexivity|]. destruct (is_ws c) eqn:E; cbn; [exact IH|now rewrite E]. Qed.

Lemma alnum_not_ws c : is_alnum_ c = true -> @is_ws c = false.
Proof. ascii_cases c; vm_compute; congruence. Qed.

Lemma unspace_alnum a : all_chars is_alnum_ a = true -> unspace a = a.
Proof.
  induction a as [|c a IH]; cbn; intro H; [reflexivity|]. apply andb_prop in H as [Hc Ha].
  now rewrite (alnum_not_ws c Hc), IH.
Qed.

Lemma unspace_ident v : is_ident v = true -> unspace v = v.
Proof.
  intro H. destruct (is_ident_inv v H) as (c & r & -> & Hc & Hr). apply unspace_alnum.
  cbn. now rewrite (alpha_alnum c Hc), Hr.
Qed.

Lemma unspace_struct_name v : is_struct_name v = true -> unspace v = v.
Proof.
  intro H. apply is_struct_name_shape in H as [H|(a & b & -> & Ha & Hb)]; [now apply unspace_ident|].
  rewrite !unspace_app, (unspace_ident a Ha), (unspace_ident b Hb). reflexivity.
Qed.

Lemma strip_prefix_spec m s r : strip_prefix m s = Some r -> s = m ++ r.
Proof.
  revert s; induction m as [|a m IH]; cbn; intros s H; [now inversion H|].
  destruct s as [|b s]; [discriminate|]. destruct (Ascii.eqb a b) eqn:E; [|discriminate].
  apply Ascii.eqb_eq in E. subst b. now rewrite (IH s H).
Qed.

Lemma atom_canon m s n r : fst (@atom ty m s) = Ok n r -> unspace s = unspace m ++ unspace r.
Proof.
  unfold atom. destruct (strip_prefix m (skip_ws s)) as [r'|] eqn:E; cbn [fst]; [|discriminate].
  intro H. inversion H; subst. apply strip_prefix_spec in E.
  rewrite <- unspace_skip_ws, E. apply unspace_app.
Qed.

Lemma ident_canon s n r : fst (ident s) = Ok n r ->
  exists v, n = NTerm v /\ is_ident v = true /\ unspace s = v ++ unspace r.
Proof.
  unfold ident, token1. destruct (skip_ws s) as [|c x] eqn:Es; cbn [fst]; [discriminate|].
  destruct (is_alpha c) eqn:Hc; cbn [fst]; [|discriminate].
  destruct (span is_alnum_ x) as [a b] eqn:E. cbn [fst]. intro H. inversion H; subst.
  apply span_spec in E as (Ex & Ha & _). rewrite all_chars_same in Ha.
  assert (Hid : is_ident (String c a) = true) by (cbn; now rewrite Hc, Ha).
  exists (String c a). repeat split; [assumption|].
  rewrite <- unspace_skip_ws, Es, Ex. change (String c (a ++ r)) with (String c a ++ r).
  rewrite unspace_app. now rewrite (unspace_ident _ Hid).
Qed.

Lemma struct_name_canon s n r : fst (struct_name s) = Ok n r ->
  exists v, n = NTerm v /\ is_struct_name v = true /\ unspace s = v ++ unspace r.
Proof.
  intro H. destruct (struct_name_out s n r H) as (v & -> & Hv). exists v. repeat split; [assumption|].
  rewrite <- (unspace_struct_name v Hv), <- unspace_app, <- unspace_skip_ws. f_equal.
  revert H. unfold struct_name. destruct (skip_ws s) as [|c x]; cbn [fst]; [discriminate|].
  destruct (is_alpha c) eqn:Hc; cbn [fst]; [|discriminate].
  destruct (span is_alnum_ x) as [a b] eqn:E. apply span_spec in E as (-> & _ & _).
  assert (Hdone : forall r', (Ok (NTerm (String c a)) b : res snode) = Ok (NTerm v) r' -> String c (a ++ b) = v ++ r').
  { intros r' H. inversion H; subst. reflexivity. }
  destruct b as [|y b]; cbn [fst]; [apply Hdone|].
  destruct y as [[] [] [] [] [] [] [] []]; cbn [fst]; try apply Hdone.
  destruct b as [|c2 r2]; cbn [fst]; [apply Hdone|].
  destruct (is_alpha c2) eqn:Hc2; cbn [fst]; [|apply Hdone].
  destruct (span is_alnum_ r2) as [a2 b2] eqn:E2. apply span_spec in E2 as (-> & _ & _).
  destruct b2 as [|z b3]; cbn [fst]; [apply Hdone|].
  destruct z as [[] [] [] [] [] [] [] []]; cbn [fst]; try apply Hdone.
  intro H. inversion H; subst. cbn. f_equal. rewrite !sapp_assoc. cbn. now rewrite !sapp_assoc.
Qed.

Lemma scalar_of_letter_spec l sc : scalar_of_letter l = Some sc -> l = scalar_letter sc.
Proof.
  unfold scalar_of_letter.
  repeat match goal with
         | |- context [String.eqb ?a ?b] => destruct (String.eqb_spec a b); [intro H; inversion H; subst; reflexivity|]
         end.
  discriminate.
Qed.

Lemma basic_canon s n r t : fst (basic_type s) = Ok n r -> extract_value (NList [n]) = Some t ->
  unspace s = print t ++ unspace r.
Proof.
  intros H Ht. unfold basic_type in H. apply por_inv in H as (p & m & Hin & Hp & ->).
  apply in_map_iff in Hin as (l & <- & Hl).
  pose proof (atom_canon l s m r Hp) as Hc.
  unfold atom in Hp. destruct (strip_prefix l (skip_ws s)); cbn [fst] in Hp; [|discriminate].
  inversion Hp; subst. cbn in Ht. destruct (scalar_of_letter l) as [sc|] eqn:E; [|discriminate].
  inversion Ht; subst. apply scalar_of_letter_spec in E. subst l. rewrite Hc. f_equal.
  destruct sc; reflexivity.
Qed.

Lemma members_canon (d : sparser) :
  (forall s n r t, fst (d s) = Ok n r -> extract_value n = Some t -> unspace s = print t ++ unspace r) ->
  forall s xs r ts, many_ok d s xs r -> extract_types xs = Some ts -> unspace s = members_str ts ++ unspace r.
Proof.
  intros Hd s xs r ts Hm. revert ts. induction Hm as [s|s x s1 xs r Hx Hm IH]; intros ts Hts.
  - inversion Hts; subst. reflexivity.
  - cbn in Hts. destruct (extract_value x) as [t|] eqn:Ex; [|discriminate].
    destruct (extract_types xs) as [ts'|]; [|discriminate]. inversion Hts; subst.
    rewrite members_str_cons, sapp_assoc, <- (IH ts' eq_refl). exact (Hd _ _ _ _ Hx Ex).
Qed.

Lemma names_canon s ms r names : many_ok member_p s ms r -> extract_names ms = Some names ->
  forallb is_ident names = true /\ unspace s = names_str names ++ unspace r.
Proof.
  intro Hm. revert names. induction Hm as [s|s x s1 xs r Hx Hm IH]; intros names Hn.
  - inversion Hn; subst. split; reflexivity.
  - unfold member_p in Hx. apply pand_inv in Hx as (ns & Hand & ->).
    apply and_ok_cons_inv in Hand as (x1 & u1 & ns1 & -> & H1 & Hand).
    apply and_ok1 in Hand as (x2 & -> & H2).
    apply ident_canon in H2 as (v & -> & Hv & Hc). apply atom_canon in H1.
    cbn in Hn. destruct (extract_names xs) as [vs|]; [|discriminate]. inversion Hn; subst.
    destruct (IH vs eq_refl) as [Hvs Hrest]. split; [cbn; now rewrite Hv, Hvs|].
    rewrite names_str_cons, H1, Hc, Hrest. cbn. now rewrite sapp_assoc.
Qed.

Lemma combine_map_fst {A B} (l : list A) (l' : list B) : List.length l = List.length l' -> map fst (combine l l') = l.
Proof. revert l'; induction l as [|a l IH]; intros [|b l'] H; cbn in *; try discriminate; [reflexivity|]. f_equal. apply IH. lia. Qed.
Lemma combine_map_snd {A B} (l : list A) (l' : list B) : List.length l = List.length l' -> map snd (combine l l') = l'.
Proof. revert l'; induction l as [|a l IH]; intros [|b l'] H; cbn in *; try discriminate; [reflexivity|]. f_equal. apply IH. lia. Qed.

Lemma decl_canon f : forall s n r t, fst (decl f s) = Ok n r -> extract_value n = Some t ->
  unspace s = print t ++ unspace r.
Proof.
  induction f as [|f IH]; intros s n r t H Ht; [discriminate|].
  rewrite decl_S in H. apply por_inv in H as (p & m & Hin & Hp & ->).
  cbn [In] in Hin. destruct Hin as [<-|[<-|[<-|[<-|[<-|[]]]]]].
  - now apply (basic_canon s m r t).
  - unfold map_type in Hp. apply pand_inv in Hp as (ns & Hand & ->).
    apply and_ok_cons_inv in Hand as (x1 & s1 & ns1 & -> & H1 & Hand).
    apply and_ok_cons_inv in Hand as (x2 & s2 & ns2 & -> & H2 & Hand).
    apply and_ok_cons_inv in Hand as (x3 & s3 & ns3 & -> & H3 & Hand).
    apply and_ok1 in Hand as (x4 & -> & H4).
    cbn in Ht.
    destruct (extract_value x2) as [a|] eqn:Ea; [|discriminate].
    destruct (extract_value x3) as [b|] eqn:Eb; [|discriminate].
    inversion Ht; subst.
    rewrite (atom_canon _ _ _ _ H1), (IH _ _ _ _ H2 Ea), (IH _ _ _ _ H3 Eb), (atom_canon _ _ _ _ H4).
    cbn. now rewrite !sapp_assoc.
  - unfold array_type in Hp. apply pand_inv in Hp as (ns & Hand & ->).
    apply and_ok_cons_inv in Hand as (x1 & s1 & ns1 & -> & H1 & Hand).
    apply and_ok_cons_inv in Hand as (x2 & s2 & ns2 & -> & H2 & Hand).
    apply and_ok1 in Hand as (x3 & -> & H3).
    cbn in Ht. destruct (extract_value x2) as [a|] eqn:Ea; [|discriminate]. inversion Ht; subst.
    rewrite (atom_canon _ _ _ _ H1), (IH _ _ _ _ H2 Ea), (atom_canon _ _ _ _ H3).
    cbn. now rewrite !sapp_assoc.
  - unfold struct_type in Hp. apply pand_inv in Hp as (ns & Hand & ->).
    apply and_ok_cons_inv in Hand as (x1 & s1 & ns1 & -> & H1 & Hand).
    apply and_ok_cons_inv in Hand as (x2 & s2 & ns2 & -> & H2 & Hand).
    apply and_ok_cons_inv in Hand as (x3 & s3 & ns3 & -> & H3 & Hand).
    apply and_ok_cons_inv in Hand as (x4 & s4 & ns4 & -> & H4 & Hand).
    apply and_ok_cons_inv in Hand as (x5 & s5 & ns5 & -> & H5 & Hand).
    apply and_ok_cons_inv in Hand as (x6 & s6 & ns6 & -> & H6 & Hand).
    apply and_ok1 in Hand as (x7 & -> & H7).
    unfold list_type in H2. apply kleene_chain in H2 as (xs & -> & Hxs).
    apply struct_name_canon in H5 as (name & -> & Hname & Hc5).
    unfold member_list in H6. fold member_p in H6. apply kleene_chain in H6 as (ms & -> & Hms).
    cbn in Ht.
    destruct (extract_types xs) as [ts|] eqn:Ets; [|discriminate].
    destruct (extract_names ms) as [names|] eqn:Ens; [|discriminate].
    destruct (Nat.eqb (List.length ts) (List.length names)) eqn:El; [|discriminate].
    apply Nat.eqb_eq in El. inversion Ht; subst.
    rewrite print_struct, combine_map_fst, combine_map_snd by lia.
    destruct (names_canon _ _ _ _ Hms Ens) as [_ Hc6].
    rewrite (atom_canon _ _ _ _ H1), (members_canon (decl f) IH _ _ _ _ Hxs Ets),
            (atom_canon _ _ _ _ H3), (atom_canon _ _ _ _ H4), Hc5, Hc6, (atom_canon _ _ _ _ H7).
    cbn. rewrite !sapp_assoc. cbn. now rewrite !sapp_assoc.
  - unfold tuple_type in Hp. apply pand_inv in Hp as (ns & Hand & ->).
    apply and_ok_cons_inv in Hand as (x1 & s1 & ns1 & -> & H1 & Hand).
    apply and_ok_cons_inv in Hand as (x2 & s2 & ns2 & -> & H2 & Hand).
    apply and_ok1 in Hand as (x3 & -> & H3).
    unfold list_type in H2. apply kleene_chain in H2 as (xs & -> & Hxs).
    cbn in Ht. destruct (extract_types xs) as [ts|] eqn:Ets; [|discriminate]. inversion Ht; subst.
    rewrite (atom_canon _ _ _ _ H1), (members_canon (decl f) IH _ _ _ _ Hxs Ets), (atom_canon _ _ _ _ H3).
    cbn. unfold members_str. now rewrite !sapp_assoc.
Qed.

(* an accepted input is the printed signature of its type with white space between tokens *)
Theorem parse_canonical : forall s t, parse s = POk t -> unspace s = print t.
Proof.
  intros s t. rewrite parse_eq. unfold parse_fuel.
  destruct (fst (decl (S (String.length s)) s)) as [root rest| | |] eqn:E; cbn; try discriminate.
  destruct rest; [|discriminate]. cbn.
  destruct root as [| | | |[|[|x| | |] []]]; try discriminate.
  intro H. inversion H; subst. rewrite (decl_canon _ _ _ _ t E eq_refl). apply sapp_nil_r.
Qed.
