(* MessageProofs.v — theorems about Message.v used by props/C01.v, C08.v, C10.v *)
From QV Require Import Reader ReaderProofs Message.
Local Open Scope N_scope.

Lemma take_le n x r : take n (le n x ++ r) = le n x.
Proof. unfold take. rewrite <- (le_length n x) at 1. apply firstn_app_exact. Qed.
Lemma drop_le n x r : drop n (le n x ++ r) = r.
Proof. unfold drop. rewrite <- (le_length n x) at 1. apply skipn_app_exact. Qed.
Lemma take_be n x r : take n (be n x ++ r) = be n x.
Proof. unfold take. rewrite <- (be_length n x) at 1. apply firstn_app_exact. Qed.
Lemma drop_be n x r : drop n (be n x ++ r) = r.
Proof. unfold drop. rewrite <- (be_length n x) at 1. apply skipn_app_exact. Qed.

Lemma enc_header_eq h :
  enc_header h = be 4 (h_magic h) ++ le 4 (h_id h) ++ le 4 (h_size h) ++ le 2 (h_version h) ++
                 le 1 (h_type h) ++ le 1 (h_flags h) ++ le 4 (h_service h) ++ le 4 (h_object h) ++
                 le 4 (h_action h).
Proof. unfold enc_header, header_layout. cbn [flat_map enc_field hget]. now rewrite app_nil_r. Qed.

Lemma enc_header_length h : List.length (enc_header h) = 28%nat.
Proof. rewrite enc_header_eq. now rewrite !app_length, be_length, !le_length. Qed.

Lemma valid_header_bounds h : valid_header h ->
  h_magic h < 2 ^ (8 * N.of_nat 4) /\ h_version h < 2 ^ (8 * N.of_nat 2) /\ h_type h < 2 ^ (8 * N.of_nat 1).
Proof. unfold valid_header, Magic, Version. intros (Hm & Hv & Ht & _). rewrite Hm, Hv. cbn. lia. Qed.

Lemma dec_enc_header h : valid_header h -> dec_header (enc_header h) = Ok h.
Proof.
  intro Hv. pose proof (valid_header_bounds h Hv) as (Bm & Bv & Bt).
  destruct Hv as (Hm & Hver & Ht & Hid & Hsz & Hfl & Hsv & Hob & Hac).
  rewrite enc_header_eq. unfold dec_header; cbv zeta.
  rewrite take_be, drop_be, (unbe_be_small 4 _ Bm).
  rewrite Hm at 1. rewrite N.eqb_refl. cbn [negb].
  repeat (rewrite take_le || rewrite drop_le).
  rewrite (unle_le_small 4 (h_id h)) by exact Hid.
  rewrite (unle_le_small 4 (h_size h)) by exact Hsz.
  rewrite (unle_le_small 2 (h_version h)) by exact Bv.
  rewrite Hver at 1. rewrite N.eqb_refl. cbn [negb].
  rewrite (unle_le_small 1 (h_type h)) by exact Bt.
  replace ((h_type h =? T_Unknown) || (T_Cancelled <? h_type h)) with false.
  2:{ symmetry. apply orb_false_iff. unfold T_Unknown, T_Cancelled. split; [apply N.eqb_neq|apply N.ltb_ge]; lia. }
  rewrite (unle_le_small 1 (h_flags h)) by exact Hfl.
  repeat (rewrite take_le || rewrite drop_le).
  rewrite (unle_le_small 4 (h_service h)) by exact Hsv.
  rewrite (unle_le_small 4 (h_object h)) by exact Hob.
  replace (take 4 (le 4 (h_action h))) with (le 4 (h_action h))
    by (unfold take; rewrite <- (le_length 4 (h_action h)) at 2; now rewrite firstn_all).
  rewrite (unle_le_small 4 (h_action h)) by exact Hac.
  destruct h; reflexivity.
Qed.

(* ---- round trip over every fragmentation ---- *)
Theorem read_msg_roundtrip :
  forall m rest sch, valid_msg m -> pos_sched sch ->
    exists sch', read_msg {| s_data := enc_msg m ++ rest; s_sched := sch |} =
                   Some (Ok m, {| s_data := rest; s_sched := sch' |}) /\ pos_sched sch'.
Proof.
  intros m rest sch (Hv & Hsz & Hmax) Hpos. unfold read_msg, enc_msg, HeaderSize.
  rewrite <- app_assoc.
  destruct (readN_frag 28 (enc_header (m_header m)) (m_payload m ++ rest) sch Hpos (enc_header_length _))
    as [sch1 [Hr1 Hpos1]].
  rewrite Hr1, (dec_enc_header _ Hv).
  replace (MaxPayloadSize <? h_size (m_header m)) with false by (symmetry; apply N.ltb_ge; exact Hmax).
  destruct (h_size (m_header m) =? 0) eqn:Hz.
  - apply N.eqb_eq in Hz. rewrite Hz in Hsz.
    assert (Hp : m_payload m = []) by (destruct (m_payload m); [reflexivity|cbn in Hsz; lia]).
    exists sch1. split; [|exact Hpos1]. rewrite Hp. cbn [app]. destruct m as [h p]; cbn in *; now subst.
  - destruct (readN_frag (N.to_nat (h_size (m_header m))) (m_payload m) rest sch1 Hpos1) as [sch2 [Hr2 Hpos2]].
    { rewrite Hsz. now rewrite Nat2N.id. }
    rewrite Hr2. exists sch2. split; [|exact Hpos2]. destruct m; reflexivity.
Qed.

(* ---- back-to-back messages ---- *)
Lemma read_all_S f s : read_all (S f) s =
  match read_msg s with
  | None => None
  | Some (Err e, s') => Some ([], e, s')
  | Some (Ok m, s') => match read_all f s' with None => None | Some (ms, e, s'') => Some (m :: ms, e, s'') end
  end.
Proof. reflexivity. Qed.
Theorem read_all_sequence :
  forall ms sch, Forall valid_msg ms -> pos_sched sch ->
    exists sch', read_all (S (List.length ms)) {| s_data := concat (map enc_msg ms); s_sched := sch |} =
                   Some (ms, EEOF, {| s_data := []; s_sched := sch' |}).
Proof.
  induction ms as [|m ms IH]; intros sch Hv Hpos.
  - cbn [List.length map concat]. rewrite read_all_S. unfold read_msg.
    destruct (readN_full_empty HeaderSize sch) as [s' Hr]; [unfold HeaderSize; lia|].
    rewrite Hr.
    (* the source left behind by an EOF on empty data is empty *)
    unfold readN_full in Hr. cbn [s_sched] in Hr.
    replace (List.length sch + 2)%nat with (S (List.length sch + 1)) in Hr by lia.
    cbn [readN_loop List.length Nat.leb HeaderSize] in Hr. unfold read1 in Hr. cbn [s_data s_sched] in Hr.
    destruct sch as [|[k e] r]; cbn in Hr; inversion Hr; subst; eexists; reflexivity.
  - inversion Hv as [|m' ms' Hm Hms]; subst.
    cbn [List.length map concat]. rewrite read_all_S.
    destruct (read_msg_roundtrip m (concat (map enc_msg ms)) sch Hm Hpos) as [sch1 [Hr Hpos1]].
    rewrite Hr. destruct (IH sch1 Hms Hpos1) as [sch' Hall]. rewrite Hall. eexists; reflexivity.
Qed.

(* ---- refusal before the payload is touched ---- *)
Definition header_refused (b : bytes) : Prop :=
  (exists e, dec_header b = Err e) \/ (exists h, dec_header b = Ok h /\ MaxPayloadSize < h_size h).

Theorem refuse_before_payload :
  forall b rest sch, List.length b = 28%nat -> header_refused b -> pos_sched sch ->
    exists sch', read_msg {| s_data := b ++ rest; s_sched := sch |} =
                   Some (Err EOther, {| s_data := rest; s_sched := sch' |}).
Proof.
  intros b rest sch Hlen Href Hpos. unfold read_msg, HeaderSize.
  destruct (readN_frag 28 b rest sch Hpos Hlen) as [sch1 [Hr1 _]]. rewrite Hr1.
  destruct Href as [[e He] | [h [Hh Hbig]]].
  - rewrite He. eexists; reflexivity.
  - rewrite Hh. replace (MaxPayloadSize <? h_size h) with true by (symmetry; now apply N.ltb_lt).
    eexists; reflexivity.
Qed.

(* each of the four documented causes is a refusal *)
Lemma refused_magic h : h_magic h < 2 ^ 32 -> h_magic h <> Magic -> exists e, dec_header (enc_header h) = Err e.
Proof.
  intros Hb Hne. exists EOther. rewrite enc_header_eq. unfold dec_header; cbv zeta.
  rewrite take_be, (unbe_be_small 4 _ Hb).
  replace (h_magic h =? Magic) with false by (symmetry; now apply N.eqb_neq). cbn. reflexivity.
Qed.

Lemma refused_version h : h_magic h = Magic -> h_version h < 2 ^ 16 -> h_version h <> Version ->
  exists e, dec_header (enc_header h) = Err e.
Proof.
  intros Hm Hb Hne. exists EOther. rewrite enc_header_eq. unfold dec_header; cbv zeta.
  rewrite take_be, drop_be, unbe_be_small by (rewrite Hm; reflexivity).
  rewrite Hm at 1. rewrite N.eqb_refl. cbn [negb]. repeat (rewrite take_le || rewrite drop_le).
  rewrite (unle_le_small 2 (h_version h)) by exact Hb.
  replace (h_version h =? Version) with false by (symmetry; now apply N.eqb_neq). cbn. reflexivity.
Qed.

Lemma refused_type h : h_magic h = Magic -> h_version h = Version -> h_type h < 2 ^ 8 ->
  (h_type h = 0 \/ 8 < h_type h) -> exists e, dec_header (enc_header h) = Err e.
Proof.
  intros Hm Hv Hb Hbad. exists EOther. rewrite enc_header_eq. unfold dec_header; cbv zeta.
  rewrite take_be, drop_be, unbe_be_small by (rewrite Hm; reflexivity).
  rewrite Hm at 1. rewrite N.eqb_refl. cbn [negb]. repeat (rewrite take_le || rewrite drop_le).
  rewrite (unle_le_small 2 (h_version h)) by (rewrite Hv; reflexivity).
  rewrite Hv at 1. rewrite N.eqb_refl. cbn [negb].
  rewrite (unle_le_small 1 (h_type h)) by exact Hb.
  replace ((h_type h =? T_Unknown) || (T_Cancelled <? h_type h)) with true.
  - reflexivity.
  - symmetry. apply orb_true_iff. unfold T_Unknown, T_Cancelled.
    destruct Hbad; [left; now apply N.eqb_eq | right; now apply N.ltb_lt].
Qed.

(* ---- truncation (used by C08): any strict prefix of a valid frame is rejected ---- *)
Theorem read_msg_prefix_rejected :
  forall m k sch r s', valid_msg m -> (k < List.length (enc_msg m))%nat ->
    read_msg {| s_data := firstn k (enc_msg m); s_sched := sch |} = Some (r, s') -> exists e, r = Err e.
Proof.
  intros m k sch r s' (Hv & Hsz & Hmax) Hk Hrun. unfold read_msg in Hrun.
  unfold enc_msg in *. rewrite app_length, enc_header_length in Hk.
  destruct (readN_full HeaderSize _) as [[[[b sb]|e] s1]|] eqn:Hr1; try discriminate.
  2:{ inversion Hrun; subst. eexists; reflexivity. }
  (* the header was read in full, so k >= 28 and b is the header *)
  destruct (Nat.ltb k 28) eqn:Hk28.
  { apply Nat.ltb_lt in Hk28. exfalso.
    assert (Hshort : (List.length (s_data {| s_data := firstn k (enc_header (m_header m) ++ m_payload m); s_sched := sch |}) < HeaderSize)%nat)
      by (cbn [s_data]; rewrite firstn_length; unfold HeaderSize; lia).
    destruct (readN_full_short _ _ _ _ Hshort Hr1) as [e He]. discriminate. }
  apply Nat.ltb_ge in Hk28.
  assert (Hsplit : firstn k (enc_header (m_header m) ++ m_payload m) =
                   enc_header (m_header m) ++ firstn (k - 28) (m_payload m)).
  { rewrite firstn_app, enc_header_length. f_equal. apply firstn_all2. rewrite enc_header_length. exact Hk28. }
  rewrite Hsplit in Hr1.
  (* positive-chunk hypothesis is not needed for rejection; but to identify b we use determinism
     of readN on the bytes it returns: it can only return a prefix of the data. *)
  assert (Hb : b = enc_header (m_header m) /\ s_data s1 = firstn (k - 28) (m_payload m)).
  { clear Hrun. unfold readN_full in Hr1.
    pose proof (readN_loop_prefix (List.length sch + 2) HeaderSize [] _ _ _ _ Hr1) as Hp.
    cbn [app s_data List.length] in Hp. destruct Hp as (Hcat & Hlen).
    specialize (Hlen (Nat.le_0_l _)). unfold HeaderSize in Hlen.
    rewrite <- (enc_header_length (m_header m)) in Hlen.
    pose proof (app_eq_len_split _ _ _ _ Hcat Hlen) as [E1 E2]. auto. }
  destruct Hb as [Hb Hd]. subst b. rewrite (dec_enc_header _ Hv) in Hrun.
  replace (MaxPayloadSize <? h_size (m_header m)) with false in Hrun by (symmetry; apply N.ltb_ge; exact Hmax).
  destruct (h_size (m_header m) =? 0) eqn:Hz.
  { apply N.eqb_eq in Hz. rewrite Hz in Hsz. destruct (m_payload m); cbn in Hsz, Hk; lia. }
  destruct (readN_full (N.to_nat (h_size (m_header m))) s1) as [[[[p sp]|e] s2]|] eqn:Hr2; try discriminate.
  - exfalso.
    assert (Hshort : (List.length (s_data s1) < N.to_nat (h_size (m_header m)))%nat)
      by (rewrite Hd, firstn_length, Hsz, Nat2N.id; lia).
    destruct (readN_full_short _ _ _ _ Hshort Hr2) as [e He]. discriminate.
  - inversion Hrun; subst. eexists; reflexivity.
Qed.

(* ---- documented layout (doc/about-qimessaging.md, "Message format") ----
   written against the documentation, not against enc_header. *)
Definition doc_frame (id size version typ flags service object action : N) (payload : bytes) : bytes :=
  [x42; xde; xad; x42] ++ le 4 id ++ le 4 size ++ le 2 version ++ [byte_of_N typ] ++ [byte_of_N flags] ++
  le 4 service ++ le 4 object ++ le 4 action ++ payload.

Theorem enc_msg_layout m : h_magic (m_header m) = Magic ->
  enc_msg m = doc_frame (h_id (m_header m)) (h_size (m_header m)) (h_version (m_header m))
                (h_type (m_header m)) (h_flags (m_header m)) (h_service (m_header m))
                (h_object (m_header m)) (h_action (m_header m)) (m_payload m).
Proof.
  intro Hm. unfold enc_msg, doc_frame. rewrite enc_header_eq, Hm.
  change (be 4 Magic) with [x42; xde; xad; x42].
  change (le 1 (h_type (m_header m))) with [byte_of_N (h_type (m_header m))].
  change (le 1 (h_flags (m_header m))) with [byte_of_N (h_flags (m_header m))].
  now rewrite <- !app_assoc.
Qed.

(* ---- Message.Write ---- *)
Theorem write_msg_once m calls : valid_msg m ->
  write_msg m {| w_calls := calls; w_sched := [] |} =
    Some (Ok {| w_calls := calls ++ [enc_msg m]; w_sched := [] |}).
Proof.
  intros (Hv & Hsz & Hmax). unfold write_msg.
  assert (Hsmall : h_size (m_header m) < 2 ^ 32 - 28) by (unfold MaxPayloadSize in Hmax; lia).
  rewrite <- Hsz. rewrite N.mod_small by lia. rewrite N.eqb_refl. cbn [negb].
  rewrite (N.mod_small (h_size (m_header m) + 28)) by lia.
  assert (Hlen : N.to_nat (h_size (m_header m) + 28) = List.length (enc_msg m)).
  { unfold enc_msg. rewrite app_length, enc_header_length, Hsz. lia. }
  rewrite Hlen. unfold writeN. cbn [w_sched List.length Nat.add].
  destruct (enc_msg m) as [|x b] eqn:Hb.
  - exfalso. apply (f_equal (@List.length byte)) in Hb. unfold enc_msg in Hb.
    rewrite app_length, enc_header_length in Hb. cbn in Hb. lia.
  - cbn [writeN_loop List.length]. unfold write1. cbn [w_sched w_calls].
    cbn [Nat.eqb List.length]. rewrite Nat.sub_diag. reflexivity.
Qed.

Theorem write_msg_short_writes m calls sch : valid_msg m -> pos_wsched sch ->
  exists w', write_msg m {| w_calls := calls; w_sched := sch |} = Some (Ok w') /\
    exists more, w_calls w' = calls ++ more /\ concat more = enc_msg m.
Proof.
  intros (Hv & Hsz & Hmax) Hpos. unfold write_msg.
  assert (Hsmall : h_size (m_header m) < 2 ^ 32 - 28) by (unfold MaxPayloadSize in Hmax; lia).
  rewrite <- Hsz. rewrite N.mod_small by lia. rewrite N.eqb_refl. cbn [negb].
  rewrite (N.mod_small (h_size (m_header m) + 28)) by lia.
  assert (Hlen : N.to_nat (h_size (m_header m) + 28) = List.length (enc_msg m)).
  { unfold enc_msg. rewrite app_length, enc_header_length, Hsz. lia. }
  rewrite Hlen. unfold writeN. cbn [w_sched].
  destruct (writeN_loop_concat sch (List.length sch + 1) (enc_msg m) calls Hpos (le_n _))
    as [w' [Hrun [more [Hc [Hcat _]]]]].
  exists w'. split; [exact Hrun|]. exists more. auto.
Qed.

Theorem write_msg_size_mismatch m w :
  N.of_nat (List.length (m_payload m)) mod 2 ^ 32 <> h_size (m_header m) ->
  write_msg m w = Some (Err EOther).
Proof.
  intro H. unfold write_msg. apply N.eqb_neq in H. now rewrite H.
Qed.

(* non-vacuity: a concrete message with a payload, read back over 1-byte reads with EOF glued to the last byte *)
Definition ex_msg : msg :=
  {| m_header := {| h_magic := Magic; h_id := 0x01020304; h_size := 3; h_version := 0; h_type := T_Call; h_flags := 7;
                    h_service := 1; h_object := 2; h_action := 0xfffffffe |};
     m_payload := [x01; x02; x03] |}.
Lemma ex_msg_valid : valid_msg ex_msg.
Proof. unfold valid_msg, valid_header, ex_msg, Magic, Version, MaxPayloadSize, T_Call; cbn. lia. Qed.
Lemma ex_msg_read :
  read_msg {| s_data := enc_msg ex_msg ++ [xff]; s_sched := repeat (1%nat, true) 31 |} =
    Some (Ok ex_msg, {| s_data := [xff]; s_sched := [] |}).
Proof. vm_compute. reflexivity. Qed.

(* lossless: the frame determines the message.  Two valid messages followed by any bytes that
   give the same byte string are equal, and so are the trailing bytes; no frame is a proper
   prefix of another *)
Lemma enc_msg_injective : forall m1 m2 r1 r2, valid_msg m1 -> valid_msg m2 ->
  enc_msg m1 ++ r1 = enc_msg m2 ++ r2 -> m1 = m2 /\ r1 = r2.
Proof.
  intros m1 m2 r1 r2 H1 H2 He.
  destruct (read_msg_roundtrip m1 r1 [] H1 (Forall_nil _)) as [s1 [E1 _]].
  destruct (read_msg_roundtrip m2 r2 [] H2 (Forall_nil _)) as [s2 [E2 _]].
  rewrite He in E1. rewrite E1 in E2. inversion E2 as [[Hm Hr Hs]]. split; reflexivity.
Qed.
Lemma enc_msg_not_prefix : forall m1 m2 r, valid_msg m1 -> valid_msg m2 ->
  enc_msg m1 = enc_msg m2 ++ r -> m1 = m2 /\ r = [].
Proof.
  intros m1 m2 r H1 H2 He. rewrite <- (app_nil_r (enc_msg m1)) in He.
  destruct (enc_msg_injective m1 m2 [] r H1 H2 He) as [Hm Hr]. split; [exact Hm|now symmetry].
Qed.

(* a byte stream splits into valid frames in at most one way *)
Lemma enc_msg_nonempty : forall m r, enc_msg m ++ r <> [].
Proof.
  intros m r He. apply (f_equal (@List.length _)) in He.
  unfold enc_msg in He. rewrite !app_length, enc_header_length in He. discriminate He.
Qed.
Lemma enc_stream_injective : forall ms1 ms2, Forall valid_msg ms1 -> Forall valid_msg ms2 ->
  concat (map enc_msg ms1) = concat (map enc_msg ms2) -> ms1 = ms2.
Proof.
  induction ms1 as [|m1 ms1 IH]; intros ms2 H1 H2 He; destruct ms2 as [|m2 ms2]; cbn [map concat] in He.
  - reflexivity.
  - exfalso. symmetry in He. now apply enc_msg_nonempty in He.
  - exfalso. now apply enc_msg_nonempty in He.
  - inversion H1 as [|x1 l1 Hm1 Hr1]; subst. inversion H2 as [|x2 l2 Hm2 Hr2]; subst.
    destruct (enc_msg_injective m1 m2 _ _ Hm1 Hm2 He) as [Hm Hr]. subst m2.
    f_equal. now apply IH.
Qed.
