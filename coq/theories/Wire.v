(* Wire.v — typed data trees, the documented serialization (doc/about-qimessaging.md,
   "Serialization"), and models of the three generic codecs of the implementation:
     spec_enc / spec_dec : the format as documented (also what generated code must do)
     sig_read            : meta/signature/reader.go (constReader, stringReader, valueReader,
                           varReader, tupleReader) driven by a parsed signature
     refl_enc / refl_dec : type/encoding/encoding.go (reflection encoder / decoder)
   All decoders work on the remaining bytes of a bytes.Reader-like source: a failed read has
   consumed what was available, which matters where the code goes on after an error. *)
From QV Require Export Sig Config.
Local Open Scope N_scope.

Definition MaxStringSize : N := 10 * 1024 * 1024.
Definition listValueMaxSize : N := 4096.

Inductive tval :=
| VNum (w : nat) (bits : N)     (* fixed-width integer / IEEE bit pattern on w bytes *)
| VBool (b : bool)
| VStr (s : bytes)
| VList (l : list tval)
| VMap (kvs : list (tval * tval))
| VTup (l : list tval)          (* tuple, struct, object reference; void is VTup [] *)
| VDyn (t : ty) (v : tval).     (* dynamic value: signature of the concrete type, then the data *)

Section tval_ind2.
  Variable P : tval -> Prop.
  Hypothesis HN : forall w b, P (VNum w b).
  Hypothesis HB : forall b, P (VBool b).
  Hypothesis HS : forall s, P (VStr s).
  Hypothesis HL : forall l, Forall P l -> P (VList l).
  Hypothesis HM : forall kvs, Forall (fun kv => P (fst kv) /\ P (snd kv)) kvs -> P (VMap kvs).
  Hypothesis HT : forall l, Forall P l -> P (VTup l).
  Hypothesis HD : forall t v, P v -> P (VDyn t v).
  Fixpoint tval_ind2 (v : tval) : P v :=
    match v with
    | VNum w b => HN w b
    | VBool b => HB b
    | VStr s => HS s
    | VList l => HL l ((fix go (l : list tval) : Forall P l :=
                         match l with [] => Forall_nil _ | x :: r => Forall_cons _ (tval_ind2 x) (go r) end) l)
    | VMap kvs => HM kvs ((fix go (l : list (tval * tval)) : Forall (fun kv => P (fst kv) /\ P (snd kv)) l :=
                         match l with [] => Forall_nil _
                         | x :: r => Forall_cons _ (conj (tval_ind2 (fst x)) (tval_ind2 (snd x))) (go r) end) kvs)
    | VTup l => HT l ((fix go (l : list tval) : Forall P l :=
                         match l with [] => Forall_nil _ | x :: r => Forall_cons _ (tval_ind2 x) (go r) end) l)
    | VDyn t v => HD t v (tval_ind2 v)
    end.
End tval_ind2.

(* "o" stands for the ObjectReference structure wherever data is concerned *)
Definition expand1 (t : ty) : ty := match t with TS SObject => ty_ObjectReference | _ => t end.

Definition scalar_width (s : scalar) : option nat :=
  match s with
  | SI8 | SU8 => Some 1 | SI16 | SU16 => Some 2 | SI32 | SU32 | SF32 => Some 4
  | SI64 | SU64 | SF64 => Some 8 | _ => None
  end%nat.

(* a lower bound of the encoded size of any value of the type *)
Fixpoint min_width (t : ty) : nat :=
  match t with
  | TS s => match s with
            | SI8 | SU8 | SBool => 1 | SI16 | SU16 => 2 | SI32 | SU32 | SF32 | SStr | SValue => 4
            | SI64 | SU64 | SF64 => 8 | SObject => 24 | SUnknown | SVoid => 0
            end
  | TList _ | TMap _ _ => 4
  | TTuple ts => fold_right (fun t a => min_width t + a) 0 ts
  | TStruct _ fs => fold_right (fun f a => min_width (snd f) + a) 0 fs
  end%nat.

(* containers whose elements occupy at least one byte (so that a count is bounded by the
   bytes that follow it).  Only the cost theorems (Cost.v, C07) need this: with zero-width
   elements the number of iterations is not bounded by the input.  The round-trip,
   exact-consumption and strict-prefix theorems (C02, C03, C08) hold without it. *)
Fixpoint wfz (t : ty) : bool :=
  match t with
  | TS _ => true
  | TList t' => Nat.leb 1 (min_width t') && wfz t'
  | TMap k v => Nat.leb 1 (min_width k + min_width v) && wfz k && wfz v
  | TTuple ts => forallb wfz ts
  | TStruct _ fs => forallb (fun f => wfz (snd f)) fs
  end.
Definition good_ty (t : ty) : bool := wf_ty t && wfz t.

(* typing; strings and containers within what a length field can say *)
Fixpoint has_ty (v : tval) (t : ty) {struct v} : bool :=
  match v, expand1 t with
  | VNum w b, TS s => match scalar_width s with Some w' => Nat.eqb w w' && (b <? 2 ^ (8 * N.of_nat w)) | None => false end
  | VBool _, TS SBool => true
  | VStr s, TS SStr => N.of_nat (List.length s) <=? MaxStringSize
  | VList l, TList t' => (N.of_nat (List.length l) <? 2 ^ 31) && forallb (fun x => has_ty x t') l
  | VMap kvs, TMap tk tv =>
      (N.of_nat (List.length kvs) <? 2 ^ 31) && forallb (fun kv => has_ty (fst kv) tk && has_ty (snd kv) tv) kvs
  | VTup l, TTuple ts =>
      (fix go (l : list tval) (ts : list ty) : bool :=
         match l, ts with
         | [], [] => true
         | x :: l', t' :: ts' => has_ty x t' && go l' ts'
         | _, _ => false
         end) l ts
  | VTup l, TStruct _ fs =>
      (fix go (l : list tval) (fs : list (string * ty)) : bool :=
         match l, fs with
         | [], [] => true
         | x :: l', f :: fs' => has_ty x (snd f) && go l' fs'
         | _, _ => false
         end) l fs
  | VTup [], TS SVoid => true
  | VDyn t' v', TS SValue =>
      wf_ty t' && (N.of_nat (String.length (print t')) <=? MaxStringSize) && has_ty v' t'
  | _, _ => false
  end.

Definition enc_u32 (n : N) : bytes := le 4 n.
Definition enc_str (s : bytes) : bytes := enc_u32 (N.of_nat (List.length s)) ++ s.

(* the documented serialization *)
Fixpoint spec_enc (v : tval) : bytes :=
  match v with
  | VNum w b => le w b
  | VBool b => [if b then x01 else x00]
  | VStr s => enc_str s
  | VList l => enc_u32 (N.of_nat (List.length l)) ++ flat_map spec_enc l
  | VMap kvs => enc_u32 (N.of_nat (List.length kvs)) ++ flat_map (fun kv => spec_enc (fst kv) ++ spec_enc (snd kv)) kvs
  | VTup l => flat_map spec_enc l
  | VDyn t v => enc_str (bytes_of_string (print t)) ++ spec_enc v
  end.

(* ---------- decoding outcomes ---------- *)
Inductive res (A : Type) :=
| ROk (a : A)
| RErr (left : bytes)   (* error returned; [left] is what the source still holds *)
| RPanic                (* a Go run-time panic *)
| RFuel.                (* model ran out of fuel: excluded by the theorems *)
Arguments ROk {A} a.
Arguments RErr {A} left.
Arguments RPanic {A}.
Arguments RFuel {A}.

Definition bind {A B} (r : res A) (f : A -> res B) : res B :=
  match r with ROk a => f a | RErr l => RErr l | RPanic => RPanic | RFuel => RFuel end.
Notation "'do' ' pat <- r ; k" := (bind r (fun x => match x with pat => k end))
  (at level 200, pat pattern, r at level 100, k at level 200).

(* basic.ReadN over a bytes.Reader: all or error-after-consuming-everything *)
Definition take_n (n : nat) (bs : bytes) : res (bytes * bytes) :=
  if Nat.ltb (List.length bs) n then RErr [] else ROk (firstn n bs, skipn n bs).
Definition read_num (w : nat) (bs : bytes) : res (N * bytes) :=
  do '(d, r) <- take_n w bs; ROk (unle d, r).
(* basic.ReadString *)
Definition read_str (bs : bytes) : res (bytes * bytes) :=
  do '(n, r) <- read_num 4 bs;
  if n =? 0 then ROk ([], r)
  else if MaxStringSize <? n then RErr r
  else take_n (N.to_nat n) r.

(* "count times" loops.  When the count fits in the input a plain loop; otherwise (hostile
   count, or elements that consume nothing) a loop bounded by the input: an iteration that
   succeeds without consuming anything would be repeated as it is. *)
Section Loops.
  Context {A : Type}.
  Variable p : bytes -> res (A * bytes).
  Fixpoint rep_nat (k : nat) (bs : bytes) : res (list A * bytes) :=
    match k with
    | O => ROk ([], bs)
    | S k' =>
        match p bs with
        | ROk (x, r) => match rep_nat k' r with
                        | ROk (xs, r') => ROk (x :: xs, r')
                        | RErr l => RErr l | RPanic => RPanic | RFuel => RFuel
                        end
        | RErr l => RErr l | RPanic => RPanic | RFuel => RFuel
        end
    end.
  Fixpoint rep_slow (fuel : nat) (n : N) (bs : bytes) (acc : list A) : res (list A * bytes) :=
    if n =? 0 then ROk (rev acc, bs)
    else match fuel with
         | O => RFuel
         | S f =>
             match p bs with
             | ROk (d, bs') =>
                 if Nat.ltb (List.length bs') (List.length bs) then rep_slow f (n - 1) bs' (d :: acc)
                 else ROk (rev acc ++ repeat d (N.to_nat n), bs')
             | RErr l => RErr l
             | RPanic => RPanic
             | RFuel => RFuel
             end
         end.
  Definition rep (n : N) (bs : bytes) : res (list A * bytes) :=
    if N.of_nat (List.length bs) <? n then rep_slow (S (List.length bs)) n bs []
    else rep_nat (N.to_nat n) bs.
End Loops.

(* run a list of parsers in sequence *)
Fixpoint seq_with {A} (ps : list (bytes -> res (A * bytes))) (bs : bytes) : res (list A * bytes) :=
  match ps with
  | [] => ROk ([], bs)
  | p :: ps' =>
      match p bs with
      | ROk (x, r) => match seq_with ps' r with
                      | ROk (xs, r') => ROk (x :: xs, r')
                      | RErr l => RErr l | RPanic => RPanic | RFuel => RFuel
                      end
      | RErr l => RErr l | RPanic => RPanic | RFuel => RFuel
      end
  end.

Definition pair_with {A B} (pk : bytes -> res (A * bytes)) (pv : bytes -> res (B * bytes)) (b : bytes) : res ((A * B) * bytes) :=
  match pk b with
  | ROk (k, r1) => match pv r1 with
                   | ROk (v, r2) => ROk ((k, v), r2)
                   | RErr l => RErr l | RPanic => RPanic | RFuel => RFuel
                   end
  | RErr l => RErr l | RPanic => RPanic | RFuel => RFuel
  end.

Definition as_int32 (n : N) : Z := if n <? 2 ^ 31 then Z.of_N n else Z.of_N n - 2 ^ 32.

(* ---------- spec_dec: the documented format, typed ---------- *)
(* Each codec is written once as a structural recursion over the type, parameterised by what
   happens at a dynamic value ("m") and at an object ("o"); the fuelled functions below tie
   the knot.  "o" is the ObjectReference structure, which contains neither "m" nor "o". *)
Section SpecBody.
  Variable dyn obj : bytes -> res (tval * bytes).
  Fixpoint spec_body (t : ty) (bs : bytes) {struct t} : res (tval * bytes) :=
    match t with
    | TS s =>
        match s with
        | SBool => do '(n, r) <- read_num 1 bs; ROk (VBool (negb (n =? 0)), r)
        | SStr => do '(s, r) <- read_str bs; ROk (VStr s, r)
        | SVoid => ROk (VTup [], bs)
        | SUnknown => RErr bs
        | SValue => dyn bs
        | SObject => obj bs
        | _ => match scalar_width s with
               | Some w => do '(n, r) <- read_num w bs; ROk (VNum w n, r)
               | None => RErr bs
               end
        end
    | TList t' => do '(n, r) <- read_num 4 bs; do '(l, r') <- rep (spec_body t') n r; ROk (VList l, r')
    | TMap tk tv =>
        do '(n, r) <- read_num 4 bs;
        do '(l, r') <- rep (pair_with (spec_body tk) (spec_body tv)) n r;
        ROk (VMap l, r')
    | TTuple ts => do '(l, r) <- seq_with (map spec_body ts) bs; ROk (VTup l, r)
    | TStruct _ fs => do '(l, r) <- seq_with (map (fun f => spec_body (snd f)) fs) bs; ROk (VTup l, r)
    end.
End SpecBody.

Definition no_dyn {A} (bs : bytes) : res (A * bytes) := RErr bs.
Definition out_of_fuel {A} (bs : bytes) : res (A * bytes) := RFuel.

Section WithParse.
  Variable parse : string -> option ty.

  Definition spec_obj : bytes -> res (tval * bytes) := spec_body no_dyn no_dyn ty_ObjectReference.

  (* fuel bounds the nesting of dynamic values *)
  Fixpoint spec_dec (fuel : nat) : ty -> bytes -> res (tval * bytes) :=
    spec_body
      (match fuel with
       | O => out_of_fuel
       | S f => fun bs =>
           do '(sg, r) <- read_str bs;
           match parse (string_of_bytes sg) with
           | None => RErr r
           | Some t' => do '(v, r') <- spec_dec f t' r; ROk (VDyn t' v, r')
           end
       end)
      spec_obj.

  (* ---------- sig_read: meta/signature/reader.go ---------- *)
  Variable c : wcfg.

  (* stringReader.Read *)
  Definition string_reader (bs : bytes) : res (bytes * bytes) :=
    match read_str bs with
    | ROk (s, r) => ROk (enc_str s, r)
    | RErr l => if string_reader_drops_err c then ROk (enc_str [], l) else RErr l
    | RPanic => RPanic
    | RFuel => RFuel
    end.

  Definition cat_res (r : res (list bytes * bytes)) : res (bytes * bytes) :=
    do '(l, rest) <- r; ROk (List.concat l, rest).

  Section SigBody.
    Variable dyn obj : bytes -> res (bytes * bytes).
    Fixpoint sig_body (t : ty) (bs : bytes) {struct t} : res (bytes * bytes) :=
      match t with
      | TS s =>
          match s with
          | SStr => string_reader bs
          | SVoid => ROk ([], bs)
          | SUnknown => RErr bs
          | SValue => dyn bs
          | SObject => obj bs
          | SBool => take_n 1 bs
          | _ => match scalar_width s with Some w => take_n w bs | None => RErr bs end
          end
      | TList t' =>
          do '(n, r) <- read_num 4 bs; do '(d, r') <- cat_res (rep (sig_body t') n r); ROk (enc_u32 n ++ d, r')
      | TMap tk tv =>
          do '(n, r) <- read_num 4 bs;
          do '(d, r') <- cat_res (rep (fun b => do '(kv, r2) <- pair_with (sig_body tk) (sig_body tv) b; ROk (fst kv ++ snd kv, r2)) n r);
          ROk (enc_u32 n ++ d, r')
      | TTuple ts => cat_res (seq_with (map sig_body ts) bs)
      | TStruct _ fs => cat_res (seq_with (map (fun f => sig_body (snd f)) fs) bs)
      end.
  End SigBody.

  Definition sig_obj : bytes -> res (bytes * bytes) := sig_body no_dyn no_dyn ty_ObjectReference.

  Fixpoint sig_read (fuel : nat) : ty -> bytes -> res (bytes * bytes) :=
    sig_body
      (match fuel with
       | O => out_of_fuel
       | S f => fun bs =>
           do '(sg, r) <- read_str bs;
           match parse (string_of_bytes sg) with
           | None => RErr r
           | Some t' =>
               do '(d, r') <- sig_read f t' r;
               ROk ((if value_reader_no_len c then sg else enc_str sg) ++ d, r')
           end
       end)
      sig_obj.

  (* ---------- reflection codec: type/encoding/encoding.go ---------- *)
  (* the Go types signature.Type() yields: every type except dynamic values and "X" *)
  Fixpoint refl_domain (t : ty) : bool :=
    match t with
    | TS SValue | TS SUnknown => false
    | TS _ => true
    | TList t => refl_domain t
    | TMap k v => refl_domain k && refl_domain v
    | TTuple ts => forallb refl_domain ts
    | TStruct _ fs => forallb (fun f => refl_domain (snd f)) fs
    end.

  (* qiEncoder.value, following the value's own shape (the kind switch) *)
  Fixpoint refl_enc (v : tval) : bytes :=
    match v with
    | VNum w b => if Nat.eqb w 1 && refl_drop8 c then [] else le w b
    | VBool b => [if b then x01 else x00]
    | VStr s => enc_str s
    | VList l => le 4 (N.of_nat (List.length l)) ++ flat_map refl_enc l
    | VMap kvs => le 4 (N.of_nat (List.length kvs)) ++ flat_map (fun kv => refl_enc (fst kv) ++ refl_enc (snd kv)) kvs
    | VTup l => flat_map refl_enc l
    | VDyn _ _ => []     (* outside refl_domain *)
    end.

  Fixpoint zero_val (t : ty) : tval :=
    match t with
    | TS s => match s with
              | SBool => VBool false | SStr => VStr [] | SVoid => VTup []
              | SObject | SValue | SUnknown => VTup []
              | _ => match scalar_width s with Some w => VNum w 0 | None => VTup [] end
              end
    | TList _ => VList []
    | TMap _ _ => VMap []
    | TTuple ts => VTup (map zero_val ts)
    | TStruct _ fs => VTup (map (fun f => zero_val (snd f)) fs)
    end.

  (* struct fields: with the defect, a field error leaves the zero value and reading goes on *)
  Fixpoint fields_with (ps : list ((bytes -> res (tval * bytes)) * tval)) (bs : bytes) : res (list tval * bytes) :=
    match ps with
    | [] => ROk ([], bs)
    | (p, z) :: ps' =>
        match p bs with
        | ROk (x, r) => match fields_with ps' r with
                        | ROk (xs, r') => ROk (x :: xs, r')
                        | RErr l => RErr l | RPanic => RPanic | RFuel => RFuel
                        end
        | RErr l => if refl_struct_ignores_err c
                    then match fields_with ps' l with
                         | ROk (xs, r') => ROk (z :: xs, r')
                         | RErr l' => RErr l' | RPanic => RPanic | RFuel => RFuel
                         end
                    else RErr l
        | RPanic => RPanic
        | RFuel => RFuel
        end
    end.

  (* insertion into a Go map: a later equal key replaces the earlier value *)
  Variable tval_eqb : tval -> tval -> bool.
  Fixpoint map_insert (kvs : list (tval * tval)) (k v : tval) : list (tval * tval) :=
    match kvs with
    | [] => [(k, v)]
    | (k', v') :: r => if tval_eqb k k' then (k', v) :: r else (k', v') :: map_insert r k v
    end.
  Definition map_of (kvs : list (tval * tval)) := fold_left (fun m kv => map_insert m (fst kv) (snd kv)) kvs [].

  Section ReflBody.
    Variable obj : bytes -> res (tval * bytes).
    Fixpoint refl_body (t : ty) (bs : bytes) {struct t} : res (tval * bytes) :=
      match t with
      | TS s =>
          match s with
          | SBool => do '(n, r) <- read_num 1 bs; ROk (VBool (negb (n =? 0)), r)
          | SStr => do '(s, r) <- read_str bs; ROk (VStr s, r)
          | SVoid => ROk (VTup [], bs)
          | SUnknown | SValue => RErr bs
          | SObject => obj bs
          | SI8 | SU8 => if refl_drop8 c then ROk (VNum 1 0, bs) else do '(n, r) <- read_num 1 bs; ROk (VNum 1 n, r)
          | _ => match scalar_width s with
                 | Some w => do '(n, r) <- read_num w bs; ROk (VNum w n, r)
                 | None => RErr bs
                 end
          end
      | TList t' =>
          do '(n, r) <- read_num 4 bs;
          let l := as_int32 n in
          if (Z.of_N listValueMaxSize <? l)%Z then RErr r
          else if (l <? 0)%Z then (if refl_neg_len_panics c then RPanic else RErr r)
          else do '(xs, r') <- rep (refl_body t') n r; ROk (VList xs, r')
      | TMap tk tv =>
          do '(n, r) <- read_num 4 bs;
          let l := as_int32 n in
          if (Z.of_N listValueMaxSize <? l)%Z then RErr r
          else if (l <? 0)%Z then ROk (VMap [], r)
          else
            do '(kvs, r') <- rep (pair_with (refl_body tk) (refl_body tv)) n r;
            ROk (VMap (map_of kvs), r')
      | TTuple ts => do '(l, r) <- fields_with (map (fun t' => (refl_body t', zero_val t')) ts) bs; ROk (VTup l, r)
      | TStruct _ fs => do '(l, r) <- fields_with (map (fun f => (refl_body (snd f), zero_val (snd f))) fs) bs; ROk (VTup l, r)
      end.
  End ReflBody.
  Definition refl_dec : ty -> bytes -> res (tval * bytes) := refl_body (refl_body no_dyn ty_ObjectReference).
End WithParse.

(* structural equality of data trees (map entries compared in order) *)
Fixpoint tval_eqb (a b : tval) : bool :=
  match a, b with
  | VNum w x, VNum w' y => Nat.eqb w w' && (x =? y)
  | VBool x, VBool y => Bool.eqb x y
  | VStr x, VStr y => eqb_bytes x y
  | VList l1, VList l2 | VTup l1, VTup l2 =>
      (fix go (l1 l2 : list tval) : bool :=
         match l1, l2 with
         | [], [] => true
         | x :: r1, y :: r2 => tval_eqb x y && go r1 r2
         | _, _ => false
         end) l1 l2
  | VMap l1, VMap l2 =>
      (fix go (l1 l2 : list (tval * tval)) : bool :=
         match l1, l2 with
         | [], [] => true
         | (k, v) :: r1, (k', v') :: r2 => tval_eqb k k' && tval_eqb v v' && go r1 r2
         | _, _ => false
         end) l1 l2
  | VDyn t x, VDyn t' y => ty_eqb t t' && tval_eqb x y
  | _, _ => false
  end.

(* nesting of dynamic values: the fuel the decoders need *)
Fixpoint dyn_depth (v : tval) : nat :=
  match v with
  | VList l | VTup l => fold_right (fun x a => Nat.max (dyn_depth x) a) 0%nat l
  | VMap kvs => fold_right (fun kv a => Nat.max (Nat.max (dyn_depth (fst kv)) (dyn_depth (snd kv))) a) 0%nat kvs
  | VDyn _ v => S (dyn_depth v)
  | _ => 0%nat
  end.

Fixpoint tval_depth (v : tval) : nat :=
  match v with
  | VList l | VTup l => S (fold_right (fun x a => Nat.max (tval_depth x) a) 0%nat l)
  | VMap kvs => S (fold_right (fun kv a => Nat.max (Nat.max (tval_depth (fst kv)) (tval_depth (snd kv))) a) 0%nat kvs)
  | VDyn _ v => S (tval_depth v)
  | _ => 1%nat
  end.
