(* Message.v — model of bus/net/message.go: Header.Write/Read, Message.Write/Read. *)
From QV Require Export Reader.
Local Open Scope N_scope.

(* constants of bus/net/message.go; tied to the source by gen/Facts.v + FactsTie.v *)
Definition Magic : N := 0x42dead42.
Definition MaxPayloadSize : N := 10 * 1024 * 1024.
Definition Version : N := 0.
Definition HeaderSize : nat := 28.
Definition T_Unknown : N := 0.
Definition T_Call : N := 1.
Definition T_Reply : N := 2.
Definition T_Error : N := 3.
Definition T_Post : N := 4.
Definition T_Event : N := 5.
Definition T_Capability : N := 6.
Definition T_Cancel : N := 7.
Definition T_Cancelled : N := 8.

Record header := {
  h_magic : N; h_id : N; h_size : N; h_version : N; h_type : N; h_flags : N;
  h_service : N; h_object : N; h_action : N }.

Record msg := { m_header : header; m_payload : bytes }.

(* the (field, width, big-endian?) sequence of Header.Write; srcfacts extracts the same
   table from the source and FactsTie proves the two equal. *)
Inductive hfield := FMagic | FID | FSize | FVersion | FType | FFlags | FService | FObject | FAction.
Definition header_layout : list (hfield * nat * bool) :=
  [(FMagic, 4, true); (FID, 4, false); (FSize, 4, false); (FVersion, 2, false);
   (FType, 1, false); (FFlags, 1, false); (FService, 4, false); (FObject, 4, false);
   (FAction, 4, false)]%nat.

Definition hget (h : header) (f : hfield) : N :=
  match f with
  | FMagic => h_magic h | FID => h_id h | FSize => h_size h | FVersion => h_version h
  | FType => h_type h | FFlags => h_flags h | FService => h_service h
  | FObject => h_object h | FAction => h_action h
  end.

Definition enc_field (h : header) (e : hfield * nat * bool) : bytes :=
  let '(f, w, big) := e in if big then be w (hget h f) else le w (hget h f).

Definition enc_header (h : header) : bytes := flat_map (enc_field h) header_layout.

Definition enc_msg (m : msg) : bytes := enc_header (m_header m) ++ m_payload m.

(* Header.Read over a buffer that holds the 28 header bytes: fields are parsed in
   order and the first failing test ends the parse. *)
Definition take (n : nat) (b : bytes) := firstn n b.
Definition drop (n : nat) (b : bytes) := skipn n b.

Definition dec_header (b : bytes) : result header :=
  let magic := unbe (take 4 b) in
  if negb (magic =? Magic) then Err EOther else
  let b := drop 4 b in
  let id := unle (take 4 b) in let b := drop 4 b in
  let size := unle (take 4 b) in let b := drop 4 b in
  let version := unle (take 2 b) in let b := drop 2 b in
  if negb (version =? Version) then Err EOther else
  let typ := unle (take 1 b) in let b := drop 1 b in
  if (typ =? T_Unknown) || (T_Cancelled <? typ) then Err EOther else
  let flags := unle (take 1 b) in let b := drop 1 b in
  let service := unle (take 4 b) in let b := drop 4 b in
  let object := unle (take 4 b) in let b := drop 4 b in
  let action := unle (take 4 b) in
  Ok {| h_magic := magic; h_id := id; h_size := size; h_version := version; h_type := typ;
        h_flags := flags; h_service := service; h_object := object; h_action := action |}.

(* Message.Read.  Returns the outcome and the source as left behind. *)
Definition read_msg (s : src) : option (result msg * src) :=
  match readN_full HeaderSize s with
  | None => None
  | Some (Err e, s1) => Some (Err e, s1)       (* io.EOF forwarded, anything else wrapped *)
  | Some (Ok (b, _), s1) =>
      match dec_header b with
      | Err _ => Some (Err EOther, s1)
      | Ok h =>
          if MaxPayloadSize <? h_size h then Some (Err EOther, s1)
          else if h_size h =? 0 then Some (Ok {| m_header := h; m_payload := [] |}, s1)
          else
            match readN_full (N.to_nat (h_size h)) s1 with
            | None => None
            | Some (Err _, s2) => Some (Err EOther, s2)
            | Some (Ok (p, _), s2) => Some (Ok {| m_header := h; m_payload := p |}, s2)
            end
      end
  end.

(* read messages until the first error; returns the messages and the final error class *)
Fixpoint read_all (fuel : nat) (s : src) : option (list msg * err * src) :=
  match fuel with
  | O => None
  | S f =>
      match read_msg s with
      | None => None
      | Some (Err e, s') => Some ([], e, s')
      | Some (Ok m, s') =>
          match read_all f s' with
          | None => None
          | Some (ms, e, s'') => Some (m :: ms, e, s'')
          end
      end
  end.

(* Message.Write: the size test, then one WriteN of header ++ payload.  The length
   passed to WriteN is uint32(Size + HeaderSize), i.e. it wraps at 2^32; WriteN then
   writes buf[0:] in a loop until [length] bytes were accepted. *)
Definition write_msg (m : msg) (w : wr) : option (result wr) :=
  if negb (N.of_nat (List.length (m_payload m)) mod 2 ^ 32 =? h_size (m_header m)) then Some (Err EOther)
  else
    writeN (enc_msg m) (N.to_nat ((h_size (m_header m) + 28) mod 2 ^ 32)) w.

Definition valid_header (h : header) : Prop :=
  h_magic h = Magic /\ h_version h = Version /\ 1 <= h_type h <= 8 /\
  h_id h < 2 ^ 32 /\ h_size h < 2 ^ 32 /\ h_flags h < 2 ^ 8 /\
  h_service h < 2 ^ 32 /\ h_object h < 2 ^ 32 /\ h_action h < 2 ^ 32.

Definition valid_msg (m : msg) : Prop :=
  valid_header (m_header m) /\ h_size (m_header m) = N.of_nat (List.length (m_payload m)) /\
  h_size (m_header m) <= MaxPayloadSize.
