(* LinProofs.v — the checker of Lin.v is sound and complete for the declarative definition,
   linearizability transfers along a simulation between two specs, and every history of an
   object with atomic operations is linearizable. *)
From Coq Require Import List NArith Bool Permutation Lia Sorting.Sorted.
From QV Require Import Lin.
Import ListNotations.
Local Open Scope N_scope.

(* ---------- small list facts ---------- *)

Lemma any_exists : forall A (f : A -> bool) l, any f l = true <-> exists x, In x l /\ f x = true.
Proof.
  intros A f l; induction l as [|a l IH]; simpl.
  - split; [discriminate | intros [x [[] _]]].
  - destruct (f a) eqn:Ha.
    + split; [intros _; exists a; auto | auto].
    + rewrite IH. split.
      * intros [x [Hx Hf]]; exists x; auto.
      * intros [x [[->|Hx] Hf]]; [congruence | exists x; auto].
Qed.

Lemma all_forall : forall A (f : A -> bool) l, all f l = true <-> forall x, In x l -> f x = true.
Proof.
  intros A f l; induction l as [|a l IH]; simpl.
  - split; [intros _ x [] | auto].
  - destruct (f a) eqn:Ha.
    + rewrite IH. split.
      * intros H x [->|Hx]; auto.
      * intros H x Hx; apply H; auto.
    + split; [discriminate | intros H; rewrite <- Ha; apply H; auto].
Qed.

Lemma picks_perm : forall A (l : list A) x r, In (x, r) (picks l) -> Permutation l (x :: r).
Proof.
  intros A l; induction l as [|a l IH]; simpl; intros x r H.
  - destruct H.
  - destruct H as [H|H].
    + inversion H; subst; apply Permutation_refl.
    + apply in_map_iff in H. destruct H as [[y r'] [Heq Hin]]. simpl in Heq. inversion Heq; subst.
      apply IH in Hin. eapply perm_trans; [apply perm_skip; exact Hin | apply perm_swap].
Qed.

Lemma picks_mid : forall A (l1 l2 : list A) x, In (x, l1 ++ l2) (picks (l1 ++ x :: l2)).
Proof.
  intros A l1; induction l1 as [|a l1 IH]; simpl; intros l2 x.
  - left; reflexivity.
  - right. apply in_map_iff. exists (x, l1 ++ l2). split; [reflexivity | apply IH].
Qed.

Lemma picks_complete : forall A (l : list A) x r',
  Permutation l (x :: r') -> exists r, In (x, r) (picks l) /\ Permutation r r'.
Proof.
  intros A l x r' HP.
  assert (Hin : In x l) by (eapply Permutation_in; [apply Permutation_sym; exact HP | left; reflexivity]).
  apply in_split in Hin. destruct Hin as [l1 [l2 ->]].
  exists (l1 ++ l2). split; [apply picks_mid|].
  apply Permutation_sym in HP. apply Permutation_cons_app_inv in HP. apply Permutation_sym; exact HP.
Qed.

Section LinProofs.
  Variables St Op Res : Type.
  Variable step : St -> Op -> St * Res.
  Variable res_eqb : Res -> Res -> bool.
  Notation orec := (orec Op Res).
  Notation lin_search := (lin_search step res_eqb).
  Notation legal := (legal step).

  Lemma pending_none : forall x : orec, pending x = true <-> o_ret x = None.
  Proof. intros x; unfold pending; destruct (o_ret x); split; congruence. Qed.

  Lemma precedes_pending : forall a b : orec, o_ret a = None -> precedes a b = false.
  Proof. intros a b H; unfold precedes; rewrite H; reflexivity. Qed.

  (* ---------- soundness ---------- *)
  Lemma lin_search_sound :
    (forall a b, res_eqb a b = true -> a = b) ->
    forall f s rem, lin_search f s rem = true ->
      exists lin rest, Permutation rem (lin ++ rest) /\ Forall (fun x : orec => o_ret x = None) rest /\
                       legal s lin /\ rt_ok lin.
  Proof.
    intros Heq f; induction f as [|f IH]; intros s rem H; simpl in H.
    - destruct (all pending rem) eqn:Hp; [|discriminate].
      exists [], rem. simpl. repeat split; auto; [|constructor].
      apply Forall_forall. intros x Hx. apply pending_none. rewrite all_forall in Hp; auto.
    - destruct (all pending rem) eqn:Hp.
      + exists [], rem. simpl. repeat split; auto; [|constructor].
        apply Forall_forall. intros x Hx. apply pending_none. rewrite all_forall in Hp; auto.
      + apply any_exists in H. destruct H as [[x r] [Hin Hb]]. simpl in Hb.
        destruct (all (fun y => negb (precedes y x)) r) eqn:Hmin; [|discriminate].
        destruct (ok_result res_eqb x (snd (step s (o_op x)))) eqn:Hok; [|discriminate].
        apply IH in Hb. destruct Hb as [lin [rest [HP [Hrest [Hleg Hrt]]]]].
        exists (x :: lin), rest. split; [|split; [exact Hrest|split]].
        * simpl. eapply perm_trans; [apply picks_perm; exact Hin | apply perm_skip; exact HP].
        * simpl. split; [|exact Hleg].
          unfold ok_result in Hok. destruct (o_ret x) as [[u r0]|]; auto.
        * constructor; [|exact Hrt].
          apply Forall_forall. intros b Hb.
          rewrite all_forall in Hmin.
          assert (Hbr : In b r).
          { eapply Permutation_in; [apply Permutation_sym; exact HP | apply in_or_app; left; exact Hb]. }
          apply Hmin in Hbr. apply negb_true_iff in Hbr. exact Hbr.
  Qed.

  (* ---------- completeness ---------- *)
  Lemma lin_search_complete :
    (forall a, res_eqb a a = true) ->
    forall lin s rem rest f,
      Permutation rem (lin ++ rest) -> Forall (fun x : orec => o_ret x = None) rest ->
      legal s lin -> rt_ok lin -> (List.length lin <= f)%nat -> lin_search f s rem = true.
  Proof.
    intros Hrefl lin; induction lin as [|x l IH]; intros s rem rest f HP Hrest Hleg Hrt Hf.
    - assert (Hall : all pending rem = true).
      { apply all_forall. intros y Hy. apply pending_none.
        rewrite Forall_forall in Hrest. apply Hrest. eapply Permutation_in; [exact HP | exact Hy]. }
      destruct f; simpl; rewrite Hall; reflexivity.
    - destruct f as [|f]; [simpl in Hf; lia|]. simpl.
      destruct (all pending rem) eqn:Hp; [reflexivity|].
      apply any_exists.
      simpl in HP. destruct (picks_complete _ _ _ _ HP) as [r [Hin Hr]].
      exists (x, r). split; [exact Hin|]. simpl.
      inversion Hrt as [|? ? Hhd Htl]; subst.
      assert (Hmin : all (fun y => negb (precedes y x)) r = true).
      { apply all_forall. intros y Hy. apply negb_true_iff.
        assert (Hy' : In y (l ++ rest)) by (eapply Permutation_in; [exact Hr | exact Hy]).
        apply in_app_or in Hy'. destruct Hy' as [Hy'|Hy'].
        - rewrite Forall_forall in Hhd. apply Hhd; exact Hy'.
        - apply precedes_pending. rewrite Forall_forall in Hrest. apply Hrest; exact Hy'. }
      rewrite Hmin. simpl in Hleg. destruct Hleg as [Hres Hleg].
      assert (Hok : ok_result res_eqb x (snd (step s (o_op x))) = true).
      { unfold ok_result. destruct (o_ret x) as [[u r0]|]; auto. rewrite Hres. apply Hrefl. }
      rewrite Hok. eapply IH; eauto. simpl in Hf; lia.
  Qed.

  Theorem lin_check_sound :
    (forall a b, res_eqb a b = true -> a = b) ->
    forall init h, lin_check step res_eqb init h = true -> linearizable step init h.
  Proof. intros Heq init h H. unfold lin_check in H. apply lin_search_sound in H; auto. Qed.

  Theorem lin_check_complete :
    (forall a, res_eqb a a = true) ->
    forall init h, linearizable step init h -> lin_check step res_eqb init h = true.
  Proof.
    intros Hrefl init h [lin [rest [HP [Hrest [Hleg Hrt]]]]]. unfold lin_check.
    eapply lin_search_complete; eauto.
    apply Permutation_length in HP. rewrite HP, app_length. lia.
  Qed.

  Theorem lin_check_iff :
    (forall a b, res_eqb a b = true <-> a = b) ->
    forall init h, lin_check step res_eqb init h = true <-> linearizable step init h.
  Proof.
    intros Heq init h; split.
    - apply lin_check_sound. intros a b; apply Heq.
    - apply lin_check_complete. intros a; apply Heq; reflexivity.
  Qed.

  (* ---------- atomic objects ---------- *)
  Notation tmap := (tmap Op Res).
  Notation tstate := (tstate Op Res).

  Definition ts_inv (v : tstate) : N := match v with TPend _ i => i | TDone _ i _ => i end.
  Definition keys_nodup (m : tmap) : Prop := NoDup (map fst m).
  Definition unlin (m : tmap) (h : list (tevent Op Res)) : list orec :=
    flat_map (fun p => match snd p with
                       | TPend o i => [Build_orec (fst p) o i (first_ret (fst p) h)]
                       | TDone _ _ _ => []
                       end) m.

  Lemma tget_in : forall t (m : tmap) v, tget t m = Some v -> In (t, v) m.
  Proof.
    intros t m; induction m as [|[t' v'] m IH]; simpl; intros v H; [discriminate|].
    destruct (t' =? t) eqn:E.
    - apply N.eqb_eq in E; subst. inversion H; subst. left; reflexivity.
    - right; auto.
  Qed.

  Lemma tget_none_notin : forall t (m : tmap), tget t m = None -> ~ In t (map fst m).
  Proof.
    intros t m; induction m as [|[t' v'] m IH]; simpl; intros H; [tauto|].
    destruct (t' =? t) eqn:E; [discriminate|]. apply N.eqb_neq in E. intros [H1|H1]; [congruence | apply IH; auto].
  Qed.

  Lemma tdel_in : forall t (m : tmap) p, In p (tdel t m) <-> In p m /\ fst p <> t.
  Proof.
    intros t m p; unfold tdel. rewrite filter_In. rewrite negb_true_iff, N.eqb_neq. tauto.
  Qed.

  Lemma tdel_keys : forall t (m : tmap) k, In k (map fst (tdel t m)) -> In k (map fst m) /\ k <> t.
  Proof.
    intros t m k H. apply in_map_iff in H. destruct H as [p [<- Hp]]. apply tdel_in in Hp.
    destruct Hp as [Hp Hne]. split; [apply in_map; exact Hp | exact Hne].
  Qed.

  Lemma tdel_nodup : forall t (m : tmap), keys_nodup m -> keys_nodup (tdel t m).
  Proof.
    intros t m; unfold keys_nodup; induction m as [|[t' v'] m IH]; simpl; intros H; [constructor|].
    inversion H as [|? ? Hn Hd]; subst.
    destruct (negb (t' =? t)); simpl; auto.
    constructor; auto. intros Hc. apply tdel_keys in Hc. tauto.
  Qed.

  Lemma tset_nodup : forall t v (m : tmap), keys_nodup m -> keys_nodup (tset t v m).
  Proof.
    intros t v m H. unfold tset, keys_nodup. simpl. constructor.
    - intros Hc. apply tdel_keys in Hc. tauto.
    - apply tdel_nodup; exact H.
  Qed.

  Lemma tdel_absent : forall t (m : tmap), tget t m = None -> tdel t m = m.
  Proof.
    intros t m; induction m as [|[t' v'] m IH]; simpl; intros H; [reflexivity|].
    destruct (t' =? t) eqn:E; [discriminate|]. simpl. rewrite IH; auto.
  Qed.

  Lemma tget_tdel_other : forall t t' (m : tmap), t' <> t -> tget t (tdel t' m) = tget t m.
  Proof.
    intros t t' m Hne; induction m as [|[k v] m IH]; simpl; [reflexivity|].
    destruct (k =? t') eqn:E1; simpl.
    - apply N.eqb_eq in E1; subst. destruct (t' =? t) eqn:E2; [apply N.eqb_eq in E2; congruence | exact IH].
    - destruct (k =? t); [reflexivity | exact IH].
  Qed.

  Lemma tget_tset_other : forall t t' v (m : tmap), t' <> t -> tget t (tset t' v m) = tget t m.
  Proof.
    intros t t' v m Hne. unfold tset. simpl.
    destruct (t' =? t) eqn:E; [apply N.eqb_eq in E; congruence|]. apply tget_tdel_other; exact Hne.
  Qed.

  (* events of other threads do not change what a pending call will return *)
  Lemma unlin_skip : forall (m : tmap) e h t,
    (match snd e with EInv t' _ => t' | ERet t' _ => t' end) = t ->
    (forall k o i, In (k, TPend o i) m -> k <> t) ->
    unlin m (e :: h) = unlin m h.
  Proof.
    intros m e h t He; induction m as [|[k v] m IH]; simpl; intros Hm; [reflexivity|].
    rewrite IH by (intros k' o i Hin; eapply Hm; right; exact Hin).
    destruct v as [o i|o i r]; simpl; [|reflexivity].
    assert (Hk : k <> t) by (eapply Hm; left; reflexivity).
    destruct e as [u [t' o'|t' r']]; simpl in *; subst t'.
    - destruct (t =? k) eqn:E; [apply N.eqb_eq in E; congruence | reflexivity].
    - destruct (t =? k) eqn:E; [apply N.eqb_eq in E; congruence | reflexivity].
  Qed.

  Lemma unlin_tdel_perm : forall (m : tmap) h t o i,
    keys_nodup m -> tget t m = Some (TPend o i) ->
    Permutation (unlin m h) (Build_orec t o i (first_ret t h) :: unlin (tdel t m) h).
  Proof.
    intros m h t o i; unfold keys_nodup; induction m as [|[k v] m IH]; simpl; intros Hnd Hg; [discriminate|].
    inversion Hnd as [|? ? Hn Hd]; subst.
    destruct (k =? t) eqn:E.
    - apply N.eqb_eq in E; subst k. inversion Hg; subst v. simpl.
      assert (Hab : tdel t m = m).
      { apply tdel_absent. destruct (tget t m) eqn:G; [|reflexivity].
        apply tget_in in G. exfalso; apply Hn. apply in_map_iff. exists (t, t0); auto. }
      rewrite Hab. apply Permutation_refl.
    - simpl. specialize (IH Hd Hg).
      destruct v as [o' i'|o' i' r']; simpl.
      + eapply perm_trans; [apply perm_skip; exact IH | apply perm_swap].
      + exact IH.
  Qed.

  Lemma unlin_tdel_done : forall (m : tmap) h t o i r,
    keys_nodup m -> tget t m = Some (TDone o i r) -> unlin (tdel t m) h = unlin m h.
  Proof.
    intros m h t o i r; unfold keys_nodup; induction m as [|[k v] m IH]; simpl; intros Hnd Hg; [reflexivity|].
    inversion Hnd as [|? ? Hn Hd]; subst.
    destruct (k =? t) eqn:E.
    - apply N.eqb_eq in E; subst k. inversion Hg; subst v. simpl.
      rewrite tdel_absent; [reflexivity|].
      destruct (tget t m) eqn:G; [|reflexivity].
      apply tget_in in G. exfalso; apply Hn. apply in_map_iff. exists (t, t0); auto.
    - simpl. rewrite IH; auto.
  Qed.

  Lemma stamped_lt : forall A (tr : list (N * A)) lb u x, stamped lb tr -> In (u, x) tr -> lb < u.
  Proof.
    intros A tr; induction tr as [|[u' x'] tr IH]; simpl; intros lb u x Hs Hin; [destruct Hin|].
    destruct Hs as [Hlt Hs]. destruct Hin as [Hin|Hin].
    - inversion Hin; subst; exact Hlt.
    - apply IH with (lb := u') in Hin; auto. lia.
  Qed.

  Lemma first_ret_stamp : forall (tr : list (N * alabel Op Res)) lb t u r,
    stamped lb tr -> first_ret t (erase tr) = Some (u, r) -> lb < u.
  Proof.
    intros tr; induction tr as [|[u' l] tr IH]; simpl; intros lb t u r Hs H; [discriminate|].
    destruct Hs as [Hlt Hs].
    destruct l as [t' o|t'|t' r']; simpl in H.
    - destruct (t' =? t); [discriminate|]. apply IH with (lb := u') in H; auto. lia.
    - apply IH with (lb := u') in H; auto. lia.
    - destruct (t' =? t).
      + inversion H; subst; exact Hlt.
      + apply IH with (lb := u') in H; auto. lia.
  Qed.

  (* a call that has taken effect returns the result of that step *)
  Lemma run_first_ret : forall tr s (m : tmap) st' t o i r u r0,
    arun step (s, m) tr st' -> tget t m = Some (TDone o i r) ->
    first_ret t (erase tr) = Some (u, r0) -> r0 = r.
  Proof.
    intros tr; induction tr as [|e tr IH]; intros s m st' t o i r u r0 Hrun Hg Hf; [discriminate|].
    inversion Hrun as [|? ? st1 ? ? Hstep Hrest]; subst.
    inversion Hstep as [s0 m0 u0 t0 o0 Hn | s0 m0 u0 t0 o0 i0 Hp | s0 m0 u0 t0 o0 i0 r1 Hd]; subst; simpl in Hf.
    - assert (Hne : t0 <> t) by (intros ->; congruence).
      destruct (t0 =? t) eqn:E; [apply N.eqb_eq in E; congruence|].
      eapply IH; [exact Hrest | rewrite tget_tset_other; eauto | exact Hf].
    - assert (Hne : t0 <> t) by (intros ->; congruence).
      eapply IH; [exact Hrest | rewrite tget_tset_other; eauto | exact Hf].
    - destruct (t0 =? t) eqn:E.
      + apply N.eqb_eq in E; subst t0. rewrite Hg in Hd. inversion Hd; subst. inversion Hf; reflexivity.
      + apply N.eqb_neq in E. eapply IH; [exact Hrest | rewrite tget_tdel_other; eauto | exact Hf].
  Qed.

  Definition lp_ok (lb : N) (p : N * orec) : Prop :=
    lb < fst p /\ o_inv (snd p) < fst p /\ forall u r, o_ret (snd p) = Some (u, r) -> fst p < u.

  Lemma lp_ok_weaken : forall lb lb' l, lb <= lb' -> Forall (lp_ok lb') l -> Forall (lp_ok lb) l.
  Proof.
    intros lb lb' l Hle H. eapply Forall_impl; [|exact H]. intros p [H1 [H2 H3]]. repeat split; auto. lia.
  Qed.

  Lemma atomic_lin_gen : forall tr s (m : tmap) st' lb,
    arun step (s, m) tr st' -> stamped lb tr -> keys_nodup m ->
    Forall (fun p => ts_inv (snd p) <= lb) m ->
    exists (lin : list (N * orec)) rest,
      Permutation (unlin m (erase tr) ++ ops_of (erase tr)) (map snd lin ++ rest) /\
      Forall (fun x : orec => o_ret x = None) rest /\
      legal s (map snd lin) /\
      StronglySorted (fun a b : N * orec => fst a < fst b) lin /\
      Forall (lp_ok lb) lin.
  Proof.
    intros tr; induction tr as [|e tr IH]; intros s m st' lb Hrun Hst Hnd Hinv.
    - exists [], (unlin m []). simpl. rewrite app_nil_r. repeat split; auto; try constructor.
      unfold unlin. apply Forall_forall. intros x Hx. apply in_flat_map in Hx.
      destruct Hx as [[k v] [_ Hx]]. destruct v; simpl in Hx; [|destruct Hx].
      destruct Hx as [<-|[]]. reflexivity.
    - inversion Hrun as [|? ? st1 ? ? Hstep Hrest]; subst.
      destruct e as [u l]. simpl in Hst. destruct Hst as [Hlt Hst].
      inversion Hstep as [s0 m0 u0 t0 o0 Hn | s0 m0 u0 t0 o0 i0 Hp | s0 m0 u0 t0 o0 i0 r1 Hd]; subst.
      + (* invocation *)
        destruct (IH _ _ _ u Hrest Hst) as [lin [rest [HP [Hrest' [Hleg [Hsort Hlp]]]]]].
        { apply tset_nodup; exact Hnd. }
        { unfold tset. constructor; [simpl; lia|].
          apply Forall_forall. intros p Hp. apply tdel_in in Hp. destruct Hp as [Hp _].
          rewrite Forall_forall in Hinv. apply Hinv in Hp. lia. }
        exists lin, rest. split; [|repeat split; auto; eapply lp_ok_weaken; [|exact Hlp]; lia].
        simpl erase. simpl ops_of.
        rewrite (unlin_skip m (u, EInv t0 o0) (erase tr) t0) by
          (auto; intros k o i Hin Hk; subst; apply tget_none_notin in Hn; apply Hn; apply in_map_iff; exists (t0, TPend o i); auto).
        unfold tset in HP. simpl in HP. rewrite (tdel_absent _ _ Hn) in HP.
        eapply perm_trans; [|exact HP]. apply Permutation_sym. apply Permutation_middle.
      + (* the atomic step *)
        destruct (IH _ _ _ u Hrest Hst) as [lin [rest [HP [Hrest' [Hleg [Hsort Hlp]]]]]].
        { apply tset_nodup; exact Hnd. }
        { unfold tset. constructor; [simpl|].
          - apply tget_in in Hp. rewrite Forall_forall in Hinv. apply Hinv in Hp. simpl in Hp. lia.
          - apply Forall_forall. intros p Hp'. apply tdel_in in Hp'. destruct Hp' as [Hp' _].
            rewrite Forall_forall in Hinv. apply Hinv in Hp'. lia. }
        simpl erase.
        set (x := Build_orec t0 o0 i0 (first_ret t0 (erase tr))).
        exists ((u, x) :: lin), rest. split; [|split; [exact Hrest'|split; [|split]]].
        * unfold tset in HP. simpl in HP.
          simpl. eapply perm_trans; [apply Permutation_app_tail; apply unlin_tdel_perm; eauto|].
          simpl. apply perm_skip. exact HP.
        * simpl. split; [|exact Hleg].
          destruct (first_ret t0 (erase tr)) as [[u' r0]|] eqn:Hf; [|exact I].
          symmetry. eapply run_first_ret; [exact Hrest | | exact Hf].
          unfold tset. simpl. rewrite N.eqb_refl. reflexivity.
        * constructor; [exact Hsort|].
          eapply Forall_impl; [|exact Hlp]. intros p [H1 _]. exact H1.
        * constructor.
          -- unfold lp_ok. simpl. split; [exact Hlt|]. split.
             ++ apply tget_in in Hp. rewrite Forall_forall in Hinv. apply Hinv in Hp. simpl in Hp. lia.
             ++ intros u' r' Hf. eapply first_ret_stamp; eauto.
          -- eapply lp_ok_weaken; [|exact Hlp]. lia.
      + (* response *)
        destruct (IH _ _ _ u Hrest Hst) as [lin [rest [HP [Hrest' [Hleg [Hsort Hlp]]]]]].
        { apply tdel_nodup; exact Hnd. }
        { apply Forall_forall. intros p Hp'. apply tdel_in in Hp'. destruct Hp' as [Hp' _].
          rewrite Forall_forall in Hinv. apply Hinv in Hp'. lia. }
        exists lin, rest. split; [|repeat split; auto; eapply lp_ok_weaken; [|exact Hlp]; lia].
        simpl erase. simpl ops_of.
        rewrite (unlin_skip m (u, ERet t0 r1) (erase tr) t0).
        * rewrite <- (unlin_tdel_done m (erase tr) t0 o0 i0 r1) by auto. exact HP.
        * reflexivity.
        * intros k o i Hin Hk; subst k.
          assert (Hg : tget t0 m = Some (TPend o i)).
          { clear - Hin Hnd. unfold keys_nodup in Hnd. induction m as [|[k v] m IHm]; simpl in *; [destruct Hin|].
            inversion Hnd as [|? ? Hn Hd']; subst. destruct Hin as [Hin|Hin].
            - inversion Hin; subst. rewrite N.eqb_refl. reflexivity.
            - destruct (k =? t0) eqn:E.
              + apply N.eqb_eq in E; subst. exfalso; apply Hn. apply in_map_iff. exists (t0, TPend o i); auto.
              + apply IHm; auto. }
          congruence.
  Qed.

  Lemma lp_rt_ok : forall lb (lin : list (N * orec)),
    StronglySorted (fun a b : N * orec => fst a < fst b) lin -> Forall (lp_ok lb) lin -> rt_ok (map snd lin).
  Proof.
    intros lb lin; induction lin as [|[l x] lin IH]; intros Hs Hl; simpl; [constructor|].
    inversion Hs as [|? ? Hs' Hhd]; subst. inversion Hl as [|? ? Hx Hl']; subst.
    constructor; [|apply IH; auto].
    apply Forall_forall. intros b Hb. apply in_map_iff in Hb. destruct Hb as [[l' b'] [<- Hb]]. simpl.
    rewrite Forall_forall in Hhd, Hl'. specialize (Hhd _ Hb). specialize (Hl' _ Hb). simpl in Hhd.
    unfold precedes. destruct (o_ret b') as [[u r]|] eqn:Hr; [|reflexivity].
    destruct Hl' as [_ [_ Hret]]. specialize (Hret _ _ Hr). simpl in Hret.
    destruct Hx as [_ [Hinv _]]. simpl in Hinv.
    apply N.ltb_ge. lia.
  Qed.

  (* Every history of an object whose operations take effect in a single atomic step
     between their invocation and their response is linearizable. *)
  Theorem atomic_lin : forall init tr st',
    stamped 0 tr -> arun step (init, []) tr st' -> linearizable step init (ops_of (erase tr)).
  Proof.
    intros init tr st' Hst Hrun.
    destruct (atomic_lin_gen tr init [] st' 0 Hrun Hst) as [lin [rest [HP [Hrest [Hleg [Hsort Hlp]]]]]].
    - constructor.
    - constructor.
    - exists (map snd lin), rest. simpl in HP. repeat split; auto. eapply lp_rt_ok; eauto.
  Qed.
End LinProofs.

(* ---------- transfer along a simulation ---------- *)
Lemma legal_sim : forall St1 St2 Op Res (step1 : St1 -> Op -> St1 * Res) (step2 : St2 -> Op -> St2 * Res)
    (R : St1 -> St2 -> Prop),
  (forall s1 s2 o, R s1 s2 -> R (fst (step1 s1 o)) (fst (step2 s2 o)) /\ snd (step1 s1 o) = snd (step2 s2 o)) ->
  forall lin s1 s2, R s1 s2 -> legal step1 s1 lin -> legal step2 s2 lin.
Proof.
  intros St1 St2 Op Res step1 step2 R Hsim lin; induction lin as [|x l IH]; intros s1 s2 HR H; simpl in *; [exact I|].
  destruct (Hsim s1 s2 (o_op x) HR) as [HR' Hres]. destruct H as [H1 H2]. split.
  - rewrite <- Hres. exact H1.
  - eapply IH; eauto.
Qed.

Theorem lin_refine : forall St1 St2 Op Res (step1 : St1 -> Op -> St1 * Res) (step2 : St2 -> Op -> St2 * Res)
    (R : St1 -> St2 -> Prop) i1 i2,
  R i1 i2 ->
  (forall s1 s2 o, R s1 s2 -> R (fst (step1 s1 o)) (fst (step2 s2 o)) /\ snd (step1 s1 o) = snd (step2 s2 o)) ->
  forall h, linearizable step1 i1 h -> linearizable step2 i2 h.
Proof.
  intros St1 St2 Op Res step1 step2 R i1 i2 HR Hsim h [lin [rest [HP [Hrest [Hleg Hrt]]]]].
  exists lin, rest. repeat split; auto. eapply legal_sim; eauto.
Qed.
