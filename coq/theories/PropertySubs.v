(* PropertySubs.v — who the subscribers of a property are.

   Property.v takes the list of subscribers as given ([p_subs], grown by [PSubscribe]).  In the
   code that list is a projection of one table per object, bus/signal.go signalHandler.signals,
   which is shared by all the signals and properties of the object and is keyed by ids the
   CLIENTS choose: registerEvent(object, signal, user id) / unregisterEvent(object, signal,
   user id).  This file models that table with the code's rules

     addSignalUser     refuses a (user id, connection) pair that is already in the table —
                       whatever signal it was registered for —, otherwise appends;
     removeSignalUser  removes the first entry with this (user id, connection) — the signal id
                       of the call is not looked at — by moving the last entry into its slot;
     UpdateSignal      one event per entry whose signal id is the one updated, in table order,
                       message id = the id of the registerEvent call;

   (the optional per-object features — method statistics, traces — wrap the channel a message came
   through, bus/object.go Tracer, in a wrapper made for THAT message which hands every frame to the
   channel it wraps: a registration made while they are on holds such a wrapper as its context and
   is, for the table, the registration of the connection the message came from; switching them on or
   off, or calling any other method of the generic object, changes nothing here: [SAux])

   and runs Property.pstep on top of it: the subscribers of the property are the entries
   registered for its uid.  The object is the harness's Bomb: property "delay" (uid 101) and
   signal "boom" (uid 100, emitted by the implementor's SignalBoom helper).

   No proofs here (PropertySubsProofs.v). *)
From Coq Require Import NArith List Bool String.
From QV Require Import Bytes Property.
Import ListNotations.
Local Open Scope N_scope.

Definition boom_uid : N := 100.
Definition object_uid : N := 1.      (* the id of a service's main object *)

(* one entry of signalHandler.signals *)
Record reg := { r_conn : nat; r_uid : N; r_sig : N; r_mid : N }.

Definition same_user (c : nat) (uid : N) (r : reg) : bool := Nat.eqb (r_conn r) c && (r_uid r =? uid).

(* addSignalUser *)
Definition add_user (l : list reg) (r : reg) : option (list reg) :=
  if existsb (same_user (r_conn r) (r_uid r)) l then None else Some (l ++ [r]).

(* removeSignalUser: signals[i] = signals[len-1]; signals = signals[:len-1] for the first match *)
Fixpoint remove_user (p : reg -> bool) (l : list reg) : option (list reg) :=
  match l with
  | [] => None
  | x :: r =>
      if p x then Some (match r with [] => [] | _ :: _ => last r x :: removelast r end)
      else option_map (cons x) (remove_user p r)
  end.

(* UpdateSignal: the users of one signal, in table order *)
Definition subs_of (sig : N) (l : list reg) : list subscriber :=
  map (fun r => (r_conn r, r_mid r)) (filter (fun r => r_sig r =? sig) l).

(* RegisterEvent / UnregisterEvent: "remote objects don't know their real object id" *)
Definition object_ok (obj : N) : bool := (obj =? 0) || (obj =? object_uid).

Inductive sop :=
| SOp (o : pop)                                  (* get / set / service-side update, as in Property.v *)
| SRegister (c : nat) (obj sig uid mid : N)      (* registerEvent(obj, sig, uid) on connection c, message id mid *)
| SUnregister (c : nat) (obj sig uid : N)        (* unregisterEvent(obj, sig, uid) on connection c *)
| SSignal (x : N)                                (* the implementor's SignalBoom(x) *)
| SAux (c : nat) (action : N).                   (* connection c calls another method of the generic object: metaObject,
                                                    properties, isStatsEnabled / enableStats / stats / clearStats,
                                                    isTraceEnabled / enableTrace *)

Record sstate := { s_val : option cval; s_regs : list reg }.
Definition sinit : sstate := {| s_val := None; s_regs := [] |}.

(* an event frame: action (the signal or property uid), to whom, payload *)
Definition sevent := (N * pevent)%type.

Definition pstate_of (s : sstate) : pstate := {| p_val := s_val s; p_subs := subs_of prop_uid (s_regs s) |}.

Definition sstep (c : pcfg) (valid : N -> bool) (s : sstate) (o : sop) : sstate * pres * list sevent :=
  match o with
  | SOp (PSubscribe _ _) => (s, RFail, [])       (* subscriptions go through SRegister here *)
  | SOp o =>
      let '(p', r, ev) := pstep c valid (pstate_of s) o in
      ({| s_val := p_val p'; s_regs := s_regs s |}, r, map (fun e => (prop_uid, e)) ev)
  | SRegister cn obj sig uid mid =>
      if object_ok obj then
        match add_user (s_regs s) {| r_conn := cn; r_uid := uid; r_sig := sig; r_mid := mid |} with
        | Some l => ({| s_val := s_val s; s_regs := l |}, RDone, [])
        | None => (s, RFail, [])
        end
      else (s, RFail, [])
  | SUnregister cn obj sig uid =>
      if object_ok obj then
        match remove_user (same_user cn uid) (s_regs s) with
        | Some l => ({| s_val := s_val s; s_regs := l |}, RDone, [])
        | None => (s, RFail, [])
        end
      else (s, RFail, [])
  | SSignal x => (s, RDone, map (fun sub => (boom_uid, (sub, le 4 x))) (subs_of boom_uid (s_regs s)))
  | SAux _ _ => (s, RDone, [])
  end.

(* What a client knows from the answers alone: the registrations that were acknowledged and not
   unregistered since (an acknowledged unregisterEvent ends the registration made under that
   user id on that connection). *)
Definition track (act : list reg) (o : sop) (r : pres) : list reg :=
  match o, r with
  | SRegister cn obj sig uid mid, RDone => act ++ [{| r_conn := cn; r_uid := uid; r_sig := sig; r_mid := mid |}]
  | SUnregister cn obj sig uid, RDone => filter (fun x => negb (same_user cn uid x)) act
  | _, _ => act
  end.

(* a run, together with what the clients know *)
Fixpoint srun (c : pcfg) (valid : N -> bool) (s : sstate) (act : list reg) (ops : list sop) : sstate * list reg :=
  match ops with
  | [] => (s, act)
  | o :: r => let '(s1, res, _) := sstep c valid s o in srun c valid s1 (track act o res) r
  end.

(* the event frames an accepted write of value v owes to the acknowledged subscriptions *)
Definition owed (act : list reg) (v : cval) : list sevent :=
  map (fun r => (prop_uid, ((r_conn r, r_mid r), cv_data v))) (filter (fun r => r_sig r =? prop_uid) act).
