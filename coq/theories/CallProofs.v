(* CallProofs.v — C04 over the LTS of Call.v: ids_distinct, reply_echoes_key, dispatch_unique,
   mailbox_once and the composition call_outcome, for every schedule (list of labels), any number
   of clients/connections, every method table and result function. *)
From QV Require Import Call.
From Coq Require Import Lia ZifyN ZifyNat.
Local Open Scope N_scope.

(* ---------- ids ---------- *)

(* two calls of one client whose issue indices differ by less than 2^31 have different ids *)
Theorem ids_distinct : forall i j : nat, i <> j ->
  (Z.abs (Z.of_nat i - Z.of_nat j) < 2 ^ 31)%Z -> id_of_index i <> id_of_index j.
Proof.
  intros i j Hne Hd E. unfold id_of_index in E.
  assert (Q32 : 2 ^ 32 = 4294967296) by reflexivity. rewrite Q32 in E.
  assert (Hz : (2 ^ 31 = 2147483648)%Z) by reflexivity. rewrite Hz in Hd.
  (* equal residues: the difference is a multiple of 2^32, but it is non-zero and below 2^32 *)
  pose proof (N.div_mod (2 * (N.of_nat i + 1) + 1) 4294967296 ltac:(lia)) as Di.
  pose proof (N.div_mod (2 * (N.of_nat j + 1) + 1) 4294967296 ltac:(lia)) as Dj.
  rewrite E in Di.
  set (qi := (2 * (N.of_nat i + 1) + 1) / 4294967296) in *.
  set (qj := (2 * (N.of_nat j + 1) + 1) / 4294967296) in *.
  set (r := (2 * (N.of_nat j + 1) + 1) mod 4294967296) in *.
  assert (qi = qj \/ qi < qj \/ qj < qi) as [Q|[Q|Q]] by lia; nia.
Qed.

Lemma id_of_index_inj i j : N.of_nat i < 2 ^ 31 -> N.of_nat j < 2 ^ 31 -> id_of_index i = id_of_index j -> i = j.
Proof.
  intros Hi Hj E. destruct (Nat.eq_dec i j) as [|Ne]; [assumption|exfalso].
  assert (P31 : 2 ^ 31 = 2147483648) by reflexivity. rewrite P31 in *.
  apply (ids_distinct i j Ne); [|exact E].
  assert (Hz : (2 ^ 31 = 2147483648)%Z) by reflexivity. rewrite Hz. lia.
Qed.

Lemma next_id_index n : next_id ((2 * N.of_nat n + 1) mod 2 ^ 32) = id_of_index n.
Proof.
  unfold next_id, id_of_index.
  rewrite N.add_mod_idemp_l by (compute; discriminate). f_equal. lia.
Qed.

Lemma next_id_mid n : next_id ((2 * N.of_nat n + 1) mod 2 ^ 32) = (2 * N.of_nat (S n) + 1) mod 2 ^ 32.
Proof.
  unfold next_id. rewrite N.add_mod_idemp_l by (compute; discriminate). f_equal. lia.
Qed.

(* ---------- small facts ---------- *)

Lemma tag_eqb_eq a b : tag_eqb a b = true <-> a = b.
Proof.
  destruct a, b; cbn; split; intro H; try discriminate; try congruence.
  - apply andb_true_iff in H as [H1 H2]. apply Nat.eqb_eq in H1, H2. congruence.
  - inversion H; subst. now rewrite !Nat.eqb_refl.
  - apply andb_true_iff in H as [H1 H2]. apply Nat.eqb_eq in H1, H2. congruence.
  - inversion H; subst. now rewrite !Nat.eqb_refl.
Qed.
Lemma tag_eqb_refl a : tag_eqb a a = true. Proof. now apply tag_eqb_eq. Qed.
Lemma tag_eqb_neq a b : a <> b -> tag_eqb a b = false.
Proof. intro H. destruct (tag_eqb a b) eqn:E; [apply tag_eqb_eq in E; contradiction|reflexivity]. Qed.

Lemma key_eqb_eq a b : key_eqb a b = true <-> a = b.
Proof.
  destruct a as [[[s o] x] i], b as [[[s' o'] x'] i']. cbn. rewrite !andb_true_iff, !N.eqb_eq.
  split; [intros [[[-> ->] ->] ->]; reflexivity|intro H; inversion H; auto].
Qed.

Lemma upd_same {A} (m : nat -> A) k v : upd m k v k = v.
Proof. unfold upd. now rewrite Nat.eqb_refl. Qed.
Lemma upd_other {A} (m : nat -> A) k v x : x <> k -> upd m k v x = m x.
Proof. unfold upd. intro H. destruct (Nat.eqb_spec x k); [contradiction|reflexivity]. Qed.
Lemma upd2_same {A} (m : nat -> nat -> A) c i v : upd2 m c i v c i = v.
Proof. unfold upd2. now rewrite !Nat.eqb_refl. Qed.
Lemma upd2_other {A} (m : nat -> nat -> A) c i v c' i' : (c', i') <> (c, i) -> upd2 m c i v c' i' = m c' i'.
Proof.
  unfold upd2. intro H. destruct (Nat.eqb_spec c' c), (Nat.eqb_spec i' i); cbn; try reflexivity. subst. contradiction.
Qed.
Lemma updt_same m t v : updt m t v t = v.
Proof. unfold updt. now rewrite tag_eqb_refl. Qed.
Lemma updt_other m t v t' : t' <> t -> updt m t v t' = m t'.
Proof. unfold updt. intro H. now rewrite tag_eqb_neq. Qed.

Definition cnt (P : frame -> bool) (l : list frame) : nat := List.length (filter P l).
Definition cntm (P : frame -> bool) (l : list (nat * frame)) : nat := List.length (filter (fun m => P (snd m)) l).

Lemma cnt_app P l x : cnt P (l ++ [x]) = (cnt P l + if P x then 1 else 0)%nat.
Proof. unfold cnt. rewrite filter_app, app_length. cbn. destruct (P x); reflexivity. Qed.
Lemma cnt_cons P x l : cnt P (x :: l) = ((if P x then 1 else 0) + cnt P l)%nat.
Proof. unfold cnt. cbn. destruct (P x); reflexivity. Qed.
Lemma cntm_app P l c x : cntm P (l ++ [(c, x)]) = (cntm P l + if P x then 1 else 0)%nat.
Proof. unfold cntm. rewrite filter_app, app_length. cbn. destruct (P x); reflexivity. Qed.
Lemma cnt_pos_in P l : (0 < cnt P l)%nat -> exists g, In g l /\ P g = true.
Proof.
  unfold cnt. destruct (filter P l) as [|g r] eqn:E; cbn; [lia|]. intros _.
  assert (I : In g (filter P l)) by (rewrite E; left; reflexivity). apply filter_In in I. now exists g.
Qed.
Lemma cntm_pos_in P l : (0 < cntm P l)%nat -> exists c g, In (c, g) l /\ P g = true.
Proof.
  unfold cntm. destruct (filter _ l) as [|[c g] r] eqn:E; cbn; [lia|]. intros _.
  assert (I : In (c, g) (filter (fun m => P (snd m)) l)) by (rewrite E; left; reflexivity).
  apply filter_In in I. now exists c, g.
Qed.
Lemma cnt_in_pos P l g : In g l -> P g = true -> (0 < cnt P l)%nat.
Proof.
  intros I H. unfold cnt. assert (J : In g (filter P l)) by (apply filter_In; auto).
  destruct (filter P l); [destruct J|cbn; lia].
Qed.
Lemma cntm_in_pos P l c g : In (c, g) l -> P g = true -> (0 < cntm P l)%nat.
Proof.
  intros I H. unfold cntm. assert (J : In (c, g) (filter (fun m => P (snd m)) l)) by (apply filter_In; auto).
  destruct (filter _ l); [destruct J|cbn; lia].
Qed.

Lemma take_mail_spec s o l c g r : take_mail s o l = Some (c, g, r) ->
  In (c, g) l /\ (forall m, In m r -> In m l) /\ (forall m, In m l -> m = (c, g) \/ In m r) /\
  (forall P, cntm P l = (cntm P r + if P g then 1 else 0)%nat) /\ f_svc g = s /\ f_obj g = o.
Proof.
  revert c g r. induction l as [|[c0 g0] l IH]; intros c g r; cbn; [discriminate|].
  destruct ((f_svc g0 =? s) && (f_obj g0 =? o)) eqn:E.
  - intro H; inversion H; subst. apply andb_true_iff in E as [E1 E2]. apply N.eqb_eq in E1, E2.
    repeat split; auto.
    + intros m [->|I]; auto.
    + intro P. unfold cntm. cbn. destruct (P g); cbn; lia.
  - destruct (take_mail s o l) as [[[c' g'] r']|] eqn:T; [|discriminate].
    intro H; inversion H; subst. destruct (IH _ _ _ eq_refl) as [I [Sub [Sup [Cn [Es Eo]]]]].
    repeat split; auto.
    + intros m [<-|J]; [left; reflexivity|right; auto].
    + intros m [<-|J]; [right; left; reflexivity|]. destruct (Sup m J) as [->|J']; [left; reflexivity|right; right; exact J'].
    + intro P. specialize (Cn P). unfold cntm in *. cbn. destruct (P g0); cbn; lia.
Qed.

Lemma mk_frame_fields ty ky p t :
  f_type (mk_frame ty ky p t) = ty /\ fkey (mk_frame ty ky p t) = ky /\ f_payload (mk_frame ty ky p t) = p /\
  f_tag (mk_frame ty ky p t) = t.
Proof. destruct ky as [[[s o] a] i]. cbn. auto. Qed.

(* reply_echoes_key: every frame sent in answer carries the request's service, object, action, id *)
Theorem reply_echoes_key : forall g ty p, fkey (mk_frame ty (fkey g) p (f_tag g)) = fkey g /\
  f_tag (mk_frame ty (fkey g) p (f_tag g)) = f_tag g.
Proof. intros. destruct (mk_frame_fields ty (fkey g) p (f_tag g)) as [_ [A [_ B]]]. auto. Qed.

Section Proofs.
Variable k : cfg.
Variable filter_pass : N -> bool.
Variable target : N -> N -> N -> tgt.
Variable fres : N -> N -> N -> bytes -> bytes.
Variable okargs : N -> N -> N -> bytes -> bool.
Variable callerr : N -> N -> N -> bytes -> bool.

Notation step := (step k filter_pass target fres okargs callerr).
Notation exec := (exec k filter_pass target fres okargs callerr).
Notation answer := (answer k).
Notation do_srv := (do_srv k filter_pass target).
Notation do_srvdrop := (do_srvdrop k).
Notation do_mbox := (do_mbox k target fres okargs callerr).

Definition expected (x : callst) : bytes :=
  let '(s, o, a, _) := k_key x in fres s o a (k_payload x).

(* ---------- what `answer` changes ---------- *)
Lemma answer_frames st c g ty p :
  mid (answer st c g ty p) = mid st /\ issued (answer st c g ty p) = issued st /\ rawc (answer st c g ty p) = rawc st /\
  calls (answer st c g ty p) = calls st /\ c2s (answer st c g ty p) = c2s st /\ mails (answer st c g ty p) = mails st /\
  nraw (answer st c g ty p) = nraw st /\ rawty (answer st c g ty p) = rawty st /\ ex (answer st c g ty p) = ex st.
Proof. unfold Call.answer. destruct (_ && _); cbn; repeat split; reflexivity. Qed.

Lemma answer_s2c st c g ty p c' x : In x (s2c (answer st c g ty p) c') ->
  In x (s2c st c') \/ (c' = c /\ x = mk_frame ty (fkey g) p (f_tag g)).
Proof.
  unfold Call.answer. destruct (_ && _); cbn; [auto|]. unfold upd. destruct (Nat.eqb_spec c' c); [|auto].
  subst. intro I. apply in_app_or in I as [I|[<-|[]]]; auto.
Qed.

Lemma answer_back st c g ty p t :
  back (answer st c g ty p) t = back st t \/
  (t = f_tag g /\ back (answer st c g ty p) t = S (back st t) /\ ((f_type g =? T_Post) && negb (post_answered k) = false)).
Proof.
  unfold Call.answer. destruct (_ && _) eqn:E; cbn; [auto|]. unfold updt.
  destruct (tag_eqb t (f_tag g)) eqn:Et; [|auto]. apply tag_eqb_eq in Et. subst. right. auto.
Qed.

(* ---------- layer A: structure ---------- *)
Definition req_shape (st : state) (c : nat) (g : frame) : Prop :=
  tag_conn (f_tag g) = c /\
  (forall i, f_tag g = TCall c i ->
     k_sent (calls st c i) = true /\ fkey g = k_key (calls st c i) /\
     ((f_type g = T_Call /\ f_payload g = k_payload (calls st c i)) \/ f_type g = T_Cancel)) /\
  (forall n, f_tag g = TRaw c n -> (n < nraw st c)%nat /\ f_type g = rawty st c n /\ rawc st c = true).

Definition resp_shape (st : state) (c : nat) (g : frame) : Prop :=
  tag_conn (f_tag g) = c /\
  (forall i, f_tag g = TCall c i -> k_sent (calls st c i) = true /\ fkey g = k_key (calls st c i)) /\
  (forall n, f_tag g = TRaw c n -> rawc st c = true).

Record invA (st : state) : Prop := {
  a_c2s : forall c g, In g (c2s st c) -> req_shape st c g;
  a_mails : forall c g, In (c, g) (mails st) -> req_shape st c g;
  a_s2c : forall c g, In g (s2c st c) -> resp_shape st c g;
  a_mid : forall c, mid st c = (2 * N.of_nat (issued st c) + 1) mod 2 ^ 32;
  a_alloc : forall c i, (i < issued st c)%nat -> k_alloc (calls st c i) = true /\ snd (k_key (calls st c i)) = id_of_index i;
  a_unalloc : forall c i, (issued st c <= i)%nat -> calls st c i = call0;
  a_rawexcl : forall c, rawc st c = true -> issued st c = O;
  a_chan : forall c i g, k_chan (calls st c i) = Some g -> k_sent (calls st c i) = true;
  a_wait : forall c i, k_waiting (calls st c i) = true -> k_sent (calls st c i) = true;
  a_handler : forall c i, k_handler (calls st c i) = true -> k_sent (calls st c i) = true;
}.

Lemma invA_init : invA init.
Proof. constructor; cbn; try tauto; try discriminate; try lia; auto. Qed.

(* a change of the calls table that keeps key, payload and sent-ness of every call keeps shapes *)
Lemma req_shape_calls st st' c g :
  req_shape st c g ->
  (forall i, k_sent (calls st c i) = true -> k_sent (calls st' c i) = true /\ k_key (calls st' c i) = k_key (calls st c i) /\
             k_payload (calls st' c i) = k_payload (calls st c i)) ->
  (forall n, (n < nraw st c)%nat -> (n < nraw st' c)%nat /\ rawty st' c n = rawty st c n) ->
  (rawc st c = true -> rawc st' c = true) ->
  req_shape st' c g.
Proof.
  intros [H1 [H2 H3]] Hc Hn Hr. split; [exact H1|]. split.
  - intros i E. destruct (H2 i E) as [S [K P]]. destruct (Hc i S) as [S' [K' P']].
    split; [exact S'|]. split; [congruence|]. destruct P as [[T Pp]|T]; [left; split; congruence|right; exact T].
  - intros n E. destruct (H3 n E) as [L [T R]]. destruct (Hn n L) as [L' T']. split; [exact L'|]. split; [congruence|auto].
Qed.

Lemma resp_shape_calls st st' c g :
  resp_shape st c g ->
  (forall i, k_sent (calls st c i) = true -> k_sent (calls st' c i) = true /\ k_key (calls st' c i) = k_key (calls st c i)) ->
  (rawc st c = true -> rawc st' c = true) ->
  resp_shape st' c g.
Proof.
  intros [H1 [H2 H3]] Hc Hr. split; [exact H1|]. split.
  - intros i E. destruct (H2 i E) as [S K]. destruct (Hc i S) as [S' K']. split; [exact S'|congruence].
  - intros n E. apply Hr, (H3 n E).
Qed.

Lemma req_to_resp st c g ty p : req_shape st c g -> resp_shape st c (mk_frame ty (fkey g) p (f_tag g)).
Proof.
  intros [H1 [H2 H3]]. destruct (mk_frame_fields ty (fkey g) p (f_tag g)) as [_ [Ek [_ Et]]].
  split; [now rewrite Et|]. split.
  - rewrite Et. intros i E. destruct (H2 i E) as [S [K _]]. split; [exact S|congruence].
  - rewrite Et. intros n E. now destruct (H3 n E).
Qed.

Ltac fields := cbn [mid issued rawc calls c2s s2c mails nraw rawty ex back
                    set_calls set_c2s set_s2c set_mails set_ex set_back].

(* the invariant's requirements on the frames, given how calls/raw bookkeeping evolved *)
Definition calls_ext (st st' : state) : Prop :=
  forall c i, k_sent (calls st c i) = true ->
    k_sent (calls st' c i) = true /\ k_key (calls st' c i) = k_key (calls st c i) /\ k_payload (calls st' c i) = k_payload (calls st c i).
Definition raw_ext (st st' : state) : Prop :=
  (forall c n, (n < nraw st c)%nat -> (n < nraw st' c)%nat /\ rawty st' c n = rawty st c n) /\
  (forall c, rawc st c = true -> rawc st' c = true).

Lemma calls_ext_refl st : calls_ext st st. Proof. intros c i H. auto. Qed.
Lemma raw_ext_refl st : raw_ext st st. Proof. split; auto. Qed.

Lemma invA_answer st c g ty p : invA st -> req_shape st c g -> invA (answer st c g ty p).
Proof.
  intros I Hg. destruct (answer_frames st c g ty p) as [E1 [E2 [E3 [E4 [E5 [E6 [E7 [E8 E9]]]]]]]].
  assert (CE : calls_ext st (answer st c g ty p)) by (intros c0 i0 H; rewrite E4; auto).
  assert (RE : raw_ext st (answer st c g ty p)) by (split; [intros c0 n H; rewrite E7, E8; auto|intros c0 H; rewrite E3; auto]).
  constructor.
  - intros c0 g0 H. rewrite E5 in H. eapply req_shape_calls; [apply (a_c2s st I), H|apply CE|apply RE|apply RE].
  - intros c0 g0 H. rewrite E6 in H. eapply req_shape_calls; [apply (a_mails st I), H|apply CE|apply RE|apply RE].
  - intros c0 g0 H. apply answer_s2c in H as [H|[-> ->]].
    + eapply resp_shape_calls; [apply (a_s2c st I), H|intros i S; destruct (CE c0 i S) as [A [B _]]; auto|apply RE].
    + eapply resp_shape_calls; [apply req_to_resp, Hg|intros i S; destruct (CE c i S) as [A [B _]]; auto|apply RE].
  - intro c0. rewrite E1, E2. apply (a_mid st I).
  - intros c0 i H. rewrite E2 in H. rewrite E4. apply (a_alloc st I), H.
  - intros c0 i H. rewrite E2 in H. rewrite E4. apply (a_unalloc st I), H.
  - intros c0 H. rewrite E3 in H. rewrite E2. apply (a_rawexcl st I), H.
  - intros c0 i g0. rewrite E4. apply (a_chan st I).
  - intros c0 i. rewrite E4. apply (a_wait st I).
  - intros c0 i. rewrite E4. apply (a_handler st I).
Qed.

(* fewer frames, same bookkeeping *)
Lemma invA_sub st st' : invA st ->
  (forall c g, In g (c2s st' c) -> In g (c2s st c)) ->
  (forall c g, In (c, g) (mails st') -> In (c, g) (mails st)) ->
  (forall c g, In g (s2c st' c) -> In g (s2c st c)) ->
  mid st' = mid st -> issued st' = issued st -> rawc st' = rawc st -> calls st' = calls st ->
  nraw st' = nraw st -> rawty st' = rawty st -> invA st'.
Proof.
  intros I H1 H2 H3 E1 E2 E3 E4 E7 E8.
  assert (CE : calls_ext st st') by (intros c0 i0 H; rewrite E4; auto).
  assert (RE : raw_ext st st') by (split; [intros c0 n H; rewrite E7, E8; auto|intros c0 H; rewrite E3; auto]).
  constructor.
  - intros c0 g0 H. eapply req_shape_calls; [apply (a_c2s st I), H1, H|apply CE|apply RE|apply RE].
  - intros c0 g0 H. eapply req_shape_calls; [apply (a_mails st I), H2, H|apply CE|apply RE|apply RE].
  - intros c0 g0 H. eapply resp_shape_calls; [apply (a_s2c st I), H3, H|intros i S; destruct (CE c0 i S) as [A [B _]]; auto|apply RE].
  - intro c0. rewrite E1, E2. apply (a_mid st I).
  - intros c0 i H. rewrite E2 in H. rewrite E4. apply (a_alloc st I), H.
  - intros c0 i H. rewrite E2 in H. rewrite E4. apply (a_unalloc st I), H.
  - intros c0 H. rewrite E3 in H. rewrite E2. apply (a_rawexcl st I), H.
  - intros c0 i g0. rewrite E4. apply (a_chan st I).
  - intros c0 i. rewrite E4. apply (a_wait st I).
  - intros c0 i. rewrite E4. apply (a_handler st I).
Qed.

Lemma in_upd_tail {A} (m : nat -> list A) c q x c' a : m c = x :: q -> In a (upd m c q c') -> In a (m c').
Proof.
  intros E. unfold upd. destruct (Nat.eqb_spec c' c); [subst; rewrite E; intro; right; assumption|auto].
Qed.

Lemma invA_alloc st c s o a p : invA st -> invA (do_alloc st c s o a p).
Proof.
  intro I. unfold do_alloc. destruct (rawc st c) eqn:Er; [exact I|].
  set (n := issued st c).
  assert (U : calls st c n = call0) by (apply (a_unalloc st I); unfold n; lia).
  assert (CE : forall c0 i0, k_sent (calls st c0 i0) = true -> (c0, i0) <> (c, n)).
  { intros c0 i0 S E. inversion E; subst. rewrite U in S. discriminate. }
  constructor; fields.
  - intros c0 g H. eapply req_shape_calls; [apply (a_c2s st I), H| | |]; fields; auto.
    intros i S. rewrite upd2_other by (apply CE, S). auto.
  - intros c0 g H. eapply req_shape_calls; [apply (a_mails st I), H| | |]; fields; auto.
    intros i S. rewrite upd2_other by (apply CE, S). auto.
  - intros c0 g H. eapply resp_shape_calls; [apply (a_s2c st I), H| |]; fields; auto.
    intros i S. rewrite upd2_other by (apply CE, S). auto.
  - intro c0. destruct (Nat.eq_dec c0 c) as [->|Nc].
    + rewrite !upd_same. rewrite (a_mid st I). apply next_id_mid.
    + rewrite !upd_other by exact Nc. apply (a_mid st I).
  - intros c0 i H. destruct (Nat.eq_dec c0 c) as [->|Nc].
    + rewrite upd_same in H. destruct (Nat.eq_dec i n) as [->|Ni].
      * rewrite upd2_same. cbn. split; [reflexivity|]. rewrite (a_mid st I). apply next_id_index.
      * rewrite upd2_other by congruence. apply (a_alloc st I). unfold n in *. lia.
    + rewrite upd_other in H by exact Nc. rewrite upd2_other by congruence. apply (a_alloc st I), H.
  - intros c0 i H. destruct (Nat.eq_dec c0 c) as [->|Nc].
    + rewrite upd_same in H. rewrite upd2_other by (intro E; inversion E; unfold n in *; lia).
      apply (a_unalloc st I). unfold n in *. lia.
    + rewrite upd_other in H by exact Nc. rewrite upd2_other by congruence. apply (a_unalloc st I), H.
  - intros c0 H. destruct (Nat.eq_dec c0 c) as [->|Nc]; [congruence|].
    rewrite upd_other by exact Nc. apply (a_rawexcl st I), H.
  - intros c0 i g. destruct (Nat.eq_dec c0 c) as [->|Nc]; [destruct (Nat.eq_dec i n) as [->|Ni]|].
    + rewrite upd2_same. cbn. discriminate.
    + rewrite upd2_other by congruence. apply (a_chan st I).
    + rewrite upd2_other by congruence. apply (a_chan st I).
  - intros c0 i. destruct (Nat.eq_dec c0 c) as [->|Nc]; [destruct (Nat.eq_dec i n) as [->|Ni]|].
    + rewrite upd2_same. cbn. discriminate.
    + rewrite upd2_other by congruence. apply (a_wait st I).
    + rewrite upd2_other by congruence. apply (a_wait st I).
  - intros c0 i. destruct (Nat.eq_dec c0 c) as [->|Nc]; [destruct (Nat.eq_dec i n) as [->|Ni]|].
    + rewrite upd2_same. cbn. discriminate.
    + rewrite upd2_other by congruence. apply (a_handler st I).
    + rewrite upd2_other by congruence. apply (a_handler st I).
Qed.

(* replacing the record of one call by one with the same key/payload, not un-sending it *)
Lemma invA_setcall st c i y :
  invA st ->
  k_key y = k_key (calls st c i) -> k_payload y = k_payload (calls st c i) -> k_alloc y = k_alloc (calls st c i) ->
  (k_sent (calls st c i) = true -> k_sent y = true) ->
  (k_alloc (calls st c i) = true) ->
  (forall g, k_chan y = Some g -> k_sent y = true) -> (k_waiting y = true -> k_sent y = true) ->
  (k_handler y = true -> k_sent y = true) ->
  invA (set_calls st (upd2 (calls st) c i y)).
Proof.
  intros I Ek Ep Ea Es Hal Hc Hw Hh.
  assert (CE : calls_ext st (set_calls st (upd2 (calls st) c i y))).
  { intros c0 i0 S. fields. destruct (Nat.eq_dec c0 c) as [->|Nc]; [destruct (Nat.eq_dec i0 i) as [->|Ni]|].
    - rewrite upd2_same. auto.
    - rewrite upd2_other by congruence. auto.
    - rewrite upd2_other by congruence. auto. }
  constructor; fields.
  - intros c0 g H. eapply req_shape_calls; [apply (a_c2s st I), H|apply CE|fields; auto|fields; auto].
  - intros c0 g H. eapply req_shape_calls; [apply (a_mails st I), H|apply CE|fields; auto|fields; auto].
  - intros c0 g H. eapply resp_shape_calls; [apply (a_s2c st I), H|intros j S; destruct (CE c0 j S) as [A [B _]]; auto|fields; auto].
  - apply (a_mid st I).
  - intros c0 j H. destruct (Nat.eq_dec c0 c) as [->|Nc]; [destruct (Nat.eq_dec j i) as [->|Ni]|].
    + rewrite upd2_same. destruct (a_alloc st I c i H) as [A B]. rewrite Ek, Ea. auto.
    + rewrite upd2_other by congruence. apply (a_alloc st I), H.
    + rewrite upd2_other by congruence. apply (a_alloc st I), H.
  - intros c0 j H. destruct (Nat.eq_dec c0 c) as [->|Nc]; [destruct (Nat.eq_dec j i) as [->|Ni]|].
    + rewrite (a_unalloc st I c i H) in Hal. discriminate.
    + rewrite upd2_other by congruence. apply (a_unalloc st I), H.
    + rewrite upd2_other by congruence. apply (a_unalloc st I), H.
  - apply (a_rawexcl st I).
  - intros c0 j g. destruct (Nat.eq_dec c0 c) as [->|Nc]; [destruct (Nat.eq_dec j i) as [->|Ni]|].
    + rewrite upd2_same. apply Hc.
    + rewrite upd2_other by congruence. apply (a_chan st I).
    + rewrite upd2_other by congruence. apply (a_chan st I).
  - intros c0 j. destruct (Nat.eq_dec c0 c) as [->|Nc]; [destruct (Nat.eq_dec j i) as [->|Ni]|].
    + rewrite upd2_same. apply Hw.
    + rewrite upd2_other by congruence. apply (a_wait st I).
    + rewrite upd2_other by congruence. apply (a_wait st I).
  - intros c0 j. destruct (Nat.eq_dec c0 c) as [->|Nc]; [destruct (Nat.eq_dec j i) as [->|Ni]|].
    + rewrite upd2_same. apply Hh.
    + rewrite upd2_other by congruence. apply (a_handler st I).
    + rewrite upd2_other by congruence. apply (a_handler st I).
Qed.

(* appending a well-shaped request frame *)
Lemma invA_push_c2s st c g : invA st -> req_shape st c g -> invA (set_c2s st (upd (c2s st) c (c2s st c ++ [g]))).
Proof.
  intros I Hg. constructor; fields; try apply I.
  - intros c0 g0. unfold upd. destruct (Nat.eqb_spec c0 c) as [->|Nc].
    + intro H. apply in_app_or in H as [H|[<-|[]]].
      * eapply req_shape_calls; [apply (a_c2s st I), H|fields; apply calls_ext_refl|fields; auto|fields; auto].
      * eapply req_shape_calls; [exact Hg|fields; apply calls_ext_refl|fields; auto|fields; auto].
    + intro H. eapply req_shape_calls; [apply (a_c2s st I), H|fields; apply calls_ext_refl|fields; auto|fields; auto].
Qed.

Lemma invA_send st c i : invA st -> invA (do_send st c i).
Proof.
  intro I. unfold do_send. destruct (k_alloc (calls st c i) && negb (k_sent (calls st c i))) eqn:E; [|exact I].
  apply andb_true_iff in E as [Ea Es]. apply negb_true_iff in Es.
  set (y := {| k_alloc := true; k_key := k_key (calls st c i); k_payload := k_payload (calls st c i); k_sent := true;
               k_handler := true; k_chan := None; k_waiting := true; k_returns := k_returns (calls st c i);
               k_result := k_result (calls st c i) |}).
  assert (I1 : invA (set_calls st (upd2 (calls st) c i y))).
  { apply invA_setcall; cbn; auto. }
  change (invA (set_c2s (set_calls st (upd2 (calls st) c i y))
                  (upd (c2s (set_calls st (upd2 (calls st) c i y))) c
                       (c2s (set_calls st (upd2 (calls st) c i y)) c ++ [mk_frame T_Call (k_key (calls st c i)) (k_payload (calls st c i)) (TCall c i)])))).
  apply invA_push_c2s; [exact I1|].
  destruct (mk_frame_fields T_Call (k_key (calls st c i)) (k_payload (calls st c i)) (TCall c i)) as [Ft [Fk [Fp Fg]]].
  split; [rewrite Fg; reflexivity|]. split.
  - rewrite Fg. intros j Ej. inversion Ej; subst j. fields. rewrite upd2_same. cbn.
    split; [reflexivity|]. split; [exact Fk|]. left. split; [exact Ft|exact Fp].
  - rewrite Fg. intros n En. discriminate.
Qed.

Lemma invA_return st c i : invA st -> invA (do_return st c i).
Proof.
  intro I. unfold do_return. destruct (k_chan (calls st c i)) as [g|] eqn:Ec; [|exact I].
  destruct (k_waiting (calls st c i)) eqn:Ew; [|exact I].
  pose proof (a_wait st I c i Ew) as Hs.
  assert (Al : k_alloc (calls st c i) = true).
  { destruct (Nat.lt_ge_cases i (issued st c)) as [L|G]; [apply (a_alloc st I), L|].
    rewrite (a_unalloc st I c i G) in Hs. discriminate. }
  apply invA_setcall; cbn; auto; try discriminate.
Qed.

Lemma invA_cancel st c i : invA st -> invA (do_cancel st c i).
Proof.
  intro I. unfold do_cancel. destruct (k_waiting (calls st c i)) eqn:Ew; [|exact I].
  pose proof (a_wait st I c i Ew) as Hs.
  assert (Al : k_alloc (calls st c i) = true).
  { destruct (Nat.lt_ge_cases i (issued st c)) as [L|G]; [apply (a_alloc st I), L|].
    rewrite (a_unalloc st I c i G) in Hs. discriminate. }
  set (y := {| k_alloc := k_alloc (calls st c i); k_key := k_key (calls st c i); k_payload := k_payload (calls st c i);
               k_sent := k_sent (calls st c i); k_handler := k_handler (calls st c i); k_chan := k_chan (calls st c i);
               k_waiting := false; k_returns := S (k_returns (calls st c i)); k_result := Some RCancelled |}).
  assert (I1 : invA (set_calls st (upd2 (calls st) c i y))).
  { apply invA_setcall; cbn; auto; try discriminate. }
  change (invA (set_c2s (set_calls st (upd2 (calls st) c i y))
                  (upd (c2s (set_calls st (upd2 (calls st) c i y))) c
                       (c2s (set_calls st (upd2 (calls st) c i y)) c ++ [mk_frame T_Cancel (k_key (calls st c i)) [] (TCall c i)])))).
  apply invA_push_c2s; [exact I1|].
  destruct (mk_frame_fields T_Cancel (k_key (calls st c i)) [] (TCall c i)) as [Ft [Fk [Fp Fg]]].
  split; [rewrite Fg; reflexivity|]. split.
  - rewrite Fg. intros j Ej. inversion Ej; subst j. fields. rewrite upd2_same. cbn.
    split; [exact Hs|]. split; [exact Fk|]. right. exact Ft.
  - rewrite Fg. intros n En. discriminate.
Qed.

Lemma invA_raw st c ty s o a id p : invA st -> invA (do_raw st c ty s o a id p).
Proof.
  intro I. unfold do_raw. destruct (negb (Nat.eqb (issued st c) 0) || negb (type_ok ty)) eqn:E; [exact I|].
  apply orb_false_iff in E as [E1 _]. apply negb_false_iff, Nat.eqb_eq in E1.
  set (n := nraw st c).
  assert (RE1 : forall c0 m, (m < nraw st c0)%nat -> (m < upd (nraw st) c (S n) c0)%nat /\ upd2 (rawty st) c n ty c0 m = rawty st c0 m).
  { intros c0 m L. destruct (Nat.eq_dec c0 c) as [->|Nc].
    - rewrite upd_same. rewrite upd2_other by (intro X; inversion X; unfold n in *; lia). unfold n. lia.
    - rewrite upd_other by exact Nc. rewrite upd2_other by congruence. auto. }
  assert (RE2 : forall c0, rawc st c0 = true -> upd (rawc st) c true c0 = true).
  { intros c0 H. unfold upd. destruct (Nat.eqb c0 c); auto. }
  destruct (mk_frame_fields ty (s, o, a, id) p (TRaw c n)) as [Ft [Fk [Fp Fg]]].
  constructor; fields.
  - intros c0 g. unfold upd at 1. destruct (Nat.eqb_spec c0 c) as [->|Nc].
    + intro H. apply in_app_or in H as [H|[<-|[]]].
      * eapply req_shape_calls; [apply (a_c2s st I), H|fields; apply calls_ext_refl|fields; apply RE1|fields; apply RE2].
      * split; [rewrite Fg; reflexivity|]. split; [rewrite Fg; intros j Ej; discriminate|].
        rewrite Fg. intros m Em. inversion Em; subst m. fields. rewrite upd_same, upd2_same, upd_same. split; [lia|auto].
    + intro H. eapply req_shape_calls; [apply (a_c2s st I), H|fields; apply calls_ext_refl|fields; apply RE1|fields; apply RE2].
  - intros c0 g H. eapply req_shape_calls; [apply (a_mails st I), H|fields; apply calls_ext_refl|fields; apply RE1|fields; apply RE2].
  - intros c0 g H. eapply resp_shape_calls; [apply (a_s2c st I), H|fields; auto|fields; apply RE2].
  - apply (a_mid st I).
  - apply (a_alloc st I).
  - apply (a_unalloc st I).
  - intros c0. unfold upd. destruct (Nat.eqb_spec c0 c) as [->|Nc]; [intros _; exact E1|apply (a_rawexcl st I)].
  - apply (a_chan st I).
  - apply (a_wait st I).
  - apply (a_handler st I).
Qed.

Lemma invA_pop_c2s st c g q : invA st -> c2s st c = g :: q -> invA (set_c2s st (upd (c2s st) c q)).
Proof.
  intros I E. eapply invA_sub; [exact I| | | | | | | | |]; fields; auto.
  intros c0 g0 H. eapply in_upd_tail; eauto.
Qed.

Lemma invA_push_mail st c g : invA st -> req_shape st c g -> invA (set_mails st (mails st ++ [(c, g)])).
Proof.
  intros I Hg. constructor; fields; try apply I.
  intros c0 g0 H. apply in_app_or in H as [H|[X|[]]].
  - eapply req_shape_calls; [apply (a_mails st I), H|fields; apply calls_ext_refl|fields; auto|fields; auto].
  - inversion X; subst. eapply req_shape_calls; [exact Hg|fields; apply calls_ext_refl|fields; auto|fields; auto].
Qed.

Lemma req_shape_same st st' c g : req_shape st c g -> calls st' = calls st -> nraw st' = nraw st -> rawty st' = rawty st ->
  rawc st' = rawc st -> req_shape st' c g.
Proof.
  intros H E1 E2 E3 E4. eapply req_shape_calls; [exact H| | |].
  - intros i S. rewrite E1. auto.
  - intros n L. rewrite E2, E3. auto.
  - rewrite E4. auto.
Qed.

Lemma invA_srv st c : invA st -> invA (do_srv st c).
Proof.
  intro I. unfold Call.do_srv. destruct (c2s st c) as [|g q] eqn:E; [exact I|].
  assert (Hg : req_shape st c g) by (apply (a_c2s st I); rewrite E; left; reflexivity).
  pose proof (invA_pop_c2s st c g q I E) as I1.
  assert (Hg1 : req_shape (set_c2s st (upd (c2s st) c q)) c g) by (eapply req_shape_same; [exact Hg| | | |]; reflexivity).
  destruct (negb (filter_pass (f_type g))); [exact I1|].
  destruct (target _ _ _); try (apply invA_answer; assumption); apply invA_push_mail; assumption.
Qed.

Lemma invA_srvdrop st c : invA st -> invA (do_srvdrop st c).
Proof.
  intro I. unfold Call.do_srvdrop. destruct (c2s st c) as [|g q] eqn:E; [exact I|].
  assert (Hg : req_shape st c g) by (apply (a_c2s st I); rewrite E; left; reflexivity).
  pose proof (invA_pop_c2s st c g q I E) as I1.
  assert (Hg1 : req_shape (set_c2s st (upd (c2s st) c q)) c g) by (eapply req_shape_same; [exact Hg| | | |]; reflexivity).
  destruct (f_type g =? T_Call); [apply invA_answer; assumption|exact I1].
Qed.

Lemma invA_mbox st s o : invA st -> invA (do_mbox st s o).
Proof.
  intro I. unfold Call.do_mbox. destruct (take_mail s o (mails st)) as [[[c g] r]|] eqn:E; [|exact I].
  destruct (take_mail_spec _ _ _ _ _ _ E) as [Hin [Sub _]].
  assert (Hg : req_shape st c g) by (apply (a_mails st I), Hin).
  assert (I1 : invA (set_mails st r)).
  { eapply invA_sub; [exact I| | | | | | | | |]; fields; auto. }
  assert (Hg1 : req_shape (set_mails st r) c g) by (eapply req_shape_same; [exact Hg| | | |]; reflexivity).
  destruct (negb (runs k (f_type g))); [exact I1|].
  destruct (target _ _ _); try (apply invA_answer; assumption).
  destruct (negb (okargs _ _ _ _)); [apply invA_answer; assumption|].
  set (st2 := set_ex (set_mails st r) _).
  assert (I2 : invA st2) by (eapply invA_sub; [exact I1| | | | | | | | |]; fields; auto).
  assert (Hg2 : req_shape st2 c g) by (eapply req_shape_same; [exact Hg1| | | |]; reflexivity).
  destruct (f_type g =? T_Post); [exact I2|].
  destruct (callerr _ _ _ _); apply invA_answer; assumption.
Qed.

Lemma delivered_fields x g :
  k_alloc (delivered x g) = k_alloc x /\ k_key (delivered x g) = k_key x /\ k_payload (delivered x g) = k_payload x /\ k_sent (delivered x g) = k_sent x /\ k_waiting (delivered x g) = k_waiting x /\ k_returns (delivered x g) = k_returns x /\ k_result (delivered x g) = k_result x /\ k_handler (delivered x g) = false.
Proof. cbn. repeat split. Qed.

Lemma invA_cli st c : invA st -> invA (do_cli st c).
Proof.
  intro I. unfold do_cli. destruct (s2c st c) as [|g q] eqn:E; [exact I|].
  set (cs := fun c' i => if Nat.eqb c' c && Nat.ltb i (issued st c) && hit (calls st c' i) g
                         then delivered (calls st c' i) g else calls st c' i).
  assert (P : forall c0 i, k_alloc (cs c0 i) = k_alloc (calls st c0 i) /\ k_key (cs c0 i) = k_key (calls st c0 i) /\ k_payload (cs c0 i) = k_payload (calls st c0 i) /\ k_sent (cs c0 i) = k_sent (calls st c0 i) /\ k_waiting (cs c0 i) = k_waiting (calls st c0 i)).
  { intros c0 i. unfold cs. destruct (_ && _); [|auto]. cbn. auto. }
  assert (CE : calls_ext st (set_calls (set_s2c st (upd (s2c st) c q)) cs)).
  { intros c0 i S. fields. destruct (P c0 i) as [_ [A [B [C _]]]]. rewrite A, B, C. auto. }
  constructor; fields.
  - intros c0 g0 H. eapply req_shape_calls; [apply (a_c2s st I), H|apply CE|fields; auto|fields; auto].
  - intros c0 g0 H. eapply req_shape_calls; [apply (a_mails st I), H|apply CE|fields; auto|fields; auto].
  - intros c0 g0 H. eapply resp_shape_calls; [apply (a_s2c st I); eapply in_upd_tail; eauto
                                              |intros j S; destruct (CE c0 j S) as [A [B _]]; auto|fields; auto].
  - apply (a_mid st I).
  - intros c0 i H. destruct (P c0 i) as [A [B _]]. rewrite A, B. apply (a_alloc st I), H.
  - intros c0 i H. unfold cs. rewrite (a_unalloc st I c0 i H). unfold hit. cbn. rewrite !andb_false_r. reflexivity.
  - apply (a_rawexcl st I).
  - intros c0 i g0. destruct (P c0 i) as [_ [_ [_ [S _]]]]. rewrite S. unfold cs.
    destruct (_ && _) eqn:Eh.
    + intros _. apply andb_true_iff in Eh as [_ Eh]. unfold hit in Eh. apply andb_true_iff in Eh as [Eh _].
      apply (a_handler st I), Eh.
    + apply (a_chan st I).
  - intros c0 i. destruct (P c0 i) as [_ [_ [_ [S W]]]]. rewrite S, W. apply (a_wait st I).
  - intros c0 i. destruct (P c0 i) as [_ [_ [_ [S _]]]]. rewrite S. unfold cs. destruct (_ && _); [cbn; discriminate|apply (a_handler st I)].
Qed.

Lemma invA_step st l : invA st -> invA (step st l).
Proof.
  intro I. destruct l; cbn [Call.step].
  - now apply invA_alloc. - now apply invA_send. - now apply invA_return. - now apply invA_cancel.
  - now apply invA_raw. - now apply invA_srv. - now apply invA_srvdrop. - now apply invA_mbox. - now apply invA_cli.
Qed.


(* ---------- layer B: one token per request, executions (clean configuration) ---------- *)
Hypothesis Hclean : clean k.

Definition is_req (t : tag) (g : frame) : bool := tag_eqb (f_tag g) t && is_cp (f_type g).

Record invB (st : state) : Prop := {
  b_tok : forall t, (cnt (is_req t) (c2s st (tag_conn t)) + cntm (is_req t) (mails st) + ex st t <= 1)%nat;
  b_unsent : forall c i, k_sent (calls st c i) = false -> ex st (TCall c i) = O;
  b_fresh : forall c n, (nraw st c <= n)%nat -> ex st (TRaw c n) = O /\ back st (TRaw c n) = O;
  b_excp : forall c n, (0 < ex st (TRaw c n))%nat -> is_cp (rawty st c n) = true;
  b_post : forall c n, rawty st c n = T_Post -> back st (TRaw c n) = O;
}.

Lemma invB_init : invB init.
Proof. constructor; cbn; intros; try lia; auto. Qed.

Lemma is_req_tag t g : is_req t g = true -> f_tag g = t /\ is_cp (f_type g) = true.
Proof. unfold is_req. intro H. apply andb_true_iff in H as [A B]. apply tag_eqb_eq in A. auto. Qed.

Lemma invB_answer st c g ty p : invA st -> invB st -> req_shape st c g -> invB (answer st c g ty p).
Proof.
  intros IA IB Hg. destruct (answer_frames st c g ty p) as [E1 [E2 [E3 [E4 [E5 [E6 [E7 [E8 E9]]]]]]]].
  destruct Hg as [Hc [_ Hr]]. destruct Hclean as [_ Hpa].
  constructor.
  - intro t. rewrite E5, E6, E9. apply (b_tok st IB).
  - intros c0 i. rewrite E4, E9. apply (b_unsent st IB).
  - intros c0 n L. rewrite E7 in L. rewrite E9. destruct (b_fresh st IB c0 n L) as [A B]. split; [exact A|].
    destruct (answer_back st c g ty p (TRaw c0 n)) as [X|[X _]]; [congruence|].
    exfalso. rewrite <- X in Hc. cbn in Hc. subst c0. destruct (Hr n (eq_sym X)) as [L' _]. lia.
  - intros c0 n. rewrite E9, E8. apply (b_excp st IB).
  - intros c0 n. rewrite E8. intro T. pose proof (b_post st IB c0 n T) as B0.
    destruct (answer_back st c g ty p (TRaw c0 n)) as [X|[X [_ Y]]]; [congruence|].
    exfalso. rewrite <- X in Hc. cbn in Hc. subst c0. destruct (Hr n (eq_sym X)) as [_ [Ty _]].
    rewrite Hpa in Y. cbn in Y. rewrite andb_true_r in Y. apply N.eqb_neq in Y. congruence.
Qed.

(* no request frame carries the tag of a call that has not been sent / a raw frame not yet written *)
Lemma no_req_unsent st c i : invA st -> k_sent (calls st c i) = false ->
  cnt (is_req (TCall c i)) (c2s st c) = O /\ cntm (is_req (TCall c i)) (mails st) = O.
Proof.
  intros IA Hs. split.
  - destruct (cnt (is_req (TCall c i)) (c2s st c)) eqn:E; [reflexivity|exfalso].
    destruct (cnt_pos_in (is_req (TCall c i)) (c2s st c)) as [g [I R]]; [lia|].
    apply is_req_tag in R as [T _]. destruct (a_c2s st IA c g I) as [_ [H _]]. destruct (H i T) as [X _]. congruence.
  - destruct (cntm (is_req (TCall c i)) (mails st)) eqn:E; [reflexivity|exfalso].
    destruct (cntm_pos_in (is_req (TCall c i)) (mails st)) as [c0 [g [I R]]]; [lia|].
    apply is_req_tag in R as [T _]. destruct (a_mails st IA c0 g I) as [Hc [H _]].
    rewrite T in Hc. cbn in Hc. subst c0. destruct (H i T) as [X _]. congruence.
Qed.

Lemma no_req_fresh st c n : invA st -> (nraw st c <= n)%nat ->
  cnt (is_req (TRaw c n)) (c2s st c) = O /\ cntm (is_req (TRaw c n)) (mails st) = O.
Proof.
  intros IA Hs. split.
  - destruct (cnt (is_req (TRaw c n)) (c2s st c)) eqn:E; [reflexivity|exfalso].
    destruct (cnt_pos_in (is_req (TRaw c n)) (c2s st c)) as [g [I R]]; [lia|].
    apply is_req_tag in R as [T _]. destruct (a_c2s st IA c g I) as [_ [_ H]]. destruct (H n T) as [X _]. lia.
  - destruct (cntm (is_req (TRaw c n)) (mails st)) eqn:E; [reflexivity|exfalso].
    destruct (cntm_pos_in (is_req (TRaw c n)) (mails st)) as [c0 [g [I R]]]; [lia|].
    apply is_req_tag in R as [T _]. destruct (a_mails st IA c0 g I) as [Hc [_ H]].
    rewrite T in Hc. cbn in Hc. subst c0. destruct (H n T) as [X _]. lia.
Qed.

Lemma invB_alloc st c s o a p : invA st -> invB st -> invB (do_alloc st c s o a p).
Proof.
  intros IA IB. unfold do_alloc. destruct (rawc st c); [exact IB|]. constructor; fields; try apply IB.
  intros c0 i. destruct (Nat.eq_dec c0 c) as [->|Nc]; [destruct (Nat.eq_dec i (issued st c)) as [->|Ni]|].
  - intros _. apply (b_unsent st IB). rewrite (a_unalloc st IA c (issued st c)) by lia. reflexivity.
  - rewrite upd2_other by congruence. apply (b_unsent st IB).
  - rewrite upd2_other by congruence. apply (b_unsent st IB).
Qed.

Lemma invB_send st c i : invA st -> invB st -> invB (do_send st c i).
Proof.
  intros IA IB. unfold do_send. destruct (k_alloc (calls st c i) && negb (k_sent (calls st c i))) eqn:E; [|exact IB].
  apply andb_true_iff in E as [_ Es]. apply negb_true_iff in Es.
  destruct (mk_frame_fields T_Call (k_key (calls st c i)) (k_payload (calls st c i)) (TCall c i)) as [Ft [_ [_ Fg]]].
  constructor; fields; try apply IB.
  - intro t. unfold upd. destruct (Nat.eqb_spec (tag_conn t) c) as [Ec|Nc]; [|apply (b_tok st IB)].
    rewrite cnt_app. unfold is_req at 2. rewrite Fg, Ft. cbn [is_cp]. 
    destruct (tag_eqb (TCall c i) t) eqn:Et.
    + apply tag_eqb_eq in Et. subst t. cbn [tag_conn] in *.
      destruct (no_req_unsent st c i IA Es) as [A B]. pose proof (b_unsent st IB c i Es) as X.
      rewrite A, B, X. cbn. lia.
    + cbn. rewrite Nat.add_0_r. pose proof (b_tok st IB t) as X. rewrite Ec in X. exact X.
  - intros c0 j. destruct (Nat.eq_dec c0 c) as [->|Nc]; [destruct (Nat.eq_dec j i) as [->|Ni]|].
    + rewrite upd2_same. cbn. discriminate.
    + rewrite upd2_other by congruence. apply (b_unsent st IB).
    + rewrite upd2_other by congruence. apply (b_unsent st IB).
Qed.

Lemma invB_setcall st c i y : invB st -> k_sent y = k_sent (calls st c i) -> invB (set_calls st (upd2 (calls st) c i y)).
Proof.
  intros IB Es. constructor; fields; try apply IB.
  intros c0 j. destruct (Nat.eq_dec c0 c) as [->|Nc]; [destruct (Nat.eq_dec j i) as [->|Ni]|].
  - rewrite upd2_same, Es. apply (b_unsent st IB).
  - rewrite upd2_other by congruence. apply (b_unsent st IB).
  - rewrite upd2_other by congruence. apply (b_unsent st IB).
Qed.

Lemma invB_return st c i : invB st -> invB (do_return st c i).
Proof.
  intro IB. unfold do_return. destruct (k_chan _); [|exact IB]. destruct (k_waiting _); [|exact IB].
  apply invB_setcall; [exact IB|reflexivity].
Qed.

Lemma invB_cancel st c i : invB st -> invB (do_cancel st c i).
Proof.
  intro IB. unfold do_cancel. destruct (k_waiting _); [|exact IB].
  set (y := {| k_alloc := k_alloc (calls st c i); k_key := k_key (calls st c i); k_payload := k_payload (calls st c i);
               k_sent := k_sent (calls st c i); k_handler := k_handler (calls st c i); k_chan := k_chan (calls st c i);
               k_waiting := false; k_returns := S (k_returns (calls st c i)); k_result := Some RCancelled |}).
  assert (I1 : invB (set_calls st (upd2 (calls st) c i y))) by (apply invB_setcall; [exact IB|reflexivity]).
  destruct (mk_frame_fields T_Cancel (k_key (calls st c i)) [] (TCall c i)) as [Ft [_ [_ Fg]]].
  constructor; fields; try apply I1.
  intro t. unfold upd. destruct (Nat.eqb_spec (tag_conn t) c) as [Ec|Nc]; [|apply (b_tok _ I1)].
  rewrite cnt_app. unfold is_req at 2. rewrite Ft. cbn [is_cp]. rewrite andb_false_r, Nat.add_0_r.
  pose proof (b_tok _ I1 t) as X. cbn [c2s mails ex set_calls set_c2s] in X. rewrite Ec in X. exact X.
Qed.

Lemma invB_raw st c ty s o a id p : invA st -> invB st -> invB (do_raw st c ty s o a id p).
Proof.
  intros IA IB. unfold do_raw. destruct (_ || _); [exact IB|].
  set (n := nraw st c).
  destruct (mk_frame_fields ty (s, o, a, id) p (TRaw c n)) as [Ft [_ [_ Fg]]].
  constructor; fields; try apply IB.
  - intro t. unfold upd. destruct (Nat.eqb_spec (tag_conn t) c) as [Ec|Nc]; [|apply (b_tok st IB)].
    rewrite cnt_app. unfold is_req at 2. rewrite Fg, Ft.
    destruct (tag_eqb (TRaw c n) t) eqn:Et.
    + apply tag_eqb_eq in Et. subst t. cbn [tag_conn] in *.
      destruct (no_req_fresh st c n IA) as [A B]; [unfold n; lia|].
      destruct (b_fresh st IB c n) as [X _]; [unfold n; lia|].
      rewrite A, B, X. destruct (is_cp ty); cbn; lia.
    + cbn. rewrite Nat.add_0_r. pose proof (b_tok st IB t) as X. rewrite Ec in X. exact X.
  - intros c0 m. destruct (Nat.eq_dec c0 c) as [->|Nc].
    + rewrite upd_same. intro L. apply (b_fresh st IB). unfold n in *. lia.
    + rewrite upd_other by exact Nc. apply (b_fresh st IB).
  - intros c0 m H. destruct (Nat.eq_dec c0 c) as [->|Nc]; [destruct (Nat.eq_dec m n) as [->|Nm]|].
    + destruct (b_fresh st IB c n) as [X _]; [unfold n; lia|]. lia.
    + rewrite upd2_other by congruence. apply (b_excp st IB), H.
    + rewrite upd2_other by congruence. apply (b_excp st IB), H.
  - intros c0 m. destruct (Nat.eq_dec c0 c) as [->|Nc]; [destruct (Nat.eq_dec m n) as [->|Nm]|].
    + intros _. apply (b_fresh st IB). unfold n; lia.
    + rewrite upd2_other by congruence. apply (b_post st IB).
    + rewrite upd2_other by congruence. apply (b_post st IB).
Qed.

(* removing the head of c2s c *)
Lemma invB_pop st c g q : invB st -> c2s st c = g :: q ->
  forall t, (cnt (is_req t) (upd (c2s st) c q (tag_conn t)) + (if Nat.eqb (tag_conn t) c && is_req t g then 1 else 0)
             = cnt (is_req t) (c2s st (tag_conn t)))%nat.
Proof.
  intros IB E t. unfold upd. destruct (Nat.eqb_spec (tag_conn t) c) as [Ec|Nc]; cbn [andb].
  - rewrite Ec, E, cnt_cons. destruct (is_req t g); lia.
  - lia.
Qed.

Lemma invB_srv st c : invA st -> invB st -> invB (do_srv st c).
Proof.
  intros IA IB. unfold Call.do_srv. destruct (c2s st c) as [|g q] eqn:E; [exact IB|].
  assert (Hg : req_shape st c g) by (apply (a_c2s st IA); rewrite E; left; reflexivity).
  pose proof (invA_pop_c2s st c g q IA E) as IA1.
  assert (IB1 : invB (set_c2s st (upd (c2s st) c q))).
  { constructor; fields; try apply IB. intro t. pose proof (invB_pop st c g q IB E t). pose proof (b_tok st IB t). lia. }
  assert (Hg1 : req_shape (set_c2s st (upd (c2s st) c q)) c g) by (eapply req_shape_same; [exact Hg| | | |]; reflexivity).
  destruct (negb (filter_pass (f_type g))); [exact IB1|].
  destruct (target _ _ _); try (apply invB_answer; assumption).
  all: constructor; fields; try apply IB.
  all: intro t; rewrite cntm_app; pose proof (invB_pop st c g q IB E t) as P; pose proof (b_tok st IB t) as T;
       destruct (Nat.eqb_spec (tag_conn t) c) as [Ec|Nc]; cbn [andb] in P;
       [destruct (is_req t g); lia|].
  all: destruct (is_req t g) eqn:R; [|lia]; apply is_req_tag in R as [R _]; destruct Hg as [Hc _]; congruence.
Qed.

Lemma invB_srvdrop st c : invA st -> invB st -> invB (do_srvdrop st c).
Proof.
  intros IA IB. unfold Call.do_srvdrop. destruct (c2s st c) as [|g q] eqn:E; [exact IB|].
  assert (Hg : req_shape st c g) by (apply (a_c2s st IA); rewrite E; left; reflexivity).
  pose proof (invA_pop_c2s st c g q IA E) as IA1.
  assert (IB1 : invB (set_c2s st (upd (c2s st) c q))).
  { constructor; fields; try apply IB. intro t. pose proof (invB_pop st c g q IB E t). pose proof (b_tok st IB t). lia. }
  assert (Hg1 : req_shape (set_c2s st (upd (c2s st) c q)) c g) by (eapply req_shape_same; [exact Hg| | | |]; reflexivity).
  destruct (f_type g =? T_Call); [apply invB_answer; assumption|exact IB1].
Qed.

Lemma runs_clean ty : runs k ty = is_cp ty.
Proof. unfold runs. destruct Hclean as [-> _]. now rewrite orb_false_r. Qed.

Lemma invB_mbox st s o : invA st -> invB st -> invB (do_mbox st s o).
Proof.
  intros IA IB. unfold Call.do_mbox. destruct (take_mail s o (mails st)) as [[[c g] r]|] eqn:E; [|exact IB].
  destruct (take_mail_spec _ _ _ _ _ _ E) as [Hin [Sub [_ [Cn _]]]].
  assert (Hg : req_shape st c g) by (apply (a_mails st IA), Hin).
  assert (IA1 : invA (set_mails st r)).
  { eapply invA_sub; [exact IA| | | | | | | | |]; fields; auto. }
  assert (IB1 : invB (set_mails st r)).
  { constructor; fields; try apply IB. intro t. pose proof (b_tok st IB t). rewrite (Cn (is_req t)) in H. lia. }
  assert (Hg1 : req_shape (set_mails st r) c g) by (eapply req_shape_same; [exact Hg| | | |]; reflexivity).
  rewrite runs_clean. destruct (is_cp (f_type g)) eqn:Ecp; cbn [negb]; [|exact IB1].
  destruct (target _ _ _); try (apply invB_answer; assumption).
  destruct (negb (okargs _ _ _ _)); [apply invB_answer; assumption|].
  set (st2 := set_ex (set_mails st r) _).
  assert (IA2 : invA st2) by (eapply invA_sub; [exact IA1| | | | | | | | |]; fields; auto).
  assert (Hg2 : req_shape st2 c g) by (eapply req_shape_same; [exact Hg1| | | |]; reflexivity).
  assert (IB2 : invB st2).
  { destruct Hg as [Hc [Hcall Hraw]]. constructor; unfold st2; fields.
    - intro t. pose proof (b_tok st IB t) as T. rewrite (Cn (is_req t)) in T. unfold updt.
      destruct (tag_eqb t (f_tag g)) eqn:Et.
      + apply tag_eqb_eq in Et. subst t. unfold is_req at 3 in T. rewrite tag_eqb_refl, Ecp in T. cbn in T. lia.
      + lia.
    - intros c0 i Hs. unfold updt. destruct (tag_eqb (TCall c0 i) (f_tag g)) eqn:Et; [|apply (b_unsent st IB), Hs].
      apply tag_eqb_eq in Et. exfalso. rewrite <- Et in Hc. cbn in Hc. subst c0.
      destruct (Hcall i (eq_sym Et)) as [X _]. congruence.
    - intros c0 n L. unfold updt. destruct (tag_eqb (TRaw c0 n) (f_tag g)) eqn:Et; [|apply (b_fresh st IB), L].
      apply tag_eqb_eq in Et. exfalso. rewrite <- Et in Hc. cbn in Hc. subst c0.
      destruct (Hraw n (eq_sym Et)) as [X _]. lia.
    - intros c0 n. unfold updt. destruct (tag_eqb (TRaw c0 n) (f_tag g)) eqn:Et; [|apply (b_excp st IB)].
      apply tag_eqb_eq in Et. intros _. rewrite <- Et in Hc. cbn in Hc. subst c0.
      destruct (Hraw n (eq_sym Et)) as [_ [X _]]. congruence.
    - apply (b_post st IB). }
  destruct (f_type g =? T_Post); [exact IB2|].
  destruct (callerr _ _ _ _); apply invB_answer; assumption.
Qed.

Lemma invB_cli st c : invB st -> invB (do_cli st c).
Proof.
  intro IB. unfold do_cli. destruct (s2c st c) as [|g q]; [exact IB|].
  constructor; fields; try apply IB.
  intros c0 i. destruct (_ && _); [cbn|]; apply (b_unsent st IB).
Qed.

Lemma invB_step st l : invA st -> invB st -> invB (step st l).
Proof.
  intros IA IB. destruct l; cbn [Call.step].
  - now apply invB_alloc. - now apply invB_send. - now apply invB_return. - now apply invB_cancel.
  - now apply invB_raw. - now apply invB_srv. - now apply invB_srvdrop. - now apply invB_mbox. - now apply invB_cli.
Qed.


(* ---------- layer D: a call returns at most once ---------- *)
Record invD (st : state) : Prop := {
  d_ret : forall c i, (k_returns (calls st c i) <= 1)%nat;
  d_wait : forall c i, k_waiting (calls st c i) = true -> k_returns (calls st c i) = O;
  d_unsent : forall c i, k_sent (calls st c i) = false ->
     k_returns (calls st c i) = O /\ k_waiting (calls st c i) = false /\ k_result (calls st c i) = None;
  d_sent : forall c i, k_sent (calls st c i) = true -> k_waiting (calls st c i) = false -> k_returns (calls st c i) = 1%nat;
  d_res : forall c i, k_returns (calls st c i) = O -> k_result (calls st c i) = None;
}.

Lemma invD_init : invD init.
Proof. constructor; cbn; intros; auto; discriminate. Qed.

Lemma invD_calls st st' : invD st ->
  (forall c i, calls st' c i = calls st c i \/
               (k_returns (calls st' c i) = k_returns (calls st c i) /\ k_waiting (calls st' c i) = k_waiting (calls st c i) /\
                k_sent (calls st' c i) = k_sent (calls st c i) /\ k_result (calls st' c i) = k_result (calls st c i))) ->
  invD st'.
Proof.
  intros I H. constructor; intros c i; (destruct (H c i) as [E|[E1 [E2 [E3 E4]]]]; [rewrite E; apply I|rewrite ?E1, ?E2, ?E3, ?E4; apply I]).
Qed.

Lemma invD_answer st c g ty p : invD st -> invD (answer st c g ty p).
Proof. intro I. destruct (answer_frames st c g ty p) as [_ [_ [_ [E _]]]]. eapply invD_calls; [exact I|]. intros; left. now rewrite E. Qed.

Lemma invD_step st l : invA st -> invD st -> invD (step st l).
Proof.
  intros IA I. destruct l as [c s o a p|c i|c i|c i|c ty s o a id p|c|c|s o|c]; cbn [Call.step].
  - unfold do_alloc. destruct (rawc st c); [exact I|]. constructor; fields; intros c0 i0;
      (destruct (Nat.eq_dec c0 c) as [->|Nc]; [destruct (Nat.eq_dec i0 (issued st c)) as [->|Ni]|];
       [rewrite upd2_same; cbn; auto; try discriminate|rewrite upd2_other by congruence; apply I|rewrite upd2_other by congruence; apply I]).
  - unfold do_send. destruct (_ && _) eqn:E; [|exact I]. apply andb_true_iff in E as [_ Es]. apply negb_true_iff in Es.
    destruct (d_unsent st I c i Es) as [R [W Rs]].
    constructor; fields; intros c0 i0;
      (destruct (Nat.eq_dec c0 c) as [->|Nc]; [destruct (Nat.eq_dec i0 i) as [->|Ni]|];
       [rewrite upd2_same; cbn; rewrite ?R, ?Rs; auto; try discriminate; try lia
       |rewrite upd2_other by congruence; apply I|rewrite upd2_other by congruence; apply I]).
  - unfold do_return. destruct (k_chan _) as [g|]; [|exact I]. destruct (k_waiting (calls st c i)) eqn:W; [|exact I].
    pose proof (d_wait st I c i W) as R. pose proof (a_wait st IA c i W) as Hs.
    constructor; fields; intros c0 i0;
      (destruct (Nat.eq_dec c0 c) as [->|Nc]; [destruct (Nat.eq_dec i0 i) as [->|Ni]|];
       [rewrite upd2_same; cbn; rewrite ?R, ?Hs; auto; try discriminate; try lia
       |rewrite upd2_other by congruence; apply I|rewrite upd2_other by congruence; apply I]).
  - unfold do_cancel. destruct (k_waiting (calls st c i)) eqn:W; [|exact I].
    pose proof (d_wait st I c i W) as R. pose proof (a_wait st IA c i W) as Hs.
    constructor; fields; intros c0 i0;
      (destruct (Nat.eq_dec c0 c) as [->|Nc]; [destruct (Nat.eq_dec i0 i) as [->|Ni]|];
       [rewrite upd2_same; cbn; rewrite ?R, ?Hs; auto; try discriminate; try lia
       |rewrite upd2_other by congruence; apply I|rewrite upd2_other by congruence; apply I]).
  - unfold do_raw. destruct (_ || _); [exact I|]. eapply invD_calls; [exact I|]. intros; left; reflexivity.
  - unfold Call.do_srv. destruct (c2s st c) as [|g q]; [exact I|].
    assert (I1 : invD (set_c2s st (upd (c2s st) c q))) by (eapply invD_calls; [exact I|intros; left; reflexivity]).
    destruct (negb _); [exact I1|]. destruct (target _ _ _); try (apply invD_answer; exact I1);
      (eapply invD_calls; [exact I|intros; left; reflexivity]).
  - unfold Call.do_srvdrop. destruct (c2s st c) as [|g q]; [exact I|].
    assert (I1 : invD (set_c2s st (upd (c2s st) c q))) by (eapply invD_calls; [exact I|intros; left; reflexivity]).
    destruct (_ =? _); [apply invD_answer|]; exact I1.
  - unfold Call.do_mbox. destruct (take_mail _ _ _) as [[[c g] r]|]; [|exact I].
    assert (I1 : invD (set_mails st r)) by (eapply invD_calls; [exact I|intros; left; reflexivity]).
    destruct (negb (runs _ _)); [exact I1|]. destruct (target _ _ _); try (apply invD_answer; exact I1).
    destruct (negb (okargs _ _ _ _)); [apply invD_answer; exact I1|].
    set (st2 := set_ex _ _). assert (I2 : invD st2) by (eapply invD_calls; [exact I|intros; left; reflexivity]).
    destruct (_ =? _); [exact I2|]. destruct (callerr _ _ _ _); apply invD_answer; exact I2.
  - unfold do_cli. destruct (s2c st c) as [|g q]; [exact I|]. eapply invD_calls; [exact I|].
    intros c0 i0. fields. destruct (_ && _); [right; cbn; auto|left; reflexivity].
Qed.

(* ---------- layer C: what reaches a caller is the answer to its own call ---------- *)
Definition bounded (st : state) : Prop := forall c, N.of_nat (issued st c) <= 2 ^ 31.

Definition good_resp (st : state) (c i : nat) (g : frame) : Prop :=
  f_type g = T_Reply -> f_payload g = expected (calls st c i) /\ ex st (TCall c i) = 1%nat.

Record invC (st : state) : Prop := {
  c_s2c : forall c g i, In g (s2c st c) -> f_tag g = TCall c i -> good_resp st c i g;
  c_chan : forall c i g, k_chan (calls st c i) = Some g -> f_tag g = TCall c i /\ good_resp st c i g;
  c_result : forall c i p, k_result (calls st c i) = Some (ROk p) -> p = expected (calls st c i) /\ ex st (TCall c i) = 1%nat;
}.

Lemma invC_init : invC init.
Proof. constructor; cbn; intros; try tauto; discriminate. Qed.

Lemma sent_lt st c i : invA st -> k_sent (calls st c i) = true -> (i < issued st c)%nat.
Proof.
  intros IA S. destruct (Nat.lt_ge_cases i (issued st c)) as [L|G]; [exact L|].
  rewrite (a_unalloc st IA c i G) in S. discriminate.
Qed.

(* dispatch_unique: a frame from the server matches the handler of at most one call of the
   client, and that call is the one the frame answers *)
Lemma hit_is_own st c i g : invA st -> bounded st -> In g (s2c st c) -> (i < issued st c)%nat ->
  hit (calls st c i) g = true -> f_tag g = TCall c i.
Proof.
  intros IA Bd Hin Li Hh. unfold hit in Hh. apply andb_true_iff in Hh as [_ Hk]. apply key_eqb_eq in Hk.
  destruct (a_s2c st IA c g Hin) as [Hc [Hcall Hraw]].
  destruct (f_tag g) as [c0 j|c0 n] eqn:Et; cbn in Hc; subst c0.
  - destruct (Hcall j eq_refl) as [Sj Kj]. pose proof (sent_lt st c j IA Sj) as Lj.
    destruct (a_alloc st IA c i Li) as [_ Ii]. destruct (a_alloc st IA c j Lj) as [_ Ij].
    assert (E : id_of_index i = id_of_index j) by congruence.
    pose proof (Bd c) as B. apply id_of_index_inj in E; [congruence|lia|lia].
  - pose proof (a_rawexcl st IA c (Hraw n eq_refl)). lia.
Qed.

Theorem dispatch_unique st c i j g : invA st -> bounded st -> In g (s2c st c) ->
  (i < issued st c)%nat -> (j < issued st c)%nat ->
  hit (calls st c i) g = true -> hit (calls st c j) g = true -> i = j.
Proof.
  intros IA Bd Hin Li Lj Hi Hj.
  pose proof (hit_is_own st c i g IA Bd Hin Li Hi) as Ei. pose proof (hit_is_own st c j g IA Bd Hin Lj Hj) as Ej.
  congruence.
Qed.

(* a new state that keeps key/payload of sent calls and the ex of tags whose ex was 1 keeps good_resp *)
Lemma good_resp_ext st st' c i g : good_resp st c i g ->
  k_key (calls st' c i) = k_key (calls st c i) -> k_payload (calls st' c i) = k_payload (calls st c i) ->
  (ex st (TCall c i) = 1%nat -> ex st' (TCall c i) = 1%nat) -> good_resp st' c i g.
Proof.
  intros H Ek Ep Ee T. destruct (H T) as [A B]. unfold expected. rewrite Ek, Ep. split; [exact A|auto].
Qed.

Definition same_calls_ex (st st' : state) : Prop := calls st' = calls st /\ ex st' = ex st.

Lemma invC_same st st' : invC st -> same_calls_ex st st' ->
  (forall c g, In g (s2c st' c) -> In g (s2c st c) \/ f_type g <> T_Reply) -> invC st'.
Proof.
  intros I [Ec Ee] Hs. constructor.
  - intros c g i Hin T. destruct (Hs c g Hin) as [H|H]; [|intro X; contradiction].
    eapply good_resp_ext; [apply (c_s2c st I c g i H T)|rewrite Ec; reflexivity|rewrite Ec; reflexivity|rewrite Ee; auto].
  - intros c i g. rewrite Ec. intro H. destruct (c_chan st I c i g H) as [A B]. split; [exact A|].
    eapply good_resp_ext; [exact B|rewrite Ec; reflexivity|rewrite Ec; reflexivity|rewrite Ee; auto].
  - intros c i p. unfold expected. rewrite Ec, Ee. apply (c_result st I).
Qed.

Lemma invC_answer_err st c g p : invC st -> invC (answer st c g T_Error p).
Proof.
  intro I. destruct (answer_frames st c g T_Error p) as [_ [_ [_ [E4 [_ [_ [_ [_ E9]]]]]]]].
  eapply invC_same; [exact I|split; assumption|].
  intros c0 g0 H. apply answer_s2c in H as [H|[_ ->]]; [left; exact H|right].
  destruct (mk_frame_fields T_Error (fkey g) p (f_tag g)) as [Ft _]. rewrite Ft. discriminate.
Qed.

(* replacing one call record, keeping key and payload *)
Lemma invC_setcall st c i y : invC st ->
  k_key y = k_key (calls st c i) -> k_payload y = k_payload (calls st c i) ->
  (forall g, k_chan y = Some g -> f_tag g = TCall c i /\ good_resp st c i g) ->
  (forall p, k_result y = Some (ROk p) -> p = expected (calls st c i) /\ ex st (TCall c i) = 1%nat) ->
  invC (set_calls st (upd2 (calls st) c i y)).
Proof.
  intros I Ek Ep Hc Hr.
  assert (KP : forall c0 j, k_key (upd2 (calls st) c i y c0 j) = k_key (calls st c0 j) /\
                            k_payload (upd2 (calls st) c i y c0 j) = k_payload (calls st c0 j)).
  { intros c0 j. destruct (Nat.eq_dec c0 c) as [->|Nc]; [destruct (Nat.eq_dec j i) as [->|Ni]|].
    - rewrite upd2_same. auto.
    - rewrite upd2_other by congruence. auto.
    - rewrite upd2_other by congruence. auto. }
  constructor; fields.
  - intros c0 g j Hin T. destruct (KP c0 j) as [A B].
    eapply good_resp_ext; [apply (c_s2c st I c0 g j Hin T)|exact A|exact B|auto].
  - intros c0 j g. destruct (KP c0 j) as [A B].
    destruct (Nat.eq_dec c0 c) as [->|Nc]; [destruct (Nat.eq_dec j i) as [->|Ni]|].
    + rewrite upd2_same. intro H. destruct (Hc g H) as [X Y]. split; [exact X|].
      eapply good_resp_ext; [exact Y|fields; rewrite upd2_same; exact Ek|fields; rewrite upd2_same; exact Ep|auto].
    + rewrite upd2_other by congruence. intro H. destruct (c_chan st I c j g H) as [X Y]. split; [exact X|].
      eapply good_resp_ext; [exact Y|fields; rewrite upd2_other by congruence; reflexivity|fields; rewrite upd2_other by congruence; reflexivity|auto].
    + rewrite upd2_other by congruence. intro H. destruct (c_chan st I c0 j g H) as [X Y]. split; [exact X|].
      eapply good_resp_ext; [exact Y|fields; rewrite upd2_other by congruence; reflexivity|fields; rewrite upd2_other by congruence; reflexivity|auto].
  - intros c0 j p. unfold expected. destruct (KP c0 j) as [A B]. rewrite A, B.
    destruct (Nat.eq_dec c0 c) as [->|Nc]; [destruct (Nat.eq_dec j i) as [->|Ni]|].
    + rewrite upd2_same. apply Hr.
    + rewrite upd2_other by congruence. apply (c_result st I).
    + rewrite upd2_other by congruence. apply (c_result st I).
Qed.

Lemma invC_c2s st v : invC st -> invC (set_c2s st v).
Proof. intro I. eapply invC_same; [exact I|split; reflexivity|auto]. Qed.

Lemma invC_step st l : invA st -> invB st -> bounded st -> invC st -> invC (step st l).
Proof.
  intros IA IB Bd I. destruct l as [c s o a p|c i|c i|c i|c ty s o a id p|c|c|s o|c]; cbn [Call.step].
  - (* alloc *)
    unfold do_alloc. destruct (rawc st c); [exact I|]. set (n := issued st c).
    assert (U : calls st c n = call0) by (apply (a_unalloc st IA); unfold n; lia).
    constructor; fields.
    + intros c0 g j Hin T. destruct (a_s2c st IA c0 g Hin) as [_ [Hcall _]]. destruct (Hcall j T) as [Sj _].
      assert (Ne : (c0, j) <> (c, n)) by (intro X; inversion X; subst; rewrite U in Sj; discriminate).
      eapply good_resp_ext; [apply (c_s2c st I c0 g j Hin T)|fields; rewrite upd2_other by exact Ne; reflexivity
                            |fields; rewrite upd2_other by exact Ne; reflexivity|auto].
    + intros c0 j g. destruct (Nat.eq_dec c0 c) as [->|Nc]; [destruct (Nat.eq_dec j n) as [->|Ni]|].
      * rewrite upd2_same. cbn. discriminate.
      * rewrite upd2_other by congruence. intro H. destruct (c_chan st I c j g H) as [X Y]. split; [exact X|].
        eapply good_resp_ext; [exact Y|fields; rewrite upd2_other by congruence; reflexivity|fields; rewrite upd2_other by congruence; reflexivity|auto].
      * rewrite upd2_other by congruence. intro H. destruct (c_chan st I c0 j g H) as [X Y]. split; [exact X|].
        eapply good_resp_ext; [exact Y|fields; rewrite upd2_other by congruence; reflexivity|fields; rewrite upd2_other by congruence; reflexivity|auto].
    + intros c0 j p0. destruct (Nat.eq_dec c0 c) as [->|Nc]; [destruct (Nat.eq_dec j n) as [->|Ni]|].
      * rewrite upd2_same. cbn. discriminate.
      * rewrite upd2_other by congruence. apply (c_result st I).
      * rewrite upd2_other by congruence. apply (c_result st I).
  - (* send *)
    unfold do_send. destruct (_ && _); [|exact I]. apply invC_c2s. apply invC_setcall; cbn; auto; try discriminate.
    apply (c_result st I).
  - (* return *)
    unfold do_return. destruct (k_chan (calls st c i)) as [g|] eqn:Ec; [|exact I]. destruct (k_waiting _); [|exact I].
    apply invC_setcall; cbn; auto; try discriminate.
    intros p H. destruct (c_chan st I c i g Ec) as [_ G]. unfold result_of in H.
    destruct (f_type g =? T_Reply) eqn:Et; [apply N.eqb_eq in Et; inversion H; subst; apply G, Et|].
    destruct (f_type g =? T_Error); [discriminate H|]. destruct (f_type g =? T_Cancelled); discriminate H.
  - (* cancel *)
    unfold do_cancel. destruct (k_waiting _); [|exact I]. apply invC_c2s. apply invC_setcall; cbn; auto; try discriminate.
    apply (c_chan st I).
  - (* raw *)
    unfold do_raw. destruct (_ || _); [exact I|]. eapply invC_same; [exact I|split; reflexivity|auto].
  - (* srv *)
    unfold Call.do_srv. destruct (c2s st c) as [|g q]; [exact I|].
    destruct (negb _); [apply invC_c2s, I|]. destruct (target _ _ _); try (apply invC_answer_err, invC_c2s, I);
      (eapply invC_same; [exact I|split; reflexivity|auto]).
  - (* srvdrop *)
    unfold Call.do_srvdrop. destruct (c2s st c) as [|g q]; [exact I|].
    destruct (_ =? _); [apply invC_answer_err, invC_c2s, I|apply invC_c2s, I].
  - (* mbox *)
    unfold Call.do_mbox. destruct (take_mail s o (mails st)) as [[[c g] r]|] eqn:E; [|exact I].
    destruct (take_mail_spec _ _ _ _ _ _ E) as [Hin _].
    assert (I1 : invC (set_mails st r)) by (eapply invC_same; [exact I|split; reflexivity|auto]).
    rewrite runs_clean. destruct (is_cp (f_type g)) eqn:Ecp; cbn [negb]; [|exact I1].
    destruct (target _ _ _); try (apply invC_answer_err, I1).
    destruct (negb (okargs _ _ _ _)); [apply invC_answer_err, I1|].
    (* the method body runs: ex of the mail's tag was 0 *)
    assert (Ex0 : ex st (f_tag g) = O).
    { pose proof (b_tok st IB (f_tag g)) as T.
      assert (0 < cntm (is_req (f_tag g)) (mails st))%nat.
      { eapply cntm_in_pos; [exact Hin|]. unfold is_req. now rewrite tag_eqb_refl, Ecp. }
      lia. }
    set (st2 := set_ex (set_mails st r) (updt (ex (set_mails st r)) (f_tag g) (S (ex (set_mails st r) (f_tag g))))).
    assert (Keep : forall c0 j, ex st (TCall c0 j) = 1%nat -> ex st2 (TCall c0 j) = 1%nat).
    { intros c0 j H. unfold st2; fields. unfold updt. destruct (tag_eqb (TCall c0 j) (f_tag g)) eqn:Et; [|exact H].
      apply tag_eqb_eq in Et. rewrite <- Et in Ex0. lia. }
    assert (I2 : invC st2).
    { constructor; unfold st2; fields.
      - intros c0 g0 j H T. eapply good_resp_ext; [apply (c_s2c st I c0 g0 j H T)|reflexivity|reflexivity|apply Keep].
      - intros c0 j g0 H. destruct (c_chan st I c0 j g0 H) as [X Y]. split; [exact X|].
        eapply good_resp_ext; [exact Y|reflexivity|reflexivity|apply Keep].
      - intros c0 j p0 H. destruct (c_result st I c0 j p0 H) as [X Y]. split; [exact X|apply Keep, Y]. }
    destruct (f_type g =? T_Post) eqn:Ep; [exact I2|].
    destruct (callerr _ _ _ _); [apply invC_answer_err, I2|].
    (* the reply *)
    destruct (answer_frames st2 c g T_Reply (fres (f_svc g) (f_obj g) (f_act g) (f_payload g))) as [_ [_ [_ [E4 [_ [_ [_ [_ E9]]]]]]]].
    constructor.
    + intros c0 g0 j H T. apply answer_s2c in H as [H|[-> ->]].
      * eapply good_resp_ext; [apply (c_s2c st2 I2 c0 g0 j H T)|rewrite E4; reflexivity|rewrite E4; reflexivity|rewrite E9; auto].
      * destruct (mk_frame_fields T_Reply (fkey g) (fres (f_svc g) (f_obj g) (f_act g) (f_payload g)) (f_tag g)) as [_ [_ [Fp Fg]]].
        rewrite Fg in T. intros _. rewrite Fp, E4, E9.
        destruct (a_mails st IA c g Hin) as [_ [Hcall _]]. destruct (Hcall j T) as [_ [Kk Ty]].
        destruct Ty as [[Tc Pp]|Tc]; [|rewrite Tc in Ecp; discriminate].
        split.
        -- unfold expected. unfold st2; fields. rewrite <- Kk, <- Pp. reflexivity.
        -- unfold st2; fields. rewrite <- T, updt_same, Ex0. reflexivity.
    + intros c0 j g0. rewrite E4. intro H. destruct (c_chan st2 I2 c0 j g0 H) as [X Y]. split; [exact X|].
      eapply good_resp_ext; [exact Y|rewrite E4; reflexivity|rewrite E4; reflexivity|rewrite E9; auto].
    + intros c0 j p0. unfold expected. rewrite E4, E9. apply (c_result st2 I2).
  - (* cli *)
    unfold do_cli. destruct (s2c st c) as [|g q] eqn:Es; [exact I|].
    assert (Hin : In g (s2c st c)) by (rewrite Es; left; reflexivity).
    set (cs := fun c' i => if Nat.eqb c' c && Nat.ltb i (issued st c) && hit (calls st c' i) g
                           then delivered (calls st c' i) g else calls st c' i).
    assert (KP : forall c0 j, k_key (cs c0 j) = k_key (calls st c0 j) /\ k_payload (cs c0 j) = k_payload (calls st c0 j) /\
                              k_result (cs c0 j) = k_result (calls st c0 j)).
    { intros c0 j. unfold cs. destruct (_ && _); cbn; auto. }
    constructor; fields.
    + intros c0 g0 j H T. destruct (KP c0 j) as [A [B _]].
      eapply good_resp_ext; [apply (c_s2c st I c0 g0 j); [eapply in_upd_tail; eauto|exact T]|exact A|exact B|auto].
    + intros c0 j g0. destruct (KP c0 j) as [A [B _]]. fold cs. unfold cs at 1.
      destruct (Nat.eqb c0 c && Nat.ltb j (issued st c) && hit (calls st c0 j) g) eqn:Eh.
      * apply andb_true_iff in Eh as [Eh Hh]. apply andb_true_iff in Eh as [Ec Lj].
        apply Nat.eqb_eq in Ec. subst c0. apply Nat.ltb_lt in Lj.
        pose proof (hit_is_own st c j g IA Bd Hin Lj Hh) as Tg.
        cbn [delivered k_chan]. destruct (k_chan (calls st c j)) as [g1|] eqn:Ech.
        -- intro H. inversion H; subst g1. destruct (c_chan st I c j g0 Ech) as [X Y]. split; [exact X|].
           eapply good_resp_ext; [exact Y|exact A|exact B|auto].
        -- intro H. inversion H; subst g0. split; [exact Tg|].
           eapply good_resp_ext; [apply (c_s2c st I c g j Hin Tg)|exact A|exact B|auto].
      * intro H. destruct (c_chan st I c0 j g0 H) as [X Y]. split; [exact X|].
        eapply good_resp_ext; [exact Y|exact A|exact B|auto].
    + intros c0 j p0. unfold expected. destruct (KP c0 j) as [A [B C]]. fold cs. rewrite A, B, C. apply (c_result st I).
Qed.


(* ---------- layer E: a waiting call always has its request or its answer in flight ---------- *)
Definition is_callframe (t : tag) (g : frame) : bool := tag_eqb (f_tag g) t && (f_type g =? T_Call).

Definition in_flight (st : state) (c i : nat) : Prop :=
  (exists g, In g (c2s st c) /\ is_callframe (TCall c i) g = true) \/
  (exists g, In (c, g) (mails st) /\ is_callframe (TCall c i) g = true) \/
  (exists g, In g (s2c st c) /\ f_tag g = TCall c i).

Hypothesis Hcallpass : filter_pass T_Call = true.   (* the filter lets Call frames through *)

Definition invE (st : state) : Prop :=
  forall c i, k_waiting (calls st c i) = true -> k_chan (calls st c i) = None ->
    k_handler (calls st c i) = true /\ in_flight st c i.

Lemma invE_init : invE init.
Proof. intros c i H. cbn in H. discriminate. Qed.

Lemma in_flight_mono st st' c i : in_flight st c i ->
  (forall g, In g (c2s st c) -> In g (c2s st' c)) -> (forall g, In (c, g) (mails st) -> In (c, g) (mails st')) ->
  (forall g, In g (s2c st c) -> In g (s2c st' c)) -> in_flight st' c i.
Proof.
  intros [[g [A B]]|[[g [A B]]|[g [A B]]]] H1 H2 H3.
  - left. exists g. auto.
  - right; left. exists g. auto.
  - right; right. exists g. auto.
Qed.

Lemma answer_keeps st c g ty p c' x : In x (s2c st c') -> In x (s2c (answer st c g ty p) c').
Proof.
  unfold Call.answer. destruct (_ && _); cbn; [auto|]. unfold upd. destruct (Nat.eqb_spec c' c); [|auto].
  subst. intro I. apply in_or_app. auto.
Qed.

Lemma answer_adds st c g ty p : f_type g <> T_Post ->
  In (mk_frame ty (fkey g) p (f_tag g)) (s2c (answer st c g ty p) c).
Proof.
  intro H. unfold Call.answer. apply N.eqb_neq in H. rewrite H. cbn. rewrite upd_same. apply in_or_app. right. left. reflexivity.
Qed.

Lemma answer_in_flight st c g ty p i : f_tag g = TCall c i -> f_type g <> T_Post -> in_flight (answer st c g ty p) c i.
Proof.
  intros T H. right; right. exists (mk_frame ty (fkey g) p (f_tag g)). split; [now apply answer_adds|].
  destruct (mk_frame_fields ty (fkey g) p (f_tag g)) as [_ [_ [_ X]]]. congruence.
Qed.

Lemma callframe_type t g : is_callframe t g = true -> f_tag g = t /\ f_type g = T_Call.
Proof. unfold is_callframe. intro H. apply andb_true_iff in H as [A B]. apply tag_eqb_eq in A. apply N.eqb_eq in B. auto. Qed.

Lemma invE_frames st st' : invE st -> calls st' = calls st ->
  (forall c i, in_flight st c i -> in_flight st' c i) -> invE st'.
Proof. intros I Ec H c i W Ch. rewrite Ec in *. destruct (I c i W Ch) as [A B]. auto. Qed.

Lemma invE_step st l : invA st -> bounded st -> invE st -> invE (step st l).
Proof.
  intros IA Bd I. destruct l as [c s o a p|c i|c i|c i|c ty s o a id p|c|c|s o|c]; cbn [Call.step].
  - unfold do_alloc. destruct (rawc st c); [exact I|]. intros c0 j. fields.
    destruct (Nat.eq_dec c0 c) as [->|Nc]; [destruct (Nat.eq_dec j (issued st c)) as [->|Nj]|].
    + rewrite upd2_same. cbn. discriminate.
    + rewrite upd2_other by congruence. intros W Ch. destruct (I c j W Ch) as [A B]. split; [exact A|].
      eapply in_flight_mono; [exact B| | |]; fields; auto.
    + rewrite upd2_other by congruence. intros W Ch. destruct (I c0 j W Ch) as [A B]. split; [exact A|].
      eapply in_flight_mono; [exact B| | |]; fields; auto.
  - unfold do_send. destruct (_ && _); [|exact I]. intros c0 j. fields.
    destruct (Nat.eq_dec c0 c) as [->|Nc]; [destruct (Nat.eq_dec j i) as [->|Nj]|].
    + rewrite upd2_same. cbn. intros _ _. split; [reflexivity|]. left.
      exists (mk_frame T_Call (k_key (calls st c i)) (k_payload (calls st c i)) (TCall c i)). split.
      * fields. rewrite upd_same. apply in_or_app. right. left. reflexivity.
      * destruct (mk_frame_fields T_Call (k_key (calls st c i)) (k_payload (calls st c i)) (TCall c i)) as [Ft [_ [_ Fg]]].
        unfold is_callframe. rewrite Fg, Ft, tag_eqb_refl. reflexivity.
    + rewrite upd2_other by congruence. intros W Ch. destruct (I c j W Ch) as [A B]. split; [exact A|].
      eapply in_flight_mono; [exact B| | |]; fields; auto. intros g H. rewrite upd_same. apply in_or_app; auto.
    + rewrite upd2_other by congruence. intros W Ch. destruct (I c0 j W Ch) as [A B]. split; [exact A|].
      eapply in_flight_mono; [exact B| | |]; fields; auto. intros g H. rewrite upd_other by exact Nc. exact H.
  - unfold do_return. destruct (k_chan (calls st c i)); [|exact I]. destruct (k_waiting (calls st c i)); [|exact I].
    intros c0 j. fields. destruct (Nat.eq_dec c0 c) as [->|Nc]; [destruct (Nat.eq_dec j i) as [->|Nj]|].
    + rewrite upd2_same. cbn. discriminate.
    + rewrite upd2_other by congruence. apply I.
    + rewrite upd2_other by congruence. apply I.
  - unfold do_cancel. destruct (k_waiting (calls st c i)); [|exact I].
    intros c0 j. fields. destruct (Nat.eq_dec c0 c) as [->|Nc]; [destruct (Nat.eq_dec j i) as [->|Nj]|].
    + rewrite upd2_same. cbn. discriminate.
    + rewrite upd2_other by congruence. intros W Ch. destruct (I c j W Ch) as [A B]. split; [exact A|].
      eapply in_flight_mono; [exact B| | |]; fields; auto. intros g H. rewrite upd_same. apply in_or_app; auto.
    + rewrite upd2_other by congruence. intros W Ch. destruct (I c0 j W Ch) as [A B]. split; [exact A|].
      eapply in_flight_mono; [exact B| | |]; fields; auto. intros g H. rewrite upd_other by exact Nc. exact H.
  - unfold do_raw. destruct (_ || _); [exact I|]. eapply invE_frames; [exact I|reflexivity|].
    intros c0 j H. eapply in_flight_mono; [exact H| | |]; fields; auto.
    intros g Hg. unfold upd. destruct (Nat.eqb_spec c0 c); [subst; apply in_or_app; auto|exact Hg].
  - (* srv *)
    unfold Call.do_srv. destruct (c2s st c) as [|g q] eqn:E; [exact I|].
    set (st1 := set_c2s st (upd (c2s st) c q)).
    (* everything in flight stays in flight, except possibly the request g itself *)
    assert (Keep : forall st', calls st' = calls st ->
               (forall c0 x, In x (c2s st1 c0) -> In x (c2s st' c0)) ->
               (forall c0 x, In (c0, x) (mails st) -> In (c0, x) (mails st')) ->
               (forall c0 x, In x (s2c st c0) -> In x (s2c st' c0)) ->
               (forall j, is_callframe (TCall c j) g = true -> in_flight st' c j) -> invE st').
    { intros st' Ec H1 H2 H3 Hg c0 j W Ch. rewrite Ec in *. destruct (I c0 j W Ch) as [A B]. split; [exact A|].
      destruct B as [[x [X Y]]|[[x [X Y]]|[x [X Y]]]].
      - destruct (Nat.eq_dec c0 c) as [->|Nc].
        + rewrite E in X. destruct X as [<-|X]; [apply Hg, Y|]. left. exists x. split; [|exact Y].
          apply H1. unfold st1; fields. rewrite upd_same. exact X.
        + left. exists x. split; [|exact Y]. apply H1. unfold st1; fields. rewrite upd_other by exact Nc. exact X.
      - right; left. exists x. auto.
      - right; right. exists x. auto. }
    destruct (negb (filter_pass (f_type g))) eqn:Ef.
    + apply Keep; unfold st1; fields; auto. intros j Hj. apply callframe_type in Hj as [_ Ty].
      rewrite Ty, Hcallpass in Ef. discriminate.
    + destruct (target _ _ _).
      1,2: destruct (answer_frames st1 c g T_Error err_payload) as [_ [_ [_ [E4 [E5 [E6 _]]]]]];
           apply Keep; [rewrite E4; reflexivity|intros; rewrite E5; assumption|intros; rewrite E6; assumption
                       |intros; apply answer_keeps; assumption
                       |intros j Hj; apply callframe_type in Hj as [Tg Ty]; apply answer_in_flight; [exact Tg|rewrite Ty; discriminate]].
      all: apply Keep; unfold st1; fields; auto; [intros; apply in_or_app; auto|].
      all: intros j Hj; right; left; exists g; split; [apply in_or_app; right; left; reflexivity|exact Hj].
  - (* srvdrop *)
    unfold Call.do_srvdrop. destruct (c2s st c) as [|g q] eqn:E; [exact I|].
    set (st1 := set_c2s st (upd (c2s st) c q)).
    assert (Keep : forall st', calls st' = calls st ->
               (forall c0 x, In x (c2s st1 c0) -> In x (c2s st' c0)) ->
               (forall c0 x, In (c0, x) (mails st) -> In (c0, x) (mails st')) ->
               (forall c0 x, In x (s2c st c0) -> In x (s2c st' c0)) ->
               (forall j, is_callframe (TCall c j) g = true -> in_flight st' c j) -> invE st').
    { intros st' Ec H1 H2 H3 Hg c0 j W Ch. rewrite Ec in *. destruct (I c0 j W Ch) as [A B]. split; [exact A|].
      destruct B as [[x [X Y]]|[[x [X Y]]|[x [X Y]]]].
      - destruct (Nat.eq_dec c0 c) as [->|Nc].
        + rewrite E in X. destruct X as [<-|X]; [apply Hg, Y|]. left. exists x. split; [|exact Y].
          apply H1. unfold st1; fields. rewrite upd_same. exact X.
        + left. exists x. split; [|exact Y]. apply H1. unfold st1; fields. rewrite upd_other by exact Nc. exact X.
      - right; left. exists x. auto.
      - right; right. exists x. auto. }
    destruct (f_type g =? T_Call) eqn:Ty.
    + destruct (answer_frames st1 c g T_Error err_payload) as [_ [_ [_ [E4 [E5 [E6 _]]]]]].
      apply Keep; [rewrite E4; reflexivity|intros; rewrite E5; assumption|intros; rewrite E6; assumption
                  |intros; apply answer_keeps; assumption|].
      intros j Hj. apply callframe_type in Hj as [Tg Ty']. apply answer_in_flight; [exact Tg|rewrite Ty'; discriminate].
    + apply Keep; unfold st1; fields; auto. intros j Hj. apply callframe_type in Hj as [_ Ty']. rewrite Ty' in Ty. discriminate.
  - (* mbox *)
    unfold Call.do_mbox. destruct (take_mail s o (mails st)) as [[[c g] r]|] eqn:E; [|exact I].
    destruct (take_mail_spec _ _ _ _ _ _ E) as [Hin [Sub [Sup _]]].
    assert (Keep : forall st', calls st' = calls st ->
               (forall c0 x, In x (c2s st c0) -> In x (c2s st' c0)) ->
               (forall c0 x, In (c0, x) r -> In (c0, x) (mails st')) ->
               (forall c0 x, In x (s2c st c0) -> In x (s2c st' c0)) ->
               (forall j, is_callframe (TCall c j) g = true -> in_flight st' c j) -> invE st').
    { intros st' Ec H1 H2 H3 Hg c0 j W Ch. rewrite Ec in *. destruct (I c0 j W Ch) as [A B]. split; [exact A|].
      destruct B as [[x [X Y]]|[[x [X Y]]|[x [X Y]]]].
      - left. exists x. auto.
      - destruct (Sup _ X) as [X'|X'].
        + inversion X'; subst. apply Hg, Y.
        + right; left. exists x. auto.
      - right; right. exists x. auto. }
    assert (Ans : forall st1 ty p, calls st1 = calls st -> c2s st1 = c2s st -> mails st1 = r -> s2c st1 = s2c st ->
                    (forall j, is_callframe (TCall c j) g = true -> f_type g <> T_Post) -> invE (answer st1 c g ty p)).
    { intros st1 ty p E4 E5 E6 E7 HP. destruct (answer_frames st1 c g ty p) as [_ [_ [_ [A4 [A5 [A6 _]]]]]].
      apply Keep; [rewrite A4; exact E4|intros; rewrite A5, E5; assumption|intros; rewrite A6, E6; assumption
                  |intros; apply answer_keeps; rewrite E7; assumption|].
      intros j Hj. pose proof (HP j Hj) as NP. apply callframe_type in Hj as [Tg _]. now apply answer_in_flight. }
    assert (NP : forall j, is_callframe (TCall c j) g = true -> f_type g <> T_Post).
    { intros j Hj. apply callframe_type in Hj as [_ Ty]. rewrite Ty. discriminate. }
    destruct (negb (runs k (f_type g))) eqn:Er.
    + apply Keep; fields; auto. intros j Hj. apply callframe_type in Hj as [_ Ty]. unfold runs in Er. rewrite Ty in Er. discriminate.
    + destruct (target _ _ _); try (apply Ans; auto).
      destruct (negb (okargs _ _ _ _)); [apply Ans; auto|].
      destruct (f_type g =? T_Post) eqn:Ep.
      * apply Keep; fields; auto. intros j Hj. apply callframe_type in Hj as [_ Ty]. rewrite Ty in Ep. discriminate.
      * destruct (callerr _ _ _ _); apply Ans; auto.
  - (* cli *)
    unfold do_cli. destruct (s2c st c) as [|g q] eqn:Es; [exact I|].
    assert (Hin : In g (s2c st c)) by (rewrite Es; left; reflexivity).
    intros c0 j. fields.
    destruct (Nat.eqb c0 c && Nat.ltb j (issued st c) && hit (calls st c0 j) g) eqn:Eh.
    + cbn. destruct (k_chan (calls st c0 j)); discriminate.
    + intros W Ch. destruct (I c0 j W Ch) as [A B]. split; [exact A|].
      destruct B as [[x [X Y]]|[[x [X Y]]|[x [X Y]]]].
      * left. exists x. auto.
      * right; left. exists x. auto.
      * right; right. exists x. split; [|exact Y]. fields. destruct (Nat.eq_dec c0 c) as [->|Nc].
        -- rewrite upd_same. rewrite Es in X. destruct X as [<-|X]; [exfalso|exact X].
           pose proof (a_wait st IA c j W) as Sj. pose proof (sent_lt st c j IA Sj) as Lj.
           destruct (a_s2c st IA c g Hin) as [_ [Hcall _]]. destruct (Hcall j Y) as [_ Kk].
           rewrite Nat.eqb_refl in Eh. apply Nat.ltb_lt in Lj. rewrite Lj in Eh. cbn in Eh.
           unfold hit in Eh. rewrite A in Eh. cbn in Eh.
           assert (key_eqb (k_key (calls st c j)) (fkey g) = true) by (apply key_eqb_eq; congruence). congruence.
        -- rewrite upd_other by exact Nc. exact X.
Qed.

(* ---------- executions ---------- *)
Lemma issued_mono st l c : (issued st c <= issued (step st l) c)%nat.
Proof.
  destruct l as [c1 s o a p|c1 i|c1 i|c1 i|c1 ty s o a id p|c1|c1|s o|c1]; cbn [Call.step].
  - unfold do_alloc. destruct (rawc st c1); [lia|]. fields. unfold upd. destruct (Nat.eqb_spec c c1); subst; lia.
  - unfold do_send. destruct (_ && _); cbn; lia.
  - unfold do_return. destruct (k_chan _); [|lia]. destruct (k_waiting _); cbn; lia.
  - unfold do_cancel. destruct (k_waiting _); cbn; lia.
  - unfold do_raw. destruct (_ || _); cbn; lia.
  - unfold Call.do_srv. destruct (c2s st c1); [lia|]. destruct (negb _); [cbn; lia|].
    destruct (target _ _ _); try (destruct (answer_frames (set_c2s st (upd (c2s st) c1 l)) c1 f T_Error err_payload) as [_ [E _]]; rewrite E); cbn; lia.
  - unfold Call.do_srvdrop. destruct (c2s st c1); [lia|]. destruct (_ =? _); [|cbn; lia].
    destruct (answer_frames (set_c2s st (upd (c2s st) c1 l)) c1 f T_Error err_payload) as [_ [E _]]. rewrite E. cbn; lia.
  - unfold Call.do_mbox. destruct (take_mail _ _ _) as [[[c0 g] r]|]; [|lia].
    destruct (negb (runs _ _)); [cbn; lia|].
    destruct (target _ _ _);
      try (match goal with |- context [answer ?a ?b ?c ?d ?e] => destruct (answer_frames a b c d e) as [_ [E _]]; rewrite E end; cbn; lia).
    destruct (negb (okargs _ _ _ _)).
    + match goal with |- context [answer ?a ?b ?c ?d ?e] => destruct (answer_frames a b c d e) as [_ [E _]]; rewrite E end; cbn; lia.
    + destruct (_ =? _); [cbn; lia|]. destruct (callerr _ _ _ _);
      match goal with |- context [answer ?a ?b ?c ?d ?e] => destruct (answer_frames a b c d e) as [_ [E _]]; rewrite E end; cbn; lia.
  - unfold do_cli. destruct (s2c st c1); cbn; lia.
Qed.

Lemma issued_mono_exec ls : forall st c, (issued st c <= issued (exec st ls) c)%nat.
Proof.
  induction ls as [|l r IH]; intros st c; cbn [Call.exec]; [lia|].
  pose proof (issued_mono st l c). pose proof (IH (step st l) c). lia.
Qed.

Definition inv (st : state) : Prop := invA st /\ invB st /\ invC st /\ invD st.

Lemma inv_init : inv init.
Proof. split; [apply invA_init|]. split; [apply invB_init|]. split; [apply invC_init|apply invD_init]. Qed.

Lemma bounded_pre st l r : bounded (exec st (l :: r)) -> bounded st.
Proof. intros Bd c. pose proof (Bd c). pose proof (issued_mono_exec (l :: r) st c) as M. lia. Qed.

Lemma inv_step st l : inv st -> bounded st -> inv (step st l).
Proof.
  intros [IA [IB [IC ID]]] Bd.
  split; [now apply invA_step|]. split; [now apply invB_step|]. split; [now apply invC_step|now apply invD_step].
Qed.

Lemma inv_exec ls : forall st, inv st -> bounded (exec st ls) -> inv (exec st ls).
Proof.
  induction ls as [|l r IH]; intros st I Bd; [exact I|].
  pose proof (bounded_pre st l r Bd) as Bd0. cbn [Call.exec] in *. apply IH; [|exact Bd]. now apply inv_step.
Qed.

Lemma invE_exec ls : forall st, inv st -> invE st -> bounded (exec st ls) -> invE (exec st ls).
Proof.
  induction ls as [|l r IH]; intros st I IE Bd; [exact IE|].
  pose proof (bounded_pre st l r Bd) as Bd0. cbn [Call.exec] in *.
  apply IH; [now apply inv_step| |exact Bd]. destruct I as [IA _]. now apply invE_step.
Qed.

(* mailbox_once: the only step that changes an execution counter is the mailbox goroutine
   handling a mail whose frame type runs the method; it adds exactly one, to that mail's tag *)
Theorem mailbox_once : forall st l t,
  ex (step st l) t = ex st t \/
  exists s o c g r, l = LMbox s o /\ take_mail s o (mails st) = Some (c, g, r) /\ t = f_tag g /\
                    runs k (f_type g) = true /\ ex (step st l) t = S (ex st t).
Proof.
  intros st l t. destruct l as [c1 s o a p|c1 i|c1 i|c1 i|c1 ty s o a id p|c1|c1|s o|c1]; cbn [Call.step].
  - left. unfold do_alloc. destruct (rawc st c1); reflexivity.
  - left. unfold do_send. destruct (_ && _); reflexivity.
  - left. unfold do_return. destruct (k_chan _); [|reflexivity]. destruct (k_waiting _); reflexivity.
  - left. unfold do_cancel. destruct (k_waiting _); reflexivity.
  - left. unfold do_raw. destruct (_ || _); reflexivity.
  - left. unfold Call.do_srv. destruct (c2s st c1); [reflexivity|]. destruct (negb _); [reflexivity|].
    destruct (target _ _ _); try (match goal with |- context [answer ?a ?b ?c ?d ?e] => destruct (answer_frames a b c d e) as [_ [_ [_ [_ [_ [_ [_ [_ E]]]]]]]]; rewrite E end); reflexivity.
  - left. unfold Call.do_srvdrop. destruct (c2s st c1); [reflexivity|]. destruct (_ =? _); [|reflexivity].
    match goal with |- context [answer ?a ?b ?c ?d ?e] => destruct (answer_frames a b c d e) as [_ [_ [_ [_ [_ [_ [_ [_ E]]]]]]]]; rewrite E end. reflexivity.
  - unfold Call.do_mbox. destruct (take_mail s o (mails st)) as [[[c g] r]|] eqn:E; [|left; reflexivity].
    destruct (runs k (f_type g)) eqn:Er; cbn [negb]; [|left; reflexivity].
    destruct (target _ _ _);
      try (left; match goal with |- context [answer ?a ?b ?c ?d ?e] => destruct (answer_frames a b c d e) as [_ [_ [_ [_ [_ [_ [_ [_ X]]]]]]]]; rewrite X end; reflexivity).
    destruct (negb (okargs _ _ _ _)).
    + left. match goal with |- context [answer ?a ?b ?c ?d ?e] => destruct (answer_frames a b c d e) as [_ [_ [_ [_ [_ [_ [_ [_ X]]]]]]]]; rewrite X end. reflexivity.
    + assert (X : forall st', ex st' = updt (ex st) (f_tag g) (S (ex st (f_tag g))) ->
                   ex st' t = ex st t \/ exists s0 o0 c0 g0 r0, LMbox s o = LMbox s0 o0 /\ take_mail s0 o0 (mails st) = Some (c0, g0, r0) /\ t = f_tag g0 /\
                                            runs k (f_type g0) = true /\ ex st' t = S (ex st t)).
      { intros st' Ee. rewrite Ee. unfold updt. destruct (tag_eqb t (f_tag g)) eqn:Et; [|left; reflexivity].
        apply tag_eqb_eq in Et. subst t. right. exists s, o, c, g, r. auto. }
      destruct (f_type g =? T_Post); [apply X; reflexivity|].
      destruct (callerr _ _ _ _);
        match goal with |- context [answer ?a ?b ?c ?d ?e] => destruct (answer_frames a b c d e) as [_ [_ [_ [_ [_ [_ [_ [_ Y]]]]]]]] end;
        apply X; rewrite Y; reflexivity.
  - left. unfold do_cli. destruct (s2c st c1); reflexivity.
Qed.

(* ---------- C04: the composition ---------- *)
Theorem call_outcome : forall ls, let st := exec init ls in bounded st ->
  (* calls of the modelled clients *)
  (forall c i,
     (k_returns (calls st c i) <= 1)%nat /\
     (forall p, k_result (calls st c i) = Some (ROk p) ->
                p = expected (calls st c i) /\ ex st (TCall c i) = 1%nat) /\
     (ex st (TCall c i) <= 1)%nat /\
     (k_result (calls st c i) <> None -> k_returns (calls st c i) = 1%nat)) /\
  (* frames written by other peers: Call and Post run the method at most once, a Post is never
     answered, the other six types never run a method *)
  (forall c n,
     (ex st (TRaw c n) <= 1)%nat /\
     (rawty st c n = T_Post -> back st (TRaw c n) = O) /\
     (is_cp (rawty st c n) = false -> ex st (TRaw c n) = O)).
Proof.
  intros ls st Bd. destruct (inv_exec ls init inv_init Bd) as [IA [IB [IC ID]]]. fold st in IA, IB, IC, ID.
  split.
  - intros c i. split; [apply (d_ret st ID)|]. split; [apply (c_result st IC)|]. split.
    + pose proof (b_tok st IB (TCall c i)). lia.
    + intro H. destruct (k_returns (calls st c i)) as [|[|n]] eqn:E; [|reflexivity|pose proof (d_ret st ID c i); lia].
      exfalso. apply H, (d_res st ID), E.
  - intros c n. split; [pose proof (b_tok st IB (TRaw c n)); lia|]. split; [apply (b_post st IB)|].
    intro H. destruct (ex st (TRaw c n)) eqn:E; [reflexivity|].
    assert (P : (0 < ex st (TRaw c n))%nat) by lia. apply (b_excp st IB) in P. congruence.
Qed.

(* exactly one outcome: once the queues of a connection and the mailboxes hold nothing of it, every
   call sent on it has returned exactly once or its answer sits in its handler's queue (LReturn is
   enabled and makes it return) *)
Theorem call_exactly_one_when_drained : forall ls, let st := exec init ls in bounded st ->
  forall c i, k_sent (calls st c i) = true ->
    c2s st c = [] -> (forall g, ~ In (c, g) (mails st)) -> s2c st c = [] ->
    k_returns (calls st c i) = 1%nat \/
    (k_returns (calls st c i) = O /\ k_waiting (calls st c i) = true /\ exists g, k_chan (calls st c i) = Some g).
Proof.
  intros ls st Bd c i Hs E1 E2 E3. destruct (inv_exec ls init inv_init Bd) as [IA [IB [IC ID]]].
  pose proof (invE_exec ls init inv_init invE_init Bd) as IE. fold st in IA, IB, IC, ID, IE.
  destruct (k_waiting (calls st c i)) eqn:W; [|left; now apply (d_sent st ID)].
  right. split; [apply (d_wait st ID), W|]. split; [reflexivity|].
  destruct (k_chan (calls st c i)) as [g|] eqn:Ch; [now exists g|exfalso].
  destruct (IE c i W Ch) as [_ [[g [X _]]|[[g [X _]]|[g [X _]]]]].
  - rewrite E1 in X. destruct X.
  - apply (E2 g X).
  - rewrite E3 in X. destruct X.
Qed.


Lemma issued_step_le st l c : (issued (step st l) c <= S (issued st c))%nat.
Proof.
  destruct l as [c1 s o a p|c1 i|c1 i|c1 i|c1 ty s o a id p|c1|c1|s o|c1]; cbn [Call.step].
  - unfold do_alloc. destruct (rawc st c1); [lia|]. fields. unfold upd. destruct (Nat.eqb_spec c c1); subst; lia.
  - unfold do_send. destruct (_ && _); cbn; lia.
  - unfold do_return. destruct (k_chan _); [|lia]. destruct (k_waiting _); cbn; lia.
  - unfold do_cancel. destruct (k_waiting _); cbn; lia.
  - unfold do_raw. destruct (_ || _); cbn; lia.
  - unfold Call.do_srv. destruct (c2s st c1); [lia|]. destruct (negb _); [cbn; lia|].
    destruct (target _ _ _); try (destruct (answer_frames (set_c2s st (upd (c2s st) c1 l)) c1 f T_Error err_payload) as [_ [E _]]; rewrite E); cbn; lia.
  - unfold Call.do_srvdrop. destruct (c2s st c1); [lia|]. destruct (_ =? _); [|cbn; lia].
    destruct (answer_frames (set_c2s st (upd (c2s st) c1 l)) c1 f T_Error err_payload) as [_ [E _]]. rewrite E. cbn; lia.
  - unfold Call.do_mbox. destruct (take_mail _ _ _) as [[[c0 g] r]|]; [|lia].
    destruct (negb (runs _ _)); [cbn; lia|].
    destruct (target _ _ _);
      try (match goal with |- context [answer ?a ?b ?c ?d ?e] => destruct (answer_frames a b c d e) as [_ [E _]]; rewrite E end; cbn; lia).
    destruct (negb (okargs _ _ _ _)).
    + match goal with |- context [answer ?a ?b ?c ?d ?e] => destruct (answer_frames a b c d e) as [_ [E _]]; rewrite E end; cbn; lia.
    + destruct (_ =? _); [cbn; lia|]. destruct (callerr _ _ _ _);
      match goal with |- context [answer ?a ?b ?c ?d ?e] => destruct (answer_frames a b c d e) as [_ [E _]]; rewrite E end; cbn; lia.
  - unfold do_cli. destruct (s2c st c1); cbn; lia.
Qed.

Lemma issued_le_length ls : forall st c, (issued (exec st ls) c <= issued st c + List.length ls)%nat.
Proof.
  induction ls as [|l r IH]; intros st c; cbn [Call.exec List.length]; [lia|].
  pose proof (IH (step st l) c). pose proof (issued_step_le st l c). lia.
Qed.

(* a schedule of fewer than 2^31 labels cannot exhaust the id space *)
Lemma bounded_short ls : N.of_nat (List.length ls) <= 2 ^ 31 -> bounded (exec init ls).
Proof. intros H c. pose proof (issued_le_length ls init c) as L. cbn [issued init] in L. lia. Qed.


Lemma invA_exec ls : forall st, invA st -> invA (exec st ls).
Proof. induction ls as [|l r IH]; intros st I; cbn [Call.exec]; [exact I|]. apply IH. now apply invA_step. Qed.

Theorem dispatch_unique_reachable : forall ls, let st := exec init ls in bounded st ->
  forall c i j g, In g (s2c st c) -> (i < issued st c)%nat -> (j < issued st c)%nat ->
  hit (calls st c i) g = true -> hit (calls st c j) g = true ->
  i = j /\ f_tag g = TCall c i.
Proof.
  intros ls st Bd c i j g Hin Li Lj Hi Hj. pose proof (invA_exec ls init invA_init) as IA. fold st in IA.
  split; [eapply dispatch_unique; eauto|eapply hit_is_own; eauto].
Qed.

End Proofs.
