(* SignalsMain.v — C13 for the repaired configuration, over every run of the LTS. *)
From QV Require Import Signals SignalsLemmas SignalsStep SignalsInv1 SignalsInv2 SignalsInv3 SignalsInv4 SignalsInv5
  SignalsInv6 SignalsProofs.
Local Open Scope N_scope.

Record AllInv (st : state) : Prop := {
  i_uid : UidInv st; i_mid : MidInv st; i_cons : Conserve st; i_proto : Proto st; i_ack : AckInv st }.

Lemma AllInv_init : AllInv init.
Proof. split; [apply UidInv_init|apply MidInv_init|apply Conserve_init|apply Proto_init|apply AckInv_init]. Qed.

Lemma AllInv_step g st l st' : clean g -> AllInv st -> step g st l = Some st' -> AllInv st'.
Proof.
  intros Hg [I1 I2 I3 I4 I5] H. apply step_Step in H. pose proof Hg as (Hg1 & _ & _). split.
  - eapply UidInv_step; eassumption.
  - eapply MidInv_step; eassumption.
  - eapply Conserve_step; eassumption.
  - eapply Proto_step; eassumption.
  - eapply AckInv_step; eassumption.
Qed.

Lemma run_inv g tr : clean g -> forall st0 st, AllInv st0 -> run g st0 tr = Some st -> AllInv st.
Proof.
  intro Hg. induction tr as [|l r IH]; intros st0 st I H; cbn in H; [now injection H as <-|].
  destruct (step g st0 l) as [st1|] eqn:E; [|discriminate]. eapply IH; [|exact H]. eapply AllInv_step; eassumption.
Qed.

Lemma overflow_run g tr : forall st0 st, run g st0 tr = Some st -> overflow st = false -> overflow st0 = false.
Proof.
  induction tr as [|l r IH]; intros st0 st H Ho; cbn in H; [now injection H as ->|].
  destruct (step g st0 l) as [st1|] eqn:E; [|discriminate].
  eapply overflow_mono; [apply step_Step; exact E|]. eapply IH; eassumption.
Qed.

Lemma run_deliv g tr : clean g -> forall st0 st, AllInv st0 -> Deliv st0 -> run g st0 tr = Some st ->
  overflow st = false -> Deliv st.
Proof.
  intro Hg. induction tr as [|l r IH]; intros st0 st I D H Ho; cbn in H; [now injection H as <-|].
  destruct (step g st0 l) as [st1|] eqn:E; [|discriminate].
  eapply IH; [eapply AllInv_step; eassumption| |exact H|exact Ho].
  eapply Deliv_step; [exact Hg|apply i_proto; exact I|exact D|apply step_Step; exact E|].
  eapply overflow_run; eassumption.
Qed.

(* ---- C13, main statement: exactly once, in order, emitted payload, nothing foreign; the
        emissions of the window are a contiguous part of what the subscriber receives ---- *)
Theorem c13_delivery g tr st s x :
  clean g -> run g init tr = Some st -> overflow st = false ->
  nth_error (subs st) s = Some x ->
  delivery_ok st x /\ prefix_ok x /\ window_ok x /\ (s_pc x = PAcked -> s_ackd x = true).
Proof.
  intros Hg Hr Ho Hx.
  pose proof (run_deliv g tr Hg init st AllInv_init Deliv_init Hr Ho s x Hx) as (D1 & D2 & D3 & D4).
  repeat split.
  - exact D1.
  - unfold prefix_ok. destruct (live (s_pc x)) eqn:L; [eexists; apply D1; reflexivity|now apply D2].
  - exact D4.
  - exact D3.
Qed.

(* a subscriber between acknowledgement and cancel request is registered at the object,
   by exactly one entry of the table *)
Theorem c13_registered_while_acked g tr st s x :
  clean g -> run g init tr = Some st -> nth_error (subs st) s = Some x -> s_pc x = PAcked ->
  List.length (ents (table st) (s_conn x) (s_sig x)) = 1%nat.
Proof.
  intros Hg Hr Hx Hp. pose proof (run_inv g tr Hg init st AllInv_init Hr) as [_ _ _ [PK _ _] _].
  apply keyinv_acked_registered; [apply PK|]. eapply cnt_In; [eapply nth_error_In; exact Hx|].
  unfold pcb. now rewrite on_key_refl, Hp.
Qed.

(* after the reply that acknowledged the removal of a registration no event frame of that
   registration is written on that connection *)
Theorem c13_no_event_after_unregister_reply g tr st c :
  clean g -> run g init tr = Some st -> no_event_after_ack [] (dlog st c) = true.
Proof. intros Hg Hr. apply a_log. apply (i_ack _ (run_inv g tr Hg init st AllInv_init Hr)). Qed.
