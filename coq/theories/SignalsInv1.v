(* SignalsInv1.v — invariants of the LTS of Signals.v that hold for every configuration:
   handler ids / message ids in the table and in flight are pairwise distinct per connection and
   were drawn / allocated by that client. *)
From QV Require Import Signals SignalsLemmas SignalsStep.
From Coq Require Import Permutation.
Local Open Scope N_scope.

Ltac psimpl := cbn [st_install st_count_first st_count_more st_send_reg st_mbox st_mbox_deadlock st_reply st_emit_snap
  st_emit_send st_pop_down st_recv_event st_recv_answer st_cancel_last st_cancel_more st_send_unreg
  set_sub set_cl set_race push_up push_down release
  subs cl up down table pend emit dead stuck overflow nconn dlog ulog elog race17] in *.

Definition conn_ents (t : list user) (c : nat) : list user := filter (fun u => Nat.eqb (u_conn u) c) t.

(* l' is l with some elements removed, up to order *)
Definition subperm {A} (l l' : list A) : Prop := exists r, Permutation l (r ++ l').
Lemma subperm_refl {A} (l : list A) : subperm l l.
Proof. exists []. apply Permutation_refl. Qed.
Lemma subperm_NoDup {A} (l l' : list A) : subperm l l' -> NoDup l -> NoDup l'.
Proof. intros [r P] H. apply (Permutation_NoDup P) in H. now apply NoDup_app_r in H. Qed.
Lemma subperm_In {A} (l l' : list A) x : subperm l l' -> In x l' -> In x l.
Proof. intros [r P] H. apply (Permutation_in _ (Permutation_sym P)). apply in_or_app. now right. Qed.
Lemma subperm_perm {A} (l l' : list A) : Permutation l l' -> subperm l l'.
Proof. intro P. exists []. exact P. Qed.
Lemma subperm_cons {A} (x : A) l : subperm (x :: l) l.
Proof. exists [x]. apply Permutation_refl. Qed.

Lemma conn_ents_app t t' c : conn_ents (t ++ t') c = conn_ents t c ++ conn_ents t' c.
Proof. apply filter_app. Qed.
Lemma conn_ents_swap_remove t i e c : nth_error t i = Some e ->
  Permutation (conn_ents t c) (conn_ents (e :: swap_remove t i) c).
Proof. intro H. apply Permutation_filter. now apply swap_remove_perm. Qed.

Lemma perm_drop_mid {A} (a a' r rest : list A) k :
  Permutation a (r ++ a') -> Permutation (a ++ k :: rest) ((k :: r) ++ a' ++ rest).
Proof.
  intro P. apply Permutation_trans with (k :: a ++ rest); [apply Permutation_sym, Permutation_middle|].
  cbn. constructor. rewrite app_assoc. now apply Permutation_app_tail.
Qed.

Section Keys.
  Variable ku : user -> N.
  Variable kf : N -> N -> N -> N.            (* key of the frame UReg m sig h *)
  Variable known : cstate -> N -> Prop.
  Hypothesis ku_new : forall c m sig h, ku (new_user c m sig h) = kf m sig h.
  Hypothesis known_count : forall k sig n x, known k x -> known (with_count k sig n) x.
  Hypothesis known_lock : forall k sig b x, known k x -> known (with_lock k sig b) x.
  Hypothesis known_reg : forall k sig h x, known k x ->
    known {| c_count := c_count k; c_hid := nupd (c_hid k) sig (c_hid k sig + h); c_lock := c_lock k;
             c_mid := c_mid k + 2; c_drawn := h :: c_drawn k |} x.
  Hypothesis fresh_reg : forall k sig h, h <> 0 -> ~ In h (c_drawn k) ->
    ~ known k (kf (c_mid k + 2) sig h) /\
    known {| c_count := c_count k; c_hid := nupd (c_hid k) sig (c_hid k sig + h); c_lock := c_lock k;
             c_mid := c_mid k + 2; c_drawn := h :: c_drawn k |} (kf (c_mid k + 2) sig h).
  Hypothesis known_unreg : forall k sig x, known k x ->
    known {| c_count := c_count k; c_hid := nupd (c_hid k) sig 0; c_lock := c_lock k;
             c_mid := c_mid k + 2; c_drawn := c_drawn k |} x.

  Definition fkeys (l : list uframe) : list N :=
    flat_map (fun f => match f with UReg m s h => [kf m s h] | UUnreg _ _ _ => [] end) l.
  Definition keys (st : state) (c : nat) : list N := map ku (conn_ents (table st) c) ++ fkeys (up st c).
  Definition KInv (st : state) : Prop :=
    forall c, NoDup (keys st c) /\ forall k, In k (keys st c) -> known (cl st c) k.

  Lemma fkeys_app a b : fkeys (a ++ b) = fkeys a ++ fkeys b.
  Proof. apply flat_map_app. Qed.

  Lemma KInv_init : KInv init.
  Proof. intro c. split; [constructor|intros k []]. Qed.

  (* a step that leaves cl c alone (or only grows what is known) and whose keys are a sub-multiset *)
  Lemma KInv_sub st st' :
    KInv st ->
    (forall c, subperm (keys st c) (keys st' c)) ->
    (forall c k, known (cl st c) k -> known (cl st' c) k) ->
    KInv st'.
  Proof.
    intros H Hs Hk c. destruct (H c) as [Hn Hin]. split.
    - eapply subperm_NoDup; [apply Hs|exact Hn].
    - intros k Hk'. apply Hk, Hin. eapply subperm_In; [apply Hs|exact Hk'].
  Qed.

  Lemma keys_same_tables st st' c : table st' = table st -> up st' c = up st c -> keys st' c = keys st c.
  Proof. unfold keys. now intros -> ->. Qed.

  Lemma known_fupd (f : nat -> cstate) c0 k' c x :
    (known (f c0) x -> known k' x) -> known (f c) x -> known (fupd f c0 k' c) x.
  Proof. intros H Hx. unfold fupd. destruct (Nat.eqb c c0) eqn:E; [apply Nat.eqb_eq in E; subst; auto|exact Hx]. Qed.

  Lemma KInv_step g st l st' : KInv st -> Step g st l st' -> KInv st'.
  Proof.
    intros H HS. inversion HS; subst; clear HS.
    - (* install *) eapply KInv_sub; [exact H| |]; intros; psimpl; [apply subperm_refl|assumption].
    - eapply KInv_sub; [exact H| |]; intros; psimpl; [apply subperm_refl|].
      apply known_fupd; [|assumption]. intro; now apply known_lock, known_count.
    - eapply KInv_sub; [exact H| |]; intros; psimpl; [apply subperm_refl|].
      apply known_fupd; [|assumption]. intro; now apply known_count.
    - (* send reg *)
      intro c. destruct (H c) as [Hn Hin]. unfold keys in *. psimpl.
      destruct (Nat.eq_dec c (s_conn x)) as [->|Ne].
      + rewrite !fupd_eq. rewrite fkeys_app. cbn [fkeys flat_map app].
        destruct (fresh_reg (cl st (s_conn x)) (s_sig x) h) as [F1 F2]; [assumption|assumption|].
        split.
        * rewrite app_assoc. idtac.
          apply Permutation_NoDup with (l := kf (c_mid (cl st (s_conn x)) + 2) (s_sig x) h :: (map ku (conn_ents (table st) (s_conn x)) ++ fkeys (up st (s_conn x)))).
          -- apply Permutation_cons_append.
          -- constructor; [|exact Hn]. intro Hk. apply F1. now apply Hin.
        * intros k Hk. rewrite app_assoc in Hk. apply in_app_or in Hk as [Hk|[<-|[]]]; [|exact F2].
          apply known_reg. now apply Hin.
      + rewrite !fupd_neq by exact Ne. split; assumption.
    - (* mbox reg *)
      eapply KInv_sub; [exact H| |]; intros; psimpl; [|assumption].
      unfold keys. psimpl. destruct (Nat.eq_dec c0 c) as [->|Ne].
      + rewrite fupd_eq, conn_ents_app. cbn [conn_ents filter new_user u_conn]. rewrite Nat.eqb_refl.
        rewrite H3. cbn [fkeys flat_map app]. rewrite map_app. cbn [map]. rewrite ku_new.
        apply subperm_perm. rewrite <- app_assoc. apply Permutation_app_head. cbn.
        apply Permutation_refl.
      + rewrite fupd_neq by exact Ne. rewrite conn_ents_app. cbn [conn_ents filter new_user u_conn].
        rewrite (proj2 (Nat.eqb_neq c c0)) by congruence. rewrite app_nil_r. apply subperm_refl.
    - (* mbox deadlock *)
      destruct (find_idx_some _ _ _ H5) as (e & Ee & _).
      eapply KInv_sub; [exact H| |]; intros; psimpl; [|assumption].
      unfold keys. psimpl.
      assert (P : subperm (map ku (conn_ents (table st) c0)) (map ku (conn_ents (swap_remove (table st) i) c0))).
      { pose proof (conn_ents_swap_remove _ _ _ c0 Ee) as P. cbn [conn_ents filter] in P.
        destruct (Nat.eqb (u_conn e) c0).
        - exists [ku e]. cbn. apply (Permutation_map ku) in P. exact P.
        - apply subperm_perm. now apply Permutation_map. }
      destruct P as [r P]. destruct (Nat.eq_dec c0 c) as [->|Ne].
      + rewrite fupd_eq, H3. cbn [fkeys flat_map app]. exists (kf m sig uid :: r).
        now apply perm_drop_mid.
      + rewrite fupd_neq by exact Ne. exists r. rewrite app_assoc. now apply Permutation_app_tail.
    - (* mbox reg err *)
      eapply KInv_sub; [exact H| |]; intros; psimpl; [|assumption].
      unfold keys. psimpl. destruct (Nat.eq_dec c0 c) as [->|Ne].
      + rewrite fupd_eq, H3. cbn [fkeys flat_map app]. exists [kf m sig uid].
        cbn. apply Permutation_sym, Permutation_middle.
      + rewrite fupd_neq by exact Ne. apply subperm_refl.
    - (* mbox unreg *)
      destruct (find_idx_some _ _ _ H5) as (e & Ee & _).
      eapply KInv_sub; [exact H| |]; intros; psimpl; [|assumption].
      unfold keys. psimpl.
      assert (P : subperm (map ku (conn_ents (table st) c0)) (map ku (conn_ents (swap_remove (table st) i) c0))).
      { pose proof (conn_ents_swap_remove _ _ _ c0 Ee) as P. cbn [conn_ents filter] in P.
        destruct (Nat.eqb (u_conn e) c0).
        - exists [ku e]. cbn. apply (Permutation_map ku) in P. exact P.
        - apply subperm_perm. now apply Permutation_map. }
      destruct P as [r P]. destruct (Nat.eq_dec c0 c) as [->|Ne].
      + rewrite fupd_eq, H3. cbn [fkeys flat_map app]. exists r.
        rewrite app_assoc. now apply Permutation_app_tail.
      + rewrite fupd_neq by exact Ne. exists r. rewrite app_assoc. now apply Permutation_app_tail.
    - (* mbox unreg err *)
      eapply KInv_sub; [exact H| |]; intros; psimpl; [|assumption].
      unfold keys. psimpl. destruct (Nat.eq_dec c0 c) as [->|Ne].
      + rewrite fupd_eq, H3. cbn [fkeys flat_map app]. apply subperm_refl.
      + rewrite fupd_neq by exact Ne. apply subperm_refl.
    - eapply KInv_sub; [exact H| |]; intros; psimpl; [apply subperm_refl|assumption].
    - eapply KInv_sub; [exact H| |]; intros; psimpl; [apply subperm_refl|assumption].
    - eapply KInv_sub; [exact H| |]; intros; psimpl; [apply subperm_refl|assumption].
    - eapply KInv_sub; [exact H| |]; intros; psimpl; [apply subperm_refl|assumption].
    - eapply KInv_sub; [exact H| |]; intros; psimpl; [apply subperm_refl|assumption].
    - eapply KInv_sub; [exact H| |]; intros; psimpl; [apply subperm_refl|].
      apply known_fupd; [|assumption]. intro; now apply known_lock.
    - eapply KInv_sub; [exact H| |]; intros; psimpl; [apply subperm_refl|].
      apply known_fupd; [|assumption]. intro; now apply known_lock, known_count.
    - eapply KInv_sub; [exact H| |]; intros; psimpl; [apply subperm_refl|].
      apply known_fupd; [|assumption]. intro; now apply known_count.
    - (* send unreg *)
      eapply KInv_sub; [exact H| |]; intros; psimpl.
      + unfold keys. psimpl. destruct (Nat.eq_dec c (s_conn x)) as [->|Ne].
        * rewrite !fupd_eq, fkeys_app. cbn [fkeys flat_map app]. rewrite app_nil_r. apply subperm_refl.
        * rewrite !fupd_neq by exact Ne. apply subperm_refl.
      + apply known_fupd; [|assumption]. intro; now apply known_unreg.
    - eapply KInv_sub; [exact H| |]; intros; psimpl; [apply subperm_refl|assumption].
    - eapply KInv_sub; [exact H| |]; intros; psimpl; [apply subperm_refl|assumption].
  Qed.
End Keys.

(* handler ids: distinct per connection among table entries and registrations in flight, all drawn by that client *)
Definition UidInv : state -> Prop := KInv u_uid (fun _ _ h => h) (fun k h => In h (c_drawn k)).
Lemma UidInv_init : UidInv init. Proof. apply KInv_init. Qed.
Lemma UidInv_step g st l st' : UidInv st -> Step g st l st' -> UidInv st'.
Proof.
  apply KInv_step; cbn; intros; auto.
Qed.

(* message ids of registrations: distinct per connection, allocated by that client *)
Definition MidInv : state -> Prop := KInv u_mid (fun m _ _ => m) (fun k m => m <= c_mid k).
Lemma MidInv_init : MidInv init. Proof. apply KInv_init. Qed.
Lemma MidInv_step g st l st' : MidInv st -> Step g st l st' -> MidInv st'.
Proof.
  apply KInv_step; cbn; intros; try assumption; try lia.
Qed.

(* with ids compared per connection, a registerEvent call in flight never meets a known id *)
Lemma clean_no_dup g st c m sig uid rest i :
  uid_global g = false -> UidInv st -> up st c = UReg m sig uid :: rest ->
  find_idx (same_user g c uid) (table st) = Some i -> False.
Proof.
  intros Hg H Hu Hf. destruct (find_idx_some _ _ _ Hf) as (e & Ee & Se).
  unfold same_user in Se. rewrite Hg in Se. cbn [orb] in Se. apply andb_prop in Se as [S1 S2].
  apply N.eqb_eq in S1. destruct (H c) as [Hn _]. unfold keys in Hn. rewrite Hu in Hn. cbn [fkeys flat_map app] in Hn.
  eapply NoDup_app_disj; [exact Hn| |now left].
  rewrite <- S1. apply in_map. unfold conn_ents. apply filter_In. split; [eapply nth_error_In; exact Ee|exact S2].
Qed.
