(* PegProofs.v — lemmas about the combinators of Peg.v, stated on the result component
   ([fst]) of a parser; the step counter is handled separately. *)
From Coq Require Import String Ascii List NArith Bool Arith Lia.
From QV Require Import Peg.
Import ListNotations.
Local Open Scope string_scope.

(* ---------- strings ---------- *)
Lemma sapp_assoc (a b c : string) : (a ++ b) ++ c = a ++ (b ++ c).
Proof. induction a as [|x a IH]; cbn; [reflexivity|now rewrite IH]. Qed.

Lemma sapp_nil_r (a : string) : a ++ "" = a.
Proof. induction a as [|x a IH]; cbn; [reflexivity|now rewrite IH]. Qed.

Lemma slen_app (a b : string) : String.length (a ++ b) = String.length a + String.length b.
Proof. induction a as [|x a IH]; cbn; [reflexivity|now rewrite IH]. Qed.

Lemma sconcat_cons (x : string) (xs : list string) : String.concat "" (x :: xs) = x ++ String.concat "" xs.
Proof. destruct xs as [|y ys]; cbn; [now rewrite sapp_nil_r|reflexivity]. Qed.

Fixpoint all_chars_p (p : ascii -> bool) (s : string) : bool :=
  match s with EmptyString => true | String c r => p c && all_chars_p p r end.

Lemma span_app p a c x : all_chars_p p a = true -> p c = false -> span p (a ++ String c x) = (a, String c x).
Proof.
  induction a as [|y a IH]; cbn; intros Ha Hc.
  - now rewrite Hc.
  - apply andb_prop in Ha as [Hy Ha]. rewrite Hy, IH by assumption. reflexivity.
Qed.

Lemma span_app_nil p a : all_chars_p p a = true -> span p a = (a, "").
Proof.
  induction a as [|y a IH]; cbn; intro Ha; [reflexivity|].
  apply andb_prop in Ha as [Hy Ha]. now rewrite Hy, IH.
Qed.

Lemma span_spec p s a b : span p s = (a, b) ->
  s = a ++ b /\ all_chars_p p a = true /\ match b with String c _ => p c = false | EmptyString => True end.
Proof.
  revert a b; induction s as [|c s IH]; cbn; intros a b H.
  - inversion H; subst. cbn. auto.
  - destruct (p c) eqn:Hc.
    + destruct (span p s) as [a' b'] eqn:E. inversion H; subst.
      destruct (IH a' b eq_refl) as (H1 & H2 & H3). subst s. cbn. rewrite Hc, H2. auto.
    + inversion H; subst. cbn. auto.
Qed.

Lemma skip_ws_len s : String.length (skip_ws s) <= String.length s.
Proof. induction s as [|c s IH]; cbn; [lia|]. destruct (is_ws c); cbn; lia. Qed.

Lemma strip_prefix_len m s r : strip_prefix m s = Some r -> String.length r + String.length m = String.length s.
Proof.
  revert s; induction m as [|a m IH]; cbn; intros s H.
  - inversion H; subst; lia.
  - destruct s as [|b s]; [discriminate|]. destruct (Ascii.eqb a b); [|discriminate].
    apply IH in H. cbn. lia.
Qed.

Section PegProofs.
Context {V : Type}.
Notation node := (node V).
Notation parser := (parser V).
Notation callback := (callback V).

(* ---------- results of the combinators ---------- *)
Definition lift {A B} (f : A -> B) (r : res A) : res B :=
  match r with Ok a s => Ok (f a) s | Fail => Fail | NoFuel => NoFuel | Hang => Hang end.

Lemma and_loop_nil s : fst (@and_loop V [] s) = Ok [] s.
Proof. reflexivity. Qed.

Lemma and_loop_cons_ok (p : parser) ps s n r : fst (p s) = Ok n r ->
  fst (and_loop (p :: ps) s) = lift (cons n) (fst (and_loop ps r)).
Proof.
  intro H. cbn. destruct (p s) as [x k]. cbn in H. subst x.
  destruct (and_loop ps r) as [[ns r'| | |] k']; reflexivity.
Qed.

Lemma and_loop_cons_fail (p : parser) ps s : fst (p s) = Fail -> fst (and_loop (p :: ps) s) = Fail.
Proof. intro H. cbn. destruct (p s) as [x k]. cbn in H. now subst x. Qed.

Lemma pand_fst cb (ps : list parser) s : fst (pand cb ps s) = lift (docb cb) (fst (and_loop ps s)).
Proof. unfold pand. destruct (and_loop ps s) as [[ns r| | |] k]; reflexivity. Qed.

Lemma por_nil cb s : fst (@por V cb [] s) = Fail.
Proof. reflexivity. Qed.

Lemma por_cons_ok cb (p : parser) ps s n r : fst (p s) = Ok n r -> fst (por cb (p :: ps) s) = Ok (docb cb [n]) r.
Proof. intro H. cbn. destruct (p s) as [x k]. cbn in H. now subst x. Qed.

Lemma por_cons_fail cb (p : parser) ps s : fst (p s) = Fail -> fst (por cb (p :: ps) s) = fst (por cb ps s).
Proof.
  intro H. cbn. destruct (p s) as [x k]. cbn in H. subst x.
  destruct (por cb ps s) as [y k']. reflexivity.
Qed.

Lemma kleene_loop_S n (p : parser) cur : kleene_loop (S n) p cur =
  match p cur with
  | (Ok x r, k) =>
      if Nat.ltb (String.length r) (String.length cur) then
        match kleene_loop n p r with
        | (Ok xs r', k') => (Ok (x :: xs) r', (k + k')%N)
        | (Fail, k') => (Fail, (k + k')%N)
        | (NoFuel, k') => (NoFuel, (k + k')%N)
        | (Hang, k') => (Hang, (k + k')%N)
        end
      else (Hang, k)
  | (Fail, k) => (Ok [] cur, k)
  | (NoFuel, k) => (NoFuel, k)
  | (Hang, k) => (Hang, k)
  end.
Proof. reflexivity. Qed.

Lemma kleene_loop_ok n (p : parser) s x r : fst (p s) = Ok x r -> String.length r < String.length s ->
  fst (kleene_loop (S n) p s) = lift (cons x) (fst (kleene_loop n p r)).
Proof.
  intros H Hl. rewrite kleene_loop_S. destruct (p s) as [y k]. cbn in H. subst y.
  apply Nat.ltb_lt in Hl. rewrite Hl.
  destruct (kleene_loop n p r) as [[xs r'| | |] k']; reflexivity.
Qed.

Lemma kleene_loop_fail n (p : parser) s : fst (p s) = Fail -> fst (kleene_loop (S n) p s) = Ok [] s.
Proof. intro H. rewrite kleene_loop_S. destruct (p s) as [y k]. cbn in H. now subst y. Qed.

Lemma kleene_fst cb (p : parser) s :
  fst (kleene cb p s) = lift (docb cb) (fst (kleene_loop (S (String.length s)) p s)).
Proof. unfold kleene. destruct (kleene_loop _ p s) as [[ns r| | |] k]; reflexivity. Qed.

Lemma maybe_ok cb (p : parser) s n r : fst (p s) = Ok n r -> fst (maybe cb p s) = Ok (docb cb [n]) r.
Proof. intro H. unfold maybe. destruct (p s) as [x k]. cbn in H. now subst x. Qed.

Lemma maybe_fail cb (p : parser) s : fst (p s) = Fail -> fst (maybe cb p s) = Ok NNone s.
Proof. intro H. unfold maybe. destruct (p s) as [x k]. cbn in H. now subst x. Qed.

(* ---------- inversion ---------- *)
(* what a successful And says about its children *)
Inductive and_ok : list parser -> string -> list node -> string -> Prop :=
| and_ok_nil s : and_ok [] s [] s
| and_ok_cons (p : parser) ps s n s1 ns r :
    fst (p s) = Ok n s1 -> and_ok ps s1 ns r -> and_ok (p :: ps) s (n :: ns) r.

Lemma and_loop_inv ps s ns r : fst (and_loop ps s) = Ok ns r -> and_ok ps s ns r.
Proof.
  revert s ns r; induction ps as [|p ps IH]; cbn; intros s ns r H.
  - inversion H; subst. constructor.
  - destruct (p s) as [[n s1| | |] k] eqn:E; cbn in H; try discriminate.
    destruct (and_loop ps s1) as [[ns' r'| | |] k'] eqn:E2; cbn in H; try discriminate.
    inversion H; subst. econstructor; [now rewrite E|]. apply IH. now rewrite E2.
Qed.

Lemma pand_inv cb ps s n r : fst (pand cb ps s) = Ok n r -> exists ns, and_ok ps s ns r /\ n = docb cb ns.
Proof.
  rewrite pand_fst. destruct (fst (and_loop ps s)) as [ns r'| | |] eqn:E; cbn; intro H; try discriminate.
  inversion H; subst. exists ns. split; [now apply and_loop_inv|reflexivity].
Qed.

Lemma por_inv cb ps s n r : fst (por cb ps s) = Ok n r ->
  exists (p : parser) m, In p ps /\ fst (p s) = Ok m r /\ n = docb cb [m].
Proof.
  induction ps as [|p ps IH]; cbn; intro H; [discriminate|].
  destruct (p s) as [[m s1| | |] k] eqn:E; cbn in H; try discriminate.
  - inversion H; subst. exists p, m. rewrite E. auto.
  - destruct (por cb ps s) as [y k'] eqn:E2. cbn in H, IH. destruct (IH H) as (q & m & Hin & Hq & Hn).
    exists q, m. auto.
Qed.

Lemma kleene_loop_inv n (p : parser) s ns r : fst (kleene_loop n p s) = Ok ns r ->
  Forall (fun x => exists s1 s2, fst (p s1) = Ok x s2) ns /\ String.length r <= String.length s.
Proof.
  revert s ns r; induction n as [|n IH]; intros s ns r H; [discriminate|].
  rewrite kleene_loop_S in H.
  destruct (p s) as [[x s1| | |] k] eqn:E; cbn [fst] in H; try discriminate.
  - destruct (Nat.ltb (String.length s1) (String.length s)) eqn:Hl; cbn [fst] in H; [|discriminate].
    destruct (kleene_loop n p s1) as [[xs r'| | |] k'] eqn:E2; cbn [fst] in H; try discriminate.
    inversion H; subst. destruct (IH s1 xs r) as [HF HL]; [now rewrite E2|].
    apply Nat.ltb_lt in Hl. split; [|lia].
    constructor; [|assumption]. exists s, s1. now rewrite E.
  - inversion H; subst. split; [constructor|lia].
Qed.

Lemma kleene_inv cb (p : parser) s n r : fst (kleene cb p s) = Ok n r ->
  exists ns, n = docb cb ns /\ Forall (fun x => exists s1 s2, fst (p s1) = Ok x s2) ns /\
             String.length r <= String.length s.
Proof.
  rewrite kleene_fst. destruct (fst (kleene_loop _ p s)) as [ns r'| | |] eqn:E; cbn; intro H; try discriminate.
  inversion H; subst. exists ns. apply kleene_loop_inv in E. tauto.
Qed.

(* ---------- termination: no NoFuel / Hang, and the rest never grows ---------- *)
(* on inputs of length <= L the parser answers Ok or Fail, and an Ok rest is no longer than
   the input (good) / strictly shorter (goodS) *)
Definition good (p : parser) (L : nat) : Prop :=
  forall s, String.length s <= L ->
    match fst (p s) with Ok _ r => String.length r <= String.length s | Fail => True | _ => False end.
Definition goodS (p : parser) (L : nat) : Prop :=
  forall s, String.length s <= L ->
    match fst (p s) with Ok _ r => String.length r < String.length s | Fail => True | _ => False end.

Lemma goodS_good p L : goodS p L -> good p L.
Proof. intros H s Hs. specialize (H s Hs). destruct (fst (p s)); auto; lia. Qed.

Lemma good_le p L L' : good p L -> L' <= L -> good p L'.
Proof. intros H Hle s Hs. apply H; lia. Qed.
Lemma goodS_le p L L' : goodS p L -> L' <= L -> goodS p L'.
Proof. intros H Hle s Hs. apply H; lia. Qed.

Lemma atom_goodS m L : m <> "" -> goodS (@atom V m) L.
Proof.
  intros Hm s _. unfold atom. destruct (strip_prefix m (skip_ws s)) as [r|] eqn:E; cbn; [|exact I].
  apply strip_prefix_len in E. pose proof (skip_ws_len s). destruct m; [congruence|]. cbn in E. lia.
Qed.

Lemma token1_goodS p1 p2 L : goodS (@token1 V p1 p2) L.
Proof.
  intros s _. unfold token1. pose proof (skip_ws_len s) as Hw.
  destruct (skip_ws s) as [|c r]; cbn; [exact I|].
  destruct (p1 c); cbn; [|exact I].
  destruct (span p2 r) as [a b] eqn:E. cbn. apply span_spec in E as (E & _ & _). subst r.
  cbn in Hw. rewrite slen_app in Hw. lia.
Qed.

Lemma and_loop_good ps L : Forall (fun p => good p L) ps ->
  forall s, String.length s <= L ->
    match fst (and_loop ps s) with Ok _ r => String.length r <= String.length s | Fail => True | _ => False end.
Proof.
  induction 1 as [|p ps Hp HF IH]; intros s Hs; cbn; [lia|].
  specialize (Hp s Hs). destruct (p s) as [[n s1| | |] k]; cbn in Hp |- *; try tauto.
  specialize (IH s1 ltac:(lia)). destruct (and_loop ps s1) as [[ns r| | |] k']; cbn in IH |- *; try tauto. lia.
Qed.

Lemma pand_good cb ps L : Forall (fun p => good p L) ps -> good (pand cb ps) L.
Proof.
  intros HF s Hs. rewrite pand_fst. pose proof (and_loop_good ps L HF s Hs) as H.
  destruct (fst (and_loop ps s)); cbn; auto.
Qed.

(* an And whose first child always consumes: the others only see strictly shorter inputs *)
Lemma pand_goodS cb (p : parser) ps L :
  goodS p L -> (forall L', L' < L -> Forall (fun q => good q L') ps) -> goodS (pand cb (p :: ps)) L.
Proof.
  intros Hp HF s Hs. rewrite pand_fst. cbn [and_loop].
  specialize (Hp s Hs). destruct (p s) as [[n s1| | |] k]; cbn in Hp |- *; try tauto.
  pose proof (and_loop_good ps (String.length s1) (HF (String.length s1) ltac:(lia)) s1 (le_n _)) as H.
  destruct (and_loop ps s1) as [[ns r| | |] k']; cbn in H |- *; try tauto. lia.
Qed.

Lemma por_good cb ps L : Forall (fun p => good p L) ps -> good (por cb ps) L.
Proof.
  induction 1 as [|p ps Hp HF IH]; intros s Hs; cbn; [exact I|].
  specialize (Hp s Hs). destruct (p s) as [[n s1| | |] k]; cbn in Hp |- *; try tauto.
  specialize (IH s Hs). destruct (por cb ps s) as [y k']. exact IH.
Qed.

Lemma por_goodS cb ps L : Forall (fun p => goodS p L) ps -> goodS (por cb ps) L.
Proof.
  induction 1 as [|p ps Hp HF IH]; intros s Hs; cbn; [exact I|].
  specialize (Hp s Hs). destruct (p s) as [[n s1| | |] k]; cbn in Hp |- *; try tauto.
  specialize (IH s Hs). destruct (por cb ps s) as [y k']. exact IH.
Qed.

Lemma kleene_loop_good n (p : parser) L : goodS p L ->
  forall s, String.length s <= L -> String.length s < n ->
    match fst (kleene_loop n p s) with Ok _ r => String.length r <= String.length s | _ => False end.
Proof.
  intro Hp. induction n as [|n IH]; intros s Hs Hn; [lia|]. rewrite kleene_loop_S.
  pose proof (Hp s Hs) as H. destruct (p s) as [[x s1| | |] k]; cbn [fst] in H |- *; try tauto; [|lia].
  pose proof H as Hlt. apply Nat.ltb_lt in Hlt. rewrite Hlt.
  specialize (IH s1 ltac:(lia) ltac:(lia)).
  destruct (kleene_loop n p s1) as [[xs r| | |] k']; cbn in IH |- *; try tauto. lia.
Qed.

Lemma kleene_good cb (p : parser) L : goodS p L -> good (kleene cb p) L.
Proof.
  intros Hp s Hs. rewrite kleene_fst.
  pose proof (kleene_loop_good (S (String.length s)) p L Hp s Hs ltac:(lia)) as H.
  destruct (fst (kleene_loop _ p s)); cbn; auto.
Qed.

Lemma maybe_good cb (p : parser) L : good p L -> good (maybe cb p) L.
Proof.
  intros Hp s Hs. specialize (Hp s Hs). unfold maybe. destruct (p s) as [[n r| | |] k]; cbn in Hp |- *; auto.
Qed.

(* what a successful Kleene loop says about the positions it went through *)
Inductive many_ok (p : parser) : string -> list node -> string -> Prop :=
| many_ok_nil s : many_ok p s [] s
| many_ok_cons s x s1 xs r : fst (p s) = Ok x s1 -> many_ok p s1 xs r -> many_ok p s (x :: xs) r.

Lemma kleene_loop_chain n (p : parser) s xs r : fst (kleene_loop n p s) = Ok xs r -> many_ok p s xs r.
Proof.
  revert s xs r; induction n as [|n IH]; intros s xs r H; [discriminate|].
  rewrite kleene_loop_S in H.
  destruct (p s) as [[x s1| | |] k] eqn:E; cbn [fst] in H; try discriminate.
  - destruct (Nat.ltb (String.length s1) (String.length s)); cbn [fst] in H; [|discriminate].
    destruct (kleene_loop n p s1) as [[xs' r'| | |] k'] eqn:E2; cbn [fst] in H; try discriminate.
    inversion H; subst. econstructor; [now rewrite E|]. apply IH. now rewrite E2.
  - inversion H; subst. constructor.
Qed.

Lemma kleene_chain cb (p : parser) s n r : fst (kleene cb p s) = Ok n r ->
  exists xs, n = docb cb xs /\ many_ok p s xs r.
Proof.
  rewrite kleene_fst. destruct (fst (kleene_loop _ p s)) as [xs r'| | |] eqn:E; cbn; intro H; try discriminate.
  inversion H; subst. exists xs. split; [reflexivity|]. now apply kleene_loop_chain in E.
Qed.

(* ---------- Many with a separator ---------- *)
Lemma sep_loop_S n (p sep : parser) cur : sep_loop (S n) p sep cur =
  match p cur with
  | (Ok x r, k) =>
      match sep r with
      | (Ok _ r2, k2) =>
          if Nat.ltb (String.length r2) (String.length cur) then
            match sep_loop n p sep r2 with
            | (Ok xs r', k') => (Ok (x :: xs) r', (k + k2 + k')%N)
            | (Fail, k') => (Fail, (k + k2 + k')%N)
            | (NoFuel, k') => (NoFuel, (k + k2 + k')%N)
            | (Hang, k') => (Hang, (k + k2 + k')%N)
            end
          else (Hang, (k + k2)%N)
      | (Fail, k2) => (Ok [x] r, (k + k2)%N)
      | (NoFuel, k2) => (NoFuel, (k + k2)%N)
      | (Hang, k2) => (Hang, (k + k2)%N)
      end
  | (Fail, k) => (Ok [] cur, k)
  | (NoFuel, k) => (NoFuel, k)
  | (Hang, k) => (Hang, k)
  end.
Proof. reflexivity. Qed.

Lemma sep_loop_none n (p sep : parser) s : fst (p s) = Fail -> fst (sep_loop (S n) p sep s) = Ok [] s.
Proof. intro H. rewrite sep_loop_S. destruct (p s) as [y k]. cbn in H. now subst y. Qed.

Lemma sep_loop_last n (p sep : parser) s x r : fst (p s) = Ok x r -> fst (sep r) = Fail ->
  fst (sep_loop (S n) p sep s) = Ok [x] r.
Proof.
  intros H H2. rewrite sep_loop_S. destruct (p s) as [y k]. cbn in H. subst y.
  destruct (sep r) as [z k2]. cbn in H2. now subst z.
Qed.

Lemma sep_loop_more n (p sep : parser) s x r y r2 : fst (p s) = Ok x r -> fst (sep r) = Ok y r2 ->
  String.length r2 < String.length s ->
  fst (sep_loop (S n) p sep s) = lift (cons x) (fst (sep_loop n p sep r2)).
Proof.
  intros H H2 Hl. rewrite sep_loop_S. destruct (p s) as [u k]. cbn in H. subst u.
  destruct (sep r) as [z k2]. cbn in H2. subst z. apply Nat.ltb_lt in Hl. rewrite Hl.
  destruct (sep_loop n p sep r2) as [[xs r'| | |] k']; reflexivity.
Qed.

Lemma many_sep_fst cb (p sep : parser) s :
  fst (many_sep cb p sep s) =
  match fst (sep_loop (S (String.length s)) p sep s) with
  | Ok [] _ => Fail
  | Ok ns r => Ok (docb cb ns) r
  | Fail => Fail
  | NoFuel => NoFuel
  | Hang => Hang
  end.
Proof. unfold many_sep. destruct (sep_loop _ p sep s) as [[[|x ns] r| | |] k]; reflexivity. Qed.

Lemma sep_loop_good n (p sep : parser) L : goodS p L -> good sep L ->
  forall s, String.length s <= L -> String.length s < n ->
    match fst (sep_loop n p sep s) with Ok _ r => String.length r <= String.length s | _ => False end.
Proof.
  intros Hp Hsep. induction n as [|n IH]; intros s Hs Hn; [lia|]. rewrite sep_loop_S.
  pose proof (Hp s Hs) as H. destruct (p s) as [[x s1| | |] k]; cbn [fst] in H |- *; try tauto; [|lia].
  pose proof (Hsep s1 ltac:(lia)) as H2. destruct (sep s1) as [[y s2| | |] k2]; cbn [fst] in H2 |- *; try tauto; [|lia].
  assert (Hlt : String.length s2 < String.length s) by lia. apply Nat.ltb_lt in Hlt. rewrite Hlt.
  specialize (IH s2 ltac:(lia) ltac:(lia)).
  destruct (sep_loop n p sep s2) as [[xs r| | |] k']; cbn [fst] in IH |- *; try tauto. lia.
Qed.

Lemma many_sep_good cb (p sep : parser) L : goodS p L -> good sep L -> good (many_sep cb p sep) L.
Proof.
  intros Hp Hsep s Hs. rewrite many_sep_fst.
  pose proof (sep_loop_good (S (String.length s)) p sep L Hp Hsep s Hs ltac:(lia)) as H.
  destruct (fst (sep_loop _ p sep s)) as [[|x ns] r| | |]; cbn; auto.
Qed.

(* ---------- step counts ---------- *)
Local Open Scope N_scope.

Lemma and_loop_snd_ok (p : parser) ps s n r : fst (p s) = Ok n r ->
  snd (and_loop (p :: ps) s) = snd (p s) + snd (and_loop ps r).
Proof.
  intro H. cbn [and_loop]. destruct (p s) as [x k]. cbn in H. subst x.
  destruct (and_loop ps r) as [[ns r'| | |] k']; reflexivity.
Qed.

Lemma and_loop_snd_ge (p : parser) ps s : snd (p s) <= snd (and_loop (p :: ps) s).
Proof.
  cbn [and_loop]. destruct (p s) as [[n r| | |] k]; cbn [snd]; try lia.
  destruct (and_loop ps r) as [[ns r'| | |] k']; cbn [snd]; lia.
Qed.

Lemma pand_snd cb (ps : list parser) s : snd (pand cb ps s) = 1 + snd (and_loop ps s).
Proof. unfold pand. destruct (and_loop ps s) as [[ns r| | |] k]; reflexivity. Qed.

Lemma por_snd_fail cb (p : parser) ps s : fst (p s) = Fail ->
  snd (por cb (p :: ps) s) = snd (p s) + snd (por cb ps s).
Proof.
  intro H. cbn [por]. destruct (p s) as [x k]. cbn in H. subst x.
  destruct (por cb ps s) as [y k']. reflexivity.
Qed.

Lemma por_snd_ge cb (p : parser) ps s : snd (p s) <= snd (por cb (p :: ps) s).
Proof.
  cbn [por]. destruct (p s) as [[n r| | |] k]; cbn [snd]; try lia.
  destruct (por cb ps s) as [y k']. cbn [snd]. lia.
Qed.

Lemma kleene_snd_ge cb (p : parser) s : snd (p s) <= snd (kleene cb p s).
Proof.
  unfold kleene. rewrite kleene_loop_S. destruct (p s) as [[x r| | |] k]; cbn [snd]; try lia.
  destruct (Nat.ltb (String.length r) (String.length s)); cbn [snd]; [|lia].
  destruct (kleene_loop (String.length s) p r) as [[xs r'| | |] k']; cbn [snd]; lia.
Qed.

Lemma atom_snd m s : snd (@atom V m s) = 1.
Proof. unfold atom. destruct (strip_prefix m (skip_ws s)); reflexivity. Qed.

End PegProofs.
