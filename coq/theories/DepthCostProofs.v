(* DepthCostProofs.v — theorems about DepthCost.v (C07):
   1. the signature reader's copying
      a. sig_copy is sig_read with a meter: same outcome on every input (sig_copy_read);
      b. copied <= nesting * (bytes consumed), every input, every outcome (sig_copy_bound);
      c. a type without dynamic values: nesting <= rdepth t, hence linear (sig_copy_static_linear);
      d. no linear bound: n nested dynamic values, 5 (n + 1) bytes, copy 5 (n + 1) (n + 2) / 2 bytes
         (nested_m_copy, sig_copied_nested, sig_copy_not_linear);
   2. the signature parser's recursion depth
      a. at most (number of opening brackets + 1) nested entries of the type rule
         (parse_depth_le_open_count, parse_depth_le_length);
      b. exactly n + 1 on n opening square brackets and on n lists around an int32
         (parse_depth_brackets_eq, parse_depth_nested_list_eq, parse_depth_unbounded);
      c. parse_depth is a threshold: more fuel changes nothing (parse_depth_spec, decl_m_stable);
      d. the type returned is no deeper than the parse (parse_depth_ty);
   3. together: nesting <= rdepth t + 2 |input|, copied <= (rdepth t + 2 |input|) * |input|
      (sig_copy_nl, sig_copy_quadratic). *)
From Coq Require Import ZifyN ZifyNat ZifyBool.
From QV Require Import TotalProofs DepthCost.
Local Open Scope N_scope.

(* ================= 1a. sig_copy has the outcome of sig_read ================= *)
Section Agree.
  Variable p : bytes -> mres bytes.
  Variable q : bytes -> Wire.res (bytes * bytes).
  Hypothesis Hpq : forall b, snd (p b) = q b.

  Lemma mrep_nat_snd : forall k bs, snd (mrep_nat p k bs) = rep_nat q k bs.
  Proof.
    induction k as [|k IH]; intro bs; cbn [mrep_nat rep_nat]; [reflexivity|].
    rewrite <- (Hpq bs). destruct (p bs) as [m [[x rest]|l| |]]; cbn [snd]; try reflexivity.
    rewrite <- (IH rest). destruct (mrep_nat p k rest) as [m' r']. reflexivity.
  Qed.

  Lemma mrep_slow_snd : forall fuel n bs acc ma, snd (mrep_slow p fuel n bs acc ma) = rep_slow q fuel n bs acc.
  Proof.
    induction fuel as [|f IH]; intros n bs acc ma; cbn [mrep_slow rep_slow].
    - destruct (n =? 0); reflexivity.
    - destruct (n =? 0); [reflexivity|].
      rewrite <- (Hpq bs). destruct (p bs) as [m [[d bs']|l| |]]; cbn [snd]; try reflexivity.
      destruct (Nat.ltb (List.length bs') (List.length bs)); [apply IH|reflexivity].
  Qed.

  Lemma mrep_snd : forall n bs, snd (mrep p n bs) = rep q n bs.
  Proof.
    intros n bs. unfold mrep, rep. destruct (N.of_nat (List.length bs) <? n).
    - apply mrep_slow_snd.
    - apply mrep_nat_snd.
  Qed.

  Lemma mvar_snd : forall bs, snd (mvar p bs) =
    (do '(n, r) <- read_num 4 bs; do '(d, r') <- cat_res (rep q n r); ROk (enc_u32 n ++ d, r')).
  Proof.
    intro bs. unfold mvar. destruct (read_num 4 bs) as [[n r]|l| |]; cbn [bind snd]; try reflexivity.
    rewrite <- (mrep_snd n r). destruct (mrep p n r) as [m x]. reflexivity.
  Qed.
End Agree.

Lemma mseq_with_snd : forall {X} (l : list X) (f : X -> bytes -> mres bytes) (g : X -> bytes -> Wire.res (bytes * bytes)),
  Forall (fun x => forall b, snd (f x b) = g x b) l ->
  forall bs, snd (mseq_with (map f l) bs) = seq_with (map g l) bs.
Proof.
  intros X l f g HF. induction HF as [|x l' Hx HF' IH]; intro bs; cbn [map mseq_with seq_with]; [reflexivity|].
  rewrite <- (Hx bs). destruct (f x bs) as [m [[d rest]|e| |]]; cbn [snd]; try reflexivity.
  rewrite <- (IH rest). destruct (mseq_with (map f l') rest) as [m' r']. reflexivity.
Qed.

Lemma mentry_snd : forall (pk pv : bytes -> mres bytes) (qk qv : bytes -> Wire.res (bytes * bytes)),
  (forall b, snd (pk b) = qk b) -> (forall b, snd (pv b) = qv b) ->
  forall b, snd (mentry pk pv b) = (do '(kv, r2) <- pair_with qk qv b; ROk (fst kv ++ snd kv, r2)).
Proof.
  intros pk pv qk qv Hk Hv b. unfold mentry, pair_with. rewrite <- (Hk b).
  destruct (pk b) as [mk [[k r1]|l| |]]; cbn [snd bind]; try reflexivity.
  rewrite <- (Hv r1). destruct (pv r1) as [mv [[v r2]|l| |]]; reflexivity.
Qed.

Section AgreeBody.
  Variable c : wcfg.
  Variable dyn obj : bytes -> mres bytes.
  Variable dyn' obj' : bytes -> Wire.res (bytes * bytes).
  Hypothesis Hdyn : forall b, snd (dyn b) = dyn' b.
  Hypothesis Hobj : forall b, snd (obj b) = obj' b.

  Lemma mleaf_snd : forall r, snd (mleaf r) = r.
  Proof. intros [[d rest]|l| |]; reflexivity. Qed.

  Lemma sig_copy_body_snd : forall t bs, snd (sig_copy_body c dyn obj t bs) = sig_body c dyn' obj' t bs.
  Proof.
    induction t as [s|t' IH|tk tv IHk IHv|ts IH|name fs IH] using ty_ind2; intro bs.
    - destruct s; cbn [sig_copy_body sig_body]; try apply mleaf_snd; [apply Hdyn|apply Hobj].
    - cbn [sig_copy_body sig_body]. apply mvar_snd. exact IH.
    - cbn [sig_copy_body sig_body]. apply mvar_snd. apply mentry_snd; assumption.
    - cbn [sig_copy_body sig_body]. unfold mcat. cbn [snd]. f_equal. apply mseq_with_snd. exact IH.
    - cbn [sig_copy_body sig_body]. unfold mcat. cbn [snd]. f_equal.
      apply (mseq_with_snd fs (fun f => sig_copy_body c dyn obj (snd f)) (fun f => sig_body c dyn' obj' (snd f))).
      exact IH.
  Qed.
End AgreeBody.

Lemma sig_copy_obj_snd : forall c b, snd (sig_copy_obj c b) = sig_obj c b.
Proof. intros c b. unfold sig_copy_obj, sig_obj. apply sig_copy_body_snd; intro b'; reflexivity. Qed.

(* sig_copy is sig_read with a meter: the same value, rest or error on every input and fuel *)
Theorem sig_copy_read : forall parse c fuel t bs, snd (sig_copy parse c fuel t bs) = sig_read parse c fuel t bs.
Proof.
  intros parse c fuel. induction fuel as [|f IH]; intros t bs.
  - cbn [sig_copy sig_read]. apply sig_copy_body_snd; [intro b; reflexivity|apply sig_copy_obj_snd].
  - cbn [sig_copy sig_read]. apply sig_copy_body_snd; [|apply sig_copy_obj_snd].
    intro b. unfold mvalue. destruct (read_str b) as [[sg r]|l| |]; cbn [bind]; try reflexivity.
    destruct (parse (string_of_bytes sg)) as [t'|]; [|reflexivity].
    rewrite <- (IH t' r). destruct (sig_copy parse c f t' r) as [m [[d r']|l| |]]; reflexivity.
Qed.

(* ================= 1b. the upper bound: copied <= nesting * consumed ================= *)
(* what a reader has taken from its source: on success and on error the source says what it still
   holds; for the two outcomes the totality theorems exclude, everything *)
Definition used {A} (bs : bytes) (r : Wire.res (A * bytes)) : N :=
  match r with
  | ROk (_, rest) => blen bs - blen rest
  | RErr l => blen bs - blen l
  | _ => blen bs
  end.

(* a metered reader on input bs: the result is no longer than what was consumed, and every byte
   consumed was copied at most [nesting] times *)
Definition mok (bs : bytes) (x : mres bytes) : Prop :=
  match snd x with
  | ROk (d, rest) => blen d + blen rest <= blen bs /\ copied (fst x) <= nesting (fst x) * (blen bs - blen rest)
  | RErr l => blen l <= blen bs /\ copied (fst x) <= nesting (fst x) * (blen bs - blen l)
  | _ => copied (fst x) <= nesting (fst x) * blen bs
  end.
(* a sequence of readers at one level, their results already written into the enclosing buffer *)
Definition clen (ds : list bytes) : N := blen (List.concat ds).
Definition lok (bs : bytes) (x : mres (list bytes)) : Prop :=
  match snd x with
  | ROk (ds, rest) => clen ds + blen rest <= blen bs /\ copied (fst x) <= (nesting (fst x) + 1) * (blen bs - blen rest)
  | RErr l => blen l <= blen bs /\ copied (fst x) <= (nesting (fst x) + 1) * (blen bs - blen l)
  | _ => copied (fst x) <= (nesting (fst x) + 1) * blen bs
  end.

Lemma mok_used : forall bs x, mok bs x -> copied (fst x) <= nesting (fst x) * used bs (snd x).
Proof. intros bs [m [[d rest]|l| |]] H; cbn [mok used fst snd] in *; tauto. Qed.

Lemma blen_app : forall a b, blen (a ++ b) = blen a + blen b.
Proof. intros a b. unfold blen. rewrite app_length. lia. Qed.
Lemma blen_nil : blen [] = 0.
Proof. reflexivity. Qed.
Lemma clen_nil : clen [] = 0.
Proof. reflexivity. Qed.
Lemma clen_cons : forall d ds, clen (d :: ds) = blen d + clen ds.
Proof. intros d ds. unfold clen. cbn [List.concat]. apply blen_app. Qed.
Lemma clen_app : forall a b, clen (a ++ b) = clen a + clen b.
Proof. intros a b. unfold clen. rewrite concat_app. apply blen_app. Qed.
Lemma clen_repeat_nil : forall k, clen (repeat [] k) = 0.
Proof. induction k as [|k IH]; [reflexivity|]. cbn [repeat]. rewrite clen_cons, IH. reflexivity. Qed.
Lemma blen_0 : forall d, blen d = 0 -> d = [].
Proof. intros [|b d] H; [reflexivity|]. unfold blen in H. cbn [List.length] in H. lia. Qed.

(* the two monotonicity facts every step needs *)
Lemma mul_le_l : forall a n n' u, a <= n * u -> n <= n' -> a <= n' * u.
Proof. intros a n n' u Ha Hn. apply (N.le_trans _ _ _ Ha). apply N.mul_le_mono_r. exact Hn. Qed.
Lemma mul_le_r : forall a n u u', a <= n * u -> u <= u' -> a <= n * u'.
Proof. intros a n u u' Ha Hu. apply (N.le_trans _ _ _ Ha). apply N.mul_le_mono_l. exact Hu. Qed.
Lemma mul_le_both : forall a n n' u u', a <= n * u -> n <= n' -> u <= u' -> a <= n' * u'.
Proof. intros a n n' u u' Ha Hn Hu. apply (mul_le_l _ n); [|exact Hn]. apply (mul_le_r _ _ u); assumption. Qed.
(* two stretches of input, two meters *)
Lemma mul_le_sum : forall a b n u v, a <= n * u -> b <= n * v -> a + b <= n * (u + v).
Proof. intros a b n u v Ha Hb. rewrite N.mul_add_distr_l. lia. Qed.

Lemma mleaf_ok : forall bs r,
  match r with ROk (d, rest) => blen d + blen rest <= blen bs | RErr l => blen l <= blen bs | _ => True end ->
  mok bs (mleaf r).
Proof.
  intros bs [[d rest]|l| |] H; unfold mok; cbn [mleaf fst snd copied nesting]; try lia.
Qed.

Lemma take_n_lens : forall n bs,
  match take_n n bs with ROk (d, rest) => blen d + blen rest <= blen bs | RErr l => blen l <= blen bs | _ => False end.
Proof.
  intros n bs. unfold take_n. destruct (Nat.ltb (List.length bs) n) eqn:E.
  - unfold blen. cbn [List.length]. lia.
  - apply Nat.ltb_ge in E. unfold blen. rewrite firstn_length, skipn_length. lia.
Qed.

Lemma read_num_lens : forall w bs x r, read_num w bs = ROk (x, r) -> blen r + N.of_nat w = blen bs.
Proof.
  intros w bs x r H. unfold read_num, take_n in H. destruct (Nat.ltb (List.length bs) w) eqn:E; [discriminate|].
  apply Nat.ltb_ge in E. cbn [bind] in H. inversion H; subst. unfold blen. rewrite skipn_length. lia.
Qed.
Lemma read_num_err : forall w bs l, read_num w bs = RErr l -> l = [].
Proof.
  intros w bs l H. unfold read_num, take_n in H. destruct (Nat.ltb (List.length bs) w); cbn [bind] in H; congruence.
Qed.
Lemma read_num_total : forall w bs, read_num w bs <> RPanic /\ read_num w bs <> RFuel.
Proof. intros w bs. unfold read_num, take_n. destruct (Nat.ltb (List.length bs) w); cbn [bind]; split; discriminate. Qed.

(* basic.ReadString: the string and what is left are no more than the input less the 4 bytes of the length *)
Lemma read_str_lens : forall bs,
  match read_str bs with
  | ROk (s, rest) => 4 + blen s + blen rest <= blen bs
  | RErr l => blen l <= blen bs
  | _ => False
  end.
Proof.
  intro bs. unfold read_str. destruct (read_num 4 bs) as [[n r]|l| |] eqn:E; cbn [bind].
  - apply read_num_lens in E. destruct (n =? 0); [rewrite blen_nil; lia|].
    destruct (MaxStringSize <? n); [lia|].
    pose proof (take_n_lens (N.to_nat n) r) as H. destruct (take_n (N.to_nat n) r) as [[s rest]|l| |]; try lia; exact H.
  - apply read_num_err in E. subst l. rewrite blen_nil. lia.
  - destruct (read_num_total 4 bs) as [H _]. congruence.
  - destruct (read_num_total 4 bs) as [_ H]. congruence.
Qed.

Lemma enc_str_blen : forall s, blen (enc_str s) = 4 + blen s.
Proof. intro s. unfold enc_str, enc_u32. rewrite blen_app. unfold blen. rewrite le_length. lia. Qed.

(* a member's result written into the enclosing buffer: one more copy of what the member consumed *)
Lemma step_le : forall cm x n u, cm <= n * u -> x <= u -> cm + x <= (n + 1) * u.
Proof. intros cm x n u H Hx. rewrite N.mul_add_distr_r. lia. Qed.
Lemma join_le : forall a b n1 n2 u v w,
  a <= (n1 + 1) * u -> b <= (n2 + 1) * v -> u + v <= w -> a + b <= (N.max n1 n2 + 1) * w.
Proof.
  intros a b n1 n2 u v w Ha Hb Hw.
  apply (mul_le_r _ _ (u + v)); [|exact Hw]. apply mul_le_sum.
  - apply (mul_le_l _ _ _ _ Ha). lia.
  - apply (mul_le_l _ _ _ _ Hb). lia.
Qed.

Section LoopsOk.
  Variable p : bytes -> mres bytes.
  Hypothesis Hp : forall bs, mok bs (p bs).

  Lemma mrep_nat_ok : forall k bs, lok bs (mrep_nat p k bs).
  Proof.
    induction k as [|k IH]; intro bs; cbn [mrep_nat].
    - unfold lok. cbn [fst snd mzero copied nesting]. rewrite clen_nil. lia.
    - pose proof (Hp bs) as Hx. destruct (p bs) as [m [[x rest]|l| |]]; unfold mok in Hx; cbn [fst snd] in Hx.
      + destruct Hx as [Hlen Hc]. pose proof (IH rest) as Hr.
        destruct (mrep_nat p k rest) as [m' r']. unfold lok in Hr |- *. cbn [fst snd] in Hr |- *.
        assert (Hs : copied m + blen x <= (nesting m + 1) * (blen bs - blen rest)) by (apply step_le; [exact Hc|lia]).
        destruct r' as [[xs rest']|l| |]; cbn [madd charge copied nesting].
        * destruct Hr as [Hlen' Hc']. rewrite clen_cons. split; [lia|].
          apply (join_le _ _ _ _ _ _ _ Hs Hc'). lia.
        * destruct Hr as [Hlen' Hc']. split; [lia|]. apply (join_le _ _ _ _ _ _ _ Hs Hc'). lia.
        * apply (join_le _ _ _ _ _ _ _ Hs Hr). lia.
        * apply (join_le _ _ _ _ _ _ _ Hs Hr). lia.
      + unfold lok. cbn [fst snd]. destruct Hx as [Hlen Hc]. split; [exact Hlen|]. apply (mul_le_l _ _ _ _ Hc). lia.
      + unfold lok. cbn [fst snd]. apply (mul_le_l _ _ _ _ Hx). lia.
      + unfold lok. cbn [fst snd]. apply (mul_le_l _ _ _ _ Hx). lia.
  Qed.

  Lemma mrep_slow_ok : forall bs0 fuel n bs acc ma,
    clen (rev acc) + blen bs <= blen bs0 -> copied ma <= (nesting ma + 1) * (blen bs0 - blen bs) ->
    lok bs0 (mrep_slow p fuel n bs acc ma).
  Proof.
    intros bs0 fuel. induction fuel as [|f IH]; intros n bs acc ma Hacc Hma; cbn [mrep_slow].
    - destruct (n =? 0); unfold lok; cbn [fst snd]; [split; [exact Hacc|exact Hma]|].
      apply (mul_le_r _ _ _ _ Hma). lia.
    - destruct (n =? 0); [unfold lok; cbn [fst snd]; split; [exact Hacc|exact Hma]|].
      pose proof (Hp bs) as Hx. destruct (p bs) as [m [[d bs']|l| |]]; unfold mok in Hx; cbn [fst snd] in Hx.
      + destruct Hx as [Hlen Hc].
        assert (Hs : copied m + blen d <= (nesting m + 1) * (blen bs - blen bs')) by (apply step_le; [exact Hc|lia]).
        destruct (Nat.ltb (List.length bs') (List.length bs)) eqn:Hlt.
        * apply IH.
          -- cbn [rev]. rewrite clen_app, clen_cons, clen_nil. lia.
          -- cbn [madd charge copied nesting]. apply (join_le _ _ _ _ _ _ _ Hma Hs). lia.
        * apply Nat.ltb_ge in Hlt.
          assert (Hb : blen bs' = blen bs) by (unfold blen in *; lia).
          assert (Hd : d = []) by (apply blen_0; lia). subst d.
          assert (Hm0 : copied m = 0).
          { rewrite Hb, N.sub_diag, N.mul_0_r in Hc. lia. }
          unfold lok. cbn [fst snd copied nesting]. rewrite clen_app, clen_repeat_nil, Hm0, blen_nil, Hb.
          split; [lia|]. rewrite N.mul_0_r, N.add_0_r. apply (mul_le_l _ _ _ _ Hma). lia.
      + destruct Hx as [Hlen Hc]. unfold lok. cbn [fst snd madd copied nesting]. split; [lia|].
        assert (Hm1 : copied m <= (nesting m + 1) * (blen bs - blen l)) by (apply (mul_le_l _ _ _ _ Hc); lia).
        apply (join_le _ _ _ _ _ _ _ Hma Hm1). lia.
      + unfold lok. cbn [fst snd madd copied nesting].
        assert (Hm1 : copied m <= (nesting m + 1) * blen bs) by (apply (mul_le_l _ _ _ _ Hx); lia).
        apply (join_le _ _ _ _ _ _ _ Hma Hm1). lia.
      + unfold lok. cbn [fst snd madd copied nesting].
        assert (Hm1 : copied m <= (nesting m + 1) * blen bs) by (apply (mul_le_l _ _ _ _ Hx); lia).
        apply (join_le _ _ _ _ _ _ _ Hma Hm1). lia.
  Qed.

  Lemma mrep_ok : forall n bs, lok bs (mrep p n bs).
  Proof.
    intros n bs. unfold mrep. destruct (N.of_nat (List.length bs) <? n).
    - apply mrep_slow_ok; cbn [rev mzero copied nesting]; rewrite ?clen_nil; lia.
    - apply mrep_nat_ok.
  Qed.
End LoopsOk.

Lemma mseq_with_ok : forall ps, Forall (fun p : bytes -> mres bytes => forall bs, mok bs (p bs)) ps ->
  forall bs, lok bs (mseq_with ps bs).
Proof.
  intros ps HF. induction HF as [|p ps' Hp HF' IH]; intro bs; cbn [mseq_with].
  - unfold lok. cbn [fst snd mzero copied nesting]. rewrite clen_nil. lia.
  - pose proof (Hp bs) as Hx. destruct (p bs) as [m [[x rest]|l| |]]; unfold mok in Hx; cbn [fst snd] in Hx.
    + destruct Hx as [Hlen Hc]. pose proof (IH rest) as Hr.
      destruct (mseq_with ps' rest) as [m' r']. unfold lok in Hr |- *. cbn [fst snd] in Hr |- *.
      assert (Hs : copied m + blen x <= (nesting m + 1) * (blen bs - blen rest)) by (apply step_le; [exact Hc|lia]).
      destruct r' as [[xs rest']|l| |]; cbn [madd charge copied nesting].
      * destruct Hr as [Hlen' Hc']. rewrite clen_cons. split; [lia|].
        apply (join_le _ _ _ _ _ _ _ Hs Hc'). lia.
      * destruct Hr as [Hlen' Hc']. split; [lia|]. apply (join_le _ _ _ _ _ _ _ Hs Hc'). lia.
      * apply (join_le _ _ _ _ _ _ _ Hs Hr). lia.
      * apply (join_le _ _ _ _ _ _ _ Hs Hr). lia.
    + unfold lok. cbn [fst snd]. destruct Hx as [Hlen Hc]. split; [exact Hlen|]. apply (mul_le_l _ _ _ _ Hc). lia.
    + unfold lok. cbn [fst snd]. apply (mul_le_l _ _ _ _ Hx). lia.
    + unfold lok. cbn [fst snd]. apply (mul_le_l _ _ _ _ Hx). lia.
Qed.

(* the reader that wrote the members' results into its buffer returns that buffer *)
Lemma mcat_ok : forall bs x, lok bs x -> mok bs (mcat x).
Proof.
  intros bs [m [[ds rest]|l| |]] H; unfold lok in H; unfold mok, mcat; cbn [fst snd cat_res bind deeper copied nesting] in *;
    exact H.
Qed.

Lemma mentry_ok : forall pk pv : bytes -> mres bytes,
  (forall bs, mok bs (pk bs)) -> (forall bs, mok bs (pv bs)) -> forall b, mok b (mentry pk pv b).
Proof.
  intros pk pv Hk Hv b. unfold mentry.
  pose proof (Hk b) as Hx. destruct (pk b) as [mk [[k r1]|l| |]]; unfold mok in Hx; cbn [fst snd] in Hx.
  - destruct Hx as [Hlen Hc].
    assert (Hs : copied mk + blen k <= (nesting mk + 1) * (blen b - blen r1)) by (apply step_le; [exact Hc|lia]).
    pose proof (Hv r1) as Hy. destruct (pv r1) as [mv [[v r2]|l| |]]; unfold mok in Hy |- *; cbn [fst snd] in Hy |- *;
      cbn [deeper madd charge copied nesting].
    + destruct Hy as [Hlen' Hc']. rewrite blen_app. split; [lia|].
      assert (Hs' : copied mv + blen v <= (nesting mv + 1) * (blen r1 - blen r2)) by (apply step_le; [exact Hc'|lia]).
      apply (join_le _ _ _ _ _ _ _ Hs Hs'). lia.
    + destruct Hy as [Hlen' Hc']. split; [lia|].
      assert (Hs' : copied mv <= (nesting mv + 1) * (blen r1 - blen l)) by (apply (mul_le_l _ _ _ _ Hc'); lia).
      apply (join_le _ _ _ _ _ _ _ Hs Hs'). lia.
    + assert (Hs' : copied mv <= (nesting mv + 1) * blen r1) by (apply (mul_le_l _ _ _ _ Hy); lia).
      apply (join_le _ _ _ _ _ _ _ Hs Hs'). lia.
    + assert (Hs' : copied mv <= (nesting mv + 1) * blen r1) by (apply (mul_le_l _ _ _ _ Hy); lia).
      apply (join_le _ _ _ _ _ _ _ Hs Hs'). lia.
  - unfold mok. cbn [fst snd deeper copied nesting]. destruct Hx as [Hlen Hc]. split; [exact Hlen|].
    apply (mul_le_l _ _ _ _ Hc). lia.
  - unfold mok. cbn [fst snd deeper copied nesting]. apply (mul_le_l _ _ _ _ Hx). lia.
  - unfold mok. cbn [fst snd deeper copied nesting]. apply (mul_le_l _ _ _ _ Hx). lia.
Qed.

(* the 4 bytes of the count, written once at this level *)
Lemma var_le : forall cm n u w, cm <= (n + 1) * u -> u + 4 <= w -> cm + 4 <= (n + 1) * w.
Proof.
  intros cm n u w H Hw. apply (mul_le_r _ _ (u + 4)); [|exact Hw]. rewrite N.mul_add_distr_l. lia.
Qed.

Lemma enc_u32_blen : forall n, blen (enc_u32 n) = 4.
Proof. intro n. unfold enc_u32, blen. rewrite le_length. reflexivity. Qed.

Lemma mvar_ok : forall p : bytes -> mres bytes, (forall bs, mok bs (p bs)) -> forall bs, mok bs (mvar p bs).
Proof.
  intros p Hp bs. unfold mvar. destruct (read_num 4 bs) as [[n r]|l| |] eqn:E.
  - apply read_num_lens in E. pose proof (mrep_ok p Hp n r) as Hr.
    destruct (mrep p n r) as [m x]. unfold lok in Hr. unfold mok. cbn [fst snd] in Hr |- *.
    destruct x as [[ds rest]|l| |]; cbn [cat_res bind deeper charge copied nesting].
    + destruct Hr as [Hlen Hc]. rewrite blen_app, enc_u32_blen. fold (clen ds). split; [lia|].
      apply (var_le _ _ _ _ Hc). lia.
    + destruct Hr as [Hlen Hc]. split; [lia|]. apply (var_le _ _ _ _ Hc). lia.
    + apply (var_le _ _ _ _ Hr). lia.
    + apply (var_le _ _ _ _ Hr). lia.
  - apply read_num_err in E. subst l. unfold mok. cbn [fst snd copied nesting]. rewrite blen_nil. lia.
  - unfold mok. cbn [fst snd copied nesting]. lia.
  - unfold mok. cbn [fst snd copied nesting]. lia.
Qed.

Section BodyOk.
  Variable c : wcfg.
  (* with stringReader's dropped error (repaired in the tree: 4 result bytes for no input byte) a list
     of strings makes a result of any size from 4 bytes of input: see drops_err_copy_unbounded *)
  Hypothesis Hde : string_reader_drops_err c = false.
  Variable dyn obj : bytes -> mres bytes.
  Hypothesis Hdyn : forall bs, mok bs (dyn bs).
  Hypothesis Hobj : forall bs, mok bs (obj bs).

  Lemma string_reader_lens : forall bs,
    match string_reader c bs with
    | ROk (d, rest) => blen d + blen rest <= blen bs | RErr l => blen l <= blen bs | _ => True end.
  Proof.
    intro bs. unfold string_reader. rewrite Hde. pose proof (read_str_lens bs) as H.
    destruct (read_str bs) as [[s r]|l| |]; try exact I; [|exact H].
    rewrite enc_str_blen. lia.
  Qed.

  Lemma sig_copy_body_ok : forall t bs, mok bs (sig_copy_body c dyn obj t bs).
  Proof.
    induction t as [s|t' IH|tk tv IHk IHv|ts IH|name fs IH] using ty_ind2; intro bs.
    - destruct s; cbn [sig_copy_body scalar_width];
        try (apply mleaf_ok; pose proof (take_n_lens 1 bs) as H1; pose proof (take_n_lens 2 bs) as H2;
             pose proof (take_n_lens 4 bs) as H4; pose proof (take_n_lens 8 bs) as H8;
             match goal with |- match take_n ?w bs with _ => _ end => destruct (take_n w bs) as [[d rest]|l| |] end;
             tauto).
      + apply mleaf_ok. apply string_reader_lens.
      + apply Hdyn.
      + apply Hobj.
      + apply mleaf_ok. lia.
      + apply mleaf_ok. rewrite blen_nil. lia.
    - cbn [sig_copy_body]. apply mvar_ok. exact IH.
    - cbn [sig_copy_body]. apply mvar_ok. apply mentry_ok; assumption.
    - cbn [sig_copy_body]. apply mcat_ok. apply mseq_with_ok.
      induction IH as [|t ts' Ht HF IH']; cbn [map]; constructor; assumption.
    - cbn [sig_copy_body]. apply mcat_ok. apply mseq_with_ok.
      induction IH as [|f fs' Hf HF IH']; cbn [map]; constructor; assumption.
  Qed.
End BodyOk.

Lemma mfail_ok : forall bs (r : Wire.res (bytes * bytes)),
  match r with ROk _ => False | RErr l => blen l <= blen bs | _ => True end -> mok bs (mfail r).
Proof.
  intros bs [[d rest]|l| |] H; unfold mok, mfail; cbn [fst snd copied nesting]; lia.
Qed.

Section SigCopyOk.
  Variable parse : string -> option ty.
  Variable c : wcfg.
  Hypothesis Hde : string_reader_drops_err c = false.

  Lemma sig_copy_obj_ok : forall bs, mok bs (sig_copy_obj c bs).
  Proof.
    intro bs. unfold sig_copy_obj. apply sig_copy_body_ok; [exact Hde| |];
      intro b; apply mfail_ok; lia.
  Qed.

  Lemma mvalue_ok : forall inner : ty -> bytes -> mres bytes,
    (forall t bs, mok bs (inner t bs)) -> forall bs, mok bs (mvalue parse c inner bs).
  Proof.
    intros inner Hin bs. unfold mvalue. pose proof (read_str_lens bs) as Hs.
    destruct (read_str bs) as [[sg r]|l| |]; try (exfalso; exact Hs); [|apply mfail_ok; exact Hs].
    destruct (parse (string_of_bytes sg)) as [t'|]; [|apply mfail_ok; lia].
    pose proof (Hin t' r) as Hr. destruct (inner t' r) as [m [[d r']|l| |]]; unfold mok in Hr |- *;
      cbn [fst snd deeper charge copied nesting] in Hr |- *.
    - destruct Hr as [Hlen Hc].
      assert (Ho : blen ((if value_reader_no_len c then sg else enc_str sg) ++ d) <= 4 + blen sg + blen d).
      { rewrite blen_app. destruct (value_reader_no_len c); [|rewrite enc_str_blen]; lia. }
      split; [lia|]. apply (mul_le_r _ _ ((blen r - blen r') + (4 + blen sg))); [|lia].
      rewrite N.mul_add_distr_l, N.mul_add_distr_r.
      assert (Hc' : copied m <= nesting m * (blen r - blen r')) by exact Hc.
      assert (Ho' : blen ((if value_reader_no_len c then sg else enc_str sg) ++ d) <= (blen r - blen r') + (4 + blen sg)) by lia.
      nia.
    - destruct Hr as [Hlen Hc]. split; [lia|]. apply (mul_le_both _ _ _ _ _ Hc); lia.
    - apply (mul_le_both _ _ _ _ _ Hr); lia.
    - apply (mul_le_both _ _ _ _ _ Hr); lia.
  Qed.

  Lemma sig_copy_ok : forall fuel t bs, mok bs (sig_copy parse c fuel t bs).
  Proof.
    induction fuel as [|f IH]; intros t bs; cbn [sig_copy]; apply sig_copy_body_ok;
      try exact Hde; try apply sig_copy_obj_ok.
    - intro b. apply mfail_ok. exact I.
    - apply mvalue_ok. exact IH.
  Qed.

  (* UPPER BOUND, every input, every fuel, every outcome: what the reader copies is at most the
     nesting it reached times the bytes it consumed *)
  Theorem sig_copy_bound : forall fuel t bs,
    copied (fst (sig_copy parse c fuel t bs)) <= nesting (fst (sig_copy parse c fuel t bs)) * used bs (snd (sig_copy parse c fuel t bs)).
  Proof. intros fuel t bs. apply mok_used. apply sig_copy_ok. Qed.

  Lemma used_le : forall {A} bs (r : Wire.res (A * bytes)), used bs r <= blen bs.
  Proof. intros A bs [[a rest]|l| |]; cbn [used]; lia. Qed.

  Corollary sig_copy_bound_len : forall fuel t bs,
    copied (fst (sig_copy parse c fuel t bs)) <= nesting (fst (sig_copy parse c fuel t bs)) * blen bs.
  Proof. intros fuel t bs. apply (mul_le_r _ _ _ _ (sig_copy_bound fuel t bs)). apply used_le. Qed.
End SigCopyOk.

(* ================= 1c. the nesting of a type that holds no dynamic value ================= *)
Section NestLoops.
  Variable p : bytes -> mres bytes.
  Variable D : N.
  Hypothesis Hp : forall b, nesting (fst (p b)) <= D.

  Lemma mrep_nat_nest : forall k bs, nesting (fst (mrep_nat p k bs)) <= D.
  Proof.
    induction k as [|k IH]; intro bs; cbn [mrep_nat]; [cbn; lia|].
    pose proof (Hp bs) as Hx. destruct (p bs) as [m [[x rest]|l| |]]; cbn [fst] in Hx |- *; try exact Hx.
    pose proof (IH rest) as Hr. destruct (mrep_nat p k rest) as [m' r']. cbn [fst madd charge nesting] in Hr |- *. lia.
  Qed.

  Lemma mrep_slow_nest : forall fuel n bs acc ma, nesting ma <= D -> nesting (fst (mrep_slow p fuel n bs acc ma)) <= D.
  Proof.
    induction fuel as [|f IH]; intros n bs acc ma Hma; cbn [mrep_slow].
    - destruct (n =? 0); exact Hma.
    - destruct (n =? 0); [exact Hma|].
      pose proof (Hp bs) as Hx. destruct (p bs) as [m [[d bs']|l| |]]; cbn [fst madd nesting] in Hx |- *; try lia.
      destruct (Nat.ltb (List.length bs') (List.length bs)).
      + apply IH. cbn [madd charge nesting]. lia.
      + cbn [fst nesting]. lia.
  Qed.

  Lemma mrep_nest : forall n bs, nesting (fst (mrep p n bs)) <= D.
  Proof.
    intros n bs. unfold mrep. destruct (N.of_nat (List.length bs) <? n).
    - apply mrep_slow_nest. cbn. lia.
    - apply mrep_nat_nest.
  Qed.

  Lemma mvar_nest : forall bs, nesting (fst (mvar p bs)) <= 1 + D.
  Proof.
    intro bs. unfold mvar. destruct (read_num 4 bs) as [[n r]|l| |]; try (cbn [fst nesting]; lia).
    pose proof (mrep_nest n r) as Hr. destruct (mrep p n r) as [m x]. cbn [fst deeper charge nesting] in Hr |- *. lia.
  Qed.
End NestLoops.

Lemma mseq_with_nest : forall D ps, Forall (fun p : bytes -> mres bytes => forall b, nesting (fst (p b)) <= D) ps ->
  forall bs, nesting (fst (mseq_with ps bs)) <= D.
Proof.
  intros D ps HF. induction HF as [|p ps' Hp HF' IH]; intro bs; cbn [mseq_with]; [cbn; lia|].
  pose proof (Hp bs) as Hx. destruct (p bs) as [m [[x rest]|l| |]]; cbn [fst] in Hx |- *; try exact Hx.
  pose proof (IH rest) as Hr. destruct (mseq_with ps' rest) as [m' r']. cbn [fst madd charge nesting] in Hr |- *. lia.
Qed.

Lemma mentry_nest : forall Dk Dv (pk pv : bytes -> mres bytes),
  (forall b, nesting (fst (pk b)) <= Dk) -> (forall b, nesting (fst (pv b)) <= Dv) ->
  forall b, nesting (fst (mentry pk pv b)) <= 1 + N.max Dk Dv.
Proof.
  intros Dk Dv pk pv Hk Hv b. unfold mentry.
  pose proof (Hk b) as Hx. destruct (pk b) as [mk [[k r1]|l| |]]; cbn [fst deeper nesting] in Hx |- *; try lia.
  pose proof (Hv r1) as Hy. destruct (pv r1) as [mv [[v r2]|l| |]]; cbn [fst deeper madd charge nesting] in Hy |- *; lia.
Qed.

Lemma mleaf_nest : forall r, nesting (fst (mleaf r)) = 1.
Proof. intros [[d rest]|l| |]; reflexivity. Qed.

Lemma fold_max_in : forall {X} (g : X -> N) (l : list X) x, In x l -> g x <= fold_right (fun y a => N.max (g y) a) 0 l.
Proof.
  intros X g l x. induction l as [|y l IH]; intro Hin; [destruct Hin|].
  cbn [fold_right]. destruct Hin as [->|Hin]; [lia|]. specialize (IH Hin). lia.
Qed.

Section BodyNest.
  Variable c : wcfg.
  Variable dyn obj : bytes -> mres bytes.
  Variables Dd Do : N.
  Hypothesis Hobj : forall b, nesting (fst (obj b)) <= Do.

  Lemma sig_copy_body_nest : forall t,
    plain_m t = true \/ (forall b, nesting (fst (dyn b)) <= Dd) ->
    forall bs, nesting (fst (sig_copy_body c dyn obj t bs)) <= rdepth_g Dd Do t.
  Proof.
    induction t as [s|t' IH|tk tv IHk IHv|ts IH|name fs IH] using ty_ind2; intros Hd bs.
    - destruct s; cbn [sig_copy_body rdepth_g]; try (rewrite mleaf_nest; lia).
      + destruct Hd as [Hd|Hd]; [discriminate Hd|apply Hd].
      + apply Hobj.
    - cbn [sig_copy_body rdepth_g]. apply mvar_nest. apply IH. exact Hd.
    - cbn [sig_copy_body rdepth_g]. replace (2 + N.max (rdepth_g Dd Do tk) (rdepth_g Dd Do tv))
        with (1 + (1 + N.max (rdepth_g Dd Do tk) (rdepth_g Dd Do tv))) by lia.
      apply mvar_nest. apply mentry_nest.
      + apply IHk. destruct Hd as [Hd|Hd]; [left|right; exact Hd]. cbn [plain_m] in Hd. apply andb_true_iff in Hd. tauto.
      + apply IHv. destruct Hd as [Hd|Hd]; [left|right; exact Hd]. cbn [plain_m] in Hd. apply andb_true_iff in Hd. tauto.
    - cbn [sig_copy_body rdepth_g]. unfold mcat. cbn [fst deeper nesting].
      set (D := fold_right (fun t a => N.max (rdepth_g Dd Do t) a) 0 ts).
      enough (H : nesting (fst (mseq_with (map (sig_copy_body c dyn obj) ts) bs)) <= D) by lia.
      apply mseq_with_nest. apply Forall_forall. intros q Hq. apply in_map_iff in Hq as (t & <- & Hin).
      intro b. rewrite Forall_forall in IH. apply (N.le_trans _ (rdepth_g Dd Do t)).
      + apply IH; [exact Hin|]. destruct Hd as [Hd|Hd]; [left|right; exact Hd].
        cbn [plain_m] in Hd. rewrite forallb_forall in Hd. apply Hd. exact Hin.
      + apply (fold_max_in (rdepth_g Dd Do) ts t Hin).
    - cbn [sig_copy_body rdepth_g]. unfold mcat. cbn [fst deeper nesting].
      set (D := fold_right (fun f a => N.max (rdepth_g Dd Do (snd f)) a) 0 fs).
      enough (H : nesting (fst (mseq_with (map (fun f => sig_copy_body c dyn obj (snd f)) fs) bs)) <= D) by lia.
      apply mseq_with_nest. apply Forall_forall. intros q Hq. apply in_map_iff in Hq as (f & <- & Hin).
      intro b. rewrite Forall_forall in IH. apply (N.le_trans _ (rdepth_g Dd Do (snd f))).
      + apply IH; [exact Hin|]. destruct Hd as [Hd|Hd]; [left|right; exact Hd].
        cbn [plain_m] in Hd. rewrite forallb_forall in Hd. apply (Hd f). exact Hin.
      + apply (fold_max_in (fun f => rdepth_g Dd Do (snd f)) fs f Hin).
  Qed.
End BodyNest.

Lemma sig_copy_obj_nest : forall c b, nesting (fst (sig_copy_obj c b)) <= rdepth_obj.
Proof.
  intros c b. unfold sig_copy_obj, rdepth_obj. apply sig_copy_body_nest.
  - intro b'. cbn. lia.
  - right. intro b'. cbn. lia.
Qed.

(* a type that holds no dynamic value: the nesting is the type's, whatever the input *)
Theorem sig_copy_nest_static : forall parse c fuel t bs, plain_m t = true ->
  nesting (fst (sig_copy parse c fuel t bs)) <= rdepth t.
Proof.
  intros parse c fuel t bs Ht. unfold rdepth.
  destruct fuel as [|f]; cbn [sig_copy]; apply sig_copy_body_nest; try apply sig_copy_obj_nest; left; exact Ht.
Qed.

(* hence, for such a type, linear: at most rdepth t copies of every input byte *)
Corollary sig_copy_static_linear : forall parse c fuel t bs,
  string_reader_drops_err c = false -> plain_m t = true ->
  copied (fst (sig_copy parse c fuel t bs)) <= rdepth t * blen bs.
Proof.
  intros parse c fuel t bs Hde Ht.
  apply (mul_le_l _ _ _ _ (sig_copy_bound_len parse c Hde fuel t bs)). apply sig_copy_nest_static. exact Ht.
Qed.

(* ================= 1d. no linear bound: nested dynamic values ================= *)
(* 5 + 10 + ... + 5 (n + 1) *)
Fixpoint copy_m (n : nat) : N :=
  match n with O => 5 | S n' => copy_m n' + 5 * (N.of_nat n + 1) end.
Lemma copy_m_closed : forall n, 2 * copy_m n = 5 * (N.of_nat n + 1) * (N.of_nat n + 2).
Proof.
  induction n as [|n IH]; [reflexivity|]. cbn [copy_m].
  replace (N.of_nat (S n)) with (N.of_nat n + 1) by lia. nia.
Qed.

Lemma nested_m_blen : forall n, blen (nested_m n) = 5 * (N.of_nat n + 1).
Proof.
  induction n as [|n IH]; [reflexivity|]. cbn [nested_m]. rewrite blen_app, IH.
  change (blen str_m) with 5. lia.
Qed.

Lemma parse_opt_m : parse_opt "m" = Some (TS SValue).
Proof. vm_compute. reflexivity. Qed.
Lemma parse_opt_v : parse_opt "v" = Some (TS SVoid).
Proof. vm_compute. reflexivity. Qed.

Lemma read_str_m : forall rest, read_str (str_m ++ rest) = ROk ([x6d], rest).
Proof. intro rest. change str_m with (enc_str [x6d]). apply WireLemmas.read_str_enc. vm_compute. discriminate. Qed.
Lemma read_str_v : forall rest, read_str (str_v ++ rest) = ROk ([x76], rest).
Proof. intro rest. change str_v with (enc_str [x76]). apply WireLemmas.read_str_enc. vm_compute. discriminate. Qed.

Lemma sig_copy_value_S : forall parse c f bs,
  sig_copy parse c (S f) (TS SValue) bs = mvalue parse c (sig_copy parse c f) bs.
Proof. reflexivity. Qed.

(* n dynamic values around a void: the reader succeeds, returns its input, has nested n + 2 readers and
   copied 5 + 10 + ... + 5 (n + 1) bytes *)
Lemma nested_m_copy : forall c, value_reader_no_len c = false ->
  forall n fuel rest, (n < fuel)%nat ->
  sig_copy parse_opt c fuel (TS SValue) (nested_m n ++ rest) =
  ({| copied := copy_m n; nesting := N.of_nat n + 2 |}, ROk (nested_m n, rest)).
Proof.
  intros c Hnl. induction n as [|n IH]; intros fuel rest Hf; (destruct fuel as [|f]; [lia|]).
  - rewrite sig_copy_value_S. unfold mvalue. cbn [nested_m]. rewrite read_str_v.
    change (string_of_bytes [x76]) with "v"%string. rewrite parse_opt_v, Hnl.
    destruct f as [|f']; reflexivity.
  - rewrite sig_copy_value_S. unfold mvalue. cbn [nested_m]. rewrite <- app_assoc, read_str_m.
    change (string_of_bytes [x6d]) with "m"%string. rewrite parse_opt_m, Hnl.
    rewrite (IH f rest) by lia. cbv beta iota zeta. unfold deeper, charge. cbn [copied nesting].
    change (enc_str [x6d]) with str_m. rewrite blen_app, nested_m_blen. change (blen str_m) with 5.
    f_equal. f_equal.
    + cbn [copy_m]. lia.
    + lia.
Qed.

Theorem sig_copied_nested : forall n,
  sig_read parse_opt wclean (S (List.length (nested_m n))) (TS SValue) (nested_m n) = ROk (nested_m n, []) /\
  sig_copied wclean (TS SValue) (nested_m n) = copy_m n /\
  sig_nest wclean (TS SValue) (nested_m n) = N.of_nat n + 2.
Proof.
  intro n. unfold sig_copied, sig_nest. rewrite <- sig_copy_read.
  assert (Hf : (n < S (List.length (nested_m n)))%nat).
  { pose proof (nested_m_blen n) as H. unfold blen in H. lia. }
  pose proof (nested_m_copy wclean eq_refl n (S (List.length (nested_m n))) [] Hf) as H.
  rewrite app_nil_r in H. rewrite H. cbn [fst snd copied nesting]. repeat split.
Qed.

(* NO LINEAR BOUND: for every k there is an input the reader accepts (and returns whole) on which it
   copies more than k times the input length *)
Theorem sig_copy_not_linear : forall k : N, exists bs,
  sig_read parse_opt wclean (S (List.length bs)) (TS SValue) bs = ROk (bs, []) /\
  k * blen bs < sig_copied wclean (TS SValue) bs.
Proof.
  intro k. exists (nested_m (N.to_nat (2 * k))).
  destruct (sig_copied_nested (N.to_nat (2 * k))) as (Hr & Hc & _). split; [exact Hr|].
  rewrite Hc, nested_m_blen. pose proof (copy_m_closed (N.to_nat (2 * k))) as H.
  replace (N.of_nat (N.to_nat (2 * k))) with (2 * k) in * by lia. nia.
Qed.

(* the witness of the finding sig_reader_depth_quadratic: 8000 nested dynamic values, 40,005 bytes on the
   wire, 160,060,005 bytes copied (the harness measures about 200 MB allocated) *)
Example sig_copied_8000 :
  blen (nested_m (N.to_nat 8000)) = 40005 /\ sig_copied wclean (TS SValue) (nested_m (N.to_nat 8000)) = 160060005.
Proof.
  split.
  - rewrite nested_m_blen. vm_compute. reflexivity.
  - destruct (sig_copied_nested (N.to_nat 8000)) as (_ & Hc & _). rewrite Hc. vm_compute. reflexivity.
Qed.
(* and the same by evaluation of the model, 200 levels *)
Example sig_copied_200 :
  blen (nested_m 200) = 1005 /\ sig_copied wclean (TS SValue) (nested_m 200) = 101505 /\ sig_nest wclean (TS SValue) (nested_m 200) = 202.
Proof. vm_compute. repeat split. Qed.

(* the hypothesis of the upper bound is needed: with stringReader's dropped error (pinned tree) 4 bytes of
   input -- a count of 1000 and nothing else, read as a list of strings -- make 4004 bytes of result *)
Example drops_err_copy_unbounded :
  let c := {| value_reader_no_len := false; string_reader_drops_err := true; refl_drop8 := false;
              refl_struct_ignores_err := false; refl_neg_len_panics := false |} in
  sig_copied c (TList (TS SStr)) [xe8; x03; x00; x00] = 8004 /\ sig_nest c (TList (TS SStr)) [xe8; x03; x00; x00] = 2.
Proof. vm_compute. repeat split. Qed.

(* ================= 2. recursion depth of the signature parser ================= *)
From Coq Require Import String Ascii.
From QV Require Import Peg PegProofs SigParse SigParseProofs SigParseMerged.
Local Open Scope string_scope.
Local Open Scope nat_scope.

(* ---------- 2b. attained: n opening square brackets need more than n entries ---------- *)
Lemma basic_type_bracket : forall x, fst (basic_type (String "[" x)) = Fail.
Proof. intro x. reflexivity. Qed.
Lemma map_type_bracket : forall d x, fst (map_type d (String "[" x)) = Fail.
Proof. intros d x. reflexivity. Qed.

Lemma decl_m_brackets : forall f n rest, f <= n -> fst (decl_m f (brackets n ++ rest)) = NoFuel.
Proof.
  induction f as [|f IH]; intros n rest Hn; [reflexivity|].
  destruct n as [|n]; [lia|]. cbn [brackets append].
  rewrite decl_m_S, por_fst_cons, basic_type_bracket, por_fst_cons, map_type_bracket, por_fst_cons.
  unfold array_type at 1. rewrite pand_fst, and_loop_fst_cons.
  change (fst (@atom ty "[" (String "[" (brackets n ++ rest)))) with (@Ok (node ty) (NTerm "[") (brackets n ++ rest)).
  cbv beta iota. rewrite and_loop_fst_cons, (IH n rest) by lia. reflexivity.
Qed.

Lemma least_from_ge : forall k d s, d <= least_from k d s.
Proof.
  induction k as [|k IH]; intros d s; cbn [least_from]; [lia|].
  destruct (parse_within d s); [lia|]. specialize (IH (S d) s). lia.
Qed.

(* below the answer nothing is enough; the answer is enough when the search found one *)
Lemma least_from_spec : forall k d s,
  (forall e, d <= e < least_from k d s -> parse_within e s = false) /\
  (least_from k d s < d + k -> parse_within (least_from k d s) s = true).
Proof.
  induction k as [|k IH]; intros d s; cbn [least_from].
  - split; intros; lia.
  - destruct (parse_within d s) eqn:E.
    + split; [intros e He; lia|intros _; exact E].
    + destruct (IH (S d) s) as [IH1 IH2]. split.
      * intros e He. destruct (Nat.eq_dec e d) as [->|Hne]; [exact E|]. apply IH1. lia.
      * intro Hlt. apply IH2. lia.
Qed.

Lemma parse_depth_gt : forall s d, (forall e, e <= d -> parse_within e s = false) -> d <= String.length s ->
  d < parse_depth s.
Proof.
  intros s d Hall Hd. unfold parse_depth.
  destruct (least_from_spec (S (String.length s)) 0 s) as [_ H2].
  destruct (Nat.lt_ge_cases d (least_from (S (String.length s)) 0 s)) as [Hlt|Hge]; [exact Hlt|].
  rewrite (Hall _ Hge) in H2. assert (Hf : false = true) by (apply H2; lia). discriminate Hf.
Qed.

Lemma parse_depth_le : forall s d, parse_within d s = true -> parse_depth s <= d.
Proof.
  intros s d Hd. unfold parse_depth.
  destruct (least_from_spec (S (String.length s)) 0 s) as [H1 _].
  destruct (Nat.lt_ge_cases d (least_from (S (String.length s)) 0 s)) as [Hlt|Hge]; [|exact Hge].
  rewrite (H1 d) in Hd by lia. discriminate Hd.
Qed.

Lemma brackets_length : forall n, String.length (brackets n) = n.
Proof. induction n as [|n IH]; cbn [brackets String.length]; [reflexivity|now rewrite IH]. Qed.

(* ATTAINED: the text of n opening square brackets (which Parse refuses) and the signature of n lists
   around an int32 (which it accepts) both make the type rule enter itself more than n times *)
Theorem parse_depth_brackets : forall n, n < parse_depth (brackets n).
Proof.
  intro n. apply parse_depth_gt; [|rewrite brackets_length; lia].
  intros e He. unfold parse_within. rewrite <- (sapp_nil_r (brackets n)), decl_m_brackets by exact He. reflexivity.
Qed.
Theorem parse_depth_nested_list : forall n, n < parse_depth (nested_list n).
Proof.
  intro n. apply parse_depth_gt.
  - intros e He. unfold parse_within, nested_list. rewrite decl_m_brackets by exact He. reflexivity.
  - unfold nested_list. rewrite slen_app, brackets_length. lia.
Qed.

(* ---------- 2a. bounded: one entry per opening bracket, and one more ---------- *)
(* what a parser leaves is an end of what it was given *)
Definition sfx (r s : string) : Prop := exists pre, s = pre ++ r.
Lemma sfx_refl : forall s, sfx s s.
Proof. intro s. exists "". reflexivity. Qed.
Lemma sfx_trans : forall a b c, sfx a b -> sfx b c -> sfx a c.
Proof. intros a b c [p1 H1] [p2 H2]. exists (p2 ++ p1). subst. now rewrite sapp_assoc. Qed.
Lemma sfx_cons : forall r s c, sfx r s -> sfx r (String c s).
Proof. intros r s c [pre H]. exists (String c pre). subst. reflexivity. Qed.
Lemma sfx_app : forall a b, sfx b (a ++ b).
Proof. intros a b. exists a. reflexivity. Qed.
Lemma sfx_len : forall r s, sfx r s -> String.length r <= String.length s.
Proof. intros r s [pre H]. subst. rewrite slen_app. lia. Qed.
Lemma open_count_app : forall a b, open_count (a ++ b) = open_count a + open_count b.
Proof. induction a as [|c a IH]; intro b; cbn [append open_count]; [reflexivity|]. rewrite IH. lia. Qed.
Lemma sfx_open_count : forall r s, sfx r s -> open_count r <= open_count s.
Proof. intros r s [pre H]. subst. rewrite open_count_app. lia. Qed.

Lemma skip_ws_sfx : forall s, sfx (@skip_ws s) s.
Proof.
  induction s as [|c r IH]; cbn [skip_ws]; [apply sfx_refl|].
  destruct (is_ws c); [apply sfx_cons; exact IH|apply sfx_refl].
Qed.
Lemma strip_prefix_app : forall m s r, strip_prefix m s = Some r -> s = m ++ r.
Proof.
  induction m as [|a m IH]; intros s r H; cbn [strip_prefix] in H.
  - inversion H. reflexivity.
  - destruct s as [|b s]; [discriminate|]. destruct (Ascii.eqb a b) eqn:E; [|discriminate].
    apply Ascii.eqb_eq in E. subst b. cbn [append]. f_equal. apply IH. exact H.
Qed.

(* on texts with at most K opening brackets the parser answers Ok or Fail, and what an Ok leaves is an
   end of the text (gd) / a shorter end (gdS) *)
Definition gd (p : sparser) (K : nat) : Prop :=
  forall s, open_count s <= K ->
    match fst (p s) with Ok _ r => sfx r s | Fail => True | _ => False end.
Definition gdS (p : sparser) (K : nat) : Prop :=
  forall s, open_count s <= K ->
    match fst (p s) with Ok _ r => sfx r s /\ String.length r < String.length s | Fail => True | _ => False end.

Lemma gdS_gd : forall p K, gdS p K -> gd p K.
Proof. intros p K H s Hs. specialize (H s Hs). destruct (fst (p s)); tauto. Qed.
Lemma gd_le : forall p K K', gd p K -> K' <= K -> gd p K'.
Proof. intros p K K' H Hle s Hs. apply H. lia. Qed.
Lemma gdS_le : forall p K K', gdS p K -> K' <= K -> gdS p K'.
Proof. intros p K K' H Hle s Hs. apply H. lia. Qed.

Lemma atom_inv : forall m s n r, fst (@atom ty m s) = Ok n r -> skip_ws s = m ++ r.
Proof.
  intros m s n r H. unfold atom in H. destruct (strip_prefix m (skip_ws s)) as [r'|] eqn:E; [|discriminate].
  cbn [fst] in H. inversion H; subst. apply strip_prefix_app. exact E.
Qed.

Lemma atom_gdS : forall m K, m <> "" -> gdS (@atom ty m) K.
Proof.
  intros m K Hm s _. destruct (fst (atom m s)) as [n r| | |] eqn:E; try exact I;
    try (unfold atom in E; destruct (strip_prefix m (skip_ws s)); discriminate).
  apply atom_inv in E. pose proof (skip_ws_sfx s) as Hw. split.
  - apply (sfx_trans _ (skip_ws s)); [|exact Hw]. rewrite E. apply sfx_app.
  - apply sfx_len in Hw. rewrite E, slen_app in Hw. destruct m; [congruence|]. cbn [String.length] in Hw. lia.
Qed.

(* after an opening bracket, one opening bracket less *)
Lemma atom_open : forall c s n r, is_open c = true -> fst (@atom ty (String c "") s) = Ok n r -> open_count r < open_count s.
Proof.
  intros c s n r Hc H. apply atom_inv in H. pose proof (sfx_open_count _ _ (skip_ws_sfx s)) as Hw.
  rewrite H in Hw. cbn [append open_count] in Hw. rewrite Hc in Hw. lia.
Qed.

Lemma token1_gdS : forall p1 p2 K, gdS (@token1 ty p1 p2) K.
Proof.
  intros p1 p2 K s _. unfold token1. pose proof (skip_ws_sfx s) as Hw.
  destruct (skip_ws s) as [|c r]; cbn [fst]; [exact I|].
  destruct (p1 c); cbn [fst]; [|exact I].
  destruct (span p2 r) as [a b] eqn:E. cbn [fst]. apply span_spec in E as (E & _ & _). subst r. split.
  - apply (sfx_trans _ (String c (a ++ b))); [|exact Hw]. apply sfx_cons, sfx_app.
  - apply sfx_len in Hw. cbn [String.length] in Hw. rewrite slen_app in Hw. lia.
Qed.

Lemma struct_name_gdS : forall K, gdS struct_name K.
Proof.
  intros K s _. unfold struct_name. pose proof (skip_ws_sfx s) as Hw.
  destruct (skip_ws s) as [|c r]; cbn [fst]; [exact I|].
  destruct (is_alpha c); cbn [fst]; [|exact I].
  destruct (span is_alnum_ r) as [a b] eqn:E. apply span_spec in E as (E & _ & _). subst r.
  assert (Hb : sfx b s /\ String.length b < String.length s).
  { split.
    - apply (sfx_trans _ (String c (a ++ b))); [|exact Hw]. apply sfx_cons, sfx_app.
    - apply sfx_len in Hw. cbn [String.length] in Hw. rewrite slen_app in Hw. lia. }
  destruct b as [|x b]; cbn [fst]; [exact Hb|].
  destruct (Ascii.eqb x "<") eqn:Hx.
  2:{ destruct x as [[] [] [] [] [] [] [] []]; cbn [fst]; try exact Hb. discriminate. }
  apply Ascii.eqb_eq in Hx. subst x.
  destruct b as [|c2 r2]; cbn [fst]; [exact Hb|].
  destruct (is_alpha c2); cbn [fst]; [|exact Hb].
  destruct (span is_alnum_ r2) as [a2 b2] eqn:E2. apply span_spec in E2 as (E2 & _ & _). subst r2.
  destruct b2 as [|y b3]; cbn [fst]; [exact Hb|].
  assert (Hb3 : sfx b3 s /\ String.length b3 < String.length s).
  { destruct Hb as [Hb1 Hb2]. split.
    - apply (sfx_trans _ (String "<" (String c2 (a2 ++ String y b3)))); [|exact Hb1].
      apply sfx_cons, sfx_cons. apply (sfx_trans _ (String y b3)); [apply sfx_cons, sfx_refl|apply sfx_app].
    - cbn [String.length] in Hb2. rewrite slen_app in Hb2. cbn [String.length] in Hb2. lia. }
  destruct y as [[] [] [] [] [] [] [] []]; cbn [fst]; try exact Hb; exact Hb3.
Qed.

Lemma and_loop_gd : forall ps K, Forall (fun p => gd p K) ps ->
  forall s, open_count s <= K ->
    match fst (and_loop ps s) with Ok _ r => sfx r s | Fail => True | _ => False end.
Proof.
  intros ps K HF. induction HF as [|p ps Hp HF IH]; intros s Hs; [cbn; apply sfx_refl|].
  rewrite and_loop_fst_cons. specialize (Hp s Hs). destruct (fst (p s)) as [n s1| | |]; try exact Hp.
  assert (Hs1 : open_count s1 <= K) by (apply sfx_open_count in Hp; lia).
  specialize (IH s1 Hs1). destruct (fst (and_loop ps s1)) as [ns r| | |]; cbn [lift]; try exact IH.
  apply (sfx_trans _ s1); assumption.
Qed.

Lemma pand_gd : forall cb ps K, Forall (fun p => gd p K) ps -> gd (pand cb ps) K.
Proof.
  intros cb ps K HF s Hs. rewrite pand_fst. pose proof (and_loop_gd ps K HF s Hs) as H.
  destruct (fst (and_loop ps s)); cbn [lift]; exact H.
Qed.

(* an And whose first child always consumes *)
Lemma pand_gdS : forall cb (p : sparser) ps K, gdS p K -> Forall (fun q => gd q K) ps -> gdS (pand cb (p :: ps)) K.
Proof.
  intros cb p ps K Hp HF s Hs. rewrite pand_fst, and_loop_fst_cons.
  specialize (Hp s Hs). destruct (fst (p s)) as [n s1| | |]; cbn [lift]; try exact Hp.
  destruct Hp as [Hsf Hlt].
  assert (Hs1 : open_count s1 <= K) by (apply sfx_open_count in Hsf; lia).
  pose proof (and_loop_gd ps K HF s1 Hs1) as H.
  destruct (fst (and_loop ps s1)) as [ns r| | |]; cbn [lift]; try exact H.
  split; [apply (sfx_trans _ s1); assumption|]. apply sfx_len in H. lia.
Qed.

(* an And that starts with an opening bracket: the other children see one opening bracket less *)
Lemma pand_open : forall cb c ps K, is_open c = true ->
  (forall K', K' < K -> Forall (fun q => gd q K') ps) -> gdS (pand cb (@atom ty (String c "") :: ps)) K.
Proof.
  intros cb c ps K Hc HF s Hs. rewrite pand_fst, and_loop_fst_cons.
  pose proof (atom_gdS (String c "") K ltac:(discriminate) s Hs) as Ha.
  destruct (fst (atom (String c "") s)) as [n s1| | |] eqn:E; cbn [lift]; try exact Ha.
  destruct Ha as [Hsf Hlt]. pose proof (atom_open c s n s1 Hc E) as Ho.
  pose proof (and_loop_gd ps (open_count s1) (HF (open_count s1) ltac:(lia)) s1 (le_n _)) as H.
  destruct (fst (and_loop ps s1)) as [ns r| | |]; cbn [lift]; try exact H.
  split; [apply (sfx_trans _ s1); assumption|]. apply sfx_len in H. lia.
Qed.

Lemma por_gdS : forall cb ps K, Forall (fun p => gdS p K) ps -> gdS (por cb ps) K.
Proof.
  intros cb ps K HF. induction HF as [|p ps Hp HF IH]; intros s Hs; [cbn; exact I|].
  rewrite por_fst_cons. specialize (Hp s Hs). destruct (fst (p s)) as [n s1| | |]; try exact Hp.
  apply IH. exact Hs.
Qed.

Lemma kleene_loop_gd : forall n (p : sparser) K, gdS p K ->
  forall s, open_count s <= K -> String.length s < n ->
    match fst (kleene_loop n p s) with Ok _ r => sfx r s | _ => False end.
Proof.
  intros n p K Hp. induction n as [|n IH]; intros s Hs Hn; [lia|]. rewrite kleene_loop_fst_S.
  pose proof (Hp s Hs) as H. destruct (fst (p s)) as [x s1| | |]; try exact H; [|apply sfx_refl].
  destruct H as [Hsf Hlt]. pose proof Hlt as Hlt'. apply Nat.ltb_lt in Hlt'. rewrite Hlt'.
  assert (Hs1 : open_count s1 <= K) by (apply sfx_open_count in Hsf; lia).
  specialize (IH s1 Hs1 ltac:(lia)).
  destruct (fst (kleene_loop n p s1)) as [xs r| | |]; cbn [lift]; try exact IH.
  apply (sfx_trans _ s1); assumption.
Qed.

Lemma kleene_gd : forall cb (p : sparser) K, gdS p K -> gd (kleene cb p) K.
Proof.
  intros cb p K Hp s Hs. rewrite kleene_fst.
  pose proof (kleene_loop_gd (S (String.length s)) p K Hp s Hs ltac:(lia)) as H.
  destruct (fst (kleene_loop _ p s)); cbn [lift]; tauto.
Qed.

Lemma maybe_gd : forall cb (p : sparser) K, gd p K -> gd (maybe cb p) K.
Proof.
  intros cb p K Hp s Hs. rewrite maybe_fst. specialize (Hp s Hs).
  destruct (fst (p s)); try exact Hp. apply sfx_refl.
Qed.

Lemma basic_type_gdS : forall K, gdS basic_type K.
Proof.
  intro K. unfold basic_type. apply por_gdS. cbn [map basic_letters].
  repeat constructor; apply atom_gdS; discriminate.
Qed.

Lemma member_list_gd : forall K, gd member_list K.
Proof.
  intro K. unfold member_list. apply kleene_gd. apply pand_gdS; [apply atom_gdS; discriminate|].
  repeat constructor. apply gdS_gd, token1_gdS.
Qed.

Lemma struct_def_gd : forall K, gd struct_def K.
Proof.
  intro K. unfold struct_def. apply pand_gd. repeat constructor.
  - apply gdS_gd, atom_gdS. discriminate.
  - apply gdS_gd, struct_name_gdS.
  - apply member_list_gd.
  - apply gdS_gd, atom_gdS. discriminate.
Qed.

(* the type rule with more fuel than the text has opening brackets never runs out of fuel *)
Lemma decl_m_gdS : forall f K, K < f -> gdS (decl_m f) K.
Proof.
  induction f as [|f IH]; intros K HK; [lia|].
  intros s Hs. rewrite decl_m_S. revert s Hs.
  fold (gdS (por None [basic_type; map_type (decl_m f); array_type (decl_m f); tuple_or_struct_type (decl_m f)]) K).
  assert (Hd : forall K', K' < K -> gdS (decl_m f) K') by (intros K' HK'; apply IH; lia).
  assert (HA : forall m K', m <> "" -> gd (@atom ty m) K') by (intros m K' Hm; apply gdS_gd, atom_gdS; exact Hm).
  apply por_gdS. repeat constructor.
  - apply basic_type_gdS.
  - apply pand_open; [reflexivity|]. intros K' HK'.
    repeat constructor; try (apply gdS_gd, Hd; exact HK'). apply HA; discriminate.
  - apply pand_open; [reflexivity|]. intros K' HK'.
    repeat constructor; try (apply gdS_gd, Hd; exact HK'). apply HA; discriminate.
  - apply pand_open; [reflexivity|]. intros K' HK'.
    repeat constructor.
    + apply kleene_gd, Hd. exact HK'.
    + apply HA; discriminate.
    + apply maybe_gd, struct_def_gd.
Qed.

Lemma parse_within_open_count : forall s, parse_within (S (open_count s)) s = true.
Proof.
  intro s. unfold parse_within.
  pose proof (decl_m_gdS (S (open_count s)) (open_count s) ltac:(lia) s (le_n _)) as H.
  destruct (fst (decl_m (S (open_count s)) s)); try reflexivity. exfalso. exact H.
Qed.

Lemma open_count_le_length : forall s, open_count s <= String.length s.
Proof. induction s as [|c r IH]; cbn [open_count String.length]; [lia|]. destruct (is_open c); lia. Qed.

(* BOUNDED: at most one nested entry of the type rule per opening bracket of the text, and one more;
   hence at most |s| + 1 *)
Theorem parse_depth_le_open_count : forall s, parse_depth s <= open_count s + 1.
Proof. intro s. rewrite Nat.add_1_r. apply parse_depth_le. apply parse_within_open_count. Qed.
Corollary parse_depth_le_length : forall s, parse_depth s <= String.length s + 1.
Proof. intro s. pose proof (parse_depth_le_open_count s). pose proof (open_count_le_length s). lia. Qed.

(* the two together on the witness family: exactly n + 1 *)
Lemma open_count_brackets : forall n rest, open_count (brackets n ++ rest) = n + open_count rest.
Proof. induction n as [|n IH]; intro rest; cbn [brackets append open_count]; [reflexivity|]. rewrite IH. reflexivity. Qed.
Theorem parse_depth_brackets_eq : forall n, parse_depth (brackets n) = n + 1.
Proof.
  intro n. pose proof (parse_depth_brackets n) as Hlo. pose proof (parse_depth_le_open_count (brackets n)) as Hhi.
  rewrite <- (sapp_nil_r (brackets n)), open_count_brackets in Hhi. rewrite sapp_nil_r in Hhi.
  cbn [open_count] in Hhi. lia.
Qed.
Theorem parse_depth_nested_list_eq : forall n, parse_depth (nested_list n) = n + 1.
Proof.
  intro n. pose proof (parse_depth_nested_list n) as Hlo. pose proof (parse_depth_le_open_count (nested_list n)) as Hhi.
  unfold nested_list in Hhi at 2. rewrite open_count_brackets in Hhi.
  assert (Hc : open_count ("i" ++ closes n) = 0).
  { cbn [append open_count is_open]. clear. induction n as [|n IH]; [reflexivity|]. cbn [closes open_count]. exact IH. }
  rewrite Hc in Hhi. lia.
Qed.

(* the members of the family are signatures: n lists around an int32 *)
Fixpoint list_ty (n : nat) : ty := match n with O => TS SI32 | S n' => TList (list_ty n') end.
Lemma closes_snoc : forall n, closes n ++ "]" = closes (S n).
Proof. induction n as [|n IH]; [reflexivity|]. cbn [closes append] in *. now rewrite IH. Qed.
Lemma print_list_ty : forall n, print (list_ty n) = nested_list n.
Proof.
  induction n as [|n IH]; [reflexivity|]. cbn [list_ty print]. rewrite IH. unfold nested_list.
  cbn [brackets append]. f_equal. rewrite !sapp_assoc. f_equal. cbn [append]. f_equal. apply closes_snoc.
Qed.
Lemma list_ty_wf : forall n, wf_ty (list_ty n) = true.
Proof. induction n as [|n IH]; [reflexivity|exact IH]. Qed.
Lemma parse_m_nested_list : forall n, parse_m (nested_list n) = POk (list_ty n).
Proof. intro n. rewrite parse_m_parse, <- print_list_ty. apply parse_print. apply list_ty_wf. Qed.

(* NO CONSTANT BOUND: for every k a signature that Parse accepts and whose parse nests deeper than k *)
Theorem parse_depth_unbounded : forall k, exists s, parse_m s = POk (list_ty k) /\ k < parse_depth s.
Proof.
  intro k. exists (nested_list k). split; [apply parse_m_nested_list|apply parse_depth_nested_list].
Qed.

(* ---------- 2c. parse_depth is a threshold: more fuel changes nothing ---------- *)
(* q answers what p answers whenever p does not run out of fuel *)
Definition ext (p q : sparser) : Prop := forall s, fst (p s) <> NoFuel -> fst (q s) = fst (p s).
Lemma ext_refl : forall p, ext p p.
Proof. intros p s _. reflexivity. Qed.

Lemma and_loop_ext : forall ps qs, Forall2 ext ps qs ->
  forall s, fst (and_loop ps s) <> NoFuel -> fst (and_loop qs s) = fst (and_loop ps s).
Proof.
  intros ps qs HF. induction HF as [|p q ps qs Hpq HF IH]; intros s Hs; [reflexivity|].
  rewrite and_loop_fst_cons in Hs. rewrite !and_loop_fst_cons.
  destruct (fst (p s)) as [n r| | |] eqn:E.
  - rewrite (Hpq s) by (rewrite E; discriminate). rewrite E. f_equal. apply IH.
    intro Hn. apply Hs. rewrite Hn. reflexivity.
  - rewrite (Hpq s) by (rewrite E; discriminate). rewrite E. reflexivity.
  - exfalso. apply Hs. reflexivity.
  - rewrite (Hpq s) by (rewrite E; discriminate). rewrite E. reflexivity.
Qed.

Lemma lift_nofuel : forall {A B} (f : A -> B) (r : Peg.res A), lift f r <> NoFuel -> r <> NoFuel.
Proof. intros A B f r H Hr. apply H. rewrite Hr. reflexivity. Qed.

Lemma pand_ext : forall cb ps qs, Forall2 ext ps qs -> ext (pand cb ps) (pand cb qs).
Proof.
  intros cb ps qs HF s Hs. rewrite pand_fst in Hs. rewrite !pand_fst. f_equal.
  apply and_loop_ext; [exact HF|]. exact (lift_nofuel _ _ Hs).
Qed.

Lemma por_ext : forall cb ps qs, Forall2 ext ps qs -> ext (por cb ps) (por cb qs).
Proof.
  intros cb ps qs HF. induction HF as [|p q ps qs Hpq HF IH]; intros s Hs; [reflexivity|].
  rewrite por_fst_cons in Hs. rewrite !por_fst_cons.
  destruct (fst (p s)) as [n r| | |] eqn:E.
  - rewrite (Hpq s) by (rewrite E; discriminate). rewrite E. reflexivity.
  - rewrite (Hpq s) by (rewrite E; discriminate). rewrite E. apply IH. exact Hs.
  - exfalso. apply Hs. reflexivity.
  - rewrite (Hpq s) by (rewrite E; discriminate). rewrite E. reflexivity.
Qed.

Lemma kleene_loop_ext : forall n (p q : sparser), ext p q ->
  forall s, fst (kleene_loop n p s) <> NoFuel -> fst (kleene_loop n q s) = fst (kleene_loop n p s).
Proof.
  intros n p q Hpq. induction n as [|n IH]; intros s Hs; [reflexivity|].
  rewrite kleene_loop_fst_S in Hs. rewrite !kleene_loop_fst_S.
  destruct (fst (p s)) as [x r| | |] eqn:E.
  - rewrite (Hpq s) by (rewrite E; discriminate). rewrite E.
    destruct (Nat.ltb (String.length r) (String.length s)); [|reflexivity].
    f_equal. apply IH. exact (lift_nofuel _ _ Hs).
  - rewrite (Hpq s) by (rewrite E; discriminate). rewrite E. reflexivity.
  - exfalso. apply Hs. reflexivity.
  - rewrite (Hpq s) by (rewrite E; discriminate). rewrite E. reflexivity.
Qed.

Lemma kleene_ext : forall cb (p q : sparser), ext p q -> ext (kleene cb p) (kleene cb q).
Proof.
  intros cb p q Hpq s Hs. rewrite kleene_fst in Hs. rewrite !kleene_fst. f_equal.
  apply kleene_loop_ext; [exact Hpq|]. exact (lift_nofuel _ _ Hs).
Qed.

Lemma pand_ext3 : forall cb (a b c a' b' c' : sparser), ext a a' -> ext b b' -> ext c c' ->
  ext (pand cb [a; b; c]) (pand cb [a'; b'; c']).
Proof.
  intros cb a b c a' b' c' Ha Hb Hc. apply pand_ext.
  apply Forall2_cons; [exact Ha|]. apply Forall2_cons; [exact Hb|]. apply Forall2_cons; [exact Hc|]. apply Forall2_nil.
Qed.
Lemma pand_ext4 : forall cb (a b c d a' b' c' d' : sparser), ext a a' -> ext b b' -> ext c c' -> ext d d' ->
  ext (pand cb [a; b; c; d]) (pand cb [a'; b'; c'; d']).
Proof.
  intros cb a b c d a' b' c' d' Ha Hb Hc Hd. apply pand_ext.
  apply Forall2_cons; [exact Ha|]. apply Forall2_cons; [exact Hb|]. apply Forall2_cons; [exact Hc|].
  apply Forall2_cons; [exact Hd|]. apply Forall2_nil.
Qed.

Lemma decl_m_more : forall f, ext (decl_m f) (decl_m (S f)).
Proof.
  induction f as [|f IH]; intros s Hs; [exfalso; apply Hs; reflexivity|].
  rewrite (decl_m_S (S f)). rewrite decl_m_S in Hs |- *. revert s Hs.
  fold (ext (por None [basic_type; map_type (decl_m f); array_type (decl_m f); tuple_or_struct_type (decl_m f)])
            (por None [basic_type; map_type (decl_m (S f)); array_type (decl_m (S f)); tuple_or_struct_type (decl_m (S f))])).
  apply por_ext.
  apply Forall2_cons; [apply ext_refl|].
  apply Forall2_cons; [apply pand_ext4; try apply ext_refl; exact IH|].
  apply Forall2_cons; [apply pand_ext3; try apply ext_refl; exact IH|].
  apply Forall2_cons; [|apply Forall2_nil].
  apply pand_ext4; try apply ext_refl. apply kleene_ext. exact IH.
Qed.

Lemma parse_within_more : forall d e s, d <= e -> parse_within d s = true -> parse_within e s = true.
Proof.
  intros d e s Hle. induction Hle as [|e Hle IH]; intro H; [exact H|].
  specialize (IH H). unfold parse_within in IH |- *.
  rewrite (decl_m_more e s); [exact IH|]. intro Hn. rewrite Hn in IH. discriminate IH.
Qed.

(* the type rule with fuel d answers (a node, or a refusal) exactly when d is at least parse_depth s,
   and then always the same *)
Theorem parse_depth_spec : forall s d, parse_within d s = true <-> parse_depth s <= d.
Proof.
  intros s d. split; [apply parse_depth_le|]. intro Hd.
  apply (parse_within_more (parse_depth s)); [exact Hd|].
  unfold parse_depth. destruct (least_from_spec (S (String.length s)) 0 s) as [_ H2].
  destruct (Nat.lt_ge_cases (least_from (S (String.length s)) 0 s) (S (String.length s))) as [Hlt|Hge];
    [apply H2; lia|].
  apply (parse_within_more (S (open_count s))); [|apply parse_within_open_count].
  pose proof (open_count_le_length s). lia.
Qed.
Theorem decl_m_stable : forall s d, parse_depth s <= d -> fst (decl_m d s) = fst (decl_m (parse_depth s) s).
Proof.
  intros s d Hd. induction Hd as [|d Hd IH]; [reflexivity|].
  rewrite <- IH. apply decl_m_more. rewrite IH.
  assert (H : parse_within (parse_depth s) s = true) by (apply parse_depth_spec; lia).
  unfold parse_within in H. intro Hn. rewrite Hn in H. discriminate H.
Qed.

(* ---------- 2d. the type Parse returns is no deeper than the parse ---------- *)
Definition dp_node (f : nat) (n : snode) : Prop := forall t, extract_value n = Some t -> ty_depth t <= f.

Lemma extract_types_depth : forall f xs ts, Forall (dp_node f) xs -> extract_types xs = Some ts ->
  fold_right (fun t a => Nat.max (ty_depth t) a) 0 ts <= f.
Proof.
  intros f xs ts HF. revert ts. induction HF as [|x xs Hx HF IH]; cbn [extract_types]; intros ts H.
  - inversion H. cbn. lia.
  - destruct (extract_value x) as [t|] eqn:E; [|discriminate].
    destruct (extract_types xs) as [ts'|]; [|discriminate]. inversion H; subst.
    cbn [fold_right]. specialize (Hx t E). specialize (IH ts' eq_refl). lia.
Qed.

Lemma combine_depth : forall f (names : list string) ts, fold_right (fun t a => Nat.max (ty_depth t) a) 0 ts <= f ->
  fold_right (fun (x : string * ty) a => Nat.max (ty_depth (snd x)) a) 0 (combine names ts) <= f.
Proof.
  intros f names. induction names as [|a names IH]; intros ts H; [cbn; lia|].
  destruct ts as [|t ts]; [cbn; lia|]. cbn [combine fold_right snd] in *. specialize (IH ts). lia.
Qed.

Lemma basic_depth : forall s n r, fst (basic_type s) = Ok n r -> forall f, dp_node (S f) (NList [n]).
Proof.
  intros s n r H f. unfold basic_type in H. apply por_inv in H as (p & m & _ & _ & ->).
  intros t Ht. cbn in Ht. unfold nodify_basic in Ht.
  destruct m as [v| | | |]; try discriminate.
  destruct (scalar_of_letter v); [|discriminate]. inversion Ht. cbn. lia.
Qed.

Lemma decl_depth : forall f s n r, fst (decl f s) = Ok n r -> dp_node f n.
Proof.
  induction f as [|f IH]; intros s n r H; [discriminate|].
  rewrite decl_S in H. apply por_inv in H as (p & m & Hin & Hp & ->).
  cbn [In] in Hin. destruct Hin as [<-|[<-|[<-|[<-|[<-|[]]]]]].
  - now apply (basic_depth _ _ _ Hp).
  - unfold map_type in Hp. apply pand_inv in Hp as (ns & Hand & ->).
    apply and_ok_cons_inv in Hand as (x1 & s1 & ns1 & -> & H1 & Hand).
    apply and_ok_cons_inv in Hand as (x2 & s2 & ns2 & -> & H2 & Hand).
    apply and_ok_cons_inv in Hand as (x3 & s3 & ns3 & -> & H3 & Hand).
    apply and_ok1 in Hand as (x4 & -> & H4).
    intros t Ht. cbn in Ht.
    destruct (extract_value x2) as [a|] eqn:Ea; [|discriminate].
    destruct (extract_value x3) as [b|] eqn:Eb; [|discriminate].
    inversion Ht; subst. cbn [ty_depth].
    pose proof (IH _ _ _ H2 a Ea). pose proof (IH _ _ _ H3 b Eb). lia.
  - unfold array_type in Hp. apply pand_inv in Hp as (ns & Hand & ->).
    apply and_ok_cons_inv in Hand as (x1 & s1 & ns1 & -> & H1 & Hand).
    apply and_ok_cons_inv in Hand as (x2 & s2 & ns2 & -> & H2 & Hand).
    apply and_ok1 in Hand as (x3 & -> & H3).
    intros t Ht. cbn in Ht.
    destruct (extract_value x2) as [a|] eqn:Ea; [|discriminate].
    inversion Ht; subst. cbn [ty_depth]. pose proof (IH _ _ _ H2 a Ea). lia.
  - unfold struct_type in Hp. apply pand_inv in Hp as (ns & Hand & ->).
    apply and_ok_cons_inv in Hand as (x1 & s1 & ns1 & -> & H1 & Hand).
    apply and_ok_cons_inv in Hand as (x2 & s2 & ns2 & -> & H2 & Hand).
    apply and_ok_cons_inv in Hand as (x3 & s3 & ns3 & -> & H3 & Hand).
    apply and_ok_cons_inv in Hand as (x4 & s4 & ns4 & -> & H4 & Hand).
    apply and_ok_cons_inv in Hand as (x5 & s5 & ns5 & -> & H5 & Hand).
    apply and_ok_cons_inv in Hand as (x6 & s6 & ns6 & -> & H6 & Hand).
    apply and_ok1 in Hand as (x7 & -> & H7).
    apply kleene_inv in H2 as (xs & -> & Hxs & _).
    apply struct_name_out in H5 as (name & -> & Hname).
    apply kleene_inv in H6 as (ms & -> & Hms & _).
    intros t Ht. cbn in Ht.
    destruct (extract_types xs) as [ts|] eqn:Ets; [|discriminate].
    destruct (extract_names ms) as [names|] eqn:Ens; [|discriminate].
    destruct (Nat.eqb (List.length ts) (List.length names)); [|discriminate].
    inversion Ht; subst. cbn [ty_depth]. apply le_n_S. apply combine_depth.
    apply (extract_types_depth f xs); [|assumption].
    rewrite Forall_forall in Hxs |- *. intros x Hx. destruct (Hxs x Hx) as (u1 & u2 & Hm). now apply IH in Hm.
  - unfold tuple_type in Hp. apply pand_inv in Hp as (ns & Hand & ->).
    apply and_ok_cons_inv in Hand as (x1 & s1 & ns1 & -> & H1 & Hand).
    apply and_ok_cons_inv in Hand as (x2 & s2 & ns2 & -> & H2 & Hand).
    apply and_ok1 in Hand as (x3 & -> & H3).
    apply kleene_inv in H2 as (xs & -> & Hxs & _).
    intros t Ht. cbn in Ht.
    destruct (extract_types xs) as [ts|] eqn:Ets; [|discriminate].
    inversion Ht; subst. cbn [ty_depth]. apply le_n_S. apply (extract_types_depth f xs); [|assumption].
    rewrite Forall_forall in Hxs |- *. intros x Hx. destruct (Hxs x Hx) as (u1 & u2 & Hm). now apply IH in Hm.
Qed.

(* the type is no deeper than the parse that made it: a deep type needs a deep parse *)
Theorem parse_depth_ty : forall s t, parse_m s = POk t -> ty_depth t <= parse_depth s.
Proof.
  intros s t H. rewrite parse_m_eq in H. unfold parse_fuel_m in H.
  rewrite (decl_m_stable s (S (String.length s))) in H by (pose proof (parse_depth_le_length s); lia).
  rewrite (decl_m_decl (parse_depth s) s) in H.
  destruct (fst (decl (parse_depth s) s)) as [root rest| | |] eqn:E; cbn [finish] in H; try discriminate.
  destruct (is_empty rest); [|discriminate].
  destruct root as [| | | |[|[|x| | |] []]]; try discriminate.
  inversion H; subst. apply decl_depth in E. apply E. reflexivity.
Qed.
Corollary parse_opt_depth : forall s t, parse_opt s = Some t -> ty_depth t <= open_count s + 1.
Proof.
  intros s t H. unfold parse_opt in H. destruct (parse s) as [t'| |] eqn:E; try discriminate. inversion H; subst.
  rewrite <- parse_m_parse in E. pose proof (parse_depth_ty s t E). pose proof (parse_depth_le_open_count s). lia.
Qed.

(* ================= 3. the two together: a closed quadratic bound for the reader ================= *)
Local Open Scope N_scope.

Lemma rdepth_obj_eq : rdepth_obj = 8.
Proof. vm_compute. reflexivity. Qed.

(* reader nesting against type depth: a map is two readers, "o" is eight *)
Lemma rdepth_le_depth : forall t, rdepth t <= 2 * N.of_nat (ty_depth t) + 6.
Proof.
  unfold rdepth. rewrite rdepth_obj_eq.
  induction t as [s|t' IH|tk tv IHk IHv|ts IH|name fs IH] using ty_ind2.
  - destruct s; cbn [rdepth_g ty_depth]; lia.
  - cbn [rdepth_g ty_depth]. lia.
  - cbn [rdepth_g ty_depth]. lia.
  - cbn [rdepth_g ty_depth].
    enough (H : fold_right (fun t a => N.max (rdepth_g 1 8 t) a) 0 ts
                <= 2 * N.of_nat (fold_right (fun t a => Nat.max (ty_depth t) a) 0%nat ts) + 6) by lia.
    induction IH as [|t ts' Ht HF IH']; cbn [fold_right]; lia.
  - cbn [rdepth_g ty_depth].
    enough (H : fold_right (fun f a => N.max (rdepth_g 1 8 (snd f)) a) 0 fs
                <= 2 * N.of_nat (fold_right (fun f a => Nat.max (ty_depth (snd f)) a) 0%nat fs) + 6) by lia.
    induction IH as [|f fs' Hf HF IH']; cbn [fold_right]; lia.
Qed.

Lemma string_of_bytes_length : forall l, String.length (string_of_bytes l) = List.length l.
Proof.
  intro l. unfold string_of_bytes, string_of_list_byte.
  induction l as [|b l IH]; [reflexivity|].
  cbn [map string_of_list_ascii String.length List.length]. now rewrite IH.
Qed.

(* signature.Parse returns types whose reader nesting is at most twice the text, and 8 *)
Lemma parse_opt_rdepth : forall s t, parse_opt s = Some t -> rdepth t <= 2 * N.of_nat (String.length s) + 8.
Proof.
  intros s t H. pose proof (parse_opt_depth s t H) as Hd. pose proof (open_count_le_length s) as Ho.
  pose proof (rdepth_le_depth t) as Hr. lia.
Qed.

(* what a reader leaves is no longer than what it was given *)
Lemma mok_rest : forall bs x, mok bs x -> match snd x with ROk (_, rest) => blen rest <= blen bs | _ => True end.
Proof. intros bs [m [[d rest]|l| |]] H; unfold mok in H; cbn [fst snd] in *; try exact I. lia. Qed.

Section NestLen.
  Variable p : bytes -> mres bytes.
  Variable R : N.
  Hypothesis Hp : forall b, mok b (p b).
  Hypothesis Hn : forall b, nesting (fst (p b)) <= R + 2 * blen b.

  Lemma mrep_nat_nl : forall B k bs, R + 2 * blen bs <= B -> nesting (fst (mrep_nat p k bs)) <= B.
  Proof.
    intros B. induction k as [|k IH]; intros bs HB; cbn [mrep_nat]; [cbn; lia|].
    pose proof (Hn bs) as Hx. pose proof (mok_rest bs _ (Hp bs)) as Hr.
    destruct (p bs) as [m [[x rest]|l| |]]; cbn [fst snd] in Hx, Hr |- *; try lia.
    pose proof (IH rest ltac:(lia)) as Hy. destruct (mrep_nat p k rest) as [m' r'].
    cbn [fst madd charge nesting] in Hy |- *. lia.
  Qed.

  Lemma mrep_slow_nl : forall B fuel n bs acc ma, R + 2 * blen bs <= B -> nesting ma <= B ->
    nesting (fst (mrep_slow p fuel n bs acc ma)) <= B.
  Proof.
    intros B. induction fuel as [|f IH]; intros n bs acc ma HB Hma; cbn [mrep_slow].
    - destruct (n =? 0); exact Hma.
    - destruct (n =? 0); [exact Hma|].
      pose proof (Hn bs) as Hx. pose proof (mok_rest bs _ (Hp bs)) as Hr.
      destruct (p bs) as [m [[d bs']|l| |]]; cbn [fst snd madd nesting] in Hx, Hr |- *; try lia.
      destruct (Nat.ltb (List.length bs') (List.length bs)).
      + apply IH; [lia|]. cbn [madd charge nesting]. lia.
      + cbn [fst nesting]. lia.
  Qed.

  Lemma mvar_nl : forall bs, nesting (fst (mvar p bs)) <= (1 + R) + 2 * blen bs.
  Proof.
    intro bs. unfold mvar. destruct (read_num 4 bs) as [[n r]|l| |] eqn:E; try (cbn [fst nesting]; lia).
    apply read_num_lens in E.
    assert (Hr : nesting (fst (mrep p n r)) <= R + 2 * blen bs).
    { unfold mrep. destruct (N.of_nat (List.length r) <? n).
      - apply mrep_slow_nl; [lia|cbn; lia].
      - apply mrep_nat_nl. lia. }
    destruct (mrep p n r) as [m x]. cbn [fst deeper charge nesting] in Hr |- *. lia.
  Qed.
End NestLen.

Lemma mseq_with_nl : forall R ps,
  Forall (fun p : bytes -> mres bytes => (forall b, mok b (p b)) /\ forall b, nesting (fst (p b)) <= R + 2 * blen b) ps ->
  forall B bs, R + 2 * blen bs <= B -> nesting (fst (mseq_with ps bs)) <= B.
Proof.
  intros R ps HF B. induction HF as [|p ps' [Hp Hn] HF' IH]; intros bs HB; cbn [mseq_with]; [cbn; lia|].
  pose proof (Hn bs) as Hx. pose proof (mok_rest bs _ (Hp bs)) as Hr.
  destruct (p bs) as [m [[x rest]|l| |]]; cbn [fst snd] in Hx, Hr |- *; try lia.
  pose proof (IH rest ltac:(lia)) as Hy. destruct (mseq_with ps' rest) as [m' r'].
  cbn [fst madd charge nesting] in Hy |- *. lia.
Qed.

Lemma mentry_nl : forall Rk Rv (pk pv : bytes -> mres bytes),
  (forall b, mok b (pk b)) ->
  (forall b, nesting (fst (pk b)) <= Rk + 2 * blen b) -> (forall b, nesting (fst (pv b)) <= Rv + 2 * blen b) ->
  forall b, nesting (fst (mentry pk pv b)) <= (1 + N.max Rk Rv) + 2 * blen b.
Proof.
  intros Rk Rv pk pv Hk Hnk Hnv b. unfold mentry.
  pose proof (Hnk b) as Hx. pose proof (mok_rest b _ (Hk b)) as Hr.
  destruct (pk b) as [mk [[k r1]|l| |]]; cbn [fst snd deeper nesting] in Hx, Hr |- *; try lia.
  pose proof (Hnv r1) as Hy. destruct (pv r1) as [mv [[v r2]|l| |]]; cbn [fst deeper madd charge nesting] in Hy |- *; lia.
Qed.

Section BodyNestLen.
  Variable c : wcfg.
  Hypothesis Hde : string_reader_drops_err c = false.
  Variable dyn obj : bytes -> mres bytes.
  Variable Do : N.
  Hypothesis Hdyn : forall bs, mok bs (dyn bs).
  Hypothesis Hobj : forall bs, mok bs (obj bs).
  Hypothesis Hdn : forall b, nesting (fst (dyn b)) <= 1 + 2 * blen b.
  Hypothesis Hon : forall b, nesting (fst (obj b)) <= Do.

  Lemma sig_copy_body_nl : forall t bs, nesting (fst (sig_copy_body c dyn obj t bs)) <= rdepth_g 1 Do t + 2 * blen bs.
  Proof.
    induction t as [s|t' IH|tk tv IHk IHv|ts IH|name fs IH] using ty_ind2; intro bs.
    - destruct s; cbn [sig_copy_body rdepth_g]; try (rewrite mleaf_nest; lia).
      + apply Hdn.
      + pose proof (Hon bs). lia.
    - cbn [sig_copy_body rdepth_g]. apply mvar_nl; [|exact IH].
      intro b. apply sig_copy_body_ok; assumption.
    - cbn [sig_copy_body rdepth_g].
      replace (2 + N.max (rdepth_g 1 Do tk) (rdepth_g 1 Do tv) + 2 * blen bs)
        with ((1 + (1 + N.max (rdepth_g 1 Do tk) (rdepth_g 1 Do tv))) + 2 * blen bs) by lia.
      apply mvar_nl.
      + intro b. apply mentry_ok; intro b'; apply sig_copy_body_ok; assumption.
      + apply mentry_nl; [intro b; apply sig_copy_body_ok; assumption|exact IHk|exact IHv].
    - cbn [sig_copy_body rdepth_g]. unfold mcat. cbn [fst deeper nesting].
      set (D := fold_right (fun t a => N.max (rdepth_g 1 Do t) a) 0 ts).
      enough (H : nesting (fst (mseq_with (map (sig_copy_body c dyn obj) ts) bs)) <= D + 2 * blen bs) by lia.
      apply (mseq_with_nl D); [|lia]. apply Forall_forall. intros q Hq. apply in_map_iff in Hq as (t & <- & Hin).
      split; [intro b; apply sig_copy_body_ok; assumption|]. intro b. rewrite Forall_forall in IH.
      pose proof (IH t Hin b) as Ht. pose proof (fold_max_in (rdepth_g 1 Do) ts t Hin) as Hm. fold D in Hm. lia.
    - cbn [sig_copy_body rdepth_g]. unfold mcat. cbn [fst deeper nesting].
      set (D := fold_right (fun f a => N.max (rdepth_g 1 Do (snd f)) a) 0 fs).
      enough (H : nesting (fst (mseq_with (map (fun f => sig_copy_body c dyn obj (snd f)) fs) bs)) <= D + 2 * blen bs) by lia.
      apply (mseq_with_nl D); [|lia]. apply Forall_forall. intros q Hq. apply in_map_iff in Hq as (f & <- & Hin).
      split; [intro b; apply sig_copy_body_ok; assumption|]. intro b. rewrite Forall_forall in IH.
      pose proof (IH f Hin b) as Ht. pose proof (fold_max_in (fun f => rdepth_g 1 Do (snd f)) fs f Hin) as Hm. fold D in Hm. lia.
  Qed.
End BodyNestLen.

Section SigCopyNestLen.
  Variable parse : string -> option ty.
  Variable c : wcfg.
  Hypothesis Hde : string_reader_drops_err c = false.
  (* what signature.Parse satisfies (parse_opt_rdepth) *)
  Hypothesis Hparse : forall s t, parse s = Some t -> rdepth t <= 2 * N.of_nat (String.length s) + 8.

  Lemma mvalue_nl : forall inner : ty -> bytes -> mres bytes,
    (forall t b, nesting (fst (inner t b)) <= rdepth t + 2 * blen b) ->
    forall b, nesting (fst (mvalue parse c inner b)) <= 1 + 2 * blen b.
  Proof.
    intros inner Hin b. unfold mvalue. pose proof (read_str_lens b) as Hs.
    destruct (read_str b) as [[sg r]|l| |]; try (cbn [mfail fst nesting]; lia).
    destruct (parse (string_of_bytes sg)) as [t'|] eqn:E; [|cbn [mfail fst nesting]; lia].
    apply Hparse in E. rewrite string_of_bytes_length in E. fold (blen sg) in E.
    pose proof (Hin t' r) as Hr. destruct (inner t' r) as [m [[d r']|l| |]]; cbn [fst deeper charge nesting] in Hr |- *; lia.
  Qed.

  Lemma sig_copy_nl : forall fuel t bs, nesting (fst (sig_copy parse c fuel t bs)) <= rdepth t + 2 * blen bs.
  Proof.
    induction fuel as [|f IH]; intros t bs; cbn [sig_copy]; unfold rdepth.
    - apply (sig_copy_body_nl c Hde _ _ rdepth_obj).
      + intro b. apply mfail_ok. exact I.
      + apply sig_copy_obj_ok. exact Hde.
      + intro b. cbn [mfail fst nesting]. lia.
      + intro b. apply sig_copy_obj_nest.
    - apply (sig_copy_body_nl c Hde _ _ rdepth_obj).
      + apply mvalue_ok; [exact Hde|]. intros t' b. apply sig_copy_ok. exact Hde.
      + apply sig_copy_obj_ok. exact Hde.
      + apply mvalue_nl. exact IH.
      + intro b. apply sig_copy_obj_nest.
  Qed.

  (* CLOSED BOUND: the reader copies at most (nesting of the type + 2 |input|) * |input| bytes *)
  Theorem sig_copy_quadratic : forall fuel t bs,
    copied (fst (sig_copy parse c fuel t bs)) <= (rdepth t + 2 * blen bs) * blen bs.
  Proof.
    intros fuel t bs. apply (mul_le_l _ _ _ _ (sig_copy_bound_len parse c Hde fuel t bs)). apply sig_copy_nl.
  Qed.
End SigCopyNestLen.

Print Assumptions sig_copy_read.
Print Assumptions sig_copy_bound.
Print Assumptions sig_copy_static_linear.
Print Assumptions sig_copy_quadratic.
Print Assumptions sig_copied_nested.
Print Assumptions sig_copy_not_linear.
Print Assumptions parse_depth_spec.
Print Assumptions decl_m_stable.
Print Assumptions parse_depth_le_open_count.
Print Assumptions parse_depth_brackets_eq.
Print Assumptions parse_depth_nested_list_eq.
Print Assumptions parse_depth_unbounded.
Print Assumptions parse_depth_ty.
