(* DepthCostProofs.v — theorems about DepthCost.v (C07):
   1. sig_copy is sig_read with a meter (same outcome on every input);
      copied <= nest * (bytes consumed) on every input, every outcome (sig_copy_bound);
      no linear bound: n nested dynamic values, 5 (n + 1) bytes, copy 5 (n + 1) (n + 2) / 2 bytes
      (nested_m_copy, sig_copy_not_linear);
   2. the signature parser needs at most (number of opening brackets + 1) nested entries of the type
      rule (parse_depth_le_opens) and exactly n + 1 on n opening square brackets (parse_depth_opens). *)
From Coq Require Import ZifyN ZifyNat ZifyBool.
From QV Require Import DepthCost.
Local Open Scope N_scope.

(* ================= 1a. sig_copy has the outcome of sig_read ================= *)
Section Agree.
  Variable p : bytes -> mres bytes.
  Variable q : bytes -> Wire.res (bytes * bytes).
  Hypothesis Hpq : forall b, snd (p b) = q b.

  Lemma mrep_nat_snd : forall k bs, snd (mrep_nat p k bs) = rep_nat q k bs.
  Proof.
    induction k as [|k IH]; intro bs; cbn [mrep_nat rep_nat]; [reflexivity|].
    rewrite <- (Hpq bs). destruct (p bs) as [m [[x rest]|l| |]]; cbn [snd]; try reflexivity.
    rewrite <- (IH rest). destruct (mrep_nat p k rest) as [m' r']. reflexivity.
  Qed.

  Lemma mrep_slow_snd : forall fuel n bs acc ma, snd (mrep_slow p fuel n bs acc ma) = rep_slow q fuel n bs acc.
  Proof.
    induction fuel as [|f IH]; intros n bs acc ma; cbn [mrep_slow rep_slow].
    - destruct (n =? 0); reflexivity.
    - destruct (n =? 0); [reflexivity|].
      rewrite <- (Hpq bs). destruct (p bs) as [m [[d bs']|l| |]]; cbn [snd]; try reflexivity.
      destruct (Nat.ltb (List.length bs') (List.length bs)); [apply IH|reflexivity].
  Qed.

  Lemma mrep_snd : forall n bs, snd (mrep p n bs) = rep q n bs.
  Proof.
    intros n bs. unfold mrep, rep. destruct (N.of_nat (List.length bs) <? n).
    - apply mrep_slow_snd.
    - apply mrep_nat_snd.
  Qed.

  Lemma mvar_snd : forall bs, snd (mvar p bs) =
    (do '(n, r) <- read_num 4 bs; do '(d, r') <- cat_res (rep q n r); ROk (enc_u32 n ++ d, r')).
  Proof.
    intro bs. unfold mvar. destruct (read_num 4 bs) as [[n r]|l| |]; cbn [bind snd]; try reflexivity.
    rewrite <- (mrep_snd n r). destruct (mrep p n r) as [m x]. reflexivity.
  Qed.
End Agree.

Lemma mseq_with_snd : forall {X} (l : list X) (f : X -> bytes -> mres bytes) (g : X -> bytes -> Wire.res (bytes * bytes)),
  Forall (fun x => forall b, snd (f x b) = g x b) l ->
  forall bs, snd (mseq_with (map f l) bs) = seq_with (map g l) bs.
Proof.
  intros X l f g HF. induction HF as [|x l' Hx HF' IH]; intro bs; cbn [map mseq_with seq_with]; [reflexivity|].
  rewrite <- (Hx bs). destruct (f x bs) as [m [[d rest]|e| |]]; cbn [snd]; try reflexivity.
  rewrite <- (IH rest). destruct (mseq_with (map f l') rest) as [m' r']. reflexivity.
Qed.

Lemma mentry_snd : forall (pk pv : bytes -> mres bytes) (qk qv : bytes -> Wire.res (bytes * bytes)),
  (forall b, snd (pk b) = qk b) -> (forall b, snd (pv b) = qv b) ->
  forall b, snd (mentry pk pv b) = (do '(kv, r2) <- pair_with qk qv b; ROk (fst kv ++ snd kv, r2)).
Proof.
  intros pk pv qk qv Hk Hv b. unfold mentry, pair_with. rewrite <- (Hk b).
  destruct (pk b) as [mk [[k r1]|l| |]]; cbn [snd bind]; try reflexivity.
  rewrite <- (Hv r1). destruct (pv r1) as [mv [[v r2]|l| |]]; reflexivity.
Qed.

Section AgreeBody.
  Variable c : wcfg.
  Variable dyn obj : bytes -> mres bytes.
  Variable dyn' obj' : bytes -> Wire.res (bytes * bytes).
  Hypothesis Hdyn : forall b, snd (dyn b) = dyn' b.
  Hypothesis Hobj : forall b, snd (obj b) = obj' b.

  Lemma mleaf_snd : forall r, snd (mleaf r) = r.
  Proof. intros [[d rest]|l| |]; reflexivity. Qed.

  Lemma sig_copy_body_snd : forall t bs, snd (sig_copy_body c dyn obj t bs) = sig_body c dyn' obj' t bs.
  Proof.
    induction t as [s|t' IH|tk tv IHk IHv|ts IH|name fs IH] using ty_ind2; intro bs.
    - destruct s; cbn [sig_copy_body sig_body]; try apply mleaf_snd; [apply Hdyn|apply Hobj].
    - cbn [sig_copy_body sig_body]. apply mvar_snd. exact IH.
    - cbn [sig_copy_body sig_body]. apply mvar_snd. apply mentry_snd; assumption.
    - cbn [sig_copy_body sig_body]. unfold mcat. cbn [snd]. f_equal. apply mseq_with_snd. exact IH.
    - cbn [sig_copy_body sig_body]. unfold mcat. cbn [snd]. f_equal.
      apply (mseq_with_snd fs (fun f => sig_copy_body c dyn obj (snd f)) (fun f => sig_body c dyn' obj' (snd f))).
      exact IH.
  Qed.
End AgreeBody.

Lemma sig_copy_obj_snd : forall c b, snd (sig_copy_obj c b) = sig_obj c b.
Proof. intros c b. unfold sig_copy_obj, sig_obj. apply sig_copy_body_snd; intro b'; reflexivity. Qed.

(* sig_copy is sig_read with a meter: the same value, rest or error on every input and fuel *)
Theorem sig_copy_read : forall parse c fuel t bs, snd (sig_copy parse c fuel t bs) = sig_read parse c fuel t bs.
Proof.
  intros parse c fuel. induction fuel as [|f IH]; intros t bs.
  - cbn [sig_copy sig_read]. apply sig_copy_body_snd; [intro b; reflexivity|apply sig_copy_obj_snd].
  - cbn [sig_copy sig_read]. apply sig_copy_body_snd; [|apply sig_copy_obj_snd].
    intro b. unfold mvalue. destruct (read_str b) as [[sg r]|l| |]; cbn [bind]; try reflexivity.
    destruct (parse (string_of_bytes sg)) as [t'|]; [|reflexivity].
    rewrite <- (IH t' r). destruct (sig_copy parse c f t' r) as [m [[d r']|l| |]]; reflexivity.
Qed.
