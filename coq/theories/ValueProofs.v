(* ValueProofs.v — dynamic values (type/value/value.go): NewValue reads back what Write wrote,
   for every well-formed value (design/WIRE_THEOREMS.md, section ValueProofs.v; property C02). *)
From Coq Require Import ZifyN ZifyNat ZifyBool.
From QV Require Import Value WireLemmas WireProofs.
Local Open Scope N_scope.

Inductive wf_dval : dval -> Prop :=
| wf_num  : forall k b, b < 2 ^ (8 * N.of_nat (dkind_width k)) -> (k = KBool -> b <= 1) -> wf_dval (DNum k b)
| wf_str  : forall s, N.of_nat (List.length s) <= MaxStringSize -> wf_dval (DStr s)
| wf_list : forall l, N.of_nat (List.length l) <= listValueMaxSize -> Forall wf_dval l -> wf_dval (DList l)
| wf_raw  : forall b, N.of_nat (List.length b) <= rawValueMaxSize -> wf_dval (DRaw b)
| wf_void : wf_dval DVoid
| wf_opq  : forall t v, wf_ty t = true -> lookup (print t) dispatch_table = DOther -> print t <> "o"%string ->
            N.of_nat (String.length (print t)) <= MaxStringSize -> has_ty v t = true ->
            wf_dval (DOpaque (bytes_of_string (print t)) (spec_enc v)).

Lemma wf_dval_inv : forall v, wf_dval v ->
  match v with
  | DNum k b => b < 2 ^ (8 * N.of_nat (dkind_width k)) /\ (k = KBool -> b <= 1)
  | DStr s => N.of_nat (List.length s) <= MaxStringSize
  | DList l => N.of_nat (List.length l) <= listValueMaxSize /\ Forall wf_dval l
  | DRaw b => N.of_nat (List.length b) <= rawValueMaxSize
  | DVoid => True
  | DOpaque sg d => exists t v0, sg = bytes_of_string (print t) /\ d = spec_enc v0 /\
      wf_ty t = true /\ lookup (print t) dispatch_table = DOther /\ print t <> "o"%string /\
      N.of_nat (String.length (print t)) <= MaxStringSize /\ has_ty v0 t = true
  end.
Proof.
  intros v H. destruct H as [k b Hb Hk|s Hs|l Hn Hall|b Hn| |t v0 Hg Hl Hno Hs Hty]; auto.
  exists t, v0. repeat split; assumption.
Qed.

(* nesting of lists: the fuel NewValue needs *)
Fixpoint ddepth (v : dval) : nat :=
  match v with
  | DList l => S (fold_right (fun x a => Nat.max (ddepth x) a) 0%nat l)
  | _ => 0%nat
  end.

Lemma ddepth_In : forall (l : list dval) x, In x l ->
  (ddepth x <= fold_right (fun x a => Nat.max (ddepth x) a) 0 l)%nat.
Proof.
  induction l as [|y l IH]; intros x Hx; [elim Hx|].
  cbn [fold_right]. destruct Hx as [E|Hx]; [subst y; lia|]. apply IH in Hx. lia.
Qed.

Lemma sig_bytes_length : forall s, List.length (sig_bytes s) = (4 + String.length s)%nat.
Proof. intro s. unfold sig_bytes. now rewrite enc_str_length, length_bytes_of_string. Qed.

Lemma enc_dval_length_ge : forall v, (4 <= List.length (enc_dval v))%nat.
Proof.
  intro v. destruct v as [k b|s|l|b| |sg d]; cbn [enc_dval];
    rewrite ?app_length, ?sig_bytes_length, ?enc_str_length; lia.
Qed.

Lemma ddepth_le_len : forall v, (ddepth v <= List.length (enc_dval v))%nat.
Proof.
  induction v as [k b|s|l IH|b| |sg d] using dval_ind2; cbn [ddepth]; try lia.
  cbn [enc_dval]. rewrite !app_length, sig_bytes_length, le_length.
  assert (H : (fold_right (fun x a => Nat.max (ddepth x) a) 0 l <= List.length (flat_map enc_dval l))%nat).
  { induction IH as [|x r Hx Hr IHr]; [cbn; lia|].
    cbn [fold_right flat_map]. rewrite app_length. lia. }
  cbn [String.length]. lia.
Qed.

Lemma lookup_letter : forall k, lookup (dkind_letter k) dispatch_table = DKind k.
Proof. intro k. destruct k; reflexivity. Qed.

Lemma read_sig : forall s rest, N.of_nat (String.length s) <= MaxStringSize ->
  read_str (sig_bytes s ++ rest) = ROk (bytes_of_string s, rest).
Proof.
  intros s rest Hs. unfold sig_bytes. apply read_str_enc. now rewrite length_bytes_of_string.
Qed.

Lemma letter_len : forall k, N.of_nat (String.length (dkind_letter k)) <= MaxStringSize.
Proof. intro k. apply N.leb_le. destruct k; reflexivity. Qed.

Section P.
  Variable parse : string -> option ty.
  Hypothesis parse_print : forall t, wf_ty t = true -> parse (print t) = Some t.
  Variable c : wcfg.

  Definition dval_exact (v : dval) : Prop :=
    wf_dval v -> forall f, (ddepth v <= f)%nat -> exact (dec_dval parse c (S f)) v (enc_dval v).

  Lemma dval_exact_num : forall k b, dval_exact (DNum k b).
  Proof.
    intros k b Hwf f _ rest. apply wf_dval_inv in Hwf as [Hb Hbool].
    cbn [dec_dval enc_dval]. rewrite <- app_assoc, read_sig by apply letter_len. cbn [bind].
    rewrite string_of_bytes_of_string, lookup_letter.
    destruct k; cbn [dkind_width] in Hb |- *; rewrite read_num_le by exact Hb; cbn [bind]; try reflexivity.
    specialize (Hbool eq_refl).
    replace (if b =? 0 then 0 else 1) with b by (destruct (N.eqb_spec b 0); lia). reflexivity.
  Qed.

  Lemma dval_exact_str : forall s, dval_exact (DStr s).
  Proof.
    intros s Hwf f _ rest. apply wf_dval_inv in Hwf.
    cbn [dec_dval enc_dval]. rewrite <- app_assoc, read_sig by (apply N.leb_le; reflexivity). cbn [bind].
    rewrite string_of_bytes_of_string. change (lookup "s" dispatch_table) with DString. cbv iota.
    rewrite read_str_enc by exact Hwf. reflexivity.
  Qed.

  Lemma dval_exact_raw : forall b, dval_exact (DRaw b).
  Proof.
    intros b Hwf f _ rest. apply wf_dval_inv in Hwf.
    cbn [dec_dval enc_dval]. repeat rewrite <- app_assoc. rewrite read_sig by (apply N.leb_le; reflexivity). cbn [bind].
    rewrite string_of_bytes_of_string. change (lookup "r" dispatch_table) with DRawD. cbv iota.
    unfold rawValueMaxSize in Hwf.
    rewrite read_num_le by (change (2 ^ (8 * N.of_nat 4)) with 4294967296; lia). cbn [bind].
    replace (rawValueMaxSize <? N.of_nat (List.length b)) with false
      by (symmetry; apply N.ltb_ge; unfold rawValueMaxSize; lia).
    rewrite Nat2N.id, take_n_app. reflexivity.
  Qed.

  Lemma dval_exact_void : dval_exact DVoid.
  Proof.
    intros _ f _ rest.
    cbn [dec_dval enc_dval]. rewrite read_sig by (apply N.leb_le; reflexivity). cbn [bind].
    rewrite string_of_bytes_of_string. reflexivity.
  Qed.

  Lemma dval_exact_list : forall l, Forall dval_exact l -> dval_exact (DList l).
  Proof.
    intros l IH Hwf f Hf rest. apply wf_dval_inv in Hwf as [Hn Hall].
    cbn [ddepth] in Hf. destruct f as [|f]; [lia|].
    cbn [dec_dval enc_dval]. repeat rewrite <- app_assoc. rewrite read_sig by (apply N.leb_le; reflexivity). cbn [bind].
    rewrite string_of_bytes_of_string. change (lookup "[m]" dispatch_table) with DListM. cbv iota.
    unfold listValueMaxSize in Hn.
    rewrite read_num_le by (change (2 ^ (8 * N.of_nat 4)) with 4294967296; lia). cbn [bind].
    replace (listValueMaxSize <? N.of_nat (List.length l)) with false
      by (symmetry; apply N.ltb_ge; unfold listValueMaxSize; lia).
    rewrite (rep_exact enc_dval (dec_dval parse c (S f)) l _ eq_refl); [reflexivity| |].
    - rewrite Forall_forall in IH, Hall |- *. intros x Hx.
      apply (IH x Hx (Hall x Hx)). pose proof (ddepth_In l x Hx) as Hd. lia.
    - left. apply (proj2 (Forall_map enc_dval (fun e => (1 <= List.length e)%nat) l)).
      apply Forall_forall. intros x _. pose proof (enc_dval_length_ge x) as Hge. cbv beta. lia.
  Qed.

  Lemma dval_exact_opq : value_reader_no_len c = false -> forall sg d, dval_exact (DOpaque sg d).
  Proof.
    intros Hvr sg d Hwf f _ rest.
    apply wf_dval_inv in Hwf as [t [v0 [Esg [Ed [Hg [Hlook [Hno [Hlen Hty]]]]]]]]. subst sg d.
    cbn [dec_dval enc_dval]. rewrite <- app_assoc.
    rewrite read_str_enc by (rewrite length_bytes_of_string; exact Hlen). cbn [bind].
    rewrite string_of_bytes_of_string, Hlook. cbv iota.
    apply String.eqb_neq in Hno. rewrite Hno. cbv zeta.
    rewrite string_of_bytes_of_string, (parse_print t Hg).
    rewrite (sig_read_spec parse parse_print c v0 t); [reflexivity|exact Hvr|exact Hg|exact Hty|].
    pose proof (dyn_depth_le_len v0 t Hty) as Hd. rewrite app_length. lia.
  Qed.

  Lemma dec_dval_exact : forall v, value_reader_no_len c = false -> dval_exact v.
  Proof.
    intros v Hvr. induction v as [k b|s|l IH|b| |sg d] using dval_ind2.
    - apply dval_exact_num.
    - apply dval_exact_str.
    - now apply dval_exact_list.
    - apply dval_exact_raw.
    - apply dval_exact_void.
    - now apply dval_exact_opq.
  Qed.

  Theorem value_roundtrip : forall v rest, value_reader_no_len c = false -> wf_dval v ->
    new_value parse c (enc_dval v ++ rest) = ROk (v, rest).
  Proof.
    intros v rest Hvr Hwf. unfold new_value.
    apply (dec_dval_exact v Hvr Hwf).
    pose proof (ddepth_le_len v) as Hd. rewrite app_length. lia.
  Qed.

  (* ---------- refutations ---------- *)
  (* Write accepts a list longer than listValueMaxSize; NewValue refuses what Write wrote *)
  Example value_unbounded_refuted :
    let v := DList (repeat DVoid 4097) in
    new_value parse c (enc_dval v) = RErr (flat_map enc_dval (repeat DVoid 4097)).
  Proof. vm_compute. reflexivity. Qed.

  (* valueReader without the length prefix: a dynamic value inside opaque data is not copied as it is *)
  Example sig_read_value_refuted : forall c', value_reader_no_len c' = true ->
    let v := VDyn (TS SI32) (VNum 4 5) in
    has_ty v (TS SValue) = true /\
    exists d, sig_read parse c' 1 (TS SValue) (spec_enc v) = ROk (d, []) /\ d <> spec_enc v.
  Proof.
    intros c' Hc'. split; [reflexivity|].
    cbn [sig_read sig_body spec_enc].
    rewrite read_str_enc by (apply N.leb_le; reflexivity). cbn [bind].
    rewrite string_of_bytes_of_string, (parse_print (TS SI32) eq_refl), Hc'.
    eexists. split; [vm_compute; reflexivity|]. vm_compute. discriminate.
  Qed.
End P.

Print Assumptions value_roundtrip.
Print Assumptions value_unbounded_refuted.
Print Assumptions sig_read_value_refuted.
