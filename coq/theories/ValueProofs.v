(* ValueProofs.v — dynamic values (type/value/value.go): NewValue reads back what Write wrote,
   for every well-formed value (design/WIRE_THEOREMS.md, section ValueProofs.v; property C02). *)
From Coq Require Import ZifyN ZifyNat ZifyBool.
From QV Require Import Value WireLemmas WireProofs.
Local Open Scope N_scope.

Inductive wf_dval : dval -> Prop :=
| wf_num  : forall k b, b < 2 ^ (8 * N.of_nat (dkind_width k)) -> (k = KBool -> b <= 1) -> wf_dval (DNum k b)
| wf_str  : forall s, N.of_nat (List.length s) <= MaxStringSize -> wf_dval (DStr s)
| wf_list : forall l, N.of_nat (List.length l) <= listValueMaxSize -> Forall wf_dval l -> wf_dval (DList l)
| wf_raw  : forall b, N.of_nat (List.length b) <= rawValueMaxSize -> wf_dval (DRaw b)
| wf_void : wf_dval DVoid
| wf_opq  : forall t v, good_ty t = true -> lookup (print t) dispatch_table = DOther -> print t <> "o"%string ->
            N.of_nat (String.length (print t)) <= MaxStringSize -> has_ty v t = true ->
            wf_dval (DOpaque (bytes_of_string (print t)) (spec_enc v)).

Lemma wf_dval_inv : forall v, wf_dval v ->
  match v with
  | DNum k b => b < 2 ^ (8 * N.of_nat (dkind_width k)) /\ (k = KBool -> b <= 1)
  | DStr s => N.of_nat (List.length s) <= MaxStringSize
  | DList l => N.of_nat (List.length l) <= listValueMaxSize /\ Forall wf_dval l
  | DRaw b => N.of_nat (List.length b) <= rawValueMaxSize
  | DVoid => True
  | DOpaque sg d => exists t v0, sg = bytes_of_string (print t) /\ d = spec_enc v0 /\
      good_ty t = true /\ lookup (print t) dispatch_table = DOther /\ print t <> "o"%string /\
      N.of_nat (String.length (print t)) <= MaxStringSize /\ has_ty v0 t = true
  end.
Proof.
  intros v H. destruct H as [k b Hb Hk|s Hs|l Hn Hall|b Hn| |t v0 Hg Hl Hno Hs Hty]; auto.
  exists t, v0. repeat split; assumption.
Qed.

(* nesting of lists: the fuel NewValue needs *)
Fixpoint ddepth (v : dval) : nat :=
  match v with
  | DList l => S (fold_right (fun x a => Nat.max (ddepth x) a) 0%nat l)
  | _ => 0%nat
  end.

Lemma ddepth_In : forall (l : list dval) x, In x l ->
  (ddepth x <= fold_right (fun x a => Nat.max (ddepth x) a) 0 l)%nat.
Proof.
  induction l as [|y l IH]; intros x Hx; [elim Hx|].
  cbn [fold_right]. destruct Hx as [E|Hx]; [subst y; lia|]. apply IH in Hx. lia.
Qed.

Lemma sig_bytes_length : forall s, List.length (sig_bytes s) = (4 + String.length s)%nat.
Proof. intro s. unfold sig_bytes. now rewrite enc_str_length, length_bytes_of_string. Qed.

Lemma enc_dval_length_ge : forall v, (4 <= List.length (enc_dval v))%nat.
Proof.
  intro v. destruct v as [k b|s|l|b| |sg d]; cbn [enc_dval];
    rewrite ?app_length, ?sig_bytes_length, ?enc_str_length; lia.
Qed.

Lemma ddepth_le_len : forall v, (ddepth v <= List.length (enc_dval v))%nat.
Proof.
  induction v as [k b|s|l IH|b| |sg d] using dval_ind2; cbn [ddepth]; try lia.
  cbn [enc_dval]. rewrite !app_length, sig_bytes_length, le_length.
  assert (H : (fold_right (fun x a => Nat.max (ddepth x) a) 0 l <= List.length (flat_map enc_dval l))%nat).
  { induction IH as [|x r Hx Hr IHr]; [cbn; lia|].
    cbn [fold_right flat_map]. rewrite app_length. lia. }
  cbn [String.length]. lia.
Qed.
