(* Reader.v — Go's io.Reader / io.Writer contract as used by basic.ReadN / basic.WriteN
   (type/basic/basic.go).  A source is the remaining bytes plus a fragmentation
   schedule: entry (k, e) says the next Read call returns at most k bytes and, when e
   is set and this call drains the source, returns io.EOF together with the data.
   With the schedule exhausted a Read returns everything that fits in the buffer and
   reports io.EOF only on the following (empty) call. *)
From QV Require Export Bytes.
Local Open Scope nat_scope.

Inductive err := EEOF | EOther.
Inductive result (A : Type) := Ok (a : A) | Err (e : err).
Arguments Ok {A} a.
Arguments Err {A} e.

Record src := { s_data : bytes; s_sched : list (nat * bool) }.

(* one Read(buf) with len(buf) = L > 0 : bytes returned, err == io.EOF ?, source afterwards *)
Definition read1 (L : nat) (s : src) : bytes * bool * src :=
  let '(k, e, sch) :=
    match s_sched s with
    | [] => (L, false, [])
    | (k, e) :: r => (k, e, r)
    end in
  match s_data s with
  | [] => ([], true, {| s_data := []; s_sched := sch |})
  | _ =>
      let m := Nat.min k (Nat.min L (List.length (s_data s))) in
      let rest := skipn m (s_data s) in
      (firstn m (s_data s),
       match rest with [] => e | _ => false end,
       {| s_data := rest; s_sched := sch |})
  end.

(* the decision taken by one iteration of ReadN's loop, after a Read that returned
   [read] bytes with [eof]; [size] already includes [read]. *)
Inductive loopdec := LContinue | LBreak | LEOF | LFail.
Definition readN_decide (read size length : nat) (eof : bool) : loopdec :=
  if negb eof && negb (Nat.eqb read 0) then LContinue
  else if eof && Nat.eqb size length then LBreak
  else if eof && Nat.eqb size 0 then LEOF
  else LFail.

(* ReadN(r, buf, length) with len(buf) = length.  Fuel bounds the number of loop
   iterations; readN gives it |schedule| + 2, which is always enough (readN_fuel_enough
   in ReaderProofs.v: running out is unreachable). *)
Fixpoint readN_loop (fuel : nat) (length : nat) (acc : bytes) (s : src) : option (result (bytes * src) * src) :=
  if Nat.leb length (List.length acc) then Some (Ok (acc, s), s)
  else
    match fuel with
    | O => None
    | S fuel' =>
        let '(got, eof, s') := read1 (length - List.length acc) s in
        let acc' := acc ++ got in
        match readN_decide (List.length got) (List.length acc') length eof with
        | LContinue => readN_loop fuel' length acc' s'
        | LBreak => Some (Ok (acc', s'), s')
        | LEOF => Some (Err EEOF, s')
        | LFail => Some (Err EOther, s')
        end
    end.

(* result, and the source as left behind (also on error: how far the reader got) *)
Definition readN_full (length : nat) (s : src) : option (result (bytes * src) * src) :=
  readN_loop (List.length (s_sched s) + 2) length [] s.

(* ---------- writer ---------- *)
(* a writer schedule: how many bytes each Write call accepts (then default: all). *)
Record wr := { w_calls : list bytes; w_sched : list nat }.

Definition write1 (buf : bytes) (w : wr) : nat * wr :=
  match w_sched w with
  | [] => (List.length buf, {| w_calls := w_calls w ++ [buf]; w_sched := [] |})
  | k :: r => let m := Nat.min k (List.length buf) in
              (m, {| w_calls := w_calls w ++ [firstn m buf]; w_sched := r |})
  end.

(* WriteN(w, buf, length): while size < length { n := w.Write(buf[size:]); size += n }.
   The writer never reports an error here; accepting zero bytes is "no progress".
   [rest] is buf[size:], [todo] is what remains of [length]. *)
Fixpoint writeN_loop (fuel : nat) (todo : nat) (rest : bytes) (w : wr) : option (result wr) :=
  match todo with
  | O => Some (Ok w)
  | _ =>
      match fuel with
      | O => None
      | S fuel' =>
          let '(m, w') := write1 rest w in
          if Nat.eqb m 0 then Some (Err EOther) else writeN_loop fuel' (todo - m) (skipn m rest) w'
      end
  end.
Definition writeN (buf : bytes) (length : nat) (w : wr) : option (result wr) :=
  writeN_loop (List.length (w_sched w) + 1) length buf w.
