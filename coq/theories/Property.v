(* Property.v — executable model of a property of a qiloop object as a typed register:
   bus/object.go (objectImpl.SetProperty / Property / saveProperty, stubObject.UpdateProperty),
   the generated validator (meta/stub/stub.go: onPropertyChange decodes the payload with the
   declared type and calls On<Prop>Change), the notification (signalHandler.UpdateProperty), and
   the generated getter's signature check (meta/idl/proxy.go).

   The object modelled is the one the harness runs: examples/space's Bomb — one property
   "delay" (uid 101, signature "i") whose implementor-side validator [valid] belongs to the
   harness.  Every theorem holds for every validator.

   Part 1: the sequential specification [pstep] (one whole operation per step).
   Part 2: a labelled transition system with the code's real atomicity — a write is
           check (name, payload decoding, validator: no shared state) ; save (under
           propertiesMutex) ; notify (signalHandler, after the lock is released) — many
           threads, arbitrary interleaving.  PropertyProofs.v shows that every history of
           part 2 is linearizable with respect to part 1.

   Defect switch of the pinned code: [store_untyped]. *)
From Coq Require Import NArith List Bool String Ascii.
From QV Require Import Bytes.
Import ListNotations.
Local Open Scope N_scope.

Record pcfg := { store_untyped : bool }.   (* a value whose bytes happen to decode is stored under its own signature *)
Definition pcfg_clean : pcfg := {| store_untyped := false |}.
Definition pcfg_pinned : pcfg := {| store_untyped := true |}.
Definition pclean (c : pcfg) : Prop := store_untyped c = false.

Definition prop_name : string := "delay".
Definition prop_uid : N := 101.
Definition prop_sig : string := "i".

(* a dynamic value as it travels: signature and data bytes *)
Record cval := { cv_sig : string; cv_data : bytes }.
(* the name argument of property / setProperty: a string value, an unsigned value, anything else *)
Inductive pname := NmStr (s : string) | NmUint (n : N) | NmOther.

Inductive pop :=
| PGet (nm : pname)                   (* remote property(name) *)
| PSet (nm : pname) (v : cval)        (* remote setProperty(name, value) *)
| PUpdate (x : N)                     (* the implementor's Update<Prop>(x) helper: stubObject.UpdateProperty(uid, "i", le32 x) *)
| PSubscribe (c : nat) (mid : N).     (* registerEvent(uid) from connection c, message id mid *)
Inductive pres := RVal (v : cval) | RFail | RDone.

Definition subscriber := (nat * N)%type.
Definition pevent := (subscriber * bytes)%type.     (* event frame: to whom, payload *)
Record pstate := { p_val : option cval; p_subs : list subscriber }.
Definition pinit : pstate := {| p_val := None; p_subs := [] |}.

(* basic.ReadInt32 on the payload: four bytes, whatever follows is ignored *)
Definition dec_i32 (d : bytes) : option N :=
  if Nat.leb 4 (List.length d) then Some (unle (firstn 4 d)) else None.
(* generated onPropertyChange for "delay" *)
Definition validate (valid : N -> bool) (d : bytes) : bool :=
  match dec_i32 d with Some x => valid x | None => false end.

Definition is_typed (v : cval) : bool :=
  String.eqb (cv_sig v) prop_sig && Nat.eqb (List.length (cv_data v)) 4.

(* objectImpl.SetProperty: which property name the validator is asked about *)
Definition set_name (nm : pname) : option string :=
  match nm with
  | NmStr s => Some s
  | NmUint n => if n =? prop_uid then Some prop_name else None
  | NmOther => None
  end.

(* the checks a write goes through before anything shared is touched: Some v = the value to store *)
Definition check (c : pcfg) (valid : N -> bool) (o : pop) : option cval :=
  match o with
  | PSet nm v =>
      match set_name nm with
      | Some n =>
          if String.eqb n prop_name && validate valid (cv_data v) && (is_typed v || store_untyped c)
          then Some v else None
      | None => None
      end
  | PUpdate x =>
      let d := le 4 x in
      if validate valid d then Some {| cv_sig := prop_sig; cv_data := d |} else None
  | _ => None
  end.

Definition is_write (o : pop) : bool := match o with PSet _ _ | PUpdate _ => true | _ => false end.

Definition notify (subs : list subscriber) (v : cval) : list pevent := map (fun s => (s, cv_data v)) subs.

(* objectImpl.Property: only a string name is accepted *)
Definition read (s : pstate) (nm : pname) : pres :=
  match nm with
  | NmStr n => if String.eqb n prop_name then match p_val s with Some v => RVal v | None => RFail end else RFail
  | _ => RFail
  end.

(* ---------- part 1: sequential specification ---------- *)
Definition pstep (c : pcfg) (valid : N -> bool) (s : pstate) (o : pop) : pstate * pres * list pevent :=
  match o with
  | PGet nm => (s, read s nm, [])
  | PSubscribe cn mid => ({| p_val := p_val s; p_subs := p_subs s ++ [(cn, mid)] |}, RDone, [])
  | _ =>
      match check c valid o with
      | Some v => ({| p_val := Some v; p_subs := p_subs s |}, RDone, notify (p_subs s) v)
      | None => (s, RFail, [])
      end
  end.

(* the form Lin.v wants *)
Definition rstep (c : pcfg) (valid : N -> bool) (s : pstate) (o : pop) : pstate * pres :=
  fst (pstep c valid s o).

Fixpoint prun (c : pcfg) (valid : N -> bool) (s : pstate) (ops : list pop) : pstate * list (pres * list pevent) :=
  match ops with
  | [] => (s, [])
  | o :: r =>
      let '(s1, res, ev) := pstep c valid s o in
      let '(s2, l) := prun c valid s1 r in (s2, (res, ev) :: l)
  end.

Inductive preach (c : pcfg) (valid : N -> bool) : pstate -> Prop :=
| preach_init : preach c valid pinit
| preach_step : forall s o, preach c valid s -> preach c valid (fst (fst (pstep c valid s o))).

(* the value of the most recent accepted write of a sequence *)
Fixpoint last_accepted (c : pcfg) (valid : N -> bool) (acc : option cval) (ops : list pop) : option cval :=
  match ops with
  | [] => acc
  | o :: r => last_accepted c valid (match check c valid o with Some v => Some v | None => acc end) r
  end.

(* what the generated getter makes of the stored value (meta/idl/proxy.go): the signature must be
   the declared one *)
Definition getter (r : pres) : option N :=
  match r with
  | RVal v => if String.eqb (cv_sig v) prop_sig then dec_i32 (cv_data v) else None
  | _ => None
  end.

(* ---------- part 2: the transition system with the code's atomicity ---------- *)
Inductive phase := PhStart | PhChecked (v : cval) | PhSaved (v : cval) | PhDone (r : pres).
Record thr := { th_op : pop; th_inv : N; th_phase : phase }.
Definition thrmap := list (N * thr).

Fixpoint qget (t : N) (m : thrmap) : option thr :=
  match m with [] => None | (t', v) :: r => if t' =? t then Some v else qget t r end.
Definition qdel (t : N) (m : thrmap) : thrmap := filter (fun p => negb (fst p =? t)) m.
Definition qset (t : N) (v : thr) (m : thrmap) : thrmap := (t, v) :: qdel t m.

Inductive qlabel :=
| QInv (t : N) (o : pop)      (* the call is made *)
| QCheck (t : N)              (* get / subscribe: the whole operation under its lock; write: name, decoding, validator *)
| QSave (t : N)               (* saveProperty under propertiesMutex *)
| QNotify (t : N)             (* signalHandler.UpdateProperty: one event per subscriber *)
| QRet (t : N) (r : pres).    (* the call returns r *)

Definition with_phase (th : thr) (p : phase) : thr := {| th_op := th_op th; th_inv := th_inv th; th_phase := p |}.

(* one step; u is the time stamp of the step (used for invocations only) *)
Definition qstep (c : pcfg) (valid : N -> bool) (st : pstate * thrmap) (e : N * qlabel)
  : option ((pstate * thrmap) * list pevent) :=
  let '(s, m) := st in
  let '(u, l) := e in
  match l with
  | QInv t o =>
      match qget t m with
      | None => Some ((s, qset t {| th_op := o; th_inv := u; th_phase := PhStart |} m), [])
      | Some _ => None
      end
  | QCheck t =>
      match qget t m with
      | Some th =>
          match th_phase th with
          | PhStart =>
              match th_op th with
              | PGet nm => Some ((s, qset t (with_phase th (PhDone (read s nm))) m), [])
              | PSubscribe cn mid =>
                  Some (({| p_val := p_val s; p_subs := p_subs s ++ [(cn, mid)] |},
                         qset t (with_phase th (PhDone RDone)) m), [])
              | o =>
                  match check c valid o with
                  | Some v => Some ((s, qset t (with_phase th (PhChecked v)) m), [])
                  | None => Some ((s, qset t (with_phase th (PhDone RFail)) m), [])
                  end
              end
          | _ => None
          end
      | None => None
      end
  | QSave t =>
      match qget t m with
      | Some th =>
          match th_phase th with
          | PhChecked v =>
              Some (({| p_val := Some v; p_subs := p_subs s |}, qset t (with_phase th (PhSaved v)) m), [])
          | _ => None
          end
      | None => None
      end
  | QNotify t =>
      match qget t m with
      | Some th =>
          match th_phase th with
          | PhSaved v => Some ((s, qset t (with_phase th (PhDone RDone)) m), notify (p_subs s) v)
          | _ => None
          end
      | None => None
      end
  | QRet t r =>
      match qget t m with
      | Some th =>
          match th_phase th with
          | PhDone r0 => Some ((s, qdel t m), [])     (* the label carries the result: see qret_ok *)
          | _ => None
          end
      | None => None
      end
  end.

(* the result a QRet label announces is the one the thread computed *)
Definition pres_eqb (a b : pres) : bool :=
  match a, b with
  | RFail, RFail | RDone, RDone => true
  | RVal x, RVal y => String.eqb (cv_sig x) (cv_sig y) && eqb_bytes (cv_data x) (cv_data y)
  | _, _ => false
  end.
Definition qret_ok (m : thrmap) (l : qlabel) : bool :=
  match l with
  | QRet t r => match qget t m with
                | Some th => match th_phase th with PhDone r0 => pres_eqb r0 r | _ => false end
                | None => false
                end
  | _ => true
  end.

Fixpoint qrun (c : pcfg) (valid : N -> bool) (st : pstate * thrmap) (tr : list (N * qlabel))
  : option ((pstate * thrmap) * list pevent) :=
  match tr with
  | [] => Some (st, [])
  | e :: r =>
      if qret_ok (snd st) (snd e) then
        match qstep c valid st e with
        | None => None
        | Some (st1, ev1) =>
            match qrun c valid st1 r with
            | None => None
            | Some (st2, ev2) => Some (st2, ev1 ++ ev2)
            end
        end
      else None
  end.
