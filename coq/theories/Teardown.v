(* Teardown.v — C04: calls issued while the endpoint of their client loses its connection.
   A small labelled transition system of ONE client endpoint (bus/net/endpoint.go) and any number
   of calls (bus/client.go Call) around endPoint.closeWith.  It only keeps what decides whether a
   call gets an outcome: is its handler in the table, does the stream still accept a Write, is the
   reader goroutine still there.  (The complete endpoint, with subscriptions, disconnection
   callbacks and the handler goroutines, is C11's ConnLoss.v; what a call returns is Call.v.)

   One label = one atomic action of one goroutine:
     DReg i     client.Call: endpoint.MakeHandler (under handlersMutex)                 client.go:77
     DSend i    client.Call: endpoint.Send; when the Write fails: RemoveHandler and return the
                error; when the handler has been closed meanwhile the select that follows
                finds `errors`/the closed `reply` and returns                           client.go:80-104
     DAnswer i  endPoint.process + dispatch: the answer of call i is read and handed to its
                handler (only while the reader goroutine is running)                    endpoint.go:313-361
     DLoss      endPoint.process: msg.Read failed (EOF, error, not a frame): the reader does
                nothing but closeWith(err) from now on, then it is gone                 endpoint.go:362-365
     DTear1     first half of one execution of endPoint.closeWith                      endpoint.go:232-246
     DTear2     second half of it
   The order of the two halves is the parameter `close_first`:
     true  (the source, tie_c04_closewith_order):  stream.Close() ; then lock, close and remove every handler
     false                                        :  lock, close and remove every handler ; then stream.Close()
   closeWith is executed by the reader after DLoss and by any goroutine calling EndPoint.Close();
   several executions may overlap.  No proofs in this file. *)
From Coq Require Import List Arith Bool.
Import ListNotations.

Inductive cstat :=
| SIdle                  (* Call not started *)
| SReg (hclosed : bool)  (* handler registered, frame not written yet; hclosed: a tear-down has closed the handler meanwhile *)
| SWait                  (* frame written, blocked in the select *)
| SDone.                 (* Call has returned *)

Record st := {
  open : bool;          (* the stream accepts a Write *)
  reader : bool;        (* the reader goroutine reads and dispatches *)
  inprog : nat;         (* executions of closeWith between their two halves *)
  completed : nat;      (* executions of closeWith that are over *)
  stat : nat -> cstat;
  rets : nat -> nat;    (* ghost: how many times call i has returned *)
  okres : nat -> bool   (* ghost: call i returned the payload of an answer *)
}.

Definition init : st :=
  {| open := true; reader := true; inprog := 0; completed := 0;
     stat := fun _ => SIdle; rets := fun _ => 0; okres := fun _ => false |}.

Inductive label := DReg (i : nat) | DSend (i : nat) | DAnswer (i : nat) | DLoss | DTear1 | DTear2.

Definition upd {A} (f : nat -> A) (i : nat) (v : A) : nat -> A := fun j => if Nat.eqb j i then v else f j.

Definition set_open (s : st) (b : bool) : st :=
  {| open := b; reader := reader s; inprog := inprog s; completed := completed s;
     stat := stat s; rets := rets s; okres := okres s |}.
Definition set_call (s : st) (i : nat) (c : cstat) (r : nat) (k : bool) : st :=
  {| open := open s; reader := reader s; inprog := inprog s; completed := completed s;
     stat := upd (stat s) i c; rets := upd (rets s) i r; okres := upd (okres s) i k |}.
Definition ret_err (s : st) (i : nat) : st := set_call s i SDone (S (rets s i)) (okres s i).

(* stream.Close() *)
Definition do_close (s : st) : st := set_open s false.
(* every handler of the table is closed (its call, if it waits, returns an error) and removed *)
Definition do_empty (s : st) : st :=
  {| open := open s; reader := reader s; inprog := inprog s; completed := completed s;
     stat := fun j => match stat s j with SWait => SDone | SReg _ => SReg true | x => x end;
     rets := fun j => match stat s j with SWait => S (rets s j) | _ => rets s j end;
     okres := okres s |}.
Definition set_prog (s : st) (p c : nat) : st :=
  {| open := open s; reader := reader s; inprog := p; completed := c;
     stat := stat s; rets := rets s; okres := okres s |}.

Definition step (close_first : bool) (s : st) (l : label) : st :=
  match l with
  | DReg i => match stat s i with SIdle => set_call s i (SReg false) (rets s i) (okres s i) | _ => s end
  | DSend i =>
      match stat s i with
      | SReg hc => if open s then (if hc then ret_err s i else set_call s i SWait (rets s i) (okres s i))
                   else ret_err s i
      | _ => s
      end
  | DAnswer i =>
      match stat s i with
      | SWait => if reader s then set_call s i SDone (S (rets s i)) true else s
      | _ => s
      end
  | DLoss => {| open := open s; reader := false; inprog := inprog s; completed := completed s;
                stat := stat s; rets := rets s; okres := okres s |}
  | DTear1 => set_prog (if close_first then do_close s else do_empty s) (S (inprog s)) (completed s)
  | DTear2 => match inprog s with
              | 0 => s
              | S p => set_prog (if close_first then do_empty s else do_close s) p (S (completed s))
              end
  end.

Fixpoint exec_from (close_first : bool) (s : st) (ls : list label) : st :=
  match ls with
  | [] => s
  | l :: r => exec_from close_first (step close_first s l) r
  end.
Definition exec (close_first : bool) (ls : list label) : st := exec_from close_first init ls.

Fixpoint no_tear1 (ls : list label) : bool :=
  match ls with
  | [] => true
  | DTear1 :: _ => false
  | _ :: r => no_tear1 r
  end.

(* ---- the scenarios of the harness (qv C04, part viii) ----
   Calls are issued by goroutines of their own at four points of one loss of the connection:
     phase 0  before the loss
     phase 1  the reader has got its error from the stream and has not called closeWith yet
     phase 2  closeWith is running: stream.Close() has been entered and has not completed
     phase 3  stream.Close() has completed
   `local`: the loss is EndPoint.Close() called by another goroutine (the reader follows when its
   Read fails on the closed stream); otherwise the reader notices it (EOF, read error, bad frame).
   Phase 2 lies before the effect of stream.Close(): with close_first before both halves, otherwise
   between them.  `answers`: the answer of every call arrives right after its frame was written,
   if the reader is still there to take it. *)
Definition call_steps (answers : bool) (i : nat) : list label :=
  [DReg i; DSend i] ++ (if answers then [DAnswer i] else []).

Fixpoint calls_of (answers : bool) (phase : nat) (ps : list nat) (i : nat) : list label :=
  match ps with
  | [] => []
  | p :: r => (if Nat.eqb p phase then call_steps answers i else []) ++ calls_of answers phase r (S i)
  end.

Definition schedule (close_first local answers : bool) (ps : list nat) : list label :=
  let ph := fun k => calls_of answers k ps 0 in
  ph 0 ++ (if local then [] else [DLoss]) ++ ph 1 ++
  (if close_first then ph 2 ++ [DTear1; DTear2] else [DTear1] ++ ph 2 ++ [DTear2]) ++
  ph 3 ++ (if local then [DLoss; DTear1; DTear2] else []).

(* what the model allows call i of the scenario to end with: 0 nothing, 1 a result, 2 an error *)
Definition outcome (s : st) (i : nat) : nat :=
  match stat s i with SDone => if okres s i then 1 else 2 | _ => 0 end.
Definition allowed (close_first local : bool) (ps : list nat) (i : nat) : list nat :=
  [outcome (exec close_first (schedule close_first local false ps)) i;
   outcome (exec close_first (schedule close_first local true ps)) i].
