(* EndpointProofs.v — invariants of the handler table (C17) and the dispatch / sender theorems (C10). *)
From QV Require Import Reader ReaderProofs Message MessageProofs Endpoint.
From Coq Require Import String Permutation.
Local Open Scope nat_scope.

(* ---------- lists ---------- *)
Lemma set_nth_length {A} n (x : A) l : List.length (set_nth n x l) = List.length l.
Proof. revert n; induction l as [|y l IH]; intros [|n]; cbn; auto. Qed.

Lemma nth_error_set_nth_eq {A} n (x : A) l : n < List.length l -> nth_error (set_nth n x l) n = Some x.
Proof. revert n; induction l as [|y l IH]; intros [|n] H; cbn in *; try lia; auto. apply IH; lia. Qed.

Lemma nth_error_set_nth_neq {A} n m (x : A) l : n <> m -> nth_error (set_nth n x l) m = nth_error l m.
Proof. revert n m; induction l as [|y l IH]; intros [|n] [|m] H; cbn; auto; try congruence. Qed.

Lemma nth_error_Some_lt {A} (l : list A) n x : nth_error l n = Some x -> n < List.length l.
Proof. intro H. apply nth_error_Some. congruence. Qed.

Lemma nth_error_lt_Some {A} (l : list A) n : n < List.length l -> exists x, nth_error l n = Some x.
Proof. intro H. destruct (nth_error l n) eqn:E; [eauto|]. apply nth_error_None in E. lia. Qed.

(* ---------- slot table ---------- *)
Lemma slot_hids_app a b : slot_hids (a ++ b) = slot_hids a ++ slot_hids b.
Proof. induction a as [|[x|] a IH]; cbn; [reflexivity| now rewrite IH | exact IH]. Qed.

Lemma slot_hids_all_none (sl : list (option nat)) : slot_hids (map (fun _ => None) sl) = [].
Proof. induction sl; cbn; auto. Qed.

Lemma slot_hids_repeat_none n : slot_hids (repeat None n) = [].
Proof. induction n; cbn; auto. Qed.

(* splitting the table at index n *)
Lemma nth_error_split_set {A} (l : list A) n x y : nth_error l n = Some x ->
  exists l1 l2, l = l1 ++ x :: l2 /\ set_nth n y l = l1 ++ y :: l2 /\ List.length l1 = n.
Proof.
  revert n; induction l as [|z l IH]; intros [|n] H; cbn in H; try discriminate.
  - inversion H; subst. exists [], l. auto.
  - destruct (IH n H) as (l1 & l2 & E1 & E2 & E3). exists (z :: l1), l2. cbn. rewrite <- E1, E2, E3. auto.
Qed.

Lemma first_free_spec sl i : first_free sl = Some i -> nth_error sl i = Some None.
Proof.
  revert i; induction sl as [|[x|] sl IH]; intros i H; cbn in H; try discriminate.
  - destruct (first_free sl) as [j|]; [|discriminate]. inversion H; subst. cbn. now apply IH.
  - inversion H; subst. reflexivity.
Qed.

Lemma first_free_none sl : first_free sl = None -> forall i, nth_error sl i <> Some None.
Proof.
  induction sl as [|[x|] sl IH]; intros H i; cbn in H.
  - destruct i; discriminate.
  - destruct (first_free sl) eqn:E; [discriminate|]. destruct i; cbn; [discriminate| now apply IH].
  - discriminate.
Qed.

(* ---------- handler field lemmas ---------- *)
Definition same_static (h h' : handler) : Prop :=
  h_filter h' = h_filter h /\ h_fre h' = h_fre h /\ h_closer h' = h_closer h /\ h_cap h' = h_cap h.

Lemma same_static_refl h : same_static h h.
Proof. unfold same_static; auto. Qed.
Lemma same_static_trans a b c : same_static a b -> same_static b c -> same_static a c.
Proof. unfold same_static; intros (?&?&?&?) (?&?&?&?); repeat split; congruence. Qed.

(* ---------- log shapes (latest first) ---------- *)
Definition is_msg (e : hev) : bool := match e with HMsg _ _ _ _ => true | _ => false end.

Definition open_log (l : list hev) : Prop := exists evs i, l = evs ++ [HMade i] /\ forallb is_msg evs = true.
Definition closer_part (cl : option bool) (e : cerr) : list hev := match cl with None => [] | Some _ => [HCloser e] end.
Definition half_log (cl : option bool) (e : cerr) (l : list hev) : Prop := exists l0, l = closer_part cl e ++ l0 /\ open_log l0.
Definition done_log (cl : option bool) (l : list hev) : Prop := exists e l0, l = HQClose :: closer_part cl e ++ l0 /\ open_log l0.

Lemma open_log_cons_msg m a k r l : open_log l -> open_log (HMsg m a k r :: l).
Proof. intros (evs & i & E & F). exists (HMsg m a k r :: evs), i. subst. cbn. auto. Qed.

(* every HMsg entry carries the filter's answer on the headers shown before *)
Definition filter_ok (f : filter) (l : list hev) : Prop :=
  forall l1 m a k r l2, l = l1 ++ HMsg m a k r :: l2 -> (a, k) = f (seen_of l2) (m_header m).

Lemma filter_ok_cons_other f e l : is_msg e = false -> filter_ok f l -> filter_ok f (e :: l).
Proof.
  intros He H l1 m a k r l2 E. destruct l1 as [|x l1]; cbn in E; inversion E; subst.
  - discriminate.
  - eapply H; eauto.
Qed.
Lemma filter_ok_cons_msg f m a k r l : (a, k) = f (seen_of l) (m_header m) -> filter_ok f l -> filter_ok f (HMsg m a k r :: l).
Proof.
  intros Hf H l1 m' a' k' r' l2 E. destruct l1 as [|x l1]; cbn in E; inversion E; subst; [assumption| eapply H; eauto].
Qed.

Inductive phase := PLive | PPend0 (e : cerr) | PPend1 (e : cerr) | PDone.

Definition hinv (ph : phase) (h : handler) : Prop :=
  match ph with
  | PLive | PPend0 _ => h_closed h = false /\ open_log (h_log h)
  | PPend1 e => h_closed h = false /\ half_log (h_closer h) e (h_log h)
  | PDone => h_closed h = true /\ done_log (h_closer h) (h_log h)
  end
  /\ h_recvd h ++ h_buf h = enqueued h
  /\ filter_ok (h_filter h) (h_log h).

Lemma enqueued_add_other e h : is_msg e = false -> enqueued (add_log e h) = enqueued h.
Proof. intro H. unfold enqueued, add_log, set_log; cbn. destruct e; try discriminate; reflexivity. Qed.

(* call_closer / close_queue on a handler that is open *)
Lemma call_closer_spec ul e h :
  match call_closer ul e h with
  | HOk h' => h_log h' = closer_part (h_closer h) e ++ h_log h /\ same_static h h' /\ h_closed h' = h_closed h /\
              h_buf h' = h_buf h /\ h_recvd h' = h_recvd h
  | HPanic _ => False
  | HDeadlock => ul = true /\ h_closer h = Some true
  end.
Proof.
  unfold call_closer. destruct (h_closer h) as [re|] eqn:E.
  - destruct re, ul; cbn [andb closer_part app]; try (split; reflexivity);
      (split; [reflexivity|split; [unfold same_static; cbn; auto|cbn; auto]]).
  - cbn. repeat split; auto.
Qed.

Lemma close_queue_spec h : h_closed h = false ->
  exists h', close_queue h = HOk h' /\ h_log h' = HQClose :: h_log h /\ same_static h h' /\ h_closed h' = true /\
             h_buf h' = h_buf h /\ h_recvd h' = h_recvd h.
Proof.
  intro H. unfold close_queue. rewrite H. eexists; split; [reflexivity|]. cbn. repeat split; auto.
Qed.

Lemma enqueued_log_eq h h' l : h_log h' = l ++ h_log h -> forallb (fun e => negb (is_msg e)) l = true -> enqueued h' = enqueued h.
Proof.
  intros E F. unfold enqueued. rewrite E. f_equal. clear E.
  induction l as [|x l IH]; cbn in *; [reflexivity|].
  apply andb_true_iff in F as [F1 F2]. destruct x; cbn in F1; try discriminate; cbn; auto.
Qed.

Lemma filter_ok_app_other f l0 l : forallb (fun e => negb (is_msg e)) l0 = true -> filter_ok f l -> filter_ok f (l0 ++ l).
Proof.
  induction l0 as [|x l0 IH]; cbn; intros F H; [assumption|].
  apply andb_true_iff in F as [F1 F2]. apply filter_ok_cons_other; [now apply negb_true_iff in F1| auto].
Qed.

Lemma closer_part_nomsg cl e : forallb (fun e => negb (is_msg e)) (closer_part cl e) = true.
Proof. destruct cl; reflexivity. Qed.

(* closing a live handler under the lock: done, unless its closer re-enters *)
Lemma close_with_live e h : hinv PLive h ->
  match close_with true e h with
  | HOk h' => hinv PDone h' /\ same_static h h' /\ consulted h' = consulted h /\ events h' = events h
  | HPanic _ => False
  | HDeadlock => h_closer h = Some true
  end.
Proof.
  intros ((Hc & Hlog) & Hq & Hf). unfold close_with.
  pose proof (call_closer_spec true e h) as Hcc. destruct (call_closer true e h) as [h1| |]; [|contradiction|tauto].
  destruct Hcc as (L1 & S1 & C1 & B1 & R1).
  destruct (close_queue_spec h1) as (h2 & E2 & L2 & S2 & C2 & B2 & R2); [congruence|]. rewrite E2.
  assert (Hst : same_static h h2) by (eapply same_static_trans; eauto).
  assert (Hlog2 : h_log h2 = (HQClose :: closer_part (h_closer h) e) ++ h_log h) by (rewrite L2, L1; reflexivity).
  assert (Hnm : forallb (fun e => negb (is_msg e)) (HQClose :: closer_part (h_closer h) e) = true)
    by (cbn; apply closer_part_nomsg).
  split; [|split; [exact Hst|]].
  - split; [split; [exact C2|]|split].
    + destruct Hst as (_ & _ & Hcl & _). rewrite Hcl. exists e, (h_log h). split; [exact Hlog2| exact Hlog].
    + rewrite B2, R2, B1, R1, Hq. symmetry. eapply enqueued_log_eq; eauto.
    + destruct Hst as (Hfl & _). rewrite Hfl, Hlog2. apply filter_ok_app_other; auto.
  - unfold consulted, events. rewrite Hlog2. destruct (h_closer h); cbn; auto.
Qed.

(* ---------- one iteration of dispatch's loop ---------- *)
Lemma disp_one_spec m h ret : hinv PLive h ->
  match disp_one m h ret with
  | D1Panic _ => False
  | D1Deadlock => h_fre h = true \/ h_closer h = Some true
  | D1Ok h' keepslot reply ret1 =>
      (if keepslot then hinv PLive h' else hinv PDone h') /\ same_static h h' /\
      consulted h' = consulted h ++ [m] /\ exists room, events h' = events h ++ [(m, room)]
  end.
Proof.
  intros ((Hc & Hlog) & Hq & Hf). unfold disp_one.
  destruct (h_fre h) eqn:Hfre; [now left|].
  destruct (h_filter h (seen_of (h_log h)) (m_header m)) as [matched keep] eqn:Ef.
  rewrite Hc, andb_false_r.
  set (room := Nat.ltb (List.length (h_buf h)) (h_cap h)).
  set (h1 := if matched && room then set_buf h (h_buf h ++ [m]) else h).
  set (h2 := add_log (HMsg m matched keep room) h1).
  assert (L1 : h_log h1 = h_log h) by (unfold h1; destruct (matched && room); reflexivity).
  assert (S1 : same_static h h1) by (unfold h1; destruct (matched && room); unfold same_static; cbn; auto).
  assert (C1 : h_closed h1 = false) by (unfold h1; destruct (matched && room); cbn; auto).
  assert (L2 : h_log h2 = HMsg m matched keep room :: h_log h) by (unfold h2; cbn; now rewrite L1).
  assert (S2 : same_static h h2) by (unfold h2; destruct S1 as (?&?&?&?); unfold same_static; cbn; auto).
  assert (I2 : hinv PLive h2).
  { split; [split|split].
    - unfold h2; cbn. exact C1.
    - rewrite L2. now apply open_log_cons_msg.
    - unfold enqueued. rewrite L2. unfold h2; cbn [add_log set_log h_recvd h_buf].
      unfold h1. destruct matched, room; cbn [andb enqueued_rev rev set_buf h_recvd h_buf];
        try exact Hq. rewrite app_assoc, Hq. reflexivity.
    - destruct S2 as (Hfl & _). rewrite Hfl, L2. apply filter_ok_cons_msg; [now rewrite Ef| exact Hf]. }
  assert (Cons2 : consulted h2 = consulted h ++ [m]) by (unfold consulted; rewrite L2; reflexivity).
  assert (Ev2 : events h2 = events h ++ [(m, room)]) by (unfold events; rewrite L2; reflexivity).
  destruct keep.
  - split; [exact I2|]. split; [exact S2|]. split; [exact Cons2|]. eauto.
  - pose proof (close_with_live CNil h2 I2) as Hcw.
    destruct (close_with true CNil h2) as [h3| |]; [|contradiction|].
    + destruct Hcw as (I3 & S3 & Co3 & Ev3). split; [exact I3|]. split; [eapply same_static_trans; eauto|].
      split; [congruence|]. exists room. congruence.
    + right. destruct S2 as (_ & _ & Hcl & _). congruence.
Qed.

(* relation between the table before and after the loop: a slot is kept or cleared *)
Definition slot_le (a b : option nat) : Prop := b = a \/ b = None.

Lemma slot_le_in todo sl : Forall2 slot_le todo sl -> forall x, In x (slot_hids sl) -> In x (slot_hids todo).
Proof.
  induction 1 as [|a b todo sl [E|E] _ IH]; intros x Hx; [assumption| |]; subst.
  - destruct a; cbn in *; [destruct Hx; auto|auto].
  - cbn in Hx. destruct a; cbn; auto.
Qed.

Lemma slot_le_nodup todo sl G : Forall2 slot_le todo sl -> NoDup (slot_hids todo ++ G) -> NoDup (slot_hids sl ++ G).
Proof.
  induction 1 as [|a b todo sl [E|E] H2 IH]; intro N; [assumption| |]; subst.
  - destruct a; cbn in *; [|auto]. inversion N as [|x l Hn Hnd]; subst. constructor; [|auto].
    intro Hin. apply Hn. apply in_app_or in Hin as [Hin|Hin]; apply in_or_app; [left|right; assumption].
    eapply slot_le_in; eauto.
  - cbn. destruct a; cbn in N; [inversion N; auto|auto].
Qed.

Lemma slot_le_length todo sl : Forall2 slot_le todo sl -> List.length sl = List.length todo.
Proof. induction 1; cbn; auto. Qed.

(* ---------- the loop of dispatch ---------- *)
Lemma disp_loop_spec m : forall todo hs sent ret,
  NoDup (slot_hids todo) ->
  (forall hid, In hid (slot_hids todo) -> exists h, nth_error hs hid = Some h /\ hinv PLive h) ->
  match disp_loop m todo hs sent ret with
  | DLPanic _ => False
  | DLDeadlock => exists hid h, nth_error hs hid = Some h /\ (h_fre h = true \/ h_closer h = Some true)
  | DL sl hs' se re =>
      List.length hs' = List.length hs /\ Forall2 slot_le todo sl /\
      (forall hid, ~ In hid (slot_hids todo) -> nth_error hs' hid = nth_error hs hid) /\
      (forall hid h, In hid (slot_hids todo) -> nth_error hs hid = Some h ->
         exists h', nth_error hs' hid = Some h' /\ same_static h h' /\
                    (In hid (slot_hids sl) -> hinv PLive h') /\ (~ In hid (slot_hids sl) -> hinv PDone h') /\
                    consulted h' = consulted h ++ [m] /\ exists room, events h' = events h ++ [(m, room)])
  end.
Proof.
  induction todo as [|[hid|] todo IH]; intros hs sent ret Hnd Hlive.
  - cbn. repeat split; auto. intros hid h [].
  - cbn [disp_loop]. cbn [slot_hids] in Hnd, Hlive. inversion Hnd as [|x l Hnotin Hnd']; subst.
    destruct (Hlive hid (or_introl eq_refl)) as (h & Hh & Ih). rewrite Hh.
    pose proof (disp_one_spec m h ret Ih) as H1.
    destruct (disp_one m h ret) as [h' keepslot reply ret1| |]; [|contradiction|eauto].
    destruct H1 as (I1 & S1 & Co1 & Ev1).
    assert (Hlt : hid < List.length hs) by (eapply nth_error_Some_lt; eauto).
    specialize (IH (set_nth hid h' hs) (sent ++ reply) ret1 Hnd').
    assert (Hpre : forall hid0, In hid0 (slot_hids todo) -> exists h0, nth_error (set_nth hid h' hs) hid0 = Some h0 /\ hinv PLive h0).
    { intros hid0 Hin. assert (hid <> hid0) by (intro; subst; contradiction).
      rewrite nth_error_set_nth_neq by assumption. apply Hlive. now right. }
    specialize (IH Hpre).
    destruct (disp_loop m todo (set_nth hid h' hs) (sent ++ reply) ret1) as [sl hs' se re| |]; [|contradiction|].
    + destruct IH as (Hlen & Hle & Hout & Hin).
      rewrite set_nth_length in Hlen.
      assert (Hmine : nth_error hs' hid = Some h').
      { rewrite (Hout hid Hnotin). now apply nth_error_set_nth_eq. }
      split; [exact Hlen|]. split; [|split].
      * constructor; [|exact Hle]. destruct keepslot; [now left|now right].
      * intros hid0 Hn. cbn [slot_hids] in Hn. assert (hid <> hid0) by (intro; subst; apply Hn; now left).
        rewrite Hout by (intro; apply Hn; now right). now apply nth_error_set_nth_neq.
      * intros hid0 h0 Hin0 Hh0. cbn [slot_hids] in Hin0. destruct Hin0 as [E|Hin0].
        -- subst hid0. assert (h0 = h) by congruence. subst h0. exists h'. split; [exact Hmine|]. split; [exact S1|].
           assert (Hnsl : ~ In hid (slot_hids sl)) by (intro Hx; apply Hnotin; eapply slot_le_in; eauto).
           destruct keepslot; cbn [slot_hids].
           ++ split; [intros _; exact I1|]. split; [intro Hx; exfalso; apply Hx; now left|]. split; assumption.
           ++ split; [intro Hx; contradiction|]. split; [intros _; exact I1|]. split; assumption.
        -- assert (hid <> hid0) by (intro; subst; contradiction).
           destruct (Hin hid0 h0 Hin0) as (h0' & Hn0 & S0 & Il & Id & Co & Ev).
           { now rewrite nth_error_set_nth_neq. }
           exists h0'. split; [exact Hn0|]. split; [exact S0|]. split; [|split; [|split; assumption]].
           ++ intro Hx. apply Il. destruct keepslot; cbn [slot_hids] in Hx; [destruct Hx; [congruence|assumption]|assumption].
           ++ intro Hx. apply Id. intro Hy. apply Hx. destruct keepslot; cbn [slot_hids]; [now right|assumption].
    + destruct IH as (hid0 & h0 & Hn0 & Hbad). destruct (Nat.eq_dec hid hid0) as [E|E].
      * subst hid0. rewrite nth_error_set_nth_eq in Hn0 by assumption. inversion Hn0; subst h0.
        exists hid, h. split; [exact Hh|]. destruct S1 as (_ & Hfre & Hcl & _). rewrite <- Hfre, <- Hcl. exact Hbad.
      * rewrite nth_error_set_nth_neq in Hn0 by assumption. eauto.
  - cbn [disp_loop]. cbn [slot_hids] in Hnd, Hlive. specialize (IH hs sent ret Hnd Hlive).
    destruct (disp_loop m todo hs sent ret) as [sl hs' se re| |]; [|contradiction|exact IH].
    destruct IH as (Hlen & Hle & Hout & Hin). split; [exact Hlen|]. split; [|split; [exact Hout|exact Hin]].
    constructor; [now left|exact Hle].
Qed.

(* ---------- the global invariant ---------- *)
Definition go_hids (g : list (nat * cerr * bool)) : list nat := map (fun x => fst (fst x)) g.

Definition phase_rel (s : state) (hid : nat) (ph : phase) : Prop :=
  match ph with
  | PLive => In hid (slot_hids (st_slots s))
  | PPend0 e => In (hid, e, false) (st_go s)
  | PPend1 e => In (hid, e, true) (st_go s)
  | PDone => ~ In hid (slot_hids (st_slots s)) /\ ~ In hid (go_hids (st_go s))
  end.

Record Inv (s : state) : Prop := {
  inv_nodup : NoDup (slot_hids (st_slots s) ++ go_hids (st_go s));
  inv_bound : forall hid, In hid (slot_hids (st_slots s) ++ go_hids (st_go s)) -> hid < List.length (st_hs s);
  inv_h : forall hid h ph, nth_error (st_hs s) hid = Some h -> phase_rel s hid ph -> hinv ph h }.

Definition breach (s : state) : Prop :=
  exists hid h, nth_error (st_hs s) hid = Some h /\ (h_fre h = true \/ h_closer h = Some true).

Lemma in_go_hids hid e b g : In (hid, e, b) g -> In hid (go_hids g).
Proof. intro H. unfold go_hids. apply in_map_iff. exists (hid, e, b). auto. Qed.

Lemma go_hids_app a b : go_hids (a ++ b) = go_hids a ++ go_hids b.
Proof. unfold go_hids. apply map_app. Qed.

Lemma find_go_spec hid st g e pre post : find_go hid st g = Some (e, pre, post) -> g = pre ++ (hid, e, st) :: post.
Proof.
  revert pre; induction g as [|[[h e0] b] g IH]; intros pre H; cbn in H; [discriminate|].
  destruct (Nat.eqb h hid && Bool.eqb b st) eqn:E.
  - inversion H; subst. apply andb_true_iff in E as [E1 E2]. apply Nat.eqb_eq in E1. apply Bool.eqb_prop in E2. now subst.
  - destruct (find_go hid st g) as [[[e' pre'] post']|]; [|discriminate]. inversion H; subst. cbn. f_equal. now apply IH.
Qed.

Lemma find_go_head hid e b r : find_go hid b ((hid, e, b) :: r) = Some (e, [], r).
Proof. cbn. now rewrite Nat.eqb_refl, Bool.eqb_reflx. Qed.

Lemma init_inv : Inv init.
Proof.
  split; cbn [init st_slots st_go st_hs].
  - rewrite slot_hids_repeat_none. constructor.
  - rewrite slot_hids_repeat_none. intros hid [].
  - intros hid h ph H. destruct hid; discriminate.
Qed.

(* a new handler is live and open *)
Lemma new_handler_inv f fre cl cap i : hinv PLive (new_handler f fre cl cap i).
Proof.
  split; [split|split]; cbn; auto.
  - exists [], i. auto.
  - intros l1 m a k r l2 E. destruct l1 as [|x [|y l1]]; cbn in E; inversion E.
Qed.

Lemma slot_hids_set_some sl i x : nth_error sl i = Some None -> Permutation (slot_hids (set_nth i (Some x) sl)) (x :: slot_hids sl).
Proof.
  intro H. destruct (nth_error_split_set sl i None (Some x) H) as (l1 & l2 & E1 & E2 & _).
  rewrite E2, E1, !slot_hids_app. cbn. symmetry. apply Permutation_middle.
Qed.

Lemma make_inv s f fre cl cap : Inv s -> match do_make s f fre cl cap with Run s' _ => Inv s' | _ => False end.
Proof.
  intros [Hnd Hb Hh]. unfold do_make.
  set (hid := List.length (st_hs s)).
  assert (Hfresh : ~ In hid (slot_hids (st_slots s) ++ go_hids (st_go s))) by (intro Hin; apply Hb in Hin; unfold hid in Hin; lia).
  (* both branches: the new table holds the old handlers plus hid *)
  assert (Hgen : forall sl' i, Permutation (slot_hids sl') (hid :: slot_hids (st_slots s)) ->
            Inv (with_slots_hs s sl' (st_hs s ++ [new_handler f fre cl cap i]))).
  { intros sl' i P.
    assert (Hin_iff : forall x, In x (slot_hids sl') <-> x = hid \/ In x (slot_hids (st_slots s))).
    { intro x. split; intro Hx.
      - apply (Permutation_in _ P) in Hx. destruct Hx; auto.
      - apply (Permutation_in _ (Permutation_sym P)). destruct Hx; [left; auto|now right]. }
    split; cbn [with_slots_hs st_slots st_go st_hs].
    - apply (Permutation_NoDup (l := hid :: slot_hids (st_slots s) ++ go_hids (st_go s))).
      + apply (Permutation_app_tail (go_hids (st_go s))) in P. symmetry. exact P.
      + constructor; assumption.
    - intros x Hx. rewrite app_length; cbn. apply in_app_or in Hx as [Hx|Hx].
      + apply Hin_iff in Hx as [->|Hx]; [unfold hid; lia|]. assert (x < List.length (st_hs s)) by (apply Hb, in_or_app; now left). lia.
      + assert (x < List.length (st_hs s)) by (apply Hb, in_or_app; now right). lia.
    - intros x h ph Hx Hph. destruct (Nat.eq_dec x hid) as [->|Hne].
      + unfold hid in Hx. rewrite nth_error_app2, Nat.sub_diag in Hx by lia. cbn in Hx. inversion Hx; subst h.
        destruct ph; cbn [phase_rel with_slots_hs st_slots st_go] in Hph.
        * apply new_handler_inv.
        * exfalso. apply Hfresh, in_or_app. right. eapply in_go_hids; eauto.
        * exfalso. apply Hfresh, in_or_app. right. eapply in_go_hids; eauto.
        * exfalso. apply (proj1 Hph). apply Hin_iff. now left.
      + assert (Hlt : x < List.length (st_hs s)).
        { apply nth_error_Some_lt in Hx. rewrite app_length in Hx; cbn in Hx. fold hid in Hx. lia. }
        rewrite nth_error_app1 in Hx by assumption. apply (Hh x h ph Hx).
        destruct ph; cbn [phase_rel with_slots_hs st_slots st_go] in *; auto.
        * apply Hin_iff in Hph as [->|]; [contradiction|assumption].
        * destruct Hph as [H1 H2]. split; [|exact H2]. intro Hy. apply H1. apply Hin_iff. now right. }
  destruct (first_free (st_slots s)) as [i|] eqn:Eff.
  - apply Hgen. apply slot_hids_set_some. now apply first_free_spec.
  - apply Hgen. rewrite slot_hids_app. cbn. rewrite <- Permutation_cons_append. reflexivity.
Qed.

Lemma slot_at_spec s id hid : slot_at s id = Some hid -> nth_error (st_slots s) (Z.to_nat id) = Some (Some hid).
Proof.
  unfold slot_at. destruct (Z.ltb id 0); [discriminate|].
  destruct (nth_error (st_slots s) (Z.to_nat id)) as [[x|]|]; intro H; inversion H; reflexivity.
Qed.

Lemma slot_hids_clear sl n x : nth_error sl n = Some (Some x) ->
  exists l1 l2, slot_hids sl = l1 ++ x :: l2 /\ slot_hids (set_nth n None sl) = l1 ++ l2.
Proof.
  intro H. destruct (nth_error_split_set sl n (Some x) None H) as (a & b & E1 & E2 & _).
  exists (slot_hids a), (slot_hids b). rewrite E2, E1, !slot_hids_app. cbn. auto.
Qed.

Lemma in_slot_hids sl n x : nth_error sl n = Some (Some x) -> In x (slot_hids sl).
Proof. intro H. destruct (slot_hids_clear sl n x H) as (l1 & l2 & E & _). rewrite E. apply in_or_app. right. now left. Qed.

(* removing hid from the table and closing it: the generic argument shared by RemoveHandler *)
Lemma remove_inv s id : Inv s ->
  match do_remove s id with Run s' _ => Inv s' | Panic _ => False | Deadlock => breach s | Disabled => True end.
Proof.
  intros [Hnd Hb Hh]. unfold do_remove. destruct (slot_at s id) as [hid|] eqn:Es; [|split; assumption].
  apply slot_at_spec in Es. set (n := Z.to_nat id) in *.
  destruct (slot_hids_clear _ _ _ Es) as (l1 & l2 & E1 & E2).
  assert (Hin : In hid (slot_hids (st_slots s))) by (rewrite E1; apply in_or_app; right; now left).
  assert (Hlt : hid < List.length (st_hs s)) by (apply Hb, in_or_app; now left).
  destruct (nth_error_lt_Some _ _ Hlt) as (h & Hhid). rewrite Hhid.
  assert (Ilive : hinv PLive h) by (apply (Hh hid h PLive Hhid); exact Hin).
  pose proof (close_with_live CNil h Ilive) as Hcw.
  destruct (close_with true CNil h) as [h'| |]; [|contradiction|exists hid, h; auto].
  destruct Hcw as (Idone & _).
  rewrite E1 in Hnd. rewrite <- app_assoc in Hnd. cbn in Hnd.
  assert (Hnd' : NoDup (l1 ++ l2 ++ go_hids (st_go s))) by (eapply NoDup_remove_1; eauto).
  assert (Hnot : ~ In hid (l1 ++ l2 ++ go_hids (st_go s))) by (eapply NoDup_remove_2; eauto).
  split; cbn [with_slots_hs st_slots st_go st_hs].
  - rewrite E2, <- app_assoc. exact Hnd'.
  - intros x Hx. rewrite set_nth_length. apply Hb. rewrite E2 in Hx. rewrite E1.
    apply in_app_or in Hx as [Hx|Hx]; apply in_or_app; [left|now right].
    apply in_app_or in Hx as [Hx|Hx]; apply in_or_app; [now left|right; now right].
  - intros x hx ph Hx Hph. destruct (Nat.eq_dec x hid) as [->|Hne].
    + rewrite nth_error_set_nth_eq in Hx by assumption. inversion Hx; subst hx.
      destruct ph; cbn [phase_rel with_slots_hs st_slots st_go] in Hph.
      * exfalso. apply Hnot. rewrite E2 in Hph. rewrite app_assoc. apply in_or_app. now left.
      * exfalso. apply Hnot. apply in_or_app. right. apply in_or_app. right. eapply in_go_hids; eauto.
      * exfalso. apply Hnot. apply in_or_app. right. apply in_or_app. right. eapply in_go_hids; eauto.
      * exact Idone.
    + rewrite nth_error_set_nth_neq in Hx by congruence. apply (Hh x hx ph Hx).
      destruct ph; cbn [phase_rel with_slots_hs st_slots st_go] in *; auto.
      * rewrite E2 in Hph. rewrite E1. apply in_app_or in Hph as [Hp|Hp]; apply in_or_app; [now left|right; now right].
      * destruct Hph as [H1 H2]. split; [|exact H2]. rewrite E1. rewrite E2 in H1. intro Hy. apply H1.
        apply in_app_or in Hy as [Hy|[Hy|Hy]]; apply in_or_app; [now left|congruence|now right].
Qed.

Lemma closeall_inv s e b : Inv s -> match do_closeall s e b with Run s' _ => Inv s' | Disabled => True | _ => False end.
Proof.
  intros [Hnd Hb Hh]. unfold do_closeall. destruct (b && negb (st_proc s)); [exact I|].
  set (A := slot_hids (st_slots s)) in *. set (G := go_hids (st_go s)) in *.
  assert (EG : go_hids (st_go s ++ map (fun hid => (hid, e, false)) A) = G ++ A).
  { rewrite go_hids_app. f_equal. unfold go_hids. rewrite map_map. cbn. apply map_id. }
  split; cbn [st_slots st_go st_hs].
  - rewrite slot_hids_all_none, EG. cbn. apply (Permutation_NoDup (l := A ++ G)); [apply Permutation_app_comm|assumption].
  - rewrite slot_hids_all_none, EG. cbn. intros x Hx. apply Hb. apply in_app_or in Hx as [Hx|Hx]; apply in_or_app; auto.
  - intros x hx ph Hx Hph. destruct ph; cbn [phase_rel st_slots st_go] in Hph.
    + rewrite slot_hids_all_none in Hph. destruct Hph.
    + apply in_app_or in Hph as [Hp|Hp].
      * apply (Hh x hx (PPend0 e0) Hx). exact Hp.
      * apply in_map_iff in Hp as (y & Ey & Hy). inversion Ey; subst. apply (Hh x hx PLive Hx). exact Hy.
    + apply in_app_or in Hph as [Hp|Hp].
      * apply (Hh x hx (PPend1 e0) Hx). exact Hp.
      * apply in_map_iff in Hp as (y & Ey & Hy). inversion Ey.
    + destruct Hph as [_ H2]. rewrite EG in H2. apply (Hh x hx PDone Hx). split; intro Hy; apply H2, in_or_app; auto.
Qed.

(* the goroutines of `go handler.closeWith(err)` *)
Lemma go_entry_facts s hid e b pre post : Inv s -> st_go s = pre ++ (hid, e, b) :: post ->
  ~ In hid (slot_hids (st_slots s)) /\ ~ In hid (go_hids pre) /\ ~ In hid (go_hids post) /\
  NoDup (slot_hids (st_slots s) ++ go_hids pre ++ go_hids post).
Proof.
  intros [Hnd _ _] E. rewrite E, go_hids_app in Hnd. cbn in Hnd. rewrite app_assoc in Hnd.
  pose proof (NoDup_remove_2 _ _ _ Hnd) as H2. pose proof (NoDup_remove_1 _ _ _ Hnd) as H1.
  rewrite <- app_assoc in H1, H2. repeat split; [| | |exact H1]; intro Hx; apply H2; apply in_or_app.
  - now left.
  - right. apply in_or_app. now left.
  - right. apply in_or_app. now right.
Qed.

Lemma gocloser_inv s hid : Inv s ->
  match do_gocloser s hid with Run s' _ => Inv s' | Panic _ => False | Deadlock => False | Disabled => True end.
Proof.
  intros HI. pose proof HI as [Hnd Hb Hh]. unfold do_gocloser.
  destruct (find_go hid false (st_go s)) as [[[e pre] post]|] eqn:Ef; [|exact I].
  apply find_go_spec in Ef. destruct (go_entry_facts s hid e false pre post HI Ef) as (Hns & Hnpre & Hnpost & Hnd').
  assert (Hlt : hid < List.length (st_hs s)).
  { apply Hb, in_or_app. right. rewrite Ef, go_hids_app. apply in_or_app. right. now left. }
  destruct (nth_error_lt_Some _ _ Hlt) as (h & Hhid). rewrite Hhid.
  assert (I0 : hinv (PPend0 e) h) by (apply (Hh hid h (PPend0 e) Hhid); cbn; rewrite Ef; apply in_or_app; right; now left).
  pose proof (call_closer_spec false e h) as Hcc.
  destruct (call_closer false e h) as [h'| |]; [|contradiction|destruct Hcc; discriminate].
  destruct Hcc as (L1 & S1 & C1 & B1 & R1).
  assert (EG : go_hids (pre ++ (hid, e, true) :: post) = go_hids (st_go s)) by (rewrite Ef, !go_hids_app; reflexivity).
  split; cbn [with_go_hs st_slots st_go st_hs].
  - rewrite EG. exact Hnd.
  - rewrite EG, set_nth_length. exact Hb.
  - intros x hx ph Hx Hph. destruct (Nat.eq_dec x hid) as [->|Hne].
    + rewrite nth_error_set_nth_eq in Hx by assumption. inversion Hx; subst hx.
      assert (Hph1 : ph = PPend1 e).
      { destruct ph; cbn [phase_rel with_go_hs st_slots st_go] in Hph.
        - contradiction.
        - exfalso. apply in_app_or in Hph as [Hp|[Hp|Hp]]; [apply Hnpre|inversion Hp|apply Hnpost]; eapply in_go_hids; eauto.
        - apply in_app_or in Hph as [Hp|[Hp|Hp]]; [exfalso; apply Hnpre; eapply in_go_hids; eauto|inversion Hp; reflexivity|
            exfalso; apply Hnpost; eapply in_go_hids; eauto].
        - exfalso. apply (proj2 Hph). rewrite EG, Ef, go_hids_app. apply in_or_app. right. now left. }
      subst ph. destruct I0 as ((Hc & Hlog) & Hq & Hfo). destruct S1 as (Hfl & Hfr & Hcl & Hcap).
      split; [split|split].
      * congruence.
      * rewrite Hcl. exists (h_log h). auto.
      * rewrite B1, R1, Hq. symmetry. eapply enqueued_log_eq; eauto. apply closer_part_nomsg.
      * rewrite Hfl, L1. apply filter_ok_app_other; [apply closer_part_nomsg|assumption].
    + rewrite nth_error_set_nth_neq in Hx by congruence. apply (Hh x hx ph Hx).
      destruct ph; cbn [phase_rel with_go_hs st_slots st_go] in *; auto.
      * rewrite Ef. apply in_app_or in Hph as [Hp|[Hp|Hp]]; apply in_or_app; [now left|inversion Hp; congruence|right; now right].
      * rewrite Ef. apply in_app_or in Hph as [Hp|[Hp|Hp]]; apply in_or_app; [now left|inversion Hp; congruence|right; now right].
      * rewrite EG in Hph. exact Hph.
Qed.

Lemma goclose_inv s hid : Inv s ->
  match do_goclose s hid with Run s' _ => Inv s' | Panic _ => False | Deadlock => False | Disabled => True end.
Proof.
  intros HI. pose proof HI as [Hnd Hb Hh]. unfold do_goclose.
  destruct (find_go hid true (st_go s)) as [[[e pre] post]|] eqn:Ef; [|exact I].
  apply find_go_spec in Ef. destruct (go_entry_facts s hid e true pre post HI Ef) as (Hns & Hnpre & Hnpost & Hnd').
  assert (Hlt : hid < List.length (st_hs s)).
  { apply Hb, in_or_app. right. rewrite Ef, go_hids_app. apply in_or_app. right. now left. }
  destruct (nth_error_lt_Some _ _ Hlt) as (h & Hhid). rewrite Hhid.
  assert (I1 : hinv (PPend1 e) h) by (apply (Hh hid h (PPend1 e) Hhid); cbn; rewrite Ef; apply in_or_app; right; now left).
  destruct I1 as ((Hc & l0 & Hl0 & Hopen) & Hq & Hfo).
  destruct (close_queue_spec h Hc) as (h' & E2 & L2 & S2 & C2 & B2 & R2). rewrite E2.
  split; cbn [with_go_hs st_slots st_go st_hs].
  - rewrite go_hids_app. exact Hnd'.
  - rewrite set_nth_length. intros x Hx. apply Hb. rewrite Ef, !go_hids_app in *. cbn.
    apply in_app_or in Hx as [Hx|Hx]; apply in_or_app; [now left|right].
    apply in_app_or in Hx as [Hx|Hx]; apply in_or_app; [now left|right; now right].
  - intros x hx ph Hx Hph. destruct (Nat.eq_dec x hid) as [->|Hne].
    + rewrite nth_error_set_nth_eq in Hx by assumption. inversion Hx; subst hx.
      assert (Hph1 : ph = PDone).
      { destruct ph; cbn [phase_rel with_go_hs st_slots st_go] in Hph; [contradiction| | |reflexivity];
          exfalso; apply in_app_or in Hph as [Hp|Hp]; [apply Hnpre|apply Hnpost|apply Hnpre|apply Hnpost]; eapply in_go_hids; eauto. }
      subst ph. destruct S2 as (Hfl & Hfr & Hcl & Hcap). split; [split|split].
      * exact C2.
      * rewrite Hcl, L2, Hl0. exists e, l0. auto.
      * rewrite B2, R2, Hq. symmetry. apply (enqueued_log_eq h h' [HQClose]); auto.
      * rewrite Hfl, L2. apply filter_ok_cons_other; auto.
    + rewrite nth_error_set_nth_neq in Hx by congruence. apply (Hh x hx ph Hx).
      destruct ph; cbn [phase_rel with_go_hs st_slots st_go] in *; auto.
      * rewrite Ef. apply in_app_or in Hph as [Hp|Hp]; apply in_or_app; [now left|right; now right].
      * rewrite Ef. apply in_app_or in Hph as [Hp|Hp]; apply in_or_app; [now left|right; now right].
      * destruct Hph as [H1 H2]. split; [exact H1|]. rewrite Ef, !go_hids_app in *. cbn. intro Hy. apply H2.
        apply in_app_or in Hy as [Hy|[Hy|Hy]]; apply in_or_app; [now left|congruence|now right].
Qed.

Lemma recv_inv s hid : Inv s -> match do_recv s hid with Run s' _ => Inv s' | Disabled => True | _ => False end.
Proof.
  intros [Hnd Hb Hh]. unfold do_recv. destruct (nth_error (st_hs s) hid) as [h|] eqn:Hhid; [|exact I].
  destruct (h_buf h) as [|m rest] eqn:Hbuf; [exact I|].
  assert (Hlt : hid < List.length (st_hs s)) by (eapply nth_error_Some_lt; eauto).
  split; cbn [with_hs st_slots st_go st_hs]; [exact Hnd|now rewrite set_nth_length|].
  intros x hx ph Hx Hph. destruct (Nat.eq_dec x hid) as [->|Hne].
  - rewrite nth_error_set_nth_eq in Hx by assumption. inversion Hx; subst hx.
    specialize (Hh hid h ph Hhid Hph). destruct Hh as (H1 & Hq & Hfo).
    split; [|split].
    + destruct ph; exact H1.
    + cbn. rewrite <- app_assoc. cbn. rewrite <- Hbuf. exact Hq.
    + exact Hfo.
  - rewrite nth_error_set_nth_neq in Hx by congruence. apply (Hh x hx ph Hx Hph).
Qed.

Lemma NoDup_app_l {A} (a b : list A) : NoDup (a ++ b) -> NoDup a.
Proof. induction a as [|x a IH]; cbn; intro H; [constructor|]. inversion H; subst. constructor; [|auto]. intro Hx. apply H2, in_or_app. now left. Qed.

Lemma NoDup_app_disj {A} (a b : list A) x : NoDup (a ++ b) -> In x a -> In x b -> False.
Proof.
  induction a as [|y a IH]; cbn; intros H Ha Hb; [assumption|]. inversion H; subst. destruct Ha as [->|Ha].
  - apply H2, in_or_app. now right.
  - eapply IH; eauto.
Qed.

Lemma dispatch_inv s m : Inv s ->
  match do_dispatch s m with Run s' _ => Inv s' | Panic _ => False | Deadlock => breach s | Disabled => True end.
Proof.
  intros HI. pose proof HI as [Hnd Hb Hh]. unfold do_dispatch. destruct (negb (st_proc s)); [exact I|].
  destruct (st_slots s) as [|s0 sl0] eqn:Esl; [exact HI|]. rewrite <- Esl in *. clear Esl s0 sl0.
  assert (Hlive : forall hid, In hid (slot_hids (st_slots s)) -> exists h, nth_error (st_hs s) hid = Some h /\ hinv PLive h).
  { intros hid Hin. assert (Hlt : hid < List.length (st_hs s)) by (apply Hb, in_or_app; now left).
    destruct (nth_error_lt_Some _ _ Hlt) as (h & Hhid). exists h. split; [exact Hhid|]. now apply (Hh hid h PLive). }
  pose proof (disp_loop_spec m (st_slots s) (st_hs s) (st_sent s) DNoMatch (NoDup_app_l _ _ Hnd) Hlive) as Hloop.
  destruct (disp_loop m (st_slots s) (st_hs s) (st_sent s) DNoMatch) as [sl hs' se re| |]; [|contradiction|exact Hloop].
  destruct Hloop as (Hlen & Hle & Hout & Hin).
  split; cbn [st_slots st_go st_hs].
  - eapply slot_le_nodup; eauto.
  - intros x Hx. rewrite Hlen. apply Hb. apply in_app_or in Hx as [Hx|Hx]; apply in_or_app; [left|now right].
    eapply slot_le_in; eauto.
  - intros x hx ph Hx Hph.
    destruct (in_dec Nat.eq_dec x (slot_hids (st_slots s))) as [Hinx|Hnin].
    + destruct (Hlive x Hinx) as (h & Hhid & _).
      destruct (Hin x h Hinx Hhid) as (h' & Hh' & _ & Il & Id & _). assert (hx = h') by congruence. subst hx.
      assert (HnG : ~ In x (go_hids (st_go s))) by (intro Hg; eapply NoDup_app_disj; eauto).
      destruct ph; cbn [phase_rel st_slots st_go] in Hph.
      * now apply Il.
      * exfalso. apply HnG. eapply in_go_hids; eauto.
      * exfalso. apply HnG. eapply in_go_hids; eauto.
      * apply Id. exact (proj1 Hph).
    + rewrite (Hout x Hnin) in Hx. apply (Hh x hx ph Hx).
      destruct ph; cbn [phase_rel st_slots st_go] in *; auto.
      * exfalso. apply Hnin. eapply slot_le_in; eauto.
      * split; [exact Hnin|exact (proj2 Hph)].
Qed.

Theorem step_inv s l : Inv s ->
  match step s l with Run s' _ => Inv s' | Panic _ => False | Deadlock => breach s | Disabled => True end.
Proof.
  intro HI. destruct l; cbn [step].
  - pose proof (make_inv s f fre cl cap HI) as H. destruct (do_make s f fre cl cap); auto; contradiction.
  - now apply remove_inv.
  - now apply dispatch_inv.
  - pose proof (closeall_inv s e byproc HI) as H. destruct (do_closeall s e byproc); auto; contradiction.
  - pose proof (gocloser_inv s hid HI) as H. destruct (do_gocloser s hid); auto; contradiction.
  - pose proof (goclose_inv s hid HI) as H. destruct (do_goclose s hid); auto; contradiction.
  - pose proof (recv_inv s hid HI) as H. destruct (do_recv s hid); auto; contradiction.
Qed.

(* ---------- what one step does to the handlers that already exist ---------- *)
Lemma registered_iff s hid : registered s hid = true <-> In hid (slot_hids (st_slots s)).
Proof.
  unfold registered. rewrite existsb_exists. split.
  - intros (x & Hx & E). apply Nat.eqb_eq in E. now subst.
  - intro H. exists hid. split; [assumption|apply Nat.eqb_refl].
Qed.
Lemma registered_false_iff s hid : registered s hid = false <-> ~ In hid (slot_hids (st_slots s)).
Proof. rewrite <- registered_iff. destruct (registered s hid); split; intro H; congruence. Qed.

Lemma events_log_eq h h' l : h_log h' = l ++ h_log h -> forallb (fun e => negb (is_msg e)) l = true -> events h' = events h.
Proof.
  intros E F. unfold events. rewrite E. f_equal. clear E.
  induction l as [|x l IH]; cbn in *; [reflexivity|].
  apply andb_true_iff in F as [F1 F2]. destruct x; cbn in F1; try discriminate; cbn; auto.
Qed.

Lemma consulted_events h : consulted h = map fst (events h).
Proof.
  unfold consulted, events. rewrite map_rev. f_equal.
  induction (h_log h) as [|x l IH]; cbn; [reflexivity|]. destruct x; cbn; congruence.
Qed.

Definition contrib (s : state) (l : label) (hid : nat) : list msg :=
  match l with LDispatch m => if registered s hid then [m] else [] | _ => [] end.

Definition step_facts_stmt (s : state) (l : label) (s' : state) : Prop :=
  List.length (st_hs s') = List.length (st_hs s) + (match l with LMake _ _ _ _ => 1 | _ => 0 end) /\
  (forall hid h, nth_error (st_hs s) hid = Some h ->
     exists h', nth_error (st_hs s') hid = Some h' /\ same_static h h' /\
       (exists extra, events h' = events h ++ extra /\ map fst extra = contrib s l hid) /\
       (registered s hid = false -> registered s' hid = false)) /\
  (forall f fre cl cap, l = LMake f fre cl cap ->
     exists i, nth_error (st_hs s') (List.length (st_hs s)) = Some (new_handler f fre cl cap i)).

Lemma unchanged_facts (s s' : state) l hid h :
  nth_error (st_hs s') hid = Some h -> contrib s l hid = [] ->
  (registered s hid = false -> registered s' hid = false) ->
  exists h', nth_error (st_hs s') hid = Some h' /\ same_static h h' /\
       (exists extra, events h' = events h ++ extra /\ map fst extra = contrib s l hid) /\
       (registered s hid = false -> registered s' hid = false).
Proof.
  intros H C R. exists h. split; [exact H|]. split; [apply same_static_refl|]. split; [|exact R].
  exists []. rewrite app_nil_r, C. auto.
Qed.

Lemma step_facts s l s' r : Inv s -> step s l = Run s' r -> step_facts_stmt s l s'.
Proof.
  intros HI Hstep. pose proof HI as [Hnd Hb Hh]. destruct l; cbn [step] in Hstep.
  - (* MakeHandler *)
    unfold do_make in Hstep. set (hidn := List.length (st_hs s)) in *.
    assert (Hgen : forall sl' i, (forall x, In x (slot_hids sl') -> x = hidn \/ In x (slot_hids (st_slots s))) ->
              step_facts_stmt s (LMake f fre cl cap) (with_slots_hs s sl' (st_hs s ++ [new_handler f fre cl cap i]))).
    { intros sl' i Hsub. split; [|split].
      - cbn [with_slots_hs st_hs st_slots]. rewrite app_length. reflexivity.
      - intros hid h Hhid. apply unchanged_facts; [|reflexivity|].
        + cbn. rewrite nth_error_app1; [assumption|eapply nth_error_Some_lt; eauto].
        + intros Hr. apply registered_false_iff. apply registered_false_iff in Hr. cbn. intro Hx.
          apply Hsub in Hx as [->|Hx]; [|contradiction]. apply nth_error_Some_lt in Hhid. unfold hidn in Hhid. lia.
      - intros f0 fre0 cl0 cap0 E. inversion E; subst. exists i. cbn [with_slots_hs st_hs st_slots].
        rewrite nth_error_app2 by lia. now rewrite Nat.sub_diag. }
    destruct (first_free (st_slots s)) as [i|] eqn:Eff; inversion Hstep; subst.
    + apply Hgen. intros x Hx. apply first_free_spec in Eff.
      apply (Permutation_in _ (slot_hids_set_some _ _ hidn Eff)) in Hx. destruct Hx; auto.
    + apply Hgen. intros x Hx. rewrite slot_hids_app in Hx. apply in_app_or in Hx as [Hx|[Hx|[]]]; auto.
  - (* RemoveHandler *)
    unfold do_remove in Hstep. destruct (slot_at s id) as [hidr|] eqn:Es.
    2:{ inversion Hstep; subst. split; [lia|split; [|discriminate]]. intros hid h Hhid. apply unchanged_facts; auto. }
    apply slot_at_spec in Es. destruct (slot_hids_clear _ _ _ Es) as (l1 & l2 & E1 & E2).
    destruct (nth_error (st_hs s) hidr) as [hr|] eqn:Hr; [|discriminate].
    assert (Ilive : hinv PLive hr) by (apply (Hh hidr hr PLive Hr); eapply in_slot_hids; eauto).
    pose proof (close_with_live CNil hr Ilive) as Hcw.
    destruct (close_with true CNil hr) as [hr'| |]; try discriminate. inversion Hstep; subst. clear Hstep.
    destruct Hcw as (_ & Sr & _ & Evr).
    assert (Hmono : forall hid, registered s hid = false ->
              registered (with_slots_hs s (set_nth (Z.to_nat id) None (st_slots s)) (set_nth hidr hr' (st_hs s))) hid = false).
    { intros hid Hreg. apply registered_false_iff. apply registered_false_iff in Hreg. cbn. rewrite E2. rewrite E1 in Hreg.
      intro Hx. apply Hreg. apply in_app_or in Hx as [Hx|Hx]; apply in_or_app; [now left|right; now right]. }
    split; [cbn; rewrite set_nth_length; lia|split; [|discriminate]].
    intros hid h Hhid. destruct (Nat.eq_dec hid hidr) as [->|Hne].
    + assert (h = hr) by congruence. subst h. exists hr'. cbn [with_slots_hs st_hs].
      split; [apply nth_error_set_nth_eq; eapply nth_error_Some_lt; eauto|]. split; [exact Sr|]. split; [|apply Hmono].
      exists []. rewrite app_nil_r. auto.
    + apply unchanged_facts; [cbn; rewrite nth_error_set_nth_neq by congruence; assumption|reflexivity|apply Hmono].
  - (* dispatch *)
    unfold do_dispatch in Hstep. destruct (negb (st_proc s)); [discriminate|].
    destruct (st_slots s) as [|s0 sl0] eqn:Esl.
    { inversion Hstep; subst. split; [lia|split; [|discriminate]]. intros hid h Hhid. apply unchanged_facts; auto.
      cbn. unfold registered. now rewrite Esl. }
    rewrite <- Esl in *. clear Esl s0 sl0.
    assert (Hlive : forall hid, In hid (slot_hids (st_slots s)) -> exists h, nth_error (st_hs s) hid = Some h /\ hinv PLive h).
    { intros hid Hin. assert (Hlt : hid < List.length (st_hs s)) by (apply Hb, in_or_app; now left).
      destruct (nth_error_lt_Some _ _ Hlt) as (h & Hhid). exists h. split; [exact Hhid|]. now apply (Hh hid h PLive). }
    pose proof (disp_loop_spec m (st_slots s) (st_hs s) (st_sent s) DNoMatch (NoDup_app_l _ _ Hnd) Hlive) as Hloop.
    destruct (disp_loop m (st_slots s) (st_hs s) (st_sent s) DNoMatch) as [sl hs' se re| |]; try discriminate.
    inversion Hstep; subst. clear Hstep. destruct Hloop as (Hlen & Hle & Hout & Hin).
    split; [cbn; lia|split; [|discriminate]].
    intros hid h Hhid. cbn [st_hs contrib].
    assert (Hmono : registered s hid = false ->
              registered {| st_slots := sl; st_hs := hs'; st_go := st_go s; st_sent := se; st_sclose := st_sclose s; st_proc := st_proc s |} hid = false).
    { intro Hreg. apply registered_false_iff. apply registered_false_iff in Hreg. cbn. intro Hx. apply Hreg. eapply slot_le_in; eauto. }
    destruct (registered s hid) eqn:Hreg.
    + apply registered_iff in Hreg. destruct (Hin hid h Hreg Hhid) as (h' & Hh' & S' & _ & _ & _ & room & Ev).
      exists h'. split; [exact Hh'|]. split; [exact S'|]. split; [|exact Hmono]. exists [(m, room)]. auto.
    + exists h. split; [|split; [apply same_static_refl|split; [|exact Hmono]]].
      * rewrite Hout; [assumption|now apply registered_false_iff].
      * exists []. rewrite app_nil_r. auto.
  - (* closeWith *)
    unfold do_closeall in Hstep. destruct (byproc && negb (st_proc s)); [discriminate|]. inversion Hstep; subst.
    split; [cbn; lia|split; [|discriminate]]. intros hid h Hhid. apply unchanged_facts; [assumption|reflexivity|].
    intros _. unfold registered. cbn. now rewrite slot_hids_all_none.
  - (* goroutine: closer *)
    unfold do_gocloser in Hstep. destruct (find_go hid false (st_go s)) as [[[e pre] post]|]; [|discriminate].
    destruct (nth_error (st_hs s) hid) as [h0|] eqn:H0; [|discriminate].
    pose proof (call_closer_spec false e h0) as Hcc.
    destruct (call_closer false e h0) as [h0'| |]; try discriminate. inversion Hstep; subst. clear Hstep.
    destruct Hcc as (L1 & S1 & _).
    split; [cbn; rewrite set_nth_length; lia|split; [|discriminate]].
    intros x h Hx. destruct (Nat.eq_dec x hid) as [->|Hne].
    + assert (h = h0) by congruence. subst h. exists h0'. cbn [with_go_hs st_hs].
      split; [apply nth_error_set_nth_eq; eapply nth_error_Some_lt; eauto|]. split; [exact S1|]. split; [|auto].
      exists []. rewrite app_nil_r. split; [|reflexivity]. eapply events_log_eq; eauto. apply closer_part_nomsg.
    + apply unchanged_facts; [cbn; rewrite nth_error_set_nth_neq by congruence; assumption|reflexivity|auto].
  - (* goroutine: close(queue) *)
    unfold do_goclose in Hstep. destruct (find_go hid true (st_go s)) as [[[e pre] post]|]; [|discriminate].
    destruct (nth_error (st_hs s) hid) as [h0|] eqn:H0; [|discriminate].
    unfold close_queue in Hstep. destruct (h_closed h0); [discriminate|]. inversion Hstep; subst. clear Hstep.
    split; [cbn; rewrite set_nth_length; lia|split; [|discriminate]].
    intros x h Hx. destruct (Nat.eq_dec x hid) as [->|Hne].
    + assert (h = h0) by congruence. subst h. eexists. cbn [with_go_hs st_hs].
      split; [apply nth_error_set_nth_eq; eapply nth_error_Some_lt; eauto|]. split; [unfold same_static; cbn; auto|]. split; [|auto].
      exists []. rewrite app_nil_r. auto.
    + apply unchanged_facts; [cbn; rewrite nth_error_set_nth_neq by congruence; assumption|reflexivity|auto].
  - (* consumer *)
    unfold do_recv in Hstep. destruct (nth_error (st_hs s) hid) as [h0|] eqn:H0; [|discriminate].
    destruct (h_buf h0) as [|m rest]; [discriminate|]. inversion Hstep; subst. clear Hstep.
    split; [cbn; rewrite set_nth_length; lia|split; [|discriminate]].
    intros x h Hx. destruct (Nat.eq_dec x hid) as [->|Hne].
    + assert (h = h0) by congruence. subst h. eexists. cbn [with_hs st_hs].
      split; [apply nth_error_set_nth_eq; eapply nth_error_Some_lt; eauto|]. split; [unfold same_static; cbn; auto|]. split; [|auto].
      exists []. rewrite app_nil_r. auto.
    + apply unchanged_facts; [cbn; rewrite nth_error_set_nth_neq by congruence; assumption|reflexivity|auto].
Qed.

(* ---------- runs ---------- *)
Fixpoint exec (s : state) (ls : list label) : option state :=
  match ls with
  | [] => Some s
  | l :: r => match step s l with Run s' _ => exec s' r | _ => None end
  end.

Lemma run_from_exec ls : forall s rs i s' rs', run_from s ls rs i = RRun s' rs' -> exec s ls = Some s'.
Proof.
  induction ls as [|l ls IH]; intros s rs i s' rs' H; cbn in *.
  - now inversion H.
  - destruct (step s l); try discriminate. eapply IH; eauto.
Qed.

Lemma exec_run_from ls : forall s rs i s', exec s ls = Some s' -> exists rs', run_from s ls rs i = RRun s' rs'.
Proof.
  induction ls as [|l ls IH]; intros s rs i s' H; cbn in *.
  - inversion H; subst. eauto.
  - destruct (step s l); try discriminate. eapply IH; eauto.
Qed.

Lemma exec_app a : forall s b, exec s (a ++ b) = match exec s a with Some s1 => exec s1 b | None => None end.
Proof. induction a as [|l a IH]; intros s b; cbn; [reflexivity|]. destruct (step s l); auto. Qed.

Lemma exec_inv ls : forall s s', Inv s -> exec s ls = Some s' -> Inv s'.
Proof.
  induction ls as [|l ls IH]; intros s s' HI H; cbn in H; [now inversion H; subst|].
  pose proof (step_inv s l HI) as Hs. destruct (step s l); try discriminate. eapply IH; eauto.
Qed.

(* no label sequence whatsoever panics *)
Lemma run_from_no_panic ls : forall s rs i, Inv s -> match run_from s ls rs i with RPanic _ _ => False | _ => True end.
Proof.
  induction ls as [|l ls IH]; intros s rs i HI; cbn; [exact I|].
  pose proof (step_inv s l HI) as Hs. destruct (step s l); auto. now apply IH.
Qed.
Theorem run_no_panic ls : match run ls with RPanic _ _ => False | _ => True end.
Proof. apply run_from_no_panic, init_inv. Qed.

(* under the documented contract no label sequence deadlocks *)
Definition good (s : state) : Prop :=
  forall hid h, nth_error (st_hs s) hid = Some h -> h_fre h = false /\ h_closer h <> Some true.

Lemma step_good s l s' r : Inv s -> good s -> contract_label l -> step s l = Run s' r -> good s'.
Proof.
  intros HI Hg Hc Hstep. destruct (step_facts s l s' r HI Hstep) as (Hlen & Hold & Hnew).
  intros hid h' Hh'. destruct (Nat.lt_ge_cases hid (List.length (st_hs s))) as [Hlt|Hge].
  - destruct (nth_error_lt_Some _ _ Hlt) as (h & Hh). destruct (Hold hid h Hh) as (h2 & Hh2 & (_ & Hfr & Hcl & _) & _).
    assert (h2 = h') by congruence. subst h2. destruct (Hg hid h Hh) as [G1 G2]. rewrite Hfr, Hcl. auto.
  - destruct l; try (apply nth_error_Some_lt in Hh'; lia).
    destruct (Hnew f fre cl cap eq_refl) as (i & Hn). apply nth_error_Some_lt in Hh' as Hlt'.
    assert (hid = List.length (st_hs s)) by lia. subst hid. rewrite Hn in Hh'. inversion Hh'; subst h'. cbn. exact Hc.
Qed.

Lemma run_from_no_deadlock ls : forall s rs i, Inv s -> good s -> Forall contract_label ls ->
  match run_from s ls rs i with RDeadlock _ => False | _ => True end.
Proof.
  induction ls as [|l ls IH]; intros s rs i HI Hg Hc; cbn; [exact I|]. inversion Hc as [|x y Hc1 Hc2]; subst.
  pose proof (step_inv s l HI) as Hs. pose proof (step_good s l) as Hsg. destruct (step s l) as [s' r| | |]; auto.
  - apply IH; auto. eapply Hsg; eauto.
  - destruct Hs as (hid & h & Hh & Hbad). destruct (Hg hid h Hh) as [G1 G2]. destruct Hbad; congruence.
Qed.
Theorem run_no_deadlock ls : Forall contract_label ls -> match run ls with RDeadlock _ => False | _ => True end.
Proof. apply run_from_no_deadlock; [apply init_inv|]. intros hid h H. destruct hid; discriminate. Qed.

(* ---------- the life of a handler, read off its log in chronological order ---------- *)
Lemma forallb_rev {A} (f : A -> bool) l : forallb f (rev l) = forallb f l.
Proof. induction l as [|x l IH]; cbn; [reflexivity|]. rewrite forallb_app, IH. cbn. rewrite andb_true_r. apply andb_comm. Qed.

Definition open_shape (h : handler) : Prop :=
  exists slot evs, forallb is_msg evs = true /\ rev (h_log h) = HMade slot :: evs.
Definition half_shape (h : handler) : Prop :=
  exists slot evs e, forallb is_msg evs = true /\ rev (h_log h) = HMade slot :: evs ++ closer_part (h_closer h) e.
Definition done_shape (h : handler) : Prop :=
  exists slot evs e, forallb is_msg evs = true /\ rev (h_log h) = HMade slot :: evs ++ closer_part (h_closer h) e ++ [HQClose].
Definition lifecycle (h : handler) : Prop := open_shape h \/ half_shape h \/ done_shape h.

Lemma rev_closer_part cl e : rev (closer_part cl e) = closer_part cl e.
Proof. destruct cl; reflexivity. Qed.

Lemma open_log_shape l : open_log l -> exists slot evs, forallb is_msg evs = true /\ rev l = HMade slot :: evs.
Proof. intros (evs & i & -> & F). exists i, (rev evs). rewrite forallb_rev, rev_app_distr. auto. Qed.

Lemma hinv_shapes ph h : hinv ph h ->
  match ph with PLive | PPend0 _ => open_shape h | PPend1 _ => half_shape h | PDone => done_shape h /\ h_closed h = true end.
Proof.
  intros (H & _). destruct ph.
  - apply open_log_shape, H.
  - apply open_log_shape, H.
  - destruct H as (_ & l0 & E & Ho). destruct (open_log_shape _ Ho) as (slot & evs & F & R).
    exists slot, evs, e. split; [exact F|]. rewrite E, rev_app_distr, R, rev_closer_part. reflexivity.
  - destruct H as (Hc & e & l0 & E & Ho). split; [|exact Hc]. destruct (open_log_shape _ Ho) as (slot & evs & F & R).
    exists slot, evs, e. split; [exact F|]. rewrite E. cbn [rev]. rewrite rev_app_distr, R, rev_closer_part.
    cbn. now rewrite <- app_assoc.
Qed.

Lemma phase_exists s hid : Inv s -> exists ph, phase_rel s hid ph.
Proof.
  intros _. destruct (in_dec Nat.eq_dec hid (slot_hids (st_slots s))) as [H|H]; [exists PLive; exact H|].
  destruct (in_dec Nat.eq_dec hid (go_hids (st_go s))) as [G|G]; [|exists PDone; split; assumption].
  unfold go_hids in G. apply in_map_iff in G as ([[x e] b] & E & Hin). cbn in E. subst x.
  destruct b; [exists (PPend1 e)|exists (PPend0 e)]; exact Hin.
Qed.

Lemma inv_lifecycle s hid h : Inv s -> nth_error (st_hs s) hid = Some h -> lifecycle h.
Proof.
  intros HI Hh. destruct (phase_exists s hid HI) as (ph & Hph).
  pose proof (hinv_shapes ph h (inv_h s HI hid h ph Hh Hph)) as Hs. unfold lifecycle. destruct ph; tauto.
Qed.

(* counters *)
Lemma closer_calls_app a b : closer_calls (a ++ b) = closer_calls a + closer_calls b.
Proof. induction a as [|x a IH]; cbn; [reflexivity|]. destruct x; cbn; lia. Qed.
Lemma queue_closes_app a b : queue_closes (a ++ b) = queue_closes a + queue_closes b.
Proof. induction a as [|x a IH]; cbn; [reflexivity|]. destruct x; cbn; lia. Qed.
Lemma counts_msgs evs : forallb is_msg evs = true -> closer_calls evs = 0 /\ queue_closes evs = 0.
Proof. induction evs as [|x evs IH]; cbn; [auto|]. intro H. apply andb_true_iff in H as [H1 H2]. destruct x; try discriminate. auto. Qed.

Lemma closer_calls_rev l : closer_calls (rev l) = closer_calls l.
Proof. induction l as [|x l IH]; cbn; [reflexivity|]. rewrite closer_calls_app, IH. destruct x; cbn; lia. Qed.
Lemma queue_closes_rev l : queue_closes (rev l) = queue_closes l.
Proof. induction l as [|x l IH]; cbn; [reflexivity|]. rewrite queue_closes_app, IH. destruct x; cbn; lia. Qed.

Definition closer_count (h : handler) : nat := match h_closer h with None => 0 | Some _ => 1 end.

Lemma done_shape_counts h : done_shape h ->
  closer_calls (h_log h) = closer_count h /\ queue_closes (h_log h) = 1.
Proof.
  intros (slot & evs & e & F & R). rewrite <- closer_calls_rev, <- queue_closes_rev, R.
  destruct (counts_msgs evs F) as [C1 C2]. unfold closer_count.
  change (HMade slot :: evs ++ closer_part (h_closer h) e ++ [HQClose]) with ([HMade slot] ++ evs ++ closer_part (h_closer h) e ++ [HQClose]).
  rewrite !closer_calls_app, !queue_closes_app, C1, C2. destruct (h_closer h); cbn; auto.
Qed.

Lemma lifecycle_counts h : lifecycle h -> closer_calls (h_log h) <= closer_count h /\ queue_closes (h_log h) <= 1.
Proof.
  intros [(slot & evs & F & R)|[(slot & evs & e & F & R)|H]].
  - rewrite <- closer_calls_rev, <- queue_closes_rev, R. destruct (counts_msgs evs F) as [C1 C2]. cbn. lia.
  - rewrite <- closer_calls_rev, <- queue_closes_rev, R. destruct (counts_msgs evs F) as [C1 C2].
    change (HMade slot :: evs ++ closer_part (h_closer h) e) with ([HMade slot] ++ evs ++ closer_part (h_closer h) e).
    rewrite !closer_calls_app, !queue_closes_app, C1, C2. unfold closer_count. destruct (h_closer h); cbn; lia.
  - destruct (done_shape_counts h H). lia.
Qed.

(* ---------- shutdown closes every handler registered before it, exactly once ---------- *)
Lemma exec_length ls : forall s s', Inv s -> exec s ls = Some s' -> List.length (st_hs s') = List.length (st_hs s) + made_count ls.
Proof.
  induction ls as [|l ls IH]; intros s s' HI H; cbn in H; [inversion H; subst; cbn; lia|].
  pose proof (step_inv s l HI) as Hs. destruct (step s l) as [s1 r| | |] eqn:Es; try discriminate.
  destruct (step_facts s l s1 r HI Es) as (Hlen & _). rewrite (IH s1 s' Hs H), Hlen. destruct l; cbn; lia.
Qed.

Lemma exec_unregistered ls : forall s s' hid, Inv s -> exec s ls = Some s' -> hid < List.length (st_hs s) ->
  registered s hid = false -> registered s' hid = false.
Proof.
  induction ls as [|l ls IH]; intros s s' hid HI H Hlt Hr; cbn in H; [inversion H; now subst|].
  pose proof (step_inv s l HI) as Hs. destruct (step s l) as [s1 r| | |] eqn:Es; try discriminate.
  destruct (step_facts s l s1 r HI Es) as (Hlen & Hold & _).
  destruct (nth_error_lt_Some _ _ Hlt) as (h & Hh). destruct (Hold hid h Hh) as (h' & Hh' & _ & _ & Hmono).
  apply (IH s1 s' hid Hs H); [lia|auto].
Qed.

Definition closed_once (h : handler) : Prop :=
  done_shape h /\ h_closed h = true /\ closer_calls (h_log h) = closer_count h /\ queue_closes (h_log h) = 1.

Theorem shutdown_closes_once l1 e b l2 s rs hid h :
  run (l1 ++ LCloseAll e b :: l2) = RRun s rs ->
  hid < made_count l1 ->                          (* registered before the shutdown *)
  ~ In hid (go_hids (st_go s)) ->                 (* its closeWith goroutine is not pending any more *)
  nth_error (st_hs s) hid = Some h ->
  closed_once h.
Proof.
  intros Hrun Hmade Hgo Hh. unfold run in Hrun. apply run_from_exec in Hrun. rewrite exec_app in Hrun.
  destruct (exec init l1) as [s1|] eqn:E1; [|discriminate].
  pose proof (exec_inv l1 init s1 init_inv E1) as I1.
  pose proof (exec_length l1 init s1 init_inv E1) as Hlen1. cbn [init st_hs List.length] in Hlen1.
  cbn [exec step] in Hrun. pose proof (closeall_inv s1 e b I1) as I2. unfold do_closeall in *.
  destruct (b && negb (st_proc s1)); [discriminate|].
  match type of Hrun with exec ?x l2 = _ => set (s2 := x) in * end.
  assert (Hr2 : registered s2 hid = false) by (unfold registered, s2; cbn; now rewrite slot_hids_all_none).
  assert (Hrs : registered s hid = false) by (apply (exec_unregistered l2 s2 s hid I2 Hrun); [unfold s2; cbn; lia|exact Hr2]).
  pose proof (exec_inv l2 s2 s I2 Hrun) as HI.
  apply registered_false_iff in Hrs.
  pose proof (inv_h s HI hid h PDone Hh (conj Hrs Hgo)) as Hd.
  destruct (hinv_shapes PDone h Hd) as [Sh Hc]. destruct (done_shape_counts h Sh). repeat split; auto.
Qed.

(* the goroutines can always run to completion: nothing they need is ever withheld *)
Definition is_go_label (l : label) : Prop := match l with LGoCloser _ | LGoClose _ => True | _ => False end.
Fixpoint go_weight (g : list (nat * cerr * bool)) : nat :=
  match g with [] => 0 | (_, _, b) :: r => (if b then 1 else 2) + go_weight r end.

Lemma drain_goroutines n : forall s, Inv s -> go_weight (st_go s) <= n ->
  exists ls s', Forall is_go_label ls /\ exec s ls = Some s' /\ st_go s' = [].
Proof.
  induction n as [|n IH]; intros s HI Hw.
  - destruct (st_go s) as [|[[hid e] b] r] eqn:Eg; [exists [], s; cbn; auto|]. cbn in Hw. destruct b; lia.
  - destruct (st_go s) as [|[[hid e] b] r] eqn:Eg; [exists [], s; cbn; auto|].
    destruct b.
    + (* close(queue) *)
      pose proof (goclose_inv s hid HI) as Hs. unfold do_goclose in Hs. rewrite Eg, find_go_head in Hs.
      destruct (nth_error (st_hs s) hid) as [h|] eqn:Hh; [|contradiction].
      destruct (close_queue h) as [h'| |] eqn:Ec; try contradiction. cbn [app] in Hs.
      destruct (IH _ Hs) as (ls & s' & F & Ex & Eg'); [cbn [with_go_hs st_go]; cbn in Hw; lia|].
      exists (LGoClose hid :: ls), s'. split; [constructor; [exact I|exact F]|]. split; [|exact Eg'].
      cbn [exec step]. unfold do_goclose. rewrite Eg, find_go_head, Hh, Ec. exact Ex.
    + (* closer *)
      pose proof (gocloser_inv s hid HI) as Hs. unfold do_gocloser in Hs. rewrite Eg, find_go_head in Hs.
      destruct (nth_error (st_hs s) hid) as [h|] eqn:Hh; [|contradiction].
      destruct (call_closer false e h) as [h'| |] eqn:Ec; try contradiction. cbn [app] in Hs.
      destruct (IH _ Hs) as (ls & s' & F & Ex & Eg'); [cbn [with_go_hs st_go go_weight]; cbn in Hw; lia|].
      exists (LGoCloser hid :: ls), s'. split; [constructor; [exact I|exact F]|]. split; [|exact Eg'].
      cbn [exec step]. unfold do_gocloser. rewrite Eg, find_go_head, Hh, Ec. exact Ex.
Qed.

Theorem goroutines_finish ls s rs : run ls = RRun s rs ->
  exists ls' s' rs', Forall is_go_label ls' /\ run (ls ++ ls') = RRun s' rs' /\ st_go s' = [].
Proof.
  intro Hrun. unfold run in Hrun. apply run_from_exec in Hrun.
  pose proof (exec_inv ls init s init_inv Hrun) as HI.
  destruct (drain_goroutines (go_weight (st_go s)) s HI (le_n _)) as (ls' & s' & F & Ex & Eg).
  assert (Hall : exec init (ls ++ ls') = Some s') by (rewrite exec_app, Hrun; exact Ex).
  destruct (exec_run_from (ls ++ ls') init [] 0 s' Hall) as (rs' & Hr). exists ls', s', rs'. auto.
Qed.

(* ---------- RemoveHandler ---------- *)
Lemma slot_at_set_none s id hs : (0 <= id)%Z ->
  slot_at (with_slots_hs s (set_nth (Z.to_nat id) None (st_slots s)) hs) id = None.
Proof.
  intro Hid. unfold slot_at. cbn [with_slots_hs st_slots]. destruct (Z.ltb id 0); [reflexivity|].
  destruct (nth_error (st_slots s) (Z.to_nat id)) as [x|] eqn:E.
  - rewrite nth_error_set_nth_eq by (eapply nth_error_Some_lt; eauto). reflexivity.
  - assert (Hn : nth_error (set_nth (Z.to_nat id) None (st_slots s)) (Z.to_nat id) = None).
    { apply nth_error_None. rewrite set_nth_length. now apply nth_error_None. }
    now rewrite Hn.
Qed.

Theorem remove_registered s id hid : Inv s -> slot_at s id = Some hid ->
  (forall h, nth_error (st_hs s) hid = Some h -> h_closer h <> Some true) ->
  exists s' h', step s (LRemove id) = Run s' ROk /\ slot_at s' id = None /\
                nth_error (st_hs s') hid = Some h' /\ closed_once h'.
Proof.
  intros HI Es Hc. pose proof HI as [Hnd Hb Hh]. cbn [step]. unfold do_remove. rewrite Es.
  assert (Hid : (0 <= id)%Z) by (unfold slot_at in Es; destruct (Z.ltb id 0) eqn:E; [discriminate|apply Z.ltb_ge in E; lia]).
  apply slot_at_spec in Es.
  assert (Hlt : hid < List.length (st_hs s)) by (apply Hb, in_or_app; left; eapply in_slot_hids; eauto).
  destruct (nth_error_lt_Some _ _ Hlt) as (h & Hhid). rewrite Hhid.
  assert (Ilive : hinv PLive h) by (apply (Hh hid h PLive Hhid); eapply in_slot_hids; eauto).
  pose proof (close_with_live CNil h Ilive) as Hcw.
  destruct (close_with true CNil h) as [h'| |]; [|contradiction|exfalso; eapply Hc; eauto].
  destruct Hcw as (Idone & _). eexists; exists h'. split; [reflexivity|]. split; [now apply slot_at_set_none|].
  split; [cbn; now apply nth_error_set_nth_eq|].
  destruct (hinv_shapes PDone h' Idone) as [Sh Hcl]. destruct (done_shape_counts h' Sh). repeat split; auto.
Qed.

(* ---------- MakeHandler: the id returned names no registered handler ---------- *)
Lemma slot_at_nat (s : state) i : slot_at s (Z.of_nat i) = match nth_error (st_slots s) i with Some (Some hid) => Some hid | _ => None end.
Proof. unfold slot_at. destruct (Z.ltb (Z.of_nat i) 0) eqn:E; [apply Z.ltb_lt in E; lia|]. now rewrite Nat2Z.id. Qed.

Theorem make_fresh_id s f fre cl cap :
  exists s' i, step s (LMake f fre cl cap) = Run s' (RId i) /\
    slot_at s (Z.of_nat i) = None /\ slot_at s' (Z.of_nat i) = Some (List.length (st_hs s)) /\
    (forall j, j <> i -> slot_at s' (Z.of_nat j) = slot_at s (Z.of_nat j)).
Proof.
  cbn [step]. unfold do_make. destruct (first_free (st_slots s)) as [i|] eqn:Ef.
  - apply first_free_spec in Ef. eexists; exists i. split; [reflexivity|]. rewrite !slot_at_nat. cbn [with_slots_hs st_slots].
    rewrite Ef. split; [reflexivity|]. split.
    + rewrite nth_error_set_nth_eq by (eapply nth_error_Some_lt; eauto). reflexivity.
    + intros j Hj. rewrite slot_at_nat. cbn [with_slots_hs st_slots]. rewrite slot_at_nat. now rewrite nth_error_set_nth_neq by congruence.
  - eexists; exists (List.length (st_slots s)). split; [reflexivity|]. rewrite !slot_at_nat. cbn [with_slots_hs st_slots].
    assert (Hn : nth_error (st_slots s) (List.length (st_slots s)) = None) by (apply nth_error_None; lia).
    rewrite Hn. split; [reflexivity|]. split.
    + rewrite nth_error_app2, Nat.sub_diag by lia. reflexivity.
    + intros j Hj. rewrite !slot_at_nat. cbn [with_slots_hs st_slots].
      destruct (Nat.lt_ge_cases j (List.length (st_slots s))) as [Hlt|Hge].
      * now rewrite nth_error_app1.
      * assert (E1 : nth_error (st_slots s ++ [Some (List.length (st_hs s))]) j = None) by (apply nth_error_None; rewrite app_length; cbn; lia).
        assert (E2 : nth_error (st_slots s) j = None) by (apply nth_error_None; lia). now rewrite E1, E2.
Qed.

(* ---------- C10 (c): a handler's queue holds what its filter selects, in arrival order ---------- *)
Lemma seen_of_events l : seen_of l = map (fun p => m_header (fst p)) (events_rev l).
Proof. induction l as [|x l IH]; cbn; [reflexivity|]. destruct x; cbn; congruence. Qed.

Lemma expect_app f a : forall seen b,
  expect f seen (a ++ b) = expect f seen a ++ expect f (rev (map (fun p => m_header (fst p)) a) ++ seen) b.
Proof.
  induction a as [|[m room] a IH]; intros seen b; cbn [app expect map rev fst]; [reflexivity|].
  rewrite IH, <- !app_assoc. reflexivity.
Qed.

Lemma enqueued_expect f l : filter_ok f l -> rev (enqueued_rev l) = expect f [] (rev (events_rev l)).
Proof.
  induction l as [|x l IH]; intro Hf; [reflexivity|].
  assert (Hf' : filter_ok f l).
  { intros l1 m a k r l2 E. apply (Hf (x :: l1) m a k r l2). cbn. now rewrite E. }
  destruct x as [slot|m a k room|e|]; cbn [enqueued_rev events_rev]; try (apply IH; exact Hf').
  assert (Ha : (a, k) = f (seen_of l) (m_header m)) by (apply (Hf [] m a k room l); reflexivity).
  cbn [rev]. rewrite expect_app, app_nil_r, <- map_rev, rev_involutive, <- seen_of_events, <- (IH Hf').
  cbn [expect]. rewrite <- Ha. cbn [fst]. rewrite app_nil_r.
  destruct a, room; cbn [andb rev app]; try reflexivity; now rewrite app_nil_r.
Qed.

Lemma window_events ls : forall s0 s, Inv s0 -> exec s0 ls = Some s -> forall hid h, nth_error (st_hs s) hid = Some h ->
  (forall h0, nth_error (st_hs s0) hid = Some h0 -> map fst (events h) = map fst (events h0) ++ window_from s0 ls hid) /\
  (List.length (st_hs s0) <= hid -> map fst (events h) = window_from s0 ls hid).
Proof.
  induction ls as [|l ls IH]; intros s0 s HI Hex hid h Hh; cbn [exec window_from] in *.
  - inversion Hex; subst. split.
    + intros h0 H0. assert (h0 = h) by congruence. subst. now rewrite app_nil_r.
    + intro Hge. apply nth_error_Some_lt in Hh. lia.
  - pose proof (step_inv s0 l HI) as I1. destruct (step s0 l) as [s1 r| | |] eqn:Es; try discriminate.
    destruct (step_facts s0 l s1 r HI Es) as (Hlen & Hold & Hnew).
    destruct (IH s1 s I1 Hex hid h Hh) as [IHa IHb]. split.
    + intros h0 H0. destruct (Hold hid h0 H0) as (h1 & H1 & _ & (extra & Ev & Ex) & _).
      rewrite (IHa h1 H1), Ev, map_app, Ex, <- app_assoc. reflexivity.
    + intro Hge.
      assert (Hc : contrib s0 l hid = []).
      { unfold contrib. destruct l; try reflexivity. destruct (registered s0 hid) eqn:Hr; [|reflexivity].
        apply registered_iff in Hr. assert (hid < List.length (st_hs s0)) by (apply (inv_bound s0 HI), in_or_app; now left). lia. }
      unfold contrib in Hc. rewrite Hc. cbn [app].
      destruct (Nat.lt_ge_cases hid (List.length (st_hs s1))) as [Hlt|Hge1]; [|now apply IHb].
      destruct l; try lia. assert (hid = List.length (st_hs s0)) by lia. subst hid.
      destruct (Hnew f fre cl cap eq_refl) as (i & Hn). rewrite (IHa _ Hn). reflexivity.
Qed.

Theorem queue_is_selected_subsequence ls s rs hid h :
  run ls = RRun s rs -> nth_error (st_hs s) hid = Some h ->
  map fst (events h) = window ls hid /\
  h_recvd h ++ h_buf h = expect (h_filter h) [] (events h).
Proof.
  intros Hrun Hh. unfold run in Hrun. apply run_from_exec in Hrun.
  pose proof (exec_inv ls init s init_inv Hrun) as HI. split.
  - destruct (window_events ls init s init_inv Hrun hid h Hh) as [_ Hb]. apply Hb. cbn. lia.
  - destruct (phase_exists s hid HI) as (ph & Hph). destruct (inv_h s HI hid h ph Hh Hph) as (_ & Hq & Hf).
    rewrite Hq. unfold enqueued, events. now apply enqueued_expect.
Qed.

(* with room for every message the queue holds exactly the messages the filter matched *)
Fixpoint selected (f : filter) (seen : list header) (ms : list msg) : list msg :=
  match ms with
  | [] => []
  | m :: r => (if fst (f seen (m_header m)) then [m] else []) ++ selected f (m_header m :: seen) r
  end.

Lemma expect_all_room f : forall evs seen, forallb snd evs = true -> expect f seen evs = selected f seen (map fst evs).
Proof.
  induction evs as [|[m room] evs IH]; intros seen H; cbn in *; [reflexivity|].
  apply andb_true_iff in H as [H1 H2]. subst room. rewrite andb_true_r, IH by assumption. reflexivity.
Qed.

Corollary queue_with_room ls s rs hid h :
  run ls = RRun s rs -> nth_error (st_hs s) hid = Some h -> forallb snd (events h) = true ->
  h_recvd h ++ h_buf h = selected (h_filter h) [] (window ls hid).
Proof.
  intros Hrun Hh Hroom. destruct (queue_is_selected_subsequence ls s rs hid h Hrun Hh) as [Hw Hq].
  rewrite Hq, expect_all_room by assumption. now rewrite Hw.
Qed.

(* ---------- C10 (c), the end of a handler's life takes nothing back ----------
   Whatever happened to the handler (removed, closed by a shutdown, its filter answered keep=false: the
   queue may be closed), a consumer that goes on receiving is handed everything that waits in the queue:
   after length (h_buf h) receptions the queue is empty and what the consumer has received is exactly
   what the filter matched among the messages that found room, in arrival order. *)
Lemma drain_exec n : forall s hid h, nth_error (st_hs s) hid = Some h -> List.length (h_buf h) = n ->
  exists s' h', exec s (repeat (LRecv hid) n) = Some s' /\ nth_error (st_hs s') hid = Some h' /\
    h_buf h' = [] /\ h_recvd h' = h_recvd h ++ h_buf h /\ h_closed h' = h_closed h.
Proof.
  induction n as [|n IH]; intros s hid h Hh Hlen.
  - destruct (h_buf h) eqn:Hb; [|discriminate]. exists s, h. cbn. rewrite app_nil_r. repeat split; auto.
  - destruct (h_buf h) as [|m rest] eqn:Hb; [discriminate|]. cbn [repeat exec step]. unfold do_recv. rewrite Hh, Hb.
    assert (Hlt : hid < List.length (st_hs s)) by (eapply nth_error_Some_lt; eauto).
    destruct (IH (with_hs s (set_nth hid (take_one h m rest) (st_hs s))) hid (take_one h m rest)) as (s' & h' & He & Hn & Hbuf & Hr & Hc).
    + cbn. now apply nth_error_set_nth_eq.
    + cbn. cbn in Hlen. lia.
    + exists s', h'. repeat split; auto. rewrite Hr. cbn. now rewrite <- app_assoc.
Qed.

Theorem drain_delivers_selection ls s rs hid h :
  run ls = RRun s rs -> nth_error (st_hs s) hid = Some h ->
  exists s' rs' h', run (ls ++ repeat (LRecv hid) (List.length (h_buf h))) = RRun s' rs' /\
    nth_error (st_hs s') hid = Some h' /\ h_buf h' = [] /\ h_closed h' = h_closed h /\
    h_recvd h' = expect (h_filter h) [] (events h).
Proof.
  intros Hrun Hh. destruct (queue_is_selected_subsequence ls s rs hid h Hrun Hh) as [_ Hq].
  unfold run in Hrun. apply run_from_exec in Hrun.
  destruct (drain_exec (List.length (h_buf h)) s hid h Hh eq_refl) as (s' & h' & He & Hn & Hb & Hr & Hc).
  assert (Hx : exec init (ls ++ repeat (LRecv hid) (List.length (h_buf h))) = Some s') by (rewrite exec_app, Hrun; exact He).
  destruct (exec_run_from _ init [] 0 s' Hx) as (rs' & Hrun').
  exists s', rs', h'. unfold run. repeat split; auto. now rewrite Hr.
Qed.

(* ---------- C10 (a)+(b): concurrent senders ---------- *)
Lemma pop_nth_spec {A} (P : A -> Prop) i : forall (ls ls' : list (list A)) x, pop_nth i ls = Some (x, ls') ->
  nth i ls [] = x :: nth i ls' [] /\ (forall j, j <> i -> nth j ls' [] = nth j ls []) /\
  (Forall (Forall P) ls -> P x /\ Forall (Forall P) ls').
Proof.
  induction i as [|i IH]; intros ls ls' x H.
  - destruct ls as [|[|y q] r]; cbn in H; try discriminate. inversion H; subst. split; [reflexivity|]. split.
    + intros [|j] Hj; [congruence|reflexivity].
    + intro F. inversion F as [|a b Fa Fb]; subst. inversion Fa; subst. split; [assumption|]. constructor; assumption.
  - destruct ls as [|q r]; [discriminate|].
    assert (H' : match pop_nth i r with Some (x, r') => Some (x, q :: r') | None => None end = Some (x, ls'))
      by (destruct q; exact H).
    clear H. destruct (pop_nth i r) as [[y r']|] eqn:E; [|discriminate].
    inversion H'; subst. destruct (IH r r' x E) as (H1 & H2 & H3). split; [exact H1|]. split.
    + intros [|j] Hj; [reflexivity|]. cbn. apply H2. congruence.
    + intro F. inversion F as [|a b Fa Fb]; subst. destruct (H3 Fb). split; [assumption|]. constructor; assumption.
Qed.

Definition from_sender (i : nat) (p : nat * msg) : bool := Nat.eqb (fst p) i.

Lemma send_run_spec sched : forall pending calls sent,
  Forall (Forall valid_msg) pending ->
  exists w' rest more,
    send_run sched pending {| w_calls := calls; w_sched := [] |} sent = Some (Ok (w', rest, rev sent ++ more)) /\
    w_calls w' = calls ++ map enc_msg (map snd more) /\
    Forall valid_msg (map snd more) /\
    (forall i, map snd (List.filter (from_sender i) more) ++ nth i rest [] = nth i pending []).
Proof.
  induction sched as [|i sched IH]; intros pending calls sent Hv; cbn [send_run].
  - exists {| w_calls := calls; w_sched := [] |}, pending, []. cbn. rewrite !app_nil_r. repeat split; auto.
  - destruct (pop_nth i pending) as [[m pending']|] eqn:Ep; [|apply IH; exact Hv].
    destruct (pop_nth_spec valid_msg i pending pending' m Ep) as (Hi & Hj & Hval). destruct (Hval Hv) as [Hm Hv'].
    rewrite (write_msg_once m calls Hm).
    destruct (IH pending' (calls ++ [enc_msg m]) ((i, m) :: sent) Hv') as (w' & rest & more & Hrun & Hcalls & Hvm & Hper).
    exists w', rest, ((i, m) :: more). split; [|split; [|split]].
    + rewrite Hrun. cbn [rev]. now rewrite <- app_assoc.
    + rewrite Hcalls. cbn. now rewrite <- app_assoc.
    + cbn. constructor; assumption.
    + intro j. cbn [List.filter]. unfold from_sender at 1. cbn [fst]. destruct (Nat.eqb i j) eqn:E.
      * apply Nat.eqb_eq in E. subst j. cbn. rewrite Hper, Hi. reflexivity.
      * apply Nat.eqb_neq in E. rewrite Hper. apply Hj. congruence.
Qed.

Theorem concurrent_send_decodes sched ls :
  Forall (Forall valid_msg) ls ->
  exists w' rest tagged,
    send_run sched ls {| w_calls := []; w_sched := [] |} [] = Some (Ok (w', rest, tagged)) /\
    (* one Write call per message, carrying the whole frame *)
    w_calls w' = map enc_msg (map snd tagged) /\
    (* each sender's messages appear once, in the order it sent them *)
    (forall i, map snd (List.filter (from_sender i) tagged) ++ nth i rest [] = nth i ls []) /\
    (* the peer reads back exactly that sequence, whatever the fragmentation *)
    (forall rsched, pos_sched rsched -> exists rsched',
        read_all (S (List.length tagged)) {| s_data := List.concat (w_calls w'); s_sched := rsched |} =
          Some (map snd tagged, EEOF, {| s_data := []; s_sched := rsched' |})).
Proof.
  intro Hv. destruct (send_run_spec sched ls [] [] Hv) as (w' & rest & more & Hrun & Hcalls & Hvm & Hper).
  cbn in Hrun, Hcalls. exists w', rest, more. repeat split; auto.
  intros rsched Hpos. rewrite Hcalls. destruct (read_all_sequence (map snd more) rsched Hvm Hpos) as (rsched' & Hr).
  rewrite map_length in Hr. eauto.
Qed.

(* when every sender got to send everything, the received sequence projected on sender i is its list *)
Corollary concurrent_send_complete sched ls w' rest tagged :
  Forall (Forall valid_msg) ls ->
  send_run sched ls {| w_calls := []; w_sched := [] |} [] = Some (Ok (w', rest, tagged)) ->
  Forall (fun l => l = []) rest ->
  forall i, map snd (List.filter (from_sender i) tagged) = nth i ls [].
Proof.
  intros Hv Hrun Hrest i. destruct (concurrent_send_decodes sched ls Hv) as (w2 & rest2 & tagged2 & Hrun2 & _ & Hper & _).
  rewrite Hrun in Hrun2. inversion Hrun2; subst. rewrite <- (Hper i).
  assert (E : nth i rest2 [] = []).
  { destruct (nth_in_or_default i rest2 []) as [Hin|E]; [|exact E]. rewrite Forall_forall in Hrest. now apply Hrest. }
  now rewrite E, app_nil_r.
Qed.

(* RemoveHandler of an id that names no registered handler: an error, and nothing changes *)
Lemma remove_invalid s id : slot_at s id = None -> step s (LRemove id) = Run s RInvalid.
Proof. intro H. cbn [step]. unfold do_remove. now rewrite H. Qed.

(* ---------- statements over reachable states, as used by props/C17.v and props/C10.v ---------- *)
Theorem run_inv ls s rs : run ls = RRun s rs -> Inv s.
Proof. intro H. unfold run in H. apply run_from_exec in H. exact (exec_inv ls init s init_inv H). Qed.

Theorem run_lifecycle ls s rs hid h : run ls = RRun s rs -> nth_error (st_hs s) hid = Some h ->
  lifecycle h /\ closer_calls (h_log h) <= closer_count h /\ queue_closes (h_log h) <= 1.
Proof.
  intros Hrun Hh. pose proof (inv_lifecycle s hid h (run_inv ls s rs Hrun) Hh) as L. split; [exact L|now apply lifecycle_counts].
Qed.

(* a handler that is in the table has not been closed and its closer has not been called *)
Theorem run_registered_open ls s rs hid h : run ls = RRun s rs -> nth_error (st_hs s) hid = Some h ->
  registered s hid = true -> open_shape h /\ h_closed h = false.
Proof.
  intros Hrun Hh Hr. apply registered_iff in Hr.
  pose proof (inv_h s (run_inv ls s rs Hrun) hid h PLive Hh Hr) as Hi. split; [exact (hinv_shapes PLive h Hi)|]. apply Hi.
Qed.

Theorem run_remove_registered ls s rs id hid : run ls = RRun s rs -> slot_at s id = Some hid ->
  (forall h, nth_error (st_hs s) hid = Some h -> h_closer h <> Some true) ->
  exists s' h', step s (LRemove id) = Run s' ROk /\ slot_at s' id = None /\
                step s' (LRemove id) = Run s' RInvalid /\
                nth_error (st_hs s') hid = Some h' /\ closed_once h'.
Proof.
  intros Hrun Es Hc. destruct (remove_registered s id hid (run_inv ls s rs Hrun) Es Hc) as (s' & h' & H1 & H2 & H3 & H4).
  exists s', h'. split; [exact H1|]. split; [exact H2|]. split; [now apply remove_invalid|]. split; assumption.
Qed.

(* the contract is needed: a closer that calls back into the endpoint deadlocks RemoveHandler *)
Definition never : filter := fun _ _ => (false, true).
Lemma reentrant_closer_deadlocks : run [LMake never false (Some true) 1; LRemove 0%Z] = RDeadlock 1.
Proof. vm_compute. reflexivity. Qed.

(* a concrete run: two handlers, traffic, one self-removal, Close, the goroutines *)
Definition all_ : filter := fun _ _ => (true, true).
Definition once_ : filter := fun _ _ => (true, false).
Definition ex_call (id : N) : msg :=
  {| m_header := {| h_magic := Magic; h_id := id; h_size := 0; h_version := Version; h_type := T_Call; h_flags := 0;
                    h_service := 1; h_object := 1; h_action := 0 |}; m_payload := [] |}.
Definition ex_labels : list label :=
  [LMake all_ false (Some false) 1; LMake once_ false None 1; LDispatch (ex_call 1); LDispatch (ex_call 2);
   LCloseAll CNil false; LGoCloser 0; LRecv 0; LGoClose 0; LRemove 0%Z; LMake all_ false None 0].
Definition hsummary (h : handler) := (closer_calls (h_log h), queue_closes (h_log h), h_closed h,
                                      map (fun m => h_id (m_header m)) (h_recvd h ++ h_buf h)).
Lemma ex_run : exists s rs, run ex_labels = RRun s rs /\
  map hsummary (st_hs s) = [(1, 1, true, [1%N]); (0, 1, true, [1%N]); (0, 0, false, [])] /\
  rs = [RId 0; RId 1; RDisp DNil; RDisp DBlocked; RNone; RNone; RNone; RNone; RInvalid; RId 0] /\
  List.length (st_sent s) = 1.
Proof. eexists; eexists. split; [vm_compute; reflexivity|]. vm_compute. auto. Qed.

(* two senders, their Write calls interleaved 0,1,1,0 *)
Definition ex_senders : list (list msg) := [[ex_call 10; ex_call 11]; [ex_call 20; ex_call 21]].
Lemma ex_call_valid id : (id < 2 ^ 32)%N -> valid_msg (ex_call id).
Proof. intro H. unfold valid_msg, valid_header, ex_call, Magic, Version, MaxPayloadSize, T_Call; cbn. lia. Qed.
Lemma ex_senders_valid : Forall (Forall valid_msg) ex_senders.
Proof. repeat constructor; apply ex_call_valid; reflexivity. Qed.
Lemma ex_send : exists w' tagged,
  send_run [0; 1; 1; 0] ex_senders {| w_calls := []; w_sched := [] |} [] = Some (Ok (w', [[]; []], tagged)) /\
  map (fun p => (fst p, h_id (m_header (snd p)))) tagged = [(0, 10%N); (1, 20%N); (1, 21%N); (0, 11%N)] /\
  List.length (w_calls w') = 4.
Proof. eexists; eexists. split; [vm_compute; reflexivity|]. vm_compute. auto. Qed.

(* ---------- C10 (b) once more, stated with an interleaving relation on plain lists ---------- *)
Inductive Interleaving {A} : list (list A) -> list A -> Prop :=
| IL_done : forall ls, Forall (fun l => l = []) ls -> Interleaving ls []
| IL_step : forall ls i x ls' l, pop_nth i ls = Some (x, ls') -> Interleaving ls' l -> Interleaving ls (x :: l).

Lemma all_nil_nth {A} (ls : list (list A)) i : Forall (fun l => l = []) ls -> nth i ls [] = [].
Proof.
  intro F. destruct (nth_in_or_default i ls []) as [Hin|E]; [|exact E]. rewrite Forall_forall in F. now apply F.
Qed.

Lemma all_nil_concat {A} (ls : list (list A)) : Forall (fun l => l = []) ls -> List.concat ls = [].
Proof. induction 1 as [|x ls Hx _ IH]; cbn; [reflexivity|]. now rewrite Hx, IH. Qed.

Lemma pop_nth_perm {A} i : forall (ls ls' : list (list A)) x, pop_nth i ls = Some (x, ls') ->
  Permutation (List.concat ls) (x :: List.concat ls').
Proof.
  induction i as [|i IH]; intros ls ls' x H.
  - destruct ls as [|[|y q] r]; cbn in H; try discriminate. inversion H; subst. cbn. reflexivity.
  - destruct ls as [|q r]; [discriminate|].
    assert (H' : match pop_nth i r with Some (x, r') => Some (x, q :: r') | None => None end = Some (x, ls'))
      by (destruct q; exact H).
    clear H. destruct (pop_nth i r) as [[y r']|] eqn:E; [|discriminate]. inversion H'; subst. cbn.
    rewrite (IH r r' x E). symmetry. apply Permutation_middle.
Qed.

Lemma interleaving_forall {A} (P : A -> Prop) (ls : list (list A)) l :
  Interleaving ls l -> Forall (Forall P) ls -> Forall P l.
Proof.
  induction 1 as [|ls i x ls' l Hp _ IH]; intro F; [constructor|].
  destruct (pop_nth_spec P i ls ls' x Hp) as (_ & _ & Hv). destruct (Hv F). constructor; auto.
Qed.

Lemma interleaving_perm {A} (ls : list (list A)) l : Interleaving ls l -> Permutation l (List.concat ls).
Proof.
  induction 1 as [ls F|ls i x ls' l Hp _ IH]; [now rewrite all_nil_concat|].
  rewrite (pop_nth_perm i ls ls' x Hp). now constructor.
Qed.

Lemma interleaving_tags {A} (ls : list (list A)) l : Interleaving ls l ->
  exists tags, List.length tags = List.length l /\
    forall i, map snd (List.filter (fun p => Nat.eqb (fst p) i) (combine tags l)) = nth i ls [].
Proof.
  induction 1 as [ls F|ls i0 x ls' l Hp _ (tags & Hlen & Hproj)].
  - exists []. split; [reflexivity|]. intro i. cbn. symmetry. now apply all_nil_nth.
  - exists (i0 :: tags). split; [cbn; now rewrite Hlen|]. intro i. cbn [combine List.filter fst].
    destruct (pop_nth_spec (fun _ => True) i0 ls ls' x Hp) as (Hi & Hj & _).
    destruct (Nat.eqb i0 i) eqn:E.
    + apply Nat.eqb_eq in E. subst i. cbn. now rewrite Hproj, Hi.
    + apply Nat.eqb_neq in E. rewrite Hproj. apply Hj. congruence.
Qed.

(* if the byte stream is the concatenation of whole frames of l, and l is an interleaving of the senders'
   lists, then for every fragmentation the reader returns l: every message intact, exactly once
   (l is a permutation of all the lists together), each sender's messages in that sender's order *)
Theorem interleave_decodes ls l sched :
  Forall (Forall valid_msg) ls -> Interleaving ls l -> pos_sched sched ->
  (exists sched', read_all (S (List.length l)) {| s_data := List.concat (map enc_msg l); s_sched := sched |} =
                    Some (l, EEOF, {| s_data := []; s_sched := sched' |})) /\
  Permutation l (List.concat ls) /\
  (exists tags, List.length tags = List.length l /\
     forall i, map snd (List.filter (fun p => Nat.eqb (fst p) i) (combine tags l)) = nth i ls []).
Proof.
  intros Hv Hi Hpos. split; [|split].
  - apply read_all_sequence; [|exact Hpos]. eapply interleaving_forall; eauto.
  - now apply interleaving_perm.
  - now apply interleaving_tags.
Qed.

(* the runs of the sender system are interleavings *)
Lemma send_run_interleaving sched : forall pending calls sent w' rest out,
  Forall (Forall valid_msg) pending ->
  send_run sched pending {| w_calls := calls; w_sched := [] |} sent = Some (Ok (w', rest, out)) ->
  Forall (fun l => l = []) rest ->
  exists more, out = rev sent ++ more /\ Interleaving pending (map snd more).
Proof.
  induction sched as [|i sched IH]; intros pending calls sent w' rest out Hv Hrun Hrest; cbn [send_run] in Hrun.
  - inversion Hrun; subst. exists []. rewrite app_nil_r. split; [reflexivity|]. now constructor.
  - destruct (pop_nth i pending) as [[m pending']|] eqn:Ep; [|eapply IH; eauto].
    destruct (pop_nth_spec valid_msg i pending pending' m Ep) as (_ & _ & Hval). destruct (Hval Hv) as [Hm Hv'].
    rewrite (write_msg_once m calls Hm) in Hrun.
    destruct (IH pending' _ _ _ _ _ Hv' Hrun Hrest) as (more & E & Hil).
    exists ((i, m) :: more). split; [rewrite E; cbn [rev]; now rewrite <- app_assoc|].
    cbn. econstructor; eauto.
Qed.
