(* EndpointProofs.v — invariants of the handler table (C17) and the dispatch / sender theorems (C10). *)
From QV Require Import Reader ReaderProofs Message MessageProofs Endpoint.
From Coq Require Import String.
Local Open Scope nat_scope.

(* RemoveHandler of an id that names no registered handler: an error, and nothing changes *)
Lemma remove_invalid s id : slot_at s id = None -> step s (LRemove id) = Run s RInvalid.
Proof. intro H. cbn [step]. unfold do_remove. now rewrite H. Qed.
