(* IdlFile.v — layer 3 of the IDL round trip: whole files.
   Part 1: TypeSet registration is the identity on names, and collects exactly the structs, when
   no two different structs share a name and no struct is named like an interface. *)
From Coq Require Import String Ascii List NArith Bool Arith Lia.
From QV Require Import Sig Peg PegProofs SigParse SigParseProofs Idl IdlProofs.
Import ListNotations.
Local Open Scope string_scope.

(* ---------- the structs of a type, and the declaration environment ---------- *)
Fixpoint structs_of (t : ty) : list (string * list (string * ty)) :=
  match t with
  | TS _ => []
  | TList e => structs_of e
  | TMap k v => (structs_of k ++ structs_of v)%list
  | TTuple ts => flat_map structs_of ts
  | TStruct n fs => (n, fs) :: flat_map (fun f => structs_of (snd f)) fs
  end.

(* name -> members: "two structs with the same name are the same struct" *)
Definition env := list (string * list (string * ty)).
Definition env_ok (E : env) (t : ty) : Prop :=
  Forall (fun d => lookup (fst d) E = Some (snd d)) (structs_of t).

Lemma env_ok_list E ts : env_ok E (TTuple ts) <-> Forall (env_ok E) ts.
Proof.
  unfold env_ok. cbn [structs_of]. induction ts as [|t ts IH]; cbn [flat_map].
  - split; constructor.
  - rewrite Forall_app. split.
    + intros [H1 H2]. constructor; [assumption|now apply IH].
    + intro H. inversion H; subst. split; [assumption|now apply IH].
Qed.

Lemma env_ok_struct E n fs : env_ok E (TStruct n fs) <->
  lookup n E = Some fs /\ Forall (fun f => env_ok E (snd f)) fs.
Proof.
  unfold env_ok. cbn [structs_of]. split.
  - intro H. inversion H as [|? ? H1 H2]; subst. split; [exact H1|].
    clear H H1. induction fs as [|f fs IH]; [constructor|]. cbn [flat_map] in H2. rewrite Forall_app in H2.
    destruct H2 as [Ha Hb]. constructor; [exact Ha|now apply IH].
  - intros [H1 H2]. constructor; [exact H1|]. clear H1. induction H2 as [|f fs Hf H2 IH]; [constructor|].
    cbn [flat_map]. rewrite Forall_app. split; [exact Hf|exact IH].
Qed.

(* ---------- the invariant of the TypeSet ---------- *)
Definition unresolved (k : string) : string := "()<not found in scope: " ++ k ++ ">".

Definition entry_ok (E : env) (inames : list string) (e : string * (string * option (list (string * string)))) : Prop :=
  (In (fst e) inames /\ snd e = (unresolved (fst e), None)) \/
  (exists fs, lookup (fst e) E = Some fs /\ snd e = (print (TStruct (fst e) fs), Some (struct_block fs))).

Definition set_ok (E : env) (inames : list string) (s : tset) : Prop :=
  Forall (entry_ok E inames) s /\ NoDup (map fst s).

Lemma lookup_app_none {A} k (l1 l2 : list (string * A)) : lookup k l1 = None -> lookup k (l1 ++ l2) = lookup k l2.
Proof. induction l1 as [|[a v] l1 IH]; cbn; [reflexivity|]. destruct (String.eqb a k); [discriminate|exact IH]. Qed.
Lemma lookup_app_some {A} k (l1 l2 : list (string * A)) v : lookup k l1 = Some v -> lookup k (l1 ++ l2) = Some v.
Proof. induction l1 as [|[a w] l1 IH]; cbn; [discriminate|]. destruct (String.eqb a k); [trivial|exact IH]. Qed.
Lemma lookup_in {A} k (l : list (string * A)) v : lookup k l = Some v -> In (k, v) l.
Proof.
  induction l as [|[a w] l IH]; cbn; [discriminate|]. destruct (String.eqb_spec a k) as [->|Hn].
  - intro H. inversion H. now left.
  - intro H. right. now apply IH.
Qed.
Lemma lookup_none_notin {A} k (l : list (string * A)) : lookup k l = None <-> ~ In k (map fst l).
Proof.
  induction l as [|[a w] l IH]; cbn; [tauto|]. destruct (String.eqb_spec a k) as [->|Hn].
  - split; [discriminate|]. intro H. exfalso. apply H. now left.
  - rewrite IH. split; [intros H [E|H1]; [contradiction|contradiction]|intros H H1; apply H; now right].
Qed.
Lemma lookup_nodup_in {A} k (l : list (string * A)) v : NoDup (map fst l) -> In (k, v) l -> lookup k l = Some v.
Proof.
  induction l as [|[a w] l IH]; cbn; [tauto|]. intros Hnd [E|H].
  - inversion E; subst. now rewrite String.eqb_refl.
  - inversion Hnd as [|? ? Hna Hnd']; subst. destruct (String.eqb_spec a k) as [->|Hn].
    + exfalso. apply Hna. change k with (fst (k, v)). now apply in_map.
    + now apply IH.
Qed.


Lemma NoDup_app_snoc {A} (l : list A) x : NoDup l -> ~ In x l -> NoDup (l ++ [x]).
Proof.
  induction l as [|a l IH]; intros Hnd Hx; cbn; [constructor; [tauto|constructor]|].
  inversion Hnd; subst. constructor.
  - intro Hin. apply in_app_or in Hin as [Hin|[<-|[]]]; [contradiction|]. apply Hx. now left.
  - apply IH; [assumption|]. intro H. apply Hx. now right.
Qed.

Lemma lookup_app_mono {A} k (l1 l2 : list (string * A)) : lookup k l1 <> None -> lookup k (l1 ++ l2) <> None.
Proof. destruct (lookup k l1) eqn:E; [|congruence]. intros _. now rewrite (lookup_app_some k l1 l2 a E). Qed.

Lemma resolve_same s n sg : (forall sg' blk, lookup n s = Some (sg', blk) -> sg' = sg) -> resolve_collision s n sg = n.
Proof.
  intro H. unfold resolve_collision. cbn [resolve_loop]. unfold set_sig.
  destruct (lookup n s) as [[sg' blk]|] eqn:E; [|reflexivity].
  rewrite (H sg' blk eq_refl), String.eqb_refl. reflexivity.
Qed.

Local Open Scope list_scope.
Section Register.
Variable E : env.
Variable inames : list string.

Definition reg_spec (t : ty) : Prop := forall s,
  set_ok E inames s -> env_ok E t -> (forall d, In d (structs_of t) -> ~ In (fst d) inames) ->
  exists ext, register t s = (t, s ++ ext)%list /\ set_ok E inames (s ++ ext) /\
              (forall d, In d (structs_of t) -> lookup (fst d) (s ++ ext) <> None).

Lemma reg_list_ok ts : Forall reg_spec ts -> forall s,
  set_ok E inames s -> Forall (env_ok E) ts -> (forall d, In d (flat_map structs_of ts) -> ~ In (fst d) inames) ->
  exists ext, reg_list register ts s = (ts, s ++ ext)%list /\ set_ok E inames (s ++ ext) /\
              (forall d, In d (flat_map structs_of ts) -> lookup (fst d) (s ++ ext) <> None).
Proof.
  induction 1 as [|t ts Ht HF IH]; intros s Hs He Hn.
  - exists []. rewrite app_nil_r. split; [reflexivity|split; [assumption|intros d []]].
  - inversion He as [|? ? He1 He2]; subst. cbn [flat_map] in Hn.
    destruct (Ht s Hs He1) as (e1 & R1 & S1 & L1); [intros d Hd; apply Hn, in_or_app; now left|].
    destruct (IH (s ++ e1)%list S1 He2) as (e2 & R2 & S2 & L2); [intros d Hd; apply Hn, in_or_app; now right|].
    exists (e1 ++ e2)%list. cbn [reg_list]. rewrite R1, R2, <- app_assoc. split; [reflexivity|split; [rewrite app_assoc; assumption|]].
    intros d Hd. cbn [flat_map] in Hd. apply in_app_or in Hd as [Hd|Hd].
    + rewrite app_assoc. apply lookup_app_mono. now apply L1.
    + rewrite app_assoc. now apply L2.
Qed.

Lemma reg_fields_ok fs : Forall (fun f => reg_spec (snd f)) fs -> forall s,
  set_ok E inames s -> Forall (fun f => env_ok E (snd f)) fs ->
  (forall d, In d (flat_map (fun f => structs_of (snd f)) fs) -> ~ In (fst d) inames) ->
  exists ext, reg_fields register fs s = (fs, s ++ ext)%list /\ set_ok E inames (s ++ ext) /\
              (forall d, In d (flat_map (fun f => structs_of (snd f)) fs) -> lookup (fst d) (s ++ ext) <> None).
Proof.
  induction 1 as [|[a t] fs Ht HF IH]; intros s Hs He Hn.
  - exists []. rewrite app_nil_r. split; [reflexivity|split; [assumption|intros d []]].
  - inversion He as [|? ? He1 He2]; subst. cbn [flat_map snd] in Hn, He1, Ht.
    destruct (Ht s Hs He1) as (e1 & R1 & S1 & L1); [intros d Hd; apply Hn, in_or_app; now left|].
    destruct (IH (s ++ e1)%list S1 He2) as (e2 & R2 & S2 & L2); [intros d Hd; apply Hn, in_or_app; now right|].
    exists (e1 ++ e2)%list. cbn [reg_fields]. rewrite R1, R2, <- app_assoc. split; [reflexivity|split; [rewrite app_assoc; assumption|]].
    intros d Hd. cbn [flat_map snd] in Hd. apply in_app_or in Hd as [Hd|Hd].
    + rewrite app_assoc. apply lookup_app_mono. now apply L1.
    + rewrite app_assoc. now apply L2.
Qed.

(* registration leaves the type as it is and extends the set by its structs *)
Lemma register_ok t : reg_spec t.
Proof.
  induction t as [sc|t IHt|k v IHk IHv|ts IH|n fs IH] using ty_ind2; intros s Hs He Hn.
  - exists []. rewrite app_nil_r. split; [reflexivity|split; [assumption|intros d []]].
  - destruct (IHt s Hs He Hn) as (e1 & R1 & S1 & L1). exists e1. cbn [register]. rewrite R1. auto.
  - unfold env_ok in He. cbn [structs_of] in He, Hn. rewrite Forall_app in He. destruct He as [Hek Hev].
    destruct (IHk s Hs Hek) as (e1 & R1 & S1 & L1); [intros d Hd; apply Hn, in_or_app; now left|].
    destruct (IHv (s ++ e1)%list S1 Hev) as (e2 & R2 & S2 & L2); [intros d Hd; apply Hn, in_or_app; now right|].
    exists (e1 ++ e2)%list. cbn [register]. rewrite R1, R2, <- app_assoc. split; [reflexivity|split; [rewrite app_assoc; assumption|]].
    intros d Hd. cbn [structs_of] in Hd. apply in_app_or in Hd as [Hd|Hd].
    + rewrite app_assoc. apply lookup_app_mono. now apply L1.
    + rewrite app_assoc. now apply L2.
  - apply env_ok_list in He. cbn [structs_of] in Hn.
    destruct (reg_list_ok ts IH s Hs He Hn) as (e1 & R1 & S1 & L1).
    exists e1. cbn [register]. rewrite R1. auto.
  - apply env_ok_struct in He as [Hl He]. cbn [structs_of] in Hn.
    destruct (reg_fields_ok fs IH s Hs He) as (e1 & R1 & S1 & L1); [intros d Hd; apply Hn; now right|].
    assert (Hni : ~ In n inames) by (apply (Hn (n, fs)); now left).
    cbn [register]. rewrite R1.
    assert (Hres : resolve_collision (s ++ e1) n (print (TStruct n fs)) = n).
    { apply resolve_same. intros sg' blk Hlk. apply lookup_in in Hlk.
      destruct S1 as [HF _]. rewrite Forall_forall in HF. destruct (HF _ Hlk) as [[Hi _]|(fs' & Hl' & Heq)].
      - contradiction.
      - cbn [fst snd] in *. rewrite Hl in Hl'. inversion Hl'; subst. now inversion Heq. }
    rewrite Hres. destruct (lookup n (s ++ e1)) as [x|] eqn:Hlk.
    + exists e1. repeat split; [apply S1|apply S1|].
      intros d [<-|Hd]; [cbn [fst]; congruence|now apply L1].
    + exists (e1 ++ [(n, (print (TStruct n fs), Some (struct_block fs)))])%list. rewrite <- app_assoc.
      split; [reflexivity|]. rewrite app_assoc. split.
      * destruct S1 as [HF Hnd]. split.
        -- apply Forall_app. split; [assumption|]. constructor; [|constructor]. right. exists fs. auto.
        -- rewrite map_app. cbn [map fst]. apply NoDup_app_snoc; [assumption|]. now apply lookup_none_notin.
      * intros d [<-|Hd].
        -- cbn [fst]. rewrite (lookup_app_none n (s ++ e1)) by assumption. cbn. now rewrite String.eqb_refl.
        -- apply lookup_app_mono. now apply L1.
Qed.
End Register.
Local Open Scope string_scope.

(* ================= Part 2: what gen_idl writes for a safe package ================= *)
(* meta-objects given by their types *)
Record tmethod := { tm_uid : N; tm_name : string; tm_params : list ty; tm_ret : ty; tm_pnames : option (list string) }.
Record tsignal := { tg_uid : N; tg_name : string; tg_params : list ty }.
Record tobject := { to_name : string; to_methods : list tmethod; to_signals : list tsignal; to_props : list tsignal }.

Definition m_of (m : tmethod) : mmethod :=
  {| mm_uid := tm_uid m; mm_name := tm_name m; mm_params := print (TTuple (tm_params m));
     mm_ret := print (tm_ret m); mm_pnames := tm_pnames m |}.
Definition g_of (x : tsignal) : msignal :=
  {| ms_uid := tg_uid x; ms_name := tg_name x; ms_sig := print (TTuple (tg_params x)) |}.
Definition o_of (o : tobject) : mobject :=
  {| mo_name := to_name o; mo_methods := map m_of (to_methods o);
     mo_signals := map g_of (to_signals o); mo_props := map g_of (to_props o) |}.

(* the parameters of a method line: named (MetaMethod.Parameters of the right length, cleaned
   by CleanVarName, separated by ",") or P0, P1, ... (separated by ", ") *)
Fixpoint named_members (i : nat) (names : list string) (ts : list ty) : list (string * ty) :=
  match names, ts with
  | n :: nr, t :: tr => (clean_var_name i n, t) :: named_members (S i) nr tr
  | _, _ => []
  end.
Definition method_members (m : tmethod) : string * list (string * ty) :=
  match tm_pnames m with
  | Some names => if Nat.eqb (List.length names) (List.length (tm_params m))
                  then (",", named_members 0 names (tm_params m))
                  else (", ", tuple_fields 0 (tm_params m))
  | None => (", ", tuple_fields 0 (tm_params m))
  end.

Definition type_ok (E : env) (t : ty) : Prop := wf_ty t = true /\ idl_safe t = true /\ env_ok E t.

Record method_ok (E : env) (m : tmethod) : Prop := {
  mk_ts : Forall (type_ok E) (tm_params m);
  mk_rt : tm_ret m = TS SVoid \/ type_ok E (tm_ret m);
  mk_name : is_iident (tm_name m) = true;
  mk_uid : (tm_uid m < 2 ^ 32)%N;
  mk_uid0 : tm_uid m <> 0%N \/ tm_name m = "registerEvent";
  mk_pnames : Forall (fun p => is_iident (fst p) = true) (snd (method_members m)) }.
Record signal_ok (E : env) (x : tsignal) : Prop := {
  gk_ts : Forall (type_ok E) (tg_params x);
  gk_name : is_iident (tg_name x) = true;
  gk_uid : (tg_uid x < 2 ^ 32)%N;
  gk_uid0 : tg_uid x <> 0%N }.
Record object_ok (E : env) (o : tobject) : Prop := {
  ok_name : is_iident (to_name o) = true;
  ok_noclash : lookup (to_name o) E = None;               (* no struct is named like the interface *)
  ok_methods : Forall (method_ok E) (to_methods o);
  ok_signals : Forall (signal_ok E) (to_signals o);
  ok_props : Forall (signal_ok E) (to_props o);
  ok_muids : NoDup (map tm_uid (to_methods o));
  ok_suids : NoDup (map tg_uid (to_signals o));
  ok_puids : NoDup (map tg_uid (to_props o)) }.
(* the hypotheses of the round trip, for a package *)
Record package_ok (E : env) (P : list tobject) : Prop := {
  pk_objs : Forall (object_ok E) P;
  pk_names : NoDup (map to_name P) }.

(* ---------- the lines ---------- *)
Definition method_text (m : tmethod) : string :=
  method_line (tm_name m) (join (fst (method_members m)) (map param_str (snd (method_members m))))
              (ret_str (tm_ret m)) (tm_uid m).
Definition signal_text (kw : string) (x : tsignal) : string :=
  sigprop_line kw (tg_name x) (join ", " (map param_str (tuple_fields 0 (tg_params x)))) (tg_uid x).

Lemma tuple_fields_length {A} i (l : list A) : List.length (tuple_fields i l) = List.length l.
Proof. revert i; induction l as [|x l IH]; intro i; cbn; [reflexivity|now rewrite IH]. Qed.

Lemma named_params_members i names ts :
  named_params i names ts = map param_str (named_members i names ts).
Proof.
  revert i ts; induction names as [|n names IH]; intros i ts; [reflexivity|].
  destruct ts as [|t ts]; [reflexivity|]. cbn [named_params named_members map]. now rewrite IH.
Qed.

Local Open Scope list_scope.

Lemma type_ok_names E inames t : (forall k, In k inames -> lookup k E = None) -> env_ok E t ->
  forall d, In d (structs_of t) -> ~ In (fst d) inames.
Proof.
  intros Hd He d Hin Hi. unfold env_ok in He. rewrite Forall_forall in He.
  specialize (He d Hin). rewrite (Hd _ Hi) in He. discriminate.
Qed.

Section Gen.
Variable E : env.
Variable inames : list string.
Hypothesis Hdisj : forall k, In k inames -> lookup k E = None.

Definition covers (s : tset) (t : ty) : Prop := forall d, In d (structs_of t) -> lookup (fst d) s <> None.

Lemma covers_mono s ext t : covers s t -> covers (s ++ ext) t.
Proof. intros H d Hd. apply lookup_app_mono. now apply H. Qed.

Lemma register_type s t : set_ok E inames s -> env_ok E t ->
  exists ext, register t s = (t, s ++ ext) /\ set_ok E inames (s ++ ext) /\ covers (s ++ ext) t.
Proof. intros Hs He. apply (register_ok E inames t s Hs He). now apply (type_ok_names E inames). Qed.

Lemma env_ok_tuple ts : Forall (type_ok E) ts -> env_ok E (TTuple ts).
Proof. intro H. apply env_ok_list. eapply Forall_impl; [|exact H]. intros t (_ & _ & He). exact He. Qed.

Lemma wf_tuple ts : Forall (type_ok E) ts -> wf_ty (TTuple ts) = true.
Proof. intro H. cbn. apply forallb_forall. intros t Hin. rewrite Forall_forall in H. now destruct (H t Hin). Qed.

Lemma covers_tuple s ts : covers s (TTuple ts) -> Forall (covers s) ts.
Proof.
  intro H. apply Forall_forall. intros t Hin d Hd. apply H. cbn [structs_of]. apply in_flat_map. eauto.
Qed.

(* generateMethod *)
Lemma gen_method_ok m s : method_ok E m -> set_ok E inames s ->
  exists ext, gen_method (m_of m) s = Some (method_text m, s ++ ext) /\ set_ok E inames (s ++ ext) /\
              Forall (covers (s ++ ext)) (tm_params m) /\ covers (s ++ ext) (tm_ret m).
Proof.
  intros Hm Hs. destruct Hm as [Hts Hrt Hname Hu Hu0 Hpn].
  destruct (register_type s (TTuple (tm_params m)) Hs (env_ok_tuple _ Hts)) as (e1 & R1 & S1 & C1).
  assert (Hret : wf_ty (tm_ret m) = true /\ env_ok E (tm_ret m)).
  { destruct Hrt as [->|(H1 & _ & H3)]; [split; [reflexivity|constructor]|auto]. }
  destruct Hret as [Hwr Her].
  destruct (register_type (s ++ e1) (tm_ret m) S1 Her) as (e2 & R2 & S2 & C2).
  exists (e1 ++ e2). rewrite app_assoc. split; [|split; [assumption|split; [|assumption]]].
  - unfold gen_method, m_of. cbn [mm_params mm_ret mm_pnames mm_name mm_uid].
    rewrite (parse_print _ (wf_tuple _ Hts)), (parse_print _ Hwr), R1, R2.
    unfold method_text, method_members, method_line. cbn [as_members].
    destruct (tm_pnames m) as [names|]; [|reflexivity].
    rewrite tuple_fields_length. destruct (Nat.eqb (List.length names) (List.length (tm_params m))); [|reflexivity].
    cbn [fst snd]. now rewrite tuple_fields_snd, named_params_members.
  - apply covers_tuple. now apply covers_mono.
Qed.

(* generateSignal / generateProperty *)
Lemma gen_sigprop_ok kw single x s : signal_ok E x -> set_ok E inames s ->
  exists ext, gen_sigprop kw single (g_of x) s = Some (signal_text kw x, s ++ ext) /\ set_ok E inames (s ++ ext) /\
              Forall (covers (s ++ ext)) (tg_params x).
Proof.
  intros Hx Hs. destruct Hx as [Hts Hname Hu Hu0].
  destruct (register_type s (TTuple (tg_params x)) Hs (env_ok_tuple _ Hts)) as (e1 & R1 & S1 & C1).
  exists e1. split; [|split; [assumption|now apply covers_tuple]].
  unfold gen_sigprop, g_of. cbn [ms_sig ms_name ms_uid]. rewrite (parse_print _ (wf_tuple _ Hts)), R1. reflexivity.
Qed.

(* gen_all over a list of actions *)
Lemma gen_all_ok {A} (g : A -> tset -> option (string * tset)) (text : A -> string) (okA : A -> Prop)
      (cov : tset -> A -> Prop) :
  (forall x s, okA x -> set_ok E inames s ->
     exists ext, g x s = Some (text x, s ++ ext) /\ set_ok E inames (s ++ ext) /\ cov (s ++ ext) x) ->
  (forall s ext x, cov s x -> cov (s ++ ext) x) ->
  forall l s, Forall okA l -> set_ok E inames s ->
  exists ext, gen_all g l s = Some (String.concat "" (map text l), s ++ ext) /\ set_ok E inames (s ++ ext) /\
              Forall (cov (s ++ ext)) l.
Proof.
  intros Hg Hmono. induction l as [|x l IH]; intros s Hl Hs.
  - exists []. rewrite app_nil_r. split; [reflexivity|split; [assumption|constructor]].
  - inversion Hl as [|? ? Hx Hl']; subst.
    destruct (Hg x s Hx Hs) as (e1 & G1 & S1 & C1).
    destruct (IH (s ++ e1) Hl' S1) as (e2 & G2 & S2 & C2).
    exists (e1 ++ e2). rewrite app_assoc. cbn [gen_all map]. rewrite G1, G2, sconcat_cons.
    split; [reflexivity|split; [assumption|]]. constructor; [now apply Hmono|assumption].
Qed.
End Gen.

(* ---------- interfaces and the package ---------- *)
Lemma entry_ok_mono E i1 i2 e : (forall k, In k i1 -> In k i2) -> entry_ok E i1 e -> entry_ok E i2 e.
Proof. intros H [[Hi He]|Hs]; [left; split; [now apply H|assumption]|now right]. Qed.
Lemma set_ok_mono E i1 i2 s : (forall k, In k i1 -> In k i2) -> set_ok E i1 s -> set_ok E i2 s.
Proof. intros H [HF Hn]. split; [|assumption]. eapply Forall_impl; [|exact HF]. intro e. now apply entry_ok_mono. Qed.

Lemma set_ok_fresh E done s k : set_ok E done s -> ~ In k done -> lookup k E = None -> lookup k s = None.
Proof.
  intros [HF _] Hk Hl. apply lookup_none_notin. intro Hin. apply in_map_iff in Hin as (e & <- & He).
  rewrite Forall_forall in HF. destruct (HF e He) as [[Hi _]|(fs & Hf & _)]; [contradiction|congruence].
Qed.

Definition methods_text (o : tobject) : string := String.concat "" (map method_text (to_methods o)).
Definition signals_text (o : tobject) : string := String.concat "" (map (signal_text "sig") (to_signals o)).
Definition props_text (o : tobject) : string := String.concat "" (map (signal_text "prop") (to_props o)).
Definition itf_text (o : tobject) : string :=
  ("interface " ++ to_name o ++ nl ++ methods_text o ++ signals_text o ++ props_text o ++ "end" ++ nl)%string.

Definition method_covered (s : tset) (m : tmethod) : Prop := Forall (covers s) (tm_params m) /\ covers s (tm_ret m).
Definition signal_covered (s : tset) (x : tsignal) : Prop := Forall (covers s) (tg_params x).
Definition object_covered (s : tset) (o : tobject) : Prop :=
  Forall (method_covered s) (to_methods o) /\ Forall (signal_covered s) (to_signals o) /\ Forall (signal_covered s) (to_props o).

Lemma Forall_covers_mono s ext ts : Forall (covers s) ts -> Forall (covers (s ++ ext)) ts.
Proof. intro H. eapply Forall_impl; [|exact H]. intro t. apply covers_mono. Qed.
Lemma method_covered_mono s ext m : method_covered s m -> method_covered (s ++ ext) m.
Proof. intros [H1 H2]. split; [now apply Forall_covers_mono|now apply covers_mono]. Qed.
Lemma object_covered_mono s ext o : object_covered s o -> object_covered (s ++ ext) o.
Proof.
  intros (H1 & H2 & H3). repeat split.
  - eapply Forall_impl; [|exact H1]. intro m. apply method_covered_mono.
  - eapply Forall_impl; [|exact H2]. intro x. apply Forall_covers_mono.
  - eapply Forall_impl; [|exact H3]. intro x. apply Forall_covers_mono.
Qed.

Lemma gen_all_map {A B} (f : A -> B) (g : B -> tset -> option (string * tset)) l s :
  gen_all g (map f l) s = gen_all (fun x => g (f x)) l s.
Proof.
  revert s; induction l as [|x l IH]; intro s; cbn [map gen_all]; [reflexivity|].
  destruct (g (f x) s) as [[a s1]|]; [now rewrite IH|reflexivity].
Qed.

Lemma gen_interface_ok E done o s : object_ok E o -> set_ok E done s -> ~ In (to_name o) done ->
  (forall k, In k done -> lookup k E = None) ->
  exists ext, gen_interface (o_of o) s = Some (itf_text o, s ++ ext) /\
              set_ok E (done ++ [to_name o]) (s ++ ext) /\ object_covered (s ++ ext) o /\
              lookup (to_name o) (s ++ ext) = Some (unresolved (to_name o), None).
Proof.
  intros Ho Hs Hnew Hdone. destruct Ho as [Hname Hclash Hms Hss Hps _ _ _].
  set (inames := done ++ [to_name o]).
  assert (Hdisj : forall k, In k inames -> lookup k E = None).
  { intros k Hk. apply in_app_or in Hk as [Hk|[<-|[]]]; [now apply Hdone|assumption]. }
  assert (Hfresh : lookup (to_name o) s = None) by (now apply (set_ok_fresh E done)).
  assert (Hres : resolve_collision s (to_name o) "o" = to_name o).
  { apply resolve_same. intros sg blk H. congruence. }
  set (s0 := s ++ [(to_name o, (unresolved (to_name o), None))]).
  assert (Hs0 : set_ok E inames s0).
  { destruct (set_ok_mono E done inames s ltac:(intros k Hk; apply in_or_app; now left) Hs) as [HF Hn]. split.
    - apply Forall_app. split; [assumption|]. constructor; [|constructor]. left. cbn [fst snd].
      split; [apply in_or_app; right; now left|reflexivity].
    - unfold s0. rewrite map_app. apply NoDup_app_snoc; [assumption|]. now apply lookup_none_notin. }
  destruct (gen_all_ok E inames (fun m => gen_method (m_of m)) method_text (method_ok E) method_covered
              (fun m s Hm Hs => gen_method_ok E inames Hdisj m s Hm Hs) method_covered_mono
              (to_methods o) s0 Hms Hs0) as (e1 & G1 & S1 & C1).
  destruct (gen_all_ok E inames (fun x => gen_sigprop "sig" "P0" (g_of x)) (signal_text "sig") (signal_ok E) signal_covered
              (fun x s Hx Hs => gen_sigprop_ok E inames Hdisj "sig" "P0" x s Hx Hs) (fun s ext x => Forall_covers_mono s ext _)
              (to_signals o) (s0 ++ e1) Hss S1) as (e2 & G2 & S2 & C2).
  destruct (gen_all_ok E inames (fun x => gen_sigprop "prop" "param" (g_of x)) (signal_text "prop") (signal_ok E) signal_covered
              (fun x s Hx Hs => gen_sigprop_ok E inames Hdisj "prop" "param" x s Hx Hs) (fun s ext x => Forall_covers_mono s ext _)
              (to_props o) ((s0 ++ e1) ++ e2) Hps S2) as (e3 & G3 & S3 & C3).
  exists ([(to_name o, (unresolved (to_name o), None))] ++ e1 ++ e2 ++ e3).
  replace (s ++ [(to_name o, (unresolved (to_name o), None))] ++ e1 ++ e2 ++ e3) with (((s0 ++ e1) ++ e2) ++ e3)
    by (unfold s0; now rewrite <- !app_assoc).
  split; [|split; [exact S3|split]].
  - unfold gen_interface, o_of. cbn [mo_name mo_methods mo_signals mo_props]. rewrite Hres.
    fold (unresolved (to_name o)). fold s0. rewrite gen_all_map, G1. cbv beta iota. rewrite gen_all_map, G2. cbv beta iota. rewrite gen_all_map, G3. reflexivity.
  - repeat split.
    + eapply Forall_impl; [|exact C1]. intros m Hm. rewrite <- app_assoc. now apply method_covered_mono.
    + eapply Forall_impl; [|exact C2]. intros x Hx. now apply Forall_covers_mono.
    + exact C3.
  - unfold s0. rewrite <- !app_assoc. rewrite (lookup_app_none _ s) by assumption. cbn. now rewrite String.eqb_refl.
Qed.

Definition itf_entry (s : tset) (o : tobject) : Prop := lookup (to_name o) s = Some (unresolved (to_name o), None).

Lemma gen_package_ok E P : forall done s, Forall (object_ok E) P -> NoDup (done ++ map to_name P) ->
  (forall k, In k done -> lookup k E = None) -> set_ok E done s ->
  exists ext, gen_all gen_interface (map o_of P) s = Some (String.concat "" (map itf_text P), s ++ ext) /\
              set_ok E (done ++ map to_name P) (s ++ ext) /\ Forall (object_covered (s ++ ext)) P /\
              Forall (itf_entry (s ++ ext)) P.
Proof.
  induction P as [|o P IH]; intros done s HP Hnd Hdone Hs.
  - exists []. rewrite !app_nil_r. cbn. repeat split; [apply Hs|apply Hs|constructor|constructor].
  - inversion HP as [|? ? Ho HP']; subst. cbn [map] in Hnd.
    assert (Hnew : ~ In (to_name o) done).
    { intro Hin. apply NoDup_remove_2 in Hnd. apply Hnd. apply in_or_app. now left. }
    destruct (gen_interface_ok E done o s Ho Hs Hnew Hdone) as (e1 & G1 & S1 & C1 & L1).
    assert (Hnd' : NoDup ((done ++ [to_name o]) ++ map to_name P)) by (rewrite <- app_assoc; exact Hnd).
    assert (Hdone' : forall k, In k (done ++ [to_name o]) -> lookup k E = None).
    { intros k Hk. apply in_app_or in Hk as [Hk|[<-|[]]]; [now apply Hdone|apply Ho]. }
    destruct (IH (done ++ [to_name o]) (s ++ e1) HP' Hnd' Hdone' S1) as (e2 & G2 & S2 & C2 & L2).
    exists (e1 ++ e2). rewrite app_assoc. cbn [map gen_all]. rewrite G1, G2, sconcat_cons.
    split; [reflexivity|split; [|split]].
    + rewrite <- app_assoc in S2. exact S2.
    + constructor; [now apply object_covered_mono|assumption].
    + constructor; [|assumption]. unfold itf_entry in *. now apply lookup_app_some.
Qed.

Definition package_text (pkg : string) (P : list tobject) (S : tset) : string :=
  ("package " ++ pkg ++ nl ++ String.concat "" (map itf_text P) ++ String.concat "" (map gen_struct S))%string.

Theorem gen_idl_ok E pkg P : package_ok E P ->
  exists S, gen_idl pkg (map o_of P) = Some (package_text pkg P S) /\
            set_ok E (map to_name P) S /\ Forall (object_covered S) P /\ Forall (itf_entry S) P.
Proof.
  intros [HP Hnd].
  destruct (gen_package_ok E P [] [] HP Hnd) as (S & G & S1 & C & L); [intros k []|split; constructor|].
  exists S. cbn [app] in *. unfold gen_idl. rewrite G. auto.
Qed.

(* ================= Part 3: Kleene over lines and blocks ================= *)
Local Open Scope string_scope.

(* a block of text that ends in a new line is parsed up to that new line; the next block starts
   behind it *)
Lemma kleene_lines (p : iparser) (okrest : string -> Prop) (items : list (string * inode)) (tail : string) :
  (forall s, fst (p (nl ++ s)) = fst (p s)) ->
  (forall t nd, In (t, nd) items -> forall rest, okrest rest -> fst (p (t ++ rest)) = Ok nd (nl ++ rest)) ->
  (forall t nd, In (t, nd) items -> (1 <= String.length t)%nat /\ forall r, okrest (t ++ r)) ->
  okrest tail -> fst (p tail) = Fail ->
  forall n, (List.length items < n)%nat ->
  fst (kleene_loop n p (nl ++ String.concat "" (map fst items) ++ tail)) = Ok (map snd items) (nl ++ tail).
Proof.
  intros Hws. induction items as [|[t nd] items IH]; intros Hp Hlen Htail Hfail n Hn.
  - destruct n; [cbn in Hn; lia|]. cbn [map String.concat append]. apply kleene_loop_fail. now rewrite Hws.
  - destruct n; [cbn in Hn; lia|]. cbn [map fst snd]. rewrite sconcat_cons, sapp_assoc.
    set (R := String.concat "" (map fst items) ++ tail).
    assert (HR : okrest R).
    { subst R. destruct items as [|[t2 nd2] items2]; [exact Htail|].
      cbn [map fst]. rewrite sconcat_cons, sapp_assoc. apply (Hlen t2 nd2). right. now left. }
    rewrite (kleene_loop_ok n p _ nd (nl ++ R)).
    + subst R. rewrite IH; [reflexivity| | |assumption|assumption|cbn in Hn; lia].
      * intros t' nd' Hin. apply Hp. now right.
      * intros t' nd' Hin. apply Hlen with nd'. now right.
    + rewrite Hws. apply Hp; [now left|exact HR].
    + destruct (Hlen t nd (or_introl eq_refl)) as [Hl _]. unfold nl. cbn [append String.length]. rewrite slen_app. lia.
Qed.

Lemma concat_len_ge (l : list string) : (forall t, In t l -> (1 <= String.length t)%nat) ->
  (List.length l <= String.length (String.concat "" l))%nat.
Proof.
  induction l as [|t l IH]; intro H; [cbn; lia|]. rewrite sconcat_cons, slen_app.
  pose proof (H t (or_introl eq_refl)). specialize (IH (fun u Hu => H u (or_intror Hu))). cbn [List.length]. lia.
Qed.

(* no comment ahead: what follows (after white space) does not begin with "//" *)
Definition no_comment (s : string) : Prop := strip_prefix "//" (skip_ws s) = None.

Lemma icomments_none s : no_comment s -> fst (icomments s) = Ok (NVal (VStr "")) s.
Proof.
  intro H. unfold icomments. rewrite pand_fst.
  rewrite (and_loop_cons_ok _ [] s NNone s).
  - reflexivity.
  - apply maybe_fail. rewrite pand_fst. rewrite and_loop_cons_fail; [reflexivity|].
    unfold atom. unfold no_comment in H. now rewrite H.
Qed.

Lemma no_comment_nl s : no_comment s -> no_comment (nl ++ s).
Proof. unfold no_comment, nl. cbn [append skip_ws]. now change (@is_ws "010") with true. Qed.

(* ---------- the action lines of an interface ---------- *)
Definition mnode (m : tmethod) : inode :=
  NVal (VMethod (tm_name m) (tm_uid m) (ret_ity (tm_ret m)) (iparams (snd (method_members m)))).
Definition snode_ (x : tsignal) : inode := NVal (VSignal (tg_name x) (tg_uid x) (iparams (tuple_fields 0 (tg_params x)))).
Definition pnode_ (x : tsignal) : inode := NVal (VProp (tg_name x) (tg_uid x) (iparams (tuple_fields 0 (tg_params x)))).

Lemma named_members_snd i names ts : List.length names = List.length ts -> map snd (named_members i names ts) = ts.
Proof.
  revert i ts; induction names as [|n names IH]; intros i [|t ts] H; cbn in *; try discriminate; [reflexivity|].
  f_equal. apply IH. lia.
Qed.

Lemma method_members_snd m : map snd (snd (method_members m)) = tm_params m.
Proof.
  unfold method_members. destruct (tm_pnames m) as [names|]; [|apply tuple_fields_snd].
  destruct (Nat.eqb (List.length names) (List.length (tm_params m))) eqn:E; [|apply tuple_fields_snd].
  apply Nat.eqb_eq in E. now apply named_members_snd.
Qed.

Lemma method_members_sep m : is_sep (fst (method_members m)).
Proof.
  unfold method_members. destruct (tm_pnames m) as [names|]; [|now right].
  destruct (Nat.eqb _ _); [now left|now right].
Qed.

Lemma params_ok_of f (l : list (string * ty)) :
  Forall (fun p => is_iident (fst p) = true) l ->
  Forall (fun t => idl_safe t = true /\ (idl_depth t < f)%nat) (map snd l) -> Forall (param_ok f) l.
Proof.
  induction l as [|p l IH]; intros H1 H2; [constructor|].
  inversion H1; subst. cbn [map] in H2. inversion H2 as [|? ? [Ha Hb] H2']; subst.
  constructor; [repeat split; assumption|now apply IH].
Qed.

Section Lines.
Variable E : env.
Variable f : nat.

Definition deep_ok (t : ty) : Prop := (idl_depth t < f)%nat.

Lemma types_param_ok ts : Forall (type_ok E) ts -> Forall deep_ok ts ->
  Forall (fun t => idl_safe t = true /\ (idl_depth t < f)%nat) ts.
Proof.
  intros H1 H2. rewrite Forall_forall in *. intros t Hin. split; [now destruct (H1 t Hin) as (_ & ? & _)|now apply H2].
Qed.

Lemma iaction_ws s : iaction (itype f) (nl ++ s) = iaction (itype f) s.
Proof. unfold iaction. apply por_ext. repeat constructor. Qed.

Lemma method_item m rest : method_ok E m -> Forall deep_ok (tm_params m) -> (tm_ret m = TS SVoid \/ deep_ok (tm_ret m)) ->
  fst (iaction (itype f) (method_text m ++ rest)) = Ok (mnode m) (nl ++ rest).
Proof.
  intros [Hts Hrt Hname Hu Hu0 Hpn] Hd Hdr. unfold iaction.
  apply (por_cons_ok (Some nodify_first) _ _ _ (mnode m) (nl ++ rest)).
  unfold method_text, mnode. apply method_line_parses; [assumption|assumption|apply method_members_sep| |].
  - apply params_ok_of; [assumption|]. rewrite method_members_snd. now apply types_param_ok.
  - destruct Hrt as [->|(_ & Hs & _)]; [now left|]. destruct Hdr as [->|Hdr]; [now left|right; now split].
Qed.

Lemma signal_item x rest : signal_ok E x -> Forall deep_ok (tg_params x) ->
  fst (iaction (itype f) (signal_text "sig" x ++ rest)) = Ok (snode_ x) (nl ++ rest).
Proof.
  intros [Hts Hname Hu Hu0] Hd. unfold iaction.
  rewrite por_cons_fail.
  2:{ unfold imethod. rewrite pand_fst. unfold signal_text, sigprop_line, tab. rewrite !sapp_assoc. cbn [append].
      rewrite and_loop_cons_fail; reflexivity. }
  apply (por_cons_ok (Some nodify_first) _ _ _ (snode_ x) (nl ++ rest)).
  unfold signal_text, snode_. apply signal_line_parses; [assumption|assumption|now right|].
  apply params_ok_of; [apply tuple_field_names_ok|]. rewrite tuple_fields_snd. now apply types_param_ok.
Qed.

Lemma prop_item x rest : signal_ok E x -> Forall deep_ok (tg_params x) ->
  fst (iaction (itype f) (signal_text "prop" x ++ rest)) = Ok (pnode_ x) (nl ++ rest).
Proof.
  intros [Hts Hname Hu Hu0] Hd. unfold iaction.
  rewrite por_cons_fail.
  2:{ unfold imethod. rewrite pand_fst. unfold signal_text, sigprop_line, tab. rewrite !sapp_assoc. cbn [append].
      rewrite and_loop_cons_fail; reflexivity. }
  rewrite por_cons_fail.
  2:{ unfold isignal. rewrite pand_fst. unfold signal_text, sigprop_line, tab. rewrite !sapp_assoc. cbn [append].
      rewrite and_loop_cons_fail; reflexivity. }
  apply (por_cons_ok (Some nodify_first) _ _ _ (pnode_ x) (nl ++ rest)).
  unfold signal_text, pnode_. apply property_line_parses; [assumption|assumption|now right|].
  apply params_ok_of; [apply tuple_field_names_ok|]. rewrite tuple_fields_snd. now apply types_param_ok.
Qed.
End Lines.

(* ---------- nodifyActionList keeps distinct ids as they are ---------- *)
Lemma upsert_new {A} k (v : A) l : ~ In k (map fst l) -> upsert k v l = (l ++ [(k, v)])%list.
Proof.
  induction l as [|[k' v'] l IH]; cbn; intro H; [reflexivity|].
  destruct (N.eqb_spec k k') as [->|Hn]; [exfalso; apply H; now left|].
  rewrite IH; [reflexivity|]. intro Hin. apply H. now right.
Qed.

Definition mentry (m : tmethod) := (tm_uid m, (tm_name m, ret_ity (tm_ret m), iparams (snd (method_members m)))).
Definition gentry (x : tsignal) := (tg_uid x, (tg_name x, iparams (tuple_fields 0 (tg_params x)))).

Lemma action_list_methods ms : forall rest c M S P,
  Forall (fun m => tm_uid m <> 0%N \/ tm_name m = "registerEvent") ms ->
  NoDup (map fst M ++ map tm_uid ms) ->
  action_list (map mnode ms ++ rest) c M S P = action_list rest c (M ++ map mentry ms) S P.
Proof.
  induction ms as [|m ms IH]; intros rest c M S P H0 Hnd; [cbn; now rewrite app_nil_r|].
  inversion H0 as [|? ? Hm H0']; subst. cbn [map app mnode action_list].
  assert (Hc : N.eqb (tm_uid m) 0 && negb (String.eqb (tm_name m) "registerEvent") = false).
  { destruct Hm as [Hm| ->]; [apply N.eqb_neq in Hm; now rewrite Hm|rewrite String.eqb_refl; apply andb_false_r]. }
  fold (mnode m). unfold mnode at 1. cbn [action_list]. rewrite Hc.
  cbn [map] in Hnd. assert (Hnew : ~ In (tm_uid m) (map fst M)).
  { apply NoDup_remove_2 in Hnd. intro Hin. apply Hnd. apply in_or_app. now left. }
  rewrite upsert_new by assumption. rewrite IH.
  - rewrite <- app_assoc. reflexivity.
  - assumption.
  - rewrite map_app. cbn [map fst]. rewrite <- app_assoc. exact Hnd.
Qed.

Lemma action_list_signals xs : forall rest c M S P,
  Forall (fun x => tg_uid x <> 0%N) xs -> NoDup (map fst S ++ map tg_uid xs) ->
  action_list (map snode_ xs ++ rest) c M S P = action_list rest c M (S ++ map gentry xs) P.
Proof.
  induction xs as [|x xs IH]; intros rest c M S P H0 Hnd; [cbn; now rewrite app_nil_r|].
  inversion H0 as [|? ? Hx H0']; subst. cbn [map app snode_ action_list].
  apply N.eqb_neq in Hx. rewrite Hx.
  cbn [map] in Hnd. assert (Hnew : ~ In (tg_uid x) (map fst S)).
  { apply NoDup_remove_2 in Hnd. intro Hin. apply Hnd. apply in_or_app. now left. }
  rewrite upsert_new by assumption. fold (snode_). rewrite IH.
  - rewrite <- app_assoc. reflexivity.
  - assumption.
  - rewrite map_app. cbn [map fst]. rewrite <- app_assoc. exact Hnd.
Qed.

Lemma action_list_props xs : forall c M S P,
  Forall (fun x => tg_uid x <> 0%N) xs -> NoDup (map fst P ++ map tg_uid xs) ->
  action_list (map pnode_ xs) c M S P = NVal (VItf "" M S (P ++ map gentry xs)).
Proof.
  induction xs as [|x xs IH]; intros c M S P H0 Hnd; [cbn; now rewrite app_nil_r|].
  inversion H0 as [|? ? Hx H0']; subst. cbn [map pnode_ action_list].
  apply N.eqb_neq in Hx. rewrite Hx.
  cbn [map] in Hnd. assert (Hnew : ~ In (tg_uid x) (map fst P)).
  { apply NoDup_remove_2 in Hnd. intro Hin. apply Hnd. apply in_or_app. now left. }
  rewrite upsert_new by assumption. fold (pnode_). rewrite IH.
  - rewrite <- app_assoc. reflexivity.
  - assumption.
  - rewrite map_app. cbn [map fst]. rewrite <- app_assoc. exact Hnd.
Qed.

Definition action_nodes (o : tobject) : list inode :=
  (map mnode (to_methods o) ++ map snode_ (to_signals o) ++ map pnode_ (to_props o))%list.
Definition itf_val (o : tobject) : ival :=
  VItf (to_name o) (map mentry (to_methods o)) (map gentry (to_signals o)) (map gentry (to_props o)).

Lemma action_list_object E o : object_ok E o ->
  inodify_action_list (action_nodes o) = NVal (VItf "" (map mentry (to_methods o)) (map gentry (to_signals o)) (map gentry (to_props o))).
Proof.
  intros [_ _ Hms Hss Hps Hm Hs Hp]. unfold inodify_action_list, action_nodes.
  rewrite action_list_methods; [|eapply Forall_impl; [|exact Hms]; intros m Hm'; apply Hm'|exact Hm].
  rewrite action_list_signals; [|eapply Forall_impl; [|exact Hss]; intros x Hx; apply Hx|exact Hs].
  rewrite action_list_props; [reflexivity|eapply Forall_impl; [|exact Hps]; intros x Hx; apply Hx|exact Hp].
Qed.

(* ---------- an interface block ---------- *)
Lemma sconcat_app (l1 l2 : list string) : String.concat "" (l1 ++ l2)%list = String.concat "" l1 ++ String.concat "" l2.
Proof.
  induction l1 as [|x l1 IH]; [reflexivity|]. cbn [app]. now rewrite !sconcat_cons, IH, sapp_assoc.
Qed.

Definition action_items (o : tobject) : list (string * inode) :=
  (map (fun m => (method_text m, mnode m)) (to_methods o) ++
   map (fun x => (signal_text "sig" x, snode_ x)) (to_signals o) ++
   map (fun x => (signal_text "prop" x, pnode_ x)) (to_props o))%list.

Lemma action_items_fst o : String.concat "" (map fst (action_items o)) = methods_text o ++ signals_text o ++ props_text o.
Proof.
  unfold action_items, methods_text, signals_text, props_text. rewrite !map_app, !sconcat_app, !map_map. reflexivity.
Qed.
Lemma action_items_snd o : map snd (action_items o) = action_nodes o.
Proof. unfold action_items, action_nodes. rewrite !map_app, !map_map. reflexivity. Qed.

Definition object_deep (f : nat) (o : tobject) : Prop :=
  Forall (fun m => Forall (deep_ok f) (tm_params m) /\ (tm_ret m = TS SVoid \/ deep_ok f (tm_ret m))) (to_methods o) /\
  Forall (fun x => Forall (deep_ok f) (tg_params x)) (to_signals o) /\
  Forall (fun x => Forall (deep_ok f) (tg_params x)) (to_props o).

Lemma line_head_m m : exists r, method_text m = String "009" (String "f" r).
Proof. unfold method_text, method_line, tab. eexists. cbn [append]. reflexivity. Qed.
Lemma line_head_g kw x : (kw = "sig" \/ kw = "prop") -> exists c r, signal_text kw x = String "009" (String c r) /\ (c = "s" \/ c = "p")%char.
Proof. intros [-> | ->]; unfold signal_text, sigprop_line, tab; eexists _, _; cbn [append]; split; try reflexivity; auto. Qed.

Lemma action_item_shape o t nd : In (t, nd) (action_items o) ->
  exists c r, t = String "009" (String c r) /\ (c = "f" \/ c = "s" \/ c = "p")%char.
Proof.
  unfold action_items. intro H. apply in_app_or in H as [H|H]; [|apply in_app_or in H as [H|H]];
    apply in_map_iff in H as (x & Ex & _); inversion Ex; subst.
  - destruct (line_head_m x) as (r & ->). eauto 6.
  - destruct (line_head_g "sig" x (or_introl eq_refl)) as (c & r & -> & [-> | ->]); eauto 8.
  - destruct (line_head_g "prop" x (or_intror eq_refl)) as (c & r & -> & [-> | ->]); eauto 8.
Qed.

Lemma no_comment_lines o tail : no_comment tail -> (exists x, tail = String "e" x) ->
  no_comment (nl ++ String.concat "" (map fst (action_items o)) ++ tail).
Proof.
  intros Ht (x & ->). apply no_comment_nl. destruct (action_items o) as [|[t nd] items] eqn:E; [reflexivity|].
  destruct (action_item_shape o t nd) as (c & r & -> & Hc); [rewrite E; now left|].
  cbn [map fst]. rewrite sconcat_cons. unfold no_comment. cbn [append skip_ws]. change (@is_ws "009") with true. cbn iota.
  destruct Hc as [-> | [-> | ->]]; reflexivity.
Qed.

Lemma itf_block E f o rest : object_ok E o -> object_deep f o -> no_comment rest ->
  fst (ideclaration (itype f) (itf_text o ++ rest)) = Ok (NVal (itf_val o)) (nl ++ rest).
Proof.
  intros Ho (Dm & Ds & Dp) Hrest. pose proof Ho as [Hname _ Hms Hss Hps _ _ _].
  set (body := String.concat "" (map fst (action_items o))).
  assert (Etext : itf_text o = "interface " ++ to_name o ++ nl ++ body ++ "end" ++ nl).
  { unfold itf_text, body. now rewrite action_items_fst, !sapp_assoc. }
  rewrite Etext. rewrite !sapp_assoc. cbn [append].
  set (tail := String "e" (String "n" (String "d" (nl ++ rest)))).
  unfold ideclaration.
  or_skip ltac:(unfold istructure; rewrite pand_fst; and_fail ltac:(reflexivity); reflexivity).
  or_skip ltac:(unfold ienum; rewrite pand_fst; and_fail ltac:(reflexivity); reflexivity).
  apply (por_cons_ok (Some nodify_first) _ _ _ (NVal (itf_val o)) (nl ++ rest)).
  unfold iinterface. rewrite pand_fst.
  and_step ltac:(reflexivity).
  and_step ltac:(rewrite iident_ws; apply iident_ok; [assumption|reflexivity]).
  assert (Hnc : no_comment (nl ++ body ++ tail)).
  { subst body tail. apply no_comment_lines; [|eexists; reflexivity].
    unfold no_comment. reflexivity. }
  and_step ltac:(now apply icomments_none).
  assert (Hk : fst (kleene (Some inodify_action_list) (iaction (itype f)) (nl ++ body ++ tail)) =
               Ok (NVal (VItf "" (map mentry (to_methods o)) (map gentry (to_signals o)) (map gentry (to_props o)))) (nl ++ tail)).
  { rewrite kleene_fst. subst body.
    rewrite (kleene_lines (iaction (itype f)) (fun _ => True) (action_items o) tail).
    - cbn [lift docb]. now rewrite action_items_snd, (action_list_object E o Ho).
    - intro s. now rewrite iaction_ws.
    - intros t nd Hin rest' _. unfold action_items in Hin.
      apply in_app_or in Hin as [Hin|Hin]; [|apply in_app_or in Hin as [Hin|Hin]];
        apply in_map_iff in Hin as (x & Ex & Hx); inversion Ex; subst.
      + rewrite Forall_forall in Hms, Dm. destruct (Dm x Hx) as [Da Db]. apply (method_item E); [now apply Hms|exact Da|exact Db].
      + rewrite Forall_forall in Hss, Ds. apply (signal_item E); [now apply Hss|now apply Ds].
      + rewrite Forall_forall in Hps, Dp. apply (prop_item E); [now apply Hps|now apply Dp].
    - intros t nd Hin. destruct (action_item_shape o t nd Hin) as (c & r & -> & _). split; [cbn; lia|trivial].
    - exact I.
    - reflexivity.
    - unfold nl. cbn [append String.length]. rewrite slen_app.
      pose proof (concat_len_ge (map fst (action_items o))) as Hl. rewrite map_length in Hl.
      assert (forall t, In t (map fst (action_items o)) -> (1 <= String.length t)%nat).
      { intros t Hin. apply in_map_iff in Hin as ([t' nd] & <- & Hin).
        destruct (action_item_shape o t' nd Hin) as (c & r & -> & _). cbn. lia. }
      specialize (Hl H). lia. }
  and_step ltac:(exact Hk).
  and_step ltac:(reflexivity).
  and_step ltac:(apply icomments_none; now apply no_comment_nl).
  reflexivity.
Qed.

(* ---------- a struct block ---------- *)
Definition member_text (p : string * ty) : string := tab ++ fst p ++ ": " ++ idl_name (snd p) ++ nl.
Definition member_node (p : string * ty) : inode := NVal (VMember (fst p) (ity_of (snd p))).
Definition struct_text (n : string) (fs : list (string * ty)) : string :=
  "struct " ++ n ++ nl ++ String.concat "" (map member_text fs) ++ "end" ++ nl.
Definition struct_val (n : string) (fs : list (string * ty)) : ival :=
  VStruct n (map (fun p => (fst p, ity_of (snd p))) fs).

Lemma gen_struct_text n sg fs : gen_struct (n, (sg, Some (struct_block fs))) = struct_text n fs.
Proof. unfold gen_struct, struct_text, struct_block. cbn [fst snd]. now rewrite map_map. Qed.

(* what may follow a declaration: nothing, a struct block or an interface block *)
Definition decl_rest (rest : string) : Prop :=
  rest = "" \/ (exists x, rest = String "s" x) \/ (exists x, rest = String "i" x).
Lemma decl_rest_no_comment rest : decl_rest rest -> no_comment rest.
Proof. intros [->|[(x & ->)|(x & ->)]]; reflexivity. Qed.

Lemma is_ident_iident s : is_ident s = true -> is_iident s = true.
Proof.
  destruct s as [|c r]; [discriminate|]. cbn. intro H. apply andb_prop in H as [Hc Hr].
  unfold is_alpha_. now rewrite Hc, Hr.
Qed.

Lemma members_of_nodes_map fs : members_of_nodes (map member_node fs) = Some (map (fun p => (fst p, ity_of (snd p))) fs).
Proof. induction fs as [|p fs IH]; cbn; [reflexivity|now rewrite IH]. Qed.

Lemma imember_ws f s : imember (itype f) (nl ++ s) = imember (itype f) s.
Proof. unfold imember. apply pand_ext. reflexivity. Qed.

Lemma member_item f p rest : is_ident (fst p) = true -> idl_safe (snd p) = true -> (idl_depth (snd p) < f)%nat ->
  no_comment rest -> fst (imember (itype f) (member_text p ++ rest)) = Ok (member_node p) (nl ++ rest).
Proof.
  intros Hn Hs Hd Hr. unfold member_text, tab. rewrite !sapp_assoc. cbn [append].
  unfold imember. rewrite pand_fst.
  and_step ltac:(change (iident (String "009" ?s)) with (iident s); apply iident_ok; [now apply is_ident_iident|reflexivity]).
  and_step ltac:(reflexivity).
  and_step ltac:(rewrite itype_ws; apply itype_name; [assumption|assumption|reflexivity]).
  and_step ltac:(apply icomments_none; now apply no_comment_nl).
  reflexivity.
Qed.

Lemma member_text_shape p : is_ident (fst p) = true -> exists c r, member_text p = String "009" (String c r) /\ is_alpha c = true.
Proof.
  intro H. destruct p as [[|c r] t]; [discriminate|]. cbn in H. apply andb_prop in H as [Hc _].
  unfold member_text, tab. cbn [fst append]. eauto.
Qed.

Lemma alpha_no_comment c r : is_alpha c = true -> no_comment (String "009" (String c r)).
Proof.
  intro H. unfold no_comment. cbn [skip_ws]. change (@is_ws "009") with true. cbn iota.
  rewrite (alpha_not_ws c H). destruct c as [[] [] [] [] [] [] [] []]; try reflexivity; discriminate.
Qed.

Lemma struct_block_parses f n fs rest : idl_safe (TStruct n fs) = true ->
  Forall (fun p => (idl_depth (snd p) < f)%nat) fs -> decl_rest rest ->
  fst (ideclaration (itype f) (struct_text n fs ++ rest)) = Ok (NVal (struct_val n fs)) (nl ++ rest).
Proof.
  intros Hs Hd Hrest. cbn [idl_safe] in Hs. apply andb_prop in Hs as [Hn Hfs].
  destruct (no_basic_prefix n Hn) as (Hsn & _).
  assert (Hf : Forall (fun p => is_ident (fst p) = true /\ idl_safe (snd p) = true) fs).
  { apply Forall_forall. intros p Hp. rewrite forallb_forall in Hfs. specialize (Hfs p Hp). now apply andb_prop in Hfs. }
  pose proof (decl_rest_no_comment rest Hrest) as Hnc.
  unfold struct_text. rewrite !sapp_assoc. cbn [append].
  set (body := String.concat "" (map member_text fs)).
  set (tail := String "e" (String "n" (String "d" (nl ++ rest)))).
  unfold ideclaration.
  apply (por_cons_ok (Some nodify_first) _ _ _ (NVal (struct_val n fs)) (nl ++ rest)).
  unfold istructure. rewrite pand_fst.
  and_step ltac:(reflexivity).
  and_step ltac:(change (type_ident (String " " ?s)) with (type_ident s); apply type_ident_ok; [assumption|reflexivity]).
  assert (Hbody : no_comment (nl ++ body ++ tail)).
  { apply no_comment_nl. subst body. destruct fs as [|p fs']; [reflexivity|].
    inversion Hf as [|? ? [Hp _] _]; subst. destruct (member_text_shape p Hp) as (c & r & E & Hc).
    cbn [map]. rewrite sconcat_cons, E. cbn [append]. now apply alpha_no_comment. }
  and_step ltac:(now apply icomments_none).
  assert (Hk : fst (kleene (Some inodify_member_list) (imember (itype f)) (nl ++ body ++ tail)) =
               Ok (NVal (VStruct "parameters" (map (fun p => (fst p, ity_of (snd p))) fs))) (nl ++ tail)).
  { rewrite kleene_fst. subst body.
    replace (map member_text fs) with (map fst (map (fun p => (member_text p, member_node p)) fs))
      by (rewrite map_map; reflexivity).
    rewrite (kleene_lines (imember (itype f)) no_comment (map (fun p => (member_text p, member_node p)) fs) tail).
    - cbn [lift docb]. unfold inodify_member_list. rewrite !map_map. cbn [snd].
      change (map (fun x => member_node x) fs) with (map member_node fs). now rewrite members_of_nodes_map.
    - intro s. now rewrite imember_ws.
    - intros t nd Hin rest' Hr. apply in_map_iff in Hin as (p & Ep & Hp). inversion Ep; subst.
      rewrite Forall_forall in Hf, Hd. destruct (Hf p Hp). now apply member_item; [| |apply Hd|].
    - intros t nd Hin. apply in_map_iff in Hin as (p & Ep & Hp). inversion Ep; subst.
      rewrite Forall_forall in Hf. destruct (Hf p Hp) as [Hi _].
      destruct (member_text_shape p Hi) as (c & r & E & Hc). rewrite E. split; [cbn; lia|].
      intro r'. cbn [append]. now apply alpha_no_comment.
    - reflexivity.
    - (* the member parser reads "end" as a name and then misses the colon *)
      subst tail. unfold imember. rewrite pand_fst.
      and_step ltac:(apply (iident_ok "end" (nl ++ rest)); reflexivity).
      and_fail ltac:(unfold atom, nl; cbn [append skip_ws]; change (@is_ws "010") with true; cbn iota;
                     destruct Hrest as [->|[(x & ->)|(x & ->)]]; reflexivity).
      reflexivity.
    - rewrite map_length. unfold nl. cbn [append String.length]. rewrite slen_app.
      pose proof (concat_len_ge (map fst (map (fun p => (member_text p, member_node p)) fs))) as Hl.
      rewrite !map_length in Hl.
      assert (forall t, In t (map fst (map (fun p => (member_text p, member_node p)) fs)) -> (1 <= String.length t)%nat).
      { intros t Hin. rewrite map_map in Hin. apply in_map_iff in Hin as (p & <- & Hp). cbn [fst].
        unfold member_text, tab. cbn. lia. }
      specialize (Hl H). lia. }
  and_step ltac:(exact Hk).
  and_step ltac:(reflexivity).
  and_step ltac:(apply icomments_none; now apply no_comment_nl).
  reflexivity.
Qed.

(* ---------- substrings: every type name is written somewhere in the text, so the parser's
   fuel (the length of the text) exceeds the nesting of every type expression ---------- *)
Definition sub (x y : string) : Prop := exists a b, y = a ++ x ++ b.
Lemma sub_refl x : sub x x.
Proof. exists "", "". cbn. now rewrite sapp_nil_r. Qed.
Lemma sub_trans x y z : sub x y -> sub y z -> sub x z.
Proof. intros (a & b & ->) (c & d & ->). exists (c ++ a), (b ++ d). now rewrite !sapp_assoc. Qed.
Lemma sub_l x a y : sub x y -> sub x (a ++ y).
Proof. intros (c & d & ->). exists (a ++ c), d. now rewrite !sapp_assoc. Qed.
Lemma sub_r x y b : sub x y -> sub x (y ++ b).
Proof. intros (c & d & ->). exists c, (d ++ b). now rewrite !sapp_assoc. Qed.
Lemma sub_concat x l : In x l -> sub x (String.concat "" l).
Proof.
  induction l as [|y l IH]; [intros []|]. rewrite sconcat_cons. intros [->|H].
  - apply sub_r, sub_refl.
  - apply sub_l. now apply IH.
Qed.
Lemma sub_join sep x l : In x l -> sub x (join sep l).
Proof.
  induction l as [|y l IH]; [intros []|]. intros [->|H].
  - destruct l as [|z l]; [apply sub_refl|]. rewrite join_cons2. apply sub_r, sub_refl.
  - destruct l as [|z l]; [destruct H|]. rewrite join_cons2. apply sub_l, sub_l. now apply IH.
Qed.
Lemma sub_len x y : sub x y -> (String.length x <= String.length y)%nat.
Proof. intros (a & b & ->). rewrite !slen_app. lia. Qed.

Lemma sub_depth t y : idl_safe t = true -> sub (idl_name t) y -> (idl_depth t < S (String.length y))%nat.
Proof. intros Hs Hsub. pose proof (idl_depth_le_len t Hs). pose proof (sub_len _ _ Hsub). lia. Qed.

Lemma sub_param (p : string * ty) : sub (idl_name (snd p)) (param_str p).
Proof. unfold param_str. apply sub_l, sub_l, sub_refl. Qed.

Lemma sub_params sep (l : list (string * ty)) t : In t (map snd l) -> sub (idl_name t) (join sep (map param_str l)).
Proof.
  intro H. apply in_map_iff in H as (p & <- & Hp). eapply sub_trans; [apply sub_param|].
  apply sub_join. now apply in_map.
Qed.

Lemma sub_method_param m t : In t (tm_params m) -> sub (idl_name t) (method_text m).
Proof.
  intro H. unfold method_text, method_line. rewrite <- method_members_snd in H.
  apply sub_l, sub_l, sub_l, sub_l, sub_r. now apply sub_params.
Qed.
Lemma sub_method_ret m : tm_ret m <> TS SVoid -> sub (idl_name (tm_ret m)) (method_text m).
Proof.
  intro H. unfold method_text, method_line, ret_str.
  destruct (String.eqb_spec (print (tm_ret m)) "v") as [Ev|_]; [apply print_v in Ev; contradiction|].
  apply sub_l, sub_l, sub_l, sub_l, sub_l, sub_l, sub_r, sub_l, sub_r, sub_refl.
Qed.
Lemma sub_signal_param kw x t : In t (tg_params x) -> sub (idl_name t) (signal_text kw x).
Proof.
  intro H. unfold signal_text, sigprop_line. rewrite <- (tuple_fields_snd 0 (tg_params x)) in H.
  apply sub_l, sub_l, sub_l, sub_l, sub_l, sub_r. now apply sub_params.
Qed.

Lemma sub_itf_methods o : sub (methods_text o) (itf_text o).
Proof. unfold itf_text. apply sub_l, sub_l, sub_l, sub_r, sub_refl. Qed.
Lemma sub_itf_signals o : sub (signals_text o) (itf_text o).
Proof. unfold itf_text. apply sub_l, sub_l, sub_l, sub_l, sub_r, sub_refl. Qed.
Lemma sub_itf_props o : sub (props_text o) (itf_text o).
Proof. unfold itf_text. apply sub_l, sub_l, sub_l, sub_l, sub_l, sub_r, sub_refl. Qed.

Lemma sub_member (p : string * ty) : sub (idl_name (snd p)) (member_text p).
Proof. unfold member_text. apply sub_l, sub_l, sub_l, sub_r, sub_refl. Qed.
Lemma sub_struct_member n fs p : In p fs -> sub (idl_name (snd p)) (struct_text n fs).
Proof.
  intro H. eapply sub_trans; [apply sub_member|]. unfold struct_text.
  apply sub_l, sub_l, sub_l, sub_r. apply sub_concat. now apply in_map.
Qed.

Lemma object_deep_sub E f o (T : string) : object_ok E o -> sub (itf_text o) T -> f = S (String.length T) -> object_deep f o.
Proof.
  intros [_ _ Hms Hss Hps _ _ _] HT ->. rewrite Forall_forall in Hms, Hss, Hps. repeat split; apply Forall_forall.
  - intros m Hm. destruct (Hms m Hm) as [Hts Hrt _ _ _ _].
    assert (Hm' : sub (method_text m) T).
    { eapply sub_trans; [|exact HT]. eapply sub_trans; [|apply sub_itf_methods]. apply sub_concat. now apply in_map. }
    split.
    + apply Forall_forall. intros t Ht. rewrite Forall_forall in Hts. destruct (Hts t Ht) as (_ & Hs & _).
      apply sub_depth; [assumption|]. eapply sub_trans; [|exact Hm']. now apply sub_method_param.
    + destruct Hrt as [Hv|(_ & Hs & _)]; [now left|].
      destruct (tm_ret m) as [[]| | | |] eqn:Er; try (right; apply sub_depth; [assumption|];
        eapply sub_trans; [|exact Hm']; rewrite <- Er; apply sub_method_ret; congruence). now left.
  - intros x Hx. destruct (Hss x Hx) as [Hts _ _ _].
    apply Forall_forall. intros t Ht. rewrite Forall_forall in Hts. destruct (Hts t Ht) as (_ & Hs & _).
    apply sub_depth; [assumption|]. eapply sub_trans; [|exact HT]. eapply sub_trans; [|apply sub_itf_signals].
    eapply sub_trans; [now apply (sub_signal_param "sig" x)|]. apply sub_concat. now apply in_map.
  - intros x Hx. destruct (Hps x Hx) as [Hts _ _ _].
    apply Forall_forall. intros t Ht. rewrite Forall_forall in Hts. destruct (Hts t Ht) as (_ & Hs & _).
    apply sub_depth; [assumption|]. eapply sub_trans; [|exact HT]. eapply sub_trans; [|apply sub_itf_props].
    eapply sub_trans; [now apply (sub_signal_param "prop" x)|]. apply sub_concat. now apply in_map.
Qed.

(* ================= Part 4: the whole text through the package parser ================= *)
Definition is_pkg_name (s : string) : bool :=
  match s with EmptyString => false | String c r => is_alpha_ c && all_chars is_pkg_char r end.

Lemma pkg_ident_ok p rest : is_pkg_name p = true ->
  match rest with EmptyString => True | String c _ => is_pkg_char c = false end ->
  fst (pkg_ident (String " " (p ++ rest))) = Ok (NTerm p) rest.
Proof.
  intros Hp Hr. destruct p as [|c r]; [discriminate|]. cbn in Hp. apply andb_prop in Hp as [Hc Ha].
  unfold pkg_ident, token1. cbn [append skip_ws]. change (@is_ws " ") with true. cbn iota.
  rewrite (alpha__not_ws c Hc), Hc. rewrite span_app_follow by assumption. reflexivity.
Qed.

(* the declarations the struct part of the text stands for *)
Definition struct_items (E : env) (S : tset) : list (string * inode) :=
  flat_map (fun e => match snd (snd e), lookup (fst e) E with
                     | Some _, Some fs => [(struct_text (fst e) fs, NVal (struct_val (fst e) fs))]
                     | _, _ => []
                     end) S.
Definition itf_items (P : list tobject) : list (string * inode) := map (fun o => (itf_text o, NVal (itf_val o))) P.

Lemma struct_items_text E inames S : set_ok E inames S -> (forall k, In k inames -> lookup k E = None) ->
  String.concat "" (map gen_struct S) = String.concat "" (map fst (struct_items E S)).
Proof.
  intros [HF _] Hd. induction HF as [|e S He HF IH]; [reflexivity|].
  cbn [map struct_items flat_map]. rewrite sconcat_cons, map_app, sconcat_app. fold (struct_items E S). rewrite <- IH. f_equal.
  destruct e as [k [sg blk]]. destruct He as [[Hi Heq]|(fs & Hl & Heq)]; cbn [fst snd] in *.
  - inversion Heq; subst. reflexivity.
  - inversion Heq; subst. rewrite Hl. cbn [map fst String.concat]. apply gen_struct_text.
Qed.

Lemma ideclaration_ws f s : ideclaration (itype f) (nl ++ s) = ideclaration (itype f) s.
Proof. unfold ideclaration. apply por_ext. repeat constructor. Qed.

Lemma decls_of_nodes_vals (vs : list ival) : Forall (fun v => is_sig_type (NVal v) = true) vs ->
  decls_of_nodes (map (@NVal ival) vs) = Some vs.
Proof.
  induction 1 as [|v vs Hv HF IH]; [reflexivity|]. cbn [map decls_of_nodes]. rewrite Hv, IH. reflexivity.
Qed.

Definition decl_vals (E : env) (P : list tobject) (S : tset) : list ival :=
  (map itf_val P ++ flat_map (fun e => match snd (snd e), lookup (fst e) E with
                                        | Some _, Some fs => [struct_val (fst e) fs]
                                        | _, _ => []
                                        end) S)%list.

Lemma decl_items_snd E P S : map snd (itf_items P ++ struct_items E S)%list = map (@NVal ival) (decl_vals E P S).
Proof.
  unfold decl_vals, itf_items, struct_items. rewrite !map_app, !map_map. f_equal.
  induction S as [|e S IH]; [reflexivity|]. cbn [flat_map]. rewrite !map_app, IH. f_equal.
  destruct (snd (snd e)); [|reflexivity]. destruct (lookup (fst e) E); reflexivity.
Qed.

Definition env_safe (E : env) : Prop := Forall (fun d => idl_safe (TStruct (fst d) (snd d)) = true) E.

Theorem parse_package_ok E pkg P S : package_ok E P -> env_safe E -> is_pkg_name pkg = true ->
  set_ok E (map to_name P) S ->
  fst (parse_package (package_text pkg P S)) = Ok (NVal (VPkg pkg (decl_vals E P S))) nl.
Proof.
  intros [HP Hnd] HE Hpkg HS.
  assert (Hdisj : forall k, In k (map to_name P) -> lookup k E = None).
  { intros k Hk. apply in_map_iff in Hk as (o & <- & Ho). rewrite Forall_forall in HP. apply (HP o Ho). }
  unfold parse_package. set (T := package_text pkg P S). set (f := Datatypes.S (String.length T)) in *.
  assert (ET : T = "package " ++ pkg ++ nl ++ String.concat "" (map fst (itf_items P ++ struct_items E S)%list)).
  { subst T. unfold package_text. rewrite (struct_items_text E _ S HS Hdisj), map_app, sconcat_app.
    unfold itf_items. rewrite map_map. reflexivity. }
  set (items := (itf_items P ++ struct_items E S)%list) in *.
  (* every block is a substring of the text *)
  assert (Hsub : forall t nd, In (t, nd) items -> sub t T).
  { intros t nd Hin. rewrite ET. apply sub_l, sub_l, sub_l. apply sub_concat. change t with (fst (t, nd)). now apply in_map. }
  assert (Hitems : forall t nd, In (t, nd) items -> forall rest, decl_rest rest ->
            fst (ideclaration (itype f) (t ++ rest)) = Ok nd (nl ++ rest)).
  { intros t nd Hin rest Hrest. pose proof (Hsub t nd Hin) as Hs. unfold items in Hin. apply in_app_or in Hin as [Hin|Hin].
    - apply in_map_iff in Hin as (o & Eo & Ho). inversion Eo; subst t nd.
      rewrite Forall_forall in HP. apply (itf_block E); [now apply HP| |now apply decl_rest_no_comment].
      now apply (object_deep_sub E f o T); [apply HP| |].
    - unfold struct_items in Hin. apply in_flat_map in Hin as (e & He & Hin).
      destruct (snd (snd e)) as [blk|]; [|destruct Hin]. destruct (lookup (fst e) E) as [fs|] eqn:Hl; [|destruct Hin].
      destruct Hin as [Ei|[]]. inversion Ei; subst t nd.
      assert (Hsafe : idl_safe (TStruct (fst e) fs) = true).
      { unfold env_safe in HE. rewrite Forall_forall in HE. apply (HE (fst e, fs)). now apply lookup_in. }
      apply struct_block_parses; [assumption| |assumption].
      apply Forall_forall. intros p Hp. cbn [idl_safe] in Hsafe. apply andb_prop in Hsafe as [_ Hfs].
      rewrite forallb_forall in Hfs. specialize (Hfs p Hp). apply andb_prop in Hfs as [_ Hps].
      apply sub_depth; [assumption|]. eapply sub_trans; [now apply (sub_struct_member (fst e) fs p)|exact Hs]. }
  assert (Hshape : forall t nd, In (t, nd) items -> (exists x, t = String "s" x) \/ (exists x, t = String "i" x)).
  { intros t nd Hin. unfold items in Hin. apply in_app_or in Hin as [Hin|Hin].
    - apply in_map_iff in Hin as (o & Eo & _). inversion Eo. right. unfold itf_text. cbn [append]. eauto.
    - unfold struct_items in Hin. apply in_flat_map in Hin as (e & _ & Hin).
      destruct (snd (snd e)); [|destruct Hin]. destruct (lookup (fst e) E); [|destruct Hin].
      destruct Hin as [Ei|[]]. inversion Ei. left. unfold struct_text. cbn [append]. eauto. }
  assert (Hrest0 : decl_rest (String.concat "" (map fst items))).
  { destruct items as [|[t nd] items']; [now left|]. cbn [map fst]. rewrite sconcat_cons.
    destruct (Hshape t nd (or_introl eq_refl)) as [(x & ->)|(x & ->)]; cbn [append]; [right; left|right; right]; eauto. }
  rewrite ET. unfold ipackage. rewrite pand_fst. cbn [append].
  set (R := String.concat "" (map fst items)) in *.
  (* the package line *)
  rewrite (and_loop_cons_ok _ _ _ (NVal (VStr pkg)) (nl ++ R)).
  2:{ unfold ipackage_name. rewrite pand_fst.
      rewrite (and_loop_cons_ok _ [] _ (NVal (VStr pkg)) (nl ++ R)); [reflexivity|].
      apply (maybe_ok (Some nodify_first) _ _ (NVal (VStr pkg))). rewrite pand_fst.
      and_step ltac:(reflexivity).
      and_step ltac:(apply pkg_ident_ok; [assumption|reflexivity]).
      and_step ltac:(apply icomments_none; apply no_comment_nl; now apply decl_rest_no_comment).
      reflexivity. }
  (* the declarations *)
  rewrite (and_loop_cons_ok _ [] _ (NVal (VDecls (decl_vals E P S))) nl).
  - reflexivity.
  - rewrite kleene_fst. replace (nl ++ R) with (nl ++ R ++ "") by (now rewrite sapp_nil_r). subst R.
    rewrite (kleene_lines (ideclaration (itype f)) decl_rest items "").
    + cbn [lift docb]. unfold items. rewrite decl_items_snd. unfold inodify_decl_list.
      rewrite decls_of_nodes_vals; [now rewrite sapp_nil_r|].
      unfold decl_vals. apply Forall_app. split.
      * apply Forall_forall. intros v Hv. apply in_map_iff in Hv as (o & <- & _). reflexivity.
      * apply Forall_forall. intros v Hv. apply in_flat_map in Hv as (e & _ & Hv).
        destruct (snd (snd e)); [|destruct Hv]. destruct (lookup (fst e) E); [|destruct Hv]. destruct Hv as [<-|[]]. reflexivity.
    + intro s. now rewrite ideclaration_ws.
    + exact Hitems.
    + intros t nd Hin. split.
      * destruct (Hshape t nd Hin) as [(x & ->)|(x & ->)]; cbn; lia.
      * intro r. destruct (Hshape t nd Hin) as [(x & ->)|(x & ->)]; cbn [append]; [right; left|right; right]; eauto.
    + now left.
    + reflexivity.
    + rewrite sapp_nil_r. unfold nl. cbn [append String.length].
      pose proof (concat_len_ge (map fst items)) as Hl. rewrite map_length in Hl.
      assert (forall t, In t (map fst items) -> (1 <= String.length t)%nat).
      { intros t Hin. apply in_map_iff in Hin as ([t' nd] & <- & Hin).
        destruct (Hshape t' nd Hin) as [(x & ->)|(x & ->)]; cbn; lia. }
      specialize (Hl H). lia.
Qed.

(* ================= Part 5: the scope of the parsed declarations ================= *)
Definition decl_entry (v : ival) : option (string * sentry) :=
  match v with
  | VStruct name ms => Some (name, ScStruct name ms)
  | VItf name _ _ _ => Some (name, ScItf)
  | _ => None
  end.
Fixpoint first_decl (k : string) (ds : list ival) : option sentry :=
  match ds with
  | [] => None
  | d :: r => match decl_entry d with
              | Some (n, e) => if String.eqb n k then Some e else first_decl k r
              | None => first_decl k r
              end
  end.

Lemma lookup_snoc {A} k (l : list (string * A)) n v : lookup k (l ++ [(n, v)])%list =
  match lookup k l with Some x => Some x | None => if String.eqb n k then Some v else None end.
Proof.
  induction l as [|[a w] l IH]; cbn; [reflexivity|]. destruct (String.eqb a k); [reflexivity|exact IH].
Qed.

Lemma scope_of_lookup k ds : forall acc,
  lookup k (scope_of ds acc) = match lookup k acc with Some v => Some v | None => first_decl k ds end.
Proof.
  induction ds as [|d ds IH]; intro acc; cbn [scope_of first_decl]; [now destruct (lookup k acc)|].
  destruct d; cbn [decl_entry]; try apply IH.
  - (* interface *)
    rewrite IH. destruct (lookup name acc) eqn:En.
    + destruct (lookup k acc) eqn:Ek; [reflexivity|].
      destruct (String.eqb_spec name k) as [->|_]; [congruence|reflexivity].
    + rewrite lookup_snoc. destruct (lookup k acc); [reflexivity|]. now destruct (String.eqb name k).
  - (* struct *)
    rewrite IH. destruct (lookup name acc) eqn:En.
    + destruct (lookup k acc) eqn:Ek; [reflexivity|].
      destruct (String.eqb_spec name k) as [->|_]; [congruence|reflexivity].
    + rewrite lookup_snoc. destruct (lookup k acc); [reflexivity|]. now destruct (String.eqb name k).
Qed.

Lemma first_decl_app_skip k l1 l2 :
  (forall d n e, In d l1 -> decl_entry d = Some (n, e) -> n <> k) -> first_decl k (l1 ++ l2) = first_decl k l2.
Proof.
  induction l1 as [|d l1 IH]; intro H; [reflexivity|]. cbn [app first_decl].
  destruct (decl_entry d) as [[n e]|] eqn:Ed.
  - destruct (String.eqb_spec n k) as [->|_]; [exfalso; now apply (H d k e (or_introl eq_refl))|].
    apply IH. intros d' n' e' Hin. apply H. now right.
  - apply IH. intros d' n' e' Hin. apply H. now right.
Qed.

Definition ifields (fs : list (string * ty)) : list (string * ity) := map (fun p => (fst p, ity_of (snd p))) fs.

Lemma struct_vals_first E inames S k fs : set_ok E inames S -> (forall x, In x inames -> lookup x E = None) ->
  lookup k E = Some fs -> lookup k S <> None ->
  first_decl k (flat_map (fun e => match snd (snd e), lookup (fst e) E with
                                   | Some _, Some fs => [struct_val (fst e) fs]
                                   | _, _ => []
                                   end) S) = Some (ScStruct k (ifields fs)).
Proof.
  intros [HF Hnd] Hd Hk. induction S as [|[n [sg blk]] S IH]; intro Hl; [now elim Hl|].
  inversion HF as [|? ? He HF']; subst. cbn [map] in Hnd. inversion Hnd as [|? ? Hn Hnd']; subst.
  cbn [flat_map fst snd]. cbn [lookup] in Hl. destruct (String.eqb_spec n k) as [->|Hne].
  - destruct He as [[Hi _]|(fs' & Hl' & Heq)]; cbn [fst snd] in *.
    + rewrite (Hd k Hi) in Hk. discriminate.
    + inversion Heq; subst. rewrite Hl'. rewrite Hk in Hl'. inversion Hl'; subst.
      cbn [app first_decl struct_val decl_entry]. now rewrite String.eqb_refl.
  - assert (Hskip : forall d n' e, In d (match blk, lookup n E with Some _, Some fs0 => [struct_val n fs0] | _, _ => [] end) ->
                      decl_entry d = Some (n', e) -> n' <> k).
    { intros d n' e Hin Hde. destruct blk; [|destruct Hin]. destruct (lookup n E); [|destruct Hin].
      destruct Hin as [<-|[]]. cbn in Hde. inversion Hde. now subst. }
    rewrite (first_decl_app_skip k _ _ Hskip). now apply IH.
Qed.

Lemma scope_struct E P S k fs : package_ok E P -> set_ok E (map to_name P) S ->
  lookup k E = Some fs -> lookup k S <> None ->
  lookup k (scope_of (decl_vals E P S) []) = Some (ScStruct k (ifields fs)).
Proof.
  intros [HP _] HS Hk Hl. rewrite scope_of_lookup. cbn [lookup]. unfold decl_vals.
  assert (Hdisj : forall x, In x (map to_name P) -> lookup x E = None).
  { intros x Hx. apply in_map_iff in Hx as (o & <- & Ho). rewrite Forall_forall in HP. apply (HP o Ho). }
  rewrite first_decl_app_skip.
  - now apply (struct_vals_first E (map to_name P)).
  - intros d n e Hin Hde. apply in_map_iff in Hin as (o & <- & Ho). cbn in Hde. inversion Hde; subst.
    intro Heq. rewrite Forall_forall in HP. destruct (HP o Ho) as [_ Hc _ _ _ _ _ _]. rewrite Heq in Hc. congruence.
Qed.

(* every struct of a covered type is in the scope with its own members *)
Lemma scope_has_covered E P S t : package_ok E P -> set_ok E (map to_name P) S ->
  env_ok E t -> covers S t -> scope_has (scope_of (decl_vals E P S) []) t.
Proof.
  intros HP HS. induction t as [s|t IHt|k v IHk IHv|ts IH|n fs IH] using ty_ind2; intros He Hc.
  - exact I.
  - now apply IHt.
  - unfold env_ok in He. cbn [structs_of] in He. rewrite Forall_app in He. destruct He as [Hek Hev].
    split; [apply IHk|apply IHv]; try assumption; intros d Hd; apply Hc; cbn [structs_of]; apply in_or_app; auto.
  - apply env_ok_list in He. cbn [scope_has].
    assert (Hc' : Forall (covers S) ts).
    { apply Forall_forall. intros t Ht d Hd. apply Hc. cbn [structs_of]. apply in_flat_map. eauto. }
    clear Hc. induction ts as [|t ts IHl]; [exact I|].
    inversion IH; subst. inversion He; subst. inversion Hc'; subst. split; [auto|now apply IHl].
  - apply env_ok_struct in He as [Hl He]. cbn [scope_has]. split.
    + apply (scope_struct E P S n fs HP HS Hl). apply (Hc (n, fs)). now left.
    + assert (Hc' : Forall (fun f => covers S (snd f)) fs).
      { apply Forall_forall. intros f Hf d Hd. apply Hc. cbn [structs_of]. right. apply in_flat_map. eauto. }
      clear Hc Hl. induction fs as [|f fs IHl]; [exact I|].
      inversion IH; subst. inversion He; subst. inversion Hc'; subst. split; [auto|now apply IHl].
Qed.

(* ================= Part 6: the fuel of the signature resolution is enough ================= *)
Fixpoint tsize (t : ty) : nat :=
  match t with
  | TS _ => 1
  | TList e => S (tsize e)
  | TMap k v => S (tsize k + tsize v)
  | TTuple ts => S (fold_right (fun t a => tsize t + a) 0 ts)
  | TStruct _ fs => S (fold_right (fun f a => tsize (snd f) + a) 0 fs)
  end.

(* nesting of structs *)
Fixpoint sdepth (t : ty) : nat :=
  match t with
  | TS _ => 0
  | TList e => sdepth e
  | TMap k v => Nat.max (sdepth k) (sdepth v)
  | TTuple ts => fold_right (fun t a => Nat.max (sdepth t) a) 0 ts
  | TStruct _ fs => S (fold_right (fun f a => Nat.max (sdepth (snd f)) a) 0 fs)
  end.

Definition snames (t : ty) : list string := map fst (structs_of t).

Lemma struct_inside_size t : forall n fs, In (n, fs) (structs_of t) -> tsize (TStruct n fs) <= tsize t.
Proof.
  induction t as [s|t IHt|k v IHk IHv|ts IH|m gs IH] using ty_ind2; intros n fs Hin; cbn [structs_of] in Hin.
  - destruct Hin.
  - specialize (IHt n fs Hin). cbn [tsize] in *. lia.
  - apply in_app_or in Hin as [Hin|Hin]; [specialize (IHk n fs Hin)|specialize (IHv n fs Hin)]; cbn [tsize] in *; lia.
  - apply in_flat_map in Hin as (t & Ht & Hin). rewrite Forall_forall in IH. specialize (IH t Ht n fs Hin).
    assert (tsize t <= fold_right (fun t a => tsize t + a) 0 ts).
    { clear -Ht. induction ts as [|u ts IHl]; [destruct Ht|]. cbn. destruct Ht as [->|Ht]; [lia|]. specialize (IHl Ht). lia. }
    cbn [tsize] in *. lia.
  - destruct Hin as [Heq|Hin]; [inversion Heq; subst; lia|].
    apply in_flat_map in Hin as (f & Hf & Hin). rewrite Forall_forall in IH. specialize (IH f Hf n fs Hin).
    assert (tsize (snd f) <= fold_right (fun f a => tsize (snd f) + a) 0 gs).
    { clear -Hf. induction gs as [|u gs IHl]; [destruct Hf|]. cbn. destruct Hf as [->|Hf]; [lia|]. specialize (IHl Hf). lia. }
    cbn [tsize] in *. lia.
Qed.

(* a struct does not contain a struct of its own name *)
Lemma struct_name_fresh E n fs : env_ok E (TStruct n fs) ->
  ~ In n (flat_map (fun f => snames (snd f)) fs).
Proof.
  intros He Hin. apply env_ok_struct in He as [Hl He].
  apply in_flat_map in Hin as (f & Hf & Hin). unfold snames in Hin. apply in_map_iff in Hin as ([n' fs'] & En & Hin).
  cbn in En. subst n'. rewrite Forall_forall in He. pose proof (He f Hf) as Hef. unfold env_ok in Hef.
  rewrite Forall_forall in Hef. specialize (Hef _ Hin). cbn in Hef. rewrite Hl in Hef. inversion Hef; subst fs'.
  pose proof (struct_inside_size (snd f) n fs Hin) as Hs.
  assert (tsize (snd f) <= fold_right (fun f a => tsize (snd f) + a) 0 fs).
  { clear -Hf. induction fs as [|u gs IHl]; [destruct Hf|]. cbn. destruct Hf as [->|Hf]; [lia|]. specialize (IHl Hf). lia. }
  cbn [tsize] in Hs. lia.
Qed.

Lemma nodup_len_incl (l1 l2 : list string) : incl l1 l2 ->
  List.length (nodup string_dec l1) <= List.length (nodup string_dec l2).
Proof.
  intro H. apply NoDup_incl_length; [apply NoDup_nodup|].
  intros x Hx. apply nodup_In. apply H. now apply nodup_In in Hx.
Qed.

Lemma max_fold_le {A} (g h : A -> nat) (l : list A) b :
  (forall x, In x l -> g x <= b) -> fold_right (fun x a => Nat.max (g x) a) 0 l <= b.
Proof. induction l as [|x l IH]; intro H; cbn; [lia|]. pose proof (H x (or_introl eq_refl)). specialize (IH (fun y Hy => H y (or_intror Hy))). lia. Qed.

(* the nesting of structs is at most the number of distinct struct names *)
Lemma sdepth_names E t : env_ok E t -> sdepth t <= List.length (nodup string_dec (snames t)).
Proof.
  induction t as [s|t IHt|k v IHk IHv|ts IH|n fs IH] using ty_ind2; intro He.
  - cbn. lia.
  - now apply IHt.
  - unfold env_ok in He. cbn [structs_of] in He. rewrite Forall_app in He. destruct He as [Hek Hev].
    cbn [sdepth]. unfold snames. cbn [structs_of]. rewrite map_app. fold (snames k) (snames v).
    pose proof (nodup_len_incl (snames k) (snames k ++ snames v) ltac:(intros x Hx; apply in_or_app; now left)).
    pose proof (nodup_len_incl (snames v) (snames k ++ snames v) ltac:(intros x Hx; apply in_or_app; now right)).
    specialize (IHk Hek). specialize (IHv Hev). lia.
  - apply env_ok_list in He. cbn [sdepth]. apply max_fold_le; [exact (fun _ => 0)|]. intros t Ht.
    rewrite Forall_forall in IH, He. specialize (IH t Ht (He t Ht)).
    etransitivity; [exact IH|]. apply nodup_len_incl. intros x Hx. unfold snames in *. cbn [structs_of].
    apply in_map_iff in Hx as (d & <- & Hd). apply in_map. apply in_flat_map. eauto.
  - pose proof (struct_name_fresh E n fs He) as Hfresh. apply env_ok_struct in He as [Hl He].
    cbn [sdepth]. unfold snames at 1. cbn [structs_of map fst].
    rewrite flat_map_concat_map, concat_map, map_map, <- flat_map_concat_map.
    change (flat_map (fun f => map fst (structs_of (snd f))) fs) with (flat_map (fun f => snames (snd f)) fs).
    cbn [nodup]. destruct (in_dec string_dec n (flat_map (fun f => snames (snd f)) fs)) as [Hin|_]; [contradiction|].
    cbn [List.length]. apply le_n_S. apply max_fold_le; [exact (fun _ => 0)|]. intros f Hf.
    rewrite Forall_forall in IH, He. specialize (IH f Hf (He f Hf)). etransitivity; [exact IH|].
    apply nodup_len_incl. intros x Hx. apply in_flat_map. eauto.
Qed.

(* depth through the structs: bounded by the expression's own nesting plus, per struct level,
   the nesting of member expressions *)
Lemma ty_depth_bound M t :
  Forall (fun d => Forall (fun p => idl_depth (snd p) <= M) (snd d)) (structs_of t) ->
  ty_depth t <= idl_depth t + sdepth t * (S M).
Proof.
  induction t as [s|t IHt|k v IHk IHv|ts IH|n fs IH] using ty_ind2; intro H.
  - cbn. lia.
  - specialize (IHt H). cbn [ty_depth idl_depth sdepth] in *. lia.
  - cbn [structs_of] in H. rewrite Forall_app in H. destruct H as [Hk Hv].
    specialize (IHk Hk). specialize (IHv Hv). cbn [ty_depth idl_depth sdepth] in *.
    pose proof (Nat.mul_le_mono_r _ _ (S M) (Nat.le_max_l (sdepth k) (sdepth v))).
    pose proof (Nat.mul_le_mono_r _ _ (S M) (Nat.le_max_r (sdepth k) (sdepth v))). lia.
  - cbn [ty_depth idl_depth sdepth structs_of] in *.
    set (A := fold_right (fun t a => Nat.max (idl_depth t) a) 0 ts).
    set (B := fold_right (fun t a => Nat.max (sdepth t) a) 0 ts).
    enough (fold_right (fun t a => Nat.max (ty_depth t) a) 0 ts <= A + B * S M) by lia.
    apply max_fold_le; [exact (fun _ => 0)|]. intros t Ht.
    rewrite Forall_forall in IH. assert (Ht' : Forall (fun d => Forall (fun p => idl_depth (snd p) <= M) (snd d)) (structs_of t)).
    { apply Forall_forall. intros d Hd. rewrite Forall_forall in H. apply H. apply in_flat_map. eauto. }
    specialize (IH t Ht Ht').
    assert (idl_depth t <= A) by (subst A; clear -Ht; induction ts as [|u ts IHl]; [destruct Ht|]; cbn; destruct Ht as [->|Ht]; [lia|]; specialize (IHl Ht); lia).
    assert (HB : sdepth t <= B) by (subst B; clear -Ht; induction ts as [|u ts IHl]; [destruct Ht|]; cbn; destruct Ht as [->|Ht]; [lia|]; specialize (IHl Ht); lia).
    pose proof (Nat.mul_le_mono_r _ _ (S M) HB). lia.
  - cbn [ty_depth idl_depth sdepth structs_of] in *. inversion H as [|? ? Hfs H']; subst. cbn [snd] in Hfs.
    set (B := fold_right (fun f a => Nat.max (sdepth (snd f)) a) 0 fs).
    enough (fold_right (fun f a => Nat.max (ty_depth (snd f)) a) 0 fs <= M + B * S M) by lia.
    apply max_fold_le; [exact (fun _ => 0)|]. intros f Hf.
    rewrite Forall_forall in IH. assert (Hf' : Forall (fun d => Forall (fun p => idl_depth (snd p) <= M) (snd d)) (structs_of (snd f))).
    { apply Forall_forall. intros d Hd. rewrite Forall_forall in H'. apply H'. apply in_flat_map. eauto. }
    specialize (IH f Hf Hf'). rewrite Forall_forall in Hfs. specialize (Hfs f Hf).
    assert (HB : sdepth (snd f) <= B) by (subst B; clear -Hf; induction fs as [|u gs IHl]; [destruct Hf|]; cbn; destruct Hf as [->|Hf]; [lia|]; specialize (IHl Hf); lia).
    pose proof (Nat.mul_le_mono_r _ _ (S M) HB). lia.
Qed.

Fixpoint ity_depth (t : ity) : nat :=
  match t with
  | IBasic _ | IRef _ => 1
  | IList e => S (ity_depth e)
  | IMap k v => S (Nat.max (ity_depth k) (ity_depth v))
  | ITuple ts => S (fold_right (fun t a => Nat.max (ity_depth t) a) 0 ts)
  end.
Definition scope_md (sc : scope) : nat :=
  fold_right (fun e a => match snd e with
                         | ScStruct _ ms => Nat.max (fold_right (fun m b => Nat.max (ity_depth (snd m)) b) 0 ms) a
                         | ScItf => a end) 0 sc.

Lemma sig_fuel_eq sc t : sig_fuel sc t = (S (List.length sc)) * (S (S (scope_md sc))) + ity_depth t + 1.
Proof. reflexivity. Qed.

Lemma ity_depth_of t : idl_safe t = true -> ity_depth (ity_of t) = idl_depth t.
Proof.
  induction t as [s|t IHt|k v IHk IHv|ts IH|n fs IH] using ty_ind2; intro Hs.
  - destruct s; try discriminate; reflexivity.
  - cbn [idl_safe ity_of ity_depth idl_depth] in *. now rewrite IHt.
  - cbn [idl_safe ity_of ity_depth idl_depth] in *. apply andb_prop in Hs as [Hk Hv]. now rewrite IHk, IHv.
  - assert (Ei : ity_of (TTuple ts) = ITuple (map ity_of ts)) by (destruct ts; [discriminate|reflexivity]).
    assert (Hs' : forallb idl_safe ts = true) by (destruct ts; [discriminate|exact Hs]).
    rewrite Ei. cbn [ity_depth idl_depth]. f_equal. clear Ei Hs.
    induction ts as [|t ts IHl]; [reflexivity|]. inversion IH as [|? ? Ht IH']; subst. cbn [forallb] in Hs'. apply andb_prop in Hs' as [Ha Hb].
    cbn [map fold_right]. rewrite IHl by assumption. f_equal. auto.
  - reflexivity.
Qed.

Lemma scope_md_member sc k n ms m : In (k, ScStruct n ms) sc -> In m ms -> ity_depth (snd m) <= scope_md sc.
Proof.
  intros Hin Hm. induction sc as [|e sc IH]; [destruct Hin|]. cbn [scope_md fold_right]. fold (scope_md sc).
  destruct Hin as [->|Hin].
  - cbn [snd]. assert (ity_depth (snd m) <= fold_right (fun m b => Nat.max (ity_depth (snd m)) b) 0 ms).
    { clear -Hm. induction ms as [|u ms IHl]; [destruct Hm|]. cbn. destruct Hm as [->|Hm]; [lia|]. specialize (IHl Hm). lia. }
    lia.
  - specialize (IH Hin). destruct (snd e); lia.
Qed.

Section Fuel.
Variable E : env.
Variable P : list tobject.
Variable St : tset.
Hypothesis HP : package_ok E P.
Hypothesis HE : env_safe E.
Hypothesis HS : set_ok E (map to_name P) St.
Let sc := scope_of (decl_vals E P St) [].

Lemma fields_shallow t : env_ok E t -> covers St t ->
  Forall (fun d => Forall (fun p => idl_depth (snd p) <= scope_md sc) (snd d)) (structs_of t).
Proof.
  intros He Hc. apply Forall_forall. intros [n fs] Hd. cbn [snd]. apply Forall_forall. intros p Hp.
  unfold env_ok in He. rewrite Forall_forall in He. pose proof (He _ Hd) as Hl. cbn in Hl.
  pose proof (scope_struct E P St n fs HP HS Hl (Hc _ Hd)) as Hsc. fold sc in Hsc. apply lookup_in in Hsc.
  assert (Hsafe : idl_safe (snd p) = true).
  { unfold env_safe in HE. rewrite Forall_forall in HE. pose proof (HE (n, fs) (lookup_in _ _ _ Hl)) as H.
    cbn [fst snd idl_safe] in H. apply andb_prop in H as [_ H]. rewrite forallb_forall in H.
    specialize (H p Hp). now apply andb_prop in H. }
  rewrite <- (ity_depth_of (snd p) Hsafe).
  apply (scope_md_member sc n n (ifields fs) (fst p, ity_of (snd p))); [assumption|].
  unfold ifields. apply in_map_iff. exists p. auto.
Qed.

Lemma names_in_scope t : env_ok E t -> covers St t -> incl (snames t) (map fst sc).
Proof.
  intros He Hc x Hx. unfold snames in Hx. apply in_map_iff in Hx as ([n fs] & <- & Hd). cbn [fst].
  unfold env_ok in He. rewrite Forall_forall in He. pose proof (He _ Hd) as Hl. cbn in Hl.
  pose proof (scope_struct E P St n fs HP HS Hl (Hc _ Hd)) as Hsc. fold sc in Hsc.
  destruct (in_dec string_dec n (map fst sc)) as [Hin|Hn]; [assumption|].
  apply lookup_none_notin in Hn. congruence.
Qed.

Lemma depth_below_fuel t i : env_ok E t -> covers St t -> idl_depth t <= ity_depth i -> ty_depth t < sig_fuel sc i.
Proof.
  intros He Hc Hi. rewrite sig_fuel_eq.
  pose proof (ty_depth_bound (scope_md sc) t (fields_shallow t He Hc)) as H1.
  pose proof (sdepth_names E t He) as H2.
  assert (H3 : List.length (nodup string_dec (snames t)) <= List.length sc).
  { rewrite <- (map_length fst sc). apply NoDup_incl_length; [apply NoDup_nodup|].
    intros x Hx. apply nodup_In in Hx. now apply (names_in_scope t He Hc). }
  assert (sdepth t * S (scope_md sc) <= List.length sc * S (scope_md sc)) by (apply Nat.mul_le_mono_r; lia).
  lia.
Qed.
End Fuel.

(* ================= Part 7: the meta-objects of the parsed package; the theorem ================= *)
Lemma iidl_S f sc t : iidl (S f) sc t =
  let tuple := fix tuple (l : list ity) : option (list string) :=
          match l with
          | [] => Some []
          | m :: r => match iidl f sc m, tuple r with Some a, Some b => Some (a :: b) | _, _ => None end
          end in
  match t with
  | IBasic s => Some (scalar_idl s)
  | IList e => match iidl f sc e with Some a => Some ("Vec<" ++ a ++ ">") | None => None end
  | IMap k v => match iidl f sc k, iidl f sc v with Some a, Some b => Some ("Map<" ++ a ++ "," ++ b ++ ">") | _, _ => None end
  | ITuple ts => match tuple ts with Some l => Some ("Tuple<" ++ join "," l ++ ">") | None => None end
  | IRef n => match lookup n sc with
              | Some (ScStruct name _) => Some name
              | Some ScItf => Some "obj"
              | None => Some ("not found in scope: " ++ n)
              end
  end.
Proof. reflexivity. Qed.

(* SignatureIDL of a parsed type never recurses through the scope: it always answers *)
Lemma iidl_of sc t : idl_safe t = true -> forall f, (idl_depth t < f)%nat -> iidl f sc (ity_of t) <> None.
Proof.
  induction t as [s|t IHt|k v IHk IHv|ts IH|n fs IH] using ty_ind2; intros Hs f Hf;
    (destruct f as [|f]; [lia|]).
  - destruct s; try discriminate; cbn; discriminate.
  - cbn [ity_of]. rewrite iidl_S. cbn zeta. cbn [idl_safe idl_depth] in *.
    specialize (IHt Hs f ltac:(lia)). destruct (iidl f sc (ity_of t)); [discriminate|congruence].
  - cbn [ity_of]. rewrite iidl_S. cbn zeta. cbn [idl_safe idl_depth] in *. apply andb_prop in Hs as [Hk Hv].
    specialize (IHk Hk f ltac:(lia)). specialize (IHv Hv f ltac:(lia)).
    destruct (iidl f sc (ity_of k)); [|congruence]. destruct (iidl f sc (ity_of v)); [discriminate|congruence].
  - assert (Ei : ity_of (TTuple ts) = ITuple (map ity_of ts)) by (destruct ts; [discriminate|reflexivity]).
    assert (Hs' : forallb idl_safe ts = true) by (destruct ts; [discriminate|exact Hs]).
    rewrite Ei, iidl_S. cbn zeta. cbn iota. cbn [idl_depth] in Hf. clear Ei Hs.
    match goal with |- match ?F (map ity_of ts) with _ => _ end <> None =>
      assert (E : F (map ity_of ts) <> None) end.
    { induction ts as [|t l IHl]; [discriminate|].
      inversion IH as [|? ? Ht IH']; subst. cbn [forallb] in Hs'. apply andb_prop in Hs' as [Ha Hb]. cbn [fold_right] in Hf.
      cbn [map]. specialize (Ht Ha f ltac:(lia)). destruct (iidl f sc (ity_of t)); [|congruence].
      specialize (IHl IH' ltac:(lia) Hb).
      match goal with |- match ?X with _ => _ end <> None => destruct X; [discriminate|congruence] end. }
    match goal with |- match ?X with _ => _ end <> None => destruct X; [discriminate|congruence] end.
  - cbn [ity_of]. rewrite iidl_S. cbn zeta. cbn iota. destruct (lookup n sc) as [[]|]; discriminate.
Qed.

Definition norm_m (m : tmethod) : mmethod :=
  {| mm_uid := tm_uid m; mm_name := tm_name m; mm_params := print (TTuple (tm_params m));
     mm_ret := print (tm_ret m); mm_pnames := Some (map fst (snd (method_members m))) |}.
(* what comes back: the same objects, the methods with the parameter names that were written *)
Definition norm_o (o : tobject) : mobject :=
  {| mo_name := to_name o; mo_methods := map norm_m (to_methods o);
     mo_signals := map g_of (to_signals o); mo_props := map g_of (to_props o) |}.

Lemma ity_depth_in i l : In i l -> (ity_depth i <= fold_right (fun t a => Nat.max (ity_depth t) a) 0 l)%nat.
Proof. induction l as [|u l IH]; [intros []|]. cbn. intros [->|H]; [lia|]. specialize (IH H). lia. Qed.

Section Metas.
Variable E : env.
Variable P : list tobject.
Variable St : tset.
Hypothesis HP : package_ok E P.
Hypothesis HE : env_safe E.
Hypothesis HS : set_ok E (map to_name P) St.
Let sc := scope_of (decl_vals E P St) [].

Lemma params_resolve i0 (l : list (string * ty)) :
  Forall (type_ok E) (map snd l) -> Forall (covers St) (map snd l) ->
  tuple_sig (sig_fuel sc (ITuple (i0 ++ map snd (iparams l)))) sc (iparams l) = Some (print (TTuple (map snd l))).
Proof.
  intros Hok Hc. apply tuple_sig_of. apply Forall_forall. intros p Hp.
  rewrite Forall_forall in Hok, Hc. pose proof (in_map snd _ _ Hp) as Hin.
  destruct (Hok _ Hin) as (_ & Hs & He). specialize (Hc _ Hin). repeat split; [assumption| |].
  - now apply (scope_has_covered E P St).
  - apply (depth_below_fuel E P St HP HE HS); [assumption|assumption|].
    rewrite <- (ity_depth_of _ Hs). cbn [ity_depth]. apply le_S. apply ity_depth_in.
    apply in_or_app. right. unfold iparams. rewrite map_map. cbn [snd]. apply in_map_iff. exists p. auto.
Qed.

Lemma meta_methods_ok ms : Forall (method_ok E) ms -> Forall (method_covered St) ms ->
  meta_methods sc (map mentry ms) = Some (map norm_m ms).
Proof.
  induction ms as [|m ms IH]; intros Hok Hc; [reflexivity|].
  inversion Hok as [|? ? Hm Hok']; subst. inversion Hc as [|? ? [Hcp Hcr] Hc']; subst.
  cbn [map mentry meta_methods]. destruct Hm as [Hts Hrt Hname Hu Hu0 Hpn].
  set (l := snd (method_members m)).
  set (f := sig_fuel sc (ITuple (ret_ity (tm_ret m) :: map snd (iparams l)))).
  assert (Hl : map snd l = tm_params m) by apply method_members_snd.
  assert (Hp : tuple_sig f sc (iparams l) = Some (print (TTuple (tm_params m)))).
  { rewrite <- Hl. apply (params_resolve [ret_ity (tm_ret m)]); now rewrite Hl. }
  assert (Hf1 : (1 <= f)%nat) by (subst f; rewrite sig_fuel_eq; lia).
  assert (Hr : isig f sc (ret_ity (tm_ret m)) = Some (print (tm_ret m)) /\ iidl f sc (ret_ity (tm_ret m)) <> None).
  { unfold ret_ity. destruct (String.eqb_spec (print (tm_ret m)) "v") as [Ev|Ev].
    - apply print_v in Ev. rewrite Ev. destruct f; [lia|]. split; [reflexivity|discriminate].
    - destruct Hrt as [Hv|(_ & Hs & He)]; [rewrite Hv in Ev; now elim Ev|].
      assert (Hd : (idl_depth (tm_ret m) <= ity_depth (ITuple (ity_of (tm_ret m) :: map snd (iparams l))))%nat).
      { rewrite <- (ity_depth_of _ Hs). cbn [ity_depth fold_right]. lia. }
      assert (Hfe : f = sig_fuel sc (ITuple (ity_of (tm_ret m) :: map snd (iparams l)))).
      { subst f. unfold ret_ity. destruct (String.eqb_spec (print (tm_ret m)) "v"); [contradiction|reflexivity]. }
      split.
      + apply isig_of; [assumption|now apply (scope_has_covered E P St)|].
        rewrite Hfe. now apply (depth_below_fuel E P St HP HE HS).
      + apply iidl_of; [assumption|]. rewrite Hfe, sig_fuel_eq. lia. }
  destruct Hr as [Hr1 Hr2]. fold l. fold f. rewrite Hr1, Hp.
  destruct (iidl f sc (ret_ity (tm_ret m))); [|congruence].
  rewrite (IH Hok' Hc'). unfold norm_m at 2. fold l. unfold iparams. rewrite map_map. reflexivity.
Qed.

Lemma meta_signals_ok xs : Forall (signal_ok E) xs -> Forall (signal_covered St) xs ->
  meta_signals sc (map gentry xs) = Some (map g_of xs).
Proof.
  induction xs as [|x xs IH]; intros Hok Hc; [reflexivity|].
  inversion Hok as [|? ? Hx Hok']; subst. inversion Hc as [|? ? Hcx Hc']; subst.
  cbn [map gentry meta_signals]. destruct Hx as [Hts Hname Hu Hu0].
  set (l := tuple_fields 0 (tg_params x)).
  assert (Hl : map snd l = tg_params x) by apply tuple_fields_snd.
  pose proof (params_resolve [] l ltac:(now rewrite Hl) ltac:(now rewrite Hl)) as Hp. cbn [app] in Hp.
  rewrite Hp, (IH Hok' Hc'), Hl. reflexivity.
Qed.

Lemma metas_of_app l1 l2 : metas_of sc (l1 ++ l2)%list =
  match metas_of sc l1, metas_of sc l2 with Some a, Some b => Some (a ++ b)%list | _, _ => None end.
Proof.
  induction l1 as [|d l1 IH]; cbn [app metas_of]; [now destruct (metas_of sc l2)|].
  rewrite IH. destruct (meta_of_itf sc d) as [[m|]|]; [| |reflexivity];
    destruct (metas_of sc l1); destruct (metas_of sc l2); reflexivity.
Qed.

Lemma metas_itfs (Q : list tobject) : Forall (object_ok E) Q -> Forall (object_covered St) Q ->
  metas_of sc (map itf_val Q) = Some (map norm_o Q).
Proof.
  induction Q as [|o Q IH]; intros Hok Hc; [reflexivity|].
  inversion Hok as [|? ? Ho Hok']; subst. inversion Hc as [|? ? (C1 & C2 & C3) Hc']; subst.
  cbn [map metas_of]. unfold itf_val at 1. cbn [meta_of_itf].
  destruct Ho as [_ _ Hms Hss Hps _ _ _].
  rewrite (meta_methods_ok _ Hms C1), (meta_signals_ok _ Hss C2), (meta_signals_ok _ Hps C3), (IH Hok' Hc').
  reflexivity.
Qed.

Lemma metas_structs (l : list ival) : Forall (fun v => exists n ms, v = VStruct n ms) l -> metas_of sc l = Some [].
Proof. induction 1 as [|v l (n & ms & ->) HF IH]; [reflexivity|]. cbn [metas_of meta_of_itf]. now rewrite IH. Qed.

Lemma metas_ok : Forall (object_covered St) P -> metas_of sc (decl_vals E P St) = Some (map norm_o P).
Proof.
  intro Hc. unfold decl_vals. rewrite metas_of_app, (metas_itfs P (pk_objs E P HP) Hc), metas_structs.
  - now rewrite app_nil_r.
  - apply Forall_forall. intros v Hv. apply in_flat_map in Hv as (e & _ & Hv).
    destruct (snd (snd e)); [|destruct Hv]. destruct (lookup (fst e) E); [|destruct Hv]. destruct Hv as [<-|[]].
    unfold struct_val. eauto.
Qed.
End Metas.

(* ---------- the theorem ---------- *)
Theorem idl_file_roundtrip : forall E pkg P, package_ok E P -> env_safe E -> is_pkg_name pkg = true ->
  exists text, gen_idl pkg (map o_of P) = Some text /\ parse_idl text = IOk (map norm_o P).
Proof.
  intros E pkg P HP HE Hpkg.
  destruct (gen_idl_ok E pkg P HP) as (St & Hgen & HS & Hcov & _).
  exists (package_text pkg P St). split; [exact Hgen|].
  unfold parse_idl. rewrite (parse_package_ok E pkg P St HP HE Hpkg HS).
  change (is_empty (skip_ws nl)) with true. cbv iota.
  now rewrite (metas_ok E P St HP HE HS Hcov).
Qed.

Lemma same_methods ms : all2 same_method (map m_of ms) (map norm_m ms) = true.
Proof.
  induction ms as [|m ms IH]; [reflexivity|]. cbn [map all2]. rewrite IH.
  unfold same_method, m_of, norm_m. cbn. now rewrite N.eqb_refl, !String.eqb_refl.
Qed.
Lemma same_signals xs : all2 same_signal (map g_of xs) (map g_of xs) = true.
Proof.
  induction xs as [|x xs IH]; [reflexivity|]. cbn [map all2]. rewrite IH.
  unfold same_signal. now rewrite N.eqb_refl, !String.eqb_refl.
Qed.

(* in the decidable form used for the refutation witnesses *)
Corollary idl_roundtrip_ok : forall E pkg P, package_ok E P -> env_safe E -> is_pkg_name pkg = true ->
  roundtrip_ok pkg (map o_of P) = true.
Proof.
  intros E pkg P HP HE Hpkg. destruct (idl_file_roundtrip E pkg P HP HE Hpkg) as (text & Hg & Hp).
  unfold roundtrip_ok. rewrite Hg, Hp. clear. induction P as [|o P IH]; [reflexivity|].
  cbn [map all2]. rewrite IH. unfold same_object, o_of, norm_o. cbn [mo_name mo_methods mo_signals mo_props].
  now rewrite String.eqb_refl, same_methods, !same_signals.
Qed.

(* ---------- sequences of conversions in one process ----------
   The model of a conversion is a function of the package alone, so the model of a process that
   converts one package after the other is the list of the individual conversions.  Whatever was
   converted before and after (packages with colliding struct names, any other weak input,
   invalid signatures: [before] and [after] are arbitrary), a package that meets the hypotheses of
   the file theorem comes back.  The harness runs such sequences on the implementation in one fresh
   process each and compares every step with [convert] of that step. *)
Definition convert (x : string * list mobject) : option (string * idl_result) :=
  match gen_idl (fst x) (snd x) with
  | Some text => Some (text, parse_idl text)
  | None => None
  end.
Definition convert_seq (l : list (string * list mobject)) : list (option (string * idl_result)) := map convert l.

Theorem idl_sequence_roundtrip : forall (before after : list (string * list mobject)) E pkg P,
  package_ok E P -> env_safe E -> is_pkg_name pkg = true ->
  exists text, nth_error (convert_seq (before ++ (pkg, map o_of P) :: after)) (List.length before)
               = Some (Some (text, IOk (map norm_o P))).
Proof.
  intros before after E pkg P HP HE Hpkg.
  destruct (idl_file_roundtrip E pkg P HP HE Hpkg) as (text & Hg & Hp).
  exists text. unfold convert_seq. rewrite map_app, nth_error_app2 by (rewrite map_length; apply le_n).
  rewrite map_length, Nat.sub_diag. cbn [map nth_error]. unfold convert. cbn [fst snd]. now rewrite Hg, Hp.
Qed.

(* step by step in the decidable form: every step whose package round-trips alone round-trips in the sequence *)
Definition seq_roundtrip_ok (l : list (string * list mobject)) : list bool :=
  map (fun x => roundtrip_ok (fst x) (snd x)) l.
Lemma seq_roundtrip_nth : forall before x after,
  nth_error (seq_roundtrip_ok (before ++ x :: after)) (List.length before) = Some (roundtrip_ok (fst x) (snd x)).
Proof.
  intros. unfold seq_roundtrip_ok. rewrite map_app, nth_error_app2 by (rewrite map_length; apply le_n).
  now rewrite map_length, Nat.sub_diag.
Qed.
