(* SessionLifeProofs.v — the theorems of SessionProofs.v carried over to the lives of
   SessionLife.v: requests arrive in bursts, pooled connections are lost in between.

   The invariant Inv of SessionProofs.v says of a request that has returned client c that c is
   pooled — which stops being true, on purpose, when the connection of c is lost.  The proofs
   therefore run on a RETIRED copy of the state: the requests that returned a client whose
   connection has since been lost (the set D, a proof device: it is not part of the machine) are
   shown to Inv as failed.  Steps of the machine never look at a request that has returned, so the
   machine steps in the same way on both copies (step_retire); a loss adds the lost connection to
   D (inv_lose); new requests are added to both (inv_spawn). *)
From Coq Require Import List Arith Bool Lia.
From QV Require Import Session SessionProofs SessionLife.
Import ListNotations.

Definition set_res (t : thread) (r : tresult) : thread :=
  {| t_eps := t_eps t; t_k := t_k t; t_sel := t_sel t; t_c := t_c t; t_res := r |}.

Definition retire_t (D : list nat) (t : thread) : thread :=
  match t_res t with
  | Returned c => if mem c D then set_res t Failed else t
  | _ => t
  end.

Definition retire (D : list nat) (s : st) : st :=
  {| st_sh := st_sh s; st_thr := map (retire_t D) (st_thr s) |}.

(* the lost connections are closed and the requests that dialed them have returned *)
Definition dead_ok (D : list nat) (s : st) : Prop :=
  forall x, In x D -> ~ In x (s_open (st_sh s)) /\ exists t, nth_error (st_thr s) x = Some t /\ t_res t <> Running.

Definition LInv (s : st) : Prop := exists D, Inv (retire D s) /\ dead_ok D s.

(* ---------- retire ---------- *)

Lemma retire_t_sel D t : t_sel (retire_t D t) = t_sel t.
Proof. unfold retire_t. destruct (t_res t); try reflexivity. destruct (mem c D); reflexivity. Qed.
Lemma retire_t_eps D t : t_eps (retire_t D t) = t_eps t.
Proof. unfold retire_t. destruct (t_res t); try reflexivity. destruct (mem c D); reflexivity. Qed.

Lemma retire_t_running D t : t_res t = Running -> retire_t D t = t.
Proof. unfold retire_t. now intros ->. Qed.

Lemma retire_t_running_inv D t : t_res (retire_t D t) = Running -> t_res t = Running.
Proof. unfold retire_t. destruct (t_res t) eqn:E; try congruence. destruct (mem c D); cbn; congruence. Qed.

Lemma retire_t_done D t : t_res t <> Running -> t_res (retire_t D t) <> Running.
Proof. intros H E. apply H. now apply retire_t_running_inv in E. Qed.

Lemma nth_error_retire D s i :
  nth_error (st_thr (retire D s)) i = option_map (retire_t D) (nth_error (st_thr s) i).
Proof. unfold retire. cbn [st_thr]. apply nth_error_map. Qed.

Lemma all_done_retire D s : all_done (retire D s) = all_done s.
Proof.
  unfold all_done, retire. cbn [st_thr]. induction (st_thr s) as [|t l IH]; [reflexivity|].
  cbn [map forallb]. rewrite IH. f_equal. unfold retire_t.
  destruct (t_res t) eqn:E; try (rewrite E; reflexivity). destruct (mem c D); cbn; [reflexivity | now rewrite E].
Qed.

Lemma upd_map {A} (f : A -> A) i x l : f x = x -> upd i x (map f l) = map f (upd i x l).
Proof. intro H. revert i. induction l as [|y l IH]; intros [|i]; cbn; try reflexivity; [now rewrite H | now rewrite IH]. Qed.

Lemma retire_cons x D t : retire_t (x :: D) t = retire_t [x] (retire_t D t).
Proof.
  unfold retire_t. destruct (t_res t) eqn:E; try (rewrite E; reflexivity).
  rewrite mem_cons. destruct (mem c D) eqn:Ed.
  - rewrite orb_true_r. reflexivity.
  - rewrite orb_false_r, E. cbn [mem existsb]. now rewrite orb_false_r.
Qed.

(* ---------- steps of the machine ---------- *)

Lemma tstep_running sh i t ch sh' t' : tstep sh i t ch = TNext sh' t' -> t_res t = Running.
Proof. unfold tstep. destruct (t_res t); congruence. Qed.

Lemma tstep_open_sub sh i t ch sh' t' :
  tstep sh i t ch = TNext sh' t' -> forall x, In x (s_open sh') -> In x (s_open sh) \/ x = i.
Proof.
  unfold tstep. destruct (t_res t); try discriminate. destruct (t_k t) as [|ins k]; [discriminate|].
  destruct ins; intro E;
    repeat match goal with
           | H : match ?x with _ => _ end = TNext _ _ |- _ => destruct x eqn:?; try discriminate H
           | H : (if ?x then _ else _) = TNext _ _ |- _ => destruct x eqn:?; try discriminate H
           end; inversion E; subst; cbn; intros x Hx; auto.
  - destruct Hx as [<-|Hx]; auto.
  - left. now apply In_remove_one in Hx.
Qed.

Lemma step_retire D s l s' :
  Inv (retire D s) -> dead_ok D s -> step s l = Run s' ->
  step (retire D s) l = Run (retire D s') /\ dead_ok D s' /\
  (forall t', nth_error (st_thr s') (fst l) = Some t' -> retire_t D t' = t').
Proof.
  intros I Hd E. destruct l as [i ch]. unfold step in E.
  destruct (nth_error (st_thr s) i) as [t|] eqn:Ht; [|discriminate E].
  destruct (tstep (st_sh s) i t ch) as [| |sh' t'] eqn:Et; try discriminate E. inversion E; subst s'; clear E.
  pose proof (tstep_running _ _ _ _ _ _ Et) as Er.
  assert (HtR : nth_error (st_thr (retire D s)) i = Some t).
  { rewrite nth_error_retire, Ht. cbn. now rewrite retire_t_running. }
  assert (Hnot : retire_t D t' = t').
  { unfold retire_t. destruct (t_res t') as [| |c|] eqn:Er'; try reflexivity.
    destruct (mem c D) eqn:Ed; [exfalso|reflexivity].
    pose proof (tstep_inv (retire D s) i t ch sh' t' I HtR Et) as I'.
    pose proof (inv_thr _ I' i t' (nth_error_upd_eq _ _ _ _ HtR)) as [_ Hok]. rewrite Er' in Hok.
    destruct Hok as [_ [_ [Hp _]]]. specialize (Hp c eq_refl). apply pooled_in_true_iff in Hp.
    destruct Hp as [a [_ Hl]]. destruct (inv_pool _ I' a c (lookup_In _ _ _ Hl)) as [_ [_ [_ Hm]]].
    cbn [st_sh] in Hm. apply mem_true_iff in Hm. apply mem_true_iff in Ed. destruct (Hd c Ed) as [Hno [u [Hu Hur]]].
    destruct (tstep_open_sub _ _ _ _ _ _ Et c Hm) as [Ho| ->]; [now apply Hno|]. rewrite Ht in Hu. inversion Hu; subst u. now apply Hur. }
  split; [|split].
  - unfold step. rewrite HtR. change (st_sh (retire D s)) with (st_sh s). rewrite Et. f_equal.
    unfold retire. cbn [st_sh st_thr]. f_equal. now apply upd_map.
  - intros x Hx. destruct (Hd x Hx) as [Hno [u [Hu Hur]]]. cbn [st_sh st_thr].
    assert (Hxi : x <> i) by (intros ->; rewrite Ht in Hu; inversion Hu; subst u; now apply Hur).
    split.
    + intro Ho. destruct (tstep_open_sub _ _ _ _ _ _ Et x Ho) as [Ho'|Hx']; [now apply Hno | now apply Hxi].
    + exists u. split; [|exact Hur]. rewrite nth_error_upd_neq by congruence. exact Hu.
  - cbn [fst st_thr]. intros t0 H0. rewrite (nth_error_upd_eq _ _ _ _ Ht) in H0. inversion H0; subst t0. exact Hnot.
Qed.

Lemma step_retire_fatal D s l : step s l = Fatal -> step (retire D s) l = Fatal.
Proof.
  destruct l as [i ch]. unfold step. rewrite nth_error_retire.
  destruct (nth_error (st_thr s) i) as [t|] eqn:Ht; [|discriminate]. cbn [option_map].
  destruct (tstep (st_sh s) i t ch) as [| |sh' t'] eqn:Et; try discriminate. intros _.
  assert (Er : t_res t = Running) by (unfold tstep in Et; destruct (t_res t); congruence).
  rewrite (retire_t_running D t Er). change (st_sh (retire D s)) with (st_sh s). now rewrite Et.
Qed.

(* the machine can step on the state when it can on the retired copy *)
Lemma step_unretire D s l r : step (retire D s) l = Run r -> exists s', step s l = Run s'.
Proof.
  destruct l as [i ch]. unfold step. rewrite nth_error_retire.
  destruct (nth_error (st_thr s) i) as [t|] eqn:Ht; [|discriminate]. cbn [option_map].
  change (st_sh (retire D s)) with (st_sh s).
  destruct (tstep (st_sh s) i (retire_t D t) ch) as [| |sh' t'] eqn:Et; try discriminate. intros _.
  pose proof (tstep_running _ _ _ _ _ _ Et) as Er. apply retire_t_running_inv in Er.
  rewrite (retire_t_running D t Er) in Et. rewrite Et. eauto.
Qed.

(* ---------- new requests ---------- *)

Lemma nth_error_some_lt {A} (l : list A) i x : nth_error l i = Some x -> i < List.length l.
Proof. intro H. apply nth_error_Some. congruence. Qed.

Lemma nth_error_app_old {A} (l l' : list A) i x : nth_error l i = Some x -> nth_error (l ++ l') i = Some x.
Proof. intro H. rewrite nth_error_app1; [exact H | now apply nth_error_some_lt in H]. Qed.

Lemma inv_spawn c epss s : clean c -> Inv s -> Inv (spawn c epss s).
Proof.
  intros Hc I. destruct c as [b]. unfold clean in Hc. cbn in Hc. subst b.
  constructor; unfold spawn; cbn [st_sh st_thr].
  - intros w Hw. destruct (inv_wh s I w Hw) as [Hr [t Ht]]. split; [exact Hr|]. exists t. now apply nth_error_app_old.
  - destruct (inv_rh s I) as [Hnd Hex]. split; [exact Hnd|]. intros r Hr. destruct (Hex r Hr) as [t Ht]. exists t. now apply nth_error_app_old.
  - exact (inv_keys s I).
  - intros a x Hin. destruct (inv_pool s I a x Hin) as [t [Ht H]]. exists t. split; [now apply nth_error_app_old | exact H].
  - destruct (inv_open s I) as [Hnd Hex]. split; [exact Hnd|]. intros x Hx. destruct (Hex x Hx) as [t [a [Ht H]]].
    exists t, a. split; [now apply nth_error_app_old | exact H].
  - intros i t Ht. destruct (lt_dec i (List.length (st_thr s))) as [Hlt|Hge].
    + rewrite nth_error_app1 in Ht by exact Hlt. now apply (inv_thr s I).
    + rewrite nth_error_app2 in Ht by lia. apply nth_error_In in Ht. apply in_map_iff in Ht. destruct Ht as [eps [<- _]].
      split; [cbn; discriminate|]. cbn [new_thread t_res t_k]. exists false. split; [intro H; discriminate H|].
      assert (Hm : mode_of (st_sh s) i = MN).
      { unfold mode_of. assert (Hr : mem i (s_rh (st_sh s)) = false).
        { apply mem_false_iff. intro Hin. destruct (inv_rh s I) as [_ Hex]. destruct (Hex i Hin) as [u Hu].
          apply nth_error_some_lt in Hu. lia. }
        rewrite Hr. destruct (s_wh (st_sh s)) as [w|] eqn:Ew; [|reflexivity].
        destruct (inv_wh s I w Ew) as [_ [u Hu]]. apply nth_error_some_lt in Hu.
        replace (w =? i) with false by (symmetry; apply Nat.eqb_neq; lia). reflexivity. }
      assert (Ho : owns_of (st_sh s) i = false).
      { unfold owns_of. replace (mem i (s_open (st_sh s))) with false; [reflexivity|]. symmetry. apply mem_false_iff.
        intro Hin. destruct (inv_open s I) as [_ Hex]. destruct (Hex i Hin) as [u [a [Hu _]]].
        apply nth_error_some_lt in Hu. lia. }
      unfold mk_a. rewrite Hm, Ho. exact check_prog_clean.
Qed.

Lemma retire_spawn D c epss s : retire D (spawn c epss s) = spawn c epss (retire D s).
Proof.
  unfold retire, spawn. cbn [st_sh st_thr]. f_equal. rewrite map_app. f_equal.
  rewrite map_map. apply map_ext. intro eps. reflexivity.
Qed.

Lemma dead_ok_spawn D c epss s : dead_ok D s -> dead_ok D (spawn c epss s).
Proof.
  intros Hd x Hx. destruct (Hd x Hx) as [Hno [t [Ht Hr]]]. split; [exact Hno|].
  exists t. split; [|exact Hr]. unfold spawn. cbn [st_thr]. now apply nth_error_app_old.
Qed.

(* ---------- the loss of a pooled connection ---------- *)

Lemma lookup_remove_key_neq a b p : b <> a -> lookup b (remove_key a p) = lookup b p.
Proof.
  intro H. unfold lookup, remove_key. induction p as [|[k v] p IH]; [reflexivity|]. cbn [filter fst].
  destruct (k =? a) eqn:Ea; cbn [negb].
  - apply Nat.eqb_eq in Ea. subst k. cbn [find fst]. replace (a =? b) with false by (symmetry; apply Nat.eqb_neq; congruence). exact IH.
  - cbn [find fst]. destruct (k =? b); [reflexivity | exact IH].
Qed.

Lemma lookup_remove_key_eq a p : lookup a (remove_key a p) = None.
Proof.
  unfold lookup, remove_key. induction p as [|[k v] p IH]; [reflexivity|]. cbn [filter fst].
  destruct (k =? a) eqn:Ea; cbn [negb]; [exact IH|]. cbn [find fst]. now rewrite Ea.
Qed.

Lemma In_remove_key a b x p : In (b, x) (remove_key a p) <-> In (b, x) p /\ b <> a.
Proof.
  unfold remove_key. rewrite filter_In. cbn [fst]. rewrite negb_true_iff, Nat.eqb_neq. tauto.
Qed.

Lemma NoDup_keys_remove_key a p : NoDup (map fst p) -> NoDup (map fst (remove_key a p)).
Proof.
  unfold remove_key. induction p as [|[k v] p IH]; cbn [map fst filter]; [auto|]. intro H. inversion H as [|? ? Hk Hp]; subst.
  destruct (negb (k =? a)); [|now apply IH]. cbn [map fst]. constructor; [|now apply IH].
  intro Hin. apply Hk. apply in_map_iff in Hin. destruct Hin as [[k' v'] [Hf Hin]]. cbn [fst] in Hf. subst k'.
  apply filter_In in Hin. destruct Hin as [Hin _]. apply in_map_iff. exists (k, v'). auto.
Qed.

Definition lost_sh (a x : nat) (sh : shared) : shared :=
  {| s_rh := []; s_wh := None; s_pool := remove_key a (s_pool sh); s_open := remove_one x (s_open sh) |}.

Lemma lose_spec a s s' :
  lose a s = Run s' ->
  all_done s = true /\ s_wh (st_sh s) = None /\ s_rh (st_sh s) = [] /\
  exists x, lookup a (s_pool (st_sh s)) = Some x /\ s' = {| st_sh := lost_sh a x (st_sh s); st_thr := st_thr s |}.
Proof.
  unfold lose. destruct (all_done s); [|discriminate]. destruct (lookup a (s_pool (st_sh s))) as [x|]; [|discriminate].
  unfold closer_prog, crun, cstep. cbn [with_open s_wh s_rh].
  destruct (s_wh (st_sh s)) eqn:Ew; [discriminate|]. destruct (s_rh (st_sh s)) eqn:Er; [|discriminate].
  cbn [with_wh with_pool s_wh]. intro E. inversion E; subst s'; clear E.
  repeat split; auto. exists x. split; [reflexivity|]. unfold lost_sh, with_wh, with_pool, with_open. cbn. now rewrite Er.
Qed.

Lemma lose_not_fatal a s : lose a s <> Fatal.
Proof.
  unfold lose. destruct (all_done s); [|discriminate]. destruct (lookup a (s_pool (st_sh s))) as [x|]; [|discriminate].
  unfold closer_prog, crun, cstep. cbn [with_open s_wh s_rh].
  destruct (s_wh (st_sh s)); [discriminate|]. destruct (s_rh (st_sh s)); discriminate.
Qed.

Lemma inv_lose a x s :
  Inv s -> all_done s = true -> s_wh (st_sh s) = None -> s_rh (st_sh s) = [] ->
  lookup a (s_pool (st_sh s)) = Some x ->
  Inv {| st_sh := lost_sh a x (st_sh s); st_thr := map (retire_t [x]) (st_thr s) |}.
Proof.
  intros I Hdone Ew Erh Hl.
  pose proof (lookup_In _ _ _ Hl) as Hax.
  destruct (inv_open s I) as [Hnd Hopen].
  assert (Hnth : forall i, nth_error (map (retire_t [x]) (st_thr s)) i = option_map (retire_t [x]) (nth_error (st_thr s) i))
    by (intro i; apply nth_error_map).
  (* an entry for another address is an entry of another connection *)
  assert (Hother : forall b y, In (b, y) (s_pool (st_sh s)) -> b <> a -> y <> x).
  { intros b y Hin Hb ->. destruct (inv_pool s I b x Hin) as [t [Ht [Hs _]]].
    destruct (inv_pool s I a x Hax) as [t2 [Ht2 [Hs2 _]]]. rewrite Ht in Ht2. inversion Ht2; subst t2. congruence. }
  constructor; cbn [st_sh st_thr lost_sh s_wh s_rh s_pool s_open].
  - discriminate.
  - split; [constructor | intros r []].
  - apply NoDup_keys_remove_key. exact (inv_keys s I).
  - intros b y Hin. apply In_remove_key in Hin. destruct Hin as [Hin Hb].
    destruct (inv_pool s I b y Hin) as [t [Ht [Hs Hm]]]. exists (retire_t [x] t). split; [now rewrite Hnth, Ht|].
    split; [now rewrite retire_t_sel|]. rewrite mem_remove_one_neq; [exact Hm | exact (Hother b y Hin Hb)].
  - split; [now apply NoDup_remove_one|]. intros y Hy. apply In_remove_one in Hy. destruct (Hopen y Hy) as [t [b [Ht Hs]]].
    exists (retire_t [x] t), b. split; [now rewrite Hnth, Ht | now rewrite retire_t_sel].
  - intros i t' Ht'. rewrite Hnth in Ht'. destruct (nth_error (st_thr s) i) as [t|] eqn:Ht; [|discriminate Ht'].
    cbn [option_map] in Ht'. inversion Ht'; subst t'; clear Ht'.
    pose proof (inv_thr s I i t Ht) as [Hsel Hok].
    assert (Hnr : t_res t <> Running).
    { unfold all_done in Hdone. rewrite forallb_forall in Hdone. specialize (Hdone t (nth_error_In _ _ Ht)).
      destruct (t_res t); [discriminate Hdone | | |]; discriminate. }
    split; [rewrite retire_t_sel, retire_t_eps; exact Hsel|].
    assert (Hmode : mode_of (lost_sh a x (st_sh s)) i = MN) by reflexivity.
    assert (Hown : owns_of (st_sh s) i = false -> owns_of (lost_sh a x (st_sh s)) i = false).
    { unfold owns_of. cbn [lost_sh s_open s_pool]. intro Ho. destruct (Nat.eq_dec i x) as [->|Hix].
      - now rewrite mem_remove_one_eq.
      - rewrite mem_remove_one_neq by exact Hix. apply andb_false_iff in Ho. destruct Ho as [Ho|Ho]; [now rewrite Ho|].
        apply negb_false_iff in Ho. apply pooled_true_iff in Ho. destruct Ho as [b Hin].
        assert (Hb : b <> a).
        { intros ->. pose proof (In_lookup _ _ _ (inv_keys s I) Hin) as Hl2. congruence. }
        assert (Hp : pooled i (remove_key a (s_pool (st_sh s))) = true).
        { apply pooled_true_iff. exists b. apply In_remove_key. auto. }
        rewrite Hp. cbn. apply andb_false_r. }
    unfold retire_t. destruct (t_res t) as [| |c|] eqn:Er.
    + congruence.
    + rewrite Er. destruct Hok as [_ [Ho _]]. repeat split; auto; congruence.
    + destruct Hok as [_ [Ho [Hp _]]]. specialize (Hp c eq_refl).
      destruct (mem c [x]) eqn:Ecx.
      * cbn [set_res t_res]. repeat split; auto; congruence.
      * rewrite Er. repeat split; auto; try congruence. intros c0 E0. inversion E0; subst c0.
        apply pooled_in_true_iff in Hp. destruct Hp as [b [Hb Hlb]]. apply pooled_in_true_iff. exists b. split; [exact Hb|].
        cbn [lost_sh s_pool]. rewrite lookup_remove_key_neq; [exact Hlb|]. intros ->.
        rewrite Hl in Hlb. inversion Hlb; subst c. cbn in Ecx. rewrite Nat.eqb_refl in Ecx. discriminate.
    + destruct Hok as [_ [_ [_ Hn]]]. congruence.
Qed.

Lemma linv_lose a s s' : LInv s -> lose a s = Run s' -> LInv s'.
Proof.
  intros [D [I Hd]] E. destruct (lose_spec a s s' E) as [Hdone [Ew [Erh [x [Hl ->]]]]].
  exists (x :: D). split.
  - assert (Hr : retire (x :: D) {| st_sh := lost_sh a x (st_sh s); st_thr := st_thr s |} =
                 {| st_sh := lost_sh a x (st_sh (retire D s)); st_thr := map (retire_t [x]) (st_thr (retire D s)) |}).
    { unfold retire. cbn [st_sh st_thr]. f_equal. rewrite map_map. apply map_ext. intro t. apply retire_cons. }
    rewrite Hr. apply inv_lose; auto. now rewrite all_done_retire.
  - destruct (inv_open _ I) as [Hnd _]. cbn [retire st_sh] in Hnd.
    intros y [<-|Hy]; cbn [st_sh st_thr lost_sh s_open].
    + split; [apply mem_false_iff; now apply mem_remove_one_eq|].
      destruct (inv_pool _ I a x (lookup_In _ _ _ Hl)) as [t [Ht _]]. rewrite nth_error_retire in Ht.
      destruct (nth_error (st_thr s) x) as [t0|] eqn:Ht0; [|discriminate Ht]. exists t0. split; [reflexivity|].
      unfold all_done in Hdone. rewrite forallb_forall in Hdone. specialize (Hdone t0 (nth_error_In _ _ Ht0)).
      intro Er. rewrite Er in Hdone. discriminate.
    + destruct (Hd y Hy) as [Hno H]. split; [|exact H]. intro Hin. apply Hno. now apply In_remove_one in Hin.
Qed.

(* ---------- the invariant along every life ---------- *)

Lemma linv_init : LInv linit.
Proof.
  exists []. split.
  - exact (init_inv cfg_clean [] eq_refl).
  - intros x [].
Qed.

Lemma linv_lstep c s e s' : clean c -> LInv s -> lstep c s e = Run s' -> LInv s'.
Proof.
  intros Hc L E. destruct e as [epss|l|a]; cbn [lstep] in E.
  - inversion E; subst s'. destruct L as [D [I Hd]]. exists D. split.
    + rewrite retire_spawn. now apply inv_spawn.
    + now apply dead_ok_spawn.
  - destruct L as [D [I Hd]]. destruct (step_retire D s l s' I Hd E) as [ER [Hd' _]].
    exists D. split; [exact (step_inv _ _ _ I ER) | exact Hd'].
  - exact (linv_lose a s s' L E).
Qed.

Lemma lstep_no_fatal c s e : LInv s -> lstep c s e <> Fatal.
Proof.
  intros [D [I Hd]] E. destruct e as [epss|l|a]; cbn [lstep] in E.
  - discriminate.
  - exact (step_no_fatal _ _ I (step_retire_fatal D s l E)).
  - exact (lose_not_fatal a s E).
Qed.

Theorem lexec_linv c es : clean c -> forall s s', LInv s -> lexec c s es = Run s' -> LInv s'.
Proof.
  intro Hc. induction es as [|e es IH]; intros s s' L E; cbn [lexec] in E; [inversion E; now subst|].
  destruct (lstep c s e) as [s1| |] eqn:Es; try discriminate E. exact (IH s1 s' (linv_lstep c s e s1 Hc L Es) E).
Qed.

Theorem lexec_no_fatal c es : clean c -> forall s, LInv s -> lexec c s es <> Fatal.
Proof.
  intro Hc. induction es as [|e es IH]; intros s L E; cbn [lexec] in E; [discriminate E|].
  destruct (lstep c s e) as [s1| |] eqn:Es; try discriminate E.
  - exact (IH s1 (linv_lstep c s e s1 Hc L Es) E).
  - exact (lstep_no_fatal c s e L Es).
Qed.

(* ---------- C19 over every life ---------- *)

Section Life.
  Variable c : cfg.
  Hypothesis Hclean : clean c.
  Variable es : list lev.

  Theorem life_no_fatal : lexec c linit es <> Fatal.
  Proof. apply lexec_no_fatal; [exact Hclean | exact linv_init]. Qed.

  Variable s : st.
  Hypothesis Hrun : lexec c linit es = Run s.

  Lemma life_linv : LInv s.
  Proof. exact (lexec_linv c es Hclean _ _ linv_init Hrun). Qed.

  Theorem life_one_client_per_address : NoDup (map fst (s_pool (st_sh s))).
  Proof. destruct life_linv as [D [I _]]. exact (inv_keys _ I). Qed.

  (* a client whose connection is still open is the pooled client of one of the addresses of the
     service it was requested for: everybody who asks after a loss shares the new connection,
     and nobody is handed the client of the lost one (next theorem) *)
  Theorem life_live_client_is_pooled i t cl :
    nth_error (st_thr s) i = Some t -> t_res t = Returned cl -> mem cl (s_open (st_sh s)) = true ->
    exists a, In a (t_eps t) /\ lookup a (s_pool (st_sh s)) = Some cl.
  Proof.
    intros Ht Er Hm. destruct life_linv as [D [I Hd]].
    assert (Hnd : mem cl D = false).
    { destruct (mem cl D) eqn:E; [|reflexivity]. apply mem_true_iff in E. destruct (Hd cl E) as [Hno _].
      exfalso. apply Hno. now apply mem_true_iff. }
    assert (HtR : nth_error (st_thr (retire D s)) i = Some t).
    { rewrite nth_error_retire, Ht. cbn. unfold retire_t. now rewrite Er, Hnd. }
    pose proof (inv_thr _ I i t HtR) as [_ Hok]. rewrite Er in Hok. destruct Hok as [_ [_ [Hp _]]].
    specialize (Hp cl eq_refl). now apply pooled_in_true_iff in Hp.
  Qed.

  (* the moment a request returns, the client it returns is a pooled one and its connection is open *)
  Theorem life_request_returns_live_client i ch s' t' cl :
    step s (i, ch) = Run s' -> nth_error (st_thr s') i = Some t' -> t_res t' = Returned cl ->
    mem cl (s_open (st_sh s')) = true /\ exists a, In a (t_eps t') /\ lookup a (s_pool (st_sh s')) = Some cl.
  Proof.
    intros Es Ht' Er. destruct life_linv as [D [I Hd]].
    destruct (step_retire D s (i, ch) s' I Hd Es) as [ER [_ Hsame]]. specialize (Hsame t' Ht').
    pose proof (step_inv _ _ _ I ER) as I'.
    assert (HtR : nth_error (st_thr (retire D s')) i = Some t') by (rewrite nth_error_retire, Ht'; cbn; now rewrite Hsame).
    pose proof (inv_thr _ I' i t' HtR) as [_ Hok]. rewrite Er in Hok. destruct Hok as [_ [_ [Hp _]]].
    specialize (Hp cl eq_refl). apply pooled_in_true_iff in Hp. destruct Hp as [a [Hin Hl]].
    split; [|eauto]. destruct (inv_pool _ I' a cl (lookup_In _ _ _ Hl)) as [_ [_ [_ Hm]]]. exact Hm.
  Qed.

  (* between the bursts every open connection is a pooled one, hence one per address *)
  Theorem life_open_are_pooled x : all_done s = true -> In x (s_open (st_sh s)) -> pooled x (s_pool (st_sh s)) = true.
  Proof.
    intros Hdone Hx. destruct life_linv as [D [I _]].
    destruct (inv_open _ I) as [_ Ho]. destruct (Ho x Hx) as [t [a [Ht _]]].
    pose proof (inv_thr _ I x t Ht) as [_ Hok].
    rewrite <- (all_done_retire D) in Hdone. unfold all_done in Hdone. rewrite forallb_forall in Hdone.
    specialize (Hdone t (nth_error_In _ _ Ht)).
    destruct (t_res t) eqn:Er; try discriminate Hdone; destruct Hok as [_ [Hown _]]; unfold owns_of in Hown;
      apply mem_true_iff in Hx; cbn [retire st_sh] in Hown; rewrite Hx in Hown; cbn in Hown; now apply negb_false_iff in Hown.
  Qed.

  Theorem life_one_connection_per_address x y t u a :
    all_done s = true -> In x (s_open (st_sh s)) -> In y (s_open (st_sh s)) ->
    nth_error (st_thr s) x = Some t -> nth_error (st_thr s) y = Some u ->
    t_sel t = Some a -> t_sel u = Some a -> x = y.
  Proof.
    intros Hdone Hx Hy Ht Hu St Su.
    pose proof (life_open_are_pooled x Hdone Hx) as Px. pose proof (life_open_are_pooled y Hdone Hy) as Py.
    destruct life_linv as [D [I _]].
    apply pooled_true_iff in Px. apply pooled_true_iff in Py. destruct Px as [a1 P1]. destruct Py as [a2 P2].
    destruct (inv_pool _ I a1 x P1) as [t1 [Ht1 [S1 _]]]. destruct (inv_pool _ I a2 y P2) as [u1 [Hu1 [S2 _]]].
    rewrite nth_error_retire, Ht in Ht1. inversion Ht1; subst t1. rewrite nth_error_retire, Hu in Hu1. inversion Hu1; subst u1.
    rewrite retire_t_sel in S1, S2.
    assert (a1 = a) by congruence. assert (a2 = a) by congruence. subst a1 a2.
    pose proof (In_lookup _ _ _ (inv_keys _ I) P1) as L1.
    pose proof (In_lookup _ _ _ (inv_keys _ I) P2) as L2. cbn [retire st_sh] in L1, L2. congruence.
  Qed.

  (* while a request is running some goroutine can step *)
  Theorem life_no_deadlock : all_done s = false -> exists l s', step s l = Run s'.
  Proof.
    intro Hd. destruct life_linv as [D [I _]]. rewrite <- (all_done_retire D) in Hd.
    destruct (no_deadlock _ I Hd) as [l [r E]]. exists l. exact (step_unretire D s l r E).
  Qed.
End Life.

(* a loss makes the session forget the address: the next request for it dials *)
Theorem lose_forgets a s s' : lose a s = Run s' -> lookup a (s_pool (st_sh s')) = None.
Proof.
  intro E. destruct (lose_spec a s s' E) as [_ [_ [_ [x [_ ->]]]]]. cbn [st_sh lost_sh s_pool]. apply lookup_remove_key_eq.
Qed.

(* ---------- a life, computed ---------- *)

(* a request alone runs its 12 instructions (the dial answers at address a) *)
Definition solo (i a : nat) : list lev := repeat (LStep (i, Some a)) 12.

(* a request for a service behind endpoint 0; the connection is lost; another request for it:
   the second request dials again and gets the new client 1, the pool holds it and only its
   connection is open *)
Definition wit_life : list lev := [LSpawn [[0]]] ++ solo 0 0 ++ [LLose 0; LSpawn [[0]]] ++ solo 1 0.
Lemma wit_life_ok :
  exists s, lexec cfg_clean linit wit_life = Run s /\ all_done s = true /\
            s_pool (st_sh s) = [(0, 1)] /\ s_open (st_sh s) = [1] /\
            map t_res (st_thr s) = [Returned 0; Returned 1].
Proof. eexists. vm_compute. repeat split. Qed.
