(* Directory.v — the service directory of bus/directory/directory.go.

   Concrete model: a transliteration of serviceDirectory (the two Go maps [staging] and
   [services] keyed by service id, the counter [lastID]) and of its methods
   RegisterService, UnregisterService, ServiceReady, UpdateServiceInfo, Service, Services,
   MachineId, _socketOfService, with the serviceAdded / serviceRemoved signals each call
   emits.  A Go map is an association list with distinct keys; nothing observable depends
   on the order (proved under the invariants in DirectoryProofs.v), so insertion order is
   used.

   Abstract spec: one registry of entries (info, ready?) and a counter.

   Two behaviours of the pinned code are switches of [cfg]:
     cfg_wrap    lastID is a uint32 and RegisterService increments it unconditionally: after
                 2^32 - 1 registrations the counter wraps and ids are handed out again
                 (the clean model refuses the registration instead);
     cfg_unsync  the methods take no lock; the local Namespace path (Server.NewService,
                 Service.Terminate on the caller's goroutine) runs them concurrently with the
                 mailbox goroutine that serves remote calls.  The concurrent model then
                 splits RegisterService into its name check and its insertion.
   No proofs in this file. *)
From Coq Require Import List NArith Bool String.
From QV Require Import Lin.
Import ListNotations.
Local Open Scope N_scope.

Record cfg := { cfg_unsync : bool; cfg_wrap : bool }.
Definition clean (c : cfg) : Prop := cfg_unsync c = false /\ cfg_wrap c = false.
Definition cfg_clean := {| cfg_unsync := false; cfg_wrap := false |}.
Definition cfg_pinned := {| cfg_unsync := true; cfg_wrap := true |}.

(* ServiceInfo (directory_stub_gen.go) *)
Record info := { i_name : string; i_id : N; i_machine : string; i_pid : N;
                 i_endpoints : list string; i_session : string; i_uid : string }.
Definition with_id (i : info) (id : N) : info :=
  {| i_name := i_name i; i_id := id; i_machine := i_machine i; i_pid := i_pid i;
     i_endpoints := i_endpoints i; i_session := i_session i; i_uid := i_uid i |}.

Definition str_empty (s : string) : bool := match s with EmptyString => true | _ => false end.

(* checkServiceInfo *)
Definition valid_info (i : info) : bool :=
  negb (str_empty (i_name i)) && negb (str_empty (i_machine i)) && negb (i_pid i =? 0) &&
  match i_endpoints i with [] => false | _ => true end &&
  forallb (fun e => negb (str_empty e)) (i_endpoints i).

Inductive dop :=
| ORegister (i : info) | OUnregister (id : N) | OReady (id : N) | OUpdate (i : info)
| OService (n : string) | OServices | OMachineId | OSocket (id : N)
| OResolve (n : string).   (* directoryNamespace.Resolve: Service(name), projected to the id *)
Inductive dres :=
| RId (id : N) | ROk | RErr | RInfo (i : info) | RList (l : list info) | RMachine.
Inductive devent := EvAdded (id : N) (n : string) | EvRemoved (id : N) (n : string).

Definition W32 : N := 4294967296.

(* ---------- Go maps ---------- *)
Definition cmap := list (N * info).
Fixpoint mget (k : N) (m : cmap) : option info :=
  match m with [] => None | (k', v) :: r => if k' =? k then Some v else mget k r end.
Definition mdel (k : N) (m : cmap) : cmap := filter (fun p => negb (fst p =? k)) m.
Fixpoint mset (k : N) (v : info) (m : cmap) : cmap :=
  match m with
  | [] => [(k, v)]
  | (k', v') :: r => if k' =? k then (k, v) :: r else (k', v') :: mset k v r
  end.
Definition has_name (n : string) (m : cmap) : bool := existsb (fun p => String.eqb (i_name (snd p)) n) m.
Definition find_name (n : string) (m : cmap) : option (N * info) :=
  find (fun p => String.eqb (i_name (snd p)) n) m.

(* sort.Sort(serviceList(list)): by ServiceId *)
Fixpoint insert_info (x : info) (l : list info) : list info :=
  match l with
  | [] => [x]
  | y :: r => if i_id x <=? i_id y then x :: l else y :: insert_info x r
  end.
Fixpoint isort (l : list info) : list info :=
  match l with [] => [] | x :: r => insert_info x (isort r) end.

(* ---------- concrete state and methods ---------- *)
Record cstate := { staging : cmap; services : cmap; lastID : N }.
Definition cinit : cstate := {| staging := []; services := []; lastID := 0 |}.

Definition out (S : Type) := (S * dres * list devent)%type.

(* RegisterService up to and including the two name loops *)
Definition reg_check (c : cstate) (i : info) : bool :=
  valid_info i && negb (has_name (i_name i) (staging c)) && negb (has_name (i_name i) (services c)).
(* s.lastID++ ; newInfo.ServiceId = s.lastID ; s.staging[s.lastID] = newInfo *)
Definition reg_commit (g : cfg) (c : cstate) (i : info) : out cstate :=
  if negb (cfg_wrap g) && (W32 <=? lastID c + 1) then (c, RErr, [])
  else
    let id := (lastID c + 1) mod W32 in
    ({| staging := mset id (with_id i id) (staging c); services := services c; lastID := id |}, RId id, []).

Definition c_register (g : cfg) (c : cstate) (i : info) : out cstate :=
  if reg_check c i then reg_commit g c i else (c, RErr, []).

Definition c_unregister (c : cstate) (id : N) : out cstate :=
  match mget id (services c) with
  | Some i => ({| staging := staging c; services := mdel id (services c); lastID := lastID c |},
               ROk, [EvRemoved id (i_name i)])
  | None =>
      match mget id (staging c) with
      | Some _ => ({| staging := mdel id (staging c); services := services c; lastID := lastID c |}, ROk, [])
      | None => (c, RErr, [])
      end
  end.

Definition c_ready (c : cstate) (id : N) : out cstate :=
  match mget id (staging c) with
  | Some i => ({| staging := mdel id (staging c); services := mset id i (services c); lastID := lastID c |},
               ROk, [EvAdded id (i_name i)])
  | None => (c, RErr, [])
  end.

Definition c_update (c : cstate) (i : info) : out cstate :=
  if valid_info i then
    match mget (i_id i) (services c) with
    | None => (c, RErr, [])
    | Some old =>
        if String.eqb (i_name old) (i_name i)
        then ({| staging := staging c; services := mset (i_id i) i (services c); lastID := lastID c |}, ROk, [])
        else (c, RErr, [])
    end
  else (c, RErr, []).

Definition c_service (c : cstate) (n : string) : out cstate :=
  match find_name n (services c) with
  | Some (_, i) => (c, RInfo i, [])
  | None => (c, RErr, [])
  end.

Definition c_resolve (c : cstate) (n : string) : out cstate :=
  match find_name n (services c) with
  | Some (_, i) => (c, RId (i_id i), [])
  | None => (c, RErr, [])
  end.

Definition c_services (c : cstate) : out cstate := (c, RList (isort (map snd (services c))), []).

Definition cstep (g : cfg) (c : cstate) (o : dop) : out cstate :=
  match o with
  | ORegister i => c_register g c i
  | OUnregister id => c_unregister c id
  | OReady id => c_ready c id
  | OUpdate i => c_update c i
  | OService n => c_service c n
  | OServices => c_services c
  | OMachineId => (c, RMachine, [])
  | OSocket _ => (c, RErr, [])          (* "_socketOfService not yet implemented" *)
  | OResolve n => c_resolve c n
  end.

(* ---------- abstract spec ---------- *)
Record aentry := { a_info : info; a_ready : bool }.
Definition a_id (e : aentry) : N := i_id (a_info e).
Definition a_name (e : aentry) : string := i_name (a_info e).
Record astate := { a_entries : list aentry; a_next : N }.
Definition ainit : astate := {| a_entries := []; a_next := 0 |}.

Definition a_find (id : N) (es : list aentry) : option aentry := find (fun e => a_id e =? id) es.
Definition a_del (id : N) (es : list aentry) : list aentry := filter (fun e => negb (a_id e =? id)) es.
Definition a_has_name (n : string) (es : list aentry) : bool := existsb (fun e => String.eqb (a_name e) n) es.

Definition astep (a : astate) (o : dop) : out astate :=
  let es := a_entries a in
  match o with
  | ORegister i =>
      if valid_info i && negb (a_has_name (i_name i) es) && (a_next a + 1 <? W32)
      then let id := a_next a + 1 in
           ({| a_entries := es ++ [{| a_info := with_id i id; a_ready := false |}]; a_next := id |}, RId id, [])
      else (a, RErr, [])
  | OUnregister id =>
      match a_find id es with
      | Some e => ({| a_entries := a_del id es; a_next := a_next a |}, ROk,
                   if a_ready e then [EvRemoved id (a_name e)] else [])
      | None => (a, RErr, [])
      end
  | OReady id =>
      match a_find id es with
      | Some e => if a_ready e then (a, RErr, [])
                  else ({| a_entries := a_del id es ++ [{| a_info := a_info e; a_ready := true |}];
                           a_next := a_next a |}, ROk, [EvAdded id (a_name e)])
      | None => (a, RErr, [])
      end
  | OUpdate i =>
      if valid_info i then
        match a_find (i_id i) es with
        | Some e => if a_ready e && String.eqb (a_name e) (i_name i)
                    then ({| a_entries := a_del (i_id i) es ++ [{| a_info := i; a_ready := true |}];
                             a_next := a_next a |}, ROk, [])
                    else (a, RErr, [])
        | None => (a, RErr, [])
        end
      else (a, RErr, [])
  | OService n =>
      match find (fun e => a_ready e && String.eqb (a_name e) n) es with
      | Some e => (a, RInfo (a_info e), [])
      | None => (a, RErr, [])
      end
  | OServices => (a, RList (isort (map a_info (filter a_ready es))), [])
  | OMachineId => (a, RMachine, [])
  | OSocket _ => (a, RErr, [])
  | OResolve n =>
      match find (fun e => a_ready e && String.eqb (a_name e) n) es with
      | Some e => (a, RId (a_id e), [])
      | None => (a, RErr, [])
      end
  end.

(* abstraction function: the entries a concrete state stands for *)
Definition abs_entries (c : cstate) : list aentry :=
  map (fun p => {| a_info := snd p; a_ready := false |}) (staging c) ++
  map (fun p => {| a_info := snd p; a_ready := true |}) (services c).

(* ---------- runs ---------- *)
Section Run.
  Variable S : Type.
  Variable step : S -> dop -> out S.
  Fixpoint run (s : S) (ops : list dop) : S * list (dop * dres * list devent) :=
    match ops with
    | [] => (s, [])
    | o :: r => let '(s', res, ev) := step s o in
                let '(s'', tr) := run s' r in (s'', (o, res, ev) :: tr)
    end.
End Run.
Arguments run {S} step s ops.

Definition tr_ids (tr : list (dop * dres * list devent)) : list N :=
  flat_map (fun x => match fst (fst x), snd (fst x) with ORegister _, RId id => [id] | _, _ => [] end) tr.
Definition tr_events (tr : list (dop * dres * list devent)) : list devent := flat_map snd tr.
Definition ev_id (e : devent) : N := match e with EvAdded id _ | EvRemoved id _ => id end.
Definition events_for (id : N) (evs : list devent) : list devent := filter (fun e => ev_id e =? id) evs.

(* The life of one identifier as the results of a run show it: handed out by a successful
   registerService, made visible by a successful serviceReady, ended by a successful
   unregisterService.  These are the transitions the property speaks about. *)
Inductive lifecycle := LNone | LStaged (n : string) | LReady (n : string) | LGone (n : string) (was_ready : bool).
Definition life_step (id : N) (l : lifecycle) (x : dop * dres * list devent) : lifecycle :=
  match x with
  | (ORegister i, RId id', _) => if id' =? id then LStaged (i_name i) else l
  | (OReady id', ROk, _) =>
      if id' =? id then match l with LStaged n => LReady n | _ => l end else l
  | (OUnregister id', ROk, _) =>
      if id' =? id then match l with LStaged n => LGone n false | LReady n => LGone n true | _ => l end else l
  | _ => l
  end.
Definition lifecycle_of (id : N) (tr : list (dop * dres * list devent)) : lifecycle :=
  fold_left (life_step id) tr LNone.
(* the signals that life calls for *)
Definition life_events (id : N) (l : lifecycle) : list devent :=
  match l with
  | LNone | LStaged _ | LGone _ false => []
  | LReady n => [EvAdded id n]
  | LGone n true => [EvAdded id n; EvRemoved id n]
  end.

(* ---------- equality on results (for lin_check and the run files) ---------- *)
Fixpoint list_eqb {A} (f : A -> A -> bool) (a b : list A) : bool :=
  match a, b with
  | [], [] => true
  | x :: a', y :: b' => f x y && list_eqb f a' b'
  | _, _ => false
  end.
Definition info_eqb (a b : info) : bool :=
  String.eqb (i_name a) (i_name b) && (i_id a =? i_id b) && String.eqb (i_machine a) (i_machine b) &&
  (i_pid a =? i_pid b) && list_eqb String.eqb (i_endpoints a) (i_endpoints b) &&
  String.eqb (i_session a) (i_session b) && String.eqb (i_uid a) (i_uid b).
Definition dres_eqb (a b : dres) : bool :=
  match a, b with
  | RId x, RId y => x =? y
  | ROk, ROk | RErr, RErr | RMachine, RMachine => true
  | RInfo x, RInfo y => info_eqb x y
  | RList x, RList y => list_eqb info_eqb x y
  | _, _ => false
  end.
Definition devent_eqb (a b : devent) : bool :=
  match a, b with
  | EvAdded x n, EvAdded y m | EvRemoved x n, EvRemoved y m => (x =? y) && String.eqb n m
  | _, _ => false
  end.

(* step functions in the shape Lin.v wants *)
Definition cstep_r (g : cfg) (c : cstate) (o : dop) : cstate * dres := fst (cstep g c o).
Definition astep_r (a : astate) (o : dop) : astate * dres := fst (astep a o).

(* ---------- the concurrent directory ---------- *)
(* Unsynchronised object: RegisterService is two steps of its thread, the name check
   against the maps as they are then, and the insertion with the counter as it is then.
   (The other methods stay single steps: one split is enough to leave the spec.) *)
Inductive uts := UPend (o : dop) (inv : N) | UMid (i : info) (inv : N) | UDone (o : dop) (inv : N) (r : dres).
Definition umap := list (N * uts).
Fixpoint uget (t : N) (m : umap) : option uts :=
  match m with [] => None | (t', v) :: r => if t' =? t then Some v else uget t r end.
Definition udel (t : N) (m : umap) : umap := filter (fun p => negb (fst p =? t)) m.
Definition uset (t : N) (v : uts) (m : umap) : umap := (t, v) :: udel t m.

Definition ustep (g : cfg) (st : cstate * umap) (e : N * alabel dop dres) : option (cstate * umap) :=
  let '(c, m) := st in
  match e with
  | (u, LInv t o) => match uget t m with None => Some (c, uset t (UPend o u) m) | Some _ => None end
  | (_, LLin t) =>
      match uget t m with
      | Some (UPend (ORegister i) inv) =>
          if reg_check c i then Some (c, uset t (UMid i inv) m)
          else Some (c, uset t (UDone (ORegister i) inv RErr) m)
      | Some (UPend o inv) => let '(c', r, _) := cstep g c o in Some (c', uset t (UDone o inv r) m)
      | Some (UMid i inv) => let '(c', r, _) := reg_commit g c i in Some (c', uset t (UDone (ORegister i) inv r) m)
      | _ => None
      end
  | (_, LRet t r) =>
      match uget t m with
      | Some (UDone _ _ r') => if dres_eqb r r' then Some (c, udel t m) else None
      | _ => None
      end
  end.
Fixpoint urun (g : cfg) (st : cstate * umap) (tr : list (N * alabel dop dres)) : option (cstate * umap) :=
  match tr with
  | [] => Some st
  | e :: r => match ustep g st e with Some st' => urun g st' r | None => None end
  end.
(* a thread may take several LLin steps here; the client-visible history drops them all *)

(* the histories the directory can produce *)
Definition dir_history (g : cfg) (h : list (orec dop dres)) : Prop :=
  exists tr, stamped 0 tr /\ h = ops_of (erase tr) /\
    if cfg_unsync g then exists st', urun g (cinit, []) tr = Some st'
    else exists st', arun (cstep_r g) (cinit, []) tr st'.

(* ---------- the identifiers of a concurrent history ---------- *)
(* the ids the completed registerService calls of a history were handed, in list order *)
Definition hist_ids (h : list (orec dop dres)) : list N :=
  flat_map (fun x => match o_op x, o_ret x with
                     | ORegister _, Some (_, RId id) => [id]
                     | _, _ => []
                     end) h.
Fixpoint nodupb (l : list N) : bool :=
  match l with [] => true | x :: r => negb (existsb (N.eqb x) r) && nodupb r end.
