(* Hostile.v — model of the server side of qiloop as one hostile client sees it (property C12):
     bus/net/endpoint.go  process / dispatch (filter, non-blocking enqueue, "consumer blocked" error), closeWith
     bus/server.go        per-connection consumer goroutine: firewall, Router.Receive
     bus/service.go       serviceImpl.Receive: mailbox lookup, blocking send into the object's mailbox
     bus/mailbox.go       one goroutine per object
     bus/object_stub_gen.go, bus/directory/directory_stub_gen.go  action switch, decoding errors -> error reply, Post rule
     bus/signal.go, bus/object.go  registerEvent / unregisterEvent / terminate / UpdateSignal
   as a labelled transition system.  Queues are bounded, sends into the mailbox block, writes to a
   connection block while its peer does not read (switch write_blocks), mutexes that are held
   while a goroutine is blocked are explicit.  Executable; no proofs here (HostileProofs.v).

   Decoding of arguments is another property (C07): the model is parameterised by a total
   function [cls] giving, for an object kind, an action and a payload, what decoding and the
   method body yield. *)
From QV Require Export Signals.
Local Open Scope N_scope.

Record hcfg := {
  h_dup_relock : bool;    (* addSignalUser on a known id: RemoveHandler -> closer -> RemoveHandler on the held mutex *)
  h_uid_global : bool;    (* ... ids compared without the connection *)
  h_write_blocks : bool;  (* Send blocks for ever when the peer does not read (no write deadline) *)
  h_removed_answers : bool; (* serviceImpl.Remove leaves the mailbox: a terminated object keeps answering *)
  h_other_types_run : bool  (* the stubs switch on the action only: Capability and Cancel frames run the method and are answered *)
}.
Definition hclean (g : hcfg) : Prop := h_dup_relock g = false /\ h_write_blocks g = false.

Definition ConsumerCap : nat := 10.  (* server.handle: make(chan *net.Message, 10) *)
Definition MailboxCap : nat := 10.   (* NewMailBox: make(chan Mail, 10) *)
Definition OutCap : nat := 64.       (* frames a connection buffers while its peer does not read (abstract) *)

Definition T_call : N := 1.
Definition T_post : N := 4.
Definition A_metaObject : N := 2.
Definition A_terminate : N := 3.

(* what decoding the payload and running the method yield *)
Inductive pcls :=
| PBad                       (* argument decoding fails: error reply, also for Post *)
| PArgs (oid sig uid : N)    (* actions 0,1: (objectID, signalID, userID); actions 2,3: objectID *)
| PNoAction                  (* no such action: error reply, also for Post *)
| PFail                      (* the method returns an error *)
| PGood                      (* the method returns a result *)
| PEmit (sig : N).           (* ... after emitting signal sig *)

Inductive okind := KGeneric | KDirectory | KAuth.

Record hframe := { f_type : N; f_svc : N; f_obj : N; f_act : N; f_id : N; f_pl : N }.
Definition readable (f : hframe) : bool := (1 <=? f_type f) && (f_type f <=? 8).
(* the server's filter: Reply, Error, Event, Cancelled are not for it *)
Definition for_server (f : hframe) : bool :=
  negb ((f_type f =? 2) || (f_type f =? 3) || (f_type f =? 5) || (f_type f =? 8)).

Inductive ogor := OIdle | OBlocked (ws : list (nat * dframe)) | ODead.
Record obj := {
  o_svc : N; o_id : N; o_kind : okind;
  o_alive : bool;                    (* still in serviceImpl.objects *)
  o_table : list user;               (* signalHandler.signals *)
  o_mb : list (nat * hframe);        (* mailbox *)
  o_gor : ogor }.
Inductive pgor := PIdle | PBlockedW (d : dframe).
Inductive cgor := CIdle | CHold (o : nat) (f : hframe) | CBlockedW (d : dframe).
Record conn := {
  c_open : bool;
  c_in : list hframe;     (* written by the client, not yet read by the server *)
  c_q : list hframe;      (* the consumer queue of server.handle *)
  c_proc : pgor; c_cons : cgor;
  c_hlock : bool;         (* handlersMutex of the server endpoint held by a goroutine that is blocked *)
  c_out : list dframe;    (* written by the server, not yet read by the client *)
  c_got : list dframe }.  (* read by the client *)
Definition conn0 : conn :=
  {| c_open := true; c_in := []; c_q := []; c_proc := PIdle; c_cons := CIdle; c_hlock := false; c_out := []; c_got := [] |}.

Record hstate := {
  objs : list obj;
  conns : list conn;
  closers : list (nat * N * nat) }.  (* go handler.closeWith(err): (object, user id, connection) *)

Inductive hlabel :=
| HSend (c : nat) (f : hframe)   (* the client writes a frame (an unreadable one stands for garbage or a disconnect) *)
| HRead (c : nat)                (* the client reads one frame *)
| HConnect                       (* a new authenticated connection *)
| LProc (c : nat) | LProcResume (c : nat)
| LCons (c : nat) | LConsPut (c : nat) | LConsResume (c : nat)
| LObj (o : nat) | LObjResume (o : nat)
| LCloser.

Section Model.
Variable cls : okind -> N -> N -> pcls.
Variable g : hcfg.

Definition can_write (x : conn) : bool :=
  negb (h_write_blocks g) || negb (c_open x) || Nat.ltb (List.length (c_out x)) OutCap.

Definition upd_conn (st : hstate) (c : nat) (x : conn) : hstate :=
  {| objs := objs st; conns := set_nth (conns st) c x; closers := closers st |}.
Definition upd_obj (st : hstate) (o : nat) (x : obj) : hstate :=
  {| objs := set_nth (objs st) o x; conns := conns st; closers := closers st |}.

Definition with_out (x : conn) (d : dframe) : conn :=
  if c_open x then
    {| c_open := c_open x; c_in := c_in x; c_q := c_q x; c_proc := c_proc x; c_cons := c_cons x; c_hlock := c_hlock x;
       c_out := c_out x ++ [d]; c_got := c_got x |}
  else x.   (* write on a closed stream: error, nothing sent *)

(* the writes of one goroutine, in order; stops at the first one that would block *)
Fixpoint do_writes (cs : list conn) (ws : list (nat * dframe)) : list conn * list (nat * dframe) :=
  match ws with
  | [] => (cs, [])
  | (c, d) :: r =>
      match nth_error cs c with
      | Some x => if can_write x then do_writes (set_nth cs c (with_out x d)) r else (cs, ws)
      | None => do_writes cs r
      end
  end.

Definition find_obj (st : hstate) (svc ob : N) : option nat :=
  find_idx (fun x => (o_svc x =? svc) && (o_id x =? ob) && (o_alive x || h_removed_answers g)) (objs st).
Definition svc_known (st : hstate) (svc : N) : bool := existsb (fun x => o_svc x =? svc) (objs st).

Definition reply (f : hframe) : dframe := DReply (f_act f) (f_id f).
Definition error (f : hframe) : dframe := DError (f_act f) (f_id f).
Definition answers (f : hframe) (d : dframe) : list dframe := if f_type f =? T_post then [] else [d].

Definition hsame_user (c : nat) (uid : N) (u : user) : bool :=
  (u_uid u =? uid) && (h_uid_global g || Nat.eqb (u_conn u) c).
Definition conn_locked (st : hstate) (c : nat) : bool :=
  match nth_error (conns st) c with Some x => c_hlock x | None => false end.
Definition oid_ok (x : obj) (oid : N) : bool := (oid =? 0) || (oid =? o_id x).

(* what the object's goroutine does with one mail: new object state, its writes, and the
   connection whose handlersMutex it keeps for ever (duplicate id, pinned code); None = it has to
   wait for a mutex held by a blocked goroutine *)
Definition obj_exec (st : hstate) (x : obj) (c : nat) (f : hframe)
  : option (obj * list (nat * dframe) * option nat) :=
  let set t al gor := {| o_svc := o_svc x; o_id := o_id x; o_kind := o_kind x; o_alive := al; o_table := t;
                         o_mb := tl (o_mb x); o_gor := gor |} in
  let same := set (o_table x) (o_alive x) OIdle in
  let k := cls (o_kind x) (f_act f) (f_pl f) in
  match o_kind x with
  | KAuth =>  (* serviceAuthenticate.Receive: a plain Actor, it answers every frame *)
      Some (same, [(c, match k with PGood => reply f | _ => error f end)], None)
  | _ =>
  if negb (h_other_types_run g) && negb ((f_type f =? T_call) || (f_type f =? T_post)) then
    Some (same, [], None)   (* stubObject.Receive: only call and post messages run a method *)
  else
  if f_act f =? A_register then
    match k with
    | PArgs oid sig uid =>
        if negb (oid_ok x oid) then Some (same, [(c, error f)], None) else
        if conn_locked st c then None else
        match find_idx (hsame_user c uid) (o_table x) with
        | None => Some (set (o_table x ++ [{| u_uid := uid; u_sig := sig; u_mid := f_id f; u_conn := c |}]) (o_alive x) OIdle,
                        [(c, reply f)], None)
        | Some i =>
            if h_dup_relock g then
              let e := nth i (o_table x) no_user in
              if conn_locked st (u_conn e) then None
              else Some (set (swap_remove (o_table x) i) (o_alive x) ODead, [], Some (u_conn e))
            else Some (same, [(c, error f)], None)
        end
    | _ => Some (same, [(c, error f)], None)
    end
  else if f_act f =? A_unregister then
    match k with
    | PArgs oid _ uid =>
        if negb (oid_ok x oid) then Some (same, [(c, error f)], None) else
        match find_idx (is_user c uid) (o_table x) with
        | Some i => if conn_locked st c then None
                    else Some (set (swap_remove (o_table x) i) (o_alive x) OIdle, [(c, reply f)], None)
        | None => Some (same, [(c, error f)], None)
        end
    | _ => Some (same, [(c, error f)], None)
    end
  else if f_act f =? A_metaObject then
    match k with
    | PArgs oid _ _ => Some (same, map (pair c) (answers f (if oid_ok x oid then reply f else error f)), None)
    | _ => Some (same, [(c, error f)], None)
    end
  else if f_act f =? A_terminate then
    match k with
    | PArgs oid _ _ =>
        if negb (oid_ok x oid) then Some (same, map (pair c) (answers f (error f)), None) else
        if existsb (fun u => conn_locked st (u_conn u)) (o_table x) then None else
        (* OnTerminate: the subscribers get an Error frame (action = signal, id = their register call), handlers removed *)
        Some (set [] false OIdle,
              map (fun u => (u_conn u, DError (u_sig u) (u_mid u))) (o_table x) ++ map (pair c) (answers f (reply f)), None)
    | _ => Some (same, [(c, error f)], None)
    end
  else
    match k with
    | PBad | PNoAction | PArgs _ _ _ => Some (same, [(c, error f)], None)
    | PFail => Some (same, map (pair c) (answers f (error f)), None)
    | PGood => Some (same, map (pair c) (answers f (reply f)), None)
    | PEmit sig =>
        Some (same, map (fun u => (u_conn u, DEvent sig (u_mid u) 0)) (filter (fun u => u_sig u =? sig) (o_table x))
                    ++ map (pair c) (answers f (reply f)), None)
    end
  end.

Definition set_hlock (x : conn) (b : bool) : conn :=
  {| c_open := c_open x; c_in := c_in x; c_q := c_q x; c_proc := c_proc x; c_cons := c_cons x; c_hlock := b;
     c_out := c_out x; c_got := c_got x |}.
Definition lock_conn (cs : list conn) (oc : option nat) : list conn :=
  match oc with
  | Some c => match nth_error cs c with Some x => set_nth cs c (set_hlock x true) | None => cs end
  | None => cs
  end.

Definition hstep (st : hstate) (l : hlabel) : option hstate :=
  match l with
  | HConnect => Some {| objs := objs st; conns := conns st ++ [conn0]; closers := closers st |}
  | HSend c f =>
      match nth_error (conns st) c with
      | Some x => Some (upd_conn st c {| c_open := c_open x; c_in := c_in x ++ [f]; c_q := c_q x; c_proc := c_proc x;
                                         c_cons := c_cons x; c_hlock := c_hlock x; c_out := c_out x; c_got := c_got x |})
      | None => None
      end
  | HRead c =>
      match nth_error (conns st) c with
      | Some x =>
          match c_out x with
          | d :: r => Some (upd_conn st c {| c_open := c_open x; c_in := c_in x; c_q := c_q x; c_proc := c_proc x;
                                             c_cons := c_cons x; c_hlock := c_hlock x; c_out := r; c_got := c_got x ++ [d] |})
          | [] => None
          end
      | None => None
      end
  | LProc c =>
      match nth_error (conns st) c with
      | Some x =>
          match c_open x, c_proc x, c_hlock x, c_in x with
          | true, PIdle, false, f :: rest =>
              let x1 q p hl := {| c_open := c_open x; c_in := rest; c_q := q; c_proc := p; c_cons := c_cons x; c_hlock := hl;
                                  c_out := c_out x; c_got := c_got x |} in
              if negb (readable f) then
                (* Message.Read fails: closeWith: stream closed, every handler of the endpoint closed by its own goroutine *)
                Some {| objs := objs st;
                        conns := set_nth (conns st) c {| c_open := false; c_in := []; c_q := c_q x; c_proc := PIdle; c_cons := c_cons x;
                                                         c_hlock := false; c_out := c_out x; c_got := c_got x |};
                        closers := closers st ++
                          flat_map (fun io => map (fun u => (fst io, u_uid u, c))
                                                  (filter (fun u => Nat.eqb (u_conn u) c) (o_table (snd io))))
                                   (combine (seq 0 (List.length (objs st))) (objs st)) |}
              else if negb (for_server f) then Some (upd_conn st c (x1 (c_q x) PIdle false))
              else if Nat.ltb (List.length (c_q x)) ConsumerCap then Some (upd_conn st c (x1 (c_q x ++ [f]) PIdle false))
              else if f_type f =? T_call then
                if can_write x then Some (upd_conn st c (with_out (x1 (c_q x) PIdle false) (error f)))
                else Some (upd_conn st c (x1 (c_q x) (PBlockedW (error f)) true))
              else Some (upd_conn st c (x1 (c_q x) PIdle false))
          | _, _, _, _ => None
          end
      | None => None
      end
  | LProcResume c =>
      match nth_error (conns st) c with
      | Some x =>
          match c_proc x with
          | PBlockedW d =>
              if can_write x then
                Some (upd_conn st c (with_out {| c_open := c_open x; c_in := c_in x; c_q := c_q x; c_proc := PIdle; c_cons := c_cons x;
                                                 c_hlock := false; c_out := c_out x; c_got := c_got x |} d))
              else None
          | PIdle => None
          end
      | None => None
      end
  | LCons c =>
      match nth_error (conns st) c with
      | Some x =>
          match c_cons x, c_q x with
          | CIdle, f :: rest =>
              let x1 cg := {| c_open := c_open x; c_in := c_in x; c_q := rest; c_proc := c_proc x; c_cons := cg; c_hlock := c_hlock x;
                              c_out := c_out x; c_got := c_got x |} in
              match find_obj st (f_svc f) (f_obj f) with
              | Some o =>
                  match nth_error (objs st) o with
                  | Some y =>
                      if Nat.ltb (List.length (o_mb y)) MailboxCap then
                        Some {| objs := set_nth (objs st) o {| o_svc := o_svc y; o_id := o_id y; o_kind := o_kind y; o_alive := o_alive y;
                                                               o_table := o_table y; o_mb := o_mb y ++ [(c, f)]; o_gor := o_gor y |};
                                conns := set_nth (conns st) c (x1 CIdle); closers := closers st |}
                      else Some (upd_conn st c (x1 (CHold o f)))
                  | None => None
                  end
              | None =>  (* ErrServiceNotFound / ErrObjectNotFound, written by this goroutine *)
                  if can_write x then Some (upd_conn st c (with_out (x1 CIdle) (error f)))
                  else Some (upd_conn st c (x1 (CBlockedW (error f))))
              end
          | _, _ => None
          end
      | None => None
      end
  | LConsPut c =>
      match nth_error (conns st) c with
      | Some x =>
          match c_cons x with
          | CHold o f =>
              match nth_error (objs st) o with
              | Some y =>
                  if Nat.ltb (List.length (o_mb y)) MailboxCap then
                    Some {| objs := set_nth (objs st) o {| o_svc := o_svc y; o_id := o_id y; o_kind := o_kind y; o_alive := o_alive y;
                                                           o_table := o_table y; o_mb := o_mb y ++ [(c, f)]; o_gor := o_gor y |};
                            conns := set_nth (conns st) c {| c_open := c_open x; c_in := c_in x; c_q := c_q x; c_proc := c_proc x;
                                                             c_cons := CIdle; c_hlock := c_hlock x; c_out := c_out x; c_got := c_got x |};
                            closers := closers st |}
                  else None
              | None => None
              end
          | _ => None
          end
      | None => None
      end
  | LConsResume c =>
      match nth_error (conns st) c with
      | Some x =>
          match c_cons x with
          | CBlockedW d =>
              if can_write x then
                Some (upd_conn st c (with_out {| c_open := c_open x; c_in := c_in x; c_q := c_q x; c_proc := c_proc x; c_cons := CIdle;
                                                 c_hlock := c_hlock x; c_out := c_out x; c_got := c_got x |} d))
              else None
          | _ => None
          end
      | None => None
      end
  | LObj o =>
      match nth_error (objs st) o with
      | Some x =>
          match o_gor x, o_mb x with
          | OIdle, (c, f) :: _ =>
              match obj_exec st x c f with
              | Some (x', ws, lk) =>
                  let '(cs, rest) := do_writes (lock_conn (conns st) lk) ws in
                  let x'' := match rest, o_gor x' with
                             | _ :: _, OIdle => {| o_svc := o_svc x'; o_id := o_id x'; o_kind := o_kind x'; o_alive := o_alive x';
                                                   o_table := o_table x'; o_mb := o_mb x'; o_gor := OBlocked rest |}
                             | _, _ => x'
                             end in
                  Some {| objs := set_nth (objs st) o x''; conns := cs; closers := closers st |}
              | None => None
              end
          | _, _ => None
          end
      | None => None
      end
  | LObjResume o =>
      match nth_error (objs st) o with
      | Some x =>
          match o_gor x with
          | OBlocked ws =>
              let '(cs, rest) := do_writes (conns st) ws in
              if Nat.eqb (List.length rest) (List.length ws) then None else
              Some {| objs := set_nth (objs st) o {| o_svc := o_svc x; o_id := o_id x; o_kind := o_kind x; o_alive := o_alive x;
                                                     o_table := o_table x; o_mb := o_mb x;
                                                     o_gor := match rest with [] => OIdle | _ => OBlocked rest end |};
                      conns := cs; closers := closers st |}
          | _ => None
          end
      | None => None
      end
  | LCloser =>
      match closers st with
      | (o, uid, c) :: r =>
          match nth_error (objs st) o with
          | Some x =>
              let t := match find_idx (is_user c uid) (o_table x) with Some i => swap_remove (o_table x) i | None => o_table x end in
              Some {| objs := set_nth (objs st) o {| o_svc := o_svc x; o_id := o_id x; o_kind := o_kind x; o_alive := o_alive x;
                                                     o_table := t; o_mb := o_mb x; o_gor := o_gor x |};
                      conns := conns st; closers := r |}
          | None => Some {| objs := objs st; conns := conns st; closers := r |}
          end
      | [] => None
      end
  end.

Fixpoint hrun (st : hstate) (tr : list hlabel) : option hstate :=
  match tr with
  | [] => Some st
  | l :: r => match hstep st l with Some st' => hrun st' r | None => None end
  end.

(* everything the server does by itself, in a fixed order, until nothing is enabled *)
Definition hinternal (st : hstate) : list hlabel :=
  [LCloser] ++ map LObjResume (seq 0 (List.length (objs st))) ++ map LObj (seq 0 (List.length (objs st))) ++
  flat_map (fun c => [LProcResume c; LConsResume c; LConsPut c; LCons c; LProc c]) (seq 0 (List.length (conns st))).
Fixpoint hfirst (st : hstate) (ls : list hlabel) : option hstate :=
  match ls with
  | [] => None
  | l :: r => match hstep st l with Some st' => Some st' | None => hfirst st r end
  end.
Fixpoint hsettle (fuel : nat) (st : hstate) : hstate :=
  match fuel with
  | O => st
  | S k => match hfirst st (hinternal st) with Some st' => hsettle k st' | None => st end
  end.

(* the probe: a fresh client asks object o for its meta object.  The schedule needs steps of the
   object's goroutine and of the probe's own connection only. *)
Definition probe_frame (x : obj) (pl : N) : hframe :=
  {| f_type := T_call; f_svc := o_svc x; f_obj := o_id x; f_act := A_metaObject; f_id := 3; f_pl := pl |}.
Definition probe_sched (st : hstate) (o : nat) (x : obj) (pl : N) : list hlabel :=
  let p := List.length (conns st) in
  repeat (LObj o) (List.length (o_mb x)) ++ [HConnect; HSend p (probe_frame x pl); LProc p; LCons p; LObj o].
Definition probe_answered (st : hstate) (p : nat) : bool :=
  match nth_error (conns st) p with
  | Some y => existsb (fun d => match d with DReply a i => (a =? A_metaObject) && (i =? 3) | _ => false end) (c_out y)
  | None => false
  end.

End Model.

(* the server of the harness: service 0 (authentication), the directory (service 1, object 1) and
   one generic object (service 2, object 1) *)
Definition mk_obj (svc id : N) (k : okind) : obj :=
  {| o_svc := svc; o_id := id; o_kind := k; o_alive := true; o_table := []; o_mb := []; o_gor := OIdle |}.
Definition hinit_of (id2 : N) : hstate :=
  {| objs := [mk_obj 0 0 KAuth; mk_obj 1 1 KDirectory; mk_obj 2 1 KGeneric; mk_obj 2 id2 KGeneric]; conns := []; closers := [] |}.
Definition hinit : hstate := hinit_of 77.

(* payload classes as the harness encodes them: the generator knows what it built *)
Definition std_cls (_ : okind) (_ : N) (pl : N) : pcls :=
  match pl mod 8 with
  | 0 => PBad
  | 1 => PGood
  | 2 => PFail
  | 3 => PNoAction
  | 4 => PArgs ((pl / 8) mod 2 ^ 32) ((pl / 2 ^ 35) mod 2 ^ 32) (pl / 2 ^ 67)
  | 5 => PEmit (pl / 8)
  | _ => PBad
  end.
Definition pack_args (oid sig uid : N) : N := 4 + 8 * oid + 2 ^ 35 * sig + 2 ^ 67 * uid.
