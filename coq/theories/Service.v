(* Service.v — executable model of bus/service.go (serviceImpl.Add / Remove / Receive), of the
   mailbox goroutine of bus/mailbox.go, and of the part of the generic object
   (bus/object.go, bus/signal.go, bus/object_stub_gen.go) that an object's lifetime touches:
   the terminate action, registerEvent, the termination notice to subscribers, signal
   emission, and one user method with an execution counter.

   Labelled transition system: one label per region of code between two synchronisation
   points of one goroutine.

     LAddBegin k draws   Service.Add, first critical section: choose the index (0 or the
                         random draws, `draws` is the sequence of rand.Uint32() results the
                         call consumes), install pendingObject and its mailbox
     LAddEnd k ok        Service.Add, second critical section, after obj.Activate returned
                         (ok = Activate returned nil)
     LRemove i           Service.Remove(i): critical section, then OnTerminate of what was there
     LRecv c f           serviceImpl.Receive for frame f from connection c: look the mailbox
                         up, enqueue or answer ErrObjectNotFound
     LDeliver k          the mailbox goroutine of actor k handles the mail at the head of its queue
     LEmit k sg          the implementor of actor k emits signal sg (signalHandler.UpdateSignal)

   `actor` k is the identity of an implementor object of the harness (the thing that has an
   OnTerminate counter and a method-execution counter); actor 0 is the object the service
   was created with (id 1).  Go behaviour that ends the process is explicit: `crashed`.

   The pinned code's defects are behind the switches of `cfg`. *)
From Coq Require Import NArith List Bool String.
Import ListNotations.
Local Open Scope N_scope.

Record cfg := {
  keep_box_on_remove : bool;        (* Remove deletes objects[i] but leaves boxes[i] *)
  zero_index_untested : bool;       (* objects[1] absent: index 0 is taken without a collision test *)
  nil_slot_on_failed_activate : bool; (* Activate failed: objects[i] = nil stays in the map, with the pending mailbox *)
  remove_pending_slot : bool;       (* Remove(i) succeeds on the pendingObject of an Add in progress *)
  terminate_by_index : bool         (* an object's terminate action removes whatever lives under its index now *)
}.
Definition cfg_clean : cfg := {| keep_box_on_remove := false; zero_index_untested := false;
  nil_slot_on_failed_activate := false; remove_pending_slot := false; terminate_by_index := false |}.
Definition cfg_pinned : cfg := {| keep_box_on_remove := true; zero_index_untested := true;
  nil_slot_on_failed_activate := true; remove_pending_slot := true; terminate_by_index := true |}.
Definition clean (c : cfg) : Prop :=
  keep_box_on_remove c = false /\ zero_index_untested c = false /\
  nil_slot_on_failed_activate c = false /\ remove_pending_slot c = false /\ terminate_by_index c = false.

Inductive slot := SPending | SNil | SObj (k : nat).          (* a value of serviceImpl.objects *)
Inductive target := TPending | TObj (k : nat).               (* whom a mailbox goroutine serves *)

Inductive fkind := KCall | KPost.
Inductive faction :=
| AHello                                 (* a method of the user object: counts executions *)
| AUnknown                               (* an action id the user object does not have *)
| ATerminate (arg : N)                   (* action 3, payload = object id *)
| ARegister (arg sg uid : N).            (* action 0, payload = object id, signal id, user id *)
Record frame := { f_kind : fkind; f_obj : N; f_act : faction; f_id : N }.

Definition act_hello : N := 100.
Definition act_unknown : N := 999.
Definition act_num (a : faction) : N :=
  match a with AHello => act_hello | AUnknown => act_unknown | ATerminate _ => 3 | ARegister _ _ _ => 0 end.

Record sub := { su_conn : nat; su_sig : N; su_uid : N; su_mid : N }.

Inductive status := Fresh | Adding (i : N) | Live (i : N) | Failed | Removed.

Record astate := {
  a_status : status;            (* ghost: what the callers of Add/Remove have been told *)
  a_id : option N;              (* objectID received in Activate *)
  a_hooks : N;                  (* OnTerminate calls seen by the implementor *)
  a_execs : N;                  (* executions of the user method *)
  a_subs : list sub;            (* signalHandler.signals, in slice order *)
  a_queue : list (nat * frame)  (* mailbox content: (connection, frame), head first *)
}.

Record state := {
  objects : N -> option slot;
  boxes : N -> option target;
  actors : nat -> astate;
  crashed : bool
}.

Inductive errclass := ENotFound | ETerminated | EWrongID | EActionNotFound | EOther.
Inductive otype := TReply | TError (e : errclass) | TEvent.
Inductive out :=
| OIndex (i : N)                                  (* index chosen by Add *)
| ORet (ok : bool)                                (* error-free return of Add / Remove *)
| OFrame (c : nat) (t : otype) (obj act id : N)   (* frame written to connection c *)
| OPanic.                                         (* nil dereference: the process dies *)

Inductive label :=
| LAddBegin (k : nat) (draws : list N)
| LAddEnd (k : nat) (ok : bool)
| LRemove (i : N)
| LRecv (c : nat) (f : frame)
| LDeliver (k : nat)
| LEmit (k : nat) (sg : N).

(* ---------- maps ---------- *)
Definition upd {A} (m : N -> option A) (i : N) (v : option A) : N -> option A :=
  fun j => if j =? i then v else m j.
Definition updA (m : nat -> astate) (k : nat) (v : astate) : nat -> astate :=
  fun j => if Nat.eqb j k then v else m j.
Definition isSome {A} (o : option A) : bool := match o with Some _ => true | None => false end.

Definition fresh_actor : astate :=
  {| a_status := Fresh; a_id := None; a_hooks := 0; a_execs := 0; a_subs := []; a_queue := [] |}.

(* the service as bus.NewService leaves it: the actor it was created with at id 1 *)
Definition init : state :=
  {| objects := upd (fun _ => None) 1 (Some (SObj 0%nat));
     boxes := upd (fun _ => None) 1 (Some (TObj 0%nat));
     actors := updA (fun _ => fresh_actor) 0%nat
                 {| a_status := Live 1; a_id := Some 1; a_hooks := 0; a_execs := 0; a_subs := []; a_queue := [] |};
     crashed := false |}.

(* ---------- Add ---------- *)
Definition mask31 (d : N) : N := d mod 2 ^ 31.     (* (rand.Uint32() << 1) >> 1 *)

(* the retry loop of Add while objects[1] exists: every colliding draw costs one recursive call *)
Fixpoint first_free (objs : N -> option slot) (draws : list N) : option N :=
  match draws with
  | [] => None
  | d :: r => if isSome (objs (mask31 d)) then first_free objs r else Some (mask31 d)
  end.

Definition choose_index (c : cfg) (objs : N -> option slot) (draws : list N) : option N :=
  if isSome (objs 1) then first_free objs draws
  else if zero_index_untested c then Some 0
  else if isSome (objs 0) then first_free objs draws else Some 0.

Definition set_status (a : astate) (st : status) : astate :=
  {| a_status := st; a_id := a_id a; a_hooks := a_hooks a; a_execs := a_execs a; a_subs := a_subs a; a_queue := a_queue a |}.

Definition add_begin (c : cfg) (s : state) (k : nat) (draws : list N) : option (state * list out) :=
  match a_status (actors s k) with
  | Fresh =>
      match choose_index c (objects s) draws with
      | None => None
      | Some i =>
          Some ({| objects := upd (objects s) i (Some SPending);
                   boxes := upd (boxes s) i (Some TPending);
                   actors := updA (actors s) k (set_status (actors s k) (Adding i));
                   crashed := false |}, [OIndex i])
      end
  | _ => None
  end.

Definition add_end (c : cfg) (s : state) (k : nat) (ok : bool) : option (state * list out) :=
  match a_status (actors s k) with
  | Adding i =>
      let a := actors s k in
      if ok then
        Some ({| objects := upd (objects s) i (Some (SObj k));
                 boxes := upd (boxes s) i (Some (TObj k));
                 actors := updA (actors s) k
                   {| a_status := Live i; a_id := Some i; a_hooks := a_hooks a; a_execs := a_execs a;
                      a_subs := a_subs a; a_queue := a_queue a |};
                 crashed := false |}, [ORet true])
      else
        (* stubObject.Activate ran signal.Activate and impl.Activate before the user object refused *)
        let a' := {| a_status := Failed; a_id := Some i; a_hooks := a_hooks a; a_execs := a_execs a;
                     a_subs := a_subs a; a_queue := a_queue a |} in
        if nil_slot_on_failed_activate c then
          Some ({| objects := upd (objects s) i (Some SNil); boxes := boxes s;
                   actors := updA (actors s) k a'; crashed := false |}, [ORet false])
        else
          Some ({| objects := upd (objects s) i None; boxes := upd (boxes s) i None;
                   actors := updA (actors s) k a'; crashed := false |}, [ORet false])
  | _ => None
  end.

(* ---------- Remove ---------- *)
Definition term_frame (obj : N) (u : sub) : out :=
  OFrame (su_conn u) (TError ETerminated) obj (su_sig u) (su_mid u).

Definition obj_id (a : astate) : N := match a_id a with Some i => i | None => 0 end.

(* OnTerminate of actor k: the implementor's hook, then signalHandler.OnTerminate *)
Definition on_terminate (a : astate) : astate * list out :=
  ({| a_status := Removed; a_id := a_id a; a_hooks := a_hooks a + 1; a_execs := a_execs a;
      a_subs := []; a_queue := a_queue a |},
   map (term_frame (obj_id a)) (a_subs a)).

Inductive rm_result := RmMissing | RmDone | RmPanic.

(* Service.Remove(i): new state, frames sent by OnTerminate, result *)
Definition do_remove (c : cfg) (s : state) (i : N) : state * list out * rm_result :=
  match objects s i with
  | None => (s, [], RmMissing)
  | Some SNil =>      (* delete, unlock, then a method call on a nil interface *)
      ({| objects := upd (objects s) i None;
          boxes := if keep_box_on_remove c then boxes s else upd (boxes s) i None;
          actors := actors s; crashed := true |}, [], RmPanic)
  | Some SPending =>  (* pendingObject.OnTerminate does nothing *)
      if remove_pending_slot c then
        ({| objects := upd (objects s) i None;
            boxes := if keep_box_on_remove c then boxes s else upd (boxes s) i None;
            actors := actors s; crashed := false |}, [], RmDone)
      else (s, [], RmMissing)
  | Some (SObj k) =>
      let '(a', fr) := on_terminate (actors s k) in
      ({| objects := upd (objects s) i None;
          boxes := if keep_box_on_remove c then boxes s else upd (boxes s) i None;
          actors := updA (actors s) k a'; crashed := false |}, fr, RmDone)
  end.

(* what an object's terminate action does: objectTerminator calls Service.Remove(own index) — which
   removes whoever lives there now; with the switch off only the object itself is removed *)
Definition do_remove_self (c : cfg) (s : state) (k : nat) (i : N) : state * list out * rm_result :=
  if terminate_by_index c then do_remove c s i
  else match objects s i with
       | Some (SObj k') => if Nat.eqb k' k then do_remove c s i else (s, [], RmMissing)
       | _ => (s, [], RmMissing)
       end.

Definition remove (c : cfg) (s : state) (i : N) : option (state * list out) :=
  match do_remove c s i with
  | (s', fr, RmMissing) => Some (s', fr ++ [ORet false])
  | (s', fr, RmDone) => Some (s', fr ++ [ORet true])
  | (s', fr, RmPanic) => Some (s', fr ++ [OPanic])
  end.

(* ---------- Receive ---------- *)
Definition reply_to (c : nat) (f : frame) (t : otype) : out :=
  OFrame c t (f_obj f) (act_num (f_act f)) (f_id f).

Definition push_mail (a : astate) (m : nat * frame) : astate :=
  {| a_status := a_status a; a_id := a_id a; a_hooks := a_hooks a; a_execs := a_execs a;
     a_subs := a_subs a; a_queue := a_queue a ++ [m] |}.

Definition recv (s : state) (c : nat) (f : frame) : option (state * list out) :=
  match boxes s (f_obj f) with
  | None => Some (s, [reply_to c f (TError ENotFound)])
  | Some TPending => Some (s, [])      (* pendingObject.Receive: the error is only logged *)
  | Some (TObj k) =>
      Some ({| objects := objects s; boxes := boxes s;
               actors := updA (actors s) k (push_mail (actors s k) (c, f)); crashed := false |}, [])
  end.

(* ---------- the mailbox goroutine ---------- *)
Definition wrong_id (a : astate) (arg : N) : bool :=
  negb (arg =? 0) && (obj_id a <? 2 ^ 31) && negb (arg =? obj_id a).

Definition answer (c : nat) (f : frame) (t : otype) : list out :=
  match f_kind f with KCall => [reply_to c f t] | KPost => [] end.

Definition pop_mail (a : astate) : astate :=
  {| a_status := a_status a; a_id := a_id a; a_hooks := a_hooks a; a_execs := a_execs a;
     a_subs := a_subs a; a_queue := tl (a_queue a) |}.

Definition uid_known (subs : list sub) (uid : N) : bool := existsb (fun u => su_uid u =? uid) subs.

Definition deliver (c : cfg) (s : state) (k : nat) : option (state * list out) :=
  match a_queue (actors s k) with
  | [] => None
  | (cn, f) :: _ =>
      let a := pop_mail (actors s k) in
      let s1 := {| objects := objects s; boxes := boxes s; actors := updA (actors s) k a; crashed := false |} in
      match f_act f with
      | AHello =>
          let a' := {| a_status := a_status a; a_id := a_id a; a_hooks := a_hooks a; a_execs := a_execs a + 1;
                       a_subs := a_subs a; a_queue := a_queue a |} in
          Some ({| objects := objects s; boxes := boxes s; actors := updA (actors s) k a'; crashed := false |},
                answer cn f TReply)
      | AUnknown => Some (s1, [reply_to cn f (TError EActionNotFound)])   (* SendError whatever the type *)
      | ATerminate arg =>
          if wrong_id a arg then Some (s1, answer cn f (TError EWrongID))
          else
            match do_remove_self c s1 k (obj_id a) with
            | (s2, fr, RmPanic) => Some (s2, fr ++ [OPanic])
            | (s2, fr, _) => Some (s2, fr ++ answer cn f TReply)     (* Remove's error is dropped *)
            end
      | ARegister arg sg uid =>
          if wrong_id a arg then Some (s1, [reply_to cn f (TError EOther)])
          else if uid_known (a_subs a) uid then None   (* outside this model: C12/C13 *)
          else
            let a' := {| a_status := a_status a; a_id := a_id a; a_hooks := a_hooks a; a_execs := a_execs a;
                         a_subs := a_subs a ++ [{| su_conn := cn; su_sig := sg; su_uid := uid; su_mid := f_id f |}];
                         a_queue := a_queue a |} in
            Some ({| objects := objects s; boxes := boxes s; actors := updA (actors s) k a'; crashed := false |},
                  [reply_to cn f TReply])
      end
  end.

(* ---------- signal emission by the implementor ---------- *)
Definition emit (s : state) (k : nat) (sg : N) : option (state * list out) :=
  match a_id (actors s k) with
  | None => None
  | Some i =>
      Some (s, map (fun u => OFrame (su_conn u) TEvent i sg (su_mid u))
                   (filter (fun u => su_sig u =? sg) (a_subs (actors s k))))
  end.

Definition step (c : cfg) (s : state) (l : label) : option (state * list out) :=
  if crashed s then None else
  match l with
  | LAddBegin k draws => add_begin c s k draws
  | LAddEnd k ok => add_end c s k ok
  | LRemove i => remove c s i
  | LRecv cn f => recv s cn f
  | LDeliver k => deliver c s k
  | LEmit k sg => emit s k sg
  end.

Fixpoint run (c : cfg) (s : state) (tr : list label) : option (state * list out) :=
  match tr with
  | [] => Some (s, [])
  | l :: r =>
      match step c s l with
      | None => None
      | Some (s1, o1) =>
          match run c s1 r with
          | None => None
          | Some (s2, o2) => Some (s2, o1 ++ o2)
          end
      end
  end.

Inductive reach (c : cfg) : state -> Prop :=
| reach_init : reach c init
| reach_step : forall s l s' o, reach c s -> step c s l = Some (s', o) -> reach c s'.

(* number of user-method mails in a queue *)
Definition is_hello (m : nat * frame) : bool := match f_act (snd m) with AHello => true | _ => false end.
Definition hellos (q : list (nat * frame)) : N := N.of_nat (List.length (filter is_hello q)).
(* executions an actor has made or is still committed to make *)
Definition potential (a : astate) : N := a_execs a + hellos (a_queue a).

Definition live (s : state) (k : nat) (i : N) : Prop := a_status (actors s k) = Live i.

(* ---------- what the labels stand for in the source (tied to /repo by ties/TieC16.v) ---------- *)
Local Open Scope string_scope.
(* serviceImpl.Add: LAddBegin = first Lock..Unlock (with the retry and the not-activated exits),
   obj.Activate outside the lock, LAddEnd = second Lock..Unlock *)
Definition add_skeleton : list string :=
  ["Lock"; "Unlock"; "Add"; "Unlock"; "Unlock"; "Activate"; "Lock"; "Unlock"].
(* serviceImpl.Remove: LRemove = Lock..Unlock then OnTerminate outside the lock; last Unlock: not found *)
Definition remove_skeleton : list string := ["Lock"; "Unlock"; "OnTerminate"; "Unlock"].
(* serviceImpl.Receive: LRecv = lookup under RLock, then SendError or the mailbox send *)
Definition receive_skeleton : list string := ["RLock"; "RUnlock"; "SendError"; "send box"].
Definition add_index_expr : string := "(rand.Uint32() << 1) >> 1".
Definition mailbox_cap : nat := 10.
Definition wrong_id_cond : string := "objectID != 0 && o.objectID < (1<<31) && objectID != o.objectID".
Definition act_terminate : N := 3%N.
Definition act_register : N := 0%N.
