(* SessionLife.v — the LIFE of the session's connection pool (property C19): the machine of
   Session.v extended with what happens to the pool between the bursts of requests.

   Three kinds of events:
     LSpawn epss : new requests arrive: one goroutine per entry of epss enters Session.client
                   with that list of endpoint addresses (the addresses the directory lists for
                   its service at that moment: a service that was unregistered and registered
                   again behind another endpoint simply shows up with another address);
     LStep l     : one instruction of one request goroutine (Session.step);
     LLose a     : the pooled connection to address a is lost (the peer closed the socket, the
                   connection was reset, the stream carried garbage, the endpoint was closed
                   locally): the connection leaves the set of open connections and the closer that
                   Session.client registered on its endpoint runs.  The closer is the
                   instruction list `closer_prog` (srcfacts extracts it from the source,
                   ties/TieC19.v proves `f_session_closer = render_closer closer_prog`); it is
                   run by the endpoint's goroutine under the pool's write lock.

   Losses are taken at quiescent points only (every request that was started has returned):
   that is what the harness produces (it waits until the session has noticed the loss before
   the next burst).  A loss in the middle of a burst is not part of the machine.
   No proofs in this file.  Stdlib only. *)
From Coq Require Import List Arith Bool String.
From QV Require Import Session.
Import ListNotations.

(* ---------- the closer ---------- *)

Inductive cinstr := CLock | CDelete | CUnlock.   (* s.pollMutex.Lock() / delete(s.poll, addr) / s.pollMutex.Unlock() *)

Definition closer_prog : list cinstr := [CLock; CDelete; CUnlock].

Local Open Scope string_scope.
Definition render_closer (p : list cinstr) : list string :=
  map (fun i => match i with CLock => "Lock" | CDelete => "delete" | CUnlock => "Unlock" end) p.
Local Close Scope string_scope.

(* delete(s.poll, a) *)
Definition remove_key (a : nat) (p : list (nat * nat)) : list (nat * nat) :=
  filter (fun e => negb (fst e =? a)) p.

Inductive cres := CBlocked | CFatal | CNext (s : shared).

(* one instruction of the closer of the connection x to address a.  The goroutine that runs it
   is not a request goroutine; as holder of the write lock it is recorded under the name of the
   connection it cleans up after (the request that dialed x has returned long ago) *)
Definition cstep (a x : nat) (s : shared) (i : cinstr) : cres :=
  match i with
  | CLock => match s_wh s, s_rh s with
             | None, [] => CNext (with_wh s (Some x))
             | _, _ => CBlocked
             end
  | CDelete => CNext (with_pool s (remove_key a (s_pool s)))
  | CUnlock => match s_wh s with
               | None => CFatal                       (* sync: Unlock of unlocked RWMutex *)
               | Some _ => CNext (with_wh s None)
               end
  end.

Fixpoint crun (a x : nat) (s : shared) (p : list cinstr) : cres :=
  match p with
  | [] => CNext s
  | i :: r => match cstep a x s i with CNext s' => crun a x s' r | o => o end
  end.

(* ---------- events ---------- *)

Inductive lev := LSpawn (epss : list (list nat)) | LStep (l : label) | LLose (a : nat).

Definition spawn (c : cfg) (epss : list (list nat)) (s : st) : st :=
  {| st_sh := st_sh s; st_thr := st_thr s ++ map (new_thread c) epss |}.

(* the connection pooled for address a dies and its closer runs to completion; Stuck when a
   request is still running or no connection is pooled for a (not an event of the system) *)
Definition lose (a : nat) (s : st) : outcome :=
  if all_done s then
    match lookup a (s_pool (st_sh s)) with
    | Some x =>
        match crun a x (with_open (st_sh s) (remove_one x (s_open (st_sh s)))) closer_prog with
        | CNext sh' => Run {| st_sh := sh'; st_thr := st_thr s |}
        | CFatal => Fatal
        | CBlocked => Stuck
        end
    | None => Stuck
    end
  else Stuck.

Definition lstep (c : cfg) (s : st) (e : lev) : outcome :=
  match e with
  | LSpawn epss => Run (spawn c epss s)
  | LStep l => step s l
  | LLose a => lose a s
  end.

Fixpoint lexec (c : cfg) (s : st) (es : list lev) : outcome :=
  match es with
  | [] => Run s
  | e :: r => match lstep c s e with Run s' => lexec c s' r | o => o end
  end.

(* a session that has just been created: no request yet, empty pool *)
Definition linit : st := {| st_sh := init_sh; st_thr := [] |}.
