(* Value.v — dynamic values: model of type/value/value.go (NewValue and the Write methods). *)
From QV Require Export Wire.
Local Open Scope N_scope.

Definition rawValueMaxSize : N := 10 * 1024 * 1024.

Inductive dkind := KBool | KI8 | KU8 | KI16 | KU16 | KI32 | KU32 | KI64 | KU64 | KF32.

Inductive dval :=
| DNum (k : dkind) (bits : N)     (* BoolValue (0/1), Int8Value ... FloatValue as bit patterns *)
| DStr (s : bytes)
| DList (l : list dval)
| DRaw (b : bytes)
| DVoid
| DOpaque (sig : bytes) (data : bytes).

Section dval_ind2.
  Variable P : dval -> Prop.
  Hypothesis HN : forall k b, P (DNum k b).
  Hypothesis HS : forall s, P (DStr s).
  Hypothesis HL : forall l, Forall P l -> P (DList l).
  Hypothesis HR : forall b, P (DRaw b).
  Hypothesis HV : P DVoid.
  Hypothesis HO : forall s d, P (DOpaque s d).
  Fixpoint dval_ind2 (v : dval) : P v :=
    match v with
    | DNum k b => HN k b | DStr s => HS s | DRaw b => HR b | DVoid => HV | DOpaque s d => HO s d
    | DList l => HL l ((fix go (l : list dval) : Forall P l :=
                          match l with [] => Forall_nil _ | x :: r => Forall_cons _ (dval_ind2 x) (go r) end) l)
    end.
End dval_ind2.

Definition dkind_letter (k : dkind) : string :=
  match k with
  | KBool => "b" | KI8 => "c" | KU8 => "C" | KI16 => "w" | KU16 => "W" | KI32 => "i" | KU32 => "I"
  | KI64 => "l" | KU64 => "L" | KF32 => "f"
  end%string.
Definition dkind_width (k : dkind) : nat :=
  match k with KBool | KI8 | KU8 => 1 | KI16 | KU16 => 2 | KI32 | KU32 | KF32 => 4 | KI64 | KU64 => 8 end%nat.

(* the dispatch table of NewValue: signature text -> what reads the body *)
Inductive dispatch := DKind (k : dkind) | DString | DListM | DRawD | DVoidD | DNested | DOther.
Definition dispatch_table : list (string * dispatch) :=
  [("c", DKind KI8); ("C", DKind KU8); ("w", DKind KI16); ("W", DKind KU16); ("i", DKind KI32);
   ("I", DKind KU32); ("l", DKind KI64); ("L", DKind KU64); ("s", DString); ("b", DKind KBool);
   ("f", DKind KF32); ("[m]", DListM); ("r", DRawD); ("v", DVoidD); ("m", DNested)]%string.
Fixpoint lookup (s : string) (l : list (string * dispatch)) : dispatch :=
  match l with [] => DOther | (k, d) :: r => if String.eqb s k then d else lookup s r end.

Definition sig_bytes (s : string) : bytes := enc_str (bytes_of_string s).

(* Value.Write *)
Fixpoint enc_dval (v : dval) : bytes :=
  match v with
  | DNum k b => sig_bytes (dkind_letter k) ++ le (dkind_width k) b
  | DStr s => sig_bytes "s" ++ enc_str s
  | DList l => sig_bytes "[m]" ++ le 4 (N.of_nat (List.length l)) ++ flat_map enc_dval l
  | DRaw b => sig_bytes "r" ++ le 4 (N.of_nat (List.length b)) ++ b
  | DVoid => sig_bytes "v"
  | DOpaque sg d => enc_str sg ++ d
  end.

Section WithParse.
  Variable parse : string -> option ty.
  Variable c : wcfg.

  (* NewValue.  fuel bounds the nesting of values (each level consumes its 4-byte signature length) *)
  Fixpoint dec_dval (fuel : nat) (bs : bytes) : res (dval * bytes) :=
    match fuel with
    | O => RFuel
    | S f =>
        do '(sg, r) <- read_str bs;
        match lookup (string_of_bytes sg) dispatch_table with
        | DKind KBool => do '(n, r') <- read_num 1 r; ROk (DNum KBool (if n =? 0 then 0 else 1), r')
        | DKind k => do '(n, r') <- read_num (dkind_width k) r; ROk (DNum k n, r')
        | DString => do '(s, r') <- read_str r; ROk (DStr s, r')
        | DListM =>
            do '(n, r') <- read_num 4 r;
            if listValueMaxSize <? n then RErr r'
            else do '(l, r'') <- rep (dec_dval f) n r'; ROk (DList l, r'')
        | DRawD =>
            do '(n, r') <- read_num 4 r;
            if rawValueMaxSize <? n then RErr r'
            else do '(b, r'') <- take_n (N.to_nat n) r'; ROk (DRaw b, r'')
        | DVoidD => ROk (DVoid, r)
        | DNested => dec_dval f r
        | DOther =>
            let sg' := if String.eqb (string_of_bytes sg) "o" then bytes_of_string (print ty_ObjectReference) else sg in
            match parse (string_of_bytes sg') with
            | None => RErr r
            | Some t => do '(d, r') <- sig_read parse c (S (List.length r)) t r; ROk (DOpaque sg' d, r')
            end
        end
    end.

  Definition new_value (bs : bytes) : res (dval * bytes) := dec_dval (S (List.length bs)) bs.
End WithParse.

Fixpoint dval_eqb (a b : dval) : bool :=
  match a, b with
  | DNum k x, DNum k' y => String.eqb (dkind_letter k) (dkind_letter k') && (x =? y)
  | DStr x, DStr y | DRaw x, DRaw y => eqb_bytes x y
  | DVoid, DVoid => true
  | DOpaque s d, DOpaque s' d' => eqb_bytes s s' && eqb_bytes d d'
  | DList l1, DList l2 =>
      (fix go (l1 l2 : list dval) : bool :=
         match l1, l2 with
         | [], [] => true
         | x :: r1, y :: r2 => dval_eqb x y && go r1 r2
         | _, _ => false
         end) l1 l2
  | _, _ => false
  end.
