(* IdlProofs.v — the IDL round trip by layers.
   Layer 1: type expressions.  The IDL name of a type (Type.SignatureIDL, SigParse.idl_name) is
   read back by the type parser as ity_of t, and the references resolve through a scope that
   declares the structs to the signature of t — under the hypotheses idl_safe. *)
From Coq Require Import String Ascii List NArith Bool Arith Lia.
From QV Require Import Sig Peg PegProofs SigParse SigParseProofs Idl.
Import ListNotations.
Local Open Scope string_scope.

Definition is_name_char (c : ascii) : bool := is_alnum_ c || Ascii.eqb c "<".

Lemma follow_char a c r : is_name_char a = true -> follow_idl (String c r) = true -> Ascii.eqb a c = false.
Proof.
  unfold is_name_char, follow_idl. intros Ha Hc. destruct (Ascii.eqb a c) eqn:E; [|reflexivity].
  apply Ascii.eqb_eq in E. subst c. apply andb_prop in Hc as [H1 H2].
  apply orb_prop in Ha as [Ha|Ha]; [now rewrite Ha in H1|now rewrite Ha in H2].
Qed.

Lemma strip_prefix_app_none k : forall n rest, strip_prefix k n = None -> all_chars is_name_char k = true ->
  follow_idl rest = true -> strip_prefix k (n ++ rest) = None.
Proof.
  induction k as [|a k IH]; intros n rest H Hk Hf; [discriminate|].
  cbn in Hk. apply andb_prop in Hk as [Ha Hk]. destruct n as [|b n]; cbn in *.
  - destruct rest as [|c r]; [reflexivity|]. now rewrite (follow_char a c r Ha Hf).
  - destruct (Ascii.eqb a b); [|reflexivity]. now apply IH.
Qed.

Lemma span_app_follow p a rest : all_chars p a = true ->
  match rest with EmptyString => True | String c _ => p c = false end -> span p (a ++ rest) = (a, rest).
Proof.
  intros Ha Hr. destruct rest as [|c r].
  - rewrite sapp_nil_r. apply span_app_nil. now rewrite all_chars_same.
  - apply span_app; [now rewrite all_chars_same|assumption].
Qed.

Lemma follow_not_alnum rest : follow_idl rest = true ->
  match rest with EmptyString => True | String c _ => is_alnum_ c = false end.
Proof. destruct rest as [|c r]; [trivial|]. cbn. intro H. apply andb_prop in H as [H _]. now destruct (is_alnum_ c). Qed.

Lemma struct_name_head n : is_struct_name n = true -> exists c r, n = String c r /\ is_alpha c = true.
Proof.
  intro H. apply is_struct_name_shape in H as [H|(a & b & -> & Ha & Hb)].
  - destruct (is_ident_inv n H) as (c & r & -> & Hc & _). eauto.
  - destruct (is_ident_inv a Ha) as (c & r & -> & Hc & _). cbn. eauto.
Qed.

Lemma skip_ws_name n rest : is_struct_name n = true -> skip_ws (n ++ rest) = n ++ rest.
Proof. intro H. destruct (struct_name_head n H) as (c & r & -> & Hc). cbn [append]. now apply skip_ws_alpha. Qed.

Lemma atom_fail_name k n rest : is_struct_name n = true -> starts_with k n = false ->
  all_chars is_name_char k = true -> follow_idl rest = true -> fst (@atom ival k (n ++ rest)) = Fail.
Proof.
  intros Hn Hk Hc Hf. unfold atom. rewrite skip_ws_name by assumption.
  unfold starts_with in Hk. destruct (strip_prefix k n) eqn:E; [discriminate|].
  now rewrite (strip_prefix_app_none k n rest E Hc Hf).
Qed.

Lemma por_atoms_fail cb ks n rest : is_struct_name n = true -> follow_idl rest = true ->
  existsb (fun k => starts_with k n) ks = false -> forallb (all_chars is_name_char) ks = true ->
  fst (por cb (map (@atom ival) ks) (n ++ rest)) = Fail.
Proof.
  intros Hn Hf. induction ks as [|k ks IH]; cbn [map existsb forallb]; intros He Hc; [reflexivity|].
  apply orb_false_elim in He as [Hk He]. apply andb_prop in Hc as [Hck Hc].
  rewrite por_cons_fail by (now apply atom_fail_name). now apply IH.
Qed.

Lemma type_ident_ok n rest : is_struct_name n = true -> follow_idl rest = true ->
  fst (type_ident (n ++ rest)) = Ok (NTerm n) rest.
Proof.
  intros Hn Hf. pose proof (follow_not_alnum rest Hf) as Hna.
  apply is_struct_name_shape in Hn as [Hn|(a & b & E & Ha & Hb)].
  - destruct (is_ident_inv n Hn) as (c & r & -> & Hc & Hr).
    unfold type_ident. cbn [append]. rewrite skip_ws_alpha by assumption.
    unfold is_alpha_. rewrite Hc. cbn [orb]. rewrite span_app_follow by assumption.
    destruct rest as [|x rest']; [reflexivity|].
    cbn in Hf. apply andb_prop in Hf as [_ Hlt].
    destruct x as [[] [] [] [] [] [] [] []]; try reflexivity. discriminate.
  - destruct (is_ident_inv a Ha) as (c & r & -> & Hc & Hr).
    destruct (is_ident_inv b Hb) as (c2 & r2 & -> & Hc2 & Hr2). subst n.
    unfold type_ident.
    replace ((String c r ++ "<" ++ String c2 r2 ++ ">") ++ rest)
      with (String c (r ++ String "<" ((String c2 r2) ++ String ">" rest))).
    2:{ cbn. f_equal. rewrite !sapp_assoc. cbn. now rewrite !sapp_assoc. }
    rewrite skip_ws_alpha by assumption. unfold is_alpha_. rewrite Hc. cbn [orb].
    rewrite span_app by (rewrite ?all_chars_same; auto).
    rewrite span_app; [reflexivity| |reflexivity].
    rewrite all_chars_same. cbn. now rewrite (alpha_alnum c2 Hc2), Hr2.
Qed.

Definition inode_of (t : ty) : inode := NVal (VType (ity_of t)).

Lemma types_of_nodes_map ts : types_of_nodes (map inode_of ts) = Some (map ity_of ts).
Proof. induction ts as [|t ts IH]; cbn; [reflexivity|now rewrite IH]. Qed.

Lemma itype_S f s : itype (S f) s =
  por (Some nodify_first) [ibasic_type; imap_type (itype f); ituple_type (itype f); ivec_type (itype f); iref_type] s.
Proof. reflexivity. Qed.

Lemma join_cons2 sep x y r : join sep (x :: y :: r) = x ++ sep ++ join sep (y :: r).
Proof. reflexivity. Qed.

(* Many over the members of Tuple<...> *)
Lemma tuple_members (d : iparser) t ts : forall rest n,
  Forall (fun t => forall rest, follow_idl rest = true -> fst (d (idl_name t ++ rest)) = Ok (inode_of t) rest) (t :: ts) ->
  List.length (t :: ts) < n ->
  fst (sep_loop n d (atom ",") (join "," (map idl_name (t :: ts)) ++ String ">" rest)) =
  Ok (map inode_of (t :: ts)) (String ">" rest).
Proof.
  revert t. induction ts as [|u ts IH]; intros t rest n HF Hn; (destruct n; [cbn in Hn; lia|]);
    inversion HF as [|? ? Ht HF']; subst.
  - cbn [map join]. apply (sep_loop_last n d _ _ (inode_of t) (String ">" rest)); [now apply Ht|reflexivity].
  - cbn [map]. rewrite join_cons2, !sapp_assoc. cbn [append].
    set (tl := join "," (idl_name u :: map idl_name ts) ++ String ">" rest).
    rewrite (sep_loop_more n d (atom ",") (idl_name t ++ String "," tl) (inode_of t) (String "," tl) (NTerm ",") tl).
    + subst tl. specialize (IH u rest n). cbn [map] in IH. rewrite IH; [reflexivity|assumption|cbn in Hn |- *; lia].
    + apply Ht. reflexivity.
    + reflexivity.
    + repeat rewrite slen_app. cbn. lia.
Qed.

Lemma join_len_ge ts : List.length ts <= S (String.length (join "," (map idl_name ts))).
Proof.
  induction ts as [|t ts IH]; [cbn; lia|]. destruct ts as [|u ts]; [cbn; lia|].
  cbn [map]. rewrite join_cons2. repeat rewrite slen_app. cbn [map] in IH. cbn [List.length String.length] in *. lia.
Qed.

Lemma no_basic_prefix n : safe_name n = true ->
  is_struct_name n = true /\ existsb (fun k => starts_with k n) idl_basic_names = false /\
  starts_with "Map<" n = false /\ starts_with "Tuple<" n = false /\ starts_with "Vec<" n = false.
Proof.
  unfold safe_name. intro H. repeat (apply andb_prop in H as [H ?]).
  repeat match goal with H : negb _ = true |- _ => apply negb_true_iff in H end. auto.
Qed.

(* nesting of the type expression: a struct is a name, whatever its members *)
Fixpoint idl_depth (t : ty) : nat :=
  match t with
  | TS _ => 1
  | TList t => S (idl_depth t)
  | TMap k v => S (Nat.max (idl_depth k) (idl_depth v))
  | TTuple ts => S (fold_right (fun t a => Nat.max (idl_depth t) a) 0 ts)
  | TStruct _ _ => 1
  end.

Lemma idepth_members ts t : In t ts -> idl_depth t <= fold_right (fun t a => Nat.max (idl_depth t) a) 0 ts.
Proof. induction ts as [|u ts IH]; cbn; [tauto|]. intros [E|H]; [subst; lia|]. specialize (IH H). lia. Qed.

(* layer 1a: the type parser reads the IDL name of a safe type back *)
Lemma itype_name t : idl_safe t = true -> forall f rest, idl_depth t < f -> follow_idl rest = true ->
  fst (itype f (idl_name t ++ rest)) = Ok (inode_of t) rest.
Proof.
  induction t as [s|t IHt|k v IHk IHv|ts IH|n fs IH] using ty_ind2; intros Hs f rest Hf Hfo;
    (destruct f as [|f]; [lia|]); rewrite itype_S.
  - destruct s; try discriminate; reflexivity.
  - cbn [idl_safe idl_depth] in Hs, Hf.
    replace (idl_name (TList t) ++ rest) with (String "V" (String "e" (String "c" (String "<" (idl_name t ++ String ">" rest)))))
      by (cbn; now rewrite sapp_assoc).
    or_skip ltac:(reflexivity). or_skip ltac:(reflexivity). or_skip ltac:(reflexivity).
    apply (por_cons_ok (Some nodify_first) _ _ _ (inode_of (TList t)) rest).
    unfold ivec_type. rewrite pand_fst.
    and_step ltac:(reflexivity).
    and_step ltac:(apply IHt; [assumption|lia|reflexivity]).
    and_step ltac:(reflexivity).
    reflexivity.
  - cbn [idl_safe idl_depth] in Hs, Hf. apply andb_prop in Hs as [Hk Hv].
    replace (idl_name (TMap k v) ++ rest)
      with (String "M" (String "a" (String "p" (String "<" (idl_name k ++ String "," (idl_name v ++ String ">" rest))))))
      by (cbn; rewrite !sapp_assoc; cbn; now rewrite !sapp_assoc).
    or_skip ltac:(reflexivity).
    apply (por_cons_ok (Some nodify_first) _ _ _ (inode_of (TMap k v)) rest).
    unfold imap_type. rewrite pand_fst.
    and_step ltac:(reflexivity).
    and_step ltac:(apply IHk; [assumption|lia|reflexivity]).
    and_step ltac:(reflexivity).
    and_step ltac:(apply IHv; [assumption|lia|reflexivity]).
    and_step ltac:(reflexivity).
    reflexivity.
  - destruct ts as [|t0 ts]; [discriminate|]. cbn [idl_safe idl_depth] in Hs, Hf.
    replace (idl_name (TTuple (t0 :: ts)) ++ rest)
      with (String "T" (String "u" (String "p" (String "l" (String "e" (String "<"
              (join "," (map idl_name (t0 :: ts)) ++ String ">" rest)))))))
      by (cbn [idl_name append]; now rewrite sapp_assoc).
    assert (HF : Forall (fun t => forall rest, follow_idl rest = true -> fst (itype f (idl_name t ++ rest)) = Ok (inode_of t) rest) (t0 :: ts)).
    { rewrite Forall_forall in IH |- *. intros t Hin rest' Hfo'. apply IH; auto.
      - rewrite forallb_forall in Hs. now apply Hs.
      - pose proof (idepth_members (t0 :: ts) t Hin). lia. }
    or_skip ltac:(reflexivity). or_skip ltac:(reflexivity).
    apply (por_cons_ok (Some nodify_first) _ _ _ (inode_of (TTuple (t0 :: ts))) rest).
    unfold ituple_type. rewrite pand_fst.
    and_step ltac:(reflexivity).
    and_step ltac:(rewrite many_sep_fst, tuple_members;
                   [reflexivity|exact HF|
                    rewrite slen_app; pose proof (join_len_ge (t0 :: ts)); cbn [String.length List.length] in *; lia]).
    and_step ltac:(reflexivity).
    cbn [lift and_loop fst docb inodify_tuple]. unfold inodify_list. rewrite types_of_nodes_map.
    cbn [lift inodify_tuple docb]. rewrite tuple_fields_snd. reflexivity.
  - cbn [idl_safe] in Hs. apply andb_prop in Hs as [Hn _].
    destruct (no_basic_prefix n Hn) as (Hsn & Hb & Hm & Ht & Hv).
    cbn [idl_name].
    or_skip ltac:(unfold ibasic_type; apply por_atoms_fail; [assumption|assumption|assumption|reflexivity]).
    or_skip ltac:(unfold imap_type; rewrite pand_fst; and_fail ltac:(apply atom_fail_name; [assumption|assumption|reflexivity|assumption]); reflexivity).
    or_skip ltac:(unfold ituple_type; rewrite pand_fst; and_fail ltac:(apply atom_fail_name; [assumption|assumption|reflexivity|assumption]); reflexivity).
    or_skip ltac:(unfold ivec_type; rewrite pand_fst; and_fail ltac:(apply atom_fail_name; [assumption|assumption|reflexivity|assumption]); reflexivity).
    apply (por_cons_ok (Some nodify_first) _ _ _ (inode_of (TStruct n fs)) rest).
    unfold iref_type. rewrite pand_fst.
    and_step ltac:(now apply type_ident_ok).
    reflexivity.
Qed.

(* layer 1b: the references resolve, through a scope that declares the structs, to the signature *)
Lemma isig_S f sc t : isig (S f) sc t =
  let members := fix members (l : list (string * ity)) : option string :=
          match l with
          | [] => Some ""
          | (_, m) :: r => match isig f sc m, members r with Some a, Some b => Some (a ++ b) | _, _ => None end
          end in
  let tuple := fix tuple (l : list ity) : option string :=
          match l with
          | [] => Some ""
          | m :: r => match isig f sc m, tuple r with Some a, Some b => Some (a ++ b) | _, _ => None end
          end in
  match t with
  | IBasic s => Some (scalar_letter s)
  | IList e => match isig f sc e with Some a => Some ("[" ++ a ++ "]") | None => None end
  | IMap k v => match isig f sc k, isig f sc v with Some a, Some b => Some ("{" ++ a ++ b ++ "}") | _, _ => None end
  | ITuple ts => match tuple ts with Some a => Some ("(" ++ a ++ ")") | None => None end
  | IRef n =>
      match lookup n sc with
      | Some (ScStruct name ms) =>
          match ms with
          | [] => Some ("()<" ++ name ++ ">")
          | _ => match members ms with
                 | Some a => Some ("(" ++ a ++ ")<" ++ name ++ "," ++ join "," (map fst ms) ++ ">")
                 | None => None
                 end
          end
      | Some ScItf => Some "o"
      | None => Some ("()<not found in scope: " ++ n ++ ">")
      end
  end.
Proof. reflexivity. Qed.

Lemma scope_has_tuple sc ts : scope_has sc (TTuple ts) -> Forall (scope_has sc) ts.
Proof. induction ts as [|t ts IH]; cbn; [constructor|]. intros [H1 H2]. constructor; [assumption|now apply IH]. Qed.
Lemma scope_has_struct sc n fs : scope_has sc (TStruct n fs) ->
  lookup n sc = Some (ScStruct n (map (fun f => (fst f, ity_of (snd f))) fs)) /\ Forall (fun f => scope_has sc (snd f)) fs.
Proof.
  cbn. intros [H1 H2]. split; [assumption|]. clear H1.
  induction fs as [|x fs IH]; [constructor|]. destruct H2 as [Hx H2]. constructor; [assumption|now apply IH].
Qed.

Lemma isig_of sc t : idl_safe t = true -> scope_has sc t -> forall f, ty_depth t < f ->
  isig f sc (ity_of t) = Some (print t).
Proof.
  induction t as [s|t IHt|k v IHk IHv|ts IH|n fs IH] using ty_ind2; intros Hs Hsc f Hf;
    (destruct f as [|f]; [lia|]).
  - destruct s; try discriminate; reflexivity.
  - cbn [ity_of]. rewrite isig_S. cbn zeta. cbn [idl_safe ty_depth scope_has] in *.
    rewrite IHt by (assumption || lia). reflexivity.
  - cbn [ity_of]. rewrite isig_S. cbn zeta. cbn [idl_safe ty_depth scope_has] in *.
    apply andb_prop in Hs as [Hk Hv]. destruct Hsc as [Hsk Hsv].
    rewrite IHk, IHv by (assumption || lia). reflexivity.
  - assert (Ei : ity_of (TTuple ts) = ITuple (map ity_of ts)) by (destruct ts; [discriminate|reflexivity]).
    assert (Hs' : forallb idl_safe ts = true) by (destruct ts; [discriminate|exact Hs]).
    clear Hs. cbn [ty_depth] in Hf. apply scope_has_tuple in Hsc.
    rewrite Ei, isig_S. cbn zeta. cbn iota. clear Ei.
    match goal with |- match ?F (map ity_of ts) with _ => _ end = _ =>
      assert (E : F (map ity_of ts) = Some (String.concat "" (map print ts))) end.
    { induction ts as [|t l IHl]; [reflexivity|].
      inversion IH as [|? ? Ht IH']; subst. inversion Hsc as [|? ? Hst Hsc']; subst.
      cbn [forallb] in Hs'. apply andb_prop in Hs' as [Hst' Hs']. cbn [fold_right] in Hf.
      cbn [map]. rewrite Ht by (assumption || lia). rewrite IHl by (assumption || lia).
      now rewrite sconcat_cons. }
    rewrite E. reflexivity.
  - cbn [idl_safe ty_depth] in Hs, Hf. apply andb_prop in Hs as [Hn Hfs].
    apply scope_has_struct in Hsc as [Hl Hsc].
    cbn [ity_of]. rewrite isig_S. cbn zeta. cbn iota. rewrite Hl.
    match goal with |- match ?l0 with [] => _ | _ :: _ => match ?F ?l0 with _ => _ end end = _ =>
      assert (E : F l0 = Some (String.concat "" (map (fun f => print (snd f)) fs))) end.
    { clear Hl. induction fs as [|x l IHl]; [reflexivity|]. destruct x as [a t].
      inversion IH as [|? ? Ht IH']; subst. inversion Hsc as [|? ? Hst Hsc']; subst.
      cbn [forallb fst snd] in Hfs. apply andb_prop in Hfs as [Hx Hfs']. apply andb_prop in Hx as [_ Hst'].
      cbn [fold_right snd] in Hf. cbn [map fst snd] in *.
      rewrite Ht by (assumption || lia). rewrite IHl by (assumption || lia).
      now rewrite sconcat_cons. }
    destruct fs as [|x l]; [reflexivity|]. cbn [map] in E |- *. rewrite E.
    rewrite map_map. cbn [fst]. reflexivity.
Qed.

Lemma safe_name_len n : safe_name n = true -> 1 <= String.length n.
Proof. intro H. destruct (no_basic_prefix n H) as (Hn & _). destruct (struct_name_head n Hn) as (c & r & -> & _). cbn. lia. Qed.

Lemma idl_depth_le_len t : idl_safe t = true -> idl_depth t <= String.length (idl_name t).
Proof.
  induction t as [s|t IHt|k v IHk IHv|ts IH|n fs IH] using ty_ind2; intro Hs.
  - destruct s; cbn; lia.
  - cbn [idl_safe idl_depth idl_name] in *. cbn [append String.length]. rewrite slen_app. specialize (IHt Hs). lia.
  - cbn [idl_safe idl_depth idl_name] in *. apply andb_prop in Hs as [Hk Hv].
    cbn [append String.length]. repeat (rewrite slen_app; cbn [String.length]). specialize (IHk Hk). specialize (IHv Hv). lia.
  - assert (Hs' : forallb idl_safe ts = true) by (destruct ts; [discriminate|exact Hs]).
    cbn [idl_depth idl_name]. cbn [append String.length]. rewrite slen_app.
    assert (fold_right (fun t a => Nat.max (idl_depth t) a) 0 ts <= String.length (join "," (map idl_name ts))).
    { clear Hs. induction ts as [|t ts IHl]; [cbn; lia|].
      inversion IH as [|? ? Ht IH']; subst. cbn [forallb] in Hs'. apply andb_prop in Hs' as [H1 H2].
      specialize (IHl IH' H2). specialize (Ht H1). cbn [fold_right].
      destruct ts as [|u ts]; [cbn in *; lia|]. cbn [map]. rewrite join_cons2. repeat rewrite slen_app. cbn [map] in IHl. lia. }
    lia.
  - cbn [idl_safe] in Hs. apply andb_prop in Hs as [Hn _]. cbn. now apply safe_name_len.
Qed.

(* Layer 1, assembled: the IDL name of a safe type, alone in the input, is read back as a type
   expression whose signature — references resolved through a scope declaring the structs of t —
   is the signature of t *)
Theorem idl_type_roundtrip : forall t sc g, idl_safe t = true -> scope_has sc t -> ty_depth t < g ->
  exists i, fst (itype (S (String.length (idl_name t))) (idl_name t)) = Ok (NVal (VType i)) "" /\
            isig g sc i = Some (print t).
Proof.
  intros t sc g Hs Hsc Hg. exists (ity_of t). split.
  - pose proof (itype_name t Hs (S (String.length (idl_name t))) "") as H. rewrite sapp_nil_r in H.
    apply H; [|reflexivity]. pose proof (idl_depth_le_len t Hs). lia.
  - now apply isig_of.
Qed.

(* ================= Layer 2: action lines ================= *)
(* ---------- decimal numbers ---------- *)
Local Open Scope N_scope.

Lemma N_digits_acc f : forall n acc, N_digits f n acc = (N_digits f n "" ++ acc)%string.
Proof.
  induction f as [|f IH]; intros n acc; [reflexivity|]. cbn [N_digits].
  destruct (n <? 10); [reflexivity|].
  rewrite (IH (n / 10) (String _ acc)), (IH (n / 10) (String _ "")). now rewrite sapp_assoc.
Qed.

Lemma dec_value_app a b acc : dec_value (a ++ b) acc = dec_value b (dec_value a acc).
Proof. revert acc; induction a as [|c a IH]; intro acc; cbn; [reflexivity|apply IH]. Qed.

Lemma digit_char d : d < 10 -> N_of_ascii (ascii_of_N (48 + d)) = 48 + d /\ is_digit (ascii_of_N (48 + d)) = true.
Proof.
  intro H. assert (E : N_of_ascii (ascii_of_N (48 + d)) = 48 + d) by (apply N_ascii_embedding; lia).
  split; [exact E|]. unfold is_digit. rewrite E. apply andb_true_intro. split; apply N.leb_le; lia.
Qed.

Lemma N_digits_spec f : forall n, n < 2 ^ N.of_nat f -> (0 < f)%nat ->
  dec_value (N_digits f n "") 0 = n /\ all_chars is_digit (N_digits f n "") = true /\ N_digits f n "" <> ""%string.
Proof.
  induction f as [|f IH]; intros n Hn Hf; [lia|]. cbn [N_digits].
  assert (Hd : n mod 10 < 10) by (apply N.mod_lt; lia).
  destruct (digit_char (n mod 10) Hd) as [Hc1 Hc2].
  destruct (n <? 10) eqn:E.
  - apply N.ltb_lt in E.
    repeat split; [|cbn [all_chars]; now rewrite Hc2|discriminate].
    cbn [dec_value]. rewrite Hc1. rewrite N.mod_small by lia. lia.
  - apply N.ltb_ge in E. rewrite N_digits_acc.
    assert (Hq : n / 10 < 2 ^ N.of_nat f).
    { replace (N.of_nat (S f)) with (1 + N.of_nat f) in Hn by lia. rewrite N.pow_add_r in Hn. change (2 ^ 1) with 2 in Hn.
      apply N.div_lt_upper_bound; lia. }
    assert (Hf' : (0 < f)%nat).
    { destruct f; [|lia]. cbn in Hq. assert (n / 10 = 0) by lia. apply N.div_small_iff in H; lia. }
    destruct (IH (n / 10) Hq Hf') as (H1 & H2 & H3).
    repeat split.
    + rewrite dec_value_app, H1. cbn [dec_value]. rewrite Hc1. pose proof (N.div_mod n 10 ltac:(lia)) as Hdm. clear -Hdm. set (q := n / 10) in *. set (r := n mod 10) in *. clearbody q r. lia.
    + clear -H2 Hc2. induction (N_digits f (n / 10) "") as [|c s IHs]; cbn [append all_chars] in *; [now rewrite Hc2|].
      apply andb_prop in H2 as [Ha Hb]. now rewrite Ha, IHs.
    + destruct (N_digits f (n / 10) ""); discriminate.
Qed.

Lemma N_to_string_spec n :
  dec_value (N_to_string n) 0 = n /\ all_chars is_digit (N_to_string n) = true /\ N_to_string n <> ""%string.
Proof.
  unfold N_to_string. apply N_digits_spec; [|lia].
  pose proof (N.size_gt n) as H. eapply N.lt_le_trans; [exact H|].
  apply N.pow_le_mono_r; lia.
Qed.

Lemma not_digit_not_space c : is_digit c = true -> is_scan_space c = false.
Proof. destruct c as [[] [] [] [] [] [] [] []]; vm_compute; congruence. Qed.

(* fmt.Sscanf(comment, "uid:%d") on what GenerateIDL writes *)
Lemma scan_uid_print n : n < 2 ^ 32 -> scan_uid ("uid:" ++ N_to_string n) = Some n.
Proof.
  intro Hn. destruct (N_to_string_spec n) as (Hv & Hd & Hne).
  unfold scan_uid. change (strip_prefix "uid:" ("uid:" ++ N_to_string n)) with (Some (N_to_string n)).
  destruct (N_to_string n) as [|c r] eqn:E; [congruence|].
  cbn in Hd. apply andb_prop in Hd as [Hc Hr].
  cbn [span]. rewrite (not_digit_not_space c Hc).
  cbn [span]. rewrite Hc. rewrite span_app_nil by (now rewrite all_chars_same). 
  rewrite Hv. apply N.ltb_lt in Hn. now rewrite Hn.
Qed.

(* ---------- leading white space ---------- *)
Local Open Scope nat_scope.
Local Open Scope string_scope.

Lemma and_loop_ext (p : iparser) ps s1 s2 : p s1 = p s2 -> and_loop (p :: ps) s1 = and_loop (p :: ps) s2.
Proof. intro H. cbn [and_loop]. now rewrite H. Qed.
Lemma pand_ext cb (p : iparser) ps s1 s2 : p s1 = p s2 -> pand cb (p :: ps) s1 = pand cb (p :: ps) s2.
Proof. intro H. unfold pand. now rewrite (and_loop_ext p ps s1 s2 H). Qed.
Lemma por_ext cb (ps : list iparser) s1 s2 : Forall (fun p => p s1 = p s2) ps -> por cb ps s1 = por cb ps s2.
Proof. induction 1 as [|p ps Hp HF IH]; [reflexivity|]. cbn [por]. now rewrite Hp, IH. Qed.

Lemma itype_ws f s : itype f (String " " s) = itype f s.
Proof.
  destruct f as [|f]; [reflexivity|]. rewrite !itype_S. apply por_ext. repeat constructor.
Qed.

(* ---------- names ---------- *)
Lemma alpha__not_ws c : is_alpha_ c = true -> @is_ws c = false.
Proof. destruct c as [[] [] [] [] [] [] [] []]; vm_compute; congruence. Qed.

Lemma iident_ok f rest : is_iident f = true ->
  match rest with EmptyString => True | String c _ => is_alnum_ c = false end ->
  fst (iident (f ++ rest)) = Ok (NTerm f) rest.
Proof.
  intros Hf Hr. destruct f as [|c r]; [discriminate|]. cbn in Hf. apply andb_prop in Hf as [Hc Ha].
  unfold iident, token1. cbn [append skip_ws]. rewrite (alpha__not_ws c Hc), Hc.
  rewrite span_app_follow by assumption. reflexivity.
Qed.

Lemma iident_ws s : iident (String " " s) = iident s.
Proof. reflexivity. Qed.

(* ---------- parameters ---------- *)
Definition pnode (p : string * ty) : inode := NVal (VParam (fst p) (ity_of (snd p))).

Lemma params_of_nodes_map l : params_of_nodes (map pnode l) = Some (map (fun p => (fst p, ity_of (snd p))) l).
Proof. induction l as [|p l IH]; cbn; [reflexivity|now rewrite IH]. Qed.

Definition param_ok (f : nat) (p : string * ty) : Prop :=
  is_iident (fst p) = true /\ idl_safe (snd p) = true /\ idl_depth (snd p) < f.

Lemma iparameter_ok f p rest : param_ok f p -> follow_idl rest = true ->
  fst (iparameter (itype f) (param_str p ++ rest)) = Ok (pnode p) rest.
Proof.
  intros (Hn & Hs & Hd) Hfo. destruct p as [n t]. unfold param_str, iparameter. cbn [fst snd] in *.
  rewrite !sapp_assoc. cbn [append]. rewrite pand_fst.
  and_step ltac:(now apply iident_ok).
  and_step ltac:(reflexivity).
  and_step ltac:(rewrite itype_ws; apply itype_name; assumption).
  reflexivity.
Qed.

(* the separator GenerateIDL writes: "," between named parameters, ", " from ParamIDL *)
Definition is_sep (sep : string) : Prop := sep = "," \/ sep = ", ".

Lemma iparameter_ws f s : iparameter (itype f) (String " " s) = iparameter (itype f) s.
Proof. unfold iparameter. apply pand_ext. reflexivity. Qed.

Lemma iparameter_ok_pre f p pre rest : (pre = "" \/ pre = " ") -> param_ok f p -> follow_idl rest = true ->
  fst (iparameter (itype f) (pre ++ param_str p ++ rest)) = Ok (pnode p) rest.
Proof.
  intros [-> | ->] Hp Hf; cbn [append]; [|rewrite iparameter_ws]; now apply iparameter_ok.
Qed.

Lemma params_loop f sep p l : is_sep sep -> forall pre rest n, (pre = "" \/ pre = " ") ->
  Forall (param_ok f) (p :: l) -> List.length (p :: l) < n ->
  fst (sep_loop n (iparameter (itype f)) (atom ",") (pre ++ join sep (map param_str (p :: l)) ++ String ")" rest)) =
  Ok (map pnode (p :: l)) (String ")" rest).
Proof.
  intro Hsep. revert p. induction l as [|q l IH]; intros p pre rest n Hpre HF Hn; (destruct n; [cbn in Hn; lia|]);
    inversion HF as [|? ? Hp HF']; subst.
  - cbn [map join]. apply (sep_loop_last n _ _ _ (pnode p) (String ")" rest)); [now apply iparameter_ok_pre|reflexivity].
  - cbn [map]. rewrite join_cons2, !sapp_assoc.
    set (tl := join sep (param_str q :: map param_str l) ++ String ")" rest).
    set (pre' := match sep with "," => "" | _ => " " end).
    assert (Hpre' : pre' = "" \/ pre' = " ") by (subst pre'; destruct Hsep as [-> | ->]; auto).
    assert (Esep : sep = "," ++ pre') by (subst pre'; destruct Hsep as [-> | ->]; reflexivity).
    rewrite (sep_loop_more n _ (atom ",") (pre ++ param_str p ++ sep ++ tl) (pnode p) (sep ++ tl) (NTerm ",") (pre' ++ tl)).
    + subst tl. specialize (IH q pre' rest n Hpre'). cbn [map] in IH. rewrite IH; [reflexivity|assumption|cbn in Hn |- *; lia].
    + apply iparameter_ok_pre; [assumption|assumption|]. destruct Hsep as [-> | ->]; reflexivity.
    + rewrite Esep. rewrite sapp_assoc. reflexivity.
    + assert (Hls : String.length sep = S (String.length pre')) by (rewrite Esep; reflexivity).
      clearbody tl pre'. repeat rewrite slen_app. lia.
Qed.

Lemma join_len_params sep l : List.length l <= S (String.length (join sep (map param_str l))).
Proof.
  induction l as [|p l IH]; [cbn; lia|]. destruct l as [|q l]; [cbn; lia|].
  assert (2 <= String.length (param_str p)) by (unfold param_str; repeat rewrite slen_app; cbn; lia).
  cbn [map]. rewrite join_cons2. repeat rewrite slen_app. cbn [map] in IH. cbn [List.length] in *. lia.
Qed.

Lemma iparameters_ok f sep l rest : is_sep sep -> Forall (param_ok f) l ->
  fst (iparameters (itype f) (join sep (map param_str l) ++ String ")" rest)) =
  Ok (NVal (VParams (map (fun p => (fst p, ity_of (snd p))) l))) (String ")" rest).
Proof.
  intros Hsep HF. unfold iparameters. rewrite pand_fst. destruct l as [|p l].
  - cbn [map join append].
    and_step ltac:(apply maybe_fail; rewrite many_sep_fst; rewrite sep_loop_none by reflexivity; reflexivity).
    reflexivity.
  - and_step ltac:(apply (maybe_ok (Some nodify_first) _ _ (NVal (VParams (map (fun p => (fst p, ity_of (snd p))) (p :: l)))));
                   rewrite many_sep_fst, (params_loop f sep p l Hsep "" rest _ (or_introl eq_refl));
                   [cbn [map]; unfold inodify_params; cbn [docb]; fold (map pnode l); 
                    change (pnode p :: map pnode l) with (map pnode (p :: l)); rewrite params_of_nodes_map; reflexivity
                   |assumption
                   |cbn [append]; rewrite slen_app; pose proof (join_len_params sep (p :: l)); cbn [String.length List.length] in *; lia]).
    reflexivity.
Qed.

(* ---------- the //uid comment ---------- *)
Lemma digit_not_nl c : is_digit c = true -> not_nl c = true.
Proof. destruct c as [[] [] [] [] [] [] [] []]; vm_compute; congruence. Qed.

Lemma digits_not_nl s : all_chars is_digit s = true -> all_chars not_nl s = true.
Proof.
  induction s as [|c s IH]; cbn; [reflexivity|]. intro H. apply andb_prop in H as [Hc Hs].
  now rewrite (digit_not_nl c Hc), IH.
Qed.

(* " //uid:<n>\n" (with or without the leading space) is read as the uid *)
Lemma rest_of_line_uid uid rest : 
  fst (rest_of_line ("uid:" ++ N_to_string uid ++ nl ++ rest)) = Ok (NTerm ("uid:" ++ N_to_string uid)) (nl ++ rest).
Proof.
  destruct (N_to_string_spec uid) as (_ & Hd & _).
  unfold rest_of_line, nl. cbn [skip_ws append]. change (@is_ws "u") with false. cbn iota.
  change (String "u" (String "i" (String "d" (String ":" (N_to_string uid ++ String "010" rest)))))
    with (("uid:" ++ N_to_string uid) ++ String "010" rest).
  rewrite span_app; [reflexivity| |reflexivity].
  rewrite all_chars_same. cbn [append all_chars]. now rewrite (digits_not_nl _ Hd).
Qed.

Lemma comment_content_uid uid rest : (uid < 2 ^ 32)%N ->
  fst (pand (Some inodify_comment_content) [atom "//"; rest_of_line] ("//uid:" ++ N_to_string uid ++ nl ++ rest)) =
  Ok (NVal (VUid uid)) (nl ++ rest).
Proof.
  intro Hu. rewrite pand_fst.
  rewrite (and_loop_cons_ok (atom "//") [rest_of_line] _ (NTerm "//") ("uid:" ++ N_to_string uid ++ nl ++ rest)) by reflexivity.
  rewrite (and_loop_cons_ok rest_of_line [] _ _ _ (rest_of_line_uid uid rest)).
  cbn [lift and_loop fst docb inodify_comment_content]. now rewrite (scan_uid_print uid Hu).
Qed.

Lemma icomments_uid uid pre rest : (uid < 2 ^ 32)%N -> (pre = "" \/ pre = " ") ->
  fst (icomments (pre ++ "//uid:" ++ N_to_string uid ++ nl ++ rest)) = Ok (NVal (VUid uid)) (nl ++ rest).
Proof.
  intros Hu Hpre. unfold icomments. rewrite pand_fst.
  and_step ltac:(apply (maybe_ok (Some nodify_first) _ _ (NVal (VUid uid)));
                 destruct Hpre as [-> | ->]; [|cbn [append]; erewrite pand_ext by reflexivity];
                 now apply comment_content_uid).
  reflexivity.
Qed.

(* ---------- the return type ---------- *)
Lemma print_v rt : print rt = "v" -> rt = TS SVoid.
Proof.
  destruct rt as [s|t|k v|ts|n fs]; cbn; try discriminate.
  - destruct s; cbn; try discriminate. reflexivity.
  - destruct fs; discriminate.
Qed.

Definition ret_ity (rt : ty) : ity := if String.eqb (print rt) "v" then IBasic SVoid else ity_of rt.
Definition ret_ok (f : nat) (rt : ty) : Prop := rt = TS SVoid \/ (idl_safe rt = true /\ idl_depth rt < f).

Lemma ireturns_ok f rt tail : ret_ok f rt ->
  (exists x, tail = String "/" x) ->
  fst (ireturns (itype f) (String " " (ret_str rt ++ tail))) = Ok (NVal (VType (ret_ity rt))) (String " " tail).
Proof.
  intros Hr (x & ->). unfold ireturns, ret_str, ret_ity. rewrite pand_fst.
  destruct (String.eqb (print rt) "v") eqn:E.
  - cbn [append].
    and_step ltac:(apply maybe_fail; reflexivity). reflexivity.
  - destruct Hr as [-> | [Hs Hd]]; [discriminate|].
    rewrite !sapp_assoc. cbn [append].
    and_step ltac:(apply (maybe_ok (Some nodify_first) _ _ (NVal (VType (ity_of rt))));
                   rewrite pand_fst;
                   rewrite (and_loop_cons_ok (atom "->") [itype f] _ (NTerm "->") (String " " (idl_name rt ++ String " " (String "/" x)))) by reflexivity;
                   rewrite (and_loop_cons_ok (itype f) [] _ (NVal (VType (ity_of rt))) (String " " (String "/" x)))
                     by (rewrite itype_ws; apply itype_name; [assumption|assumption|reflexivity]);
                   reflexivity).
    reflexivity.
Qed.

(* ---------- Layer 2: the three kinds of action lines ---------- *)
Definition iparams (l : list (string * ty)) : list (string * ity) := map (fun p => (fst p, ity_of (snd p))) l.

Theorem method_line_parses : forall f name sep l rt uid rest,
  is_iident name = true -> (uid < 2 ^ 32)%N -> is_sep sep -> Forall (param_ok f) l -> ret_ok f rt ->
  fst (imethod (itype f) (method_line name (join sep (map param_str l)) (ret_str rt) uid ++ rest)) =
  Ok (NVal (VMethod name uid (ret_ity rt) (iparams l))) (nl ++ rest).
Proof.
  intros f name sep l rt uid rest Hname Hu Hsep Hl Hr.
  unfold method_line, tab. repeat rewrite sapp_assoc. cbn [append].
  unfold imethod. rewrite pand_fst.
  and_step ltac:(reflexivity).
  and_step ltac:(rewrite iident_ws; now apply iident_ok).
  and_step ltac:(reflexivity).
  and_step ltac:(now apply (iparameters_ok f sep l)).
  and_step ltac:(reflexivity).
  and_step ltac:(apply (ireturns_ok f rt); [assumption|eexists; reflexivity]).
  and_step ltac:(apply (icomments_uid uid " " rest Hu); now right).
  reflexivity.
Qed.

Theorem sigprop_line_parses : forall f kw name sep l uid rest,
  is_iident name = true -> (uid < 2 ^ 32)%N -> is_sep sep -> Forall (param_ok f) l ->
  (kw = "sig" /\ fst (isignal (itype f) (sigprop_line kw name (join sep (map param_str l)) uid ++ rest)) =
                 Ok (NVal (VSignal name uid (iparams l))) (nl ++ rest)) \/
  (kw = "prop" /\ fst (iproperty (itype f) (sigprop_line kw name (join sep (map param_str l)) uid ++ rest)) =
                  Ok (NVal (VProp name uid (iparams l))) (nl ++ rest)) \/
  (kw <> "sig" /\ kw <> "prop").
Proof.
  intros f kw name sep l uid rest Hname Hu Hsep Hl.
  destruct (String.eqb_spec kw "sig") as [->|Hs]; [left; split; [reflexivity|]|right].
  - unfold sigprop_line, tab. repeat rewrite sapp_assoc. cbn [append].
    unfold isignal. rewrite pand_fst.
    and_step ltac:(reflexivity).
    and_step ltac:(rewrite iident_ws; now apply iident_ok).
    and_step ltac:(reflexivity).
    and_step ltac:(now apply (iparameters_ok f sep l)).
    and_step ltac:(reflexivity).
    and_step ltac:(apply (icomments_uid uid " " rest Hu); now right).
    reflexivity.
  - destruct (String.eqb_spec kw "prop") as [->|Hp]; [left; split; [reflexivity|]|right; now split].
    unfold sigprop_line, tab. repeat rewrite sapp_assoc. cbn [append].
    unfold iproperty. rewrite pand_fst.
    and_step ltac:(reflexivity).
    and_step ltac:(rewrite iident_ws; now apply iident_ok).
    and_step ltac:(reflexivity).
    and_step ltac:(now apply (iparameters_ok f sep l)).
    and_step ltac:(reflexivity).
    and_step ltac:(apply (icomments_uid uid " " rest Hu); now right).
    reflexivity.
Qed.

Corollary signal_line_parses : forall f name sep l uid rest,
  is_iident name = true -> (uid < 2 ^ 32)%N -> is_sep sep -> Forall (param_ok f) l ->
  fst (isignal (itype f) (sigprop_line "sig" name (join sep (map param_str l)) uid ++ rest)) =
  Ok (NVal (VSignal name uid (iparams l))) (nl ++ rest).
Proof.
  intros f name sep l uid rest H1 H2 H3 H4.
  destruct (sigprop_line_parses f "sig" name sep l uid rest H1 H2 H3 H4) as [[_ H]|[[E _]|[E _]]];
    [exact H|discriminate|congruence].
Qed.

Corollary property_line_parses : forall f name sep l uid rest,
  is_iident name = true -> (uid < 2 ^ 32)%N -> is_sep sep -> Forall (param_ok f) l ->
  fst (iproperty (itype f) (sigprop_line "prop" name (join sep (map param_str l)) uid ++ rest)) =
  Ok (NVal (VProp name uid (iparams l))) (nl ++ rest).
Proof.
  intros f name sep l uid rest H1 H2 H3 H4.
  destruct (sigprop_line_parses f "prop" name sep l uid rest H1 H2 H3 H4) as [[E _]|[[_ H]|[_ E]]];
    [discriminate|exact H|congruence].
Qed.

(* ---------- generated member names P0, P1, ... are identifiers ---------- *)
Lemma nat_digits_alnum fuel : forall n acc, all_chars is_alnum_ acc = true -> all_chars is_alnum_ (nat_digits fuel n acc) = true.
Proof.
  induction fuel as [|fuel IH]; intros n acc Ha; [exact Ha|]. cbn [nat_digits].
  assert (Hd : is_alnum_ (ascii_of_nat (48 + n mod 10)) = true).
  { pose proof (Nat.mod_upper_bound n 10 ltac:(lia)) as Hm.
    remember (n mod 10) as d. clear Heqd.
    do 10 (destruct d as [|d]; [reflexivity|]). lia. }
  destruct (Nat.ltb n 10); [cbn [all_chars]; now rewrite Hd, Ha|]. apply IH. cbn [all_chars]. now rewrite Hd, Ha.
Qed.

Lemma tuple_field_names_ok {A} i (l : list A) : Forall (fun p => is_iident (fst p) = true) (tuple_fields i l).
Proof.
  revert i; induction l as [|x l IH]; intro i; cbn [tuple_fields]; constructor; [|apply IH].
  cbn [fst]. change ("P" ++ nat_to_string i) with (String "P" (nat_to_string i)).
  unfold is_iident. change (is_alpha_ "P") with true. cbn [andb].
  unfold nat_to_string. now apply nat_digits_alnum.
Qed.

(* ---------- the line of a method: generation, parsing and resolution together ---------- *)
Lemma tuple_sig_of sc g l : Forall (fun p => idl_safe (snd p) = true /\ scope_has sc (snd p) /\ ty_depth (snd p) < g) l ->
  tuple_sig g sc (iparams l) = Some (print (TTuple (map snd l))).
Proof.
  intro HF. unfold tuple_sig. rewrite isig_S. cbn zeta. cbn iota.
  match goal with |- match ?F ?x with _ => _ end = _ =>
    assert (E : F x = Some (String.concat "" (map print (map snd l)))) end.
  { induction HF as [|p l (Hs & Hsc & Hd) HF IH]; [reflexivity|].
    cbn [iparams map fst snd]. rewrite (isig_of sc (snd p) Hs Hsc g Hd).
    unfold iparams in IH. rewrite IH. now rewrite sconcat_cons. }
  rewrite E. reflexivity.
Qed.

Lemma fields_param_ok f ts : forall i, Forall (fun t => idl_safe t = true /\ idl_depth t < f) ts ->
  Forall (param_ok f) (tuple_fields i ts).
Proof.
  induction ts as [|t ts IH]; intros i HF; cbn [tuple_fields]; constructor.
  - inversion HF as [|? ? [Hs Hd] HF']; subst. repeat split; [|assumption|assumption].
    pose proof (tuple_field_names_ok i (t :: ts)) as Hn. cbn [tuple_fields] in Hn. now inversion Hn.
  - inversion HF; subst. now apply IH.
Qed.

Lemma fields_sig_ok sc g ts : forall i, Forall (fun t => idl_safe t = true /\ scope_has sc t /\ ty_depth t < g) ts ->
  Forall (fun p => idl_safe (snd p) = true /\ scope_has sc (snd p) /\ ty_depth (snd p) < g) (tuple_fields i ts).
Proof.
  induction ts as [|t ts IH]; intros i HF; cbn [tuple_fields]; constructor.
  - now inversion HF.
  - inversion HF; subst. now apply IH.
Qed.

(* a method whose parameter names are not given (MetaMethod.Parameters nil): P0, P1, ... *)
Theorem method_roundtrip : forall m ts rt s sc f g rest,
  mm_params m = print (TTuple ts) -> mm_ret m = print rt -> mm_pnames m = None ->
  wf_ty (TTuple ts) = true -> wf_ty rt = true ->
  is_iident (mm_name m) = true -> (mm_uid m < 2 ^ 32)%N ->
  Forall (fun t => idl_safe t = true /\ idl_depth t < f /\ scope_has sc t /\ ty_depth t < g) ts ->
  (rt = TS SVoid \/ (idl_safe rt = true /\ idl_depth rt < f /\ scope_has sc rt /\ ty_depth rt < g)) -> 0 < g ->
  exists line s' ri pl,
    gen_method m s = Some (line, s') /\
    fst (imethod (itype f) (line ++ rest)) = Ok (NVal (VMethod (mm_name m) (mm_uid m) ri pl)) (nl ++ rest) /\
    isig g sc ri = Some (mm_ret m) /\ tuple_sig g sc pl = Some (mm_params m).
Proof.
  intros m ts rt s sc f g rest Hp Hr Hn Hwp Hwr Hname Hu Hts Hrt Hg.
  set (l := tuple_fields 0 ts).
  exists (method_line (mm_name m) (join ", " (map param_str l)) (ret_str rt) (mm_uid m)).
  destruct (register (TTuple ts) s) as [pt' s1] eqn:E1. destruct (register rt s1) as [rt' s2] eqn:E2.
  exists s2, (ret_ity rt), (iparams l). repeat split.
  - unfold gen_method. rewrite Hp, Hr, (parse_print _ Hwp), (parse_print _ Hwr), Hn, E1, E2. reflexivity.
  - apply method_line_parses; [assumption|assumption|right; reflexivity| |].
    + subst l. apply fields_param_ok. eapply Forall_impl; [|exact Hts]. cbn. tauto.
    + destruct Hrt as [->|(Ha & Hb & _)]; [now left|right; now split].
  - unfold ret_ity. destruct (String.eqb_spec (print rt) "v") as [Ev|Ev].
    + apply print_v in Ev. subst rt. rewrite Hr. destruct g; [lia|reflexivity].
    + destruct Hrt as [->|(Ha & _ & Hc & Hd)]; [now elim Ev|]. rewrite Hr. now apply isig_of.
  - rewrite Hp. pose proof (tuple_sig_of sc g l) as H. unfold l in H. rewrite tuple_fields_snd in H. apply H.
    subst l. apply fields_sig_ok. eapply Forall_impl; [|exact Hts]. cbn. tauto.
Qed.

(* ================= totality of the IDL parser ================= *)
Lemma many_sep_goodS cb (p sep : iparser) L : goodS p L -> good sep L -> goodS (many_sep cb p sep) L.
Proof.
  intros Hp Hsep s Hs. rewrite many_sep_fst. rewrite sep_loop_S.
  pose proof (Hp s Hs) as H. destruct (p s) as [[x s1| | |] k]; cbn [fst] in H |- *; try tauto.
  pose proof (Hsep s1 ltac:(lia)) as H2. destruct (sep s1) as [[y s2| | |] k2]; cbn [fst] in H2 |- *; try tauto.
  assert (Hlt : String.length s2 < String.length s) by lia. apply Nat.ltb_lt in Hlt. rewrite Hlt.
  pose proof (sep_loop_good (String.length s) p sep L Hp Hsep s2 ltac:(lia) ltac:(apply Nat.ltb_lt in Hlt; lia)) as H3.
  destruct (sep_loop (String.length s) p sep s2) as [[xs r| | |] k']; cbn [fst] in H3 |- *; try tauto.
  apply Nat.ltb_lt in Hlt. lia.
Qed.

Lemma type_ident_goodS L : goodS type_ident L.
Proof.
  intros s _. unfold type_ident. pose proof (skip_ws_len s) as Hw.
  destruct (skip_ws s) as [|c r]; cbn [fst]; [exact I|].
  destruct (is_alpha_ c); cbn [fst]; [|exact I].
  destruct (span is_alnum_ r) as [a b] eqn:E. apply span_spec in E as (E & _ & _). subst r.
  cbn [String.length] in Hw. rewrite slen_app in Hw.
  destruct b as [|x b]; cbn [fst]; [cbn; lia|].
  destruct x as [[] [] [] [] [] [] [] []]; cbn [fst String.length] in *; try lia.
  destruct (span is_alnum_ b) as [a2 b2] eqn:E2. apply span_spec in E2 as (E2 & _ & _). subst b.
  rewrite slen_app in Hw.
  destruct b2 as [|y b3]; cbn [fst String.length] in *; [rewrite ?slen_app; cbn [String.length]; lia|].
  destruct y as [[] [] [] [] [] [] [] []]; cbn [fst String.length] in *; rewrite ?slen_app; cbn [String.length]; lia.
Qed.

Lemma int_tok_goodS L : goodS int_tok L.
Proof.
  intros s _. unfold int_tok. pose proof (skip_ws_len s) as Hw.
  assert (Hgen : forall r, String.length r <= String.length s ->
    match fst (let (a, b) := span is_digit r in
               match a with EmptyString => (@Fail inode, 1%N) | _ => (Ok (NTerm a) b, 1%N) end) with
    | Ok _ r' => String.length r' < String.length s | Fail => True | _ => False end).
  { intros r Hr. destruct (span is_digit r) as [a b] eqn:E. apply span_spec in E as (-> & _ & _).
    destruct a; cbn [fst]; [exact I|]. rewrite slen_app in Hr. cbn in Hr. lia. }
  destruct (skip_ws s) as [|c r]; [apply (Hgen ""); cbn; lia|].
  destruct c as [[] [] [] [] [] [] [] []]; try (apply (Hgen (String _ r)); exact Hw).
  destruct (span is_digit r) as [a b] eqn:E. apply span_spec in E as (-> & _ & _).
  destruct a; cbn [fst]; [exact I|]. cbn [String.length] in Hw. rewrite slen_app in Hw. cbn in Hw. lia.
Qed.

Lemma rest_of_line_good L : good rest_of_line L.
Proof.
  intros s _. unfold rest_of_line. pose proof (skip_ws_len s) as Hw.
  destruct (span not_nl (skip_ws s)) as [a b] eqn:E. apply span_spec in E as (E & _ & _).
  cbn [fst]. rewrite E, slen_app in Hw. lia.
Qed.

Lemma ibasic_goodS L : goodS ibasic_type L.
Proof.
  unfold ibasic_type. apply por_goodS. cbn [map idl_basic_names].
  repeat constructor; apply atom_goodS; discriminate.
Qed.

Lemma itype_goodS f : forall L, L < f -> goodS (itype f) L.
Proof.
  induction f as [|f IH]; intros L HL; [lia|].
  intros s Hs. rewrite itype_S. revert s Hs. fold (goodS (por (Some nodify_first)
    [ibasic_type; imap_type (itype f); ituple_type (itype f); ivec_type (itype f); iref_type]) L).
  assert (Hd : forall L', L' < L -> goodS (itype f) L') by (intros; apply IH; lia).
  assert (HA : forall m L', m <> "" -> good (@atom ival m) L') by (intros; apply goodS_good, atom_goodS; assumption).
  apply por_goodS. repeat constructor.
  - apply ibasic_goodS.
  - apply pand_goodS; [apply atom_goodS; discriminate|]. intros L' HL'.
    repeat constructor; try (apply goodS_good, Hd; assumption); apply HA; discriminate.
  - apply pand_goodS; [apply atom_goodS; discriminate|]. intros L' HL'.
    repeat constructor; try (apply HA; discriminate).
    apply goodS_good, many_sep_goodS; [now apply Hd|apply HA; discriminate].
  - apply pand_goodS; [apply atom_goodS; discriminate|]. intros L' HL'.
    repeat constructor; try (apply goodS_good, Hd; assumption); apply HA; discriminate.
  - apply pand_goodS; [apply type_ident_goodS|]. intros L' HL'. constructor.
Qed.

Section Total.
Variable ty : iparser.
Variable L : nat.
Hypothesis Hty : goodS ty L.

Let HA : forall m L', m <> "" -> good (@atom ival m) L'.
Proof. intros; apply goodS_good, atom_goodS; assumption. Qed.
Let Hty' : forall L', L' < L -> good ty L'.
Proof. intros L' HL'. apply goodS_good. eapply goodS_le; [exact Hty|lia]. Qed.
Let HtyS : forall L', L' < L -> goodS ty L'.
Proof. intros L' HL'. eapply goodS_le; [exact Hty|lia]. Qed.

Lemma icomments_good L' : good icomments L'.
Proof.
  unfold icomments. apply pand_good. constructor; [|constructor]. apply maybe_good, goodS_good.
  apply pand_goodS; [apply atom_goodS; discriminate|]. intros L'' _. constructor; [apply rest_of_line_good|constructor].
Qed.

Lemma iparameters_good L' : L' <= L -> good (iparameters ty) L'.
Proof.
  intro HL. unfold iparameters. apply pand_good. constructor; [|constructor]. apply maybe_good, goodS_good.
  apply many_sep_goodS; [|apply HA; discriminate].
  unfold iparameter. apply pand_goodS; [apply token1_goodS|]. intros L'' HL''.
  constructor; [apply HA; discriminate|constructor; [apply Hty'; lia|constructor]].
Qed.

Lemma ireturns_good L' : L' <= L -> good (ireturns ty) L'.
Proof.
  intro HL. unfold ireturns. apply pand_good. constructor; [|constructor]. apply maybe_good, goodS_good.
  apply pand_goodS; [apply atom_goodS; discriminate|]. intros L'' HL''. constructor; [apply Hty'; lia|constructor].
Qed.

Lemma iaction_goodS : goodS (iaction ty) L.
Proof.
  unfold iaction. apply por_goodS. repeat constructor.
  - unfold imethod. apply pand_goodS; [apply atom_goodS; discriminate|]. intros L' HL'.
    repeat constructor; try (apply HA; discriminate).
    + apply goodS_good, token1_goodS.
    + apply iparameters_good; lia.
    + apply ireturns_good; lia.
    + apply icomments_good.
  - unfold isignal. apply pand_goodS; [apply atom_goodS; discriminate|]. intros L' HL'.
    repeat constructor; try (apply HA; discriminate).
    + apply goodS_good, token1_goodS.
    + apply iparameters_good; lia.
    + apply icomments_good.
  - unfold iproperty. apply pand_goodS; [apply atom_goodS; discriminate|]. intros L' HL'.
    repeat constructor; try (apply HA; discriminate).
    + apply goodS_good, token1_goodS.
    + apply iparameters_good; lia.
    + apply icomments_good.
Qed.

Lemma ideclaration_goodS : goodS (ideclaration ty) L.
Proof.
  unfold ideclaration. apply por_goodS. repeat constructor.
  - unfold istructure. apply pand_goodS; [apply atom_goodS; discriminate|]. intros L' HL'.
    repeat constructor; try (apply HA; discriminate); try apply icomments_good.
    + apply goodS_good, type_ident_goodS.
    + apply kleene_good. unfold imember. apply pand_goodS; [apply token1_goodS|]. intros L'' HL''.
      repeat constructor; [apply HA; discriminate|apply Hty'; lia|apply icomments_good].
  - unfold ienum. apply pand_goodS; [apply atom_goodS; discriminate|]. intros L' HL'.
    repeat constructor; try (apply HA; discriminate); try apply icomments_good.
    + apply goodS_good, token1_goodS.
    + apply kleene_good. unfold ienum_const. apply pand_goodS; [apply token1_goodS|]. intros L'' HL''.
      repeat constructor; [apply HA; discriminate|apply goodS_good, int_tok_goodS|apply icomments_good].
  - unfold iinterface. apply pand_goodS; [apply atom_goodS; discriminate|]. intros L' HL'.
    repeat constructor; try (apply HA; discriminate); try apply icomments_good.
    + apply goodS_good, token1_goodS.
    + apply kleene_good. eapply goodS_le; [apply iaction_goodS|lia].
Qed.

Lemma ipackage_good : good (ipackage ty) L.
Proof.
  unfold ipackage. apply pand_good. constructor; [|constructor; [|constructor]].
  - unfold ipackage_name. apply pand_good. constructor; [|constructor]. apply maybe_good, goodS_good.
    apply pand_goodS; [apply atom_goodS; discriminate|]. intros L' HL'.
    repeat constructor; [apply goodS_good, token1_goodS|apply icomments_good].
  - apply kleene_good, ideclaration_goodS.
Qed.
End Total.

(* ParseIDL's parser never reaches the model's bounds: arbitrary text yields meta-objects, an
   error, or — only through a self-referential struct — the stack overflow *)
Theorem parse_idl_total : forall s, parse_idl s <> IFuel /\ parse_idl s <> IHang.
Proof.
  intro s. unfold parse_idl, parse_package.
  pose proof (ipackage_good (itype (S (String.length s))) (String.length s)
                (itype_goodS (S (String.length s)) (String.length s) (Nat.lt_succ_diag_r _)) s (le_n _)) as H.
  destruct (fst (ipackage (itype (S (String.length s))) s)) as [root rest| | |]; try tauto; try (split; discriminate).
  destruct (is_empty (skip_ws rest)); [|split; discriminate].
  destruct root as [|[]| | |]; try (split; discriminate).
  destruct (metas_of _ _); split; discriminate.
Qed.
