(* IdlProofs.v — the IDL round trip by layers.
   Layer 1: type expressions.  The IDL name of a type (Type.SignatureIDL, SigParse.idl_name) is
   read back by the type parser as ity_of t, and the references resolve through a scope that
   declares the structs to the signature of t — under the hypotheses idl_safe. *)
From Coq Require Import String Ascii List NArith Bool Arith Lia.
From QV Require Import Sig Peg PegProofs SigParse SigParseProofs Idl.
Import ListNotations.
Local Open Scope string_scope.

Definition is_name_char (c : ascii) : bool := is_alnum_ c || Ascii.eqb c "<".

Lemma follow_char a c r : is_name_char a = true -> follow_idl (String c r) = true -> Ascii.eqb a c = false.
Proof.
  unfold is_name_char, follow_idl. intros Ha Hc. destruct (Ascii.eqb a c) eqn:E; [|reflexivity].
  apply Ascii.eqb_eq in E. subst c. apply andb_prop in Hc as [H1 H2].
  apply orb_prop in Ha as [Ha|Ha]; [now rewrite Ha in H1|now rewrite Ha in H2].
Qed.

Lemma strip_prefix_app_none k : forall n rest, strip_prefix k n = None -> all_chars is_name_char k = true ->
  follow_idl rest = true -> strip_prefix k (n ++ rest) = None.
Proof.
  induction k as [|a k IH]; intros n rest H Hk Hf; [discriminate|].
  cbn in Hk. apply andb_prop in Hk as [Ha Hk]. destruct n as [|b n]; cbn in *.
  - destruct rest as [|c r]; [reflexivity|]. now rewrite (follow_char a c r Ha Hf).
  - destruct (Ascii.eqb a b); [|reflexivity]. now apply IH.
Qed.

Lemma span_app_follow p a rest : all_chars p a = true ->
  match rest with EmptyString => True | String c _ => p c = false end -> span p (a ++ rest) = (a, rest).
Proof.
  intros Ha Hr. destruct rest as [|c r].
  - rewrite sapp_nil_r. apply span_app_nil. now rewrite all_chars_same.
  - apply span_app; [now rewrite all_chars_same|assumption].
Qed.

Lemma follow_not_alnum rest : follow_idl rest = true ->
  match rest with EmptyString => True | String c _ => is_alnum_ c = false end.
Proof. destruct rest as [|c r]; [trivial|]. cbn. intro H. apply andb_prop in H as [H _]. now destruct (is_alnum_ c). Qed.

Lemma struct_name_head n : is_struct_name n = true -> exists c r, n = String c r /\ is_alpha c = true.
Proof.
  intro H. apply is_struct_name_shape in H as [H|(a & b & -> & Ha & Hb)].
  - destruct (is_ident_inv n H) as (c & r & -> & Hc & _). eauto.
  - destruct (is_ident_inv a Ha) as (c & r & -> & Hc & _). cbn. eauto.
Qed.

Lemma skip_ws_name n rest : is_struct_name n = true -> skip_ws (n ++ rest) = n ++ rest.
Proof. intro H. destruct (struct_name_head n H) as (c & r & -> & Hc). cbn [append]. now apply skip_ws_alpha. Qed.

Lemma atom_fail_name k n rest : is_struct_name n = true -> starts_with k n = false ->
  all_chars is_name_char k = true -> follow_idl rest = true -> fst (@atom ival k (n ++ rest)) = Fail.
Proof.
  intros Hn Hk Hc Hf. unfold atom. rewrite skip_ws_name by assumption.
  unfold starts_with in Hk. destruct (strip_prefix k n) eqn:E; [discriminate|].
  now rewrite (strip_prefix_app_none k n rest E Hc Hf).
Qed.

Lemma por_atoms_fail cb ks n rest : is_struct_name n = true -> follow_idl rest = true ->
  existsb (fun k => starts_with k n) ks = false -> forallb (all_chars is_name_char) ks = true ->
  fst (por cb (map (@atom ival) ks) (n ++ rest)) = Fail.
Proof.
  intros Hn Hf. induction ks as [|k ks IH]; cbn [map existsb forallb]; intros He Hc; [reflexivity|].
  apply orb_false_elim in He as [Hk He]. apply andb_prop in Hc as [Hck Hc].
  rewrite por_cons_fail by (now apply atom_fail_name). now apply IH.
Qed.

Lemma type_ident_ok n rest : is_struct_name n = true -> follow_idl rest = true ->
  fst (type_ident (n ++ rest)) = Ok (NTerm n) rest.
Proof.
  intros Hn Hf. pose proof (follow_not_alnum rest Hf) as Hna.
  apply is_struct_name_shape in Hn as [Hn|(a & b & E & Ha & Hb)].
  - destruct (is_ident_inv n Hn) as (c & r & -> & Hc & Hr).
    unfold type_ident. cbn [append]. rewrite skip_ws_alpha by assumption.
    unfold is_alpha_. rewrite Hc. cbn [orb]. rewrite span_app_follow by assumption.
    destruct rest as [|x rest']; [reflexivity|].
    cbn in Hf. apply andb_prop in Hf as [_ Hlt].
    destruct x as [[] [] [] [] [] [] [] []]; try reflexivity. discriminate.
  - destruct (is_ident_inv a Ha) as (c & r & -> & Hc & Hr).
    destruct (is_ident_inv b Hb) as (c2 & r2 & -> & Hc2 & Hr2). subst n.
    unfold type_ident.
    replace ((String c r ++ "<" ++ String c2 r2 ++ ">") ++ rest)
      with (String c (r ++ String "<" ((String c2 r2) ++ String ">" rest))).
    2:{ cbn. f_equal. rewrite !sapp_assoc. cbn. now rewrite !sapp_assoc. }
    rewrite skip_ws_alpha by assumption. unfold is_alpha_. rewrite Hc. cbn [orb].
    rewrite span_app by (rewrite ?all_chars_same; auto).
    rewrite span_app; [reflexivity| |reflexivity].
    rewrite all_chars_same. cbn. now rewrite (alpha_alnum c2 Hc2), Hr2.
Qed.

Definition inode_of (t : ty) : inode := NVal (VType (ity_of t)).

Lemma types_of_nodes_map ts : types_of_nodes (map inode_of ts) = Some (map ity_of ts).
Proof. induction ts as [|t ts IH]; cbn; [reflexivity|now rewrite IH]. Qed.

Lemma itype_S f s : itype (S f) s =
  por (Some nodify_first) [ibasic_type; imap_type (itype f); ituple_type (itype f); ivec_type (itype f); iref_type] s.
Proof. reflexivity. Qed.

Lemma join_cons2 sep x y r : join sep (x :: y :: r) = x ++ sep ++ join sep (y :: r).
Proof. reflexivity. Qed.

(* Many over the members of Tuple<...> *)
Lemma tuple_members (d : iparser) t ts : forall rest n,
  Forall (fun t => forall rest, follow_idl rest = true -> fst (d (idl_name t ++ rest)) = Ok (inode_of t) rest) (t :: ts) ->
  List.length (t :: ts) < n ->
  fst (sep_loop n d (atom ",") (join "," (map idl_name (t :: ts)) ++ String ">" rest)) =
  Ok (map inode_of (t :: ts)) (String ">" rest).
Proof.
  revert t. induction ts as [|u ts IH]; intros t rest n HF Hn; (destruct n; [cbn in Hn; lia|]);
    inversion HF as [|? ? Ht HF']; subst.
  - cbn [map join]. apply (sep_loop_last n d _ _ (inode_of t) (String ">" rest)); [now apply Ht|reflexivity].
  - cbn [map]. rewrite join_cons2, !sapp_assoc. cbn [append].
    set (tl := join "," (idl_name u :: map idl_name ts) ++ String ">" rest).
    rewrite (sep_loop_more n d (atom ",") (idl_name t ++ String "," tl) (inode_of t) (String "," tl) (NTerm ",") tl).
    + subst tl. specialize (IH u rest n). cbn [map] in IH. rewrite IH; [reflexivity|assumption|cbn in Hn |- *; lia].
    + apply Ht. reflexivity.
    + reflexivity.
    + repeat rewrite slen_app. cbn. lia.
Qed.

Lemma join_len_ge ts : List.length ts <= S (String.length (join "," (map idl_name ts))).
Proof.
  induction ts as [|t ts IH]; [cbn; lia|]. destruct ts as [|u ts]; [cbn; lia|].
  cbn [map]. rewrite join_cons2. repeat rewrite slen_app. cbn [map] in IH. cbn [List.length String.length] in *. lia.
Qed.

Lemma no_basic_prefix n : safe_name n = true ->
  is_struct_name n = true /\ existsb (fun k => starts_with k n) idl_basic_names = false /\
  starts_with "Map<" n = false /\ starts_with "Tuple<" n = false /\ starts_with "Vec<" n = false.
Proof.
  unfold safe_name. intro H. repeat (apply andb_prop in H as [H ?]).
  repeat match goal with H : negb _ = true |- _ => apply negb_true_iff in H end. auto.
Qed.

(* nesting of the type expression: a struct is a name, whatever its members *)
Fixpoint idl_depth (t : ty) : nat :=
  match t with
  | TS _ => 1
  | TList t => S (idl_depth t)
  | TMap k v => S (Nat.max (idl_depth k) (idl_depth v))
  | TTuple ts => S (fold_right (fun t a => Nat.max (idl_depth t) a) 0 ts)
  | TStruct _ _ => 1
  end.

Lemma idepth_members ts t : In t ts -> idl_depth t <= fold_right (fun t a => Nat.max (idl_depth t) a) 0 ts.
Proof. induction ts as [|u ts IH]; cbn; [tauto|]. intros [E|H]; [subst; lia|]. specialize (IH H). lia. Qed.

(* layer 1a: the type parser reads the IDL name of a safe type back *)
Lemma itype_name t : idl_safe t = true -> forall f rest, idl_depth t < f -> follow_idl rest = true ->
  fst (itype f (idl_name t ++ rest)) = Ok (inode_of t) rest.
Proof.
  induction t as [s|t IHt|k v IHk IHv|ts IH|n fs IH] using ty_ind2; intros Hs f rest Hf Hfo;
    (destruct f as [|f]; [lia|]); rewrite itype_S.
  - destruct s; try discriminate; reflexivity.
  - cbn [idl_safe idl_depth] in Hs, Hf.
    replace (idl_name (TList t) ++ rest) with (String "V" (String "e" (String "c" (String "<" (idl_name t ++ String ">" rest)))))
      by (cbn; now rewrite sapp_assoc).
    or_skip ltac:(reflexivity). or_skip ltac:(reflexivity). or_skip ltac:(reflexivity).
    apply (por_cons_ok (Some nodify_first) _ _ _ (inode_of (TList t)) rest).
    unfold ivec_type. rewrite pand_fst.
    and_step ltac:(reflexivity).
    and_step ltac:(apply IHt; [assumption|lia|reflexivity]).
    and_step ltac:(reflexivity).
    reflexivity.
  - cbn [idl_safe idl_depth] in Hs, Hf. apply andb_prop in Hs as [Hk Hv].
    replace (idl_name (TMap k v) ++ rest)
      with (String "M" (String "a" (String "p" (String "<" (idl_name k ++ String "," (idl_name v ++ String ">" rest))))))
      by (cbn; rewrite !sapp_assoc; cbn; now rewrite !sapp_assoc).
    or_skip ltac:(reflexivity).
    apply (por_cons_ok (Some nodify_first) _ _ _ (inode_of (TMap k v)) rest).
    unfold imap_type. rewrite pand_fst.
    and_step ltac:(reflexivity).
    and_step ltac:(apply IHk; [assumption|lia|reflexivity]).
    and_step ltac:(reflexivity).
    and_step ltac:(apply IHv; [assumption|lia|reflexivity]).
    and_step ltac:(reflexivity).
    reflexivity.
  - destruct ts as [|t0 ts]; [discriminate|]. cbn [idl_safe idl_depth] in Hs, Hf.
    replace (idl_name (TTuple (t0 :: ts)) ++ rest)
      with (String "T" (String "u" (String "p" (String "l" (String "e" (String "<"
              (join "," (map idl_name (t0 :: ts)) ++ String ">" rest)))))))
      by (cbn [idl_name append]; now rewrite sapp_assoc).
    assert (HF : Forall (fun t => forall rest, follow_idl rest = true -> fst (itype f (idl_name t ++ rest)) = Ok (inode_of t) rest) (t0 :: ts)).
    { rewrite Forall_forall in IH |- *. intros t Hin rest' Hfo'. apply IH; auto.
      - rewrite forallb_forall in Hs. now apply Hs.
      - pose proof (idepth_members (t0 :: ts) t Hin). lia. }
    or_skip ltac:(reflexivity). or_skip ltac:(reflexivity).
    apply (por_cons_ok (Some nodify_first) _ _ _ (inode_of (TTuple (t0 :: ts))) rest).
    unfold ituple_type. rewrite pand_fst.
    and_step ltac:(reflexivity).
    and_step ltac:(rewrite many_sep_fst, tuple_members;
                   [reflexivity|exact HF|
                    rewrite slen_app; pose proof (join_len_ge (t0 :: ts)); cbn [String.length List.length] in *; lia]).
    and_step ltac:(reflexivity).
    cbn [lift and_loop fst docb inodify_tuple]. unfold inodify_list. rewrite types_of_nodes_map.
    cbn [lift inodify_tuple docb]. rewrite tuple_fields_snd. reflexivity.
  - cbn [idl_safe] in Hs. apply andb_prop in Hs as [Hn _].
    destruct (no_basic_prefix n Hn) as (Hsn & Hb & Hm & Ht & Hv).
    cbn [idl_name].
    or_skip ltac:(unfold ibasic_type; apply por_atoms_fail; [assumption|assumption|assumption|reflexivity]).
    or_skip ltac:(unfold imap_type; rewrite pand_fst; and_fail ltac:(apply atom_fail_name; [assumption|assumption|reflexivity|assumption]); reflexivity).
    or_skip ltac:(unfold ituple_type; rewrite pand_fst; and_fail ltac:(apply atom_fail_name; [assumption|assumption|reflexivity|assumption]); reflexivity).
    or_skip ltac:(unfold ivec_type; rewrite pand_fst; and_fail ltac:(apply atom_fail_name; [assumption|assumption|reflexivity|assumption]); reflexivity).
    apply (por_cons_ok (Some nodify_first) _ _ _ (inode_of (TStruct n fs)) rest).
    unfold iref_type. rewrite pand_fst.
    and_step ltac:(now apply type_ident_ok).
    reflexivity.
Qed.

(* layer 1b: the references resolve, through a scope that declares the structs, to the signature *)
Lemma isig_S f sc t : isig (S f) sc t =
  let members := fix members (l : list (string * ity)) : option string :=
          match l with
          | [] => Some ""
          | (_, m) :: r => match isig f sc m, members r with Some a, Some b => Some (a ++ b) | _, _ => None end
          end in
  let tuple := fix tuple (l : list ity) : option string :=
          match l with
          | [] => Some ""
          | m :: r => match isig f sc m, tuple r with Some a, Some b => Some (a ++ b) | _, _ => None end
          end in
  match t with
  | IBasic s => Some (scalar_letter s)
  | IList e => match isig f sc e with Some a => Some ("[" ++ a ++ "]") | None => None end
  | IMap k v => match isig f sc k, isig f sc v with Some a, Some b => Some ("{" ++ a ++ b ++ "}") | _, _ => None end
  | ITuple ts => match tuple ts with Some a => Some ("(" ++ a ++ ")") | None => None end
  | IRef n =>
      match lookup n sc with
      | Some (ScStruct name ms) =>
          match ms with
          | [] => Some ("()<" ++ name ++ ">")
          | _ => match members ms with
                 | Some a => Some ("(" ++ a ++ ")<" ++ name ++ "," ++ join "," (map fst ms) ++ ">")
                 | None => None
                 end
          end
      | Some ScItf => Some "o"
      | None => Some ("()<not found in scope: " ++ n ++ ">")
      end
  end.
Proof. reflexivity. Qed.

Lemma scope_has_tuple sc ts : scope_has sc (TTuple ts) -> Forall (scope_has sc) ts.
Proof. induction ts as [|t ts IH]; cbn; [constructor|]. intros [H1 H2]. constructor; [assumption|now apply IH]. Qed.
Lemma scope_has_struct sc n fs : scope_has sc (TStruct n fs) ->
  lookup n sc = Some (ScStruct n (map (fun f => (fst f, ity_of (snd f))) fs)) /\ Forall (fun f => scope_has sc (snd f)) fs.
Proof.
  cbn. intros [H1 H2]. split; [assumption|]. clear H1.
  induction fs as [|x fs IH]; [constructor|]. destruct H2 as [Hx H2]. constructor; [assumption|now apply IH].
Qed.

Lemma isig_of sc t : idl_safe t = true -> scope_has sc t -> forall f, ty_depth t < f ->
  isig f sc (ity_of t) = Some (print t).
Proof.
  induction t as [s|t IHt|k v IHk IHv|ts IH|n fs IH] using ty_ind2; intros Hs Hsc f Hf;
    (destruct f as [|f]; [lia|]).
  - destruct s; try discriminate; reflexivity.
  - cbn [ity_of]. rewrite isig_S. cbn zeta. cbn [idl_safe ty_depth scope_has] in *.
    rewrite IHt by (assumption || lia). reflexivity.
  - cbn [ity_of]. rewrite isig_S. cbn zeta. cbn [idl_safe ty_depth scope_has] in *.
    apply andb_prop in Hs as [Hk Hv]. destruct Hsc as [Hsk Hsv].
    rewrite IHk, IHv by (assumption || lia). reflexivity.
  - assert (Ei : ity_of (TTuple ts) = ITuple (map ity_of ts)) by (destruct ts; [discriminate|reflexivity]).
    assert (Hs' : forallb idl_safe ts = true) by (destruct ts; [discriminate|exact Hs]).
    clear Hs. cbn [ty_depth] in Hf. apply scope_has_tuple in Hsc.
    rewrite Ei, isig_S. cbn zeta. cbn iota. clear Ei.
    match goal with |- match ?F (map ity_of ts) with _ => _ end = _ =>
      assert (E : F (map ity_of ts) = Some (String.concat "" (map print ts))) end.
    { induction ts as [|t l IHl]; [reflexivity|].
      inversion IH as [|? ? Ht IH']; subst. inversion Hsc as [|? ? Hst Hsc']; subst.
      cbn [forallb] in Hs'. apply andb_prop in Hs' as [Hst' Hs']. cbn [fold_right] in Hf.
      cbn [map]. rewrite Ht by (assumption || lia). rewrite IHl by (assumption || lia).
      now rewrite sconcat_cons. }
    rewrite E. reflexivity.
  - cbn [idl_safe ty_depth] in Hs, Hf. apply andb_prop in Hs as [Hn Hfs].
    apply scope_has_struct in Hsc as [Hl Hsc].
    cbn [ity_of]. rewrite isig_S. cbn zeta. cbn iota. rewrite Hl.
    match goal with |- match ?l0 with [] => _ | _ :: _ => match ?F ?l0 with _ => _ end end = _ =>
      assert (E : F l0 = Some (String.concat "" (map (fun f => print (snd f)) fs))) end.
    { clear Hl. induction fs as [|x l IHl]; [reflexivity|]. destruct x as [a t].
      inversion IH as [|? ? Ht IH']; subst. inversion Hsc as [|? ? Hst Hsc']; subst.
      cbn [forallb fst snd] in Hfs. apply andb_prop in Hfs as [Hx Hfs']. apply andb_prop in Hx as [_ Hst'].
      cbn [fold_right snd] in Hf. cbn [map fst snd] in *.
      rewrite Ht by (assumption || lia). rewrite IHl by (assumption || lia).
      now rewrite sconcat_cons. }
    destruct fs as [|x l]; [reflexivity|]. cbn [map] in E |- *. rewrite E.
    rewrite map_map. cbn [fst]. reflexivity.
Qed.

Lemma safe_name_len n : safe_name n = true -> 1 <= String.length n.
Proof. intro H. destruct (no_basic_prefix n H) as (Hn & _). destruct (struct_name_head n Hn) as (c & r & -> & _). cbn. lia. Qed.

Lemma idl_depth_le_len t : idl_safe t = true -> idl_depth t <= String.length (idl_name t).
Proof.
  induction t as [s|t IHt|k v IHk IHv|ts IH|n fs IH] using ty_ind2; intro Hs.
  - destruct s; cbn; lia.
  - cbn [idl_safe idl_depth idl_name] in *. cbn [append String.length]. rewrite slen_app. specialize (IHt Hs). lia.
  - cbn [idl_safe idl_depth idl_name] in *. apply andb_prop in Hs as [Hk Hv].
    cbn [append String.length]. repeat (rewrite slen_app; cbn [String.length]). specialize (IHk Hk). specialize (IHv Hv). lia.
  - assert (Hs' : forallb idl_safe ts = true) by (destruct ts; [discriminate|exact Hs]).
    cbn [idl_depth idl_name]. cbn [append String.length]. rewrite slen_app.
    assert (fold_right (fun t a => Nat.max (idl_depth t) a) 0 ts <= String.length (join "," (map idl_name ts))).
    { clear Hs. induction ts as [|t ts IHl]; [cbn; lia|].
      inversion IH as [|? ? Ht IH']; subst. cbn [forallb] in Hs'. apply andb_prop in Hs' as [H1 H2].
      specialize (IHl IH' H2). specialize (Ht H1). cbn [fold_right].
      destruct ts as [|u ts]; [cbn in *; lia|]. cbn [map]. rewrite join_cons2. repeat rewrite slen_app. cbn [map] in IHl. lia. }
    lia.
  - cbn [idl_safe] in Hs. apply andb_prop in Hs as [Hn _]. cbn. now apply safe_name_len.
Qed.

(* Layer 1, assembled: the IDL name of a safe type, alone in the input, is read back as a type
   expression whose signature — references resolved through a scope declaring the structs of t —
   is the signature of t *)
Theorem idl_type_roundtrip : forall t sc g, idl_safe t = true -> scope_has sc t -> ty_depth t < g ->
  exists i, fst (itype (S (String.length (idl_name t))) (idl_name t)) = Ok (NVal (VType i)) "" /\
            isig g sc i = Some (print t).
Proof.
  intros t sc g Hs Hsc Hg. exists (ity_of t). split.
  - pose proof (itype_name t Hs (S (String.length (idl_name t))) "") as H. rewrite sapp_nil_r in H.
    apply H; [|reflexivity]. pose proof (idl_depth_le_len t Hs). lia.
  - now apply isig_of.
Qed.
