(* SigSimple.v — a deterministic recursive-descent reader of printed signatures.  It accepts
   exactly the strings [print] produces (no white space, struct decided by the "<" that follows
   the closing parenthesis).  Used to evaluate the wire models until/unless the PEG model of
   signature.Parse (SigParse.v) is plugged in; on printed signatures the two agree. *)
From QV Require Import Sig.
Local Open Scope char_scope.

Definition scalar_of_char (c : ascii) : option scalar :=
  if Ascii.eqb c "c" then Some SI8 else if Ascii.eqb c "C" then Some SU8
  else if Ascii.eqb c "w" then Some SI16 else if Ascii.eqb c "W" then Some SU16
  else if Ascii.eqb c "i" then Some SI32 else if Ascii.eqb c "I" then Some SU32
  else if Ascii.eqb c "l" then Some SI64 else if Ascii.eqb c "L" then Some SU64
  else if Ascii.eqb c "f" then Some SF32 else if Ascii.eqb c "d" then Some SF64
  else if Ascii.eqb c "b" then Some SBool else if Ascii.eqb c "s" then Some SStr
  else if Ascii.eqb c "m" then Some SValue else if Ascii.eqb c "o" then Some SObject
  else if Ascii.eqb c "X" then Some SUnknown else if Ascii.eqb c "v" then Some SVoid
  else None.

Definition chars := list ascii.
Fixpoint chars_of (s : string) : chars := match s with EmptyString => [] | String c r => c :: chars_of r end.
Fixpoint string_of (l : chars) : string := match l with [] => EmptyString | c :: r => String c (string_of r) end.

(* longest prefix of identifier characters *)
Fixpoint span_ident (l : chars) : chars * chars :=
  match l with
  | c :: r => if is_alnum_ c then let '(a, b) := span_ident r in (c :: a, b) else ([], l)
  | [] => ([], [])
  end.
Definition read_ident (l : chars) : option (string * chars) :=
  match l with
  | c :: _ => if is_alpha c then let '(a, b) := span_ident l in Some (string_of a, b) else None
  | [] => None
  end.
(* Name or Name<Name> *)
Definition read_struct_name (l : chars) : option (string * chars) :=
  match read_ident l with
  | None => None
  | Some (a, r) =>
      match r with
      | "<" :: r1 =>
          match read_ident r1 with
          | Some (b, ">" :: r2) => Some ((a ++ "<" ++ b ++ ">")%string, r2)
          | _ => Some (a, r)
          end
      | _ => Some (a, r)
      end
  end.
Fixpoint read_members (fuel : nat) (l : chars) : list string * chars :=
  match fuel with
  | O => ([], l)
  | S f =>
      match l with
      | "," :: r => match read_ident r with
                    | Some (n, r') => let '(ns, r'') := read_members f r' in (n :: ns, r'')
                    | None => ([], l)
                    end
      | _ => ([], l)
      end
  end.

Section Many.
  Variable p : chars -> option (ty * chars).
  Fixpoint many_until_close (fuel : nat) (l : chars) : option (list ty * chars) :=
    match fuel with
    | O => None
    | S f =>
        match l with
        | ")" :: r => Some ([], r)
        | _ => match p l with
               | Some (t, r) => match many_until_close f r with Some (ts, r') => Some (t :: ts, r') | None => None end
               | None => None
               end
        end
    end.
End Many.

Fixpoint zip_fields (ns : list string) (ts : list ty) : option (list (string * ty)) :=
  match ns, ts with
  | [], [] => Some []
  | n :: ns', t :: ts' => match zip_fields ns' ts' with Some r => Some ((n, t) :: r) | None => None end
  | _, _ => None
  end.

Fixpoint parse1 (fuel : nat) (l : chars) : option (ty * chars) :=
  match fuel with
  | O => None
  | S f =>
      match l with
      | [] => None
      | "[" :: r => match parse1 f r with Some (t, "]" :: r') => Some (TList t, r') | _ => None end
      | "{" :: r => match parse1 f r with
                    | Some (k, r1) => match parse1 f r1 with Some (v, "}" :: r2) => Some (TMap k v, r2) | _ => None end
                    | None => None
                    end
      | "(" :: r =>
          match many_until_close (parse1 f) (S (List.length r)) r with
          | Some (ts, "<" :: r1) =>
              match read_struct_name r1 with
              | Some (n, r2) =>
                  let '(ns, r3) := read_members (List.length r2) r2 in
                  match r3 with
                  | ">" :: r4 => match zip_fields ns ts with Some fs => Some (TStruct n fs, r4) | None => None end
                  | _ => None
                  end
              | None => None
              end
          | Some (ts, r1) => Some (TTuple ts, r1)
          | None => None
          end
      | c :: r => match scalar_of_char c with Some s => Some (TS s, r) | None => None end
      end
  end.

Definition parse_simple (s : string) : option ty :=
  let l := chars_of s in
  match parse1 (S (List.length l)) l with
  | Some (t, []) => Some t
  | _ => None
  end.
