(* Peg.v — goparsec's combinators (github.com/prataprc/goparsec, pinned at
   v0.0.0-20211219142520-daac0e635e7e: parsec.go, tokeniser.go, scanner.go) as executable
   Gallina functions over the remaining input.

   What the Go code does and how it is said here:
   * a Scanner is the input plus a cursor; every combinator and terminal works on a Clone() and
     returns the *original* scanner when it fails, so a failed parser leaves no trace: the model
     is a function of the remaining input and a failure carries no rest;
   * Atom / Token / OrdTokens skip leading white space (`^[ \t\r\n]+`) on their clone, then
     match; the white space is consumed only if the match succeeds;
   * And collects the children's nodes; the first child that fails fails the And; the Nodify
     callback's result (any non-nil value, error values included) is the node: an error value
     returned by a callback is an ordinary node ([NErr]), so And/OrdChoice *succeed* with it and
     nothing backtracks;
   * OrdChoice tries the alternatives in order on clones of the same scanner, first success wins;
   * Kleene applies its parser until it fails and never fails itself (with a separator: until
     either fails; a separator that matched before a failing element stays consumed);
   * Many = Kleene with at least one element; Maybe yields MaybeNone instead of failing.
   No callback of meta/signature or meta/idl returns nil, so callbacks are total functions to
   nodes (a nil callback yields the list of children, [NList]).

   Every parser also returns the number of parser invocations it made (terminals and
   combinators count one each): C07 is about that number.

   Outcomes that are not results of the Go code: [NoFuel] (the model's recursion depth bound was
   reached; theorems show it unreachable for the fuel the entry points choose) and [Hang]
   (Kleene/Many around a parser that succeeded without consuming input: the Go loop would never
   end). *)
From Coq Require Import String Ascii List NArith Bool Arith.
Import ListNotations.
Local Open Scope string_scope.

Section Peg.
Context {V : Type}.

Inductive node :=
| NTerm (value : string)     (* *parsec.Terminal; only GetValue() is ever used *)
| NVal (v : V)               (* a value built by a Nodify callback *)
| NErr                       (* an error value returned by a Nodify callback *)
| NNone                      (* parsec.MaybeNone *)
| NList (l : list node).     (* []ParsecNode *)

Inductive res (A : Type) :=
| Ok (a : A) (rest : string)
| Fail
| NoFuel
| Hang.
Arguments Ok {A}. Arguments Fail {A}. Arguments NoFuel {A}. Arguments Hang {A}.

Definition parser := string -> res node * N.

(* ---------- scanner ---------- *)
Definition is_ws (c : ascii) : bool :=
  (Ascii.eqb c " " || Ascii.eqb c "009" || Ascii.eqb c "013" || Ascii.eqb c "010")%char.

Fixpoint skip_ws (s : string) : string :=
  match s with
  | String c r => if is_ws c then skip_ws r else s
  | EmptyString => s
  end.

Fixpoint strip_prefix (p s : string) : option string :=
  match p with
  | EmptyString => Some s
  | String a p' =>
      match s with
      | String b s' => if Ascii.eqb a b then strip_prefix p' s' else None
      | EmptyString => None
      end
  end.

(* longest prefix whose characters satisfy p, and what follows *)
Fixpoint span (p : ascii -> bool) (s : string) : string * string :=
  match s with
  | String c r => if p c then let (a, b) := span p r in (String c a, b) else (EmptyString, s)
  | EmptyString => (EmptyString, EmptyString)
  end.

(* ---------- terminals ---------- *)
(* parsec.Atom(m, _) *)
Definition atom (m : string) : parser := fun s =>
  match strip_prefix m (skip_ws s) with
  | Some r => (Ok (NTerm m) r, 1%N)
  | None => (Fail, 1%N)
  end.

(* parsec.Token(`[c1][c2]*`, _): one character of class p1, then the longest run of class p2
   (Go's regexp is leftmost-first with greedy repetition; nothing follows the star) *)
Definition token1 (p1 p2 : ascii -> bool) : parser := fun s =>
  match skip_ws s with
  | String c r => if p1 c then let (a, b) := span p2 r in (Ok (NTerm (String c a)) b, 1%N) else (Fail, 1%N)
  | EmptyString => (Fail, 1%N)
  end.

(* ---------- combinators ---------- *)
Definition callback := option (list node -> node).
Definition docb (cb : callback) (ns : list node) : node :=
  match cb with Some f => f ns | None => NList ns end.

Fixpoint and_loop (ps : list parser) (cur : string) : res (list node) * N :=
  match ps with
  | [] => (Ok [] cur, 0%N)
  | p :: ps' =>
      match p cur with
      | (Ok n r, k) =>
          match and_loop ps' r with
          | (Ok ns r', k') => (Ok (n :: ns) r', (k + k')%N)
          | (Fail, k') => (Fail, (k + k')%N)
          | (NoFuel, k') => (NoFuel, (k + k')%N)
          | (Hang, k') => (Hang, (k + k')%N)
          end
      | (Fail, k) => (Fail, k)
      | (NoFuel, k) => (NoFuel, k)
      | (Hang, k) => (Hang, k)
      end
  end.

(* parsec.And *)
Definition pand (cb : callback) (ps : list parser) : parser := fun s =>
  match and_loop ps s with
  | (Ok ns r, k) => (Ok (docb cb ns) r, (1 + k)%N)
  | (Fail, k) => (Fail, (1 + k)%N)
  | (NoFuel, k) => (NoFuel, (1 + k)%N)
  | (Hang, k) => (Hang, (1 + k)%N)
  end.

(* parsec.OrdChoice *)
Fixpoint por (cb : callback) (ps : list parser) : parser := fun s =>
  match ps with
  | [] => (Fail, 1%N)
  | p :: ps' =>
      match p s with
      | (Ok n r, k) => (Ok (docb cb [n]) r, (1 + k)%N)
      | (Fail, k) => let (x, k') := por cb ps' s in (x, (k + k')%N)
      | (NoFuel, k) => (NoFuel, k)
      | (Hang, k) => (Hang, k)
      end
  end.

(* the loop of parsec.Kleene / parsec.Many without separator.  [n] bounds the number of
   iterations by the length of the input: an iteration that does not shorten the input would
   repeat for ever in Go ([Hang]). *)
Fixpoint kleene_loop (n : nat) (p : parser) (cur : string) : res (list node) * N :=
  match n with
  | O => (Hang, 0%N)
  | S n' =>
      match p cur with
      | (Ok x r, k) =>
          if Nat.ltb (String.length r) (String.length cur) then
            match kleene_loop n' p r with
            | (Ok xs r', k') => (Ok (x :: xs) r', (k + k')%N)
            | (Fail, k') => (Fail, (k + k')%N)
            | (NoFuel, k') => (NoFuel, (k + k')%N)
            | (Hang, k') => (Hang, (k + k')%N)
            end
          else (Hang, k)
      | (Fail, k) => (Ok [] cur, k)
      | (NoFuel, k) => (NoFuel, k)
      | (Hang, k) => (Hang, k)
      end
  end.

(* parsec.Kleene(cb, p): never fails *)
Definition kleene (cb : callback) (p : parser) : parser := fun s =>
  match kleene_loop (S (String.length s)) p s with
  | (Ok ns r, k) => (Ok (docb cb ns) r, (1 + k)%N)
  | (Fail, k) => (Fail, (1 + k)%N)
  | (NoFuel, k) => (NoFuel, (1 + k)%N)
  | (Hang, k) => (Hang, (1 + k)%N)
  end.

(* the loop with a separator: element, then separator; stops at the first of the two that
   fails; a separator matched before a failing element stays consumed *)
Fixpoint sep_loop (n : nat) (p sep : parser) (cur : string) : res (list node) * N :=
  match n with
  | O => (Hang, 0%N)
  | S n' =>
      match p cur with
      | (Ok x r, k) =>
          match sep r with
          | (Ok _ r2, k2) =>
              if Nat.ltb (String.length r2) (String.length cur) then
                match sep_loop n' p sep r2 with
                | (Ok xs r', k') => (Ok (x :: xs) r', (k + k2 + k')%N)
                | (Fail, k') => (Fail, (k + k2 + k')%N)
                | (NoFuel, k') => (NoFuel, (k + k2 + k')%N)
                | (Hang, k') => (Hang, (k + k2 + k')%N)
                end
              else (Hang, (k + k2)%N)
          | (Fail, k2) => (Ok [x] r, (k + k2)%N)
          | (NoFuel, k2) => (NoFuel, (k + k2)%N)
          | (Hang, k2) => (Hang, (k + k2)%N)
          end
      | (Fail, k) => (Ok [] cur, k)
      | (NoFuel, k) => (NoFuel, k)
      | (Hang, k) => (Hang, k)
      end
  end.

(* parsec.Many(cb, p, sep): at least one element, else fails *)
Definition many_sep (cb : callback) (p sep : parser) : parser := fun s =>
  match sep_loop (S (String.length s)) p sep s with
  | (Ok [] _, k) => (Fail, (1 + k)%N)
  | (Ok ns r, k) => (Ok (docb cb ns) r, (1 + k)%N)
  | (Fail, k) => (Fail, (1 + k)%N)
  | (NoFuel, k) => (NoFuel, (1 + k)%N)
  | (Hang, k) => (Hang, (1 + k)%N)
  end.

(* parsec.Kleene(cb, p, sep): as Many with a separator, but no element is fine *)
Definition kleene_sep (cb : callback) (p sep : parser) : parser := fun s =>
  match sep_loop (S (String.length s)) p sep s with
  | (Ok ns r, k) => (Ok (docb cb ns) r, (1 + k)%N)
  | (Fail, k) => (Fail, (1 + k)%N)
  | (NoFuel, k) => (NoFuel, (1 + k)%N)
  | (Hang, k) => (Hang, (1 + k)%N)
  end.

(* parsec.Maybe(cb, p) *)
Definition maybe (cb : callback) (p : parser) : parser := fun s =>
  match p s with
  | (Ok n r, k) => (Ok (docb cb [n]) r, (1 + k)%N)
  | (Fail, k) => (Ok NNone s, (1 + k)%N)
  | (NoFuel, k) => (NoFuel, (1 + k)%N)
  | (Hang, k) => (Hang, (1 + k)%N)
  end.

End Peg.

Arguments node : clear implicits.
Arguments parser : clear implicits.
Arguments callback : clear implicits.
Arguments Ok {A}. Arguments Fail {A}. Arguments NoFuel {A}. Arguments Hang {A}.
