(* SignalsFwdProofs.v — invariants of SignalsFwd.v over every run, and the replay is a run. *)
From QV Require Import Signals SignalsLemmas SignalsFwd.
Local Open Scope N_scope.

(* ---- lists ---- *)
Lemma nth_error_imap {A B} (f : nat -> A -> B) l : forall i s,
  nth_error (imap f i l) s = option_map (f (i + s)%nat) (nth_error l s).
Proof.
  induction l as [|a l IH]; intros i s; destruct s; simpl; auto.
  - now rewrite Nat.add_0_r.
  - rewrite IH. now replace (S i + s)%nat with (i + S s)%nat by lia.
Qed.

Lemma existsb_imap_false {A} (g : nat -> A -> bool) l : forall i,
  existsb (fun b => b) (imap g i l) = false ->
  forall s x, nth_error l s = Some x -> g (i + s)%nat x = false.
Proof.
  induction l as [|a l IH]; intros i H s x Hx; destruct s; simpl in *; try discriminate.
  - inversion Hx; subst. apply orb_false_iff in H. now rewrite Nat.add_0_r.
  - apply orb_false_iff in H. destruct H as [_ H].
    replace (i + S s)%nat with (S i + s)%nat by lia. now apply IH.
Qed.

Lemma nth_set {A} (l : list A) s x y s' : nth_error l s = Some y ->
  nth_error (set_nth l s x) s' = if Nat.eqb s' s then Some x else nth_error l s'.
Proof.
  intros H. destruct (Nat.eqb_spec s' s) as [->|Hn].
  - eapply nth_error_set_nth_eq; eauto.
  - apply nth_error_set_nth_neq; auto.
Qed.

Lemma nth_error_app_old {A} (l : list A) x s y : nth_error l s = Some y -> nth_error (l ++ [x]) s = Some y.
Proof. intros H. rewrite nth_error_app1; auto. apply nth_error_Some. congruence. Qed.

Lemma nth_error_app_cases {A} (l : list A) x s y : nth_error (l ++ [x]) s = Some y ->
  nth_error l s = Some y \/ (s = List.length l /\ y = x).
Proof.
  intros H. destruct (Nat.lt_ge_cases s (List.length l)) as [Hl|Hl].
  - left. now rewrite nth_error_app1 in H.
  - right. rewrite nth_error_app2 in H by lia.
    destruct (s - List.length l)%nat as [|k] eqn:E; simpl in H.
    + inversion H. split; auto. lia.
    + destruct k; discriminate.
Qed.

(* ---- the invariant ---- *)
Definition sub_ok (sl : nat -> option nat) (ov dn : bool) (s : nat) (x : fsub) : Prop :=
  (f_qclosed x = false -> sl (f_slot x) = Some s /\ f_done x = false) /\
  (f_qclosed x = true -> (f_abort x = true /\ f_done x = true) \/ dn = true) /\
  (f_done x = true -> f_qclosed x = true) /\
  (ov = false -> f_got x ++ oh (f_hold x) ++ f_queue x = f_all x).
Definition slot_ok (st : fstate) : Prop :=
  forall i s, slots st i = Some s ->
  exists x, nth_error (fsubs st) s = Some x /\ f_slot x = i /\ f_qclosed x = false.
Definition down_ok (st : fstate) : Prop := fdown st = true -> forall i, slots st i = None.
Definition Inv (st : fstate) : Prop :=
  slot_ok st /\ down_ok st /\
  forall s x, nth_error (fsubs st) s = Some x -> sub_ok (slots st) (fover st) (fdown st) s x.

Lemma inv_init : Inv finit.
Proof.
  split; [|split].
  - intros i s H; discriminate.
  - intros _ i; reflexivity.
  - intros s x H. destruct s; discriminate.
Qed.

(* a step that changes one subscription and neither its slot nor the state of its queue *)
Lemma inv_fset st s x x' : Inv st -> nth_error (fsubs st) s = Some x ->
  f_slot x' = f_slot x -> f_qclosed x' = f_qclosed x ->
  sub_ok (slots st) (fover st) (fdown st) s x' -> Inv (fset st s x').
Proof.
  intros (Hs & Hd & Ho) Hx Esl Eq Hok. split; [|split].
  - intros i s0 Hi. destruct (Hs i s0 Hi) as (x0 & H0 & H1 & H2). simpl.
    rewrite (nth_set _ _ _ _ s0 Hx). destruct (Nat.eqb_spec s0 s) as [->|Hn].
    + rewrite Hx in H0. inversion H0; subst x0. exists x'. repeat split; congruence.
    + exists x0. auto.
  - exact Hd.
  - intros s0 x0. simpl. rewrite (nth_set _ _ _ _ s0 Hx). destruct (Nat.eqb_spec s0 s) as [->|Hn].
    + intros E; inversion E; subst; exact Hok.
    + apply Ho.
Qed.

Lemma owns_iff st s x : Inv st -> nth_error (fsubs st) s = Some x ->
  owns st s x = negb (f_done x) && negb (fdown st).
Proof.
  intros (Hs & Hd & Ho) Hx. destruct (Ho s x Hx) as (C1 & C2 & C3 & _). unfold owns.
  destruct (f_qclosed x) eqn:Eq.
  - (* closed: the slot is not ours any more *)
    assert (Hno : match slots st (f_slot x) with Some o => Nat.eqb o s | None => false end = false).
    { destruct (slots st (f_slot x)) as [o|] eqn:Es; auto. destruct (Nat.eqb_spec o s) as [->|]; auto.
      destruct (Hs _ _ Es) as (y & Hy & _ & Hq). rewrite Hx in Hy. inversion Hy; subst y. congruence. }
    rewrite Hno. destruct (C2 eq_refl) as [[_ Hdn]|Hdn]; rewrite Hdn; simpl; auto. now rewrite andb_false_r.
  - destruct (C1 eq_refl) as [Hsl Hdn]. rewrite Hsl, Nat.eqb_refl, Hdn. simpl.
    destruct (fdown st) eqn:Ed; auto. rewrite (Hd Ed) in Hsl. discriminate.
Qed.

Ltac sm := unfold fset in *; cbn [slots fsubs fover fdown] in *.

Lemma inv_step st l st' : Inv st -> fstep st l = Some st' -> Inv st'.
Proof.
  intros HI Hst. pose proof HI as (Hs & Hd & Ho). destruct l as [sig i|sig p|s|s|s|s|s|]; simpl in Hst.
  - (* FSub *)
    destruct (slots st i) eqn:Ei; try discriminate. destruct (fdown st) eqn:Edn; try discriminate.
    inversion Hst; subst st'; clear Hst. split; [|split]; simpl.
    + intros i0 s0 H0. sm. unfold fupd in H0. destruct (Nat.eqb_spec i0 i) as [->|Hn].
      * inversion H0; subst s0. exists (new_fsub sig i). rewrite nth_error_app_last. auto.
      * destruct (Hs _ _ H0) as (x0 & A & B & C). exists x0. split; auto. now apply nth_error_app_old.
    + intros; discriminate.
    + intros s0 x0 H0. sm. apply nth_error_app_cases in H0. destruct H0 as [H0|[-> ->]].
      * destruct (Ho _ _ H0) as (C1 & C2 & C3 & C4). split; [|split; [|split]]; auto.
        intros Hq. destruct (C1 Hq) as [A B]. split; auto.
        unfold fupd. destruct (Nat.eqb_spec (f_slot x0) i) as [E|_]; auto. rewrite E in A. congruence.
      * split; [|split; [|split]]; simpl; try discriminate; auto.
        intros _. split; auto. unfold fupd. now rewrite Nat.eqb_refl.
  - (* FEvent *)
    inversion Hst; subst st'; clear Hst. split; [|split]; simpl.
    + intros i s0 H0. sm. destruct (Hs _ _ H0) as (x0 & A & B & C).
      exists (fst (on_event st sig p s0 x0)). rewrite nth_error_imap, A. simpl. split; [reflexivity|].
      unfold on_event. destruct (f_sig x0 =? sig); [destruct (owns st s0 x0); [destruct (Nat.ltb _ _)|]|]; simpl; auto.
    + exact Hd.
    + intros s0 x0 H0. sm. rewrite nth_error_imap in H0. destruct (nth_error (fsubs st) s0) as [y|] eqn:Ey; try discriminate.
      simpl in H0. inversion H0; subst x0; clear H0. destruct (Ho _ _ Ey) as (C1 & C2 & C3 & C4).
      pose proof (owns_iff st s0 y HI Ey) as Hown.
      set (ex := existsb (fun b => b) (imap (fun s x => snd (on_event st sig p s x)) 0 (fsubs st))).
      assert (Hq : exists q a, fst (on_event st sig p s0 y) = fs_qa y q a /\
                    (fover st || ex = false -> f_got y ++ oh (f_hold y) ++ q = a)).
      { unfold on_event. destruct (f_sig y =? sig) eqn:Esig.
        - rewrite Hown. destruct (negb (f_done y) && negb (fdown st)) eqn:Eb.
          + destruct (Nat.ltb (List.length (f_queue y)) QueueCap) eqn:El.
            * eexists _, _. split; [reflexivity|]. intros Hov. apply orb_false_iff in Hov. destruct Hov as [Hov _].
              rewrite <- (C4 Hov). now rewrite !app_assoc.
            * eexists _, _. split; [reflexivity|]. intros Hov. exfalso. apply orb_false_iff in Hov. destruct Hov as [_ Hex].
              pose proof (existsb_imap_false _ _ _ Hex s0 y Ey) as Hno. simpl in Hno.
              unfold on_event in Hno. rewrite Esig, Hown, Eb, El in Hno. discriminate.
          + eexists _, _. split; [reflexivity|]. intros Hov. apply orb_false_iff in Hov. apply C4, Hov.
        - exists (f_queue y), (f_all y). split; [destruct y; reflexivity|].
          intros Hov. apply orb_false_iff in Hov. apply C4, Hov. }
      destruct Hq as (q & a & -> & Hqa). split; [|split; [|split]]; simpl; auto.
  - (* FTake *)
    destruct (nth_error (fsubs st) s) as [x|] eqn:Ex; try discriminate.
    destruct (f_done x) eqn:Edn; try discriminate. destruct (f_hold x) eqn:Eh; try discriminate.
    destruct (f_queue x) as [|p q] eqn:Eq; try discriminate. inversion Hst; subst st'.
    eapply inv_fset; eauto. destruct (Ho _ _ Ex) as (C1 & C2 & C3 & C4). repeat split; simpl; auto.
    + now apply C1.
    + intros Hov. rewrite <- (C4 Hov), Eh, Eq. reflexivity.
  - (* FRead *)
    destruct (nth_error (fsubs st) s) as [x|] eqn:Ex; try discriminate.
    destruct (f_hold x) as [p|] eqn:Eh; try discriminate. inversion Hst; subst st'.
    eapply inv_fset; eauto. destruct (Ho _ _ Ex) as (C1 & C2 & C3 & C4). repeat split; simpl; auto.
    + now apply C1.
    + now apply C1.
    + intros Hov. rewrite <- (C4 Hov), Eh. simpl. now rewrite <- app_assoc.
  - (* FCancel *)
    destruct (nth_error (fsubs st) s) as [x|] eqn:Ex; try discriminate.
    destruct (f_abort x) eqn:Ea; try discriminate. inversion Hst; subst st'.
    eapply inv_fset; eauto. destruct (Ho _ _ Ex) as (C1 & C2 & C3 & C4). repeat split; simpl; auto.
    + now apply C1.
    + now apply C1.
    + intros Hq. destruct (C2 Hq) as [[A _]|A]; auto. congruence.
  - (* FAbort *)
    destruct (nth_error (fsubs st) s) as [x|] eqn:Ex; try discriminate.
    destruct (f_done x) eqn:Edn; try discriminate. destruct (f_hold x) eqn:Eh; try discriminate.
    destruct (f_abort x) eqn:Ea; try discriminate.
    destruct (Ho _ _ Ex) as (C1 & C2 & C3 & C4). destruct (f_qclosed x) eqn:Eq.
    + (* the queue was closed by the connection's end: no slot is occupied *)
      destruct (C2 eq_refl) as [[_ A]|A]; [congruence|].
      unfold remove_handler in Hst. rewrite (Hd A) in Hst. rewrite Ex in Hst. inversion Hst; subst st'.
      eapply inv_fset; eauto. split; [|split; [|split]]; simpl; auto.
      * intros Hq; congruence.
    + destruct (C1 eq_refl) as [Hsl _]. unfold remove_handler in Hst. rewrite Hsl, Ex in Hst. simpl in Hst.
      rewrite (nth_error_set_nth_eq _ _ _ _ Ex) in Hst. inversion Hst; subst st'; clear Hst.
      split; [|split]; simpl.
      * intros i s0 H0. sm. unfold fupd in H0. destruct (Nat.eqb_spec i (f_slot x)) as [|Hn]; try discriminate.
        destruct (Hs _ _ H0) as (x0 & A & B & C). exists x0. split; auto.
        assert (s0 <> s) by (intros ->; rewrite Ex in A; inversion A; subst; congruence).
        rewrite nth_error_set_nth_neq by auto. rewrite nth_error_set_nth_neq by auto. exact A.
      * intros A i. sm. unfold fupd. destruct (Nat.eqb i (f_slot x)); auto.
      * intros s0 x0 H0. sm.
        assert (Hx1 : nth_error (set_nth (fsubs st) s (fs_qclose x)) s = Some (fs_qclose x))
          by (eapply nth_error_set_nth_eq; eauto).
        rewrite (nth_set _ _ _ _ s0 Hx1) in H0. destruct (Nat.eqb_spec s0 s) as [->|Hn].
        -- inversion H0; subst x0. repeat split; simpl; auto; try discriminate.
        -- rewrite nth_error_set_nth_neq in H0 by auto. destruct (Ho _ _ H0) as (D1 & D2 & D3 & D4).
           repeat split; auto; try (now apply D1).
           destruct (D1 H) as [A _]. unfold fupd. destruct (Nat.eqb_spec (f_slot x0) (f_slot x)) as [E|_]; auto.
           rewrite E, Hsl in A. inversion A. congruence.
  - (* FQClosed *)
    destruct (nth_error (fsubs st) s) as [x|] eqn:Ex; try discriminate.
    destruct (f_done x) eqn:Edn; try discriminate. destruct (f_hold x) eqn:Eh; try discriminate.
    destruct (f_queue x) eqn:Eq; try discriminate. destruct (f_qclosed x) eqn:Ec; try discriminate.
    inversion Hst; subst st'. eapply inv_fset; eauto.
    destruct (Ho _ _ Ex) as (C1 & C2 & C3 & C4). split; [|split; [|split]]; simpl; auto.
    + intros Hq; congruence.
    + intros _. destruct (C2 Ec) as [[A _]|A]; auto.
  - (* FDown *)
    destruct (fdown st) eqn:Edn; try discriminate. inversion Hst; subst st'; clear Hst.
    split; [|split]; simpl.
    + intros i s0 H0. sm. discriminate.
    + intros _ i. reflexivity.
    + intros s0 x0 H0. sm. rewrite nth_error_map in H0. destruct (nth_error (fsubs st) s0) as [y|] eqn:Ey; try discriminate.
      inversion H0; subst x0. destruct (Ho _ _ Ey) as (C1 & C2 & C3 & C4).
      split; [|split; [|split]]; simpl; auto. intros Hq; discriminate.
Qed.

Lemma inv_run tr : forall st st', Inv st -> frun st tr = Some st' -> Inv st'.
Proof.
  induction tr as [|l tr IH]; intros st st' HI H; simpl in H.
  - now inversion H; subst.
  - destruct (fstep st l) as [st1|] eqn:E; try discriminate. eapply IH; [|eauto]. eapply inv_step; eauto.
Qed.

Lemma reach_inv tr st : frun finit tr = Some st -> Inv st.
Proof. apply inv_run, inv_init. Qed.

(* ---- what the forwarder's RemoveHandler removes ---- *)
Lemma abort_removes_own st s st' : Inv st -> fstep st (FAbort s) = Some st' ->
  forall s', s' <> s ->
    nth_error (fsubs st') s' = nth_error (fsubs st) s' /\
    (forall i, slots st i = Some s' -> slots st' i = Some s').
Proof.
  intros (Hs & Hd & Ho) Hst s' Hn. simpl in Hst.
  destruct (nth_error (fsubs st) s) as [x|] eqn:Ex; try discriminate.
  destruct (f_done x) eqn:Edn; try discriminate. destruct (f_hold x) eqn:Eh; try discriminate.
  destruct (f_abort x) eqn:Ea; try discriminate.
  destruct (Ho _ _ Ex) as (C1 & C2 & C3 & C4). destruct (f_qclosed x) eqn:Eq.
  - destruct (C2 eq_refl) as [[_ A]|A]; [congruence|].
    unfold remove_handler in Hst. rewrite (Hd A) in Hst. rewrite Ex in Hst. inversion Hst; subst st'. simpl.
    split; auto. apply nth_error_set_nth_neq; auto.
  - destruct (C1 eq_refl) as [Hsl _]. unfold remove_handler in Hst. rewrite Hsl, Ex in Hst. simpl in Hst.
    rewrite (nth_error_set_nth_eq _ _ _ _ Ex) in Hst. inversion Hst; subst st'; clear Hst. simpl. split.
    + rewrite nth_error_set_nth_neq by auto. apply nth_error_set_nth_neq; auto.
    + intros i Hi. unfold fupd. destruct (Nat.eqb_spec i (f_slot x)) as [->|]; auto. congruence.
Qed.

(* every label but a forwarder's own FAbort and the connection's end leaves the queues open and the slots occupied *)
Lemma only_abort_or_down_closes st l st' s x : Inv st -> fstep st l = Some st' ->
  nth_error (fsubs st) s = Some x -> f_qclosed x = false ->
  l <> FAbort s -> l <> FDown ->
  exists x', nth_error (fsubs st') s = Some x' /\ f_qclosed x' = false.
Proof.
  intros HI Hst Hx Hq N1 N2. pose proof HI as (Hs & Hd & Ho).
  destruct l as [sig i|sig p|s0|s0|s0|s0|s0|]; try congruence.
  - simpl in Hst. destruct (slots st i); try discriminate. destruct (fdown st); try discriminate.
    inversion Hst; subst st'. simpl. exists x. split; auto. now apply nth_error_app_old.
  - simpl in Hst. inversion Hst; subst st'. simpl. rewrite nth_error_imap, Hx. simpl. eexists; split; [reflexivity|].
    unfold on_event. destruct (f_sig x =? sig); [destruct (owns st s x); [destruct (Nat.ltb _ _)|]|]; simpl; auto.
  - simpl in Hst. destruct (nth_error (fsubs st) s0) as [y|] eqn:Ey; try discriminate.
    destruct (f_done y); try discriminate. destruct (f_hold y); try discriminate.
    destruct (f_queue y) eqn:Eq; try discriminate. inversion Hst; subst st'. simpl.
    rewrite (nth_set _ _ _ _ s Ey). destruct (Nat.eqb_spec s s0) as [->|]; eauto.
    rewrite Hx in Ey. inversion Ey; subst y. eexists; split; [reflexivity|]. auto.
  - simpl in Hst. destruct (nth_error (fsubs st) s0) as [y|] eqn:Ey; try discriminate.
    destruct (f_hold y); try discriminate. inversion Hst; subst st'. simpl.
    rewrite (nth_set _ _ _ _ s Ey). destruct (Nat.eqb_spec s s0) as [->|]; eauto.
    rewrite Hx in Ey. inversion Ey; subst y. eexists; split; [reflexivity|]. auto.
  - simpl in Hst. destruct (nth_error (fsubs st) s0) as [y|] eqn:Ey; try discriminate.
    destruct (f_abort y); try discriminate. inversion Hst; subst st'. simpl.
    rewrite (nth_set _ _ _ _ s Ey). destruct (Nat.eqb_spec s s0) as [->|]; eauto.
    rewrite Hx in Ey. inversion Ey; subst y. eexists; split; [reflexivity|]. auto.
  - assert (s <> s0) by congruence.
    destruct (abort_removes_own _ _ _ HI Hst s H) as [E _]. rewrite E. eauto.
  - simpl in Hst. destruct (nth_error (fsubs st) s0) as [y|] eqn:Ey; try discriminate.
    destruct (f_done y); try discriminate. destruct (f_hold y); try discriminate.
    destruct (f_queue y); try discriminate. destruct (f_qclosed y) eqn:Ec; try discriminate.
    inversion Hst; subst st'. simpl.
    rewrite (nth_set _ _ _ _ s Ey). destruct (Nat.eqb_spec s s0) as [->|]; eauto.
    rewrite Hx in Ey. inversion Ey; subst y. congruence.
Qed.

(* ---- the replay of an observed operation sequence is a run of the transition system ---- *)
Lemma frun_app st tr1 st1 tr2 : frun st tr1 = Some st1 -> frun st (tr1 ++ tr2) = frun st1 tr2.
Proof.
  revert st. induction tr1 as [|l tr1 IH]; intros st H; simpl in *.
  - now inversion H.
  - destruct (fstep st l); try discriminate. now apply IH.
Qed.

Lemma ffirst_step st ls st' : ffirst st ls = Some st' -> exists l, fstep st l = Some st'.
Proof.
  induction ls as [|l ls IH]; simpl; try discriminate.
  destruct (fstep st l) eqn:E; eauto. intros H; inversion H; subst; eauto.
Qed.

Lemma fsettle_run fuel : forall st, exists tr, frun st tr = Some (fsettle fuel st).
Proof.
  induction fuel as [|f IH]; intros st; simpl.
  - exists []. reflexivity.
  - destruct (ffirst st _) as [st1|] eqn:E.
    + destruct (ffirst_step _ _ _ E) as [l Hl]. destruct (IH st1) as [tr Htr].
      exists (l :: tr). simpl. now rewrite Hl.
    + exists []. reflexivity.
Qed.

Lemma settle_after st l st1 : fstep st l = Some st1 -> exists tr, frun st tr = Some (settle st1).
Proof.
  intros H. destruct (fsettle_run (2 * List.length (fsubs st1) + 2) st1) as [tr Htr].
  exists (l :: tr). simpl. now rewrite H.
Qed.

Lemma fexec_run st o st' : fexec st o = Some st' -> exists tr, frun st tr = Some st'.
Proof.
  destruct o as [sig|sig p|s|s p|s|s|]; unfold fexec; intros H.
  - destruct (fstep st (FSub sig _)) eqn:E; try discriminate. inversion H; subst. eapply settle_after; eauto.
  - destruct (fstep st (FEvent sig p)) eqn:E; try discriminate. inversion H; subst. eapply settle_after; eauto.
  - destruct (fstep st (FCancel s)) eqn:E; try discriminate. inversion H; subst. eapply settle_after; eauto.
  - destruct (nth_error (fsubs st) s) as [x|]; try discriminate.
    destruct (f_hold x) as [p'|].
    + destruct (p' =? p); try discriminate.
      destruct (fstep st (FRead s)) eqn:E; try discriminate. inversion H; subst. eapply settle_after; eauto.
    + destruct (f_queue x) as [|p' q]; try discriminate. destruct (p' =? p); try discriminate.
      destruct (fstep st (FTake s)) as [st1|] eqn:E1; try discriminate. unfold bind in H.
      destruct (fstep st1 (FRead s)) as [st2|] eqn:E2; try discriminate. inversion H; subst.
      destruct (settle_after _ _ _ E2) as [tr Htr]. exists (FTake s :: tr).
      change (frun st (FTake s :: tr)) with (match fstep st (FTake s) with Some st' => frun st' tr | None => None end).
      now rewrite E1.
  - destruct (nth_error (fsubs st) s) as [x|]; try discriminate. destruct (f_done x).
    + inversion H; subst. exists []. reflexivity.
    + destruct (fstep st (FAbort s)) eqn:E; try discriminate. inversion H; subst. eapply settle_after; eauto.
  - destruct (nth_error (fsubs st) s) as [x|]; try discriminate.
    destruct (f_done x), (f_hold x), (f_queue x), (f_abort x), (f_qclosed x); try discriminate.
    inversion H; subst. exists []. reflexivity.
  - destruct (fstep st FDown) eqn:E; try discriminate. inversion H; subst. eapply settle_after; eauto.
Qed.

Lemma freplay_run os : forall st st', freplay st os = Some st' -> exists tr, frun st tr = Some st'.
Proof.
  induction os as [|o os IH]; intros st st' H; simpl in H.
  - inversion H; subst. exists []. reflexivity.
  - destruct (fexec st o) as [st1|] eqn:E; try discriminate. simpl in H.
    destruct (fexec_run _ _ _ E) as [tr1 H1]. destruct (IH _ _ H) as [tr2 H2].
    exists (tr1 ++ tr2). now rewrite (frun_app _ _ _ _ H1).
Qed.

(* ---- the statements of props/C13.v ---- *)
Lemma fwd_holds : forall tr st s x,
  frun finit tr = Some st -> nth_error (fsubs st) s = Some x ->
  (fover st = false -> f_got x ++ oh (f_hold x) ++ f_queue x = f_all x) /\
  (f_abort x = false -> fdown st = false ->
     f_qclosed x = false /\ f_done x = false /\ slots st (f_slot x) = Some s).
Proof.
  intros tr st s x Hr Hx. destruct (reach_inv _ _ Hr) as (_ & _ & Ho).
  destruct (Ho _ _ Hx) as (C1 & C2 & C3 & C4). split; auto.
  intros Ha Hd. destruct (f_qclosed x) eqn:Eq.
  - destruct (C2 eq_refl) as [[A _]|A]; congruence.
  - destruct (C1 eq_refl). auto.
Qed.

Lemma fwd_cancel_own : forall tr st s st',
  frun finit tr = Some st -> fstep st (FAbort s) = Some st' ->
  forall s', s' <> s ->
    nth_error (fsubs st') s' = nth_error (fsubs st) s' /\
    (forall i, slots st i = Some s' -> slots st' i = Some s').
Proof. intros tr st s st' Hr. apply abort_removes_own. eapply reach_inv; eauto. Qed.

Lemma fwd_closed_by : forall tr st l st' s x,
  frun finit tr = Some st -> fstep st l = Some st' ->
  nth_error (fsubs st) s = Some x -> f_qclosed x = false ->
  l <> FAbort s -> l <> FDown ->
  exists x', nth_error (fsubs st') s = Some x' /\ f_qclosed x' = false.
Proof. intros tr st l st' s x Hr. apply only_abort_or_down_closes. eapply reach_inv; eauto. Qed.

Lemma fwd_replay_is_run : forall os st, freplay finit os = Some st -> exists tr, frun finit tr = Some st.
Proof. intros os st. apply freplay_run. Qed.

(* A leaves while event 1 is undelivered for it (its forwarder is blocked in the send), B subscribes on the
   same client before A reads on, A reads to the end, event 2 is B's alone: B's handler sits in another
   slot (A's is still occupied when B arrives), A's forwarder removes slot 0, B receives 2 and stays open *)
Definition fwd_ops_ex : list fop :=
  [XSub 200; XEvent 200 1; XCancel 0; XSub 200; XGot 0 1; XClosed 0; XEvent 200 2; XGot 1 2; XNone 1].
Lemma fwd_ex : exists st, freplay finit fwd_ops_ex = Some st /\
  map (fun x => (f_slot x, f_done x, f_got x)) (fsubs st) = [(0%nat, true, [1]); (1%nat, false, [2])] /\
  slots st 0%nat = None /\ slots st 1%nat = Some 1%nat /\ fover st = false.
Proof. eexists. split; [vm_compute; reflexivity|]. vm_compute. auto. Qed.

(* a forwarder that is parked when its subscriber cancels frees its slot at once: the next subscription takes it *)
Lemma fwd_ex_reuse : exists st, freplay finit [XSub 200; XCancel 0; XSub 201; XEvent 201 7; XGot 1 7] = Some st /\
  map (fun x => (f_slot x, f_done x, f_got x)) (fsubs st) = [(0%nat, true, []); (0%nat, false, [7])].
Proof. eexists. split; vm_compute; reflexivity. Qed.
