(* SignalsFwd.v — the CLIENT side of a subscription, one client endpoint:

     bus/client.go        client.Subscribe: MakeHandler(filter, queue) -> id; forwarding goroutine
                            for { select { case msg, ok := <-queue: if !ok { close(events); return }
                                                                    events <- msg.Payload
                                           case <-abort: RemoveHandler(id); close(events); return } }
                          cancel function: close(abort)
     bus/net/endpoint.go  handler slots: MakeHandler takes a free slot and returns its index,
                          RemoveHandler(id) closes the queue of whatever handler is in slot id and
                          frees the slot, dispatch offers an Event frame to the handler of every
                          occupied slot, closeWith (connection's end) closes and removes them all.

   Signals.v fuses "forwarder takes an event from the queue", "forwarder sends it on the events
   channel" and "the subscriber receives it" into one label (LDeliver: its readers always read) and
   does not know handler slots.  Here the subscriber's reading is a label of its own, so an event can
   be left undelivered — taken by the forwarder, which is then blocked in its send — while cancels
   and new subscriptions happen on the same client, and handler ids are slot indexes that are reused.
   The server side is absent: an FEvent is the dispatch of an Event frame that reached this client.

   Executable; no proofs here (SignalsFwdProofs.v). *)
From QV Require Import Signals.
Local Open Scope N_scope.

Record fsub := {
  f_sig : N;
  f_slot : nat;           (* the id MakeHandler returned; the forwarder keeps it for RemoveHandler *)
  f_queue : list N;       (* the handler's queue (capacity QueueCap), oldest first *)
  f_qclosed : bool;       (* the queue has been closed (RemoveHandler / closeWith) *)
  f_hold : option N;      (* the forwarder is blocked in  events <- payload  *)
  f_abort : bool;         (* the cancel function has been called: close(abort) *)
  f_done : bool;          (* the forwarder has returned: close(events) *)
  f_got : list N;         (* what the subscriber has received *)
  f_all : list N          (* ghost (never read by a transition): events of f_sig dispatched on this endpoint
                             while the forwarder was running and the connection was up *)
}.

Record fstate := {
  slots : nat -> option nat;  (* endPoint.handlers: slot -> index of the subscription whose handler it holds *)
  fsubs : list fsub;
  fover : bool;               (* some event met a full queue (outside "within the queue capacity") *)
  fdown : bool                (* the connection has ended *)
}.
Definition finit : fstate := {| slots := fun _ => None; fsubs := []; fover := false; fdown := false |}.

Inductive flabel :=
| FSub (sig : N) (i : nat)  (* client.Subscribe: MakeHandler puts the handler into the free slot i *)
| FEvent (sig p : N)        (* endpoint: dispatch of an Event frame of signal sig *)
| FTake (s : nat)           (* forwarder s: msg := <-queue; it is now blocked in events <- msg.Payload *)
| FRead (s : nat)           (* subscriber s receives from its events channel *)
| FCancel (s : nat)         (* cancel function of s: close(abort) *)
| FAbort (s : nat)          (* forwarder s: <-abort: RemoveHandler(id); close(events); return *)
| FQClosed (s : nat)        (* forwarder s: queue closed and empty: close(events); return *)
| FDown.                    (* endpoint: closeWith: every handler closed and removed *)

Fixpoint imap {A B} (f : nat -> A -> B) (i : nat) (l : list A) : list B :=
  match l with
  | [] => []
  | x :: r => f i x :: imap f (S i) r
  end.

Definition oh (o : option N) : list N := match o with Some p => [p] | None => [] end.

Definition new_fsub (sig : N) (i : nat) : fsub :=
  {| f_sig := sig; f_slot := i; f_queue := []; f_qclosed := false; f_hold := None; f_abort := false;
     f_done := false; f_got := []; f_all := [] |}.
Definition fs_qa (x : fsub) (q a : list N) : fsub :=
  {| f_sig := f_sig x; f_slot := f_slot x; f_queue := q; f_qclosed := f_qclosed x; f_hold := f_hold x;
     f_abort := f_abort x; f_done := f_done x; f_got := f_got x; f_all := a |}.
Definition fs_take (x : fsub) (p : N) (q : list N) : fsub :=
  {| f_sig := f_sig x; f_slot := f_slot x; f_queue := q; f_qclosed := f_qclosed x; f_hold := Some p;
     f_abort := f_abort x; f_done := f_done x; f_got := f_got x; f_all := f_all x |}.
Definition fs_read (x : fsub) (p : N) : fsub :=
  {| f_sig := f_sig x; f_slot := f_slot x; f_queue := f_queue x; f_qclosed := f_qclosed x; f_hold := None;
     f_abort := f_abort x; f_done := f_done x; f_got := f_got x ++ [p]; f_all := f_all x |}.
Definition fs_abort (x : fsub) : fsub :=
  {| f_sig := f_sig x; f_slot := f_slot x; f_queue := f_queue x; f_qclosed := f_qclosed x; f_hold := f_hold x;
     f_abort := true; f_done := f_done x; f_got := f_got x; f_all := f_all x |}.
Definition fs_done (x : fsub) : fsub :=
  {| f_sig := f_sig x; f_slot := f_slot x; f_queue := f_queue x; f_qclosed := f_qclosed x; f_hold := f_hold x;
     f_abort := f_abort x; f_done := true; f_got := f_got x; f_all := f_all x |}.
Definition fs_qclose (x : fsub) : fsub :=
  {| f_sig := f_sig x; f_slot := f_slot x; f_queue := f_queue x; f_qclosed := true; f_hold := f_hold x;
     f_abort := f_abort x; f_done := f_done x; f_got := f_got x; f_all := f_all x |}.

Definition fset (st : fstate) (s : nat) (x : fsub) : fstate :=
  {| slots := slots st; fsubs := set_nth (fsubs st) s x; fover := fover st; fdown := fdown st |}.

(* the handler in slot f_slot x is the one of subscription s *)
Definition owns (st : fstate) (s : nat) (x : fsub) : bool :=
  match slots st (f_slot x) with Some o => Nat.eqb o s | None => false end.

(* dispatch of an Event frame of sig, seen from subscription s: (new state of s, its queue was full) *)
Definition on_event (st : fstate) (sig p : N) (s : nat) (x : fsub) : fsub * bool :=
  if f_sig x =? sig then
    let a := if negb (f_done x) && negb (fdown st) then f_all x ++ [p] else f_all x in
    if owns st s x then
      if Nat.ltb (List.length (f_queue x)) QueueCap then (fs_qa x (f_queue x ++ [p]) a, false)
      else (fs_qa x (f_queue x) a, true)
    else (fs_qa x (f_queue x) a, false)
  else (x, false).

(* RemoveHandler(i): whatever handler is in slot i *)
Definition remove_handler (st : fstate) (i : nat) : fstate :=
  match slots st i with
  | None => st
  | Some o =>
      {| slots := fupd (slots st) i None;
         fsubs := match nth_error (fsubs st) o with
                  | Some y => set_nth (fsubs st) o (fs_qclose y)
                  | None => fsubs st
                  end;
         fover := fover st; fdown := fdown st |}
  end.

Definition fstep (st : fstate) (l : flabel) : option fstate :=
  match l with
  | FSub sig i =>
      match slots st i, fdown st with
      | None, false =>
          Some {| slots := fupd (slots st) i (Some (List.length (fsubs st)));
                  fsubs := fsubs st ++ [new_fsub sig i]; fover := fover st; fdown := false |}
      | _, _ => None
      end
  | FEvent sig p =>
      Some {| slots := slots st;
              fsubs := imap (fun s x => fst (on_event st sig p s x)) 0 (fsubs st);
              fover := fover st || existsb (fun b => b) (imap (fun s x => snd (on_event st sig p s x)) 0 (fsubs st));
              fdown := fdown st |}
  | FTake s =>
      match nth_error (fsubs st) s with
      | Some x =>
          match f_done x, f_hold x, f_queue x with
          | false, None, p :: q => Some (fset st s (fs_take x p q))
          | _, _, _ => None
          end
      | None => None
      end
  | FRead s =>
      match nth_error (fsubs st) s with
      | Some x =>
          match f_hold x with
          | Some p => Some (fset st s (fs_read x p))
          | None => None
          end
      | None => None
      end
  | FCancel s =>
      match nth_error (fsubs st) s with
      | Some x => if f_abort x then None else Some (fset st s (fs_abort x))
      | None => None
      end
  | FAbort s =>
      match nth_error (fsubs st) s with
      | Some x =>
          match f_done x, f_hold x, f_abort x with
          | false, None, true =>
              let st1 := remove_handler st (f_slot x) in
              match nth_error (fsubs st1) s with
              | Some x1 => Some (fset st1 s (fs_done x1))
              | None => None
              end
          | _, _, _ => None
          end
      | None => None
      end
  | FQClosed s =>
      match nth_error (fsubs st) s with
      | Some x =>
          match f_done x, f_hold x, f_queue x, f_qclosed x with
          | false, None, [], true => Some (fset st s (fs_done x))
          | _, _, _, _ => None
          end
      | None => None
      end
  | FDown =>
      if fdown st then None else
      Some {| slots := fun _ => None; fsubs := map fs_qclose (fsubs st); fover := fover st; fdown := true |}
  end.

Fixpoint frun (st : fstate) (tr : list flabel) : option fstate :=
  match tr with
  | [] => Some st
  | l :: r => match fstep st l with Some st' => frun st' r | None => None end
  end.

(* ---- replay of what a harness that owns the readers saw (go/cmd/qv/c13fwd.go) ----

   The harness performs one operation at a time and lets the forwarding goroutines come to rest
   after each (every one of them parked in its select or blocked in its send).  The forwarders'
   own steps are therefore not operations; [fsettle] performs the ones that are forced: a
   forwarder that is not cancelled takes the next queued event, or returns when its queue is
   closed and empty; a cancelled one with an empty queue takes the abort branch.  A cancelled
   forwarder with events still queued has made a choice the harness cannot see (select picks any
   ready case): it is resolved by what the reader finds next (XGot: it took the event, XClosed: it
   took the abort branch).  MakeHandler takes the lowest free slot. *)
Inductive fop :=
| XSub (sig : N)          (* SubscribeID(sig) returned nil *)
| XEvent (sig p : N)      (* UpdateSignal(sig, p) returned and the client's endpoint has dispatched its frame *)
| XCancel (s : nat)       (* the cancel function of s returned *)
| XGot (s : nat) (p : N)  (* the reader of s received p *)
| XClosed (s : nat)       (* the reader of s found the channel closed *)
| XNone (s : nat)         (* the reader of s found nothing to receive *)
| XDown.                  (* the connection was closed *)

Definition forced (st : fstate) (s : nat) : list flabel :=
  match nth_error (fsubs st) s with
  | Some x =>
      if f_abort x then match f_queue x with [] => [FAbort s] | _ => [] end
      else [FTake s; FQClosed s]
  | None => []
  end.
Fixpoint ffirst (st : fstate) (ls : list flabel) : option fstate :=
  match ls with
  | [] => None
  | l :: r => match fstep st l with Some st' => Some st' | None => ffirst st r end
  end.
Fixpoint fsettle (fuel : nat) (st : fstate) : fstate :=
  match fuel with
  | O => st
  | S f => match ffirst st (flat_map (forced st) (seq 0 (List.length (fsubs st)))) with
           | Some st' => fsettle f st'
           | None => st
           end
  end.
Definition settle (st : fstate) : fstate := fsettle (2 * List.length (fsubs st) + 2) st.

Fixpoint first_free (sl : nat -> option nat) (i fuel : nat) : nat :=
  match fuel with
  | O => i
  | S f => match sl i with None => i | Some _ => first_free sl (S i) f end
  end.

Definition bind {A B} (o : option A) (f : A -> option B) : option B := match o with Some a => f a | None => None end.

Definition fexec (st : fstate) (o : fop) : option fstate :=
  match o with
  | XSub sig => option_map settle (fstep st (FSub sig (first_free (slots st) 0 (List.length (fsubs st)))))
  | XEvent sig p => option_map settle (fstep st (FEvent sig p))
  | XCancel s => option_map settle (fstep st (FCancel s))
  | XDown => option_map settle (fstep st FDown)
  | XGot s p =>
      match nth_error (fsubs st) s with
      | Some x =>
          match f_hold x, f_queue x with
          | Some p', _ => if p' =? p then option_map settle (fstep st (FRead s)) else None
          | None, p' :: _ => if p' =? p then option_map settle (bind (fstep st (FTake s)) (fun st1 => fstep st1 (FRead s))) else None
          | None, [] => None
          end
      | None => None
      end
  | XClosed s =>
      match nth_error (fsubs st) s with
      | Some x => if f_done x then Some st else option_map settle (fstep st (FAbort s))
      | None => None
      end
  | XNone s =>
      match nth_error (fsubs st) s with
      | Some x =>
          match f_done x, f_hold x, f_queue x, f_abort x, f_qclosed x with
          | false, None, [], false, false => Some st
          | _, _, _, _, _ => None
          end
      | None => None
      end
  end.

Fixpoint freplay (st : fstate) (os : list fop) : option fstate :=
  match os with
  | [] => Some st
  | o :: r => bind (fexec st o) (fun st' => freplay st' r)
  end.
