(* TotalProofs.v — totality of the decoder models on arbitrary input (design/TOTAL_THEOREMS.md):
   no panic outcome (with the negative-length repair), never out of fuel with the fuel the
   entry points choose, and no decoder ever leaves more bytes than it was given.
   All three are instances of one invariant, [safe pn fl n p]: on every input of at most n
   bytes the parser p leaves at most what it got (in ROk and in RErr), answers RPanic only if
   pn is set and RFuel only if fl is set. *)
From QV Require Import Wire Value GenDec Message Reader WireLemmas WireProofs ReaderProofs.
From Coq Require Import ZifyN ZifyNat ZifyBool Lia.
Local Open Scope nat_scope.

(* ---------- messages ---------- *)
Theorem read_msg_total : forall s, read_msg s <> None.
Proof.
  intro s. unfold read_msg.
  destruct (readN_full HeaderSize s) as [[[[b s0]|e] s1]|] eqn:Hh.
  - destruct (dec_header b) as [h|e]; [|discriminate].
    destruct (MaxPayloadSize <? h_size h)%N; [discriminate|].
    destruct (h_size h =? 0)%N; [discriminate|].
    destruct (readN_full (N.to_nat (h_size h)) s1) as [[[[p s3]|e] s2]|] eqn:Hp;
      try discriminate.
    exfalso. exact (readN_full_total _ _ Hp).
  - discriminate.
  - exfalso. exact (readN_full_total _ _ Hh).
Qed.

(* ---------- the invariant ---------- *)
Definition outcome_ok {A} (pn fl : bool) (m : nat) (r : res (A * bytes)) : Prop :=
  match r with
  | ROk (_, r') => List.length r' <= m
  | RErr l => List.length l <= m
  | RPanic => pn = true
  | RFuel => fl = true
  end.

Definition safe {A} (pn fl : bool) (n : nat) (p : bytes -> res (A * bytes)) : Prop :=
  forall bs, List.length bs <= n -> outcome_ok pn fl (List.length bs) (p bs).

Lemma outcome_ok_le : forall {A} pn fl m m' (r : res (A * bytes)),
  m <= m' -> outcome_ok pn fl m r -> outcome_ok pn fl m' r.
Proof.
  intros A pn fl m m' r Hm Hr. destruct r as [[a r']|l| |]; cbn [outcome_ok] in *; try lia; exact Hr.
Qed.

Lemma safe_le : forall {A} pn fl n n' (p : bytes -> res (A * bytes)),
  n' <= n -> safe pn fl n p -> safe pn fl n' p.
Proof. intros A pn fl n n' p Hn Hp bs Hbs. apply Hp. lia. Qed.

Lemma ok_bind : forall {A B} pn fl m (r : res (A * bytes)) (f : A * bytes -> res (B * bytes)),
  outcome_ok pn fl m r ->
  (forall a r', List.length r' <= m -> outcome_ok pn fl m (f (a, r'))) ->
  outcome_ok pn fl m (bind r f).
Proof.
  intros A B pn fl m r f Hr Hf. destruct r as [[a r']|l| |]; cbn [bind outcome_ok] in *.
  - apply Hf. exact Hr.
  - exact Hr.
  - exact Hr.
  - exact Hr.
Qed.

(* ---------- primitive readers ---------- *)
Lemma take_n_ok_len : forall pn fl n bs, outcome_ok pn fl (List.length bs) (take_n n bs).
Proof.
  intros pn fl n bs. unfold take_n. destruct (Nat.ltb (List.length bs) n); cbn [outcome_ok].
  - cbn [List.length]. lia.
  - rewrite skipn_length. lia.
Qed.

Lemma take_n_inv : forall n bs d r, take_n n bs = ROk (d, r) -> List.length r + n = List.length bs.
Proof.
  intros n bs d r H. unfold take_n in H. destruct (Nat.ltb (List.length bs) n) eqn:Hlt; [discriminate|].
  injection H as _ Hr. subst r. rewrite skipn_length. apply Nat.ltb_ge in Hlt. lia.
Qed.

Lemma read_num_ok_len : forall pn fl w bs, outcome_ok pn fl (List.length bs) (read_num w bs).
Proof.
  intros pn fl w bs. unfold read_num. apply ok_bind; [apply take_n_ok_len|].
  intros d r Hr. exact Hr.
Qed.

Lemma read_num_inv : forall w bs x r, read_num w bs = ROk (x, r) -> List.length r + w = List.length bs.
Proof.
  intros w bs x r H. unfold read_num in H. destruct (take_n w bs) as [[d r0]|l| |] eqn:Ht; try discriminate.
  cbn [bind] in H. injection H as _ Hr. subst r0. exact (take_n_inv _ _ _ _ Ht).
Qed.

Lemma read_str_ok_len : forall pn fl bs, outcome_ok pn fl (List.length bs) (read_str bs).
Proof.
  intros pn fl bs. unfold read_str. apply ok_bind; [apply read_num_ok_len|].
  intros n r Hr. destruct (n =? 0)%N; [exact Hr|].
  destruct (MaxStringSize <? n)%N; [exact Hr|].
  apply (outcome_ok_le pn fl (List.length r)); [exact Hr|apply take_n_ok_len].
Qed.

(* a string that is read took at least the four bytes of its length *)
Lemma read_str_inv : forall bs s r, read_str bs = ROk (s, r) -> List.length r + 4 <= List.length bs.
Proof.
  intros bs s r H. unfold read_str in H.
  destruct (read_num 4 bs) as [[n r0]|l| |] eqn:Hn; try discriminate. cbn [bind] in H.
  apply read_num_inv in Hn.
  destruct (n =? 0)%N.
  - injection H as _ Hr. subst r0. lia.
  - destruct (MaxStringSize <? n)%N; [discriminate|]. apply take_n_inv in H. lia.
Qed.

(* ---------- loops ---------- *)
Section Combinators.
  Context {A : Type}.
  Variables pn fl : bool.
  Variable n : nat.

  Lemma rep_nat_safe : forall (p : bytes -> res (A * bytes)) k, safe pn fl n p -> safe pn fl n (rep_nat p k).
  Proof.
    intros p k Hp. induction k as [|k IH]; intros bs Hbs; cbn [rep_nat].
    - cbn [outcome_ok]. lia.
    - pose proof (Hp bs Hbs) as Hx. destruct (p bs) as [[x r]|l| |]; cbn [outcome_ok] in Hx |- *; try exact Hx.
      assert (Hr : List.length r <= n) by lia.
      pose proof (IH r Hr) as Hxs.
      destruct (rep_nat p k r) as [[xs r']|l| |]; cbn [outcome_ok] in Hxs |- *; try exact Hxs; lia.
  Qed.

  (* every recursive call of the bounded loop is on a strictly shorter input *)
  Lemma rep_slow_safe : forall (p : bytes -> res (A * bytes)), safe pn fl n p ->
    forall fuel k bs acc, List.length bs <= n -> List.length bs < fuel ->
    outcome_ok pn fl (List.length bs) (rep_slow p fuel k bs acc).
  Proof.
    intros p Hp fuel. induction fuel as [|f IH]; intros k bs acc Hbs Hf; [lia|].
    cbn [rep_slow]. destruct (k =? 0)%N; [cbn [outcome_ok]; lia|].
    pose proof (Hp bs Hbs) as Hx. destruct (p bs) as [[d r]|l| |]; cbn [outcome_ok] in Hx |- *; try exact Hx.
    destruct (Nat.ltb (List.length r) (List.length bs)) eqn:Hlt.
    - apply Nat.ltb_lt in Hlt.
      apply (outcome_ok_le pn fl (List.length r)); [lia|]. apply IH; lia.
    - cbn [outcome_ok]. exact Hx.
  Qed.

  Lemma rep_safe : forall (p : bytes -> res (A * bytes)) k, safe pn fl n p -> safe pn fl n (rep p k).
  Proof.
    intros p k Hp bs Hbs. unfold rep. destruct (N.of_nat (List.length bs) <? k)%N.
    - apply rep_slow_safe; [exact Hp|exact Hbs|lia].
    - apply rep_nat_safe; assumption.
  Qed.

  Lemma seq_with_safe : forall (ps : list (bytes -> res (A * bytes))),
    Forall (safe pn fl n) ps -> safe pn fl n (seq_with ps).
  Proof.
    intros ps HF. induction HF as [|p ps' Hp HF' IH]; intros bs Hbs; cbn [seq_with].
    - cbn [outcome_ok]. lia.
    - pose proof (Hp bs Hbs) as Hx. destruct (p bs) as [[x r]|l| |]; cbn [outcome_ok] in Hx |- *; try exact Hx.
      assert (Hr : List.length r <= n) by lia.
      pose proof (IH r Hr) as Hxs.
      destruct (seq_with ps' r) as [[xs r']|l| |]; cbn [outcome_ok] in Hxs |- *; try exact Hxs; lia.
  Qed.

  Lemma pair_with_safe : forall {B} (pk : bytes -> res (A * bytes)) (pv : bytes -> res (B * bytes)),
    safe pn fl n pk -> safe pn fl n pv -> safe pn fl n (pair_with pk pv).
  Proof.
    intros B pk pv Hk Hv bs Hbs. unfold pair_with.
    pose proof (Hk bs Hbs) as Hx. destruct (pk bs) as [[x r]|l| |]; cbn [outcome_ok] in Hx |- *; try exact Hx.
    assert (Hr : List.length r <= n) by lia.
    pose proof (Hv r Hr) as Hy.
    destruct (pv r) as [[y r']|l| |]; cbn [outcome_ok] in Hy |- *; try exact Hy; lia.
  Qed.

  (* post-processing of the value does not matter *)
  Lemma map_safe : forall {B} (p : bytes -> res (A * bytes)) (g : A -> bytes -> B),
    safe pn fl n p -> safe pn fl n (fun bs => do '(a, r) <- p bs; ROk (g a r, r)).
  Proof.
    intros B p g Hp bs Hbs. apply ok_bind; [exact (Hp bs Hbs)|].
    intros a r Hr. exact Hr.
  Qed.
End Combinators.

Lemma cat_res_ok : forall pn fl m (r : res (list bytes * bytes)),
  outcome_ok pn fl m r -> outcome_ok pn fl m (cat_res r).
Proof.
  intros pn fl m r Hr. unfold cat_res. apply ok_bind; [exact Hr|]. intros l rest Hrest. exact Hrest.
Qed.

(* no dynamic value anywhere in the type ("o" is allowed: its structure holds no "m") *)
Fixpoint plain_m (t : ty) : bool :=
  match t with
  | TS SValue => false
  | TS _ => true
  | TList t' => plain_m t'
  | TMap k v => plain_m k && plain_m v
  | TTuple ts => forallb plain_m ts
  | TStruct _ fs => forallb (fun f => plain_m (snd f)) fs
  end.

(* ---------- the three codec bodies, with abstract handlers ---------- *)
Lemma no_dyn_safe : forall {A} pn fl n, safe pn fl n (@no_dyn A).
Proof. intros A pn fl n bs Hbs. unfold no_dyn. cbn [outcome_ok]. lia. Qed.

Section Bodies.
  Variable c : wcfg.
  Variables pn fl : bool.
  Variable n : nat.

  Lemma string_reader_safe : safe pn fl n (string_reader c).
  Proof.
    intros bs Hbs. unfold string_reader. pose proof (read_str_ok_len pn fl bs) as H.
    destruct (read_str bs) as [[s r]|l| |]; cbn [outcome_ok] in H |- *; try exact H.
    destruct (string_reader_drops_err c); cbn [outcome_ok]; exact H.
  Qed.

  Lemma take_n_safe : forall w, safe pn fl n (take_n w).
  Proof. intros w bs Hbs. apply take_n_ok_len. Qed.

  Lemma num_safe : forall {B} w (g : N -> B), safe pn fl n (fun bs => do '(x, r) <- read_num w bs; ROk (g x, r)).
  Proof.
    intros B w g bs Hbs. apply ok_bind; [apply read_num_ok_len|]. intros x r Hr. exact Hr.
  Qed.

  Lemma here_safe : forall {B} (v : B), safe pn fl n (fun bs => ROk (v, bs)).
  Proof. intros B v bs Hbs. cbn [outcome_ok]. lia. Qed.

  Lemma err_safe : forall {B}, safe pn fl n (fun bs => @RErr (B * bytes) bs).
  Proof. intros B bs Hbs. cbn [outcome_ok]. lia. Qed.

  Section Sig.
    Variable dyn obj : bytes -> res (bytes * bytes).
    Hypothesis Hdyn : safe pn fl n dyn.
    Hypothesis Hobj : safe pn fl n obj.

    Lemma sig_body_safe : forall t, safe pn fl n (sig_body c dyn obj t).
    Proof.
      induction t as [s|t' IH|tk tv IHk IHv|ts IH|nm fs IH] using ty_ind2.
      - destruct s; cbn [sig_body scalar_width];
          try apply take_n_safe; try apply string_reader_safe; try exact Hdyn; try exact Hobj;
          try apply here_safe; apply err_safe.
      - intros bs Hbs. cbn [sig_body]. apply ok_bind; [apply read_num_ok_len|].
        intros k r Hr. cbv beta iota. apply ok_bind.
        + apply cat_res_ok. apply (outcome_ok_le pn fl (List.length r)); [exact Hr|].
          refine (rep_safe pn fl n _ k IH r _). lia.
        + intros d r' Hr'. exact Hr'.
      - intros bs Hbs. cbn [sig_body]. apply ok_bind; [apply read_num_ok_len|].
        intros k r Hr. cbv beta iota. apply ok_bind.
        + apply cat_res_ok. apply (outcome_ok_le pn fl (List.length r)); [exact Hr|].
          refine (rep_safe pn fl n _ k _ r _); [|lia].
          apply (map_safe pn fl n (pair_with (sig_body c dyn obj tk) (sig_body c dyn obj tv))
                   (fun kv _ => fst kv ++ snd kv)).
          apply pair_with_safe; assumption.
        + intros d r' Hr'. exact Hr'.
      - intros bs Hbs. cbn [sig_body]. apply cat_res_ok.
        refine (seq_with_safe pn fl n _ _ bs Hbs). apply Forall_map. exact IH.
      - intros bs Hbs. cbn [sig_body]. apply cat_res_ok.
        refine (seq_with_safe pn fl n _ _ bs Hbs). apply Forall_map. exact IH.
    Qed.
  End Sig.

  Section Spec.
    Variable dyn obj : bytes -> res (tval * bytes).
    Hypothesis Hobj : safe pn fl n obj.

    (* the "m" handler only matters for types that hold an "m" *)
    Lemma spec_body_safe_gen : forall t,
      plain_m t = true \/ safe pn fl n dyn -> safe pn fl n (spec_body dyn obj t).
    Proof.
      induction t as [s|t' IH|tk tv IHk IHv|ts IH|nm fs IH] using ty_ind2; intro Hd.
      - destruct s; cbn [spec_body scalar_width];
          try apply num_safe; try exact Hobj; try apply here_safe; try apply err_safe.
        + intros bs Hbs. apply ok_bind; [apply read_str_ok_len|]. intros x r Hr. exact Hr.
        + destruct Hd as [Hd|Hd]; [discriminate Hd|exact Hd].
      - cbn [plain_m] in Hd. specialize (IH Hd).
        intros bs Hbs. cbn [spec_body]. apply ok_bind; [apply read_num_ok_len|].
        intros k r Hr. cbv beta iota. apply ok_bind.
        + apply (outcome_ok_le pn fl (List.length r)); [exact Hr|].
          refine (rep_safe pn fl n _ k IH r _). lia.
        + intros d r' Hr'. exact Hr'.
      - assert (Hk : plain_m tk = true \/ safe pn fl n dyn).
        { destruct Hd as [Hd|Hd]; [|right; exact Hd].
          cbn [plain_m] in Hd. apply andb_true_iff in Hd as [Hd _]. left; exact Hd. }
        assert (Hv : plain_m tv = true \/ safe pn fl n dyn).
        { destruct Hd as [Hd|Hd]; [|right; exact Hd].
          cbn [plain_m] in Hd. apply andb_true_iff in Hd as [_ Hd]. left; exact Hd. }
        specialize (IHk Hk). specialize (IHv Hv).
        intros bs Hbs. cbn [spec_body]. apply ok_bind; [apply read_num_ok_len|].
        intros k r Hr. cbv beta iota. apply ok_bind.
        + apply (outcome_ok_le pn fl (List.length r)); [exact Hr|].
          refine (rep_safe pn fl n _ k _ r _); [|lia]. apply pair_with_safe; assumption.
        + intros d r' Hr'. exact Hr'.
      - intros bs Hbs. cbn [spec_body]. apply ok_bind.
        + refine (seq_with_safe pn fl n _ _ bs Hbs). apply Forall_map.
          apply Forall_forall. intros t Hin. rewrite Forall_forall in IH. apply (IH t Hin).
          destruct Hd as [Hd|Hd]; [|right; exact Hd].
          left. cbn [plain_m] in Hd. exact (proj1 (forallb_forall _ _) Hd t Hin).
        + intros d r' Hr'. exact Hr'.
      - intros bs Hbs. cbn [spec_body]. apply ok_bind.
        + refine (seq_with_safe pn fl n _ _ bs Hbs). apply Forall_map.
          apply Forall_forall. intros fd Hin. rewrite Forall_forall in IH. apply (IH fd Hin).
          destruct Hd as [Hd|Hd]; [|right; exact Hd].
          left. cbn [plain_m] in Hd. exact (proj1 (forallb_forall _ _) Hd fd Hin).
        + intros d r' Hr'. exact Hr'.
    Qed.

    Lemma spec_body_safe : safe pn fl n dyn -> forall t, safe pn fl n (spec_body dyn obj t).
    Proof. intros Hdyn t. apply spec_body_safe_gen. right; exact Hdyn. Qed.
  End Spec.
End Bodies.

Section Refl.
  Variable c : wcfg.
  Variable eqb : tval -> tval -> bool.
  Variables pn fl : bool.
  Variable n : nat.
  (* the only panic of the model: a negative list length reaching SetLen *)
  Hypothesis Hneg : refl_neg_len_panics c = false \/ pn = true.

  Lemma fields_with_safe : forall (ps : list ((bytes -> res (tval * bytes)) * tval)),
    Forall (fun pz => safe pn fl n (fst pz)) ps -> safe pn fl n (fields_with c ps).
  Proof.
    intros ps HF. induction HF as [|[p z] ps' Hp HF' IH]; intros bs Hbs; cbn [fields_with].
    - cbn [outcome_ok]. lia.
    - cbn [fst] in Hp. pose proof (Hp bs Hbs) as Hx.
      destruct (p bs) as [[x r]|l| |]; cbn [outcome_ok] in Hx |- *; try exact Hx.
      + assert (Hr : List.length r <= n) by lia.
        pose proof (IH r Hr) as Hxs.
        destruct (fields_with c ps' r) as [[xs r']|l| |]; cbn [outcome_ok] in Hxs |- *; try exact Hxs; lia.
      + destruct (refl_struct_ignores_err c); [|cbn [outcome_ok]; exact Hx].
        assert (Hl : List.length l <= n) by lia.
        pose proof (IH l Hl) as Hxs.
        destruct (fields_with c ps' l) as [[xs r']|l'| |]; cbn [outcome_ok] in Hxs |- *; try exact Hxs; lia.
  Qed.

  Section Body.
    Variable obj : bytes -> res (tval * bytes).
    Hypothesis Hobj : safe pn fl n obj.

    Lemma refl_body_safe : forall t, safe pn fl n (refl_body c eqb obj t).
    Proof.
      induction t as [s|t' IH|tk tv IHk IHv|ts IH|nm fs IH] using ty_ind2.
      - destruct s; cbn [refl_body scalar_width];
          try (destruct (refl_drop8 c)); try apply num_safe; try exact Hobj;
          try apply here_safe; try apply err_safe.
        all: intros bs Hbs; (apply ok_bind; [apply read_str_ok_len|]); intros x r Hr; exact Hr.
      - intros bs Hbs. cbn [refl_body]. apply ok_bind; [apply read_num_ok_len|].
        intros k r Hr. cbv beta iota zeta.
        destruct (Z.of_N listValueMaxSize <? as_int32 k)%Z; [exact Hr|].
        destruct (as_int32 k <? 0)%Z.
        + destruct (refl_neg_len_panics c); [|exact Hr].
          cbn [outcome_ok]. destruct Hneg as [Hc|Hp]; [discriminate|exact Hp].
        + apply ok_bind.
          * apply (outcome_ok_le pn fl (List.length r)); [exact Hr|].
            refine (rep_safe pn fl n _ k IH r _). lia.
          * intros d r' Hr'. exact Hr'.
      - intros bs Hbs. cbn [refl_body]. apply ok_bind; [apply read_num_ok_len|].
        intros k r Hr. cbv beta iota zeta.
        destruct (Z.of_N listValueMaxSize <? as_int32 k)%Z; [exact Hr|].
        destruct (as_int32 k <? 0)%Z; [exact Hr|].
        apply ok_bind.
        + apply (outcome_ok_le pn fl (List.length r)); [exact Hr|].
          refine (rep_safe pn fl n _ k _ r _); [|lia]. apply pair_with_safe; assumption.
        + intros d r' Hr'. exact Hr'.
      - intros bs Hbs. cbn [refl_body]. apply ok_bind.
        + refine (fields_with_safe _ _ bs Hbs). apply Forall_map. exact IH.
        + intros d r' Hr'. exact Hr'.
      - intros bs Hbs. cbn [refl_body]. apply ok_bind.
        + refine (fields_with_safe _ _ bs Hbs). apply Forall_map. exact IH.
        + intros d r' Hr'. exact Hr'.
    Qed.
  End Body.

  Lemma refl_dec_safe : forall t, safe pn fl n (refl_dec c eqb t).
  Proof.
    intro t. unfold refl_dec. apply refl_body_safe. apply refl_body_safe. apply no_dyn_safe.
  Qed.
End Refl.

(* ---------- the fuelled decoders ---------- *)
Section Fuelled.
  Variable parse : string -> option ty.
  Variable c : wcfg.

  Lemma spec_obj_safe : forall pn fl n, safe pn fl n spec_obj.
  Proof. intros pn fl n. unfold spec_obj. apply spec_body_safe; apply no_dyn_safe. Qed.

  Lemma sig_obj_safe : forall pn fl n, safe pn fl n (sig_obj c).
  Proof. intros pn fl n. unfold sig_obj. apply sig_body_safe; apply no_dyn_safe. Qed.

  (* never a panic; never out of fuel on inputs shorter than the fuel: each level of dynamic
     value takes the four bytes of its signature length before it recurses *)
  Lemma spec_dec_safe : forall fl fuel n t,
    (fl = false -> n < fuel) -> safe false fl n (spec_dec parse fuel t).
  Proof.
    intros fl fuel. induction fuel as [|f IH]; intros n t Hf; rewrite spec_dec_unfold;
      apply spec_body_safe; try apply spec_obj_safe.
    - intros bs Hbs. cbn [spec_dyn]. unfold out_of_fuel. cbn [outcome_ok].
      destruct fl; [reflexivity|]. specialize (Hf eq_refl). lia.
    - intros bs Hbs. cbn [spec_dyn].
      pose proof (read_str_ok_len false fl bs) as Hs.
      destruct (read_str bs) as [[sg r]|l| |] eqn:Hrs; cbn [bind outcome_ok] in Hs |- *; try exact Hs.
      apply read_str_inv in Hrs.
      destruct (parse (string_of_bytes sg)) as [t'|]; [|cbn [outcome_ok]; lia].
      apply ok_bind.
      + apply (outcome_ok_le false fl (List.length r)); [lia|].
        apply (IH (List.length r) t'); [|lia]. intro Hfl. specialize (Hf Hfl). lia.
      + intros v r' Hr'. exact Hr'.
  Qed.

  Lemma sig_read_safe : forall fl fuel n t,
    (fl = false -> n < fuel) -> safe false fl n (sig_read parse c fuel t).
  Proof.
    intros fl fuel. induction fuel as [|f IH]; intros n t Hf; rewrite sig_read_unfold;
      apply sig_body_safe; try apply sig_obj_safe.
    - intros bs Hbs. cbn [sig_dyn]. unfold out_of_fuel. cbn [outcome_ok].
      destruct fl; [reflexivity|]. specialize (Hf eq_refl). lia.
    - intros bs Hbs. cbn [sig_dyn].
      pose proof (read_str_ok_len false fl bs) as Hs.
      destruct (read_str bs) as [[sg r]|l| |] eqn:Hrs; cbn [bind outcome_ok] in Hs |- *; try exact Hs.
      apply read_str_inv in Hrs.
      destruct (parse (string_of_bytes sg)) as [t'|]; [|cbn [outcome_ok]; lia].
      apply ok_bind.
      + apply (outcome_ok_le false fl (List.length r)); [lia|].
        apply (IH (List.length r) t'); [|lia]. intro Hfl. specialize (Hf Hfl). lia.
      + intros v r' Hr'. exact Hr'.
  Qed.
End Fuelled.

Section Values.
  Variable parse : string -> option ty.
  Variable c : wcfg.

  Lemma ok_after : forall {A B} pn fl m (r : bytes) (p : bytes -> res (A * bytes)) (f : A * bytes -> res (B * bytes)),
    List.length r <= m -> outcome_ok pn fl (List.length r) (p r) ->
    (forall a r', List.length r' <= List.length r -> outcome_ok pn fl m (f (a, r'))) ->
    outcome_ok pn fl m (bind (p r) f).
  Proof.
    intros A B pn fl m r p f Hr Hp Hf.
    destruct (p r) as [[a r']|l| |]; cbn [bind outcome_ok] in Hp |- *; try lia; try exact Hp.
    apply Hf. exact Hp.
  Qed.

  Lemma dec_dval_safe : forall fl fuel n,
    (fl = false -> n < fuel) -> safe false fl n (dec_dval parse c fuel).
  Proof.
    intros fl fuel. induction fuel as [|f IH]; intros n Hf bs Hbs.
    - cbn [dec_dval outcome_ok]. destruct fl; [reflexivity|]. specialize (Hf eq_refl). lia.
    - cbn [dec_dval].
      pose proof (read_str_ok_len false fl bs) as Hs.
      destruct (read_str bs) as [[sg r]|l| |] eqn:Hrs; cbn [bind outcome_ok] in Hs |- *; try exact Hs.
      apply read_str_inv in Hrs.
      assert (Hrec : forall r' : bytes, List.length r' <= List.length r -> safe false fl (List.length r') (dec_dval parse c f)).
      { intros r' Hr'. apply IH. intro Hfl. specialize (Hf Hfl). lia. }
      destruct (lookup (string_of_bytes sg) dispatch_table) as [k| | | | | |].
      + destruct k;
          (apply ok_after; [lia|apply read_num_ok_len|]); intros x r' Hr'; cbn [outcome_ok]; lia.
      + apply ok_after; [lia|apply read_str_ok_len|]. intros x r' Hr'. cbn [outcome_ok]. lia.
      + apply ok_after; [lia|apply read_num_ok_len|]. intros k r' Hr'. cbv beta iota.
        destruct (listValueMaxSize <? k)%N; [cbn [outcome_ok]; lia|].
        apply ok_after; [lia| |].
        * refine (rep_safe false fl (List.length r') _ k (Hrec r' Hr') r' _). lia.
        * intros l r'' Hr''. cbn [outcome_ok]. lia.
      + apply ok_after; [lia|apply read_num_ok_len|]. intros k r' Hr'. cbv beta iota.
        destruct (rawValueMaxSize <? k)%N; [cbn [outcome_ok]; lia|].
        apply ok_after; [lia|apply take_n_ok_len|].
        intros b r'' Hr''. cbn [outcome_ok]. lia.
      + cbn [outcome_ok]. lia.
      + apply (outcome_ok_le false fl (List.length r)); [lia|].
        apply (Hrec r (le_n _)). lia.
      + cbv zeta.
        destruct (parse _) as [t|]; [|cbn [outcome_ok]; lia].
        apply ok_after; [lia| |].
        * apply (sig_read_safe parse c fl (S (List.length r)) (List.length r) t); lia.
        * intros d r' Hr'. cbn [outcome_ok]. lia.
  Qed.

  Lemma new_value_safe : forall n, safe false false n (new_value parse c).
  Proof.
    intros n bs Hbs. unfold new_value.
    apply (dec_dval_safe false (S (List.length bs)) (List.length bs)); lia.
  Qed.

  Lemma dec_capmap_safe : forall n, safe false false n (dec_capmap parse c).
  Proof.
    intros n bs Hbs. unfold dec_capmap.
    apply ok_bind; [apply read_num_ok_len|]. intros k r Hr. cbv beta iota.
    destruct (capabilityMapSizeMax <? k)%N; [exact Hr|].
    apply (outcome_ok_le false false (List.length r)); [exact Hr|].
    refine (rep_safe false false (List.length r) _ k _ r _); [|lia].
    apply pair_with_safe; [|apply new_value_safe].
    intros b Hb. apply read_str_ok_len.
  Qed.
End Values.

(* ---------- reading the invariant ---------- *)
Lemma safe_no_panic : forall {A} fl n (p : bytes -> res (A * bytes)) bs,
  safe false fl n p -> List.length bs <= n -> p bs <> RPanic.
Proof.
  intros A fl n p bs Hp Hbs Heq. specialize (Hp bs Hbs). rewrite Heq in Hp. cbn [outcome_ok] in Hp. discriminate.
Qed.

Lemma safe_no_fuel : forall {A} pn n (p : bytes -> res (A * bytes)) bs,
  safe pn false n p -> List.length bs <= n -> p bs <> RFuel.
Proof.
  intros A pn n p bs Hp Hbs Heq. specialize (Hp bs Hbs). rewrite Heq in Hp. cbn [outcome_ok] in Hp. discriminate.
Qed.

Lemma safe_ok_len : forall {A} pn fl n (p : bytes -> res (A * bytes)) bs a r,
  safe pn fl n p -> List.length bs <= n -> p bs = ROk (a, r) -> List.length r <= List.length bs.
Proof.
  intros A pn fl n p bs a r Hp Hbs Heq. specialize (Hp bs Hbs). rewrite Heq in Hp. exact Hp.
Qed.

Lemma safe_err_len : forall {A} pn fl n (p : bytes -> res (A * bytes)) bs l,
  safe pn fl n p -> List.length bs <= n -> p bs = RErr l -> List.length l <= List.length bs.
Proof.
  intros A pn fl n p bs l Hp Hbs Heq. specialize (Hp bs Hbs). rewrite Heq in Hp. exact Hp.
Qed.

Section T.
  Variable parse : string -> option ty.   (* arbitrary: no hypothesis on the parser is needed *)
  Variable c : wcfg.

  (* ---- consumption: no decoder leaves more than it was given, for every fuel ---- *)
  Lemma sig_read_ok_len : forall fuel t bs d r,
    sig_read parse c fuel t bs = ROk (d, r) -> List.length r <= List.length bs.
  Proof.
    intros fuel t bs d r. apply (safe_ok_len false true (List.length bs)); [|lia].
    apply sig_read_safe. discriminate.
  Qed.
  Lemma sig_read_err_len : forall fuel t bs l,
    sig_read parse c fuel t bs = RErr l -> List.length l <= List.length bs.
  Proof.
    intros fuel t bs l. apply (safe_err_len false true (List.length bs)); [|lia].
    apply sig_read_safe. discriminate.
  Qed.
  Lemma spec_dec_ok_len : forall fuel t bs v r,
    spec_dec parse fuel t bs = ROk (v, r) -> List.length r <= List.length bs.
  Proof.
    intros fuel t bs v r. apply (safe_ok_len false true (List.length bs)); [|lia].
    apply spec_dec_safe. discriminate.
  Qed.
  Lemma spec_dec_err_len : forall fuel t bs l,
    spec_dec parse fuel t bs = RErr l -> List.length l <= List.length bs.
  Proof.
    intros fuel t bs l. apply (safe_err_len false true (List.length bs)); [|lia].
    apply spec_dec_safe. discriminate.
  Qed.
  Lemma refl_dec_ok_len : forall eqb t bs v r,
    refl_dec c eqb t bs = ROk (v, r) -> List.length r <= List.length bs.
  Proof.
    intros eqb t bs v r. apply (safe_ok_len true true (List.length bs)); [|lia].
    apply refl_dec_safe. right; reflexivity.
  Qed.
  Lemma refl_dec_err_len : forall eqb t bs l,
    refl_dec c eqb t bs = RErr l -> List.length l <= List.length bs.
  Proof.
    intros eqb t bs l. apply (safe_err_len true true (List.length bs)); [|lia].
    apply refl_dec_safe. right; reflexivity.
  Qed.
  Lemma dec_dval_ok_len : forall fuel bs v r,
    dec_dval parse c fuel bs = ROk (v, r) -> List.length r <= List.length bs.
  Proof.
    intros fuel bs v r. apply (safe_ok_len false true (List.length bs)); [|lia].
    apply dec_dval_safe. discriminate.
  Qed.
  Lemma dec_dval_err_len : forall fuel bs l,
    dec_dval parse c fuel bs = RErr l -> List.length l <= List.length bs.
  Proof.
    intros fuel bs l. apply (safe_err_len false true (List.length bs)); [|lia].
    apply dec_dval_safe. discriminate.
  Qed.
  Lemma dec_capmap_ok_len : forall bs m r,
    dec_capmap parse c bs = ROk (m, r) -> List.length r <= List.length bs.
  Proof.
    intros bs m r. apply (safe_ok_len false false (List.length bs)); [|lia]. apply dec_capmap_safe.
  Qed.
  Lemma dec_capmap_err_len : forall bs l,
    dec_capmap parse c bs = RErr l -> List.length l <= List.length bs.
  Proof.
    intros bs l. apply (safe_err_len false false (List.length bs)); [|lia]. apply dec_capmap_safe.
  Qed.

  (* ---- no panic ---- *)
  Theorem sig_read_no_panic : forall fuel t bs, sig_read parse c fuel t bs <> RPanic.
  Proof.
    intros fuel t bs. apply (safe_no_panic true (List.length bs)); [|lia].
    apply sig_read_safe. discriminate.
  Qed.
  Theorem spec_dec_no_panic : forall fuel t bs, spec_dec parse fuel t bs <> RPanic.
  Proof.
    intros fuel t bs. apply (safe_no_panic true (List.length bs)); [|lia].
    apply spec_dec_safe. discriminate.
  Qed.
  Theorem refl_dec_no_panic :
    refl_neg_len_panics c = false -> forall t bs, refl_dec c tval_eqb t bs <> RPanic.
  Proof.
    intros Hc t bs. apply (safe_no_panic true (List.length bs)); [|lia].
    apply refl_dec_safe. left; exact Hc.
  Qed.
  Theorem new_value_no_panic : forall bs, new_value parse c bs <> RPanic.
  Proof.
    intro bs. apply (safe_no_panic false (List.length bs)); [|lia]. apply new_value_safe.
  Qed.
  Theorem dec_capmap_no_panic : forall bs, dec_capmap parse c bs <> RPanic.
  Proof.
    intro bs. apply (safe_no_panic false (List.length bs)); [|lia]. apply dec_capmap_safe.
  Qed.

  (* ---- fuel ---- *)
  Theorem refl_dec_total : forall t bs, refl_dec c tval_eqb t bs <> RFuel.
  Proof.
    intros t bs. apply (safe_no_fuel true (List.length bs)); [|lia].
    apply refl_dec_safe. right; reflexivity.
  Qed.
  Theorem sig_read_total : forall t bs, sig_read parse c (S (List.length bs)) t bs <> RFuel.
  Proof.
    intros t bs. apply (safe_no_fuel false (List.length bs)); [|lia].
    apply sig_read_safe. intros _. lia.
  Qed.
  Theorem spec_dec_total : forall t bs, spec_dec parse (S (List.length bs)) t bs <> RFuel.
  Proof.
    intros t bs. apply (safe_no_fuel false (List.length bs)); [|lia].
    apply spec_dec_safe. intros _. lia.
  Qed.
  Theorem new_value_total : forall bs, new_value parse c bs <> RFuel.
  Proof.
    intro bs. apply (safe_no_fuel false (List.length bs)); [|lia]. apply new_value_safe.
  Qed.
  Theorem dec_capmap_total : forall bs, dec_capmap parse c bs <> RFuel.
  Proof.
    intro bs. apply (safe_no_fuel false (List.length bs)); [|lia]. apply dec_capmap_safe.
  Qed.

  (* generated decoders run spec_dec without fuel: total on the types they are generated for *)
  Theorem gen_dec_total : forall t bs, plain_m t = true -> gen_dec parse t bs <> RFuel.
  Proof.
    intros t bs Hpl. unfold gen_dec. rewrite spec_dec_unfold.
    apply (safe_no_fuel false (List.length bs)); [|lia].
    apply spec_body_safe_gen; [apply spec_obj_safe|left; exact Hpl].
  Qed.
  Theorem gen_dec_no_panic : forall t bs, gen_dec parse t bs <> RPanic.
  Proof. intros t bs. apply spec_dec_no_panic. Qed.
  (* the statement of design/TOTAL_THEOREMS.md, as written there (vacuous) *)
  Theorem gen_dec_total_weak : forall t bs, gen_dec parse t bs <> RFuel \/ True.
  Proof. intros t bs. right. exact I. Qed.
End T.

(* without the premise: a generated decoder for a type holding "m" is out of fuel at once *)
Example gen_dec_m_fuel : forall parse bs, gen_dec parse (TS SValue) bs = RFuel.
Proof. intros parse bs. reflexivity. Qed.

(* the premise of refl_dec_no_panic is needed: length -1 with the defect on *)
Example refl_dec_neg_len_panics :
  refl_dec wpinned tval_eqb (TList (TS SU8)) [xff; xff; xff; xff] = RPanic.
Proof. vm_compute. reflexivity. Qed.

Print Assumptions read_msg_total.
Print Assumptions sig_read_no_panic.
Print Assumptions spec_dec_no_panic.
Print Assumptions refl_dec_no_panic.
Print Assumptions new_value_no_panic.
Print Assumptions dec_capmap_no_panic.
Print Assumptions sig_read_total.
Print Assumptions spec_dec_total.
Print Assumptions refl_dec_total.
Print Assumptions new_value_total.
Print Assumptions dec_capmap_total.
Print Assumptions gen_dec_total.
Print Assumptions gen_dec_no_panic.
Print Assumptions sig_read_ok_len.
Print Assumptions sig_read_err_len.
Print Assumptions spec_dec_ok_len.
Print Assumptions spec_dec_err_len.
Print Assumptions refl_dec_ok_len.
Print Assumptions refl_dec_err_len.
Print Assumptions dec_dval_ok_len.
Print Assumptions dec_dval_err_len.
Print Assumptions dec_capmap_ok_len.
Print Assumptions dec_capmap_err_len.
