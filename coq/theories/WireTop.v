(* WireTop.v — the wire theorems instantiated at the PEG model of signature.Parse. *)
From QV Require Import Wire Value GenDec WireLemmas WireProofs ReflProofs ValueProofs PrefixProofs ParseOpt WireRefute.
Local Open Scope N_scope.

Definition spec_dec_enc_top := spec_dec_enc parse_opt parse_opt_print.
Definition sig_read_spec_top := sig_read_spec parse_opt parse_opt_print.
Definition value_roundtrip_top := value_roundtrip parse_opt parse_opt_print.
Definition spec_dec_prefix_top := spec_dec_prefix parse_opt parse_opt_print.
Definition sig_read_prefix_top := sig_read_prefix parse_opt parse_opt_print.
Definition refl_dec_prefix_top := refl_dec_prefix parse_opt parse_opt_print.
Definition new_value_prefix_top := new_value_prefix parse_opt parse_opt_print.

(* re-encoding the decoded value reproduces the bytes *)
Lemma value_reencode : forall c v rest, value_reader_no_len c = false -> wf_dval v ->
  exists v', new_value parse_opt c (enc_dval v ++ rest) = ROk (v', rest) /\ enc_dval v' = enc_dval v.
Proof. intros c v rest Hc Hwf. exists v. split; [now apply value_roundtrip_top|reflexivity]. Qed.

(* the encoding is injective and prefix-free: two well-formed values followed by any bytes
   that produce the same byte string are the same value followed by the same bytes, so no
   value's encoding can be mistaken for (a prefix of) another's *)
Lemma value_enc_injective : forall v1 v2 r1 r2, wf_dval v1 -> wf_dval v2 ->
  enc_dval v1 ++ r1 = enc_dval v2 ++ r2 -> v1 = v2 /\ r1 = r2.
Proof.
  intros v1 v2 r1 r2 H1 H2 He.
  pose proof (value_roundtrip_top wclean v1 r1 eq_refl H1) as E1.
  pose proof (value_roundtrip_top wclean v2 r2 eq_refl H2) as E2.
  rewrite He in E1. rewrite E1 in E2. inversion E2 as [[Hv Hr]]. split; reflexivity.
Qed.
Lemma value_enc_not_prefix : forall v1 v2 r, wf_dval v1 -> wf_dval v2 ->
  enc_dval v1 = enc_dval v2 ++ r -> v1 = v2 /\ r = [].
Proof.
  intros v1 v2 r H1 H2 He. rewrite <- (app_nil_r (enc_dval v1)) in He.
  destruct (value_enc_injective v1 v2 [] r H1 H2 He) as [Hv Hr]. split; [exact Hv|now symmetry].
Qed.

(* a byte stream splits into well-formed dynamic values in at most one way *)
Lemma enc_dval_nonempty : forall v r, wf_dval v -> enc_dval v ++ r <> [].
Proof.
  intros v r Hv He. apply app_eq_nil in He. destruct He as [He _].
  pose proof (value_roundtrip_top wclean v (enc_dval DVoid) eq_refl Hv) as E1.
  pose proof (value_roundtrip_top wclean DVoid [] eq_refl wf_void) as E2.
  rewrite He in E1. cbn [app] in E1. rewrite app_nil_r in E2. rewrite E1 in E2.
  inversion E2.
Qed.
Lemma enc_dval_stream_injective : forall vs1 vs2, Forall wf_dval vs1 -> Forall wf_dval vs2 ->
  flat_map enc_dval vs1 = flat_map enc_dval vs2 -> vs1 = vs2.
Proof.
  induction vs1 as [|v1 vs1 IH]; intros vs2 H1 H2 He; destruct vs2 as [|v2 vs2]; cbn [flat_map] in He.
  - reflexivity.
  - exfalso. inversion H2 as [|x2 l2 Hv2 Hr2]; subst. symmetry in He. now apply enc_dval_nonempty in He.
  - exfalso. inversion H1 as [|x1 l1 Hv1 Hr1]; subst. now apply enc_dval_nonempty in He.
  - inversion H1 as [|x1 l1 Hv1 Hr1]; subst. inversion H2 as [|x2 l2 Hv2 Hr2]; subst.
    destruct (value_enc_injective v1 v2 _ _ Hv1 Hv2 He) as [Hv Hr]. subst v2.
    f_equal. now apply IH.
Qed.

(* typed data: for a fixed signature the documented encoding is injective and prefix-free on
   well-typed values, and what the reflection encoder writes is read back by the typed decoder
   of the documented format (the two serializers compose to the identity) *)
Lemma spec_enc_injective : forall t v1 v2 r1 r2, wf_ty t = true -> has_ty v1 t = true -> has_ty v2 t = true ->
  spec_enc v1 ++ r1 = spec_enc v2 ++ r2 -> v1 = v2 /\ r1 = r2.
Proof.
  intros t v1 v2 r1 r2 Ht H1 H2 He.
  pose proof (spec_dec_enc_top v1 t (Nat.max (dyn_depth v1) (dyn_depth v2)) r1 Ht H1 (PeanoNat.Nat.le_max_l _ _)) as E1.
  pose proof (spec_dec_enc_top v2 t (Nat.max (dyn_depth v1) (dyn_depth v2)) r2 Ht H2 (PeanoNat.Nat.le_max_r _ _)) as E2.
  rewrite He in E1. rewrite E1 in E2. inversion E2 as [[Hv Hr]]. split; reflexivity.
Qed.
Lemma refl_enc_spec_dec : forall c v t fuel rest, refl_drop8 c = false -> wf_ty t = true ->
  has_ty v t = true -> refl_domain t = true -> (dyn_depth v <= fuel)%nat ->
  spec_dec parse_opt fuel t (refl_enc c v ++ rest) = ROk (v, rest).
Proof.
  intros c v t fuel rest Hc Ht Hv Hd Hf. rewrite (refl_enc_spec c v t Hc Hv Hd). now apply spec_dec_enc_top.
Qed.

(* generated decoders (MetaObject, ObjectReference, ServiceInfo ...): instances of the typed decoder *)
Lemma gen_dec_exact : forall t v rest, wf_ty t = true -> has_ty v t = true -> dyn_depth v = 0%nat ->
  gen_dec parse_opt t (spec_enc v ++ rest) = ROk (v, rest).
Proof. intros t v rest Ht Hv Hd. unfold gen_dec. apply spec_dec_enc_top; auto. rewrite Hd. apply le_n. Qed.
Lemma gen_dec_prefix : forall t v k, wf_ty t = true -> has_ty v t = true -> dyn_depth v = 0%nat ->
  (k < List.length (spec_enc v))%nat -> fails (gen_dec parse_opt t (firstn k (spec_enc v))).
Proof. intros t v k Ht Hv Hd Hk. unfold gen_dec. apply spec_dec_prefix_top; auto. rewrite Hd. apply le_n. Qed.

(* non-vacuity: a nested value with a dynamic member, a map and an 8-bit field *)
Definition ex_ty := TStruct "Rec" [("id"%string, TS SU8); ("tags"%string, TMap (TS SStr) (TS SValue)); ("pts"%string, TList (TTuple [TS SI16; TS SF64]))].
Definition ex_val := VTup [VNum 1 200; VMap [(VStr [x61], VDyn (TList (TS SI32)) (VList [VNum 4 7]))]; VList [VTup [VNum 2 65535; VNum 8 1]]].
Lemma ex_val_ok : good_ty ex_ty = true /\ has_ty ex_val ex_ty = true /\ dyn_depth ex_val = 1%nat /\ (List.length (spec_enc ex_val) = 39)%nat.
Proof. vm_compute. repeat split. Qed.
Definition ex_dval := DList [DNum KI32 5; DOpaque (bytes_of_string "{sm}") (spec_enc (VMap [(VStr [x61], dyn5)])); DStr [x62]].
Lemma ex_dval_wf : wf_dval ex_dval.
Proof.
  unfold ex_dval. constructor; [vm_compute; discriminate|].
  repeat constructor; try (vm_compute; congruence).
  change (bytes_of_string "{sm}") with (bytes_of_string (print (TMap (TS SStr) (TS SValue)))).
  apply wf_opq; try (vm_compute; congruence).
Qed.

(* non-vacuity of the theorems outside wfz: containers of zero-width elements, alone, nested,
   as map entries and next to sized members, inside a dynamic value as well *)
Definition zw_ty := TTuple [TList (TS SVoid); TS SI32; TList (TTuple []); TList (TList (TS SVoid));
                            TMap (TS SVoid) (TStruct "E" []); TS SValue; TS SU8].
Definition zw_val := VTup [VList [VTup []; VTup []; VTup []]; VNum 4 7; VList [VTup []; VTup []];
                           VList [VList [VTup []]; VList []]; VMap [(VTup [], VTup [])];
                           VDyn (TList (TTuple [TS SVoid])) (VList [VTup [VTup []]]); VNum 1 9].
Lemma zw_val_ok : wf_ty zw_ty = true /\ wfz zw_ty = false /\ has_ty zw_val zw_ty = true /\
  dyn_depth zw_val = 1%nat /\ (List.length (spec_enc zw_val) = 42)%nat.
Proof. vm_compute. repeat split. Qed.
