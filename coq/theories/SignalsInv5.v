(* SignalsInv5.v — the delivery invariant: for every live subscriber, what it has read, what is
   queued at its handler and what is on its way to its connection is exactly the sequence of
   emissions taken for its connection since the handler was installed; the emissions of its
   window are a contiguous part of that sequence. *)
From QV Require Import Signals SignalsLemmas SignalsStep SignalsInv1 SignalsInv2 SignalsInv3 SignalsInv4.
Local Open Scope N_scope.

Definition dinv (st : state) (x : sub) : Prop :=
  (live (s_pc x) = true -> s_got x ++ s_queue x ++ inflight st (s_conn x) (s_sig x) = s_skip x ++ s_all x) /\
  (live (s_pc x) = false -> exists rest, s_got x ++ rest = s_skip x ++ s_all x) /\
  (s_pc x = PAcked -> s_ackd x = true) /\
  (s_ackd x = true -> exists post, s_all x = s_pre x ++ s_win x ++ post /\ (s_pc x = PAcked -> post = [])).
Definition Deliv (st : state) : Prop := forall s x, nth_error (subs st) s = Some x -> dinv st x.

Lemma Deliv_init : Deliv init.
Proof. intros s x H. destruct s; discriminate. Qed.

Lemma evs_app sig a b : evs sig (a ++ b) = evs sig a ++ evs sig b.
Proof. apply flat_map_app. Qed.

(* a state change that leaves everything in flight as it was *)
Lemma dinv_inflight_same st st' x :
  (forall c sig, inflight st' c sig = inflight st c sig) -> dinv st x -> dinv st' x.
Proof. intros H (D1 & D2 & D3 & D4). repeat split; auto. intro L. rewrite H. auto. Qed.

Lemma dinv_with_pc st x p : live p = true -> live (s_pc x) = true -> p <> PAcked -> dinv st x -> dinv st (with_pc x p).
Proof.
  intros Lp Lx Np (D1 & D2 & D3 & D4). repeat split; cbn [with_pc s_pc s_got s_queue s_conn s_sig s_skip s_all s_ackd s_pre s_win].
  - intros _. auto.
  - intro L. congruence.
  - intro; contradiction.
  - intro A. destruct (D4 A) as (post & E & _). exists post. split; [exact E|]. intro; contradiction.
Qed.
Lemma dinv_acked st x : live (s_pc x) = true -> dinv st x -> dinv st (acked x).
Proof.
  intros Lx (D1 & D2 & D3 & D4). repeat split; cbn [acked s_pc s_got s_queue s_conn s_sig s_skip s_all s_ackd s_pre s_win live].
  - intros _. auto.
  - discriminate.
  - exists []. split; [now rewrite app_nil_r|reflexivity].
Qed.
Lemma dinv_dead st x p : live p = false -> live (s_pc x) = true -> p <> PAcked -> dinv st x -> dinv st (with_pc x p).
Proof.
  intros Lp Lx Np (D1 & D2 & D3 & D4). repeat split; cbn [with_pc s_pc s_got s_queue s_conn s_sig s_skip s_all s_ackd s_pre s_win].
  - intro L. congruence.
  - intros _. eexists. apply D1. exact Lx.
  - intro; contradiction.
  - intro A. destruct (D4 A) as (post & E & _). exists post. split; [exact E|]. intro; contradiction.
Qed.

Lemma Deliv_set st st' s x x' :
  nth_error (subs st) s = Some x -> subs st' = set_nth (subs st) s x' ->
  (forall c sig, inflight st' c sig = inflight st c sig) ->
  (dinv st x -> dinv st x') -> Deliv st -> Deliv st'.
Proof.
  intros Hx Es Hi Hd D t y Hy. rewrite Es in Hy. destruct (Nat.eq_dec s t) as [->|Ne].
  - rewrite (nth_error_set_nth_eq _ _ _ _ Hx) in Hy. injection Hy as <-.
    apply (dinv_inflight_same st); [exact Hi|]. apply Hd. eapply D; exact Hx.
  - rewrite nth_error_set_nth_neq in Hy by exact Ne. apply (dinv_inflight_same st); [exact Hi|]. eapply D; exact Hy.
Qed.

Lemma pending_for_mk_emit sig p us c sig0 :
  pending_for (mk_emit sig p us) c sig0 =
  if sig =? sig0 then map (fun _ => p) (filter (fun u => Nat.eqb (u_conn u) c) us) else [].
Proof. destruct us as [|u us]; cbn; [now destruct (sig =? sig0)|reflexivity]. Qed.

Lemma filter_filter_ents t c sig :
  filter (fun u => Nat.eqb (u_conn u) c) (filter (fun u => u_sig u =? sig) t) = ents t c sig.
Proof.
  induction t as [|u t IH]; [reflexivity|]. cbn [filter ents]. unfold ekey.
  destruct (u_sig u =? sig) eqn:E1; cbn [filter]; destruct (Nat.eqb (u_conn u) c) eqn:E2; cbn [andb];
    fold (ents t c sig); now rewrite IH.
Qed.
Lemma registered_ents st c sig : registered st c sig = negb (match ents (table st) c sig with [] => true | _ => false end).
Proof.
  unfold registered, ents. induction (table st) as [|u t IH]; [reflexivity|]. cbn [existsb filter]. unfold ekey at 1.
  destruct (Nat.eqb (u_conn u) c && (u_sig u =? sig)); [reflexivity|]. cbn [orb]. exact IH.
Qed.

(* the emitter's snapshot: one copy per registered connection *)
Lemma Deliv_emit_snap st sig p :
  Proto st -> emit st = None -> Deliv st -> Deliv (st_emit_snap st sig p).
Proof.
  intros [PK _ _] He D s y Hy. psimpl. rewrite nth_error_map in Hy.
  destruct (nth_error (subs st) s) as [x|] eqn:Hx; [|discriminate]. injection Hy as <-.
  destruct (D s x Hx) as (D1 & D2 & D3 & D4).
  assert (Hinf : forall c sig0, inflight (st_emit_snap st sig p) c sig0 =
            inflight st c sig0 ++ (if sig =? sig0 then map (fun _ => p) (ents (table st) c sig) else [])).
  { intros c sig0. unfold inflight. psimpl. rewrite He. cbn [pending_for]. rewrite app_nil_r, pending_for_mk_emit.
    now rewrite filter_filter_ents. }
  unfold note_emit. destruct ((s_sig x =? sig) && live (s_pc x)) eqn:Eg.
  - apply andb_prop in Eg as [E1 E2]. apply N.eqb_eq in E1.
    pose proof (keyinv_ents_le1 _ _ _ (PK (s_conn x) (s_sig x))) as Le.
    repeat split; cbn [s_pc s_got s_queue s_conn s_sig s_skip s_all s_ackd s_pre s_win].
    + intros _. rewrite Hinf, <- E1, N.eqb_refl, registered_ents.
      destruct (ents (table st) (s_conn x) (s_sig x)) as [|u [|u' r]]; cbn [negb map List.length] in *; try lia.
      * rewrite app_nil_r. auto.
      * rewrite !app_assoc. f_equal. rewrite <- !app_assoc. auto.
    + intro L. congruence.
    + exact D3.
    + intro A. destruct (D4 A) as (post & E & Ep).
      destruct (s_pc x) eqn:Epc; try (exists (if registered st (s_conn x) sig then post ++ [p] else post);
        split; [destruct (registered st (s_conn x) sig); rewrite E, <- ?app_assoc; reflexivity|discriminate]).
      (* PAcked: the connection is registered *)
      specialize (Ep eq_refl). subst post.
      assert (HA : (nP isAck st (s_conn x) (s_sig x) >= 1)%nat).
      { eapply cnt_In; [eapply nth_error_In; exact Hx|]. unfold pcb. now rewrite on_key_refl, Epc. }
      pose proof (keyinv_acked_registered _ _ _ (PK (s_conn x) (s_sig x)) HA) as L1.
      rewrite <- E1, registered_ents. destruct (ents (table st) (s_conn x) (s_sig x)); [discriminate|]. cbn [negb].
      exists []. split; [|reflexivity]. rewrite E, !app_nil_r, <- app_assoc. reflexivity.
  - repeat split; auto. intros L. rewrite Hinf.
    apply andb_false_iff in Eg as [Eg|Eg]; [|congruence].
    rewrite N.eqb_sym, Eg, app_nil_r. auto.
Qed.

(* one send of the emitter: from "pending" to "written" *)
Lemma inflight_emit_send st sig p u us c sig0 :
  emit st = Some (sig, p, u :: us) ->
  inflight (st_emit_send st sig p u us) c sig0 = inflight st c sig0.
Proof.
  intro He. unfold inflight. psimpl. rewrite He, pending_for_mk_emit. cbn [pending_for filter].
  destruct (Nat.eq_dec c (u_conn u)) as [->|Ne].
  - rewrite fupd_eq, evs_app, Nat.eqb_refl. cbn [evs flat_map]. destruct (sig =? sig0); cbn [map app]; rewrite ?app_nil_r; [|reflexivity].
    now rewrite <- app_assoc.
  - rewrite fupd_neq by exact Ne. rewrite (proj2 (Nat.eqb_neq (u_conn u) c)) by congruence. reflexivity.
Qed.

Lemma Deliv_same_subs st st' :
  subs st' = subs st -> (forall c sig, inflight st' c sig = inflight st c sig) -> Deliv st -> Deliv st'.
Proof. intros Es Hi D s x Hx. rewrite Es in Hx. apply (dinv_inflight_same st); [exact Hi|]. eapply D; exact Hx. Qed.

Lemma evs_reply sig f : dreply f <> None -> evs sig [f] = [].
Proof. destruct f; cbn; try reflexivity. intro H; now contradiction H. Qed.

(* an event reaches the handlers of its connection *)
Lemma Deliv_recv_event st c sig m p rest :
  down st c = DEvent sig m p :: rest -> overflow (st_recv_event st c rest sig p) = false ->
  Deliv st -> Deliv (st_recv_event st c rest sig p).
Proof.
  intros Hd Ho D s y Hy. psimpl. unfold dispatch_event in *. cbn [fst snd] in *. rewrite nth_error_map in Hy.
  destruct (nth_error (subs st) s) as [x|] eqn:Hx; [|discriminate]. injection Hy as <-.
  destruct (D s x Hx) as (D1 & D2 & D3 & D4).
  apply orb_false_iff in Ho as [_ Ho].
  assert (Hov : snd (enqueue c sig p x) = false).
  { destruct (snd (enqueue c sig p x)) eqn:E; [|reflexivity]. exfalso.
    assert (existsb (fun x0 => snd (enqueue c sig p x0)) (subs st) = true).
    { apply existsb_exists. exists x. split; [eapply nth_error_In; exact Hx|exact E]. }
    congruence. }
  assert (Hinf : forall c0 sig0, inflight (st_recv_event st c rest sig p) c0 sig0 =
            if Nat.eqb c0 c && (sig =? sig0) then tl (inflight st c0 sig0) else inflight st c0 sig0).
  { intros c0 sig0. unfold inflight. psimpl. destruct (Nat.eq_dec c0 c) as [->|Ne].
    - rewrite fupd_eq, Nat.eqb_refl, Hd. cbn [andb evs flat_map]. destruct (sig =? sig0); reflexivity.
    - rewrite fupd_neq by exact Ne. now rewrite (proj2 (Nat.eqb_neq c0 c)) by exact Ne. }
  assert (Hhd : inflight st c sig = p :: tl (inflight st c sig)).
  { unfold inflight. rewrite Hd. cbn [evs flat_map]. now rewrite N.eqb_refl. }
  unfold enqueue in *. destruct (Nat.eqb (s_conn x) c && (s_sig x =? sig) && live (s_pc x)) eqn:Eg.
  - apply andb_prop in Eg as [Eg E3]. apply andb_prop in Eg as [E1 E2]. apply Nat.eqb_eq in E1. apply N.eqb_eq in E2.
    destruct (Nat.ltb (List.length (s_queue x)) QueueCap); [|discriminate]. cbn [fst].
    repeat split; cbn [s_pc s_got s_queue s_conn s_sig s_skip s_all s_ackd s_pre s_win]; auto.
    intros _. rewrite Hinf, E1, E2, Nat.eqb_refl, N.eqb_refl. cbn [andb].
    rewrite <- (D1 E3), E1, E2, Hhd. cbn [tl]. rewrite <- !app_assoc. reflexivity.
  - cbn [fst]. repeat split; auto. intro L. rewrite Hinf.
    destruct (Nat.eqb (s_conn x) c && (sig =? s_sig x)) eqn:E; [|auto].
    apply andb_prop in E as [E1 E2]. rewrite E1, (N.eqb_sym (s_sig x) sig), E2, L in Eg. discriminate.
Qed.

Lemma overflow_mono g st l st' : Step g st l st' -> overflow st' = false -> overflow st = false.
Proof.
  intros HS H. inversion HS; subst; psimpl; try exact H.
  now apply orb_false_iff in H as [H _].
Qed.

Lemma inflight_same_core st st' :
  down st' = down st -> emit st' = emit st -> forall c sig, inflight st' c sig = inflight st c sig.
Proof. intros Ed Ee c sig. unfold inflight. now rewrite Ed, Ee. Qed.

Lemma inflight_pop_reply st c f rest st' :
  down st c = f :: rest -> dreply f <> None -> down st' = fupd (down st) c rest -> emit st' = emit st ->
  forall c0 sig, inflight st' c0 sig = inflight st c0 sig.
Proof.
  intros Hd Hr Ed Ee c0 sig. unfold inflight. rewrite Ed, Ee. destruct (Nat.eq_dec c0 c) as [->|Ne].
  - rewrite fupd_eq, Hd. destruct f; cbn [evs flat_map app]; try reflexivity. now contradiction Hr.
  - now rewrite fupd_neq by exact Ne.
Qed.

Theorem Deliv_step g st l st' :
  clean g -> Proto st -> Deliv st -> Step g st l st' -> overflow st' = false -> Deliv st'.
Proof.
  intros Hg HP D HS Ho. inversion HS; subst; clear HS.
  - (* install *)
    intros t y Hy. psimpl. destruct (Nat.eq_dec t (List.length (subs st))) as [->|Ne].
    + rewrite nth_error_app_last in Hy. injection Hy as <-.
      repeat split; cbn [new_sub s_pc s_got s_queue s_conn s_sig s_skip s_all s_ackd s_pre s_win live]; try discriminate.
      intros _. unfold inflight. psimpl. now rewrite app_nil_r.
    + assert (Lt : (t < List.length (subs st))%nat).
      { assert (t < List.length (subs st ++ [new_sub st c sig]))%nat by (apply nth_error_Some; congruence).
        rewrite app_length in H. cbn in H. lia. }
      rewrite nth_error_app1 in Hy by exact Lt. apply (dinv_inflight_same st); [reflexivity|]. eapply D; exact Hy.
  - eapply (Deliv_set st _ s x (with_pc x PNeedReg)); try eassumption; try reflexivity.
    apply dinv_with_pc; [reflexivity|now rewrite H0|discriminate].
  - eapply (Deliv_set st _ s x (acked x)); try eassumption; try reflexivity.
    apply dinv_acked. now rewrite H0.
  - eapply (Deliv_set st _ s x (with_pc x (PWaitReg _))); try eassumption; try reflexivity.
    apply dinv_with_pc; [reflexivity|now rewrite H0|discriminate].
  - apply (Deliv_same_subs st); [reflexivity|reflexivity|exact D].
  - apply (Deliv_same_subs st); [reflexivity|reflexivity|exact D].
  - apply (Deliv_same_subs st); [reflexivity|reflexivity|exact D].
  - apply (Deliv_same_subs st); [reflexivity|reflexivity|exact D].
  - apply (Deliv_same_subs st); [reflexivity|reflexivity|exact D].
  - (* reply *)
    apply (Deliv_same_subs st); [reflexivity| |exact D]. intros c0 sig0. unfold inflight. psimpl.
    destruct (Nat.eq_dec c0 c) as [->|Ne]; [|now rewrite fupd_neq by exact Ne].
    rewrite fupd_eq, evs_app. destruct HP as [_ PP _]. specialize (PP _ _ _ H0).
    destruct f; try contradiction. cbn [evs flat_map app]. now rewrite app_nil_r.
  - now apply Deliv_emit_snap.
  - apply (Deliv_same_subs st); [reflexivity| |exact D]. intros. now apply inflight_emit_send.
  - eapply Deliv_recv_event; eassumption.
  - apply (Deliv_same_subs st); [reflexivity| |exact D].
    eapply inflight_pop_reply; try eassumption; try reflexivity. congruence.
  - (* answer *)
    assert (Lx : live (s_pc x) = true).
    { destruct (waits_inv _ _ _ _ H3) as [_ [[_ E]|[_ E]]]; now rewrite E. }
    eapply (Deliv_set st _ s x (answer_sub x f)); try eassumption; try reflexivity.
    + eapply inflight_pop_reply; try eassumption; try reflexivity. congruence.
    + unfold answer_sub. destruct (s_pc x) eqn:Ep; destruct f; try (apply dinv_with_pc; [reflexivity|now rewrite Ep|discriminate]);
        try (apply dinv_acked; now rewrite Ep); try (apply dinv_dead; [reflexivity|now rewrite Ep|discriminate]).
  - eapply (Deliv_set st _ s x (with_pc x PNeedUnreg)); try eassumption; try reflexivity.
    apply dinv_with_pc; [reflexivity|now rewrite H0|discriminate].
  - eapply (Deliv_set st _ s x (with_pc x PAborting)); try eassumption; try reflexivity.
    apply dinv_with_pc; [reflexivity|now rewrite H0|discriminate].
  - eapply (Deliv_set st _ s x (with_pc x (PWaitUnreg _))); try eassumption; try reflexivity.
    apply dinv_with_pc; [reflexivity|now rewrite H0|discriminate].
  - (* deliver *)
    eapply (Deliv_set st _ s x (sub_deliver x p q)); try eassumption; try reflexivity.
    intros (D1 & D2 & D3 & D4). repeat split; cbn [sub_deliver s_pc s_got s_queue s_conn s_sig s_skip s_all s_ackd s_pre s_win]; auto.
    + intros L. rewrite <- (D1 L), H1, <- !app_assoc. reflexivity.
    + intro L. congruence.
  - (* fan close *)
    eapply (Deliv_set st _ s x (sub_close x)); try eassumption; try reflexivity.
    intros (D1 & D2 & D3 & D4). repeat split; cbn [sub_close s_pc s_got s_queue s_conn s_sig s_skip s_all s_ackd s_pre s_win live]; try discriminate.
    + intros _. eexists. apply D1. now rewrite H0.
    + intro A. destruct (D4 A) as (post & E & _). exists post. split; [exact E|discriminate].
Qed.
