(* AuthProofs.v — C06: no delivery to a service other than 0 without an earlier accepted
   authenticate on the same connection; a refused connection is answered once, closed and
   silent ever after.  For every authenticator, every opaque-value reader, every service table,
   every number of connections and every list of labels. *)
From QV Require Import Auth.
From Coq Require Import Lia.
Local Open Scope N_scope.

Section Proofs.
Variable skip_other : bytes -> bytes -> option bytes.
Variable filter_pass : N -> bool.
Variable auth : bytes -> bytes -> bool.
Variable exists_obj : N -> N -> option bool.

Notation step := (step skip_other filter_pass auth exists_obj).
Notation trace := (trace skip_other filter_pass auth exists_obj).
Notation exec := (exec skip_other filter_pass auth exists_obj).
Notation accepted_b := (accepted_b skip_other filter_pass auth).

Definition accepted (f : frame) : Prop := accepted_b f = true.

(* ---- finite map of connections ---- *)
Lemma get_setc_same st c x : get (setc st c x) c = x.
Proof. unfold get, setc; cbn. now rewrite Nat.eqb_refl. Qed.
Lemma get_setc_other st c c' x : c' <> c -> get (setc st c x) c' = get st c'.
Proof. intro H. unfold get, setc; cbn. destruct (Nat.eqb_spec c' c); [contradiction|reflexivity]. Qed.
Lemma get_set_mbox st q c : get (set_mbox st q) c = get st c.
Proof. reflexivity. Qed.
Lemma mbox_setc st c x : s_mbox (setc st c x) = s_mbox st.
Proof. reflexivity. Qed.
Lemma mbox_set_mbox st q : s_mbox (set_mbox st q) = q.
Proof. reflexivity. Qed.

(* ---- the invariant ---- *)
Definition fr_ok (f : frame) : Prop := type_ok (f_type f) = true /\ filter_pass (f_type f) = true.

Definition conn_ok (h : list label) (c : nat) (x : conn) : Prop :=
  (c_authed x = true -> exists fa, In (LArrive c fa) h /\ accepted fa) /\
  (forall f, In f (c_inq x) -> In (LArrive c f) h /\ fr_ok f).

Definition mbox_ok (h : list label) (q : list (nat * frame)) : Prop :=
  forall c f, In (c, f) q -> In (LArrive c f) h /\ fr_ok f /\ f_svc f = 0 /\ f_obj f = 0.

Definition inv (h : list label) (st : state) : Prop :=
  (forall c, conn_ok h c (get st c)) /\ mbox_ok h (s_mbox st).

Lemma conn_ok_sub h h' c x x' :
  conn_ok h c x -> incl h h' -> (c_authed x' = true -> c_authed x = true) ->
  incl (c_inq x') (c_inq x) -> conn_ok h' c x'.
Proof.
  intros [Ha Hq] Hh Hau Hin. split.
  - intro E. destruct (Ha (Hau E)) as [fa [I A]]. exists fa. split; [apply Hh, I|exact A].
  - intros f I. destruct (Hq f (Hin f I)) as [I' F]. split; [apply Hh, I'|exact F].
Qed.

Lemma mbox_ok_sub h h' q q' : mbox_ok h q -> incl h h' -> incl q' q -> mbox_ok h' q'.
Proof.
  intros H Hh Hq c f I. destruct (H c f (Hq _ I)) as [I' R]. split; [apply Hh, I'|exact R].
Qed.

Lemma inv_setc h h' st c x :
  (forall c', conn_ok h c' (get st c')) -> incl h h' -> conn_ok h' c x ->
  forall c', conn_ok h' c' (get (setc st c x) c').
Proof.
  intros Hall Hh Hx c'. destruct (Nat.eq_dec c' c) as [->|N].
  - now rewrite get_setc_same.
  - rewrite get_setc_other by exact N. eapply conn_ok_sub; [apply Hall|exact Hh|tauto|apply incl_refl].
Qed.

Lemma inv_init : inv [] init.
Proof.
  split.
  - intro c. split; cbn; [discriminate|contradiction].
  - intros c f [].
Qed.

Lemma incl_snoc {A} (h : list A) l : incl h (h ++ [l]).
Proof. apply incl_appl, incl_refl. Qed.
Lemma in_snoc {A} (h : list A) l : In l (h ++ [l]).
Proof. apply in_or_app; right; left; reflexivity. Qed.

Lemma inv_keep h l st : inv h st -> inv (h ++ [l]) st.
Proof.
  intros [Hc Hm]. split.
  - intro c. eapply conn_ok_sub; [apply Hc|apply incl_snoc|tauto|apply incl_refl].
  - eapply mbox_ok_sub; [exact Hm|apply incl_snoc|apply incl_refl].
Qed.

Lemma incl_tl_self {A} (a : A) q : incl q (a :: q).
Proof. apply incl_tl, incl_refl. Qed.

Lemma inv_step h st l : inv h st -> inv (h ++ [l]) (fst (step st l)).
Proof.
  intros Hinv. pose proof Hinv as [Hc Hm].
  destruct l as [c f|c f|c|c|]; cbn [Auth.step].
  - (* LArrive *)
    destruct (c_closed (get st c)) eqn:Ecl; [now apply inv_keep|].
    destruct (type_ok (f_type f)) eqn:Ety; cbn [negb].
    2:{ cbn [fst]. split; [|rewrite mbox_setc; eapply mbox_ok_sub; [exact Hm|apply incl_snoc|apply incl_refl]].
        apply (inv_setc h); [exact Hc|apply incl_snoc|].
        eapply conn_ok_sub; [apply Hc|apply incl_snoc|cbn; tauto|cbn; apply incl_refl]. }
    destruct (filter_pass (f_type f)) eqn:Efi; cbn [negb]; [|now apply inv_keep].
    destruct (Nat.leb _ _); [|now apply inv_keep].
    cbn [fst]. split; [|rewrite mbox_setc; eapply mbox_ok_sub; [exact Hm|apply incl_snoc|apply incl_refl]].
    apply (inv_setc h); [exact Hc|apply incl_snoc|].
    destruct (Hc c) as [Ha Hq]. split; cbn.
    + intro E. destruct (Ha E) as [fa [I A]]. exists fa; split; [apply incl_snoc, I|exact A].
    + intros g I. apply in_app_or in I as [I|[<-|[]]].
      * destruct (Hq g I) as [I' F]. split; [apply incl_snoc, I'|exact F].
      * split; [apply in_snoc|split; assumption].
  - (* LDropFull *)
    destruct (_ || _); [now apply inv_keep|]. destruct (Nat.leb _ _); now apply inv_keep.
  - (* LGarbage *)
    destruct (c_closed (get st c)); [now apply inv_keep|].
    cbn [fst]. split; [|rewrite mbox_setc; eapply mbox_ok_sub; [exact Hm|apply incl_snoc|apply incl_refl]].
    apply (inv_setc h); [exact Hc|apply incl_snoc|].
    eapply conn_ok_sub; [apply Hc|apply incl_snoc|cbn; tauto|cbn; apply incl_refl].
  - (* LConn *)
    destruct (c_dead (get st c)); [now apply inv_keep|].
    destruct (c_inq (get st c)) as [|f q] eqn:Eq; [now apply inv_keep|].
    assert (Hsub : forall au cl de, (au = true -> c_authed (get st c) = true) ->
              conn_ok (h ++ [LConn c]) c {| c_authed := au; c_closed := cl; c_dead := de; c_inq := q |}).
    { intros au cl de Hau. eapply conn_ok_sub; [apply Hc|apply incl_snoc|exact Hau|].
      cbn. rewrite Eq. apply incl_tl_self. }
    destruct (negb (c_authed (get st c)) && negb (f_svc f =? 0)).
    { cbn [fst]. split; [|rewrite mbox_setc; eapply mbox_ok_sub; [exact Hm|apply incl_snoc|apply incl_refl]].
      apply (inv_setc h); [exact Hc|apply incl_snoc|]. apply Hsub; tauto. }
    destruct (f_svc f =? 0) eqn:Es.
    + destruct (f_obj f =? 0) eqn:Eo.
      * destruct (Nat.leb _ _); [|now apply inv_keep].
        cbn [fst]. split.
        -- intro c'. rewrite get_set_mbox. revert c'.
           apply (inv_setc h); [exact Hc|apply incl_snoc|]. apply Hsub; tauto.
        -- rewrite mbox_set_mbox. intros c' g I. apply in_app_or in I as [I|[E|[]]].
           ++ destruct (Hm c' g I) as [I' R]. split; [apply incl_snoc, I'|exact R].
           ++ inversion E; subst c' g. destruct (Hc c) as [_ Hq].
              destruct (Hq f) as [I' F]; [rewrite Eq; left; reflexivity|].
              split; [apply incl_snoc, I'|]. split; [exact F|].
              split; now apply N.eqb_eq.
      * cbn [fst]. split; [|rewrite mbox_setc; eapply mbox_ok_sub; [exact Hm|apply incl_snoc|apply incl_refl]].
        apply (inv_setc h); [exact Hc|apply incl_snoc|]. apply Hsub; tauto.
    + cbn [fst]. split; [|rewrite mbox_setc; eapply mbox_ok_sub; [exact Hm|apply incl_snoc|apply incl_refl]].
      apply (inv_setc h); [exact Hc|apply incl_snoc|]. apply Hsub; tauto.
  - (* LMbox *)
    destruct (s_mbox st) as [|[c f] q] eqn:Eq; [now apply inv_keep|].
    assert (Hq : mbox_ok (h ++ [LMbox]) q).
    { eapply mbox_ok_sub; [exact Hm|apply incl_snoc|try rewrite Eq; apply incl_tl_self]. }
    assert (Hk : inv (h ++ [LMbox]) (set_mbox st q)).
    { split; [|exact Hq]. intro c'. rewrite get_set_mbox.
      eapply conn_ok_sub; [apply Hc|apply incl_snoc|tauto|apply incl_refl]. }
    destruct (f_act f =? AuthenticateActionID) eqn:Ea; cbn [negb]; [|exact Hk].
    destruct (dec_capmap skip_other (f_payload f)) as [m rest| |] eqn:Ed; try exact Hk.
    destruct (creds m) as [[u t]|] eqn:Ecr; [|exact Hk].
    destruct (auth u t) eqn:Eau; [|exact Hk].
    cbn [fst]. split; [|rewrite mbox_setc; exact Hq].
    apply (inv_setc h); [intro c'; rewrite get_set_mbox; apply Hc|apply incl_snoc|].
    destruct (Hm c f) as [I [[Ft Ff] [Fs Fo]]]; [left; reflexivity|].
    split; cbn.
    + intros _. exists f. split; [apply incl_snoc, I|].
      unfold accepted, Auth.accepted_b, is_auth_req, frame_creds.
      rewrite Ft, Ff, Fs, Fo, Ea, Ed, Ecr. cbn. exact Eau.
    + intros g Ig. destruct (Hc c) as [_ Hqq]. destruct (Hqq g Ig) as [I' F].
      split; [apply incl_snoc, I'|exact F].
Qed.

(* ---- where deliveries come from ---- *)
Lemma send_no_deliver x c ty f b c' g : ~ In (ODeliver c' g) (send x c ty f b).
Proof. unfold send. destruct (c_closed x); cbn; [tauto|]. intros [E|[]]; discriminate. Qed.

Lemma close_no_deliver x c c' g : ~ In (ODeliver c' g) (close_outs x c).
Proof. unfold close_outs. destruct (c_closed x); cbn; [tauto|]. intros [E|[]]; discriminate. Qed.

Lemma deliver_step st l c f :
  In (ODeliver c f) (snd (step st l)) ->
  l = LConn c /\ c_authed (get st c) = true /\ f_svc f <> 0 /\ c_dead (get st c) = false /\
  exists q, c_inq (get st c) = f :: q.
Proof.
  destruct l as [c0 g|c0 g|c0|c0|]; cbn [Auth.step].
  - destruct (c_closed _); [intros []|].
    destruct (type_ok _); cbn [negb snd]; [|intros [E|[]]; discriminate].
    destruct (filter_pass _); cbn [negb snd]; [|intros []].
    destruct (Nat.leb _ _); cbn [snd]; [intros []|].
    destruct (_ =? _); [|intros []]. intro I. now apply send_no_deliver in I.
  - destruct (_ || _); [intros []|]. destruct (Nat.leb _ _); cbn [snd]; [|intros []].
    destruct (_ =? _); [|intros []]. intro I. now apply send_no_deliver in I.
  - destruct (c_closed _); cbn [snd]; [intros []|intros [E|[]]; discriminate].
  - destruct (c_dead (get st c0)) eqn:Ed; [intros []|].
    destruct (c_inq (get st c0)) as [|g q] eqn:Eq; [intros []|].
    destruct (c_authed (get st c0)) eqn:Ea; cbn [negb andb].
    + destruct (f_svc g =? 0) eqn:Es.
      * destruct (f_obj g =? 0).
        -- destruct (Nat.leb _ _); intros [].
        -- cbn [snd]. intro I. now apply send_no_deliver in I.
      * cbn [snd]. intros [E|I].
        -- inversion E; subst. split; [reflexivity|]. split; [exact Ea|].
           split; [now apply N.eqb_neq|]. split; [exact Ed|]. now exists q.
        -- destruct (exists_obj _ _) as [[|]|]; try (now apply send_no_deliver in I). destruct I.
    + destruct (f_svc g =? 0) eqn:Es; cbn [negb].
      * destruct (f_obj g =? 0).
        -- destruct (Nat.leb _ _); intros [].
        -- cbn [snd]. intro I. now apply send_no_deliver in I.
      * cbn [snd]. intro I. apply in_app_or in I as [I|I];
          [now apply send_no_deliver in I|now apply close_no_deliver in I].
  - destruct (s_mbox st) as [|[c1 g] q]; [intros []|].
    destruct (_ =? _); cbn [negb]; [|cbn [snd]; intro I; now apply send_no_deliver in I].
    destruct (dec_capmap _ _) as [m r| |]; try (cbn [snd]; intro I; now apply send_no_deliver in I).
    destruct (creds m) as [[u t]|]; [|cbn [snd]; intro I; now apply send_no_deliver in I].
    destruct (auth u t); cbn [snd]; (intros [E|I]; [discriminate|now apply send_no_deliver in I]).
Qed.

(* ---- traces ---- *)
Lemma trace_nth st ls i l o :
  nth_error (trace st ls) i = Some (l, o) ->
  nth_error ls i = Some l /\ o = snd (step (exec st (firstn i ls)) l).
Proof.
  revert st i. induction ls as [|l0 r IH]; intros st i; cbn [Auth.trace].
  - destruct i; discriminate.
  - destruct (step st l0) as [st' o0] eqn:E. destruct i as [|i]; cbn.
    + intro H; inversion H; subst. rewrite E. auto.
    + intro H. apply IH in H. rewrite E. exact H.
Qed.

Lemma exec_inv h st ls : inv h st -> inv (h ++ ls) (exec st ls).
Proof.
  revert h st. induction ls as [|l r IH]; intros h st H; cbn [Auth.exec].
  - now rewrite app_nil_r.
  - replace (h ++ l :: r) with ((h ++ [l]) ++ r) by (rewrite <- app_assoc; reflexivity).
    apply IH. now apply inv_step.
Qed.

Lemma in_firstn_nth {A} (x : A) l i : In x (firstn i l) -> exists j, (j < i)%nat /\ nth_error l j = Some x.
Proof.
  revert i; induction l as [|a l IH]; intros [|i]; cbn; try tauto.
  intros [->|I].
  - exists 0%nat; split; [lia|reflexivity].
  - destruct (IH i I) as [j [Hj E]]. exists (S j); split; [lia|exact E].
Qed.

(* C06, first half *)
Theorem no_deliver_without_auth : forall ls i l outs c f,
  nth_error (trace init ls) i = Some (l, outs) -> In (ODeliver c f) outs ->
  f_svc f <> 0 /\
  exists j fa, (j < i)%nat /\ nth_error ls j = Some (LArrive c fa) /\ accepted fa.
Proof.
  intros ls i l outs c f Hn Hin.
  apply trace_nth in Hn as [Hl ->].
  apply deliver_step in Hin as [-> [Ha [Hs _]]]. split; [exact Hs|].
  pose proof (exec_inv [] init (firstn i ls) inv_init) as [Hc _]. cbn [app] in Hc.
  destruct (Hc c) as [Hau _]. destruct (Hau Ha) as [fa [I A]].
  destruct (in_firstn_nth _ _ _ I) as [j [Hj E]]. now exists j, fa.
Qed.

(* the same seen from a connection's authentication flag: the only way to obtain it *)
Theorem authed_only_by_own_accepted_request : forall ls c,
  c_authed (get (exec init ls) c) = true -> exists fa, In (LArrive c fa) ls /\ accepted fa.
Proof.
  intros ls c H. pose proof (exec_inv [] init ls inv_init) as [Hc _]. cbn [app] in Hc.
  destruct (Hc c) as [Hau _]. exact (Hau H).
Qed.

(* ---- second half: refusal = one error frame, close, then silence ---- *)
Definition silent (st : state) (c : nat) : Prop :=
  c_closed (get st c) = true /\ c_dead (get st c) = true.

Lemma send_closed x c ty f b : c_closed x = true -> send x c ty f b = [].
Proof. unfold send. now intros ->. Qed.

Ltac getc c c0 :=
  destruct (Nat.eq_dec c c0) as [->|?];
  [rewrite ?get_setc_same|rewrite ?get_setc_other by assumption].

Lemma silent_step st l c : silent st c ->
  silent (fst (step st l)) c /\ forall o, In o (snd (step st l)) -> out_conn o <> Some c.
Proof.
  intros [Hcl Hde].
  destruct l as [c0 g|c0 g|c0|c0|]; cbn [Auth.step].
  - destruct (Nat.eq_dec c0 c) as [->|N].
    + rewrite Hcl. cbn. split; [split; assumption|tauto].
    + destruct (c_closed (get st c0)) eqn:E0; [cbn; split; [split; assumption|tauto]|].
      destruct (type_ok _); cbn [negb fst snd].
      2:{ split; [split; rewrite get_setc_other by auto; assumption|].
          intros o [<-|[]]; cbn; congruence. }
      destruct (filter_pass _); cbn [negb fst snd]; [|split; [split; assumption|tauto]].
      destruct (Nat.leb _ _); cbn [fst snd].
      * split; [split; rewrite get_setc_other by auto; assumption|tauto].
      * split; [split; assumption|]. destruct (_ =? _); [|tauto].
        unfold send_err, send. rewrite E0. intros o [<-|[]]; cbn; congruence.
  - destruct (Nat.eq_dec c0 c) as [->|N].
    + rewrite Hcl. cbn. split; [split; assumption|tauto].
    + destruct (_ || _) eqn:E0; [cbn; split; [split; assumption|tauto]|].
      destruct (Nat.leb _ _); cbn [fst snd]; (split; [split; assumption|]); [|tauto].
      destruct (_ =? _); [|tauto]. unfold send_err, send. destruct (c_closed (get st c0)); [cbn; tauto|].
      intros o [<-|[]]; cbn; congruence.
  - destruct (Nat.eq_dec c0 c) as [->|N].
    + rewrite Hcl. cbn. split; [split; assumption|tauto].
    + destruct (c_closed (get st c0)); cbn [fst snd]; [split; [split; assumption|tauto]|].
      split; [split; rewrite get_setc_other by auto; assumption|].
      intros o [<-|[]]; cbn; congruence.
  - destruct (Nat.eq_dec c0 c) as [->|N].
    + rewrite Hde. cbn. split; [split; assumption|tauto].
    + destruct (c_dead (get st c0)); [cbn; split; [split; assumption|tauto]|].
      destruct (c_inq (get st c0)) as [|g q]; [cbn; split; [split; assumption|tauto]|].
      assert (Hs : forall ty b o, In o (send (get st c0) c0 ty g b) -> out_conn o <> Some c).
      { intros ty b o. unfold send. destruct (c_closed (get st c0)); [cbn; tauto|]. intros [<-|[]]; cbn; congruence. }
      destruct (negb _ && negb _); cbn [fst snd].
      { split; [split; rewrite get_setc_other by auto; assumption|].
        intros o I. apply in_app_or in I as [I|I]; [eapply Hs, I|].
        unfold close_outs in I. destruct (c_closed (get st c0)); [destruct I|]. destruct I as [<-|[]]; cbn; congruence. }
      destruct (f_svc g =? 0).
      * destruct (f_obj g =? 0).
        -- destruct (Nat.leb _ _); cbn [fst snd]; [|split; [split; assumption|tauto]].
           split; [|tauto]. split; rewrite get_set_mbox, get_setc_other by auto; assumption.
        -- cbn [fst snd]. split; [split; rewrite get_setc_other by auto; assumption|]. intros o I; eapply Hs, I.
      * cbn [fst snd]. split; [split; rewrite get_setc_other by auto; assumption|].
        intros o [<-|I]; [cbn; congruence|].
        destruct (exists_obj _ _) as [[|]|]; try (eapply Hs, I). destruct I.
  - destruct (s_mbox st) as [|[c1 g] q]; [cbn; split; [split; assumption|tauto]|].
    assert (Hs : forall ty b o, In o (send (get st c1) c1 ty g b) -> out_conn o <> Some c).
    { intros ty b o. destruct (Nat.eq_dec c1 c) as [->|N].
      - rewrite send_closed by exact Hcl. tauto.
      - unfold send. destruct (c_closed (get st c1)); [cbn; tauto|]. intros [<-|[]]; cbn; congruence. }
    assert (Hk : silent (set_mbox st q) c) by (split; assumption).
    destruct (_ =? _); cbn [negb fst snd]; [|split; [exact Hk|intros o I; eapply Hs, I]].
    destruct (dec_capmap _ _) as [m r| |]; cbn [fst snd];
      try (split; [exact Hk|intros o I; eapply Hs, I]).
    destruct (creds m) as [[u t]|]; cbn [fst snd]; [|split; [exact Hk|intros o I; eapply Hs, I]].
    destruct (auth u t); cbn [fst snd].
    + split.
      * destruct (Nat.eq_dec c1 c) as [->|N].
        -- split; rewrite get_setc_same; cbn; assumption.
        -- split; rewrite get_setc_other by auto; assumption.
      * intros o [<-|I]; [cbn; congruence|eapply Hs, I].
    + split; [exact Hk|]. intros o [<-|I]; [cbn; congruence|eapply Hs, I].
Qed.

Lemma silent_forever st c ls : silent st c ->
  forall l o, In (l, o) (trace st ls) -> forall e, In e o -> out_conn e <> Some c.
Proof.
  revert st. induction ls as [|l0 r IH]; intros st Hs l o; cbn [Auth.trace]; [intros []|].
  destruct (step st l0) as [st' o0] eqn:E.
  pose proof (silent_step st l0 c Hs) as [Hs' Ho]. rewrite E in Hs', Ho. cbn in Hs', Ho.
  intros [H|H].
  - inversion H; subst. exact Ho.
  - eapply IH; eauto.
Qed.

(* the consumer goroutine of c is about to handle a frame for a service other than 0 while
   the connection is not authenticated *)
Definition refusal_due (st : state) (c : nat) (f : frame) : Prop :=
  c_dead (get st c) = false /\ c_authed (get st c) = false /\
  (exists q, c_inq (get st c) = f :: q) /\ f_svc f <> 0.

Theorem unauthenticated_is_refused_and_closed : forall pre post c f,
  let st := exec init pre in
  refusal_due st c f ->
  exists rest,
    trace st (LConn c :: post) =
      (LConn c, if c_closed (get st c) then []
                else [OFrame c T_Error (f_svc f) (f_obj f) (f_act f) (f_id f) (BErr ENotAuth); OClose c]) :: rest /\
    forall l o, In (l, o) rest -> forall e, In e o -> out_conn e <> Some c.
Proof.
  intros pre post c f st [Hd [Ha [[q Hq] Hs]]].
  cbn [Auth.trace]. destruct (step st (LConn c)) as [st' o] eqn:E.
  exists (trace st' post). cbn [Auth.step] in E. rewrite Hd, Hq, Ha in E.
  apply N.eqb_neq in Hs. rewrite Hs in E. cbn [negb andb] in E. inversion E; subst st' o; clear E.
  split.
  - f_equal. f_equal. unfold send_err, send, close_outs. destruct (c_closed (get st c)); reflexivity.
  - apply silent_forever. split; rewrite get_setc_same; reflexivity.
Qed.

(* ---- what the authentication step looks at ---- *)
(* two requests whose maps give the same user/token lookups are indistinguishable: a forged
   __qi_auth_state entry, or any other entry, has no influence *)
Theorem only_credentials_matter : forall st c f f' q,
  s_mbox st = (c, f) :: q ->
  f_type f' = f_type f -> f_svc f' = f_svc f -> f_obj f' = f_obj f -> f_act f' = f_act f -> f_id f' = f_id f ->
  (exists m r m' r', dec_capmap skip_other (f_payload f) = DOk m r /\
                     dec_capmap skip_other (f_payload f') = DOk m' r' /\ creds m = creds m') ->
  step (set_mbox st ((c, f') :: q)) LMbox = (let '(s, o) := step st LMbox in (s, o)).
Proof.
  intros st c f f' q Hm Et Es Eo Ea Ei [m [r [m' [r' [D [D' Ec]]]]]].
  cbn [Auth.step]. rewrite Hm, mbox_set_mbox, Ea, D, D', Ec.
  unfold send_err, send_reply, send. rewrite Es, Eo, Ea, Ei. rewrite !get_set_mbox.
  destruct (f_act f =? AuthenticateActionID); cbn [negb]; [|reflexivity].
  destruct (creds m') as [[u t]|]; [|reflexivity].
  destruct (auth u t); reflexivity.
Qed.

(* wrongly typed credentials are refused without consulting the authenticator *)
Theorem wrongly_typed_credentials_refused : forall st c f q m r,
  s_mbox st = (c, f) :: q -> f_act f = AuthenticateActionID ->
  dec_capmap skip_other (f_payload f) = DOk m r -> creds m = None ->
  step st LMbox = (set_mbox st q, send_reply (get st c) c f BAuthRefused).
Proof.
  intros st c f q m r Hm Ea D Ec. cbn [Auth.step]. rewrite Hm, Ea, D, Ec. reflexivity.
Qed.

End Proofs.

(* the model's fuel never runs out: each nested "m" consumes at least its 4-byte length *)
Lemma read_string_shorter b s r : read_string b = DOk s r -> (List.length r + 4 <= List.length b)%nat.
Proof.
  unfold read_string, read_u32. destruct (Nat.ltb_spec (List.length b) 4) as [H|H]; [discriminate|].
  pose proof (skipn_length 4 b) as L.
  destruct (unle (firstn 4 b) =? 0). { intro E. assert (Er : skipn 4 b = r) by congruence. rewrite <- Er. lia. }
  destruct (MaxStringSize <? unle (firstn 4 b)); [discriminate|].
  destruct (N.of_nat (List.length (skipn 4 b)) <? unle (firstn 4 b)); [discriminate|].
  intro E. assert (Er : skipn (N.to_nat (unle (firstn 4 b))) (skipn 4 b) = r) by congruence.
  rewrite <- Er. rewrite skipn_length. lia.
Qed.

Lemma read_string_nofuel b : read_string b <> DFuel.
Proof.
  unfold read_string, read_u32.
  repeat (match goal with |- context [if ?d then _ else _] => destruct d end); discriminate.
Qed.

Lemma dec_value_fuel skip fuel b : (List.length b < fuel)%nat -> dec_value skip fuel b <> DFuel.
Proof.
  revert b. induction fuel as [|n IH]; intros b Hl; [lia|]. cbn [dec_value].
  destruct (read_string b) as [s r| |] eqn:E; try discriminate; [|now apply read_string_nofuel in E].
  pose proof (read_string_shorter _ _ _ E) as Hr.
  repeat match goal with
  | |- (if ?c then _ else _) <> _ => destruct c
  | |- read_fixed _ _ _ <> _ => unfold read_fixed; destruct (Nat.ltb _ _); discriminate
  | |- match read_string ?x with _ => _ end <> _ => unfold read_string, read_u32;
         repeat (match goal with |- context [if ?d then _ else _] => destruct d end); discriminate
  | |- DOk _ _ <> _ => discriminate
  | |- match skip ?a ?b with _ => _ end <> _ => destruct (skip a b); discriminate
  end.
  all: try (apply IH; lia).
Qed.

(* ---- a concrete instance (used by C06_nonvacuous) ---- *)
From Coq Require Import String.
Definition enc_string (s : bytes) : bytes := le 4 (N.of_nat (List.length s)) ++ s.
Definition enc_cval (v : cval) : bytes :=
  match v with
  | VStr s => enc_string (bs "s"%string) ++ enc_string s
  | VUint n => enc_string (bs "I"%string) ++ le 4 n
  | VInt n => enc_string (bs "i"%string) ++ le 4 n
  | VOther => enc_string (bs "v"%string)
  end.
Definition enc_capmap (m : capmap) : bytes :=
  le 4 (N.of_nat (List.length m)) ++ flat_map (fun e => enc_string (fst e) ++ enc_cval (snd e)) m.

Definition ex_skip (_ _ : bytes) : option bytes := None.
Definition ex_auth (u t : bytes) : bool := eqb_bytes u (bs "nao"%string) && eqb_bytes t (bs "secret"%string).
Definition ex_exists (s o : N) : option bool := if s =? 1 then Some (o =? 1) else None.
Definition ex_good : frame :=
  {| f_type := T_Call; f_svc := 0; f_obj := 0; f_act := 8; f_id := 2;
     f_payload := enc_capmap [(KeyUser, VStr (bs "nao"%string)); (KeyToken, VStr (bs "secret"%string))] |}.
(* no acceptable credentials, but a forged state entry (as uint and as int) *)
Definition ex_forged : frame :=
  {| f_type := T_Call; f_svc := 0; f_obj := 0; f_act := 8; f_id := 2;
     f_payload := enc_capmap [(KeyState, VUint 3); (KeyUser, VStr (bs "nao"%string)); (KeyToken, VStr (bs "wrong"%string));
                              (bs "x", VInt 3)] |}.
Definition ex_probe : frame :=
  {| f_type := T_Post; f_svc := 1; f_obj := 1; f_act := 100; f_id := 4; f_payload := [] |}.

Lemma ex_good_accepted : accepted ex_skip pinned_filter_pass ex_auth ex_good.
Proof. vm_compute. reflexivity. Qed.

Lemma ex_run_good :
  Auth.trace ex_skip pinned_filter_pass ex_auth ex_exists init [LArrive 0 ex_good; LConn 0; LMbox; LArrive 0 ex_probe; LConn 0] =
  [(LArrive 0 ex_good, []); (LConn 0, []);
   (LMbox, [OAuthCall (bs "nao"%string) (bs "secret"%string) true; OFrame 0 T_Reply 0 0 8 2 BAuthDone]);
   (LArrive 0 ex_probe, []); (LConn 0, [ODeliver 0 ex_probe])].
Proof. vm_compute. reflexivity. Qed.

(* connection 1 authenticates; connection 0 forges the state entry: 0 is refused and closed, and
   its later frames produce nothing *)
Lemma ex_run_forged :
  map snd (Auth.trace ex_skip pinned_filter_pass ex_auth ex_exists init
     [LArrive 1 ex_good; LConn 1; LMbox; LArrive 0 ex_forged; LConn 0; LMbox; LArrive 0 ex_probe; LConn 0;
      LArrive 0 ex_good; LConn 0; LMbox]) =
  [[]; []; [OAuthCall (bs "nao"%string) (bs "secret"%string) true; OFrame 1 T_Reply 0 0 8 2 BAuthDone];
   []; []; [OAuthCall (bs "nao"%string) (bs "wrong"%string) false; OFrame 0 T_Reply 0 0 8 2 BAuthRefused];
   []; [OFrame 0 T_Error 1 1 100 4 (BErr ENotAuth); OClose 0]; []; []; []].
Proof. vm_compute. reflexivity. Qed.
