(* SignalsProofs.v — statements and proofs about the LTS of Signals.v (property C13). *)
From QV Require Import Signals.
Local Open Scope N_scope.

(* ---- what C13 says about a state ---- *)

(* every emission taken for a live subscriber's connection is either read, or queued at its
   handler, or still on its way to the connection: nothing lost, duplicated, reordered, foreign *)
Definition delivery_ok (st : state) (x : sub) : Prop :=
  live (s_pc x) = true ->
  s_got x ++ s_queue x ++ inflight st (s_conn x) (s_sig x) = s_skip x ++ s_all x.
(* ... and what it has read is always a prefix of that sequence *)
Definition prefix_ok (x : sub) : Prop := exists rest, s_got x ++ rest = s_skip x ++ s_all x.
(* the emissions of the window (acknowledgement .. cancel request) are all part of it, contiguously *)
Definition window_ok (x : sub) : Prop :=
  s_ackd x = true -> exists post, s_all x = s_pre x ++ s_win x ++ post /\ (s_pc x = PAcked -> post = []).

(* no event of a registration after the answer that acknowledged its removal, per connection *)
Fixpoint no_event_after_ack (gone : list N) (log : list (dframe * option N)) : bool :=
  match log with
  | [] => true
  | (DEvent _ m _, _) :: r => negb (existsb (N.eqb m) gone) && no_event_after_ack gone r
  | (DReply _ _, Some m) :: r => no_event_after_ack (m :: gone) r
  | _ :: r => no_event_after_ack gone r
  end.

Definition with_switch (u s r d : bool) : scfg :=
  {| uid_global := u; snapshot_send := s; sub_unserialised := r; dup_relock := d |}.

(* ---- refutations: the pinned behaviours, one switch at a time ---- *)

(* a second subscriber is acknowledged while the first one's registerEvent call is still in
   flight; an emission inside its window is neither read nor on its way when everything is idle *)
Definition tr17 : list label :=
  [LInstall 0 200; LCount 0; LSendReg 0 1; LInstall 0 200; LCount 1; LEmitSnap 200 11;
   LMbox 0; LReply; LCliRecv 0].
Lemma refuted_sub_unserialised :
  exists st x, run (with_switch false false true false) init tr17 = Some st /\
    quiescent (with_switch false false true false) st = true /\
    nth_error (subs st) 1 = Some x /\ s_pc x = PAcked /\ s_win x = [11] /\
    s_got x = [] /\ s_queue x = [] /\ inflight st (s_conn x) (s_sig x) = [].
Proof. vm_compute. do 2 eexists. repeat split; reflexivity. Qed.

(* the emitter's snapshot still holds a registration whose removal has been acknowledged *)
Definition tr16 : list label :=
  [LInstall 0 200; LCount 0; LSendReg 0 1; LMbox 0; LReply; LCliRecv 0;
   LInstall 1 200; LCount 1; LSendReg 1 2; LMbox 1; LReply; LCliRecv 1;
   LEmitSnap 200 21; LCancel 1; LSendUnreg 1; LMbox 1; LReply; LCliRecv 1; LFanClose 1;
   LEmitSend; LEmitSend; LCliRecv 0; LDeliver 0; LCliRecv 1].
Lemma refuted_snapshot_send :
  exists st, run (with_switch false true false false) init tr16 = Some st /\
    quiescent (with_switch false true false false) st = true /\
    no_event_after_ack [] (dlog st 1%nat) = false.
Proof. vm_compute. eexists. repeat split; reflexivity. Qed.

(* two clients draw the same handler id: the second subscription is refused ... *)
Definition tr15 : list label :=
  [LInstall 0 200; LCount 0; LSendReg 0 7; LMbox 0; LReply; LCliRecv 0;
   LInstall 1 200; LCount 1; LSendReg 1 7; LMbox 1].
Lemma refuted_uid_global :
  exists st x, run (with_switch true false false false) init (tr15 ++ [LReply; LCliRecv 1]) = Some st /\
    quiescent (with_switch true false false false) st = true /\
    nth_error (subs st) 1 = Some x /\ s_pc x = PFailed.
Proof. vm_compute. do 2 eexists. repeat split; reflexivity. Qed.
(* ... and with the pinned duplicate handling the object's mailbox goroutine deadlocks, the first
   subscriber silently loses its registration and an emission of its window *)
Lemma refuted_uid_global_relock :
  exists st x, run (with_switch true false false true) init (tr15 ++ [LEmitSnap 200 31]) = Some st /\
    quiescent (with_switch true false false true) st = true /\ dead st = true /\
    nth_error (subs st) 0 = Some x /\ s_pc x = PAcked /\ s_win x = [31] /\
    s_got x = [] /\ s_queue x = [] /\ inflight st (s_conn x) (s_sig x) = [].
Proof. vm_compute. do 2 eexists. repeat split; reflexivity. Qed.

(* ---- a concrete run of the repaired model (non-vacuity of the main theorems) ---- *)
Definition tr_ex : list label :=
  [LInstall 0 200; LCount 0; LSendReg 0 1; LMbox 0; LReply; LCliRecv 0;
   LInstall 0 200; LCount 1; LInstall 1 200; LCount 2; LSendReg 2 1; LMbox 1; LReply; LCliRecv 1;
   LEmitSnap 200 5; LEmitSend; LEmitSend; LCliRecv 0; LDeliver 0; LDeliver 1; LCliRecv 1; LDeliver 2;
   LCancel 0; LFanClose 0; LEmitSnap 200 6; LEmitSend; LEmitSend; LCliRecv 0; LDeliver 1;
   LCancel 1; LSendUnreg 1; LMbox 0; LReply; LCliRecv 0; LFanClose 1; LCliRecv 1; LDeliver 2].
Lemma ex_run : exists st, run cfg0 init tr_ex = Some st /\ overflow st = false /\
  map (fun x => (s_pc x, s_got x, s_win x)) (subs st) =
    [(PClosed, [5], [5]); (PClosed, [5; 6], [5; 6]); (PAcked, [5; 6], [5; 6])].
Proof. vm_compute. eexists. repeat split; reflexivity. Qed.
