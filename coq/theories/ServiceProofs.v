(* ServiceProofs.v — invariants of the Service.v transition system and the C16 lemmas. *)
From Coq Require Import Arith NArith List Bool Lia.
From QV Require Import Service.
Import ListNotations.
Local Open Scope N_scope.

(* ---------- maps ---------- *)
Lemma upd_same : forall A (m : N -> option A) i v, upd m i v i = v.
Proof. intros. unfold upd. now rewrite N.eqb_refl. Qed.
Lemma upd_other : forall A (m : N -> option A) i j v, j <> i -> upd m i v j = m j.
Proof. intros. unfold upd. destruct (N.eqb_spec j i); congruence. Qed.
Lemma updA_same : forall m k v, updA m k v k = v.
Proof. intros. unfold updA. now rewrite Nat.eqb_refl. Qed.
Lemma updA_other : forall m k j v, j <> k -> updA m k v j = m j.
Proof. intros. unfold updA. destruct (Nat.eqb_spec j k); congruence. Qed.

Ltac upd_cases i j :=
  destruct (N.eq_dec j i) as [->|?]; [rewrite ?upd_same in *|rewrite ?upd_other in * by assumption].
Ltac updA_cases k j :=
  destruct (Nat.eq_dec j k) as [->|?]; [rewrite ?updA_same in *|rewrite ?updA_other in * by assumption].

(* ---------- choosing the index ---------- *)
Lemma first_free_free : forall objs draws i, first_free objs draws = Some i -> objs i = None.
Proof.
  induction draws as [|d r IH]; simpl; intros i H; [discriminate|].
  destruct (objs (mask31 d)) eqn:E; simpl in H; [auto|].
  now inversion H; subst.
Qed.

Lemma choose_index_free : forall c objs draws i, zero_index_untested c = false ->
  choose_index c objs draws = Some i -> objs i = None.
Proof.
  intros c objs draws i Hc H. unfold choose_index in H. rewrite Hc in H.
  destruct (objs 1) eqn:E1; simpl in H; [eauto using first_free_free|].
  destruct (objs 0) eqn:E0; simpl in H; [eauto using first_free_free|].
  now inversion H; subst.
Qed.

Lemma mask31_lt : forall d, mask31 d < 2 ^ 31.
Proof. intros. unfold mask31. apply N.mod_lt. discriminate. Qed.

(* ---------- the invariant (clean configuration) ---------- *)
Definition st (s : state) (k : nat) : status := a_status (actors s k).

Record inv (s : state) : Prop := {
  iA : forall k i, st s k = Adding i -> objects s i = Some SPending /\ boxes s i = Some TPending;
  iB : forall k i, st s k = Live i ->
         objects s i = Some (SObj k) /\ boxes s i = Some (TObj k) /\ a_id (actors s k) = Some i;
  iC : forall i k, objects s i = Some (SObj k) -> st s k = Live i;
  iD : forall i k, boxes s i = Some (TObj k) -> st s k = Live i;
  iF : forall k k' i, st s k = Adding i -> st s k' = Adding i -> k = k';
  iG : forall i, objects s i <> Some SNil;
  iH : forall k, a_hooks (actors s k) = match st s k with Removed => 1 | _ => 0 end;
  iJ : crashed s = false
}.

Lemma inv_init : inv init.
Proof.
  constructor; unfold st, init; simpl.
  - intros k i H. updA_cases 0%nat k; simpl in H; discriminate.
  - intros k i H. updA_cases 0%nat k; simpl in H; [|discriminate].
    inversion H; subst. rewrite !upd_same. auto.
  - intros i k H. upd_cases 1 i; [|discriminate]. inversion H; subst. now rewrite updA_same.
  - intros i k H. upd_cases 1 i; [|discriminate]. inversion H; subst. now rewrite updA_same.
  - intros k k' i H. updA_cases 0%nat k; simpl in H; discriminate.
  - intros i H. upd_cases 1 i; discriminate.
  - intros k. updA_cases 0%nat k; reflexivity.
  - reflexivity.
Qed.

(* changes of an actor that the invariant does not look at *)
Definition same_core (a b : astate) : Prop :=
  a_status a = a_status b /\ a_id a = a_id b /\ a_hooks a = a_hooks b.

Lemma inv_ext : forall s s', inv s ->
  objects s' = objects s -> boxes s' = boxes s -> crashed s' = crashed s ->
  (forall k, same_core (actors s' k) (actors s k)) -> inv s'.
Proof.
  intros s s' I Ho Hb Hc Ha.
  assert (Hs : forall k, st s' k = st s k) by (intro k; apply (Ha k)).
  constructor; intros; rewrite ?Ho, ?Hb, ?Hc, ?Hs in *.
  - eapply iA; eauto.
  - destruct (Ha k) as (_ & Hid & _). rewrite Hid. eapply iB; eauto.
  - eapply iC; eauto.
  - eapply iD; eauto.
  - eapply iF; eauto.
  - eapply iG; eauto.
  - destruct (Ha k) as (_ & _ & Hh). rewrite Hh. apply iH; auto.
  - apply iJ; auto.
Qed.

Lemma same_core_refl : forall a, same_core a a.
Proof. unfold same_core; auto. Qed.

Lemma same_core_updA : forall (m : nat -> astate) k a, same_core a (m k) ->
  forall j, same_core (updA m k a j) (m j).
Proof. intros. updA_cases k j; auto using same_core_refl. Qed.


Lemma inv_upd_actor : forall s k a', inv s -> same_core a' (actors s k) ->
  inv {| objects := objects s; boxes := boxes s; actors := updA (actors s) k a'; crashed := false |}.
Proof.
  intros s k a' I H. eapply inv_ext; [exact I|reflexivity|reflexivity| |].
  - simpl. symmetry. apply (iJ s I).
  - simpl. now apply same_core_updA.
Qed.

(* ---------- Remove ---------- *)
Lemma do_remove_inv : forall c s i s' fr r, clean c -> inv s ->
  do_remove c s i = (s', fr, r) -> inv s' /\ r <> RmPanic.
Proof.
  intros c s i s' fr r (Hkb & _ & _ & Hrp & _) I H. unfold do_remove in H. rewrite Hkb, Hrp in H.
  destruct (objects s i) as [[| |k]|] eqn:E.
  - inversion H; subst. split; [auto|discriminate].
  - exfalso. eapply iG; eauto.
  - (* a live object *)
    simpl in H. inversion H; subst; clear H. split; [|discriminate].
    pose proof (iC s I _ _ E) as HL. destruct (iB s I _ _ HL) as (_ & Hbx & _).
    constructor; unfold st in *; simpl.
    + intros k0 i0 H0. updA_cases k k0; simpl in H0; [discriminate|].
      destruct (iA s I _ _ H0) as (Ho & Hb). upd_cases i i0; [congruence|auto].
    + intros k0 i0 H0. updA_cases k k0; simpl in H0; [discriminate|].
      destruct (iB s I _ _ H0) as (Ho & Hb & Hi). upd_cases i i0; [congruence|auto].
    + intros i0 k0 H0. upd_cases i i0; [discriminate|].
      pose proof (iC s I _ _ H0) as H1. updA_cases k k0; [|auto].
      unfold st in *. rewrite HL in H1. inversion H1; congruence.
    + intros i0 k0 H0. upd_cases i i0; [discriminate|].
      pose proof (iD s I _ _ H0) as H1. updA_cases k k0; [|auto].
      unfold st in *. rewrite HL in H1. inversion H1; congruence.
    + intros k0 k' i0 H0 H1. updA_cases k k0; simpl in H0; [discriminate|].
      updA_cases k k'; simpl in H1; [discriminate|]. eapply iF; eauto.
    + intros i0 H0. upd_cases i i0; [discriminate|]. eapply iG; eauto.
    + intros k0. updA_cases k k0; simpl.
      * pose proof (iH s I k) as Hh. unfold st in *. rewrite HL in Hh. rewrite Hh. reflexivity.
      * apply (iH s I).
    + reflexivity.
  - inversion H; subst. split; [auto|discriminate].
Qed.

Lemma do_remove_self_inv : forall c s k i s' fr r, clean c -> inv s ->
  do_remove_self c s k i = (s', fr, r) -> inv s' /\ r <> RmPanic.
Proof.
  intros c s k i s' fr r Hc I H. pose proof Hc as (_ & _ & _ & _ & Htb).
  unfold do_remove_self in H. rewrite Htb in H.
  destruct (objects s i) as [[| |k']|]; try (inversion H; subst; split; [auto|discriminate]).
  destruct (Nat.eqb k' k); [eapply do_remove_inv; eauto|inversion H; subst; split; [auto|discriminate]].
Qed.

(* what Remove does to the object that lives at i *)
Lemma do_remove_live : forall c s i k, clean c -> inv s -> st s k = Live i ->
  exists s', do_remove c s i = (s', map (term_frame i) (a_subs (actors s k)), RmDone) /\
    st s' k = Removed /\ a_hooks (actors s' k) = 1 /\ a_subs (actors s' k) = [] /\
    objects s' i = None /\ boxes s' i = None /\
    a_execs (actors s' k) = a_execs (actors s k) /\ a_queue (actors s' k) = a_queue (actors s k) /\
    (forall k', k' <> k -> actors s' k' = actors s k') /\
    (forall j, j <> i -> objects s' j = objects s j /\ boxes s' j = boxes s j).
Proof.
  intros c s i k (Hkb & _) I HL. destruct (iB s I _ _ HL) as (Ho & Hb & Hi).
  unfold do_remove. rewrite Ho, Hkb. simpl. eexists. split.
  - unfold obj_id. rewrite Hi. reflexivity.
  - unfold st; simpl. rewrite updA_same, !upd_same. simpl.
    pose proof (iH s I k) as Hh. unfold st in *. rewrite HL in Hh. rewrite Hh.
    repeat split; auto.
    + intros. now rewrite updA_other.
    + now rewrite upd_other.
    + now rewrite upd_other.
Qed.

(* ---------- every step preserves the invariant ---------- *)
Lemma step_inv : forall c s l s' o, clean c -> inv s -> step c s l = Some (s', o) -> inv s'.
Proof.
  intros c s l s' o Hc I H. pose proof Hc as (Hkb & Hz & Hn & Hrp & Htb).
  unfold step in H. rewrite (iJ s I) in H. destruct l as [k draws|k ok|i|cn f|k|k sg].
  - (* AddBegin *)
    unfold add_begin in H. destruct (a_status (actors s k)) eqn:Es; try discriminate.
    destruct (choose_index c (objects s) draws) as [i|] eqn:Ei; [|discriminate].
    inversion H; subst; clear H. pose proof (choose_index_free _ _ _ _ Hz Ei) as Hfree.
    constructor; unfold st in *; simpl.
    + intros k0 i0 H0. updA_cases k k0; simpl in H0.
      * inversion H0; subst. now rewrite !upd_same.
      * destruct (iA s I _ _ H0) as (Ho & Hb). upd_cases i i0; [congruence|auto].
    + intros k0 i0 H0. updA_cases k k0; simpl in H0; [discriminate|].
      destruct (iB s I _ _ H0) as (Ho & Hb & Hi). upd_cases i i0; [congruence|auto].
    + intros i0 k0 H0. upd_cases i i0; [discriminate|].
      pose proof (iC s I _ _ H0) as H1. updA_cases k k0; [|auto]. unfold st in H1. congruence.
    + intros i0 k0 H0. upd_cases i i0; [discriminate|].
      pose proof (iD s I _ _ H0) as H1. updA_cases k k0; [|auto]. unfold st in H1. congruence.
    + intros k0 k' i0 H0 H1. updA_cases k k0; simpl in H0.
      * inversion H0; subst. updA_cases k k'; [auto|].
        destruct (iA s I _ _ H1). congruence.
      * updA_cases k k'; simpl in H1.
        -- inversion H1; subst. destruct (iA s I _ _ H0). congruence.
        -- eapply iF; eauto.
    + intros i0 H0. upd_cases i i0; [discriminate|]. eapply iG; eauto.
    + intros k0. updA_cases k k0; simpl.
      * pose proof (iH s I k) as Hh. unfold st in Hh. now rewrite Es in Hh.
      * apply (iH s I).
    + reflexivity.
  - (* AddEnd *)
    unfold add_end in H. destruct (a_status (actors s k)) eqn:Es; try discriminate.
    destruct (iA s I _ _ Es) as (Hop & Hbp).
    assert (Hothers : forall k0 i0, k0 <> k -> (st s k0 = Adding i0 \/ st s k0 = Live i0) -> i0 <> i).
    { intros k0 i0 Hne [H0|H0] ->.
      - apply Hne. eapply iF; eauto.
      - destruct (iB s I _ _ H0). congruence. }
    destruct ok.
    + inversion H; subst; clear H. constructor; unfold st in *; simpl.
      * intros k0 i0 H0. updA_cases k k0; simpl in H0; [discriminate|].
        destruct (iA s I _ _ H0). rewrite !upd_other; eauto.
      * intros k0 i0 H0. updA_cases k k0; simpl in H0.
        -- inversion H0; subst. now rewrite !upd_same.
        -- destruct (iB s I _ _ H0) as (?&?&?). rewrite !upd_other; eauto.
      * intros i0 k0 H0. upd_cases i i0.
        -- inversion H0; subst. now rewrite updA_same.
        -- pose proof (iC s I _ _ H0) as H1. updA_cases k k0; [|auto]. unfold st in H1. congruence.
      * intros i0 k0 H0. upd_cases i i0.
        -- inversion H0; subst. now rewrite updA_same.
        -- pose proof (iD s I _ _ H0) as H1. updA_cases k k0; [|auto]. unfold st in H1. congruence.
      * intros k0 k' i0 H0 H1. updA_cases k k0; simpl in H0; [discriminate|].
        updA_cases k k'; simpl in H1; [discriminate|]. eapply iF; eauto.
      * intros i0 H0. upd_cases i i0; [discriminate|]. eapply iG; eauto.
      * intros k0. updA_cases k k0; simpl.
        -- pose proof (iH s I k) as Hh. unfold st in Hh. now rewrite Es in Hh.
        -- apply (iH s I).
      * reflexivity.
    + rewrite Hn in H. inversion H; subst; clear H. constructor; unfold st in *; simpl.
      * intros k0 i0 H0. updA_cases k k0; simpl in H0; [discriminate|].
        destruct (iA s I _ _ H0). rewrite !upd_other; eauto.
      * intros k0 i0 H0. updA_cases k k0; simpl in H0; [discriminate|].
        destruct (iB s I _ _ H0) as (?&?&?). rewrite !upd_other; eauto.
      * intros i0 k0 H0. upd_cases i i0; [discriminate|].
        pose proof (iC s I _ _ H0) as H1. updA_cases k k0; [|auto]. unfold st in H1. congruence.
      * intros i0 k0 H0. upd_cases i i0; [discriminate|].
        pose proof (iD s I _ _ H0) as H1. updA_cases k k0; [|auto]. unfold st in H1. congruence.
      * intros k0 k' i0 H0 H1. updA_cases k k0; simpl in H0; [discriminate|].
        updA_cases k k'; simpl in H1; [discriminate|]. eapply iF; eauto.
      * intros i0 H0. upd_cases i i0; [discriminate|]. eapply iG; eauto.
      * intros k0. updA_cases k k0; simpl.
        -- pose proof (iH s I k) as Hh. unfold st in Hh. now rewrite Es in Hh.
        -- apply (iH s I).
      * reflexivity.
  - (* Remove *)
    unfold remove in H. destruct (do_remove c s i) as [[s1 fr] r] eqn:E.
    destruct (do_remove_inv _ _ _ _ _ _ Hc I E) as (I1 & Hr).
    destruct r; inversion H; subst; auto.
  - (* Recv *)
    unfold recv in H. destruct (boxes s (f_obj f)) as [[|k]|]; inversion H; subst; auto.
    apply inv_upd_actor; auto. unfold same_core; simpl; auto.
  - (* Deliver *)
    unfold deliver in H. destruct (a_queue (actors s k)) as [|[cn f] q] eqn:Eq; [discriminate|].
    set (a := pop_mail (actors s k)) in *.
    set (s1 := {| objects := objects s; boxes := boxes s; actors := updA (actors s) k a; crashed := false |}) in *.
    assert (I1 : inv s1).
    { apply inv_upd_actor; auto. unfold same_core, a; simpl; auto. }
    destruct (f_act f) as [| |arg|arg sg uid].
    + inversion H; subst. apply inv_upd_actor; auto. unfold same_core, a; simpl; auto.
    + inversion H; subst; auto.
    + destruct (wrong_id a arg); [inversion H; subst; auto|].
      destruct (do_remove_self c s1 k (obj_id a)) as [[s2 fr] r] eqn:E.
      destruct (do_remove_self_inv _ _ _ _ _ _ _ Hc I1 E) as (I2 & Hr).
      destruct r; inversion H; subst; auto.
    + destruct (wrong_id a arg); [inversion H; subst; auto|].
      destruct (uid_known (a_subs a) uid); [discriminate|].
      inversion H; subst. apply inv_upd_actor; auto. unfold same_core, a; simpl; auto.
  - (* Emit *)
    unfold emit in H. destruct (a_id (actors s k)); inversion H; subst; auto.
Qed.

Theorem reach_inv : forall c s, clean c -> reach c s -> inv s.
Proof. intros c s Hc R. induction R; eauto using inv_init, step_inv. Qed.

(* ---------- C16: identifiers ---------- *)
Theorem live_ids_unique : forall c s k1 k2 i, clean c -> reach c s ->
  live s k1 i -> live s k2 i -> k1 = k2.
Proof.
  intros c s k1 k2 i Hc R H1 H2. pose proof (reach_inv _ _ Hc R) as I.
  destruct (iB s I _ _ H1) as (Ho1 & _). destruct (iB s I _ _ H2) as (Ho2 & _). congruence.
Qed.

(* the identifier Add hands out is not in use: no live object, no object being added has it *)
Theorem add_index_fresh : forall c s k draws s' o, clean c -> reach c s ->
  step c s (LAddBegin k draws) = Some (s', o) ->
  exists i, o = [OIndex i] /\ objects s i = None /\ st s' k = Adding i /\
    (forall k', st s k' <> Live i /\ st s k' <> Adding i) /\
    (forall j, j <> i -> objects s' j = objects s j /\ boxes s' j = boxes s j) /\
    (forall k', k' <> k -> actors s' k' = actors s k').
Proof.
  intros c s k draws s' o Hc R H. pose proof (reach_inv _ _ Hc R) as I. pose proof Hc as (_ & Hz & _).
  unfold step in H. rewrite (iJ s I) in H. unfold add_begin in H.
  destruct (a_status (actors s k)) eqn:Es; try discriminate.
  destruct (choose_index c (objects s) draws) as [i|] eqn:Ei; [|discriminate].
  inversion H; subst; clear H. pose proof (choose_index_free _ _ _ _ Hz Ei) as Hfree.
  exists i. unfold st; simpl. rewrite updA_same. simpl. repeat split; auto.
  - intro H0. destruct (iB s I _ _ H0). congruence.
  - intro H0. destruct (iA s I _ _ H0). congruence.
  - now rewrite upd_other.
  - now rewrite upd_other.
  - intros. now rewrite updA_other.
Qed.

(* a successful Add makes the object live at the index it was given, with its own mailbox *)
Theorem add_end_live : forall c s k i, clean c -> reach c s -> st s k = Adding i ->
  exists s', step c s (LAddEnd k true) = Some (s', [ORet true]) /\ live s' k i /\
    objects s' i = Some (SObj k) /\ boxes s' i = Some (TObj k) /\
    (forall k', k' <> k -> actors s' k' = actors s k') /\
    (forall j, j <> i -> objects s' j = objects s j /\ boxes s' j = boxes s j).
Proof.
  intros c s k i Hc R Hs. pose proof (reach_inv _ _ Hc R) as I.
  unfold step. rewrite (iJ s I). unfold add_end. unfold st in Hs. rewrite Hs.
  eexists. split; [reflexivity|]. unfold live; simpl. rewrite updA_same, !upd_same. simpl.
  repeat split; auto.
  - intros. now rewrite updA_other.
  - now rewrite upd_other.
  - now rewrite upd_other.
Qed.

(* ---------- C16: a live object is callable ---------- *)
Theorem live_receives : forall c s k i cn f, clean c -> reach c s -> live s k i -> f_obj f = i ->
  step c s (LRecv cn f) =
    Some ({| objects := objects s; boxes := boxes s;
             actors := updA (actors s) k (push_mail (actors s k) (cn, f)); crashed := false |}, []).
Proof.
  intros c s k i cn f Hc R HL Hf. pose proof (reach_inv _ _ Hc R) as I.
  destruct (iB s I _ _ HL) as (_ & Hb & _).
  unfold step. rewrite (iJ s I). unfold recv. now rewrite Hf, Hb.
Qed.

Theorem deliver_hello : forall c s k cn f q, crashed s = false ->
  a_queue (actors s k) = (cn, f) :: q -> f_act f = AHello ->
  exists s', step c s (LDeliver k) = Some (s', answer cn f TReply) /\
    a_execs (actors s' k) = a_execs (actors s k) + 1 /\ a_queue (actors s' k) = q /\
    (forall k', k' <> k -> actors s' k' = actors s k') /\ objects s' = objects s /\ boxes s' = boxes s.
Proof.
  intros c s k cn f q Hcr Hq Hf. unfold step. rewrite Hcr. unfold deliver. rewrite Hq, Hf.
  eexists. split; [reflexivity|]. simpl. rewrite updA_same. simpl. rewrite Hq.
  repeat split; auto. intros. now rewrite updA_other.
Qed.

(* ---------- C16: terminated exactly once ---------- *)
Theorem hooks_exactly_once : forall c s k, clean c -> reach c s ->
  a_hooks (actors s k) = match st s k with Removed => 1 | _ => 0 end.
Proof. intros c s k Hc R. apply (iH s (reach_inv _ _ Hc R)). Qed.

Theorem remove_live : forall c s k i, clean c -> reach c s -> live s k i ->
  exists s', step c s (LRemove i) =
      Some (s', map (term_frame i) (a_subs (actors s k)) ++ [ORet true]) /\
    st s' k = Removed /\ a_hooks (actors s' k) = 1 /\ a_subs (actors s' k) = [] /\
    objects s' i = None /\ boxes s' i = None /\
    a_execs (actors s' k) = a_execs (actors s k) /\ a_queue (actors s' k) = a_queue (actors s k) /\
    (forall k', k' <> k -> actors s' k' = actors s k') /\
    (forall j, j <> i -> objects s' j = objects s j /\ boxes s' j = boxes s j).
Proof.
  intros c s k i Hc R HL. pose proof (reach_inv _ _ Hc R) as I.
  destruct (do_remove_live _ _ _ _ Hc I HL) as (s' & E & P).
  exists s'. split; [|exact P]. unfold step. rewrite (iJ s I). unfold remove. now rewrite E.
Qed.

(* the object's own terminate action, handled by its mailbox goroutine *)
Theorem terminate_live : forall c s k i cn f q arg, clean c -> reach c s -> live s k i ->
  a_queue (actors s k) = (cn, f) :: q -> f_act f = ATerminate arg -> (arg = 0 \/ arg = i) ->
  exists s', step c s (LDeliver k) =
      Some (s', map (term_frame i) (a_subs (actors s k)) ++ answer cn f TReply) /\
    st s' k = Removed /\ a_hooks (actors s' k) = 1 /\ a_subs (actors s' k) = [] /\
    objects s' i = None /\ boxes s' i = None /\
    a_execs (actors s' k) = a_execs (actors s k) /\ a_queue (actors s' k) = q /\
    (forall k', k' <> k -> actors s' k' = actors s k') /\
    (forall j, j <> i -> objects s' j = objects s j /\ boxes s' j = boxes s j).
Proof.
  intros c s k i cn f q arg Hc R HL Hq Hf Harg. pose proof (reach_inv _ _ Hc R) as I.
  destruct (iB s I _ _ HL) as (_ & _ & Hid).
  unfold step. rewrite (iJ s I). unfold deliver. rewrite Hq, Hf.
  set (a := pop_mail (actors s k)).
  set (s1 := {| objects := objects s; boxes := boxes s; actors := updA (actors s) k a; crashed := false |}).
  assert (I1 : inv s1).
  { apply inv_upd_actor; auto. unfold same_core, a; simpl; auto. }
  assert (Hoid : obj_id a = i) by (unfold obj_id, a; simpl; now rewrite Hid).
  assert (Hw : wrong_id a arg = false).
  { unfold wrong_id. rewrite Hoid. destruct Harg as [->| ->]; simpl.
    - reflexivity.
    - rewrite N.eqb_refl. simpl. now rewrite andb_false_r. }
  rewrite Hw, Hoid.
  assert (HL1 : st s1 k = Live i) by (unfold st, s1, a; simpl; rewrite updA_same; exact HL).
  destruct (do_remove_live _ _ _ _ Hc I1 HL1) as (s' & E & P1 & P2 & P3 & P4 & P5 & P6 & P7 & P8 & P9).
  assert (Eself : do_remove_self c s1 k i = do_remove c s1 i).
  { unfold do_remove_self. destruct (terminate_by_index c); [reflexivity|].
    destruct (iB s1 I1 _ _ HL1) as (Ho1 & _). rewrite Ho1, Nat.eqb_refl. reflexivity. }
  rewrite Eself, E. exists s'.
  assert (Ha1 : actors s1 k = a) by (unfold s1; simpl; now rewrite updA_same).
  rewrite Ha1 in *. unfold a in *; simpl in *. rewrite Hq in *. simpl in *.
  repeat split; auto.
  - intros k' Hk. rewrite (P8 k' Hk). unfold s1; simpl. now rewrite updA_other.
  - apply P9; auto.
  - apply P9; auto.
Qed.

(* ---------- C16: unreachable after removal ---------- *)
Theorem removed_unreachable : forall c s k, clean c -> reach c s -> st s k = Removed ->
  forall i, boxes s i <> Some (TObj k) /\ objects s i <> Some (SObj k).
Proof.
  intros c s k Hc R Hs i. pose proof (reach_inv _ _ Hc R) as I. split; intro H.
  - pose proof (iD s I _ _ H). congruence.
  - pose proof (iC s I _ _ H). congruence.
Qed.

(* a frame for an identifier without mailbox: one ObjectNotFound error to the sender, nothing else *)
Theorem recv_not_found : forall c s cn f, crashed s = false -> boxes s (f_obj f) = None ->
  step c s (LRecv cn f) = Some (s, [OFrame cn (TError ENotFound) (f_obj f) (act_num (f_act f)) (f_id f)]).
Proof. intros c s cn f Hcr Hb. unfold step. rewrite Hcr. unfold recv. now rewrite Hb. Qed.

(* in a reachable clean state a mailbox found under i belongs to the object that is live at i *)
Theorem box_is_live : forall c s i k, clean c -> reach c s -> boxes s i = Some (TObj k) -> live s k i.
Proof. intros c s i k Hc R H. exact (iD s (reach_inv _ _ Hc R) _ _ H). Qed.

Lemma hellos_app : forall q m, hellos (q ++ [m]) = hellos q + (if is_hello m then 1 else 0).
Proof.
  intros. unfold hellos. rewrite filter_app, app_length, Nat2N.inj_add. cbn [filter].
  destruct (is_hello m); cbn [List.length]; lia.
Qed.

Lemma hellos_cons : forall m q, hellos (m :: q) = (if is_hello m then 1 else 0) + hellos q.
Proof.
  intros. unfold hellos. cbn [filter]. destruct (is_hello m); cbn [List.length]; rewrite ?Nat2N.inj_succ; lia.
Qed.

Lemma do_remove_actor : forall c s i s' fr r k, do_remove c s i = (s', fr, r) ->
  a_execs (actors s' k) = a_execs (actors s k) /\ a_queue (actors s' k) = a_queue (actors s k).
Proof.
  intros c s i s' fr r k H. unfold do_remove in H.
  destruct (objects s i) as [[| |k0]|]; try (destruct (remove_pending_slot c)); simpl in H;
    inversion H; subst; simpl; auto.
  all: updA_cases k0 k; simpl; auto.
Qed.

Lemma do_remove_self_cases : forall c s k i, do_remove_self c s k i = do_remove c s i \/ do_remove_self c s k i = (s, [], RmMissing).
Proof.
  intros. unfold do_remove_self. destruct (terminate_by_index c); auto.
  destruct (objects s i) as [[| |k']|]; auto. destruct (Nat.eqb k' k); auto.
Qed.

Lemma do_remove_self_actor : forall c s k0 i s' fr r k, do_remove_self c s k0 i = (s', fr, r) ->
  a_execs (actors s' k) = a_execs (actors s k) /\ a_queue (actors s' k) = a_queue (actors s k).
Proof.
  intros c s k0 i s' fr r k H. destruct (do_remove_self_cases c s k0 i) as [E|E]; rewrite E in H.
  - eapply do_remove_actor; eauto.
  - inversion H; subst; auto.
Qed.

(* executions + user-method mails waiting: only a Receive that finds the actor's mailbox raises it *)
Lemma step_potential : forall c s l s' o k, step c s l = Some (s', o) ->
  potential (actors s' k) = potential (actors s k) \/
  exists cn f, l = LRecv cn f /\ boxes s (f_obj f) = Some (TObj k).
Proof.
  intros c s l s' o k H. unfold step in H. destruct (crashed s); [discriminate|].
  destruct l as [k0 draws|k0 ok|i|cn f|k0|k0 sg].
  - unfold add_begin in H. destruct (a_status (actors s k0)); try discriminate.
    destruct (choose_index c (objects s) draws); inversion H; subst. left. simpl.
    updA_cases k0 k; reflexivity.
  - unfold add_end in H. destruct (a_status (actors s k0)); try discriminate.
    destruct ok; [|destruct (nil_slot_on_failed_activate c)]; inversion H; subst; left; simpl;
      updA_cases k0 k; reflexivity.
  - unfold remove in H. destruct (do_remove c s i) as [[s1 fr] r] eqn:E.
    destruct (do_remove_actor _ _ _ _ _ _ k E) as (He & Hq).
    left. unfold potential. destruct r; inversion H; subst; now rewrite He, Hq.
  - unfold recv in H. destruct (boxes s (f_obj f)) as [[|k1]|] eqn:Eb; inversion H; subst; auto.
    destruct (Nat.eq_dec k1 k) as [->|Hne]; [right; eauto|].
    left. simpl. now rewrite updA_other by auto.
  - left. unfold deliver in H. destruct (a_queue (actors s k0)) as [|[cn f] q] eqn:Eq; [discriminate|].
    assert (Hpop : forall obs bxs cr,
      potential (actors {| objects := obs; boxes := bxs; actors := updA (actors s) k0 (pop_mail (actors s k0)); crashed := cr |} k)
      = if Nat.eqb k k0 then a_execs (actors s k0) + hellos q else potential (actors s k)).
    { intros. simpl. unfold updA. destruct (Nat.eqb k k0); [|reflexivity].
      unfold potential; simpl. now rewrite Eq. }
    assert (Hk0 : potential (actors s k0) = a_execs (actors s k0) + (if is_hello (cn, f) then 1 else 0) + hellos q).
    { unfold potential. rewrite Eq, hellos_cons. lia. }
    unfold is_hello in Hk0; simpl in Hk0.
    destruct (f_act f) as [| |arg|arg sg uid] eqn:Ef.
    + inversion H; subst. simpl. unfold updA. destruct (Nat.eqb_spec k k0) as [->|]; [|reflexivity].
      unfold potential; simpl. rewrite Eq; simpl. unfold potential in Hk0. rewrite Eq in Hk0. lia.
    + inversion H; subst. rewrite Hpop. destruct (Nat.eqb_spec k k0) as [->|]; [lia|reflexivity].
    + destruct (wrong_id _ arg).
      * inversion H; subst. rewrite Hpop. destruct (Nat.eqb_spec k k0) as [->|]; [lia|reflexivity].
      * match type of H with context [do_remove_self c ?s1 ?kk ?i] => destruct (do_remove_self c s1 kk i) as [[s2 fr] r] eqn:E end.
        destruct (do_remove_self_actor _ _ _ _ _ _ _ k E) as (He & Hq).
        assert (potential (actors s2 k) = if Nat.eqb k k0 then a_execs (actors s k0) + hellos q else potential (actors s k)).
        { rewrite <- (Hpop (objects s) (boxes s) false). unfold potential. now rewrite He, Hq. }
        destruct r; inversion H; subst; rewrite H0; destruct (Nat.eqb_spec k k0) as [->|]; try lia; reflexivity.
    + destruct (wrong_id _ arg).
      * inversion H; subst. rewrite Hpop. destruct (Nat.eqb_spec k k0) as [->|]; [lia|reflexivity].
      * destruct (uid_known _ uid); [discriminate|]. inversion H; subst. simpl.
        unfold updA. destruct (Nat.eqb_spec k k0) as [->|]; [|reflexivity].
        unfold potential; simpl. rewrite Eq; simpl. unfold potential in Hk0. rewrite Eq in Hk0. lia.
  - unfold emit in H. destruct (a_id (actors s k0)); inversion H; subst. now left.
Qed.

Lemma removed_stays : forall c s l s' o k, clean c -> inv s -> step c s l = Some (s', o) ->
  st s k = Removed -> st s' k = Removed.
Proof.
  intros c s l s' o k Hc I H Hs. pose proof Hc as (Hkb & Hz & Hn & Hrp & Htb).
  assert (Hdr : forall s0 i s1 fr r, inv s0 -> st s0 k = Removed -> do_remove c s0 i = (s1, fr, r) -> st s1 k = Removed).
  { intros s0 i s1 fr r I0 Hs0 E. unfold do_remove in E. rewrite Hrp in E.
    destruct (objects s0 i) as [[| |k0]|] eqn:Eo; simpl in E; inversion E; subst; auto.
    unfold st; simpl. updA_cases k0 k; simpl; auto. }
  unfold step in H. rewrite (iJ s I) in H. unfold st in *.
  destruct l as [k0 draws|k0 ok|i|cn f|k0|k0 sg].
  - unfold add_begin in H. destruct (a_status (actors s k0)) eqn:E0; try discriminate.
    destruct (choose_index c (objects s) draws); inversion H; subst. simpl.
    updA_cases k0 k; [congruence|auto].
  - unfold add_end in H. destruct (a_status (actors s k0)) eqn:E0; try discriminate.
    destruct ok; [|rewrite Hn in H]; inversion H; subst; simpl; updA_cases k0 k; congruence.
  - unfold remove in H. destruct (do_remove c s i) as [[s1 fr] r] eqn:E.
    pose proof (Hdr _ _ _ _ _ I Hs E). destruct r; inversion H; subst; auto.
  - unfold recv in H. destruct (boxes s (f_obj f)) as [[|k1]|]; inversion H; subst; auto.
    simpl. updA_cases k1 k; simpl; auto.
  - unfold deliver in H. destruct (a_queue (actors s k0)) as [|[cn f] q] eqn:Eq; [discriminate|].
    set (a := pop_mail (actors s k0)) in *.
    set (s1 := {| objects := objects s; boxes := boxes s; actors := updA (actors s) k0 a; crashed := false |}) in *.
    assert (I1 : inv s1).
    { apply inv_upd_actor; auto. unfold same_core, a; simpl; auto. }
    assert (Hs1 : st s1 k = Removed).
    { unfold st, s1; simpl. updA_cases k0 k; simpl; auto. }
    destruct (f_act f) as [| |arg|arg sg uid].
    + inversion H; subst. simpl. updA_cases k0 k; simpl; auto.
    + inversion H; subst. exact Hs1.
    + destruct (wrong_id a arg); [inversion H; subst; exact Hs1|].
      destruct (do_remove_self c s1 k0 (obj_id a)) as [[s2 fr] r] eqn:E.
      assert (st s2 k = Removed).
      { destruct (do_remove_self_cases c s1 k0 (obj_id a)) as [E'|E']; rewrite E' in E.
        - eapply Hdr; eauto.
        - inversion E; subst; auto. }
      destruct r; inversion H; subst; auto.
    + destruct (wrong_id a arg); [inversion H; subst; exact Hs1|].
      destruct (uid_known (a_subs a) uid); [discriminate|]. inversion H; subst. simpl.
      updA_cases k0 k; simpl; auto.
  - unfold emit in H. destruct (a_id (actors s k0)); inversion H; subst; auto.
Qed.

(* once removed: whatever happens afterwards, the object executes nothing but the calls that
   were already in its mailbox; every frame received later is refused or goes to another object *)
Theorem removed_never_invoked_again : forall c tr s s' o k, clean c -> reach c s ->
  st s k = Removed -> run c s tr = Some (s', o) ->
  st s' k = Removed /\ potential (actors s' k) = potential (actors s k) /\
  a_execs (actors s' k) <= a_execs (actors s k) + hellos (a_queue (actors s k)).
Proof.
  intros c tr. induction tr as [|l r IH]; intros s s' o k Hc R Hs H; simpl in H.
  - inversion H; subst. unfold potential. repeat split; auto. lia.
  - destruct (step c s l) as [[s1 o1]|] eqn:E; [|discriminate].
    destruct (run c s1 r) as [[s2 o2]|] eqn:E2; [|discriminate]. inversion H; subst; clear H.
    pose proof (reach_inv _ _ Hc R) as I.
    pose proof (removed_stays _ _ _ _ _ _ Hc I E Hs) as Hs1.
    assert (R1 : reach c s1) by (eapply reach_step; eauto).
    destruct (IH _ _ _ _ Hc R1 Hs1 E2) as (P1 & P2 & P3).
    assert (Hp : potential (actors s1 k) = potential (actors s k)).
    { destruct (step_potential _ _ _ _ _ k E) as [Hp|(cn & f & -> & Hb)]; [auto|].
      exfalso. pose proof (iD s I _ _ Hb). unfold st in *. congruence. }
    repeat split; auto; [congruence|].
    unfold potential in *. lia.
Qed.

(* ---------- C16: the frame condition ---------- *)
Definition touched (s : state) (l : label) (k' : nat) : Prop :=
  match l with
  | LAddBegin k _ | LAddEnd k _ | LEmit k _ => k' = k
  | LRemove i => objects s i = Some (SObj k')
  | LRecv _ f => boxes s (f_obj f) = Some (TObj k')
  | LDeliver k => k' = k \/ objects s (obj_id (actors s k)) = Some (SObj k')
  end.

Lemma do_remove_frame : forall c s i s' fr r k', do_remove c s i = (s', fr, r) ->
  objects s i <> Some (SObj k') -> actors s' k' = actors s k'.
Proof.
  intros c s i s' fr r k' H Hn. unfold do_remove in H.
  destruct (objects s i) as [[| |k0]|]; try (destruct (remove_pending_slot c)); simpl in H;
    inversion H; subst; simpl; auto.
  all: rewrite updA_other; auto; congruence.
Qed.

Theorem step_frame : forall c s l s' o k', step c s l = Some (s', o) ->
  ~ touched s l k' -> actors s' k' = actors s k'.
Proof.
  intros c s l s' o k' H Hn. unfold step in H. destruct (crashed s); [discriminate|].
  destruct l as [k0 draws|k0 ok|i|cn f|k0|k0 sg]; simpl in Hn.
  - unfold add_begin in H. destruct (a_status (actors s k0)); try discriminate.
    destruct (choose_index c (objects s) draws); inversion H; subst. simpl. now rewrite updA_other.
  - unfold add_end in H. destruct (a_status (actors s k0)); try discriminate.
    destruct ok; [|destruct (nil_slot_on_failed_activate c)]; inversion H; subst; simpl; now rewrite updA_other.
  - unfold remove in H. destruct (do_remove c s i) as [[s1 fr] r] eqn:E.
    pose proof (do_remove_frame _ _ _ _ _ _ k' E Hn). destruct r; inversion H; subst; auto.
  - unfold recv in H. destruct (boxes s (f_obj f)) as [[|k1]|] eqn:Eb; inversion H; subst; auto.
    simpl. rewrite updA_other; auto. congruence.
  - unfold deliver in H. destruct (a_queue (actors s k0)) as [|[cn f] q]; [discriminate|].
    assert (Hk : k' <> k0) by tauto.
    destruct (f_act f) as [| |arg|arg sg uid].
    + inversion H; subst. simpl. now rewrite updA_other.
    + inversion H; subst. simpl. now rewrite updA_other.
    + destruct (wrong_id _ arg); [inversion H; subst; simpl; now rewrite updA_other|].
      match type of H with context [do_remove_self c ?s1 ?kk ?i] => destruct (do_remove_self c s1 kk i) as [[s2 fr] r] eqn:E end.
      assert (actors s2 k' = actors s k').
      { match type of E with do_remove_self c ?s1 ?kk ?i = _ =>
          destruct (do_remove_self_cases c s1 kk i) as [E'|E'] end; rewrite E' in E.
        - rewrite (do_remove_frame _ _ _ _ _ _ k' E); simpl; [now rewrite updA_other|]. tauto.
        - inversion E; subst. simpl. now rewrite updA_other. }
      destruct r; inversion H; subst; auto.
    + destruct (wrong_id _ arg); [inversion H; subst; simpl; now rewrite updA_other|].
      destruct (uid_known _ uid); [discriminate|]. inversion H; subst. simpl. now rewrite updA_other.
  - unfold emit in H. destruct (a_id (actors s k0)); inversion H; subst; auto.
Qed.

(* in a reachable clean state the object found under a live object's own identifier is itself:
   a terminate handled by a live object touches no other object *)
Theorem deliver_live_touches_self : forall c s k i k', clean c -> reach c s -> live s k i ->
  touched s (LDeliver k) k' -> k' = k.
Proof.
  intros c s k i k' Hc R HL [H|H]; [auto|]. pose proof (reach_inv _ _ Hc R) as I.
  destruct (iB s I _ _ HL) as (Ho & _ & Hid). unfold obj_id in H. rewrite Hid in H. congruence.
Qed.

(* with terminate_by_index off, whatever a mailbox goroutine handles changes its own object only —
   in every state, also for an object that was removed long ago and whose index has a new owner *)
Theorem deliver_touches_self : forall c s k s' o k', terminate_by_index c = false ->
  step c s (LDeliver k) = Some (s', o) -> k' <> k -> actors s' k' = actors s k'.
Proof.
  intros c s k s' o k' Htb H Hk. unfold step in H. destruct (crashed s); [discriminate|].
  unfold deliver in H. destruct (a_queue (actors s k)) as [|[cn f] q]; [discriminate|].
  destruct (f_act f) as [| |arg|arg sg uid].
  - inversion H; subst. simpl. now rewrite updA_other.
  - inversion H; subst. simpl. now rewrite updA_other.
  - destruct (wrong_id _ arg); [inversion H; subst; simpl; now rewrite updA_other|].
    match type of H with context [do_remove_self c ?s1 ?kk ?i] => destruct (do_remove_self c s1 kk i) as [[s2 fr] r] eqn:E end.
    assert (actors s2 k' = actors s k').
    { unfold do_remove_self in E. rewrite Htb in E. simpl in E.
      destruct (objects s (obj_id (pop_mail (actors s k)))) as [[| |k1]|] eqn:Eo;
        try (inversion E; subst; simpl; now rewrite updA_other).
      destruct (Nat.eqb_spec k1 k) as [->|Hne]; [|inversion E; subst; simpl; now rewrite updA_other].
      rewrite (do_remove_frame _ _ _ _ _ _ k' E); simpl; [now rewrite updA_other|].
      rewrite Eo. congruence. }
    destruct r; inversion H; subst; auto.
  - destruct (wrong_id _ arg); [inversion H; subst; simpl; now rewrite updA_other|].
    destruct (uid_known _ uid); [discriminate|]. inversion H; subst. simpl. now rewrite updA_other.
Qed.

(* the maps of the service change only at the index an operation names *)
Theorem remove_maps_frame : forall c s i s' o j, step c s (LRemove i) = Some (s', o) -> j <> i ->
  objects s' j = objects s j /\ boxes s' j = boxes s j.
Proof.
  intros c s i s' o j H Hj. unfold step in H. destruct (crashed s); [discriminate|].
  unfold remove in H. destruct (do_remove c s i) as [[s1 fr] r] eqn:E.
  assert (objects s1 j = objects s j /\ boxes s1 j = boxes s j).
  { unfold do_remove in E.
    destruct (objects s i) as [[| |k0]|]; try (destruct (remove_pending_slot c));
      try (destruct (keep_box_on_remove c)); simpl in E; inversion E; subst; simpl;
      rewrite ?upd_other by auto; auto. }
  destruct r; inversion H; subst; auto.
Qed.

(* the notices Remove sends go to the subscribers of the removed object and to nobody else *)
Theorem remove_outputs : forall c s i s' o, step c s (LRemove i) = Some (s', o) ->
  (exists k r, objects s i = Some (SObj k) /\
     o = map (term_frame (obj_id (actors s k))) (a_subs (actors s k)) ++ [r]) \/
  (exists r, (forall k, objects s i <> Some (SObj k)) /\ o = [r]).
Proof.
  intros c s i s' o H. unfold step in H. destruct (crashed s); [discriminate|].
  unfold remove, do_remove in H.
  destruct (objects s i) as [[| |k0]|] eqn:Eo.
  - right. destruct (remove_pending_slot c); simpl in H; inversion H; subst; eexists;
      (split; [intros k; discriminate|reflexivity]).
  - right. simpl in H. inversion H; subst. eexists. split; [intros k; discriminate|reflexivity].
  - left. simpl in H. inversion H; subst. exists k0. eexists. split; reflexivity.
  - right. simpl in H. inversion H; subst. eexists. split; [intros k; discriminate|reflexivity].
Qed.

(* ---------- the defects of the pinned code ---------- *)
Definition only_keep_box : cfg := {| keep_box_on_remove := true; zero_index_untested := false;
  nil_slot_on_failed_activate := false; remove_pending_slot := false; terminate_by_index := false |}.
Definition only_zero_index : cfg := {| keep_box_on_remove := false; zero_index_untested := true;
  nil_slot_on_failed_activate := false; remove_pending_slot := false; terminate_by_index := false |}.
Definition only_nil_slot : cfg := {| keep_box_on_remove := false; zero_index_untested := false;
  nil_slot_on_failed_activate := true; remove_pending_slot := false; terminate_by_index := false |}.
Definition only_remove_pending : cfg := {| keep_box_on_remove := false; zero_index_untested := false;
  nil_slot_on_failed_activate := false; remove_pending_slot := true; terminate_by_index := false |}.
Definition only_terminate_by_index : cfg := {| keep_box_on_remove := false; zero_index_untested := false;
  nil_slot_on_failed_activate := false; remove_pending_slot := false; terminate_by_index := true |}.

Definition hello_call (i id : N) : frame := {| f_kind := KCall; f_obj := i; f_act := AHello; f_id := id |}.

(* Add an object (it gets index 5), remove it, then call it: it still executes and answers *)
Definition wit_keep_box : list label :=
  [LAddBegin 1 [5]; LAddEnd 1 true; LRemove 5; LRecv 0 (hello_call 5 7); LDeliver 1].

Lemma refuted_keep_box : exists s o, run only_keep_box init wit_keep_box = Some (s, o) /\
  st s 1%nat = Removed /\ a_execs (actors s 1%nat) = 1 /\
  o = [OIndex 5; ORet true; ORet true; OFrame 0 TReply 5 act_hello 7].
Proof. eexists. eexists. split; [vm_compute; reflexivity|]. vm_compute. auto. Qed.

(* remove object 1, then add two objects: both are told index 0 and both are live *)
Definition wit_zero_index : list label :=
  [LRemove 1; LAddBegin 1 []; LAddEnd 1 true; LAddBegin 2 []; LAddEnd 2 true].

Lemma refuted_zero_index : exists s o, run only_zero_index init wit_zero_index = Some (s, o) /\
  live s 1%nat 0 /\ live s 2%nat 0 /\ a_hooks (actors s 1%nat) = 0 /\ objects s 0 = Some (SObj 2%nat).
Proof. eexists. eexists. split; [vm_compute; reflexivity|]. vm_compute. auto. Qed.

(* an object whose Activate fails leaves a nil entry: removing that index ends the process *)
Definition wit_nil_slot : list label := [LAddBegin 1 [5]; LAddEnd 1 false; LRemove 5].

Lemma refuted_nil_slot : exists s o, run only_nil_slot init wit_nil_slot = Some (s, o) /\
  crashed s = true /\ o = [OIndex 5; ORet false; OPanic].
Proof. eexists. eexists. split; [vm_compute; reflexivity|]. vm_compute. auto. Qed.

(* Remove during the activation of actor 1 succeeds on the placeholder; actor 2 is added at the
   freed index inside the same window; then actor 1's Add completes: two live objects, one id *)
Definition wit_remove_pending : list label :=
  [LAddBegin 1 [5]; LRemove 5; LAddBegin 2 [5]; LAddEnd 2 true; LAddEnd 1 true].

Lemma refuted_remove_pending : exists s o, run only_remove_pending init wit_remove_pending = Some (s, o) /\
  live s 1%nat 5 /\ live s 2%nat 5 /\ o = [OIndex 5; ORet true; OIndex 5; ORet true; ORet true].
Proof. eexists. eexists. split; [vm_compute; reflexivity|]. vm_compute. auto. Qed.

(* object 1 (index 5) has its own terminate queued when Service.Remove(5) removes it; the freed index
   is given to object 2; then object 1's mailbox handles the stale terminate: object 2 is terminated *)
Definition wit_terminate_by_index : list label :=
  [LAddBegin 1 [5]; LAddEnd 1 true;
   LRecv 0 {| f_kind := KPost; f_obj := 5; f_act := ATerminate 5; f_id := 7 |};
   LRemove 5; LAddBegin 2 [5]; LAddEnd 2 true; LDeliver 1].

Lemma refuted_terminate_by_index : exists s o, run only_terminate_by_index init wit_terminate_by_index = Some (s, o) /\
  st s 2%nat = Removed /\ a_hooks (actors s 2%nat) = 1 /\ objects s 5 = None /\
  o = [OIndex 5; ORet true; ORet true; OIndex 5; ORet true].
Proof. eexists. eexists. split; [vm_compute; reflexivity|]. vm_compute. auto. Qed.

(* with the switch off the same run leaves object 2 alone *)
Lemma clean_stale_terminate_harmless : exists s o, run cfg_clean init wit_terminate_by_index = Some (s, o) /\
  live s 2%nat 5 /\ a_hooks (actors s 2%nat) = 0.
Proof. eexists. eexists. split; [vm_compute; reflexivity|]. vm_compute. auto. Qed.

(* ---------- a concrete run that meets the hypotheses of the theorems ---------- *)
Definition ex_trace : list label :=
  [LAddBegin 1 [1; 9]; LAddEnd 1 true;
   LRecv 2 {| f_kind := KCall; f_obj := 9; f_act := ARegister 9 102 77; f_id := 3 |}; LDeliver 1;
   LRecv 0 (hello_call 9 4); LRecv 0 {| f_kind := KPost; f_obj := 9; f_act := ATerminate 0; f_id := 5 |};
   LRecv 0 (hello_call 9 6); LDeliver 1; LDeliver 1; LRecv 0 (hello_call 9 8); LDeliver 1].

Lemma ex_run : exists s, run cfg_clean init ex_trace =
  Some (s, [OIndex 9; ORet true; OFrame 2 TReply 9 0 3; OFrame 0 TReply 9 act_hello 4;
            OFrame 2 (TError ETerminated) 9 102 3; OFrame 0 (TError ENotFound) 9 act_hello 8;
            OFrame 0 TReply 9 act_hello 6]) /\
  st s 1%nat = Removed /\ a_hooks (actors s 1%nat) = 1 /\ a_execs (actors s 1%nat) = 2 /\ live s 0%nat 1.
Proof. eexists. split; [vm_compute; reflexivity|]. vm_compute. auto. Qed.

Lemma clean_cfg_clean : clean cfg_clean.
Proof. repeat split. Qed.
