(* PropertyMultiProofs.v — an object with several properties is a family of independent registers:
   an operation acts on the register its name resolves to exactly as Property.pstep does and leaves
   every other register as it was; hence reading a property returns the last accepted write of THAT
   property whatever was done to the others. *)
From Coq Require Import NArith List Bool String Lia.
From QV Require Import Bytes Property PropertyProofs PropertyMulti Lin LinProofs.
Import ListNotations.
Local Open Scope N_scope.

Lemma mupd_length : forall k s ms, List.length (mupd k s ms) = List.length ms.
Proof.
  induction k; intros s [|x r]; simpl; auto.
Qed.

Lemma mreg_mupd_same : forall k s ms, (k < List.length ms)%nat -> mreg (mupd k s ms) k = s.
Proof.
  unfold mreg. induction k; intros s [|x r] H; simpl in *; try lia; auto.
  apply IHk. lia.
Qed.

Lemma mreg_mupd_other : forall k j s ms, j <> k -> mreg (mupd k s ms) j = mreg ms j.
Proof.
  unfold mreg. induction k; intros j s [|x r] H; simpl; auto.
  - destruct j; [congruence | reflexivity].
  - destruct j; [reflexivity |]. apply IHk. congruence.
Qed.

Lemma idx_name_lt : forall t s k, idx_name t s = Some k -> (k < List.length t)%nat.
Proof.
  induction t as [|[n u] r IH]; intros s k H; simpl in *; [discriminate|].
  destruct (String.eqb n s).
  - inversion H. lia.
  - destruct (idx_name r s) eqn:E; simpl in H; [|discriminate].
    inversion H. specialize (IH _ _ E). lia.
Qed.

Lemma idx_uid_lt : forall t u k, idx_uid t u = Some k -> (k < List.length t)%nat.
Proof.
  induction t as [|[n u'] r IH]; intros u k H; simpl in *; [discriminate|].
  destruct (u' =? u).
  - inversion H. lia.
  - destruct (idx_uid r u) eqn:E; simpl in H; [|discriminate].
    inversion H. specialize (IH _ _ E). lia.
Qed.

Lemma at_reg_some : forall o ko k po, at_reg o ko = Some (k, po) -> ko = Some k /\ po = o.
Proof.
  intros o [i|] k po H; simpl in H; [|discriminate]. inversion H. auto.
Qed.

Lemma localize_lt : forall t o k po, localize t o = Some (k, po) -> (k < List.length t)%nat.
Proof.
  intros t o k po H.
  destruct o as [nm|nm v|u x|u c mid]; simpl in H.
  - destruct nm; try discriminate. apply at_reg_some in H. eapply idx_name_lt. apply H.
  - destruct nm; try discriminate; apply at_reg_some in H.
    + eapply idx_name_lt. apply H.
    + eapply idx_uid_lt. apply H.
  - apply at_reg_some in H. eapply idx_uid_lt. apply H.
  - apply at_reg_some in H. eapply idx_uid_lt. apply H.
Qed.

Section Multi.
  Variable t : ptable.
  Variable c : pcfg.
  Variable valid : N -> bool.

  (* an operation that resolves to register k is Property.pstep on that register — same answer,
     same events (tagged with the property's uid) — and every other register is untouched *)
  Theorem mstep_local : forall ms o k po, List.length ms = List.length t ->
    localize t o = Some (k, po) ->
    let '(s1, r, ev) := pstep c valid (mreg ms k) po in
    let '(ms', r', ev') := mstep t c valid ms o in
    r' = r /\ ev' = map (fun e => (uid_of t k, e)) ev /\ mreg ms' k = s1 /\
    List.length ms' = List.length t /\
    forall j, j <> k -> mreg ms' j = mreg ms j.
  Proof.
    intros ms o k po Hl Hloc. unfold mstep. rewrite Hloc.
    destruct (pstep c valid (mreg ms k) po) as [[s1 r] ev].
    repeat split.
    - apply mreg_mupd_same. rewrite Hl. eapply localize_lt. apply Hloc.
    - rewrite mupd_length. exact Hl.
    - intros j Hj. apply mreg_mupd_other. exact Hj.
  Qed.

  (* a name that resolves to no declared property: the call fails, nothing changes, nothing is emitted *)
  Theorem mstep_unresolved : forall ms o, localize t o = None -> mstep t c valid ms o = (ms, RFail, []).
  Proof. intros ms o H. unfold mstep. rewrite H. reflexivity. Qed.

  (* a rejected operation leaves the whole object as it was *)
  Theorem mrejected_unchanged : forall ms o ms' ev, List.length ms = List.length t ->
    (forall k po, localize t o = Some (k, po) -> match po with PGet _ => False | _ => True end) ->
    mstep t c valid ms o = (ms', RFail, ev) ->
    (forall j, mreg ms' j = mreg ms j) /\ ev = [].
  Proof.
    intros ms o ms' ev Hl Hw H. unfold mstep in H.
    destruct (localize t o) as [[k po]|] eqn:Hloc.
    - destruct (pstep c valid (mreg ms k) po) as [[s1 r] ev1] eqn:Hp.
      inversion H; subst.
      destruct (rejected_unchanged _ _ _ _ _ _ Hp) as [Hs He]. subst.
      split; [|reflexivity].
      intros j. destruct (Nat.eq_dec j k) as [->|Hj].
      + apply mreg_mupd_same. rewrite Hl. eapply localize_lt. apply Hloc.
      + apply mreg_mupd_other. exact Hj.
    - inversion H. subst. split; reflexivity.
  Qed.

  Lemma mstep_length : forall ms o, List.length ms = List.length t ->
    List.length (fst (fst (mstep t c valid ms o))) = List.length t.
  Proof.
    intros ms o Hl. unfold mstep.
    destruct (localize t o) as [[k po]|]; [|exact Hl].
    destruct (pstep c valid (mreg ms k) po) as [[s1 r] ev]. simpl.
    rewrite mupd_length. exact Hl.
  Qed.

  Lemma mrun_cons : forall ms o r,
    fst (mrun t c valid ms (o :: r)) = fst (mrun t c valid (fst (fst (mstep t c valid ms o))) r).
  Proof.
    intros ms o r. simpl.
    destruct (mstep t c valid ms o) as [[s1 res] ev]. simpl.
    destruct (mrun t c valid s1 r) as [s2 l]. reflexivity.
  Qed.

  Lemma prun_cons : forall s o r,
    fst (prun c valid s (o :: r)) = fst (prun c valid (fst (fst (pstep c valid s o))) r).
  Proof.
    intros s o r. simpl.
    destruct (pstep c valid s o) as [[s1 res] ev]. simpl.
    destruct (prun c valid s1 r) as [s2 l]. reflexivity.
  Qed.

  (* the register of property k after any sequence of operations on the object = that register run
     on the operations that resolve to k, alone *)
  Theorem mrun_projection : forall ops ms k, List.length ms = List.length t ->
    mreg (fst (mrun t c valid ms ops)) k = fst (prun c valid (mreg ms k) (ops_for t k ops)).
  Proof.
    induction ops as [|o r IH]; intros ms k Hl; [reflexivity|].
    rewrite mrun_cons.
    rewrite IH by (apply mstep_length; exact Hl).
    simpl ops_for. unfold mstep.
    destruct (localize t o) as [[k' po]|] eqn:Hloc; [|reflexivity].
    destruct (pstep c valid (mreg ms k') po) as [[s1 res] ev] eqn:Hp. simpl.
    destruct (Nat.eqb k' k) eqn:E.
    - apply Nat.eqb_eq in E. subst k'.
      rewrite prun_cons, Hp. simpl.
      rewrite mreg_mupd_same; [reflexivity|]. rewrite Hl. eapply localize_lt. apply Hloc.
    - apply Nat.eqb_neq in E.
      rewrite mreg_mupd_other by congruence. reflexivity.
  Qed.

  Lemma minit_length : List.length (minit t) = List.length t.
  Proof. unfold minit. apply map_length. Qed.

  Lemma mreg_minit : forall k, mreg (minit t) k = pinit.
  Proof.
    unfold mreg, minit. induction t as [|x r IH]; intros [|k]; simpl; auto.
  Qed.

  (* reading a property returns the last accepted write of THAT property: the writes (accepted or
     not), reads and subscriptions of every other property of the object are irrelevant *)
  Theorem mread_last_accepted : forall ops n k, idx_name t n = Some k ->
    snd (fst (mstep t c valid (fst (mrun t c valid (minit t) ops)) (MGet (NmStr n)))) =
      match last_accepted c valid None (ops_for t k ops) with Some v => RVal v | None => RFail end.
  Proof.
    intros ops n k Hn. unfold mstep. simpl localize. rewrite Hn. simpl.
    rewrite mrun_projection by apply minit_length.
    rewrite mreg_minit.
    apply read_returns_last_accepted.
  Qed.
End Multi.

(* the checker used on the recorded histories of a several-property object is sound and complete
   for the declarative definition at this instance too *)
Lemma pres_eqb_refl : forall a, pres_eqb a a = true.
Proof.
  intros [v| |]; simpl; auto.
  rewrite String.eqb_refl. simpl. apply eqb_bytes_eq. reflexivity.
Qed.

Theorem mlin_check_iff : forall t c valid init (h : list (orec mop pres)),
  lin_check (mrstep t c valid) pres_eqb init h = true <-> linearizable (mrstep t c valid) init h.
Proof.
  intros t c valid init h. split.
  - apply lin_check_sound. exact pres_eqb_eq.
  - apply lin_check_complete. exact pres_eqb_refl.
Qed.

(* executed: two properties; UpdateA(1) ; then UpdateA(2) overlapping UpdateB(2), both accepted ;
   then reads.  a = 2 and b = 2 is a legal outcome; a = 1 (the accepted write of 2 to a lost because
   of a write to ANOTHER property) is not, whatever order the two overlapping writes took. *)
Definition ex_table : ptable := [("a"%string, 101); ("b"%string, 102)].
Definition ex_hist (a_reads : N) : list (orec mop pres) :=
  [ {| o_tid := 0; o_op := MUpdate 101 1; o_inv := 1; o_ret := Some (2, RDone) |};
    {| o_tid := 0; o_op := MUpdate 101 2; o_inv := 3; o_ret := Some (6, RDone) |};
    {| o_tid := 1; o_op := MUpdate 102 2; o_inv := 4; o_ret := Some (5, RDone) |};
    {| o_tid := 0; o_op := MGet (NmStr "a"); o_inv := 7;
       o_ret := Some (8, RVal {| cv_sig := "i"; cv_data := le 4 a_reads |}) |};
    {| o_tid := 1; o_op := MGet (NmStr "b"); o_inv := 9;
       o_ret := Some (10, RVal {| cv_sig := "i"; cv_data := le 4 2 |}) |} ].
Lemma ex_lost_write :
  linearizable (mrstep ex_table pcfg_clean nonneg) (minit ex_table) (ex_hist 2) /\
  ~ linearizable (mrstep ex_table pcfg_clean nonneg) (minit ex_table) (ex_hist 1).
Proof.
  split.
  - apply mlin_check_iff. vm_compute. reflexivity.
  - intros H. apply mlin_check_iff in H. vm_compute in H. discriminate.
Qed.
