(* WireDefs.v — the definitions the wire theorems are stated with (design/WIRE_THEOREMS.md):
   exact / fails, lens_ok, keys_nodup, wf_dval.  Written by W3 as the statements of
   PrefixProofs.v need them; W2 defines the same notions (the lead de-duplicates). *)
From QV Require Export Wire Value WireLemmas.
Local Open Scope N_scope.

(* exact / fails come from WireLemmas.v (W1), with the statements of the design file *)

(* every list and map of v has at most listValueMaxSize entries *)
Fixpoint lens_ok (v : tval) : bool :=
  match v with
  | VList l => (N.of_nat (List.length l) <=? listValueMaxSize) && forallb lens_ok l
  | VMap kvs => (N.of_nat (List.length kvs) <=? listValueMaxSize)
                && forallb (fun kv => lens_ok (fst kv) && lens_ok (snd kv)) kvs
  | VTup l => forallb lens_ok l
  | VDyn _ v' => lens_ok v'
  | _ => true
  end.

(* map keys pairwise distinct at every VMap, recursively *)
Fixpoint keys_nodup (v : tval) : Prop :=
  match v with
  | VList l | VTup l => fold_right (fun x a => keys_nodup x /\ a) True l
  | VMap kvs => NoDup (map fst kvs)
                /\ fold_right (fun kv a => keys_nodup (fst kv) /\ keys_nodup (snd kv) /\ a) True kvs
  | VDyn _ v' => keys_nodup v'
  | _ => True
  end.

Inductive wf_dval : dval -> Prop :=
| wf_num  : forall k b, b < 2 ^ (8 * N.of_nat (dkind_width k)) -> (k = KBool -> b <= 1) -> wf_dval (DNum k b)
| wf_str  : forall s, N.of_nat (List.length s) <= MaxStringSize -> wf_dval (DStr s)
| wf_list : forall l, N.of_nat (List.length l) <= listValueMaxSize -> Forall wf_dval l -> wf_dval (DList l)
| wf_raw  : forall b, N.of_nat (List.length b) <= rawValueMaxSize -> wf_dval (DRaw b)
| wf_void : wf_dval DVoid
| wf_opq  : forall t v, good_ty t = true -> lookup (print t) dispatch_table = DOther -> print t <> "o"%string ->
            N.of_nat (String.length (print t)) <= MaxStringSize -> has_ty v t = true ->
            wf_dval (DOpaque (bytes_of_string (print t)) (spec_enc v)).
