(* WireDefs.v — the definitions the wire theorems are stated with (design/WIRE_THEOREMS.md):
   exact / fails (WireLemmas.v), lens_ok and keys_nodup (ReflProofs.v), wf_dval (ValueProofs.v). *)
From QV Require Export Wire Value WireLemmas ReflProofs ValueProofs.
