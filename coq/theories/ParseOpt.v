(* ParseOpt.v — signature.Parse as the wire models use it: a type or nothing. *)
From QV Require Import Sig SigParse SigParseProofs.
Definition parse_opt (s : string) : option ty := match parse s with POk t => Some t | _ => None end.
Lemma parse_opt_print t : wf_ty t = true -> parse_opt (print t) = Some t.
Proof. intro H. unfold parse_opt. now rewrite (parse_print t H). Qed.
Lemma parse_opt_wf s t : parse_opt s = Some t -> wf_ty t = true.
Proof. unfold parse_opt. destruct (parse s) eqn:E; intro H; inversion H; subst. eapply parse_wf; eauto. Qed.
