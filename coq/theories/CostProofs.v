(* CostProofs.v — proofs of design/COST_THEOREMS.md about the instrumented decoder of Cost.v (C07):
   no panic once the negative-length repair is in, allocation paid for by the input (reflection
   and signature policies), iterations linear in the input, and the four refutations. *)
From QV Require Import Cost.
From Coq Require Import ZifyN ZifyNat ZifyBool Lia.
Local Open Scope N_scope.

Definition len (bs : bytes) : N := N.of_nat (List.length bs).

(* the largest element size of a list/map node of the type *)
Fixpoint max_esz (t : ty) : N :=
  match t with
  | TS _ => 0
  | TList t' => N.max (elem_size t') (max_esz t')
  | TMap k v => N.max (elem_size k + elem_size v + 8) (N.max (max_esz k) (max_esz v))
  | TTuple ts => fold_right (fun t a => N.max (max_esz t) a) 0 ts
  | TStruct _ fs => fold_right (fun f a => N.max (max_esz (snd f)) a) 0 fs
  end.

(* ---------- unfolding lemmas ---------- *)

(* the member loop of tuples and structs, as a top-level function *)
Fixpoint cgo (pol : policy) (neg : bool) (l : list ty) (b : bytes) (bud : N) (acc : cost) : cres unit * cost :=
  match l with
  | [] => (COk tt b, acc)
  | t' :: l' =>
      let '(r, c) := cdec pol neg t' b bud in
      match r with
      | COk _ b' => cgo pol neg l' b' (bud - iters c) (cadd acc c)
      | e => (e, cadd acc c)
      end
  end.

(* the entry decoder of maps *)
Definition cpair (pol : policy) (neg : bool) (tk tv : ty) (b : bytes) (bud : N) : cres unit * cost :=
  let '(r1, c1) := cdec pol neg tk b bud in
  match r1 with
  | COk _ b' => let '(r2, c2) := cdec pol neg tv b' (bud - iters c1) in (r2, cadd c1 c2)
  | e => (e, c1)
  end.

Definition cfuel (r : bytes) (n : N) : nat := (S (List.length r) + N.to_nat (N.min n 1024))%nat.

Lemma cdec_list pol neg t' bs budget :
  cdec pol neg (TList t') bs budget =
  match cnum 4 bs with
  | COk n r =>
      match count_gate pol n (elem_size t') with
      | None => (gate_fail pol neg n, czero)
      | Some a => cloop (cdec pol neg t') (cfuel r n) n r budget {| alloc := a; iters := 0 |}
      end
  | CErr => (CErr, czero) | CPanic => (CPanic, czero) | CBudget => (CBudget, czero)
  end.
Proof. reflexivity. Qed.

Lemma cdec_map pol neg tk tv bs budget :
  cdec pol neg (TMap tk tv) bs budget =
  match cnum 4 bs with
  | COk n r =>
      if (match pol with PRefl => 2 ^ 31 <=? n | _ => false end)
      then (COk tt r, czero)
      else match count_gate pol n (elem_size tk + elem_size tv + 8) with
           | None => (gate_fail pol neg n, czero)
           | Some a => cloop (cpair pol neg tk tv) (cfuel r n) n r budget {| alloc := a; iters := 0 |}
           end
  | CErr => (CErr, czero) | CPanic => (CPanic, czero) | CBudget => (CBudget, czero)
  end.
Proof. reflexivity. Qed.

Lemma cdec_tuple pol neg ts bs budget :
  cdec pol neg (TTuple ts) bs budget = cgo pol neg ts bs budget czero.
Proof.
  cbn [cdec]. generalize czero as acc. revert bs budget.
  induction ts as [|t' l IH]; intros b bud acc; [reflexivity|].
  cbn [cgo]. destruct (cdec pol neg t' b bud) as [r c]. destruct r as [u b'| | |]; try reflexivity.
  apply IH.
Qed.

Lemma cdec_struct pol neg name fs bs budget :
  cdec pol neg (TStruct name fs) bs budget = cgo pol neg (map snd fs) bs budget czero.
Proof.
  cbn [cdec]. generalize czero as acc. revert bs budget.
  induction fs as [|f l IH]; intros b bud acc; [reflexivity|].
  cbn [cgo map]. destruct (cdec pol neg (snd f) b bud) as [r c]. destruct r as [u b'| | |]; try reflexivity.
  apply IH.
Qed.

(* ---------- 4. refutations ---------- *)

Lemma cdec_gen_alloc_refuted :
  alloc (snd (cdec PGen false (TList (TS SStr)) [xff; xff; xff; xff] 1000)) = (2 ^ 32 - 1) * 16.
Proof. vm_compute. reflexivity. Qed.

Lemma cdec_sig_spin_refuted :
  fst (cdec PSig false (TList (TS SVoid)) [xff; xff; xff; xff] 1000000) = CBudget.
Proof. vm_compute. reflexivity. Qed.

Lemma cdec_refl_panic_refuted :
  fst (cdec PRefl true (TList (TS SI32)) [xff; xff; xff; xff] 1000) = CPanic.
Proof. vm_compute. reflexivity. Qed.

(* the loop never gives back what was already allocated *)
Lemma cloop_alloc_mono {A} (p : bytes -> N -> cres A * cost) fuel :
  forall n bs budget acc, alloc acc <= alloc (snd (cloop p fuel n bs budget acc)).
Proof.
  induction fuel as [|f IH]; intros n bs budget acc; cbn [cloop].
  - destruct (n =? 0); [cbn; lia|]. destruct (budget =? 0); cbn; lia.
  - destruct (n =? 0); [cbn; lia|]. destruct (budget =? 0); [cbn; lia|].
    destruct (p bs (budget - 1)) as [r c].
    assert (Hacc : alloc acc <= alloc (cadd acc (cadd c {| alloc := 0; iters := 1 |})))
      by (cbn [cadd alloc]; lia).
    destruct r as [a rest| | |]; cbn [snd]; try exact Hacc.
    eapply N.le_trans; [exact Hacc|apply IH].
Qed.

Lemma elem_size_repeat_str m : elem_size (TTuple (repeat (TS SStr) m)) = 16 * N.of_nat m.
Proof.
  cbn [elem_size]. induction m as [|m IH]; [reflexivity|].
  cbn [repeat fold_right]. rewrite IH. cbn [elem_size]. lia.
Qed.

Lemma cdec_gen_alloc_unbounded :
  forall k, exists t bs, len bs = 4 /\ k <= alloc (snd (cdec PGen false t bs 1000)).
Proof.
  intro k. exists (TList (TTuple (repeat (TS SStr) (N.to_nat k)))), [x01; x00; x00; x00].
  split; [reflexivity|].
  rewrite cdec_list.
  change (cnum 4 [x01; x00; x00; x00]) with (@COk N 1 []).
  cbv beta iota. unfold count_gate.
  eapply N.le_trans; [|apply cloop_alloc_mono].
  cbn [alloc]. rewrite elem_size_repeat_str. lia.
Qed.

(* ---------- the primitive readers ---------- *)

Lemma ctake_spec n bs :
  ctake n bs = CErr \/ exists d r, ctake n bs = COk d r /\ len r + N.of_nat n = len bs.
Proof.
  unfold ctake. destruct (Nat.ltb (List.length bs) n) eqn:Hlt; [left; reflexivity|right].
  apply Nat.ltb_ge in Hlt. exists (firstn n bs), (skipn n bs). split; [reflexivity|].
  unfold len. rewrite skipn_length. lia.
Qed.

Lemma cnum_spec w bs :
  cnum w bs = CErr \/ exists n r, cnum w bs = COk n r /\ len r + N.of_nat w = len bs.
Proof.
  unfold cnum. destruct (ctake_spec w bs) as [He|[d [r [He Hl]]]]; rewrite He; [left; reflexivity|right].
  exists (unle d), r. split; [reflexivity|exact Hl].
Qed.

(* what one run costs and consumes, by outcome *)
Definition paid (mw : N) (bs : bytes) (rc : cres unit * cost) : Prop :=
  iters (snd rc) = 0 /\
  match fst rc with
  | COk _ rest => alloc (snd rc) + mw + len rest <= len bs
  | CErr => alloc (snd rc) <= MaxStringSize
  | _ => False
  end.

Lemma cstr_spec bs :
  iters (snd (cstr bs)) = 0 /\
  match fst (cstr bs) with
  | COk _ rest => alloc (snd (cstr bs)) + 4 + len rest <= len bs
  | CErr => alloc (snd (cstr bs)) <= MaxStringSize
  | _ => False
  end.
Proof.
  unfold cstr. destruct (cnum_spec 4 bs) as [He|[n [r [He Hl]]]]; rewrite He.
  - cbn [fst snd czero alloc iters]. split; [reflexivity|]. unfold MaxStringSize. lia.
  - destruct (n =? 0) eqn:Hz.
    + cbn [fst snd czero alloc iters]. split; [reflexivity|lia].
    + destruct (MaxStringSize <? n) eqn:Hmax.
      * cbn [fst snd czero alloc iters]. split; [reflexivity|]. unfold MaxStringSize. lia.
      * cbn [fst snd alloc iters]. split; [reflexivity|].
        destruct (ctake_spec (N.to_nat n) r) as [Ht|[d [r' [Ht Hl']]]]; rewrite Ht; lia.
Qed.

Lemma cdec_scalar pol neg s bs budget :
  paid (N.of_nat (min_width (TS s))) bs (cdec pol neg (TS s) bs budget).
Proof.
  assert (Htake : forall w, paid (N.of_nat w) bs
            (match ctake w bs with COk _ r => COk tt r | CErr => CErr | CPanic => CPanic | CBudget => CBudget end, czero)).
  { intro w. unfold paid. cbn [fst snd czero alloc iters]. split; [reflexivity|].
    destruct (ctake_spec w bs) as [Ht|[d [r [Ht Hl]]]]; rewrite Ht; [unfold MaxStringSize|]; lia. }
  assert (Herr : forall mw, paid mw bs (@CErr unit, czero)).
  { intro mw. unfold paid. cbn [fst snd czero alloc iters]. split; [reflexivity|]. unfold MaxStringSize. lia. }
  destruct s; cbn [cdec scalar_width min_width]; try apply Htake; try apply Herr.
  (* string; void is Htake 0 *)
  pose proof (cstr_spec bs) as [Hi Ha]. destruct (cstr bs) as [r c]. cbn [fst snd] in Hi, Ha.
    unfold paid. cbn [fst snd]. split; [exact Hi|].
    destruct r as [u rest| | |]; exact Ha.
Qed.

(* ---------- 1. no panic with the negative-length repair ---------- *)

Lemma cloop_no_panic {A} (p : bytes -> N -> cres A * cost) :
  (forall b bud, fst (p b bud) <> CPanic) ->
  forall fuel n bs budget acc, fst (cloop p fuel n bs budget acc) <> CPanic.
Proof.
  intros Hp fuel. induction fuel as [|f IH]; intros n bs budget acc; cbn [cloop].
  - destruct (n =? 0); [cbn; discriminate|]. destruct (budget =? 0); cbn; discriminate.
  - destruct (n =? 0); [cbn; discriminate|]. destruct (budget =? 0); [cbn; discriminate|].
    pose proof (Hp bs (budget - 1)) as Hp1. destruct (p bs (budget - 1)) as [r c].
    destruct r as [a rest| | |]; cbn [fst] in *; try discriminate; [apply IH|congruence].
Qed.

Lemma gate_fail_no_panic pol n : gate_fail pol false n <> CPanic.
Proof. unfold gate_fail. destruct pol; try discriminate. rewrite andb_false_r. discriminate. Qed.

Lemma cgo_no_panic pol ts :
  Forall (fun t => forall bs budget, fst (cdec pol false t bs budget) <> CPanic) ts ->
  forall b bud acc, fst (cgo pol false ts b bud acc) <> CPanic.
Proof.
  intro HF. induction HF as [|t' l Ht HF IH]; intros b bud acc; cbn [cgo]; [cbn; discriminate|].
  pose proof (Ht b bud) as Ht1. destruct (cdec pol false t' b bud) as [r c].
  destruct r as [u b'| | |]; cbn [fst] in *; try discriminate; [apply IH|congruence].
Qed.

Theorem cdec_no_panic : forall pol t bs budget, fst (cdec pol false t bs budget) <> CPanic.
Proof.
  intros pol t. induction t as [s|t' IH|tk tv IHk IHv|ts IH|name fs IH] using ty_ind2; intros bs budget.
  - pose proof (cdec_scalar pol false s bs budget) as [_ H]. intro E. rewrite E in H. exact H.
  - rewrite cdec_list. destruct (cnum_spec 4 bs) as [He|[n [r [He Hl]]]]; rewrite He; [cbn; discriminate|].
    destruct (count_gate pol n (elem_size t')) as [a|]; [|apply gate_fail_no_panic].
    apply cloop_no_panic. exact IH.
  - rewrite cdec_map. destruct (cnum_spec 4 bs) as [He|[n [r [He Hl]]]]; rewrite He; [cbn; discriminate|].
    match goal with |- context [if ?c then _ else _] => destruct c end; [cbn; discriminate|].
    destruct (count_gate pol n (elem_size tk + elem_size tv + 8)) as [a|]; [|apply gate_fail_no_panic].
    apply cloop_no_panic. intros b bud. unfold cpair.
    pose proof (IHk b bud) as Hk. destruct (cdec pol false tk b bud) as [r1 c1].
    destruct r1 as [u b'| | |]; cbn [fst] in *; try discriminate; [|congruence].
    pose proof (IHv b' (bud - iters c1)) as Hv. destruct (cdec pol false tv b' (bud - iters c1)) as [r2 c2].
    exact Hv.
  - rewrite cdec_tuple. apply cgo_no_panic. exact IH.
  - rewrite cdec_struct. apply cgo_no_panic. apply Forall_map. exact IH.
Qed.
