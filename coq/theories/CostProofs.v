(* CostProofs.v — proofs of design/COST_THEOREMS.md about the instrumented decoder of Cost.v (C07):
   no panic once the negative-length repair is in, allocation paid for by the input (reflection
   and signature policies), iterations linear in the input, and the four refutations. *)
From QV Require Import Cost.
From Coq Require Import ZifyN ZifyNat ZifyBool Lia.
Local Open Scope N_scope.

Definition len (bs : bytes) : N := N.of_nat (List.length bs).

(* the largest element size of a list/map node of the type *)
Fixpoint max_esz (t : ty) : N :=
  match t with
  | TS _ => 0
  | TList t' => N.max (elem_size t') (max_esz t')
  | TMap k v => N.max (elem_size k + elem_size v + 8) (N.max (max_esz k) (max_esz v))
  | TTuple ts => fold_right (fun t a => N.max (max_esz t) a) 0 ts
  | TStruct _ fs => fold_right (fun f a => N.max (max_esz (snd f)) a) 0 fs
  end.

(* ---------- unfolding lemmas ---------- *)

(* the member loop of tuples and structs, as a top-level function *)
Fixpoint cgo (pol : policy) (neg : bool) (l : list ty) (b : bytes) (bud : N) (acc : cost) : cres unit * cost :=
  match l with
  | [] => (COk tt b, acc)
  | t' :: l' =>
      let '(r, c) := cdec pol neg t' b bud in
      match r with
      | COk _ b' => cgo pol neg l' b' (bud - iters c) (cadd acc c)
      | e => (e, cadd acc c)
      end
  end.

(* the entry decoder of maps *)
Definition cpair (pol : policy) (neg : bool) (tk tv : ty) (b : bytes) (bud : N) : cres unit * cost :=
  let '(r1, c1) := cdec pol neg tk b bud in
  match r1 with
  | COk _ b' => let '(r2, c2) := cdec pol neg tv b' (bud - iters c1) in (r2, cadd c1 c2)
  | e => (e, c1)
  end.

Definition cfuel (r : bytes) (n : N) : nat := (S (List.length r) + N.to_nat (N.min n 1024))%nat.

Lemma cdec_list pol neg t' bs budget :
  cdec pol neg (TList t') bs budget =
  match cnum 4 bs with
  | COk n r =>
      match count_gate pol n (elem_size t') with
      | None => (gate_fail pol neg n, czero)
      | Some a => cloop (cdec pol neg t') (cfuel r n) n r budget {| alloc := a; iters := 0 |}
      end
  | CErr => (CErr, czero) | CPanic => (CPanic, czero) | CBudget => (CBudget, czero)
  end.
Proof. reflexivity. Qed.

Lemma cdec_map pol neg tk tv bs budget :
  cdec pol neg (TMap tk tv) bs budget =
  match cnum 4 bs with
  | COk n r =>
      if (match pol with PRefl => 2 ^ 31 <=? n | _ => false end)
      then (COk tt r, czero)
      else match count_gate pol n (elem_size tk + elem_size tv + 8) with
           | None => (gate_fail pol neg n, czero)
           | Some a => cloop (cpair pol neg tk tv) (cfuel r n) n r budget {| alloc := a; iters := 0 |}
           end
  | CErr => (CErr, czero) | CPanic => (CPanic, czero) | CBudget => (CBudget, czero)
  end.
Proof. reflexivity. Qed.

Lemma cdec_tuple pol neg ts bs budget :
  cdec pol neg (TTuple ts) bs budget = cgo pol neg ts bs budget czero.
Proof.
  cbn [cdec]. generalize czero as acc. revert bs budget.
  induction ts as [|t' l IH]; intros b bud acc; [reflexivity|].
  cbn [cgo]. destruct (cdec pol neg t' b bud) as [r c]. destruct r as [u b'| | |]; try reflexivity.
  apply IH.
Qed.

Lemma cdec_struct pol neg name fs bs budget :
  cdec pol neg (TStruct name fs) bs budget = cgo pol neg (map snd fs) bs budget czero.
Proof.
  cbn [cdec]. generalize czero as acc. revert bs budget.
  induction fs as [|f l IH]; intros b bud acc; [reflexivity|].
  cbn [cgo map]. destruct (cdec pol neg (snd f) b bud) as [r c]. destruct r as [u b'| | |]; try reflexivity.
  apply IH.
Qed.

(* ---------- 4. refutations ---------- *)

Lemma cdec_gen_alloc_refuted :
  alloc (snd (cdec PGen false (TList (TS SStr)) [xff; xff; xff; xff] 1000)) = (2 ^ 32 - 1) * 16.
Proof. vm_compute. reflexivity. Qed.

Lemma cdec_sig_spin_refuted :
  fst (cdec PSig false (TList (TS SVoid)) [xff; xff; xff; xff] 1000000) = CBudget.
Proof. vm_compute. reflexivity. Qed.

Lemma cdec_refl_panic_refuted :
  fst (cdec PRefl true (TList (TS SI32)) [xff; xff; xff; xff] 1000) = CPanic.
Proof. vm_compute. reflexivity. Qed.

(* the loop never gives back what was already allocated *)
Lemma cloop_alloc_mono {A} (p : bytes -> N -> cres A * cost) fuel :
  forall n bs budget acc, alloc acc <= alloc (snd (cloop p fuel n bs budget acc)).
Proof.
  induction fuel as [|f IH]; intros n bs budget acc; cbn [cloop].
  - destruct (n =? 0); [cbn; lia|]. destruct (budget =? 0); cbn; lia.
  - destruct (n =? 0); [cbn; lia|]. destruct (budget =? 0); [cbn; lia|].
    destruct (p bs (budget - 1)) as [r c].
    assert (Hacc : alloc acc <= alloc (cadd acc (cadd c {| alloc := 0; iters := 1 |})))
      by (cbn [cadd alloc]; lia).
    destruct r as [a rest| | |]; cbn [snd]; try exact Hacc.
    eapply N.le_trans; [exact Hacc|apply IH].
Qed.

Lemma elem_size_repeat_str m : elem_size (TTuple (repeat (TS SStr) m)) = 16 * N.of_nat m.
Proof.
  cbn [elem_size]. induction m as [|m IH]; [reflexivity|].
  cbn [repeat fold_right]. rewrite IH. cbn [elem_size]. lia.
Qed.

Lemma cdec_gen_alloc_unbounded :
  forall k, exists t bs, len bs = 4 /\ k <= alloc (snd (cdec PGen false t bs 1000)).
Proof.
  intro k. exists (TList (TTuple (repeat (TS SStr) (N.to_nat k)))), [x01; x00; x00; x00].
  split; [reflexivity|].
  rewrite cdec_list.
  change (cnum 4 [x01; x00; x00; x00]) with (@COk N 1 []).
  cbv beta iota. unfold count_gate.
  eapply N.le_trans; [|apply cloop_alloc_mono].
  cbn [alloc]. rewrite elem_size_repeat_str. lia.
Qed.

(* ---------- the primitive readers ---------- *)

Lemma ctake_spec n bs :
  ctake n bs = CErr \/ exists d r, ctake n bs = COk d r /\ len r + N.of_nat n = len bs.
Proof.
  unfold ctake. destruct (Nat.ltb (List.length bs) n) eqn:Hlt; [left; reflexivity|right].
  apply Nat.ltb_ge in Hlt. exists (firstn n bs), (skipn n bs). split; [reflexivity|].
  unfold len. rewrite skipn_length. lia.
Qed.

Lemma cnum_spec w bs :
  cnum w bs = CErr \/ exists n r, cnum w bs = COk n r /\ len r + N.of_nat w = len bs.
Proof.
  unfold cnum. destruct (ctake_spec w bs) as [He|[d [r [He Hl]]]]; rewrite He; [left; reflexivity|right].
  exists (unle d), r. split; [reflexivity|exact Hl].
Qed.

(* what one run costs and consumes, by outcome *)
Definition paid (mw : N) (bs : bytes) (rc : cres unit * cost) : Prop :=
  iters (snd rc) = 0 /\
  match fst rc with
  | COk _ rest => alloc (snd rc) + mw + len rest <= len bs
  | CErr => alloc (snd rc) <= MaxStringSize
  | _ => False
  end.

Lemma cstr_spec bs :
  iters (snd (cstr bs)) = 0 /\
  match fst (cstr bs) with
  | COk _ rest => alloc (snd (cstr bs)) + 4 + len rest <= len bs
  | CErr => alloc (snd (cstr bs)) <= MaxStringSize
  | _ => False
  end.
Proof.
  unfold cstr. destruct (cnum_spec 4 bs) as [He|[n [r [He Hl]]]]; rewrite He.
  - cbn [fst snd czero alloc iters]. split; [reflexivity|]. unfold MaxStringSize. lia.
  - destruct (n =? 0) eqn:Hz.
    + cbn [fst snd czero alloc iters]. split; [reflexivity|lia].
    + destruct (MaxStringSize <? n) eqn:Hmax.
      * cbn [fst snd czero alloc iters]. split; [reflexivity|]. unfold MaxStringSize. lia.
      * cbn [fst snd alloc iters]. split; [reflexivity|].
        destruct (ctake_spec (N.to_nat n) r) as [Ht|[d [r' [Ht Hl']]]]; rewrite Ht; lia.
Qed.

Lemma cdec_scalar pol neg s bs budget :
  paid (N.of_nat (min_width (TS s))) bs (cdec pol neg (TS s) bs budget).
Proof.
  assert (Htake : forall w, paid (N.of_nat w) bs
            (match ctake w bs with COk _ r => COk tt r | CErr => CErr | CPanic => CPanic | CBudget => CBudget end, czero)).
  { intro w. unfold paid. cbn [fst snd czero alloc iters]. split; [reflexivity|].
    destruct (ctake_spec w bs) as [Ht|[d [r [Ht Hl]]]]; rewrite Ht; [unfold MaxStringSize|]; lia. }
  assert (Herr : forall mw, paid mw bs (@CErr unit, czero)).
  { intro mw. unfold paid. cbn [fst snd czero alloc iters]. split; [reflexivity|]. unfold MaxStringSize. lia. }
  destruct s; cbn [cdec scalar_width min_width]; try apply Htake; try apply Herr.
  (* string; void is Htake 0 *)
  pose proof (cstr_spec bs) as [Hi Ha]. destruct (cstr bs) as [r c]. cbn [fst snd] in Hi, Ha.
    unfold paid. cbn [fst snd]. split; [exact Hi|].
    destruct r as [u rest| | |]; exact Ha.
Qed.

(* ---------- 1. no panic with the negative-length repair ---------- *)

Lemma cloop_no_panic {A} (p : bytes -> N -> cres A * cost) :
  (forall b bud, fst (p b bud) <> CPanic) ->
  forall fuel n bs budget acc, fst (cloop p fuel n bs budget acc) <> CPanic.
Proof.
  intros Hp fuel. induction fuel as [|f IH]; intros n bs budget acc; cbn [cloop].
  - destruct (n =? 0); [cbn; discriminate|]. destruct (budget =? 0); cbn; discriminate.
  - destruct (n =? 0); [cbn; discriminate|]. destruct (budget =? 0); [cbn; discriminate|].
    pose proof (Hp bs (budget - 1)) as Hp1. destruct (p bs (budget - 1)) as [r c].
    destruct r as [a rest| | |]; cbn [fst] in *; try discriminate; [apply IH|congruence].
Qed.

Lemma gate_fail_no_panic pol n : gate_fail pol false n <> CPanic.
Proof. unfold gate_fail. destruct pol; try discriminate. rewrite andb_false_r. discriminate. Qed.

Lemma cgo_no_panic pol ts :
  Forall (fun t => forall bs budget, fst (cdec pol false t bs budget) <> CPanic) ts ->
  forall b bud acc, fst (cgo pol false ts b bud acc) <> CPanic.
Proof.
  intro HF. induction HF as [|t' l Ht HF IH]; intros b bud acc; cbn [cgo]; [cbn; discriminate|].
  pose proof (Ht b bud) as Ht1. destruct (cdec pol false t' b bud) as [r c].
  destruct r as [u b'| | |]; cbn [fst] in *; try discriminate; [apply IH|congruence].
Qed.

Theorem cdec_no_panic : forall pol t bs budget, fst (cdec pol false t bs budget) <> CPanic.
Proof.
  intros pol t. induction t as [s|t' IH|tk tv IHk IHv|ts IH|name fs IH] using ty_ind2; intros bs budget.
  - pose proof (cdec_scalar pol false s bs budget) as [_ H]. intro E. rewrite E in H. exact H.
  - rewrite cdec_list. destruct (cnum_spec 4 bs) as [He|[n [r [He Hl]]]]; rewrite He; [cbn; discriminate|].
    destruct (count_gate pol n (elem_size t')) as [a|]; [|apply gate_fail_no_panic].
    apply cloop_no_panic. exact IH.
  - rewrite cdec_map. destruct (cnum_spec 4 bs) as [He|[n [r [He Hl]]]]; rewrite He; [cbn; discriminate|].
    destruct (match pol with PRefl => 2 ^ 31 <=? n | _ => false end); [cbn; discriminate|].
    destruct (count_gate pol n (elem_size tk + elem_size tv + 8)) as [a|]; [|apply gate_fail_no_panic].
    apply cloop_no_panic. intros b bud. unfold cpair.
    pose proof (IHk b bud) as Hk. destruct (cdec pol false tk b bud) as [r1 c1].
    destruct r1 as [u b'| | |]; cbn [fst] in *; try discriminate; [|congruence].
    pose proof (IHv b' (bud - iters c1)) as Hv. destruct (cdec pol false tv b' (bud - iters c1)) as [r2 c2].
    exact Hv.
  - rewrite cdec_tuple. apply cgo_no_panic. exact IH.
  - rewrite cdec_struct. apply cgo_no_panic. apply Forall_map. exact IH.
Qed.

(* ---------- list helpers for the member loops ---------- *)

Lemma Forall_forallb_mp {A} (f : A -> bool) (P : A -> Prop) l :
  forallb f l = true -> Forall (fun x => f x = true -> P x) l -> Forall P l.
Proof.
  intros Hb HF. induction HF as [|x l Hx HF IH]; [constructor|].
  cbn [forallb] in Hb. apply andb_true_iff in Hb as [Hb1 Hb2].
  constructor; [apply Hx; exact Hb1|apply IH; exact Hb2].
Qed.

Lemma fold_right_map_snd {A B C} (g : B -> C) (h : C -> C -> C) (z : C) (fs : list (A * B)) :
  fold_right (fun t a => h (g t) a) z (map snd fs) = fold_right (fun f a => h (g (snd f)) a) z fs.
Proof. induction fs as [|f l IH]; [reflexivity|]. cbn [map fold_right]. now rewrite IH. Qed.

Lemma gate_fail_cases pol neg n : gate_fail pol neg n = CErr \/ gate_fail pol neg n = CPanic.
Proof.
  unfold gate_fail. destruct pol; try (left; reflexivity).
  destruct ((2 ^ 31 <=? n) && neg); [right|left]; reflexivity.
Qed.

(* ---------- 3. iterations, containers without zero-width elements ---------- *)

(* iterations are paid for by consumed bytes; a success consumes at least mw bytes *)
Definition lin (mw : N) (bs : bytes) (rc : cres unit * cost) : Prop :=
  match fst rc with
  | COk _ rest => iters (snd rc) + mw + len rest <= len bs
  | _ => iters (snd rc) <= len bs
  end.

Lemma lin_weaken mw mw' bs rc : mw' <= mw -> lin mw bs rc -> lin mw' bs rc.
Proof. unfold lin. intros Hle H. destruct (fst rc) as [u rest| | |]; lia. Qed.

Lemma cloop_lin (p : bytes -> N -> cres unit * cost) :
  (forall b bud, lin 1 b (p b bud)) ->
  forall fuel n bs budget acc,
    match fst (cloop p fuel n bs budget acc) with
    | COk _ rest => iters (snd (cloop p fuel n bs budget acc)) + len rest <= iters acc + len bs
    | _ => iters (snd (cloop p fuel n bs budget acc)) <= iters acc + len bs + 1
    end.
Proof.
  intros Hp fuel. induction fuel as [|f IH]; intros n bs budget acc; cbn [cloop].
  - destruct (n =? 0); [cbn; lia|]. destruct (budget =? 0); cbn; lia.
  - destruct (n =? 0); [cbn; lia|]. destruct (budget =? 0); [cbn; lia|].
    pose proof (Hp bs (budget - 1)) as Hp1. unfold lin in Hp1.
    destruct (p bs (budget - 1)) as [r c]. cbn [fst snd] in Hp1.
    destruct r as [u rest| | |]; cbn [fst snd cadd iters]; try lia.
    match goal with |- context [cloop p f ?n' rest ?b' ?a'] => specialize (IH n' rest b' a') end.
    destruct (fst (cloop p f (n - 1) rest (budget - 1 - iters c)
                     (cadd acc (cadd c {| alloc := 0; iters := 1 |})))) as [u' rest'| | |];
      cbn [cadd iters] in IH; lia.
Qed.

Lemma cpair_lin pol neg tk tv mk mv :
  (forall b bud, lin mk b (cdec pol neg tk b bud)) ->
  (forall b bud, lin mv b (cdec pol neg tv b bud)) ->
  forall b bud, lin (mk + mv) b (cpair pol neg tk tv b bud).
Proof.
  intros Hk Hv b bud. unfold cpair.
  pose proof (Hk b bud) as Hk1. unfold lin in Hk1. destruct (cdec pol neg tk b bud) as [r1 c1].
  cbn [fst snd] in Hk1. destruct r1 as [u b'| | |]; try exact Hk1.
  pose proof (Hv b' (bud - iters c1)) as Hv1. unfold lin in Hv1.
  destruct (cdec pol neg tv b' (bud - iters c1)) as [r2 c2]. cbn [fst snd] in Hv1.
  unfold lin. cbn [fst snd cadd iters]. destruct r2 as [u' rest| | |]; lia.
Qed.

Definition mws (ts : list ty) : nat := fold_right (fun t a => (min_width t + a)%nat) 0%nat ts.

Lemma cgo_lin pol neg ts :
  Forall (fun t => forall bs budget, lin (N.of_nat (min_width t)) bs (cdec pol neg t bs budget)) ts ->
  forall b bud acc,
    match fst (cgo pol neg ts b bud acc) with
    | COk _ rest => iters (snd (cgo pol neg ts b bud acc)) + N.of_nat (mws ts) + len rest <= iters acc + len b
    | _ => iters (snd (cgo pol neg ts b bud acc)) <= iters acc + len b
    end.
Proof.
  intro HF. induction HF as [|t' l Ht HF IH]; intros b bud acc; cbn [cgo mws fold_right].
  - cbn [fst snd]. lia.
  - pose proof (Ht b bud) as Ht1. unfold lin in Ht1. destruct (cdec pol neg t' b bud) as [r c].
    cbn [fst snd] in Ht1. destruct r as [u b'| | |]; cbn [fst snd cadd iters]; try lia.
    specialize (IH b' (bud - iters c) (cadd acc c)). fold (mws l).
    destruct (fst (cgo pol neg l b' (bud - iters c) (cadd acc c))) as [u' rest| | |];
      cbn [cadd iters] in IH; lia.
Qed.

Lemma cdec_lin pol neg t :
  wfz t = true -> forall bs budget, lin (N.of_nat (min_width t)) bs (cdec pol neg t bs budget).
Proof.
  induction t as [s|t' IH|tk tv IHk IHv|ts IH|name fs IH] using ty_ind2; intros Hwf bs budget.
  - pose proof (cdec_scalar pol neg s bs budget) as [Hi H]. unfold lin. rewrite Hi.
    destruct (fst (cdec pol neg (TS s) bs budget)) as [u rest| | |]; lia.
  - cbn [wfz] in Hwf. apply andb_true_iff in Hwf as [Hmw Hwf]. apply Nat.leb_le in Hmw.
    rewrite cdec_list. unfold lin.
    destruct (cnum_spec 4 bs) as [He|[n [r [He Hl]]]]; rewrite He; [cbn; lia|].
    destruct (count_gate pol n (elem_size t')) as [a|].
    + assert (Hp : forall b bud, lin 1 b (cdec pol neg t' b bud))
        by (intros b bud; eapply lin_weaken; [|apply IH; exact Hwf]; lia).
      pose proof (cloop_lin (cdec pol neg t') Hp (cfuel r n) n r budget {| alloc := a; iters := 0 |}) as Hloop.
      destruct (fst (cloop (cdec pol neg t') (cfuel r n) n r budget {| alloc := a; iters := 0 |}))
        as [u rest| | |]; cbn [iters min_width] in *; lia.
    + destruct (gate_fail_cases pol neg n) as [Hg|Hg]; rewrite Hg; cbn; lia.
  - cbn [wfz] in Hwf. apply andb_true_iff in Hwf as [Hwf Hwfv]. apply andb_true_iff in Hwf as [Hmw Hwfk].
    apply Nat.leb_le in Hmw. rewrite cdec_map. unfold lin.
    destruct (cnum_spec 4 bs) as [He|[n [r [He Hl]]]]; rewrite He; [cbn; lia|].
    destruct (match pol with PRefl => 2 ^ 31 <=? n | _ => false end); [cbn [fst snd czero iters min_width]; lia|].
    destruct (count_gate pol n (elem_size tk + elem_size tv + 8)) as [a|].
    + assert (Hp : forall b bud, lin 1 b (cpair pol neg tk tv b bud))
        by (intros b bud; eapply lin_weaken; [|apply (cpair_lin pol neg tk tv _ _ (IHk Hwfk) (IHv Hwfv))]; lia).
      pose proof (cloop_lin (cpair pol neg tk tv) Hp (cfuel r n) n r budget {| alloc := a; iters := 0 |}) as Hloop.
      destruct (fst (cloop (cpair pol neg tk tv) (cfuel r n) n r budget {| alloc := a; iters := 0 |}))
        as [u rest| | |]; cbn [iters min_width] in *; lia.
    + destruct (gate_fail_cases pol neg n) as [Hg|Hg]; rewrite Hg; cbn; lia.
  - cbn [wfz] in Hwf. rewrite cdec_tuple. unfold lin.
    pose proof (cgo_lin pol neg ts (Forall_forallb_mp _ _ _ Hwf IH) bs budget czero) as Hgo.
    cbn [min_width]. fold (mws ts).
    destruct (fst (cgo pol neg ts bs budget czero)) as [u rest| | |]; cbn [czero iters] in Hgo; lia.
  - cbn [wfz] in Hwf. rewrite cdec_struct. unfold lin.
    assert (HF : Forall (fun t => forall bs budget, lin (N.of_nat (min_width t)) bs (cdec pol neg t bs budget))
                   (map snd fs)).
    { apply Forall_map. exact (Forall_forallb_mp (fun f => wfz (snd f)) _ _ Hwf IH). }
    pose proof (cgo_lin pol neg (map snd fs) HF bs budget czero) as Hgo.
    cbn [min_width]. unfold mws in Hgo.
    rewrite (fold_right_map_snd min_width Nat.add 0%nat fs) in Hgo.
    destruct (fst (cgo pol neg (map snd fs) bs budget czero)) as [u rest| | |]; cbn [czero iters] in Hgo; lia.
Qed.

Theorem cdec_iters_wfz : forall pol neg t bs budget, wfz t = true ->
  iters (snd (cdec pol neg t bs budget)) <= len bs.
Proof.
  intros pol neg t bs budget Hwf. pose proof (cdec_lin pol neg t Hwf bs budget) as H. unfold lin in H.
  destruct (fst (cdec pol neg t bs budget)) as [u rest| | |]; lia.
Qed.

(* the budget is never the reason to stop *)
Lemma cloop_no_budget (p : bytes -> N -> cres unit * cost) :
  (forall b bud, lin 1 b (p b bud)) ->
  (forall b bud, len b <= bud -> fst (p b bud) <> CBudget) ->
  forall fuel n bs budget acc,
    len bs < budget -> (List.length bs < fuel)%nat -> fst (cloop p fuel n bs budget acc) <> CBudget.
Proof.
  intros Hp Hb fuel. induction fuel as [|f IH]; intros n bs budget acc Hbud Hfuel; [lia|].
  cbn [cloop]. destruct (n =? 0); [cbn; discriminate|].
  destruct (budget =? 0) eqn:Hz; [lia|].
  pose proof (Hp bs (budget - 1)) as Hp1. unfold lin in Hp1.
  pose proof (Hb bs (budget - 1) ltac:(lia)) as Hb1.
  destruct (p bs (budget - 1)) as [r c]. cbn [fst snd] in Hp1, Hb1.
  destruct r as [u rest| | |]; cbn [fst]; try discriminate; [|congruence].
  apply IH; unfold len in *; lia.
Qed.

Lemma cpair_no_budget pol neg tk tv mk :
  (forall b bud, lin mk b (cdec pol neg tk b bud)) ->
  (forall b bud, len b <= bud -> fst (cdec pol neg tk b bud) <> CBudget) ->
  (forall b bud, len b <= bud -> fst (cdec pol neg tv b bud) <> CBudget) ->
  forall b bud, len b <= bud -> fst (cpair pol neg tk tv b bud) <> CBudget.
Proof.
  intros Hk Hbk Hbv b bud Hle. unfold cpair.
  pose proof (Hk b bud) as Hk1. unfold lin in Hk1. pose proof (Hbk b bud Hle) as Hbk1.
  destruct (cdec pol neg tk b bud) as [r1 c1]. cbn [fst snd] in Hk1, Hbk1.
  destruct r1 as [u b'| | |]; cbn [fst]; try discriminate; [|congruence].
  pose proof (Hbv b' (bud - iters c1) ltac:(lia)) as Hbv1.
  destruct (cdec pol neg tv b' (bud - iters c1)) as [r2 c2]. exact Hbv1.
Qed.

Lemma cgo_no_budget pol neg ts :
  Forall (fun t => (forall bs budget, lin (N.of_nat (min_width t)) bs (cdec pol neg t bs budget)) /\
                   (forall bs budget, len bs <= budget -> fst (cdec pol neg t bs budget) <> CBudget)) ts ->
  forall b bud acc, len b <= bud -> fst (cgo pol neg ts b bud acc) <> CBudget.
Proof.
  intro HF. induction HF as [|t' l [Hl Hb] HF IH]; intros b bud acc Hle; cbn [cgo]; [cbn; discriminate|].
  pose proof (Hl b bud) as Hl1. unfold lin in Hl1. pose proof (Hb b bud Hle) as Hb1.
  destruct (cdec pol neg t' b bud) as [r c]. cbn [fst snd] in Hl1, Hb1.
  destruct r as [u b'| | |]; cbn [fst]; try discriminate; [|congruence].
  apply IH. lia.
Qed.

Lemma cfuel_enough r n : (List.length r < cfuel r n)%nat.
Proof. unfold cfuel. lia. Qed.

Lemma cdec_no_budget pol neg t :
  wfz t = true -> forall bs budget, len bs <= budget -> fst (cdec pol neg t bs budget) <> CBudget.
Proof.
  induction t as [s|t' IH|tk tv IHk IHv|ts IH|name fs IH] using ty_ind2; intros Hwf bs budget Hle.
  - pose proof (cdec_scalar pol neg s bs budget) as [_ H]. intro E. rewrite E in H. exact H.
  - cbn [wfz] in Hwf. apply andb_true_iff in Hwf as [Hmw Hwf]. apply Nat.leb_le in Hmw.
    rewrite cdec_list.
    destruct (cnum_spec 4 bs) as [He|[n [r [He Hl]]]]; rewrite He; [cbn; discriminate|].
    destruct (count_gate pol n (elem_size t')) as [a|].
    + apply cloop_no_budget; [| |lia|apply cfuel_enough].
      * intros b bud. eapply lin_weaken; [|apply cdec_lin; exact Hwf]. lia.
      * apply IH. exact Hwf.
    + destruct (gate_fail_cases pol neg n) as [Hg|Hg]; rewrite Hg; cbn; discriminate.
  - cbn [wfz] in Hwf. apply andb_true_iff in Hwf as [Hwf Hwfv]. apply andb_true_iff in Hwf as [Hmw Hwfk].
    apply Nat.leb_le in Hmw. rewrite cdec_map.
    destruct (cnum_spec 4 bs) as [He|[n [r [He Hl]]]]; rewrite He; [cbn; discriminate|].
    destruct (match pol with PRefl => 2 ^ 31 <=? n | _ => false end); [cbn; discriminate|].
    destruct (count_gate pol n (elem_size tk + elem_size tv + 8)) as [a|].
    + apply cloop_no_budget; [| |lia|apply cfuel_enough].
      * intros b bud. eapply lin_weaken; [|apply (cpair_lin pol neg tk tv _ _ (cdec_lin pol neg tk Hwfk) (cdec_lin pol neg tv Hwfv))]. lia.
      * apply (cpair_no_budget pol neg tk tv _ (cdec_lin pol neg tk Hwfk) (IHk Hwfk) (IHv Hwfv)).
    + destruct (gate_fail_cases pol neg n) as [Hg|Hg]; rewrite Hg; cbn; discriminate.
  - cbn [wfz] in Hwf. rewrite cdec_tuple. apply cgo_no_budget; [|exact Hle].
    apply (Forall_forallb_mp wfz _ _ Hwf). eapply Forall_impl; [|exact IH].
    intros t Ht Hwft. split; [apply cdec_lin; exact Hwft|apply Ht; exact Hwft].
  - cbn [wfz] in Hwf. rewrite cdec_struct. apply cgo_no_budget; [|exact Hle].
    apply Forall_map. apply (Forall_forallb_mp (fun f => wfz (snd f)) _ _ Hwf). eapply Forall_impl; [|exact IH].
    intros f Hf Hwff. split; [apply cdec_lin; exact Hwff|apply Hf; exact Hwff].
Qed.

Theorem cdec_budget_enough : forall pol neg t bs budget, wfz t = true -> len bs < budget ->
  fst (cdec pol neg t bs budget) <> CBudget.
Proof. intros pol neg t bs budget Hwf Hlt. apply cdec_no_budget; [exact Hwf|lia]. Qed.

(* ---------- 2. allocation ---------- *)

(* Every consumed byte pays for K/4 bytes of allocation (K = 4 + G: the byte itself, and a
   quarter of a gate of at most G bytes, a gate having read its 4-byte count); the only
   allocation not paid for is that of the one string whose body could not be read. *)
Definition apaid (K : N) (bs : bytes) (rc : cres unit * cost) : Prop :=
  match fst rc with
  | COk _ rest => 4 * alloc (snd rc) + K * len rest <= K * len bs
  | _ => 4 * alloc (snd rc) <= K * len bs + 4 * MaxStringSize
  end.

Lemma paid_apaid G mw bs rc : paid mw bs rc -> apaid (4 + G) bs rc.
Proof.
  unfold paid, apaid. intros [_ H]. destruct (fst rc) as [u rest| | |]; try lia.
  assert (H1 : (4 + G) * (alloc (snd rc) + len rest) <= (4 + G) * len bs) by (apply N.mul_le_mono_l; lia).
  lia.
Qed.

Lemma cloop_apaid K (p : bytes -> N -> cres unit * cost) :
  (forall b bud, apaid K b (p b bud)) ->
  forall fuel n bs budget acc,
    match fst (cloop p fuel n bs budget acc) with
    | COk _ rest => 4 * alloc (snd (cloop p fuel n bs budget acc)) + K * len rest <= 4 * alloc acc + K * len bs
    | _ => 4 * alloc (snd (cloop p fuel n bs budget acc)) <= 4 * alloc acc + K * len bs + 4 * MaxStringSize
    end.
Proof.
  intros Hp fuel. induction fuel as [|f IH]; intros n bs budget acc; cbn [cloop].
  - destruct (n =? 0); [cbn [fst snd]; lia|]. destruct (budget =? 0); cbn [fst snd]; lia.
  - destruct (n =? 0); [cbn [fst snd]; lia|]. destruct (budget =? 0); [cbn [fst snd]; lia|].
    pose proof (Hp bs (budget - 1)) as Hp1. unfold apaid in Hp1.
    destruct (p bs (budget - 1)) as [r c]. cbn [fst snd] in Hp1.
    destruct r as [u rest| | |]; cbn [fst snd cadd alloc]; try lia.
    match goal with |- context [cloop p f ?n' rest ?b' ?a'] => specialize (IH n' rest b' a') end.
    destruct (fst (cloop p f (n - 1) rest (budget - 1 - iters c)
                     (cadd acc (cadd c {| alloc := 0; iters := 1 |})))) as [u' rest'| | |];
      cbn [cadd alloc] in IH; lia.
Qed.

Lemma cpair_apaid pol neg tk tv K :
  (forall b bud, apaid K b (cdec pol neg tk b bud)) ->
  (forall b bud, apaid K b (cdec pol neg tv b bud)) ->
  forall b bud, apaid K b (cpair pol neg tk tv b bud).
Proof.
  intros Hk Hv b bud. unfold cpair.
  pose proof (Hk b bud) as Hk1. unfold apaid in Hk1. destruct (cdec pol neg tk b bud) as [r1 c1].
  cbn [fst snd] in Hk1. destruct r1 as [u b'| | |]; try exact Hk1.
  pose proof (Hv b' (bud - iters c1)) as Hv1. unfold apaid in Hv1.
  destruct (cdec pol neg tv b' (bud - iters c1)) as [r2 c2]. cbn [fst snd] in Hv1.
  unfold apaid. cbn [fst snd cadd alloc]. destruct r2 as [u' rest| | |]; lia.
Qed.

Lemma cgo_apaid pol neg K ts :
  Forall (fun t => forall bs budget, apaid K bs (cdec pol neg t bs budget)) ts ->
  forall b bud acc,
    match fst (cgo pol neg ts b bud acc) with
    | COk _ rest => 4 * alloc (snd (cgo pol neg ts b bud acc)) + K * len rest <= 4 * alloc acc + K * len b
    | _ => 4 * alloc (snd (cgo pol neg ts b bud acc)) <= 4 * alloc acc + K * len b + 4 * MaxStringSize
    end.
Proof.
  intro HF. induction HF as [|t' l Ht HF IH]; intros b bud acc; cbn [cgo].
  - cbn [fst snd]. lia.
  - pose proof (Ht b bud) as Ht1. unfold apaid in Ht1. destruct (cdec pol neg t' b bud) as [r c].
    cbn [fst snd] in Ht1. destruct r as [u b'| | |]; cbn [fst snd cadd alloc]; try lia.
    specialize (IH b' (bud - iters c) (cadd acc c)).
    destruct (fst (cgo pol neg l b' (bud - iters c) (cadd acc c))) as [u' rest| | |];
      cbn [cadd alloc] in IH; lia.
Qed.

(* what a gate may allocate *)
Lemma count_gate_bound pol n esz G a :
  pol <> PGen -> (pol = PRefl -> listValueMaxSize * esz <= G) -> count_gate pol n esz = Some a -> a <= G.
Proof.
  intros Hpol HG Hc. unfold count_gate in Hc. destruct pol; [congruence| |inversion Hc as [Ha]; lia].
  specialize (HG eq_refl).
  destruct (2 ^ 31 <=? n); [discriminate|]. destruct (listValueMaxSize <? n) eqn:Hmax; [discriminate|].
  inversion Hc as [Ha]. apply N.ltb_ge in Hmax.
  eapply N.le_trans; [apply N.mul_le_mono_r; exact Hmax|exact HG].
Qed.

Lemma max_esz_fold ts t :
  In t ts -> max_esz t <= fold_right (fun t a => N.max (max_esz t) a) 0 ts.
Proof.
  induction ts as [|x l IH]; intro Hin; [destruct Hin|].
  cbn [fold_right]. destruct Hin as [Hx|Hin]; [subst x; lia|]. specialize (IH Hin). lia.
Qed.

Lemma cdec_apaid pol neg G t :
  pol <> PGen -> (pol = PRefl -> listValueMaxSize * max_esz t <= G) ->
  forall bs budget, apaid (4 + G) bs (cdec pol neg t bs budget).
Proof.
  intro Hpol. induction t as [s|t' IH|tk tv IHk IHv|ts IH|name fs IH] using ty_ind2; intros HG bs budget.
  - eapply paid_apaid. apply cdec_scalar.
  - assert (HG' : pol = PRefl -> listValueMaxSize * max_esz t' <= G).
    { intro E. specialize (HG E). cbn [max_esz] in HG. unfold listValueMaxSize in *. lia. }
    assert (HGe : pol = PRefl -> listValueMaxSize * elem_size t' <= G).
    { intro E. specialize (HG E). cbn [max_esz] in HG. unfold listValueMaxSize in *. lia. }
    rewrite cdec_list. unfold apaid.
    destruct (cnum_spec 4 bs) as [He|[n [r [He Hl]]]]; rewrite He; [cbn [fst snd czero alloc]; lia|].
    destruct (count_gate pol n (elem_size t')) as [a|] eqn:Hc.
    + pose proof (count_gate_bound pol n _ G a Hpol HGe Hc) as Ha.
      pose proof (cloop_apaid (4 + G) (cdec pol neg t') (IH HG')
                    (cfuel r n) n r budget {| alloc := a; iters := 0 |}) as Hloop.
      rewrite <- Hl.
      destruct (fst (cloop (cdec pol neg t') (cfuel r n) n r budget {| alloc := a; iters := 0 |}))
        as [u rest| | |]; cbn [alloc] in Hloop; lia.
    + destruct (gate_fail_cases pol neg n) as [Hg|Hg]; rewrite Hg; cbn [fst snd czero alloc]; lia.
  - assert (HGk : pol = PRefl -> listValueMaxSize * max_esz tk <= G).
    { intro E. specialize (HG E). cbn [max_esz] in HG. unfold listValueMaxSize in *. lia. }
    assert (HGv : pol = PRefl -> listValueMaxSize * max_esz tv <= G).
    { intro E. specialize (HG E). cbn [max_esz] in HG. unfold listValueMaxSize in *. lia. }
    assert (HGe : pol = PRefl -> listValueMaxSize * (elem_size tk + elem_size tv + 8) <= G).
    { intro E. specialize (HG E). cbn [max_esz] in HG. unfold listValueMaxSize in *. lia. }
    rewrite cdec_map. unfold apaid.
    destruct (cnum_spec 4 bs) as [He|[n [r [He Hl]]]]; rewrite He; [cbn [fst snd czero alloc]; lia|].
    destruct (match pol with PRefl => 2 ^ 31 <=? n | _ => false end);
      [cbn [fst snd czero alloc]; rewrite <- Hl; lia|].
    destruct (count_gate pol n (elem_size tk + elem_size tv + 8)) as [a|] eqn:Hc.
    + pose proof (count_gate_bound pol n _ G a Hpol HGe Hc) as Ha.
      pose proof (cloop_apaid (4 + G) (cpair pol neg tk tv)
                    (cpair_apaid pol neg tk tv _ (IHk HGk) (IHv HGv))
                    (cfuel r n) n r budget {| alloc := a; iters := 0 |}) as Hloop.
      rewrite <- Hl.
      destruct (fst (cloop (cpair pol neg tk tv) (cfuel r n) n r budget {| alloc := a; iters := 0 |}))
        as [u rest| | |]; cbn [alloc] in Hloop; lia.
    + destruct (gate_fail_cases pol neg n) as [Hg|Hg]; rewrite Hg; cbn [fst snd czero alloc]; lia.
  - rewrite cdec_tuple. unfold apaid.
    assert (HF : Forall (fun t => forall bs budget, apaid (4 + G) bs (cdec pol neg t bs budget)) ts).
    { rewrite Forall_forall in IH. apply Forall_forall. intros t Hin. apply (IH t Hin).
      intro E. specialize (HG E). cbn [max_esz] in HG. pose proof (max_esz_fold ts t Hin) as Hm.
      unfold listValueMaxSize in *. lia. }
    pose proof (cgo_apaid pol neg (4 + G) ts HF bs budget czero) as Hgo.
    destruct (fst (cgo pol neg ts bs budget czero)) as [u rest| | |]; cbn [czero alloc] in Hgo; lia.
  - rewrite cdec_struct. unfold apaid.
    assert (HF : Forall (fun t => forall bs budget, apaid (4 + G) bs (cdec pol neg t bs budget)) (map snd fs)).
    { apply Forall_map. rewrite Forall_forall in IH. apply Forall_forall. intros f Hin. apply (IH f Hin).
      intro E. specialize (HG E). cbn [max_esz] in HG.
      rewrite <- (fold_right_map_snd max_esz N.max 0 fs) in HG.
      pose proof (max_esz_fold (map snd fs) (snd f) (in_map snd fs f Hin)) as Hm.
      unfold listValueMaxSize in *. lia. }
    pose proof (cgo_apaid pol neg (4 + G) (map snd fs) HF bs budget czero) as Hgo.
    destruct (fst (cgo pol neg (map snd fs) bs budget czero)) as [u rest| | |]; cbn [czero alloc] in Hgo; lia.
Qed.

Theorem cdec_alloc_sig : forall neg t bs budget,
  alloc (snd (cdec PSig neg t bs budget)) <= len bs + MaxStringSize.
Proof.
  intros neg t bs budget.
  pose proof (cdec_apaid PSig neg 0 t ltac:(discriminate) ltac:(discriminate) bs budget) as H.
  unfold apaid in H. destruct (fst (cdec PSig neg t bs budget)) as [u rest| | |]; lia.
Qed.

Theorem cdec_alloc_refl : forall neg t bs budget,
  alloc (snd (cdec PRefl neg t bs budget))
  <= len bs + MaxStringSize + (len bs / 4 + 1) * (listValueMaxSize * max_esz t).
Proof.
  intros neg t bs budget. set (G := listValueMaxSize * max_esz t).
  pose proof (cdec_apaid PRefl neg G t ltac:(discriminate) (fun _ => N.le_refl _) bs budget) as H.
  assert (Hq : G * len bs <= G * (4 * (len bs / 4 + 1))).
  { apply N.mul_le_mono_l. pose proof (N.div_mod (len bs) 4 ltac:(discriminate)) as Hdm.
    pose proof (N.mod_lt (len bs) 4 ltac:(discriminate)) as Hm. lia. }
  unfold apaid in H. destruct (fst (cdec PRefl neg t bs budget)) as [u rest| | |]; lia.
Qed.

(* ---------- 3'. iterations of the reflection decoder, zero-width elements allowed ---------- *)

(* a gate lets at most 4096 iterations through and has read 4 bytes: 1024 iterations per byte *)
Definition ipaid (bs : bytes) (rc : cres unit * cost) : Prop :=
  match fst rc with
  | COk _ rest => iters (snd rc) + 1024 * len rest <= 1024 * len bs
  | _ => iters (snd rc) <= 1024 * len bs
  end.

Lemma paid_ipaid mw bs rc : paid mw bs rc -> ipaid bs rc.
Proof. unfold paid, ipaid. intros [Hi H]. rewrite Hi. destruct (fst rc) as [u rest| | |]; lia. Qed.

Lemma cloop_ipaid (p : bytes -> N -> cres unit * cost) :
  (forall b bud, ipaid b (p b bud)) ->
  forall fuel n bs budget acc,
    match fst (cloop p fuel n bs budget acc) with
    | COk _ rest => iters (snd (cloop p fuel n bs budget acc)) + 1024 * len rest <= iters acc + n + 1024 * len bs
    | _ => iters (snd (cloop p fuel n bs budget acc)) <= iters acc + n + 1024 * len bs
    end.
Proof.
  intros Hp fuel. induction fuel as [|f IH]; intros n bs budget acc; cbn [cloop].
  - destruct (n =? 0); [cbn [fst snd]; lia|]. destruct (budget =? 0); cbn [fst snd]; lia.
  - destruct (n =? 0) eqn:Hn; [cbn [fst snd]; lia|]. destruct (budget =? 0); [cbn [fst snd]; lia|].
    pose proof (Hp bs (budget - 1)) as Hp1. unfold ipaid in Hp1.
    destruct (p bs (budget - 1)) as [r c]. cbn [fst snd] in Hp1.
    destruct r as [u rest| | |]; cbn [fst snd cadd iters]; try lia.
    match goal with |- context [cloop p f ?n' rest ?b' ?a'] => specialize (IH n' rest b' a') end.
    destruct (fst (cloop p f (n - 1) rest (budget - 1 - iters c)
                     (cadd acc (cadd c {| alloc := 0; iters := 1 |})))) as [u' rest'| | |];
      cbn [cadd iters] in IH; lia.
Qed.

Lemma cpair_ipaid pol neg tk tv :
  (forall b bud, ipaid b (cdec pol neg tk b bud)) ->
  (forall b bud, ipaid b (cdec pol neg tv b bud)) ->
  forall b bud, ipaid b (cpair pol neg tk tv b bud).
Proof.
  intros Hk Hv b bud. unfold cpair.
  pose proof (Hk b bud) as Hk1. unfold ipaid in Hk1. destruct (cdec pol neg tk b bud) as [r1 c1].
  cbn [fst snd] in Hk1. destruct r1 as [u b'| | |]; try exact Hk1.
  pose proof (Hv b' (bud - iters c1)) as Hv1. unfold ipaid in Hv1.
  destruct (cdec pol neg tv b' (bud - iters c1)) as [r2 c2]. cbn [fst snd] in Hv1.
  unfold ipaid. cbn [fst snd cadd iters]. destruct r2 as [u' rest| | |]; lia.
Qed.

Lemma cgo_ipaid pol neg ts :
  Forall (fun t => forall bs budget, ipaid bs (cdec pol neg t bs budget)) ts ->
  forall b bud acc,
    match fst (cgo pol neg ts b bud acc) with
    | COk _ rest => iters (snd (cgo pol neg ts b bud acc)) + 1024 * len rest <= iters acc + 1024 * len b
    | _ => iters (snd (cgo pol neg ts b bud acc)) <= iters acc + 1024 * len b
    end.
Proof.
  intro HF. induction HF as [|t' l Ht HF IH]; intros b bud acc; cbn [cgo].
  - cbn [fst snd]. lia.
  - pose proof (Ht b bud) as Ht1. unfold ipaid in Ht1. destruct (cdec pol neg t' b bud) as [r c].
    cbn [fst snd] in Ht1. destruct r as [u b'| | |]; cbn [fst snd cadd iters]; try lia.
    specialize (IH b' (bud - iters c) (cadd acc c)).
    destruct (fst (cgo pol neg l b' (bud - iters c) (cadd acc c))) as [u' rest| | |];
      cbn [cadd iters] in IH; lia.
Qed.

Lemma count_gate_refl_count n esz a : count_gate PRefl n esz = Some a -> n <= listValueMaxSize.
Proof.
  unfold count_gate. destruct (2 ^ 31 <=? n); [discriminate|].
  destruct (listValueMaxSize <? n) eqn:Hmax; [discriminate|]. intros _. apply N.ltb_ge in Hmax. exact Hmax.
Qed.

Lemma cdec_ipaid neg t : forall bs budget, ipaid bs (cdec PRefl neg t bs budget).
Proof.
  induction t as [s|t' IH|tk tv IHk IHv|ts IH|name fs IH] using ty_ind2; intros bs budget.
  - eapply paid_ipaid. apply cdec_scalar.
  - rewrite cdec_list. unfold ipaid.
    destruct (cnum_spec 4 bs) as [He|[n [r [He Hl]]]]; rewrite He; [cbn [fst snd czero iters]; lia|].
    destruct (count_gate PRefl n (elem_size t')) as [a|] eqn:Hc.
    + pose proof (count_gate_refl_count n _ a Hc) as Hn. unfold listValueMaxSize in Hn.
      pose proof (cloop_ipaid (cdec PRefl neg t') IH (cfuel r n) n r budget {| alloc := a; iters := 0 |}) as Hloop.
      rewrite <- Hl.
      destruct (fst (cloop (cdec PRefl neg t') (cfuel r n) n r budget {| alloc := a; iters := 0 |}))
        as [u rest| | |]; cbn [iters] in Hloop; lia.
    + destruct (gate_fail_cases PRefl neg n) as [Hg|Hg]; rewrite Hg; cbn [fst snd czero iters]; lia.
  - rewrite cdec_map. unfold ipaid.
    destruct (cnum_spec 4 bs) as [He|[n [r [He Hl]]]]; rewrite He; [cbn [fst snd czero iters]; lia|].
    destruct (2 ^ 31 <=? n); [cbn [fst snd czero iters]; rewrite <- Hl; lia|].
    destruct (count_gate PRefl n (elem_size tk + elem_size tv + 8)) as [a|] eqn:Hc.
    + pose proof (count_gate_refl_count n _ a Hc) as Hn. unfold listValueMaxSize in Hn.
      pose proof (cloop_ipaid (cpair PRefl neg tk tv) (cpair_ipaid PRefl neg tk tv IHk IHv)
                    (cfuel r n) n r budget {| alloc := a; iters := 0 |}) as Hloop.
      rewrite <- Hl.
      destruct (fst (cloop (cpair PRefl neg tk tv) (cfuel r n) n r budget {| alloc := a; iters := 0 |}))
        as [u rest| | |]; cbn [iters] in Hloop; lia.
    + destruct (gate_fail_cases PRefl neg n) as [Hg|Hg]; rewrite Hg; cbn [fst snd czero iters]; lia.
  - rewrite cdec_tuple. unfold ipaid.
    pose proof (cgo_ipaid PRefl neg ts IH bs budget czero) as Hgo.
    destruct (fst (cgo PRefl neg ts bs budget czero)) as [u rest| | |]; cbn [czero iters] in Hgo; lia.
  - rewrite cdec_struct. unfold ipaid.
    pose proof (cgo_ipaid PRefl neg (map snd fs) (proj2 (Forall_map _ _ _) IH) bs budget czero) as Hgo.
    destruct (fst (cgo PRefl neg (map snd fs) bs budget czero)) as [u rest| | |]; cbn [czero iters] in Hgo; lia.
Qed.

Theorem cdec_iters_refl : forall neg t bs budget,
  iters (snd (cdec PRefl neg t bs budget)) <= (len bs / 4 + 1) * listValueMaxSize + len bs.
Proof.
  intros neg t bs budget. pose proof (cdec_ipaid neg t bs budget) as H. unfold ipaid in H.
  pose proof (N.div_mod (len bs) 4 ltac:(discriminate)) as Hdm.
  pose proof (N.mod_lt (len bs) 4 ltac:(discriminate)) as Hm. unfold listValueMaxSize.
  destruct (fst (cdec PRefl neg t bs budget)) as [u rest| | |]; lia.
Qed.

Print Assumptions cdec_no_panic.
Print Assumptions cdec_alloc_refl.
Print Assumptions cdec_alloc_sig.
Print Assumptions cdec_iters_wfz.
Print Assumptions cdec_budget_enough.
Print Assumptions cdec_iters_refl.
Print Assumptions cdec_gen_alloc_refuted.
Print Assumptions cdec_gen_alloc_unbounded.
Print Assumptions cdec_sig_spin_refuted.
Print Assumptions cdec_refl_panic_refuted.
