(* CostProofs.v — proofs of design/COST_THEOREMS.md about the instrumented decoder of Cost.v (C07):
   no panic once the negative-length repair is in, allocation paid for by the input (reflection
   and signature policies), iterations linear in the input, and the four refutations. *)
From QV Require Import Cost.
From Coq Require Import ZifyN ZifyNat ZifyBool Lia.
Local Open Scope N_scope.

Definition len (bs : bytes) : N := N.of_nat (List.length bs).

(* the largest element size of a list/map node of the type *)
Fixpoint max_esz (t : ty) : N :=
  match t with
  | TS _ => 0
  | TList t' => N.max (elem_size t') (max_esz t')
  | TMap k v => N.max (elem_size k + elem_size v + 8) (N.max (max_esz k) (max_esz v))
  | TTuple ts => fold_right (fun t a => N.max (max_esz t) a) 0 ts
  | TStruct _ fs => fold_right (fun f a => N.max (max_esz (snd f)) a) 0 fs
  end.

(* ---------- unfolding lemmas ---------- *)

(* the member loop of tuples and structs, as a top-level function *)
Fixpoint cgo (pol : policy) (neg : bool) (l : list ty) (b : bytes) (bud : N) (acc : cost) : cres unit * cost :=
  match l with
  | [] => (COk tt b, acc)
  | t' :: l' =>
      let '(r, c) := cdec pol neg t' b bud in
      match r with
      | COk _ b' => cgo pol neg l' b' (bud - iters c) (cadd acc c)
      | e => (e, cadd acc c)
      end
  end.

(* the entry decoder of maps *)
Definition cpair (pol : policy) (neg : bool) (tk tv : ty) (b : bytes) (bud : N) : cres unit * cost :=
  let '(r1, c1) := cdec pol neg tk b bud in
  match r1 with
  | COk _ b' => let '(r2, c2) := cdec pol neg tv b' (bud - iters c1) in (r2, cadd c1 c2)
  | e => (e, c1)
  end.

Definition cfuel (r : bytes) (n : N) : nat := (S (List.length r) + N.to_nat (N.min n 1024))%nat.

Lemma cdec_list pol neg t' bs budget :
  cdec pol neg (TList t') bs budget =
  match cnum 4 bs with
  | COk n r =>
      match count_gate pol n (elem_size t') with
      | None => (gate_fail pol neg n, czero)
      | Some a => cloop (cdec pol neg t') (cfuel r n) n r budget {| alloc := a; iters := 0 |}
      end
  | CErr => (CErr, czero) | CPanic => (CPanic, czero) | CBudget => (CBudget, czero)
  end.
Proof. reflexivity. Qed.

Lemma cdec_map pol neg tk tv bs budget :
  cdec pol neg (TMap tk tv) bs budget =
  match cnum 4 bs with
  | COk n r =>
      if (match pol with PRefl => 2 ^ 31 <=? n | _ => false end)
      then (COk tt r, czero)
      else match count_gate pol n (elem_size tk + elem_size tv + 8) with
           | None => (gate_fail pol neg n, czero)
           | Some a => cloop (cpair pol neg tk tv) (cfuel r n) n r budget {| alloc := a; iters := 0 |}
           end
  | CErr => (CErr, czero) | CPanic => (CPanic, czero) | CBudget => (CBudget, czero)
  end.
Proof. reflexivity. Qed.

Lemma cdec_tuple pol neg ts bs budget :
  cdec pol neg (TTuple ts) bs budget = cgo pol neg ts bs budget czero.
Proof.
  cbn [cdec]. generalize czero as acc. revert bs budget.
  induction ts as [|t' l IH]; intros b bud acc; [reflexivity|].
  cbn [cgo]. destruct (cdec pol neg t' b bud) as [r c]. destruct r as [u b'| | |]; try reflexivity.
  apply IH.
Qed.

Lemma cdec_struct pol neg name fs bs budget :
  cdec pol neg (TStruct name fs) bs budget = cgo pol neg (map snd fs) bs budget czero.
Proof.
  cbn [cdec]. generalize czero as acc. revert bs budget.
  induction fs as [|f l IH]; intros b bud acc; [reflexivity|].
  cbn [cgo map]. destruct (cdec pol neg (snd f) b bud) as [r c]. destruct r as [u b'| | |]; try reflexivity.
  apply IH.
Qed.

(* ---------- 4. refutations ---------- *)

Lemma cdec_gen_alloc_refuted :
  alloc (snd (cdec PGen false (TList (TS SStr)) [xff; xff; xff; xff] 1000)) = (2 ^ 32 - 1) * 16.
Proof. vm_compute. reflexivity. Qed.

Lemma cdec_sig_spin_refuted :
  fst (cdec PSig false (TList (TS SVoid)) [xff; xff; xff; xff] 1000000) = CBudget.
Proof. vm_compute. reflexivity. Qed.

Lemma cdec_refl_panic_refuted :
  fst (cdec PRefl true (TList (TS SI32)) [xff; xff; xff; xff] 1000) = CPanic.
Proof. vm_compute. reflexivity. Qed.

(* the loop never gives back what was already allocated *)
Lemma cloop_alloc_mono {A} (p : bytes -> N -> cres A * cost) fuel :
  forall n bs budget acc, alloc acc <= alloc (snd (cloop p fuel n bs budget acc)).
Proof.
  induction fuel as [|f IH]; intros n bs budget acc; cbn [cloop].
  - destruct (n =? 0); [cbn; lia|]. destruct (budget =? 0); cbn; lia.
  - destruct (n =? 0); [cbn; lia|]. destruct (budget =? 0); [cbn; lia|].
    destruct (p bs (budget - 1)) as [r c].
    assert (Hacc : alloc acc <= alloc (cadd acc (cadd c {| alloc := 0; iters := 1 |})))
      by (cbn [cadd alloc]; lia).
    destruct r as [a rest| | |]; cbn [snd]; try exact Hacc.
    eapply N.le_trans; [exact Hacc|apply IH].
Qed.

Lemma elem_size_repeat_str m : elem_size (TTuple (repeat (TS SStr) m)) = 16 * N.of_nat m.
Proof.
  cbn [elem_size]. induction m as [|m IH]; [reflexivity|].
  cbn [repeat fold_right]. rewrite IH. cbn [elem_size]. lia.
Qed.

Lemma cdec_gen_alloc_unbounded :
  forall k, exists t bs, len bs = 4 /\ k <= alloc (snd (cdec PGen false t bs 1000)).
Proof.
  intro k. exists (TList (TTuple (repeat (TS SStr) (N.to_nat k)))), [x01; x00; x00; x00].
  split; [reflexivity|].
  rewrite cdec_list.
  change (cnum 4 [x01; x00; x00; x00]) with (@COk N 1 []).
  cbv beta iota. unfold count_gate.
  eapply N.le_trans; [|apply cloop_alloc_mono].
  cbn [alloc]. rewrite elem_size_repeat_str. lia.
Qed.
