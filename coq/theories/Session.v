(* Session.v — executable model of Session.client (/repo/bus/session/session.go): the
   connection pool shared by the goroutines that ask one session for proxies and objects.

   The body of `client` is an instruction list `prog` (its rendering `render (prog c)` is what
   srcfacts extracts from the source; ties/TieC19.v proves the two equal).  The list is run by
   a small machine with any number of threads, each executing `client` for its own list of
   endpoint addresses, sharing the pool map, the pool's sync.RWMutex and the set of open
   connections.  One instruction = one atomic step of one thread; a schedule is a list of
   (thread, choice) labels, the choice being the result of the dial (which address of the
   service answered, or none).

   sync.RWMutex follows the documented contract: RLock waits while a writer holds the lock,
   Lock waits while anybody holds it, RUnlock of an RWMutex that is not read-locked and Unlock
   of one that is not write-locked are fatal errors that end the process.  The mutex state
   records who holds it (which the real one does not: an RUnlock by a goroutine that holds no
   read lock, while another one does, releases that other one's — modelled as such).

   Defect switch `runlock_after_lock`: the pinned code leaves the write-locked section of the
   second lookup through `s.pollMutex.RUnlock()`.
   No proofs in this file.  Stdlib only. *)
From Coq Require Import List Arith Bool String.
Import ListNotations.

Record cfg := { runlock_after_lock : bool }.
Definition clean (c : cfg) : Prop := runlock_after_lock c = false.
Definition cfg_clean : cfg := {| runlock_after_lock := false |}.
Definition cfg_pinned : cfg := {| runlock_after_lock := true |}.

(* ---------- the program ---------- *)

Inductive instr :=
| IIfEmptyErr                       (* if len(info.Endpoints) == 0 { return nil, err } *)
| IRLock | IRUnlock | ILock | IUnlock   (* s.pollMutex.<op>() *)
| IRangeLookup (hit : code)         (* for _, addr := range info.Endpoints { c, ok := s.poll[addr]; if ok { hit } } *)
| IDialOrErr                        (* addr, channel, err := bus.SelectEndPoint(...); if err != nil { return nil, err } *)
| ILookupSel (hit : code)           (* c, ok := s.poll[addr]; if ok { hit } *)
| INewClient                        (* c = bus.NewClient(channel) *)
| IInsert                           (* s.poll[addr] = c *)
| IAddHandler                       (* endpoint.AddHandler(filter, consumer, closer) *)
| ICloseEndpoint                    (* endpoint.Close() *)
| IReturnC                          (* return c, nil *)
with code := CNil | CCons (i : instr) (k : code).

Notation "i ;; k" := (CCons i k) (at level 60, right associativity).

Definition prog (c : cfg) : code :=
  IIfEmptyErr ;;
  IRLock ;;
  IRangeLookup (IRUnlock ;; IReturnC ;; CNil) ;;
  IRUnlock ;;
  IDialOrErr ;;
  ILock ;;
  ILookupSel ((if runlock_after_lock c then IRUnlock else IUnlock) ;; ICloseEndpoint ;; IReturnC ;; CNil) ;;
  INewClient ;;
  IInsert ;;
  IUnlock ;;
  IAddHandler ;;
  IReturnC ;; CNil.

(* the token list srcfacts produces for the body of Session.client *)
Local Open Scope string_scope.
Fixpoint render (k : code) : list string :=
  match k with
  | CNil => []
  | CCons i r =>
      (match i with
       | IIfEmptyErr => ["if-no-endpoints{"; "return-err"; "}"]
       | IRLock => ["RLock"] | IRUnlock => ["RUnlock"] | ILock => ["Lock"] | IUnlock => ["Unlock"]
       | IRangeLookup hit => ["range-endpoints{"; "lookup"; "if-ok{"] ++ render hit ++ ["}"; "}"]
       | IDialOrErr => ["dial"; "if-err{"; "return-err"; "}"]
       | ILookupSel hit => ["lookup"; "if-ok{"] ++ render hit ++ ["}"]
       | INewClient => ["new-client"]
       | IInsert => ["insert"]
       | IAddHandler => ["add-handler"]
       | ICloseEndpoint => ["close-endpoint"]
       | IReturnC => ["return-c"]
       end) ++ render r
  end.
Local Close Scope string_scope.

(* ---------- machine state ---------- *)

(* what a call of client() has returned *)
Inductive tresult := Running | Failed | Returned (c : nat) | ReturnedNil.

(* one goroutine inside client(info): the endpoint addresses of info, the rest of the body, the
   address selected by the dial, the local variable c (clients and connections are named by
   the index of the thread whose dial created them: a call dials at most once) *)
Record thread := { t_eps : list nat; t_k : code; t_sel : option nat; t_c : option nat; t_res : tresult }.

(* shared: holders of the read lock, holder of the write lock, the pool (address -> client,
   first entry wins = Go's map assignment), the connections currently open *)
Record shared := { s_rh : list nat; s_wh : option nat; s_pool : list (nat * nat); s_open : list nat }.

Record st := { st_sh : shared; st_thr : list thread }.

Definition lookup (a : nat) (p : list (nat * nat)) : option nat :=
  match find (fun e => fst e =? a) p with Some e => Some (snd e) | None => None end.

Fixpoint first_hit (eps : list nat) (p : list (nat * nat)) : option nat :=
  match eps with
  | [] => None
  | a :: r => match lookup a p with Some c => Some c | None => first_hit r p end
  end.

Fixpoint remove_one (i : nat) (l : list nat) : list nat :=
  match l with
  | [] => []
  | x :: r => if x =? i then r else x :: remove_one i r
  end.

Definition mem (i : nat) (l : list nat) : bool := existsb (Nat.eqb i) l.

Inductive tres := TBlocked | TFatal | TNext (s : shared) (t : thread).

Definition set_k (t : thread) (k : code) : thread :=
  {| t_eps := t_eps t; t_k := k; t_sel := t_sel t; t_c := t_c t; t_res := t_res t |}.
Definition set_kc (t : thread) (k : code) (c : nat) : thread :=
  {| t_eps := t_eps t; t_k := k; t_sel := t_sel t; t_c := Some c; t_res := t_res t |}.
Definition set_ksel (t : thread) (k : code) (a : nat) : thread :=
  {| t_eps := t_eps t; t_k := k; t_sel := Some a; t_c := t_c t; t_res := t_res t |}.
Definition finish (t : thread) (r : tresult) : thread :=
  {| t_eps := t_eps t; t_k := CNil; t_sel := t_sel t; t_c := t_c t; t_res := r |}.

Definition with_rh (s : shared) (rh : list nat) : shared :=
  {| s_rh := rh; s_wh := s_wh s; s_pool := s_pool s; s_open := s_open s |}.
Definition with_wh (s : shared) (wh : option nat) : shared :=
  {| s_rh := s_rh s; s_wh := wh; s_pool := s_pool s; s_open := s_open s |}.
Definition with_pool (s : shared) (p : list (nat * nat)) : shared :=
  {| s_rh := s_rh s; s_wh := s_wh s; s_pool := p; s_open := s_open s |}.
Definition with_open (s : shared) (o : list nat) : shared :=
  {| s_rh := s_rh s; s_wh := s_wh s; s_pool := s_pool s; s_open := o |}.

(* one instruction of thread i; ch is the outcome of the dial when the instruction is one *)
Definition tstep (s : shared) (i : nat) (t : thread) (ch : option nat) : tres :=
  match t_res t with
  | Running =>
      match t_k t with
      | CNil => TBlocked
      | CCons ins k =>
          match ins with
          | IIfEmptyErr =>
              match t_eps t with [] => TNext s (finish t Failed) | _ => TNext s (set_k t k) end
          | IRLock =>
              match s_wh s with None => TNext (with_rh s (i :: s_rh s)) (set_k t k) | Some _ => TBlocked end
          | IRUnlock =>
              match s_rh s with
              | [] => TFatal                                   (* sync: RUnlock of unlocked RWMutex *)
              | _ :: r => TNext (with_rh s (if mem i (s_rh s) then remove_one i (s_rh s) else r)) (set_k t k)
              end
          | ILock =>
              match s_wh s, s_rh s with
              | None, [] => TNext (with_wh s (Some i)) (set_k t k)
              | _, _ => TBlocked
              end
          | IUnlock =>
              match s_wh s with
              | None => TFatal                                 (* sync: Unlock of unlocked RWMutex *)
              | Some _ => TNext (with_wh s None) (set_k t k)
              end
          | IRangeLookup hit =>
              match first_hit (t_eps t) (s_pool s) with
              | Some c => TNext s (set_kc t hit c)
              | None => TNext s (set_k t k)
              end
          | IDialOrErr =>
              match ch with
              | None => TNext s (finish t Failed)
              | Some a => if mem a (t_eps t) then TNext (with_open s (i :: s_open s)) (set_ksel t k a) else TBlocked
              end
          | ILookupSel hit =>
              match t_sel t with
              | None => TBlocked
              | Some a => match lookup a (s_pool s) with
                          | Some c => TNext s (set_kc t hit c)
                          | None => TNext s (set_k t k)
                          end
              end
          | INewClient =>
              match t_sel t with None => TBlocked | Some _ => TNext s (set_kc t k i) end
          | IInsert =>
              match t_sel t, t_c t with
              | Some a, Some c => TNext (with_pool s ((a, c) :: s_pool s)) (set_k t k)
              | _, _ => TBlocked
              end
          | IAddHandler => TNext s (set_k t k)
          | ICloseEndpoint => TNext (with_open s (remove_one i (s_open s))) (set_k t k)
          | IReturnC =>
              TNext s (finish t (match t_c t with Some c => Returned c | None => ReturnedNil end))
          end
      end
  | _ => TBlocked
  end.

Fixpoint upd {A} (i : nat) (x : A) (l : list A) : list A :=
  match l, i with
  | [], _ => []
  | _ :: r, O => x :: r
  | y :: r, S j => y :: upd j x r
  end.

Inductive outcome := Run (s : st) | Fatal | Stuck.

Definition label := (nat * option nat)%type.

Definition step (s : st) (l : label) : outcome :=
  let (i, ch) := l in
  match nth_error (st_thr s) i with
  | None => Stuck
  | Some t =>
      match tstep (st_sh s) i t ch with
      | TBlocked => Stuck
      | TFatal => Fatal
      | TNext sh' t' => Run {| st_sh := sh'; st_thr := upd i t' (st_thr s) |}
      end
  end.

(* a schedule; Stuck: the list is not a schedule of the system (a label names a thread that is
   waiting, finished or absent) *)
Fixpoint exec (s : st) (ls : list label) : outcome :=
  match ls with
  | [] => Run s
  | l :: r => match step s l with Run s' => exec s' r | o => o end
  end.

Definition new_thread (c : cfg) (eps : list nat) : thread :=
  {| t_eps := eps; t_k := prog c; t_sel := None; t_c := None; t_res := Running |}.
Definition init_sh : shared := {| s_rh := []; s_wh := None; s_pool := []; s_open := [] |}.
(* one thread per entry of epss: the endpoint addresses of the service it asks for *)
Definition init (c : cfg) (epss : list (list nat)) : st :=
  {| st_sh := init_sh; st_thr := map (new_thread c) epss |}.

Definition pooled (x : nat) (p : list (nat * nat)) : bool := existsb (fun e => snd e =? x) p.
Definition all_done (s : st) : bool :=
  forallb (fun t => match t_res t with Running => false | _ => true end) (st_thr s).

(* ---------- static lock / pool discipline ---------- *)

(* what is known about a thread at a program point: which lock it holds, whether it has
   dialed, whether its selected address is known to be absent from the pool (under the write
   lock), what its variable c holds, whether it still owns an unpooled open connection *)
Inductive mode := MN | MR | MW.
Inductive cst := CNone | CPooled | CFresh | CBad.
Record astate := { a_mode : mode; a_sel : bool; a_absent : bool; a_c : cst; a_owns : bool }.

Definition mode_eqb (a b : mode) : bool :=
  match a, b with MN, MN | MR, MR | MW, MW => true | _, _ => false end.
Definition cst_eqb (a b : cst) : bool :=
  match a, b with CNone, CNone | CPooled, CPooled | CFresh, CFresh | CBad, CBad => true | _, _ => false end.

Definition a_set_mode (a : astate) (m : mode) : astate :=
  {| a_mode := m; a_sel := a_sel a; a_absent := false; a_c := a_c a; a_owns := a_owns a |}.
Definition a_set_c (a : astate) (c : cst) : astate :=
  {| a_mode := a_mode a; a_sel := a_sel a; a_absent := a_absent a; a_c := c; a_owns := a_owns a |}.

(* check a k: every path through k from a program point described by a respects the
   discipline: lock operations are balanced and never nested, the pool is read under a lock and
   written under the write lock only for an address just found absent, the dial happens at
   most once and outside the lock, every exit is lock-free, returns a pooled client and leaves
   no unpooled connection open *)
Fixpoint check (a : astate) (k : code) {struct k} : bool :=
  negb (cst_eqb (a_c a) CBad) &&
  match k with
  | CNil => false
  | CCons i r =>
      match i with
      | IIfEmptyErr => mode_eqb (a_mode a) MN && negb (a_owns a) && check a r
      | IRLock => mode_eqb (a_mode a) MN && check (a_set_mode a MR) r
      | IRUnlock => mode_eqb (a_mode a) MR && check (a_set_mode a MN) r
      | ILock => mode_eqb (a_mode a) MN && check (a_set_mode a MW) r
      | IUnlock => mode_eqb (a_mode a) MW && check (a_set_mode a MN) r
      | IRangeLookup hit =>
          negb (mode_eqb (a_mode a) MN) && check (a_set_c a CPooled) hit && check a r
      | IDialOrErr =>
          mode_eqb (a_mode a) MN && negb (a_sel a) && negb (a_owns a) &&
          check {| a_mode := MN; a_sel := true; a_absent := false; a_c := a_c a; a_owns := true |} r
      | ILookupSel hit =>
          negb (mode_eqb (a_mode a) MN) && a_sel a && check (a_set_c a CPooled) hit &&
          check {| a_mode := a_mode a; a_sel := true; a_absent := mode_eqb (a_mode a) MW; a_c := a_c a; a_owns := a_owns a |} r
      | INewClient => a_sel a && a_owns a && check (a_set_c a CFresh) r
      | IInsert =>
          mode_eqb (a_mode a) MW && a_absent a && cst_eqb (a_c a) CFresh && a_owns a &&
          check {| a_mode := MW; a_sel := a_sel a; a_absent := false; a_c := CPooled; a_owns := false |} r
      | IAddHandler => check a r
      | ICloseEndpoint =>
          a_owns a && negb (cst_eqb (a_c a) CFresh) &&
          check {| a_mode := a_mode a; a_sel := a_sel a; a_absent := a_absent a; a_c := a_c a; a_owns := false |} r
      | IReturnC => mode_eqb (a_mode a) MN && cst_eqb (a_c a) CPooled && negb (a_owns a)
      end
  end.

Definition a_init : astate := {| a_mode := MN; a_sel := false; a_absent := false; a_c := CNone; a_owns := false |}.
