(* Cost.v — resource accounting for the decoders (C07).
   The typed decoder is written once more, in a monad that counts
     alloc : bytes requested from the allocator for containers/strings BEFORE their content is read
             (make([]T, n), make(map, n), make([]byte, n)), and
     iters : loop iterations,
   and that stops with RBudget when an iteration budget is exhausted (the model's counterpart of
   the harness' wall-clock cap: the pinned code spins on some inputs and the model must not).
   A policy says what the code does with a count read from the wire:
     PGen   generated Unmarshal code (type.go templates): allocate count elements, loop count times
     PRefl  reflection decoder: refuse counts above 4096 (and negative ones), then allocate
     PSig   signature-driven reader: no allocation from the count, loop count times
   Outcomes and consumed bytes of these instrumented decoders coincide with spec_dec / refl_dec /
   sig_read (checked by the correspondence run on hostile inputs, see run/C07Run.v). *)
From QV Require Export Wire.
Local Open Scope N_scope.

Inductive policy := PGen | PRefl | PSig.

Record cost := { alloc : N; iters : N }.
Definition czero : cost := {| alloc := 0; iters := 0 |}.
Definition cadd (a b : cost) : cost := {| alloc := alloc a + alloc b; iters := iters a + iters b |}.

Inductive cres (A : Type) :=
| COk (a : A) (rest : bytes)
| CErr
| CPanic
| CBudget.     (* iteration budget exhausted: the implementation would still be looping *)
Arguments COk {A} a rest.
Arguments CErr {A}.
Arguments CPanic {A}.
Arguments CBudget {A}.

(* in-memory size of one element of a Go slice/map of the given type (words of 8 bytes) *)
Fixpoint elem_size (t : ty) : N :=
  match t with
  | TS s => match s with
            | SI8 | SU8 | SBool => 1 | SI16 | SU16 => 2 | SI32 | SU32 | SF32 => 4
            | SI64 | SU64 | SF64 => 8 | SStr | SValue => 16 | SObject => 64 | SUnknown => 16 | SVoid => 0
            end
  | TList _ => 24
  | TMap _ _ => 8
  | TTuple ts => fold_right (fun t a => elem_size t + a) 0 ts
  | TStruct _ fs => fold_right (fun f a => elem_size (snd f) + a) 0 fs
  end.

Definition ctake (n : nat) (bs : bytes) : cres bytes :=
  if Nat.ltb (List.length bs) n then CErr else COk (firstn n bs) (skipn n bs).
Definition cnum (w : nat) (bs : bytes) : cres N :=
  match ctake w bs with COk d r => COk (unle d) r | CErr => CErr | CPanic => CPanic | CBudget => CBudget end.

(* basic.ReadString: the buffer is allocated after the size test, before the bytes are read *)
Definition cstr (bs : bytes) : cres bytes * cost :=
  match cnum 4 bs with
  | COk n r =>
      if n =? 0 then (COk [] r, czero)
      else if MaxStringSize <? n then (CErr, czero)
      else (ctake (N.to_nat n) r, {| alloc := n; iters := 0 |})
  | CErr => (CErr, czero) | CPanic => (CPanic, czero) | CBudget => (CBudget, czero)
  end.

Section Loop.
  Context {A : Type}.
  Variable p : bytes -> N -> cres A * cost.      (* element decoder: input, remaining budget *)
  (* count iterations, each charged one unit of budget *)
  Fixpoint cloop (fuel : nat) (n : N) (bs : bytes) (budget : N) (acc : cost) : cres unit * cost :=
    if n =? 0 then (COk tt bs, acc)
    else if budget =? 0 then (CBudget, acc)
    else match fuel with
         | O => (CBudget, acc)
         | S f =>
             let '(r, c) := p bs (budget - 1) in
             let acc' := cadd acc (cadd c {| alloc := 0; iters := 1 |}) in
             match r with
             | COk _ rest => cloop f (n - 1) rest (budget - 1 - iters c) acc'
             | CErr => (CErr, acc') | CPanic => (CPanic, acc') | CBudget => (CBudget, acc')
             end
         end.
End Loop.

Section Cdec.
  Variable pol : policy.
  Variable neg_len_panics : bool.

  (* what a count costs before the loop starts: (allowed?, allocation) *)
  Definition count_gate (n : N) (esz : N) : option N :=
    match pol with
    | PGen => Some (n * esz)
    | PSig => Some 0
    | PRefl =>
        if 2 ^ 31 <=? n then None              (* negative as int32 *)
        else if listValueMaxSize <? n then None
        else Some (n * esz)
    end.
  Definition gate_fail (n : N) : cres unit :=
    match pol with
    | PRefl => if (2 ^ 31 <=? n) && neg_len_panics then CPanic else CErr
    | _ => CErr
    end.

  (* the typed decoder; dynamic values and objects are outside the generated / reflection codecs
     modelled here (the signature reader's "m" goes through cdec_value in CostValue) *)
  Fixpoint cdec (t : ty) (bs : bytes) (budget : N) {struct t} : cres unit * cost :=
    match t with
    | TS s =>
        match s with
        | SStr => let '(r, c) := cstr bs in
                  (match r with COk _ rest => COk tt rest | CErr => CErr | CPanic => CPanic | CBudget => CBudget end, c)
        | SVoid => (COk tt bs, czero)
        | SUnknown | SValue | SObject => (CErr, czero)
        | SBool => (match ctake 1 bs with COk _ r => COk tt r | CErr => CErr | CPanic => CPanic | CBudget => CBudget end, czero)
        | _ => match scalar_width s with
               | Some w => (match ctake w bs with COk _ r => COk tt r | CErr => CErr | CPanic => CPanic | CBudget => CBudget end, czero)
               | None => (CErr, czero)
               end
        end
    | TList t' =>
        match cnum 4 bs with
        | COk n r =>
            match count_gate n (elem_size t') with
            | None => (gate_fail n, czero)
            | Some a => cloop (cdec t') (S (List.length r) + N.to_nat (N.min n 1024)) n r budget {| alloc := a; iters := 0 |}
            end
        | CErr => (CErr, czero) | CPanic => (CPanic, czero) | CBudget => (CBudget, czero)
        end
    | TMap tk tv =>
        match cnum 4 bs with
        | COk n r =>
            if (match pol with PRefl => 2 ^ 31 <=? n | _ => false end)
            then (COk tt r, czero)               (* reflection decoder: negative map length = empty map *)
            else
                match count_gate n (elem_size tk + elem_size tv + 8) with
                | None => (gate_fail n, czero)
                | Some a =>
                    cloop (fun b bud =>
                             let '(r1, c1) := cdec tk b bud in
                             match r1 with
                             | COk _ b' => let '(r2, c2) := cdec tv b' (bud - iters c1) in (r2, cadd c1 c2)
                             | e => (e, c1)
                             end)
                          (S (List.length r) + N.to_nat (N.min n 1024)) n r budget {| alloc := a; iters := 0 |}
                end
        | CErr => (CErr, czero) | CPanic => (CPanic, czero) | CBudget => (CBudget, czero)
        end
    | TTuple ts =>
        (fix go (l : list ty) (b : bytes) (bud : N) (acc : cost) : cres unit * cost :=
           match l with
           | [] => (COk tt b, acc)
           | t' :: l' => let '(r, c) := cdec t' b bud in
                         match r with
                         | COk _ b' => go l' b' (bud - iters c) (cadd acc c)
                         | e => (e, cadd acc c)
                         end
           end) ts bs budget czero
    | TStruct _ fs =>
        (fix go (l : list (string * ty)) (b : bytes) (bud : N) (acc : cost) : cres unit * cost :=
           match l with
           | [] => (COk tt b, acc)
           | f :: l' => let '(r, c) := cdec (snd f) b bud in
                        match r with
                        | COk _ b' => go l' b' (bud - iters c) (cadd acc c)
                        | e => (e, cadd acc c)
                        end
           end) fs bs budget czero
    end.
End Cdec.

(* Message.Read: the payload buffer is allocated after the size test *)
Definition cmsg_alloc (size : N) (max : N) : N := if max <? size then 28 else 28 + size.

(* NewValue's own allocation sites *)
Definition cvalue_list_alloc (n : N) : N := if listValueMaxSize <? n then 0 else 16 * n.
Definition cvalue_raw_alloc (n : N) (max : N) : N := if max <? n then 0 else n.
Definition ccapmap_alloc (n : N) (max : N) : N := if max <? n then 0 else 48 * n.

Definition class_of {A} (r : cres A) : N := match r with COk _ _ => 0 | CErr => 1 | CPanic => 2 | CBudget => 4 end.
Definition left_of {A} (r : cres A) : N := match r with COk _ rest => N.of_nat (List.length rest) | _ => 0 end.
